"""C04 — undo of the two range mark steps (lean/PM/MarkUndoGuard.lean, theorems removeMarkStep_undo /
addMarkStep_undo / planRemoveMark_steps_exact / planAddMark_steps_exact / markHistory_undo).

`AddMarkStep.invert` is `RemoveMarkStep` with the same range and mark and vice versa.  The model states, token by
token, for which steps that naive inverse restores the document (`removeMarkUndoable` / `addMarkUndoable`); the
theorems say the guard is exact and that `Transform.add_mark` / `remove_mark` emit only steps satisfying it —
except over an inline node with content (`flatInline`) and over an inline node carrying two marks of the removed
mark's type (`sameTypeFree`, finding C04-same-type-mark-order).

Tie (exact): the model's guard against "the real inverse, applied to the real result, gives back a document `eq`
to the original" for every applied AddMarkStep / RemoveMarkStep (primitive random steps and the steps recorded by
histories).  `sameTypeFree` and `flatInline` are compared exactly with the same conditions computed on the real
document.  Theorem oracles: a step recorded by `add_mark` / `remove_mark` on a valid document with flatInline and
(for a RemoveMarkStep) sameTypeFree  =>  guard true (planner theorems) and the real inverse restores.
"""
from prosemirror.model import Schema
from prosemirror.transform import AddMarkStep, RemoveMarkStep, Transform

from ..codec import SchemaInfo
from ..core import outcome

MARK_STEPS = (AddMarkStep, RemoveMarkStep)


def py_same_type_free(doc, f, t, mtype):
    """no inline node starting in [f, t) carries two or more marks of type `mtype` (`nodes_between` reports every
    node overlapping the range; a node *starts* in the range iff f <= pos < t — for a text node any of its
    characters may start in the range, and they all carry the node's marks)"""
    bad = []

    def it(node, pos, parent, index):
        if node.is_inline and len([m for m in node.marks if m.type is mtype]) >= 2:
            lo = max(pos, f)
            hi = min(pos + (node.node_size if node.is_text else 1), t)
            if lo < hi:
                bad.append(pos)
        return True

    if f < t:
        doc.nodes_between(f, min(t, doc.content.size), it)
    return not bad


def py_flat_inline(doc):
    bad = []

    def it(node, pos, parent, index):
        if node.is_inline and not node.is_leaf:
            bad.append(pos)
        return True

    doc.descendants(it)
    return not bad


def py_self_excluding(schema):
    return all(t.excludes(t) for t in schema.marks.values())


def single(ctx, info, doc, step, res_doc, reqs, metas, origin, planned=False):
    """one applied range mark step: the real single-step undo, and the request for the model's guards"""
    kind = "add" if isinstance(step, AddMarkStep) else "remove"
    replay = {"schema": info.name, "doc": doc.to_json(), "step": step.to_json(), "origin": origin, "planned": planned}
    ctx.case(["mark-undo", info.name, doc.to_json(), step.to_json()],
             sample={"op": "mark invert+apply", "schema": info.name, "step": step.to_json(), "origin": origin})
    ctx.count("mark-undo:" + kind + ":" + origin)
    sti, inv = outcome(lambda: step.invert(doc))
    if sti != "ok":
        ctx.violation("invert-raises", f"Step.invert raised {inv} on a step that applied", replay)
        return
    stb, back = outcome(lambda: inv.apply(res_doc))
    applied = stb == "ok" and back.doc is not None
    restored = applied and back.doc.eq(doc)
    valid = outcome(doc.check)[0] == "ok"
    stf = py_same_type_free(doc, step.from_, step.to, step.mark.type)
    flat = py_flat_inline(doc)
    reqs.append({"op": "markUndoGuards", "s": info.lean_id, "doc": info.node(doc), "from": step.from_, "to": step.to,
                 "mark": info.mark(step.mark), "kind": kind})
    metas.append(("markUndoGuards", replay, (info, kind, applied, restored, valid, stf, flat, planned,
                                             None if applied else (back.failed if stb == "ok" else str(back)))))


def compare(ctx, replay, payload, out):
    info, kind, applied, restored, valid, stf, flat, planned, detail = payload
    if "ok" not in out:
        ctx.mismatch("markUndoGuards", replay, "guards", out)
        return
    g, m_stf, m_flat, m_self = out["ok"]
    ctx.count("mark-guard:%s:%s" % (kind, "true" if g else "false"))
    if m_stf != stf:
        ctx.mismatch("sameTypeFree", replay, f"impl sameTypeFree={stf}", f"model sameTypeFree={m_stf}")
    if m_flat != flat:
        ctx.mismatch("flatInline", replay, f"impl flatInline={flat}", f"model flatInline={m_flat}")
    if m_self != py_self_excluding(info.schema):
        ctx.mismatch("selfExcluding", replay, f"impl selfExcluding={not m_self}", f"model selfExcluding={m_self}")
    if not applied:
        # the guard says nothing about whether the inverse applies (TextLoop + validity do: removeMarkStep_undo)
        ctx.count("mark-inverse-refused")
        if valid and g:
            ctx.count("mark-inverse-refused:guard-true")
        return
    # exact: restoring <=> guard (removeMarkStep_undo_iff / addMarkStep_undo_iff need no validity)
    if g != restored:
        ctx.mismatch("markUndoable", replay, f"impl inverse restores={restored}", f"model guard={g}")
    if not stf:
        ctx.count("mark-step-same-type:" + ("restored" if restored else "not-restored"))
    if planned and not flat:
        ctx.count("mark-planned-nonflat:" + ("restored" if restored else "not-restored"))
    # planner theorems as oracles
    if planned and valid and flat and (kind == "add" or stf):
        ctx.count("mark-planned-guarded")
        if not g:
            ctx.mismatch("planSteps_exact-theorem", replay, "planned step satisfies its guard", "model guard false")
        if not restored:
            ctx.mismatch("markStep_undo-theorem", replay, "guards hold", "the real inverse does not restore")


# ---- aimed: a schema with an inline node that has content (no bundled schema has one): `flatInline` is false there,
# the planners' steps are no longer exact (RemoveMarkStep strips the mark from the span, AddMarkStep only marks atoms),
# and the exact guard has to say so step by step
_SPAN = None


def span_info():
    global _SPAN
    if _SPAN is None:
        _SPAN = SchemaInfo(Schema({"nodes": {
            "doc": {"content": "paragraph+"},
            "paragraph": {"content": "inline*"},
            "span": {"content": "text*", "group": "inline", "inline": True},
            "img": {"group": "inline", "inline": True},
            "text": {"group": "inline"},
        }, "marks": {"em": {}, "x": {}, "m": {"excludes": "x"}, "o": {"excludes": "m"}, "c": {"excludes": "", "attrs": {"id": {}}}}}),
            "inline-span-local")
    return _SPAN


def aimed(ctx, rng, gen, reqs, metas):
    info = span_info()
    ctx.driver.add_schema(info)
    S = info.schema
    names = ["em", "x", "m", "o"]

    def rmarks():
        ms = []
        for nm in rng.sample(names, rng.randint(0, 2)):
            ms = S.mark(nm).add_to_set(ms)
        if rng.random() < 0.2:
            for i in rng.sample([1, 2, 3], rng.randint(1, 2)):
                ms = S.mark("c", {"id": i}).add_to_set(ms)
        return ms

    def rinline(depth):
        r = rng.random()
        if r < 0.5:
            return S.text("".join(rng.choice("abcd") for _ in range(rng.randint(1, 3))), rmarks())
        if r < 0.65:
            return S.node("img", None, None, rmarks())
        return S.node("span", None, [S.text("".join(rng.choice("xyz") for _ in range(rng.randint(1, 3))), rmarks())
                                     for _ in range(rng.randint(0, 2))], rmarks())

    for _ in range(ctx.budget(40, 120)):
        paras = [S.node("paragraph", None, [rinline(0) for _ in range(rng.randint(0, 4))]) for _ in range(rng.randint(1, 2))]
        st, doc = outcome(lambda: S.node("doc", None, paras))
        if st != "ok" or outcome(doc.check)[0] != "ok":
            continue
        size = doc.content.size
        tr = Transform(doc)
        for _k in range(rng.randint(1, 2)):
            f = rng.randint(0, size)
            t = rng.randint(f, size)
            if rng.random() < 0.5:
                mk = S.mark(rng.choice(names)) if rng.random() < 0.8 else S.mark("c", {"id": rng.randint(1, 3)})
                outcome(lambda: tr.add_mark(f, t, mk))
            else:
                sel = rng.choice([None, S.marks[rng.choice(names + ["c"])], S.mark(rng.choice(names))])
                outcome(lambda: tr.remove_mark(f, t, sel))
        ctx.count("aimed-inline-span-histories")
        for k, s_ in enumerate(tr.steps):
            nxt = tr.docs[k + 1] if k + 1 < len(tr.docs) else tr.doc
            if isinstance(s_, MARK_STEPS):
                single(ctx, info, tr.docs[k], s_, nxt, reqs, metas, "aimed-inline-span", planned=True)
