"""A frozen copy of the library (/verif/reference/prosemirror_ref, made by tools/mkreference.sh at the commit in
/verif/reference/COMMIT) and, per property with open known findings, an *observer*: a function that recomputes from a
replay — under a given copy of the library — exactly the behaviour the finding is about.

An open finding matches a violation only if its class predicate holds (harness/findings.py) AND the observer gives the
same answer under the tree being checked as under the frozen copy.  So a known finding stands for "what the recorded
code does on this input"; a change of the code that produces a violation of the same flavour on an input where the
recorded code behaved differently is not covered by the finding and is reported.
Nothing here is written at run time.
"""
import importlib
import json
import os
import sys

VERIF = os.path.dirname(os.path.dirname(os.path.abspath(__file__)))
_REFDIR = os.path.join(VERIF, "reference")


class Lib:
    def __init__(self, pkg):
        model = importlib.import_module(pkg + ".model")
        tr = importlib.import_module(pkg + ".transform")
        self.pkg = pkg
        self.Schema, self.Node, self.Slice, self.Fragment, self.Mark = model.Schema, model.Node, model.Slice, model.Fragment, model.Mark
        self.Step, self.Transform, self.StepMap, self.Mapping = tr.Step, tr.Transform, tr.StepMap, tr.Mapping
        self.structure = importlib.import_module(pkg + ".transform.structure")
        self._schemas = {}


_LIBS = {}


def lib(which):
    """which = 'current' (the tree under check) or 'reference' (the frozen copy)"""
    if which not in _LIBS:
        if which == "reference":
            if _REFDIR not in sys.path:
                sys.path.append(_REFDIR)
            _LIBS[which] = Lib("prosemirror_ref")
        else:
            _LIBS[which] = Lib("prosemirror")
    return _LIBS[which]


def available():
    return os.path.isdir(os.path.join(_REFDIR, "prosemirror_ref"))


def schema_for(L, replay):
    """the replay's schema rebuilt with L's Schema class from the same spec data"""
    from . import schemas
    name = replay.get("schema")
    key = name if name != "random" else json.dumps(replay.get("schema_spec") or replay.get("schema_spec_nodes"), sort_keys=True, default=str)
    if key not in L._schemas:
        if name == "random":
            spec = replay.get("schema_spec")
            if spec is None:
                raise KeyError("random schema without spec")
            nodes, marks = spec["nodes"], spec.get("marks") or {}
        else:
            spec = schemas.by_name(name).schema.spec
            nodes, marks = spec["nodes"], spec.get("marks") or {}
        L._schemas[key] = L.Schema({"nodes": {k: dict(v) for k, v in nodes.items()}, "marks": {k: dict(v) for k, v in marks.items()}})
    return L._schemas[key]


def _safe(f):
    try:
        return f()
    except Exception as e:  # noqa: BLE001
        return {"raises": type(e).__name__, "msg": str(e)[:120]}


def _decode_arg(L, schema, op, i, a):
    """inverse of ops.describe for the operations the open findings involve"""
    if isinstance(a, dict) and "type" in a and ("content" in a or "attrs" in a or "text" in a or "marks" in a or len(a) == 1) and "stepType" not in a:
        if op in ("add_mark", "remove_mark", "add_node_mark", "remove_node_mark") and a.get("type") in schema.marks and "content" not in a and "text" not in a:
            return L.Mark.from_json(schema, a)
        return L.Node.from_json(schema, a)
    if isinstance(a, dict) and ("content" in a or "openStart" in a or "openEnd" in a or a == {}):
        return L.Slice.from_json(schema, a)
    if a is None and op in ("replace", "replace_range"):
        return L.Slice.empty
    if isinstance(a, str) and a in schema.nodes and op in ("set_block_type", "set_node_markup", "wrap", "replace_range_with"):
        return schema.nodes[a]
    return a


def run_transform_op(L, schema, replay):
    doc = L.Node.from_json(schema, replay["doc"])
    tr = L.Transform(doc)
    args = [_decode_arg(L, schema, replay["op"], i, a) for i, a in enumerate(replay.get("args") or [])]
    getattr(tr, replay["op"])(*args)
    return {"doc": tr.doc.to_json(), "steps": [s.to_json() for s in tr.steps]}


# ------------------------------------------------------------------------------------------------ observers

def observe_C18(L, replay):
    schema = schema_for(L, replay)
    return _safe(lambda: run_transform_op(L, schema, replay))


def observe_C12(L, replay):
    schema = schema_for(L, replay)
    doc = L.Node.from_json(schema, replay["doc"])
    if replay.get("kind") in ("drop_point-fails", "insert_point-fails") and isinstance(replay.get("slice"), dict):
        # the follow-up of drop_point: the slice placed at the returned position
        sl = L.Slice.from_json(schema, replay["slice"])
        at = replay.get("point", replay.get("pos"))
        return _safe(lambda: {"doc": L.Transform(doc).replace(at, at, sl).doc.to_json()})

    def go():
        rng_ = doc.resolve(replay["pos"]).block_range(doc.resolve(replay["to"]))
        if rng_ is None:
            return {"range": None}
        if replay.get("helper") == "lift_target":
            target = L.structure.lift_target(rng_)
            out = {"target": target}
            if target is not None:
                out["lift"] = _safe(lambda: L.Transform(doc).lift(rng_, target).doc.to_json())
            return out
        if replay.get("helper") == "find_wrapping":
            inner = schema.nodes[replay["chain"][-1]] if replay.get("chain") else None
            wr = L.structure.find_wrapping(rng_, schema.nodes[replay["wrapper"]] if replay.get("wrapper") else inner,
                                           replay.get("wrapper_attrs"))
            out = {"chain": None if wr is None else [w.type.name for w in wr]}
            if wr is not None:
                out["wrap"] = _safe(lambda: L.Transform(doc).wrap(rng_, wr).doc.to_json())
            return out
        return {"helper": replay.get("helper")}
    return _safe(go)


def observe_C17(L, replay):
    schema = schema_for(L, replay)
    doc = L.Node.from_json(schema, replay["doc"])
    a, b = L.Step.from_json(schema, replay["a"]), L.Step.from_json(schema, replay["b"])

    def order(x, y):
        def go():
            r1 = x.apply(doc)
            if r1.doc is None:
                return {"first": r1.failed}
            y2 = y.map(x.get_map())
            if y2 is None:
                return {"dropped": True}
            r2 = y2.apply(r1.doc)
            return {"failed": r2.failed} if r2.doc is None else {"doc": r2.doc.to_json()}
        return _safe(go)
    return {"ab": order(a, b), "ba": order(b, a)}


def observe_C04(L, replay):
    schema = schema_for(L, replay)
    doc = L.Node.from_json(schema, replay.get("culprit_doc") or replay["doc"])
    step = L.Step.from_json(schema, replay["step"])

    def go():
        r = step.apply(doc)
        if r.doc is None:
            return {"apply": r.failed}
        inv = step.invert(doc)
        back = inv.apply(r.doc)
        return {"after": r.doc.to_json(), "inverse": inv.to_json(),
                "undo": back.failed if back.doc is None else back.doc.to_json()}
    return _safe(go)


def observe_C03(L, replay):
    schema = schema_for(L, replay)
    doc = L.Node.from_json(schema, replay["doc"])
    step = L.Step.from_json(schema, replay["step"])

    def go():
        r = step.apply(doc)
        m = step.get_map()
        return {"ranges": list(m.ranges), "doc": None if r.doc is None else r.doc.to_json(),
                "mapped": m.map(replay["pos"], 1) if isinstance(replay.get("pos"), int) else None}
    return _safe(go)


def observe_C11(L, replay):
    schema = schema_for(L, replay)
    return _safe(lambda: run_transform_op(L, schema, replay))


def observe_C01(L, replay):
    schema = schema_for(L, replay)
    doc = L.Node.from_json(schema, replay["doc"])
    step = L.Step.from_json(schema, replay["step"])

    def go():
        r = step.apply(doc)
        return {"failed": r.failed} if r.doc is None else {"doc": r.doc.to_json()}
    return _safe(go)


OBSERVERS = {"C01": observe_C01, "C03": observe_C03, "C04": observe_C04, "C11": observe_C11, "C12": observe_C12, "C17": observe_C17, "C18": observe_C18}


def same_as_reference(prop, replay):
    """does the tree under check behave, on this replay's input, exactly as the frozen copy does?"""
    obs = OBSERVERS.get(prop)
    if obs is None or not available():
        return False
    try:
        cur = obs(lib("current"), replay)
        ref = obs(lib("reference"), replay)
    except Exception:  # noqa: BLE001
        return False
    return json.dumps(cur, sort_keys=True, default=str) == json.dumps(ref, sort_keys=True, default=str)
