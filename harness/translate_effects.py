"""C10 translator: a syntactic effect summary of the library, regenerated from the source on every run.

Walks the AST of every function in prosemirror/model and prosemirror/transform, lists every syntactic
mutation site (attribute / subscript assignment incl. augmented and `del`, calls of list/dict/set
mutators) and classifies it by rule.  A site is keyed by (module, function qualname, receiver
expression, mutator, the defining expressions that reach the receiver's base name in that function or
its enclosing functions), so dropping a `.copy()` changes the key of the sites that depend on it while
edits elsewhere in the function leave every key untouched.  Output: lean/Gen/Effects.lean with the
table and `theorem no_external_mutation : … := by decide`.

Trust: the analysis is syntactic and intra-procedural; mutation through setattr, C extensions or
aliases created in another function is invisible to it (the snapshot harness searches for those).
"""
import ast
import hashlib
import os

MUTATORS = {"append", "extend", "insert", "pop", "remove", "sort", "reverse", "clear", "update",
            "setdefault", "popitem", "add", "discard"}
FRESH_CALLS = {"list", "dict", "set", "sorted", "tuple", "deepcopy", "copy", "reversed", "defaultdict", "OrderedDict",
               "findall", "split", "keys", "values", "items"}
# classes whose instances are the two documented accumulators
ACCUMULATORS = {"Transform": {"doc", "steps", "docs", "mapping"}, "Mapping": {"maps", "mirror", "to", "from_"}}
# classes whose instances never escape the call that created them / are construction-time builders or caches
# writes two attribute hops below `self` that were reviewed: the object written to is private state as well
PRIVATE_DEEP = {
    ("ParseContext.add_pending_mark", "self.top.pending_marks"),     # `top` is the parser's own NodeContext
    ("Fitter.place_nodes", "self.frontier[...].match"),               # frontier entries belong to one Fitter
    ("Fitter.open_frontier_node", "self.frontier[...].match"),        # the same, through the local `top`
    # Schema.__init__ fills in the NodeType / MarkType objects that NodeType.compile / MarkType.compile created for it
    ("Schema.__init__", "self.nodes[...].content_match"),
    ("Schema.__init__", "self.nodes[...].inline_content"),
    ("Schema.__init__", "self.nodes[...].mark_set"),
    ("Schema.__init__", "self.marks.values().excluded"),
}

PRIVATE_STATE = {
    "Fitter": "the fitter is created and consumed inside replace_step()",
    "_FrontierItem": "frontier entries belong to one Fitter",
    "TokenStream": "token stream of one ContentMatch.parse call",
    "ContentMatch": "match states are filled in while the automaton is built (dfa) and only cache wrappings afterwards (wrap_cache)",
    "NodeContext": "parser context of one DOMParser.parse call",
    "ParseContext": "parser context of one DOMParser.parse call",
    "DOMParser": "parse rules are normalised once at construction",
    "DOMSerializer": "serializer tables are built at construction",
    "Schema": "schema construction fills in its own fresh NodeType/MarkType objects",
    "NodeType": "filled in by Schema.__init__ during construction",
    "MarkType": "filled in by Schema.__init__ during construction",
    "Element": "DOM output objects are built by the serializer call that returns them",
    "DocumentFragment": "DOM output objects are built by the serializer call that returns them",
}
# reviewed keys (file suffix, qualname, receiver, mutator, reaching definitions) with a one-line justification;
# the reaching definitions are part of the key: a different definition of the receiver is a different site
REVIEWED = {
    ("transform/transform.py", "Transform.add_mark.iteratee", "removing.to", "assign", ("None", "RemoveMarkStep(start, end, marks[i])")):
        "the RemoveMarkStep is in a local list and has not been applied or returned yet",
    ("transform/transform.py", "Transform.add_mark.iteratee", "adding.to", "assign", ("AddMarkStep(start, end, mark)", "None")):
        "the AddMarkStep is in a local list and has not been applied or returned yet",
    ("transform/transform.py", "Transform.remove_mark.iteratee", "found[...]", "assign", ("None", "m")):
        "entries of the local `matched` list of plain dicts",
    ("transform/transform.py", "Transform.remove_mark.iteratee", "to_remove", "append", ("None", "[]", "[mark]", "node.marks")):
        "append only happens in the MarkType branch where to_remove was just set to []; the alias to node.marks is only read",
    ("transform/transform.py", "Transform.replace_range", "target_depths", "pop", ("covered_depths(from__, self.doc.resolve(to))",)):
        "covered_depths returns a fresh list on every call",
    ("transform/transform.py", "Transform.replace_range", "target_depths", "insert", ("covered_depths(from__, self.doc.resolve(to))",)):
        "covered_depths returns a fresh list on every call",
    ("transform/step.py", "step_json_id", "STEPS_BY_ID[...]", "assign", ("global",)):
        "the step registry is filled at import time",
    ("transform/step.py", "step_json_id", "step_class.json_id", "assign", ("param",)):
        "class attribute set once at import time",
    ("model/replace.py", "add_node", "target[...]", "assign", ("param",)):
        "target is the fresh local list of the calling replace_two_way / replace_three_way / add_range",
    ("model/replace.py", "add_node", "target", "append", ("param",)):
        "target is the fresh local list of the calling replace_two_way / replace_three_way / add_range",
}
# builder functions whose local data structures never escape (content-expression compilation)
BUILDER_FUNCS = {("model/content.py", "nfa"): "NFA under construction inside nfa()",
                 ("model/content.py", "dfa"): "automaton under construction inside dfa()",
                 ("model/content.py", "check_for_dead_ends"): "local work list"}
# the DOM layer builds / consumes lxml elements and its own Element objects, not document values
DOM_FILES = ("model/from_dom.py", "model/to_dom.py")
FRAGMENT_HINTS = ("Fragment", "fill_before", ".content", "frag", ".append(", "close_node_start", "replace_child")


def src(node):
    try:
        return ast.unparse(node)
    except Exception:  # noqa: BLE001
        return "?"


def receiver_repr(node):
    """normalised receiver expression: subscripts collapse to [...]"""
    if isinstance(node, ast.Subscript):
        return receiver_repr(node.value) + "[...]"
    if isinstance(node, ast.Attribute):
        return receiver_repr(node.value) + "." + node.attr
    if isinstance(node, ast.Name):
        return node.id
    if isinstance(node, ast.Call):
        return receiver_repr(node.func) + "()"
    return src(node)


def base_name(node):
    while isinstance(node, (ast.Attribute, ast.Subscript, ast.Call)):
        node = node.value if not isinstance(node, ast.Call) else node.func
    return node.id if isinstance(node, ast.Name) else None


def is_fresh_expr(e):
    if isinstance(e, (ast.List, ast.Dict, ast.Set, ast.ListComp, ast.DictComp, ast.SetComp, ast.Constant, ast.JoinedStr, ast.Tuple)):
        return True
    if isinstance(e, ast.Subscript) and isinstance(e.slice, ast.Slice):
        return True
    if isinstance(e, ast.BinOp) and isinstance(e.op, (ast.Add, ast.Mult)):
        return is_fresh_expr(e.left) or is_fresh_expr(e.right)
    if isinstance(e, ast.IfExp):
        return is_fresh_expr(e.body) and is_fresh_expr(e.orelse)
    if isinstance(e, ast.Call):
        f = e.func
        name = f.id if isinstance(f, ast.Name) else (f.attr if isinstance(f, ast.Attribute) else None)
        if name in FRESH_CALLS:
            return True
        if name and name[:1].isupper():      # constructor call
            return True
        if name == "cast" and len(e.args) == 2:
            return is_fresh_expr(e.args[1])
    return False


class FuncInfo:
    def __init__(self, qualname, node, parent, cls):
        self.qualname, self.node, self.parent, self.cls = qualname, node, parent, cls
        self.defs = {}          # name -> list of defining expression sources (or markers)
        self.fresh = {}         # name -> all defs fresh?
        self.params = set()


def collect_defs(fi):
    fn = fi.node
    args = fn.args
    for a in list(args.posonlyargs) + list(args.args) + list(args.kwonlyargs) + ([args.vararg] if args.vararg else []) + ([args.kwarg] if args.kwarg else []):
        fi.params.add(a.arg)

    def add(name, expr_src, fresh):
        fi.defs.setdefault(name, []).append(expr_src)
        fi.fresh[name] = fi.fresh.get(name, True) and fresh

    def visit(n):
        for child in ast.iter_child_nodes(n):
            if isinstance(child, (ast.FunctionDef, ast.AsyncFunctionDef, ast.Lambda, ast.ClassDef)):
                continue
            if isinstance(child, (ast.Assign, ast.AnnAssign)):
                targets = child.targets if isinstance(child, ast.Assign) else [child.target]
                value = child.value
                for t in targets:
                    if isinstance(t, ast.Name) and value is not None:
                        add(t.id, src(value), is_fresh_expr(value))
                    elif isinstance(t, (ast.Tuple, ast.List)) and value is not None:
                        if isinstance(value, (ast.Tuple, ast.List)) and len(value.elts) == len(t.elts):
                            for tt, vv in zip(t.elts, value.elts):
                                if isinstance(tt, ast.Name):
                                    add(tt.id, src(vv), is_fresh_expr(vv))
                        else:
                            for tt in t.elts:
                                if isinstance(tt, ast.Name):
                                    add(tt.id, "unpack:" + src(value), False)
            elif isinstance(child, ast.NamedExpr) and isinstance(child.target, ast.Name):
                add(child.target.id, src(child.value), is_fresh_expr(child.value))
            elif isinstance(child, (ast.For, ast.AsyncFor)):
                for tt in ast.walk(child.target):
                    if isinstance(tt, ast.Name):
                        add(tt.id, "iter:" + src(child.iter), False)
            elif isinstance(child, ast.With):
                for item in child.items:
                    if item.optional_vars is not None:
                        for tt in ast.walk(item.optional_vars):
                            if isinstance(tt, ast.Name):
                                add(tt.id, "with:" + src(item.context_expr), False)
            visit(child)
    visit(fn)


def analyse_file(path, rel):
    tree = ast.parse(open(path).read())
    funcs = []

    def walk(node, prefix, parent, cls):
        for child in ast.iter_child_nodes(node):
            if isinstance(child, ast.ClassDef):
                walk(child, prefix + child.name + ".", parent, child.name)
            elif isinstance(child, (ast.FunctionDef, ast.AsyncFunctionDef)):
                fi = FuncInfo(prefix + child.name, child, parent, cls)
                collect_defs(fi)
                funcs.append(fi)
                walk(child, prefix + child.name + ".", fi, cls)
            else:
                walk(child, prefix, parent, cls)
    walk(tree, "", None, None)
    sites = []
    for fi in funcs:
        def visit(n):
            for child in ast.iter_child_nodes(n):
                if isinstance(child, (ast.FunctionDef, ast.AsyncFunctionDef, ast.ClassDef)):
                    continue
                if isinstance(child, (ast.Assign, ast.AugAssign, ast.AnnAssign)):
                    targets = child.targets if isinstance(child, ast.Assign) else [child.target]
                    for t in targets:
                        for tt in (t.elts if isinstance(t, (ast.Tuple, ast.List)) else [t]):
                            if isinstance(tt, (ast.Attribute, ast.Subscript)):
                                sites.append(make_site(rel, fi, tt, "assign", child.lineno))
                elif isinstance(child, ast.Delete):
                    for tt in child.targets:
                        if isinstance(tt, (ast.Attribute, ast.Subscript)):
                            sites.append(make_site(rel, fi, tt, "del", child.lineno))
                elif isinstance(child, ast.Call) and isinstance(child.func, ast.Attribute) and child.func.attr in MUTATORS:
                    sites.append(make_site(rel, fi, child.func.value, child.func.attr, child.lineno))
                visit(child)
        visit(fi.node)
    return [s for s in sites if s is not None]


def lookup_defs(fi, name):
    """defining expressions of `name` in fi or an enclosing function; (defs, fresh, is_param)"""
    cur = fi
    while cur is not None:
        if name in cur.defs:
            return cur.defs[name], cur.fresh[name], False
        if name in cur.params:
            return ["param"], False, True
        cur = cur.parent
    return ["global"], False, False


def make_site(rel, fi, recv, op, lineno):
    rr = receiver_repr(recv)
    base = base_name(recv)
    defs, fresh, is_param = (["?"], False, False) if base is None else lookup_defs(fi, base)
    cls = classify(rel, fi, recv, rr, base, op, defs, fresh, is_param)
    if cls == "skip":
        return None
    key = (rel, fi.qualname, rr, op, tuple(sorted(set(defs))))
    return {"key": key, "cls": cls[0], "why": cls[1], "line": lineno}


def _norm_subs(d):
    """`self.nodes[prop]` -> `self.nodes[...]` (the normal form receiver_repr uses)"""
    import re
    return re.sub(r"\[[^\[\]]*\]", "[...]", d)


def param_class(fi, name):
    """annotation (class name) of parameter `name` of fi or an enclosing function"""
    cur = fi
    while cur is not None:
        a = cur.node.args
        for arg in list(a.posonlyargs) + list(a.args) + list(a.kwonlyargs):
            if arg.arg == name and arg.annotation is not None:
                return src(arg.annotation).strip('"').split("[")[0].split(".")[-1]
        cur = cur.parent
    return None


def classify(rel, fi, recv, rr, base, op, defs, fresh, is_param):
    fname = fi.qualname.split(".")[-1]
    dkey = tuple(sorted(set(defs)))
    for k, why in REVIEWED.items():
        if rel.endswith(k[0]) and fi.qualname == k[1] and rr == k[2] and op == k[3] and dkey == tuple(sorted(set(k[4]))):
            return ("reviewed", why)
    for (f, q), why in BUILDER_FUNCS.items():
        if rel.endswith(f) and (fi.qualname == q or fi.qualname.startswith(q + ".")):
            return ("private-state", why)
    # `append` on a Fragment value is the library's own pure method, not list.append
    if op == "append" and rr.endswith(".content") and not rr.endswith(".content.content"):
        return ("pure-method", "Fragment.append returns a new fragment")
    if op == "append" and base not in ("self", "cls"):
        if isinstance(recv, ast.Call):
            return ("pure-method", "receiver is the result of a call: Fragment.append returns a new fragment")
        if rr.endswith(".content") and not rr.endswith(".content.content"):
            return ("pure-method", "Fragment.append returns a new fragment")
        if isinstance(recv, ast.Name) and not fresh and any(h in d for d in defs for h in FRAGMENT_HINTS) and "[]" not in defs:
            return ("pure-method", "receiver is Fragment-typed (defined through Fragment.* / fill_before / .content / Fragment.append)")
        if is_param and param_class(fi, base) == "Fragment":
            return ("pure-method", "parameter annotated Fragment")
    if base == "self" or base == "cls":
        if fname in ("__init__", "__new__", "__post_init__"):
            return ("init", "object under construction")
        c = fi.cls
        if c in ACCUMULATORS:
            attr = rr.split(".")[1].split("[")[0] if "." in rr else ""
            if attr in ACCUMULATORS[c]:
                return ("accumulator", f"{c}.{attr} is a documented accumulator")
        if c in PRIVATE_STATE:
            # only the object's *own* fields are its private state: `self.x = …`, `self.x[i] = …`, `self.x.append(…)`.  A write
            # through a field into the object it holds (`self.x.y = …`) changes that object, which may have been handed in by
            # the caller (e.g. the slice a Fitter was given): private only where the held object is itself reviewed to be private
            hops = rr.replace("[...]", "").count(".")
            if hops >= 2 and op in ("assign", "augassign", "del") and (fi.qualname, rr) not in PRIVATE_DEEP:
                return ("external", "write through a field into an object the private state merely refers to")
            return ("private-state", PRIVATE_STATE[c])
        return ("external", "mutation of self outside construction")
    if rel.endswith(DOM_FILES):
        if fi.cls in PRIVATE_STATE and all(d.startswith(("self.", "iter:self.")) for d in defs):
            return ("private-state", PRIVATE_STATE[fi.cls])
        if is_param and param_class(fi, base) in PRIVATE_STATE:
            return ("private-state", PRIVATE_STATE[param_class(fi, base)])
        if not any(h in d.replace("DocumentFragment", "DocFrag") for d in defs for h in ("Fragment", ".content", "Mark(", "Mark.", "marks", ".none", ".empty")) \
                and "content" not in rr and "marks" not in rr:
            return ("reviewed", "DOM layer: the receiver is an lxml element / parse rule / output element, not a document value")
    if base is not None and not is_param and defs != ["global"]:
        if fresh:
            return ("fresh", "every definition of the receiver in this function is a fresh container")
        if fi.cls in PRIVATE_STATE and all(d.startswith(("self.", "iter:self.")) for d in defs):
            # `x = self.f; x.g = …` is `self.f.g = …` spelled with a local: a write *into the object the field refers to*
            # (the same rule as for the direct form above); `x[i] = …` / `x.append(…)` on an aliased own container stay private
            hops = rr.replace("[...]", "").count(".")
            if hops >= 1 and op in ("assign", "augassign", "del") and \
                    not all((fi.qualname, _norm_subs(d.replace("iter:", "")) + rr[len(base):]) in PRIVATE_DEEP for d in defs):
                return ("external", "write through a local alias of a field into an object the private state merely refers to")
            return ("private-state", PRIVATE_STATE[fi.cls] + " (local alias of its own state)")
        return ("external", "receiver may alias a value that was passed in or returned earlier")
    if is_param:
        pc = param_class(fi, base)
        if pc in PRIVATE_STATE:
            return ("private-state", PRIVATE_STATE[pc])
        return ("external", "mutation of an argument")
    if defs == ["global"]:
        return ("external", "mutation of a module-level object")
    return ("external", "unclassified")


def scan(repo="/repo"):
    out = []
    for sub in ("model", "transform"):
        d = os.path.join(repo, "prosemirror", sub)
        for f in sorted(os.listdir(d)):
            if f.endswith(".py"):
                out += analyse_file(os.path.join(d, f), f"{sub}/{f}")
    return out


def lean_str(s):
    return '"' + s.replace("\\", "\\\\").replace('"', '\\"').replace("\n", " ") + '"'


def write_lean(sites, path):
    lines = ["/- GENERATED on every run by harness/translate_effects.py from /repo's current source. Do not edit. -/",
             "namespace PM.Gen", "",
             "inductive EffCls where", "  | init | fresh | accumulator | privateState | pureMethod | reviewed | external",
             "deriving DecidableEq, Repr", "",
             "structure Site where", "  file : String", "  func : String", "  recv : String", "  op : String",
             "  defs : List String", "  cls : EffCls", "deriving Repr", "", "def sites : List Site := ["]
    m = {"init": "init", "fresh": "fresh", "accumulator": "accumulator", "private-state": "privateState",
         "pure-method": "pureMethod", "reviewed": "reviewed", "external": "external"}
    rows = []
    for s in sites:
        rel, q, rr, op, defs = s["key"]
        rows.append("  { file := %s, func := %s, recv := %s, op := %s, defs := [%s], cls := .%s }" % (
            lean_str(rel), lean_str(q), lean_str(rr), lean_str(op), ", ".join(lean_str(d[:80]) for d in defs), m[s["cls"]]))
    lines.append(",\n".join(rows))
    lines += ["]", "",
              "/-- **no function of the library mutates, in place, an object it did not create itself** (other than the",
              "    two documented accumulators, construction-time builders and caches): every syntactic mutation",
              "    site of prosemirror/model and prosemirror/transform is classified by rule as non-external -/",
              "theorem no_external_mutation : sites.all (fun s => decide (s.cls ≠ .external)) = true := by decide +kernel",
              "", "end PM.Gen", ""]
    text = "\n".join(lines)
    os.makedirs(os.path.dirname(path), exist_ok=True)
    if not os.path.exists(path) or open(path).read() != text:
        with open(path, "w") as f:
            f.write(text)
    return hashlib.blake2b(text.encode(), digest_size=6).hexdigest()


if __name__ == "__main__":
    ss = scan()
    from collections import Counter
    print(Counter(s["cls"] for s in ss))
    for s in ss:
        if s["cls"] == "external":
            print(s["key"], s["line"], s["why"])
