"""Schema library: the bundled schemas, hand-written variants mirroring the upstream test-suite
(strict, isolating, table-like, marks-on-doc, exclusion-heavy marks) and random well-founded schemas."""
import copy

from prosemirror.model import Schema
from prosemirror.schema.basic import schema as basic_schema
from prosemirror.test_builder import test_schema as list_schema

from .codec import SchemaInfo


def _nodes(base):
    return {k: dict(v) for k, v in base.spec["nodes"].items()}


def _marks(base):
    return {k: dict(v) for k, v in base.spec["marks"].items()}


def make_family():
    out = []
    out.append(SchemaInfo(basic_schema, "basic"))
    out.append(SchemaInfo(list_schema, "list"))
    n = _nodes(list_schema)
    n["title"] = {"content": "text*"}
    n["doc"] = {"content": "title? block*"}
    out.append(SchemaInfo(Schema({"nodes": n, "marks": _marks(list_schema)}), "title"))
    n = _nodes(basic_schema)
    n["doc"] = {"content": "heading body"}
    n["body"] = {"content": "block+"}
    out.append(SchemaInfo(Schema({"nodes": n, "marks": _marks(basic_schema)}), "heading-body"))
    out.append(SchemaInfo(Schema({"nodes": {
        "doc": {"content": "block+"},
        "a": {"content": "inline*"},
        "b": {"content": "inline*"},
        "block": {"content": "a b"},
        "text": {"group": "inline"},
    }, "marks": {"em": {}, "strong": {}}}), "fixed-ab"))
    n = _nodes(list_schema)
    n["iso"] = {"group": "block", "content": "block+", "isolating": True}
    out.append(SchemaInfo(Schema({"nodes": n, "marks": _marks(list_schema)}), "iso"))
    n = _nodes(list_schema)
    n["table"] = {"group": "block", "content": "row+", "isolating": True}
    n["row"] = {"content": "cell+"}
    n["cell"] = {"content": "block+", "isolating": True, "attrs": {"colspan": {"default": 1}}}
    out.append(SchemaInfo(Schema({"nodes": n, "marks": _marks(list_schema)}), "table"))
    n = _nodes(basic_schema)
    n["doc"] = {**n["doc"], "marks": "_"}
    out.append(SchemaInfo(Schema({"nodes": n, "marks": _marks(basic_schema)}), "marks-on-doc"))
    n = _nodes(list_schema)
    m = _marks(list_schema)
    m["comment"] = {"excludes": "", "attrs": {"id": {}}}
    m["big"] = {"excludes": "small1 small2"}
    m["small1"] = {}
    m["small2"] = {"excludes": "small1"}
    m["shy"] = {"inclusive": False, "group": "g1"}
    m["shy2"] = {"inclusive": False}             # a second non-inclusive mark, adjacent in rank to `shy`
    m["solo"] = {"excludes": "_"}
    m["left"] = {"excludes": "left right"}       # mutual exclusion between two distinct types
    m["right"] = {"excludes": "left right", "attrs": {"n": {"default": 0}}}
    m["lock"] = {"excludes": "big"}              # blocks `big` without being excluded by it (asymmetric)
    n["note"] = {"content": "inline*", "group": "block", "marks": "small1 small2 em lock"}   # allows small1 but not big
    n["caption"] = {"content": "inline+", "group": "block"}            # a textblock whose content automaton has two states
    out.append(SchemaInfo(Schema({"nodes": n, "marks": m}), "marks-x"))
    return out


_FAMILY = None


def family():
    global _FAMILY
    if _FAMILY is None:
        _FAMILY = make_family()
    return _FAMILY


_STRICT = None


def strict():
    """further hand-written "usual stricter variants" of the bundled schemas.  They are *not* part of the kernel-checked
    family (no closed corollaries are generated for them); the totality search of C11 runs on them as it does on the family,
    so that the choice of family members is not what keeps the sentence "never raises" true"""
    global _STRICT
    if _STRICT is None:
        out = []
        n = _nodes(list_schema)
        n["list_item"] = {**n["list_item"], "content": "paragraph (ordered_list | bullet_list)?"}
        out.append(SchemaInfo(Schema({"nodes": n, "marks": _marks(list_schema)}), "strict-list"))
        n = _nodes(list_schema)
        n["doc"] = {"content": "heading paragraph+ block*"}
        out.append(SchemaInfo(Schema({"nodes": n, "marks": _marks(list_schema)}), "strict-doc"))
        _STRICT = out
    return _STRICT


def by_name(name):
    for s in family() + extra() + strict():
        if s.name == name:
            return s
    raise KeyError(name)


_EXTRA = None


def extra():
    """hand-written schemas outside the "bundled schemas and their usual stricter variants" family: used by single
    properties for aimed cases, never for the totality claims made about the family"""
    global _EXTRA
    if _EXTRA is None:
        _EXTRA = [
            # `compatible_content` is symmetric but not transitive here: C joins onto A (both may start with p) and onto B
            # (both may start with q), while A and B share no first child — a bridge through an open C node merges an A with a B
            SchemaInfo(Schema({"nodes": {
                "doc": {"content": "(A | B | C)*"},
                "A": {"content": "p q*"},
                "B": {"content": "q+"},
                "C": {"content": "(p | q)*"},
                "p": {"content": "text*"},
                "q": {"content": "text*"},
                "text": {},
            }, "marks": {"em": {}}}), "bridge"),
            # the same idea with leaf p / q (aimed cases of harness/props/c04_guard.py)
            SchemaInfo(Schema({"nodes": {
                "doc": {"content": "(A|B|C)*"}, "A": {"content": "p q*"}, "B": {"content": "q+"}, "C": {"content": "(p|q)*"},
                "p": {}, "q": {}, "text": {},
            }}), "bridge-local"),
            # a node that holds at most one text: a gap cut inside that text could not be put back while insert_into tested
            # can_replace(index, index, gap) (finding C04-around-text-gap); it validates the built (joined) content now
            SchemaInfo(Schema({"nodes": {
                "doc": {"content": "(X|Z)*"}, "X": {"content": "text?"}, "Z": {"content": "text*"}, "text": {},
            }}), "optional-text-local"),
            *_context_flag_schemas(),
        ]
    return _EXTRA


def _context_flag_schemas():
    """the list schema with the two one-sided `defining` flags that only `Transform.replace_range` reads
    (`definingAsContext`: stops the walk up from the range start; `definingForContent`: `defines_content` of the slice's
    left nodes) spread over the block types instead of `defining` — the aimed schemas of the replace_range tie
    (harness/rangeplan.py: tie_replace_range)"""
    out = []
    n = _nodes(list_schema)
    n["blockquote"] = {"content": "block+", "group": "block", "definingAsContext": True}
    n["heading"] = {**{k: v for k, v in n["heading"].items() if k != "defining"}, "definingForContent": True}
    n["list_item"] = {"content": "paragraph block*"}
    n["iso"] = {"group": "block", "content": "block+", "isolating": True}
    out.append(SchemaInfo(Schema({"nodes": n, "marks": _marks(list_schema)}), "ctx-flags-a"))
    n = _nodes(list_schema)
    n["blockquote"] = {"content": "block+", "group": "block", "definingForContent": True}
    n["heading"] = {**{k: v for k, v in n["heading"].items() if k != "defining"}, "definingAsContext": True}
    n["list_item"] = {"content": "paragraph block*", "definingForContent": True}
    n["bullet_list"] = {**n["bullet_list"], "definingAsContext": True}
    n["code_block"] = {k: v for k, v in n["code_block"].items() if k != "defining"}
    out.append(SchemaInfo(Schema({"nodes": n, "marks": _marks(list_schema)}), "ctx-flags-b"))
    return out


# ---------------------------------------------------------------------------------------------
# random schemas

OPS = ["", "", "+", "*", "?", "{2}", "{1,2}", "{2,}", "{0,}"]


def random_spec(rng):
    """a random schema spec (may be rejected by Schema())"""
    n_tb = rng.randint(1, 3)          # textblocks
    n_leafb = rng.randint(0, 1)       # block leaves
    n_cont = rng.randint(0, 3)        # containers
    n_il = rng.randint(0, 2)          # inline non-text nodes
    nodes = {}
    marks = {}
    n_marks = rng.randint(0, 5)
    mark_names = ["m%d" % i for i in range(n_marks)]
    for i, mn in enumerate(mark_names):
        spec = {}
        r = rng.random()
        if r < 0.15:
            spec["excludes"] = "_"
        elif r < 0.3:
            spec["excludes"] = ""
        elif r < 0.55 and n_marks > 1:
            spec["excludes"] = " ".join(rng.sample(mark_names, rng.randint(1, min(3, n_marks))))
        elif r < 0.65:
            spec["excludes"] = "mg"
        if rng.random() < 0.3:
            spec["group"] = "mg"
        elif rng.random() < 0.35:
            spec["group"] = "xmg"        # a group whose name merely *contains* the other group's name
        if rng.random() < 0.25:
            spec["inclusive"] = False
        if rng.random() < 0.3:
            spec["attrs"] = {"k": {"default": 0}} if rng.random() < 0.6 else {"k": {}}
        marks[mn] = spec
    if not any("mg" in (v.get("group") or "") for v in marks.values()):
        for v in marks.values():
            if v.get("excludes") == "mg":
                del v["excludes"]

    def mark_expr():
        r = rng.random()
        if r < 0.5 or not mark_names:
            return None
        if r < 0.6:
            return "_"
        if r < 0.7:
            return ""
        if r < 0.88 and any((v.get("group") or "") == "mg" for v in marks.values()):
            return "mg"
        return " ".join(rng.sample(mark_names, rng.randint(1, len(mark_names))))

    inline_names = ["text"]
    il_specs = {}
    for i in range(n_il):
        name = "il%d" % i
        spec = {"inline": True, "group": "inline"}
        if rng.random() < 0.4:
            spec["attrs"] = {"v": {}} if rng.random() < 0.5 else {"v": {"default": "x"}}
        if rng.random() < 0.35:
            spec["content"] = "text*"       # inline node with content (non-atom unless flagged)
            if rng.random() < 0.5:
                spec["atom"] = True
        il_specs[name] = spec
        inline_names.append(name)
    blocks = []   # (name, level)
    order = []
    for i in range(n_tb):
        name = "tb%d" % i
        c = rng.choice(["inline*", "text*", "inline*", "(text | il0)*" if n_il else "inline*", "text+" if rng.random() < 0.2 else "inline*",
                        # inline containers only (text fits only inside one of them)
                        ("il0*" if rng.random() < 0.5 else "(il0 | il1)+" if n_il > 1 else "il0+") if n_il and rng.random() < 0.6 else "inline*"])
        spec = {"content": c, "group": "block" + (" g%d" % (i % 2))}
        me = mark_expr()
        if me is not None:
            spec["marks"] = me
        if rng.random() < 0.2:
            spec["code"] = True
        if rng.random() < 0.3:
            # sometimes a *required* attribute: the type cannot be generated by fill_before / create_and_fill
            spec["attrs"] = {"lvl": {"default": 1}} if rng.random() < 0.6 else {"lvl": {}}
        if rng.random() < 0.3:
            spec["defining"] = True
        order.append((name, spec))
        blocks.append((name, 0))
    for i in range(n_leafb):
        name = "lf%d" % i
        spec = {"group": "block" if rng.random() < 0.7 else "subblock"}
        if rng.random() < 0.3:
            spec["attrs"] = {"q": {}}
        order.append((name, spec))
        blocks.append((name, 0))
    for i in range(n_cont):
        name = "c%d" % i
        lower = [b for b, lv in blocks if lv <= i]
        atoms = []
        for _ in range(rng.randint(1, 3)):
            kind = rng.random()
            if kind < 0.4:
                a = "block"
            elif kind < 0.5:
                a = "g%d" % rng.randint(0, 1)
            elif kind < 0.85:
                a = rng.choice(lower)
            else:
                ch = rng.sample(lower, min(len(lower), 2))
                a = "(" + " | ".join(ch) + ")"
            atoms.append(a + rng.choice(OPS))
        spec = {"content": " ".join(atoms), "group": "block" if rng.random() < 0.7 else "cg"}
        if rng.random() < 0.3:
            spec["isolating"] = True
        if rng.random() < 0.3:
            spec["defining"] = True
        if rng.random() < 0.2:
            spec["attrs"] = {"n": {"default": None}} if rng.random() < 0.6 else {"n": {}}
        me = mark_expr()
        if me is not None and rng.random() < 0.3:
            spec["marks"] = me
        order.append((name, spec))
        blocks.append((name, i + 1))
    doc_atoms = []
    for _ in range(rng.randint(1, 2)):
        a = rng.choice(["block", "block", rng.choice([b for b, _ in blocks])])
        doc_atoms.append(a + rng.choice(["+", "*", "+", "{1,3}", ""]))
    nodes["doc"] = {"content": " ".join(doc_atoms)}
    if rng.random() < 0.2:
        nodes["doc"]["attrs"] = {"meta": {"default": None}}
    if rng.random() < 0.15:
        nodes["doc"]["marks"] = "_"
    for name, spec in order:
        nodes[name] = spec
    nodes["text"] = {"group": "inline"}
    for name, spec in il_specs.items():
        nodes[name] = spec
    # some types get a second attribute of the opposite kind, before or after the first: a defaulted attribute followed
    # by a required one (and the reverse) — "has required attributes" must look at all of them
    for name, spec in nodes.items():
        a = spec.get("attrs")
        if a and len(a) == 1 and name != "doc" and rng.random() < 0.3:
            (k, v), = a.items()
            other = ("z_" + k, {} if "default" in v else {"default": rng.choice([0, "d", None])})
            spec["attrs"] = dict([other, (k, v)] if rng.random() < 0.5 else [(k, v), other])
    return {"nodes": nodes, "marks": marks}


_INLINE_CONTENT = None


def inline_content_schema():
    """a schema with what the bundled ones lack: an *inline* node that has content (a footnote), marked `atom`, and a block
    atom with content (a figure) — positions inside them must resolve and count like any other node's"""
    global _INLINE_CONTENT
    if _INLINE_CONTENT is None:
        n = _nodes(basic_schema)
        n["footnote"] = {"inline": True, "group": "inline", "content": "text*", "atom": True}
        n["figure"] = {"group": "block", "content": "paragraph+", "atom": True, "attrs": {"align": {"default": "left"}}}
        _INLINE_CONTENT = SchemaInfo(Schema({"nodes": n, "marks": _marks(basic_schema)}), "inline-content")
    return _INLINE_CONTENT


REPEAT_OPS = ["+", "*", "?", "{2}", "{1,2}", "{1,}", "{2,}", "{0,1}", "{0,}"]


def aimed_op_exprs(x="a", y="b"):
    """content expressions in which a repetition is the first thing of a choice alternative or of a repeated body — the
    places where a compiler that lets a loop share the entry node of the enclosing construct over-accepts"""
    out = []
    for u in REPEAT_OPS:
        out += [f"({x}{u} | {y})", f"({y} | {x}{u})", f"({x}{u} {y})+", f"({x}{u} {y})*", f"({x}{u} | {y}){{2}}",
                f"({x}{u} {y}){{2,}}", f"{x}{u} | {y}{u}", f"({x} | {y}{u}){{2}}", f"({x}{u} | {y})+"]
    return out


def aimed_ops_schema(rng):
    """a small schema whose top node has one of the aimed expressions over two textblock types"""
    for _ in range(20):
        e = rng.choice(aimed_op_exprs("a", "b") + aimed_op_exprs("g", "b"))
        spec = {"nodes": {"doc": {"content": e}, "a": {"content": "text*", "group": "g"}, "b": {"content": "text*", "group": "g h"},
                          "c": {"content": "text*", "group": "h"}, "text": {"group": "inline"}},
                "marks": {"em": {}}}
        try:
            return SchemaInfo(Schema(copy.deepcopy(spec)), "aimed-ops")
        except Exception:  # noqa: BLE001
            continue
    return None


def well_founded(schema):
    """every generatable type can be filled to a valid node in bounded depth — decided by the harness's own search
    (gen._filler), not by the library's create_and_fill, which is code under test"""
    from .gen import _filler
    for t in schema.nodes.values():
        if t.is_text or t.has_required_attrs() or t.is_leaf:
            continue
        if _filler(t.content_match) is None:
            return False
    return not _library_filler_cycle(schema)


def _library_filler_cycle(schema):
    """does the *library's* way of filling an empty node run in a circle?  `create_and_fill()` fills a type with the first
    filling a depth-first walk over `match.next` (in edge order, one seen-list) finds, and fills those filler types the
    same way; where that first choice contains the type itself again (`c1 "block? lf0"` with `c1` the first generatable
    `block`) the library recurses until RecursionError although a finite filling exists (upstream does the same; DESIGN §7).
    Such schemas are not "well-founded" for the library and are left out of the random schemas.  The walk is re-done here on
    the compiled edges, without calling fill_before / create_and_fill."""
    def gen_ok(t):
        return not (t.is_text or t.has_required_attrs())

    def first_filling(match):
        seen = [match]

        def search(m, types):
            if m.valid_end:
                return types
            for e in m.next:
                if gen_ok(e.type) and e.next not in seen:
                    seen.append(e.next)
                    found = search(e.next, types + [e.type])
                    if found is not None:
                        return found
            return None
        return search(match, [])

    deps = {}
    for t in schema.nodes.values():
        if t.is_text or t.is_leaf:
            continue
        deps[t.name] = [x.name for x in (first_filling(t.content_match) or [])]
    state = {}

    def cyclic(n):
        if state.get(n) == 1:
            return True
        if state.get(n) == 2:
            return False
        state[n] = 1
        r = any(cyclic(m) for m in deps.get(n, []))
        state[n] = 2
        return r
    return any(cyclic(n) for n in deps)


def random_schema(rng, rejected=None, tries=50):
    for _ in range(tries):
        spec = random_spec(rng)
        try:
            s = Schema(copy.deepcopy(spec))
        except Exception as e:  # noqa: BLE001
            if rejected is not None:
                rejected.append((spec, repr(e)))
            continue
        if not well_founded(s):
            continue
        return SchemaInfo(s, "random")
    return family()[1]


def layered_schema(rng):
    """schemas made of layers of alternative wrappers, some of which can hold the next layer as their only child and some
    of which need a sibling next to it: wrapper searches must reconsider a type in every context (C15)"""
    levels = rng.randint(2, 3)
    nodes = {"doc": {"content": "g0+" if rng.random() < 0.7 else "(w0a | w0b)+ extra?"}}
    for i in range(levels):
        nxt = "g%d" % (i + 1) if i + 1 < levels else "item"
        for v in "ab":
            r = rng.random()
            if r < 0.45:
                c = nxt + rng.choice(["", "+", "*"])
            elif r < 0.7:
                c = nxt + " extra"
            elif r < 0.85:
                c = "extra " + nxt
            else:
                c = nxt + "{2}"
            nodes["w%d%s" % (i, v)] = {"content": c, "group": "g%d" % i}
    nodes["item"] = {"content": "text*", "group": "item"}
    nodes["extra"] = {"content": "text*"}
    nodes["text"] = {}
    keys = list(nodes.keys())
    body = keys[1:-1]
    rng.shuffle(body)
    spec = {"nodes": {k: nodes[k] for k in ["doc"] + body + ["text"]}, "marks": {}}
    try:
        return SchemaInfo(Schema(copy.deepcopy(spec)), "random")
    except Exception:  # noqa: BLE001
        return None


# ---------------------------------------------------------------------------------------------
# construction of a schema from its spec: the real constructor against lean/PM/SchemaCompile.lean

def compile_outcome(spec):
    """('ok', Schema) | (kind, message): what `Schema(spec)` does, the refusals classified by exception class and message
    (the kinds of `CompileErr`); 'content' = a SyntaxError of the content-expression parser, 'other:…' = anything else"""
    try:
        return "ok", Schema(copy.deepcopy(spec))
    except ValueError as e:
        m = str(e)
        if m.startswith("Schema is missing its top node type"):
            return "missingTop", m
        if m.startswith("every schema needs a 'text' type"):
            return "missingText", m
        if m.startswith("the text node type should not have attributes"):
            return "textAttrs", m
        if m.endswith("can not be both a node and a mark"):
            return "nameClash", m
        return "other:ValueError", m
    except SyntaxError as e:
        m = str(e)
        if m.startswith("unknow mark type"):
            return "unknownMark", m
        return "content", m
    except Exception as e:  # noqa: BLE001
        return "other:" + type(e).__name__, str(e)


def spec_dfas(spec):
    """the content automata of the node types of a spec that `Schema()` refuses, produced by the real parser
    (`NodeType.compile` + `ContentMatch.parse`) without the rest of the constructor; [] when the node table itself is
    refused (no content expression is ever parsed then); None when some content expression does not parse"""
    from prosemirror.model.content import ContentMatch
    from prosemirror.model.schema import NodeType

    from .codec import dump_dfa
    stub = Schema.__new__(Schema)
    stub.spec = spec
    try:
        nodes = NodeType.compile(spec["nodes"], stub)
    except ValueError:
        return []
    nid = {n: i for i, n in enumerate(nodes)}
    out = []
    for t in nodes.values():
        try:
            cm = ContentMatch.parse(t.spec.get("content", ""), nodes)
        except SyntaxError:
            return None
        out.append(dump_dfa(cm, nid))
    return out


def compile_tie(spec, compiled=None):
    """(request, expected answer, kind) for the model of `Schema(spec)`: the compiled tables of the real object, every
    field (`SchemaInfo.dump()`), or the kind of refusal.  None when the spec has a content expression the parser refuses
    (the automata are an input of the model)."""
    from .codec import spec_dump
    if compiled is not None:
        kind, got = "ok", compiled
    else:
        kind, got = compile_outcome(spec)
    if kind == "content":
        return None
    if kind == "ok":
        dump = SchemaInfo(got, "compiled").dump()
        return {"op": "compileSchema", "spec": spec_dump(spec), "dfas": [n["dfa"] for n in dump["nodes"]]}, dump, kind
    dfas = spec_dfas(copy.deepcopy(spec))
    if dfas is None:
        return None
    return {"op": "compileSchema", "spec": spec_dump(spec), "dfas": dfas}, {"err": kind}, kind


def build_outcome(spec):
    """('ok', Schema) | (kind, message) | ('recursion', '') — what `Schema(spec)` does, *all* of it: the kinds of
    `BuildErr` of lean/PM/SchemaBuild.lean.  The table refusals as in `compile_outcome`; the content-expression parser's
    refusals by exception class and message: `content:syntax|unknownName|mixed` (SyntaxError of `stream.err`),
    `content:noToken` (TypeError: `re.match` on the end of the tokens), `content:noNumber` (AssertionError of `parse_num`),
    `content:badInt` (ValueError of `int()`); `deadEnd` (SyntaxError of `check_for_dead_ends`).  A RecursionError is a
    resource limit of the interpreter, not a verdict."""
    try:
        return "ok", Schema(copy.deepcopy(spec))
    except RecursionError:
        return "recursion", ""
    except ValueError as e:
        m = str(e)
        if m.startswith("Schema is missing its top node type"):
            return "missingTop", m
        if m.startswith("every schema needs a 'text' type"):
            return "missingText", m
        if m.startswith("the text node type should not have attributes"):
            return "textAttrs", m
        if m.endswith("can not be both a node and a mark"):
            return "nameClash", m
        if m.startswith("invalid literal for int()"):
            return "content:badInt", m
        return "other:ValueError", m
    except SyntaxError as e:
        m = str(e)
        if m.startswith("unknow mark type"):
            return "unknownMark", m
        if "(in content expression)" not in m:
            return "other:SyntaxError", m
        if m.startswith("Only non-generatable nodes"):
            return "deadEnd", m
        if m.startswith("No node type or group"):
            return "content:unknownName", m
        if m.startswith("Mixing inline and block content"):
            return "content:mixed", m
        return "content:syntax", m
    except TypeError as e:
        m = str(e)
        return ("content:noToken" if m.startswith("expected string or bytes-like object") else "other:TypeError"), m
    except AssertionError as e:
        return "content:noNumber", str(e)
    except Exception as e:  # noqa: BLE001
        return "other:" + type(e).__name__, str(e)


def build_tie(spec, compiled=None):
    """(request, expected answer, kind) for `buildSchema` (lean/PM/SchemaBuild.lean), the model of the whole of
    `Schema(spec)`: the full dump of the real object (`SchemaInfo.dump()`, automata numbered breadth-first), or the kind of
    refusal.  None when the real constructor hit the interpreter's recursion limit."""
    from .codec import spec_dump
    if compiled is not None:
        kind, got = "ok", compiled
    else:
        kind, got = build_outcome(spec)
    if kind == "recursion":
        return None
    req = {"op": "buildSchema", "spec": spec_dump(spec)}
    if kind == "ok":
        return req, SchemaInfo(got, "compiled").dump(), kind
    return req, {"err": kind}, kind


MALFORMED_CONTENT = ["(%a", "%a)", "%a{2", "%a{,2}", "%a{2,", "%a |", "| %a", "%a %b |", "()", "(", "%a++{", "%a{x}", "%a{1a}", "%a{1_0}",
                     "%a{1__0}", "%a{_1}", "%a{1_}", "%a{01}", "%a{2,x}", "%a{2,3", "%a{2 3}", "%a,%b", "%a;", "%a{2,1}", "%a{0}",
                     "nosuch", "nosuch+", "(%a | nosuch)", "%a text", "text %a", "(%a | text)*", "%a{", "%a{}", "%a{,}", "%a{2,}",
                     "%a\x1c%b", "%a\u00a0%b", "\x1f", "%a\u200b", "%a | | %b", "%a ( )", "(%a))", "((%a)", "%a?*+", "%a{1}{2}",
                     "%a{1,2}{0,}", "%a %a{3,}", "(%a %b)+ %a?", "%a*%b*", "1%a", "%a{1 ,2}", "%a{1, 2}", "%a { 2 }", "%a{2}}", "+", "%a|%b",
                     "%a(%b)", "(%a)(%b)"]


def malform_content(rng, spec):
    """a variant of a spec with one or two content expressions replaced by expressions around the corners of the content
    parser (unclosed groups / ranges, bad numbers, unknown names, inline/block mixing, stray operators, odd white space),
    at random positions of the node loop — so that which refusal comes first is exercised.  Returns (spec, labels)."""
    spec = {"nodes": {k: dict(v) for k, v in spec["nodes"].items()},
            "marks": {k: dict(v) for k, v in (spec.get("marks") or {}).items()},
            **({"topNode": spec["topNode"]} if "topNode" in spec else {})}
    nodes = spec["nodes"]
    nnames = [n for n in nodes if n != "text"]
    blocks = [n for n in nnames if not nodes[n].get("inline")] or nnames or ["text"]
    labels = []
    for _ in range(rng.randint(1, 2)):
        if not nnames:
            break
        t = rng.choice(nnames)
        e = rng.choice(MALFORMED_CONTENT).replace("%a", rng.choice(blocks)).replace("%b", rng.choice(blocks))
        nodes[t]["content"] = e
        labels.append("content")
    if rng.random() < 0.25 and nnames:
        # a refusal of the table compiler at another position of the loop
        t = rng.choice(nnames)
        if rng.random() < 0.5:
            nodes[t]["marks"] = "nosuchmark"
            labels.append("unknown-marks")
        else:
            spec["marks"][t] = {}
            labels.append("clash")
    if rng.random() < 0.15 and spec["marks"]:
        spec["marks"][rng.choice(list(spec["marks"]))]["excludes"] = "nosuchmark"
        labels.append("unknown-excl")
    if rng.random() < 0.1:
        # non-generatable type in a required position
        t = rng.choice(nnames)
        u = rng.choice(blocks)
        nodes[u].setdefault("attrs", {})
        nodes[u]["attrs"] = dict(nodes[u]["attrs"] or {}, req={})
        nodes[t]["content"] = rng.choice(["%s", "%s+", "%s %s*", "(%s | text)+" if nodes[u].get("inline") else "%s{2,}"]).replace("%s", u)
        labels.append("dead-end")
    return spec, labels


def mutate_spec(rng, spec):
    """a variant of a spec around the corners of the constructor: words that are mark names and group names at once, a mark
    called "_", doubled / trailing spaces in expressions and groups, unknown names, node/mark name clashes, missing or
    renamed top / text types, attributes on text, white-space-only and zero-repetition content.  Returns (spec, labels)."""
    spec = {"nodes": {k: dict(v) for k, v in spec["nodes"].items()},
            "marks": {k: dict(v) for k, v in (spec.get("marks") or {}).items()},
            **({"topNode": spec["topNode"]} if "topNode" in spec else {})}
    nodes, marks = spec["nodes"], spec["marks"]
    labels = []
    for _ in range(rng.randint(1, 3)):
        mnames, nnames = list(marks), list(nodes)
        groups = sorted({g for v in marks.values() for g in (v.get("group") or "").split(" ") if g})
        k = rng.choice(["mark_", "name-is-group", "spaces-expr", "spaces-group", "unknown-excl", "unknown-marks", "clash",
                        "no-text", "top", "text-attrs", "ws-content", "zero-content", "underscore-word", "drop-marks",
                        "node-marks", "empty-group", "excl-variants", "attrs"])
        if k == "mark_":
            marks["_"] = {"group": "u"} if rng.random() < 0.5 else {}
        elif k == "name-is-group" and mnames:
            g = rng.choice(groups) if groups and rng.random() < 0.7 else "grp"
            marks[g] = rng.choice([{}, {"excludes": g}, {"group": g}])
            if rng.random() < 0.5:
                marks[rng.choice(mnames)]["group"] = g
        elif k == "spaces-expr" and mnames:
            words = [rng.choice(mnames + groups + ["_"]) for _ in range(rng.randint(1, 3))]
            e = rng.choice([" ", "  "]).join(words) + rng.choice(["", " ", "  "])
            if rng.random() < 0.3:
                e = " " + e
            if rng.random() < 0.7:
                # a group string with a doubled / trailing space has the empty word among its groups
                marks[rng.choice(mnames)]["group"] = rng.choice(["grp ", " g2", "grp  g2"])
            if rng.random() < 0.5:
                marks[rng.choice(mnames)]["excludes"] = e
            else:
                nodes[rng.choice(nnames)]["marks"] = e
        elif k == "spaces-group" and mnames:
            marks[rng.choice(mnames)]["group"] = rng.choice(["grp ", " grp", "grp  g2", " ", "g2 ", "grp g2 "])
        elif k == "unknown-excl" and mnames:
            marks[rng.choice(mnames)]["excludes"] = rng.choice(["nosuch", "m0 nosuch", "nosuch _", "_ nosuch"])
        elif k == "unknown-marks":
            nodes[rng.choice(nnames)]["marks"] = rng.choice(["nosuch", "m0 nosuch", "_ nosuch", "nosuch _"])
        elif k == "clash":
            if rng.random() < 0.5 or not mnames:
                marks[rng.choice(nnames)] = {}
            else:
                nodes[rng.choice(mnames)] = {"content": "text*"}
        elif k == "no-text":
            nodes.pop("text", None)
            if rng.random() < 0.5:
                for v in nodes.values():
                    if "text" in (v.get("content") or "") or "inline" in (v.get("content") or ""):
                        v["content"] = ""
        elif k == "top":
            spec["topNode"] = rng.choice(["", "nosuch", "text", "doc"] + nnames)
            if rng.random() < 0.3:
                nodes.pop("doc", None)
        elif k == "text-attrs" and "text" in nodes:
            nodes["text"]["attrs"] = rng.choice([{"a": {}}, {"a": {"default": 1}}, {}])
        elif k == "ws-content":
            nodes[rng.choice(nnames)]["content"] = rng.choice([" ", "  ", "\t", "\n ", "\u2003", "\u00a0 ", "\x1c", ""])
        elif k == "zero-content":
            n = rng.choice(nnames)
            if n != "text":
                nodes[n]["content"] = rng.choice(["text{0}", "text{0,0}", "(text){0}"])
        elif k == "underscore-word":
            e = rng.choice(["_ _", "_ ", " _", "_ m0", "m0 _"])
            if mnames and rng.random() < 0.5:
                marks[rng.choice(mnames)]["excludes"] = e
            else:
                nodes[rng.choice(nnames)]["marks"] = e
        elif k == "drop-marks":
            for m in list(marks)[rng.randint(0, len(marks)):]:
                del marks[m]
            if rng.random() < 0.3:
                spec.pop("marks", None)
                marks = {}
        elif k == "node-marks":
            nodes[rng.choice(nnames)]["marks"] = rng.choice(["_", "", None] + mnames + groups)
            if nodes and rng.random() < 0.3:
                nodes[rng.choice(nnames)].pop("marks", None)
        elif k == "empty-group" and mnames:
            marks[rng.choice(mnames)]["group"] = rng.choice(["", None])
        elif k == "excl-variants" and mnames:
            marks[rng.choice(mnames)]["excludes"] = rng.choice(["_", "", None] + mnames + groups)
        elif k == "attrs":
            tgt = rng.choice([nodes[n] for n in nnames if n != "text"] + list(marks.values()) or [None])
            if tgt is not None:
                tgt["attrs"] = rng.choice([None, {}, {"x": {}}, {"x": {"default": None}}, {"x": {"default": [1, "a"]}, "y": {}},
                                           {"y": {"default": {"k": 1}}, "x": {"default": "s"}}])
        else:
            continue
        labels.append(k)
    return spec, labels


# ---------------------------------------------------------------------------------------------
# aimed schema shapes no bundled schema has

def inline_container_schema(rng):
    """the basic schema plus one or two *inline nodes with content* (a footnote, a ruby-like span) whose allowed marks are
    drawn at random — none, all, a subset, or unrestricted — so that the inline node often allows fewer (or other) marks
    than the textblock around it; sometimes a textblock restricts its marks as well.  Named "random": a replay carries the
    whole spec."""
    for _ in range(20):
        n = _nodes(basic_schema)
        m = _marks(basic_schema)
        names = list(m)

        def mark_expr():
            r = rng.random()
            if r < 0.15:
                return None
            if r < 0.3:
                return ""
            if r < 0.4:
                return "_"
            return " ".join(rng.sample(names, rng.randint(1, max(1, len(names) - 1))))
        spec = {"inline": True, "group": "inline", "content": rng.choice(["text*", "text*", "text+", "(text | hard_break)*"])}
        me = mark_expr()
        if me is not None:
            spec["marks"] = me
        if rng.random() < 0.25:
            spec["atom"] = True
        n["footnote"] = spec
        if rng.random() < 0.4:
            spec2 = {"inline": True, "group": "inline", "content": "text*", "attrs": {"kind": {"default": "r"}}}
            me = mark_expr()
            if me is not None:
                spec2["marks"] = me
            n["ruby"] = spec2
        if rng.random() < 0.3:
            n[rng.choice(["paragraph", "heading"])]["marks"] = mark_expr() or "_"
        try:
            return SchemaInfo(Schema({"nodes": n, "marks": m}), "random")
        except Exception:  # noqa: BLE001
            continue
    return inline_content_schema()


FLAG_KEYS = ("isolating", "defining", "definingAsContext", "definingForContent")


def flag_variant(info, mode, rng=None):
    """a schema with the same node and mark names and the same content expressions as `info`'s, but other boundary flags:
    mode "strip": no node type is isolating (documents carry over unchanged through JSON, and a node named like an
    isolating one of `info` is an ordinary container here); mode "move": the isolating flag is taken from the types that
    had it and given to other block containers (not the top node, not textblocks), `defining` flipped on some of them.
    Named "random": a replay carries the whole spec."""
    spec = info.schema.spec
    nodes = {k: dict(v) for k, v in spec["nodes"].items()}
    marks = {k: dict(v) for k, v in (spec.get("marks") or {}).items()}
    top = spec.get("topNode") or "doc"
    if mode == "strip":
        for v in nodes.values():
            v.pop("isolating", None)
    else:
        had = [k for k, v in nodes.items() if v.get("isolating")]
        for k in had:
            nodes[k].pop("isolating", None)
        cont = [k for k, v in nodes.items() if k != top and k not in had and v.get("content") and not v.get("inline")
                and not info.schema.nodes[k].inline_content]
        rng.shuffle(cont)
        for k in cont[:rng.randint(1, max(1, min(2, len(cont))))]:
            nodes[k]["isolating"] = True
            if rng.random() < 0.5:
                nodes[k].pop("defining", None)
        for k in had:
            if rng.random() < 0.3:
                nodes[k]["defining"] = True
    out = {"nodes": nodes, "marks": marks}
    if "topNode" in spec:
        out["topNode"] = spec["topNode"]
    return SchemaInfo(Schema(out), "random")
