"""Line coverage of the functions a property is anchored in (properties.jsonl: anchors.mechanism[].where), measured
with sys.monitoring while the check drives the real code.  It makes the size of the gap "inputs the correspondence
never ran" visible in the evidence file: per anchored function, how many of its executable lines were executed by this
run, and which were not.  Measuring only — it decides nothing.

Cost: every code location reports once and is then disabled (sys.monitoring.DISABLE), so the overhead is a few
milliseconds per run."""
import ast
import json
import os
import re
import sys

TOOL = 3  # sys.monitoring tool id (0-5; 3 is unassigned by convention)


def _anchors(verif, prop):
    p = os.path.join(verif, "properties.jsonl")
    for line in open(p):
        line = line.strip()
        if not line:
            continue
        rec = json.loads(line)
        if rec.get("id") == prop:
            return rec.get("anchors", {})
    return {}


def _wanted(anchors):
    """{relative file: set of function / class names ('*' = whole file)}"""
    want = {}
    for f in anchors.get("files", []):
        want.setdefault(f, set())
    for m in anchors.get("mechanism", []):
        for part in re.split(r";\s*", m.get("where", "")):
            mm = re.match(r"\s*(prosemirror/[\w/]+\.py)\s*:?\s*(.*)", part)
            if not mm:
                continue
            names = want.setdefault(mm.group(1), set())
            for n in re.split(r",\s*", mm.group(2)):
                n = re.sub(r"\(.*?\)", "", n).strip().strip("*.")
                if not n:
                    continue
                # "ResolvedPos.node/index/start" -> several names of one class
                if "/" in n:
                    head, _, first = n.rpartition(".")
                    alts = (first if head else n).split("/")
                    for a in alts:
                        names.add((head + "." if head else "") + a)
                else:
                    names.add(n)
    return want


def _functions(path):
    """[(qualname, first line, set of executable lines)] of a source file"""
    src = open(path).read()
    tree = ast.parse(src)
    out = []

    def lines_of(fn):
        ls = set()
        for node in ast.walk(fn):
            if isinstance(node, (ast.stmt,)) and not isinstance(node, (ast.FunctionDef, ast.AsyncFunctionDef, ast.ClassDef)):
                # docstrings and bare annotations generate no line events
                if isinstance(node, ast.Expr) and isinstance(node.value, ast.Constant) and isinstance(node.value.value, str):
                    continue
                if isinstance(node, ast.AnnAssign) and node.value is None:
                    continue
                if isinstance(node, (ast.Global, ast.Nonlocal, ast.Pass)):
                    continue
                if isinstance(node, (ast.If, ast.While)):
                    ls.add(node.test.lineno)      # a parenthesised multi-line test reports its own first line
                else:
                    ls.add(node.lineno)
        # nested function bodies are reported under the enclosing function too (closures are part of its logic)
        return ls

    def walk(node, prefix):
        for ch in ast.iter_child_nodes(node):
            if isinstance(ch, (ast.FunctionDef, ast.AsyncFunctionDef)):
                if any((isinstance(d, ast.Name) and d.id == "overload") or (isinstance(d, ast.Attribute) and d.attr == "overload")
                       for d in ch.decorator_list):
                    continue      # typing stubs have no behaviour
                out.append((prefix + ch.name, ch.lineno, lines_of(ch)))
                walk(ch, prefix + ch.name + ".")
            elif isinstance(ch, ast.ClassDef):
                walk(ch, prefix + ch.name + ".")

    walk(tree, "")
    return out


class Coverage:
    def __init__(self, verif, repo, prop):
        self.ok = False
        self.hit = {}       # abs file -> set(lines)
        self.targets = {}   # abs file -> [(qualname, lines)]
        try:
            want = _wanted(_anchors(verif, prop))
            for rel, names in want.items():
                path = os.path.join(repo, rel)
                if not os.path.exists(path):
                    continue
                fns = _functions(path)
                sel = []
                for q, _, ls in fns:
                    if not ls:
                        continue
                    named = any(q == n or q.endswith("." + n) or q.split(".")[0] == n or
                                (n.count(".") == 1 and q.startswith(n + ".")) for n in names)
                    sel.append((q, ls, named))
                if sel:
                    self.targets[os.path.abspath(path)] = sel
                    self.hit[os.path.abspath(path)] = set()
            if not self.targets or not hasattr(sys, "monitoring"):
                return
            mon = sys.monitoring
            try:
                mon.use_tool_id(TOOL, "verif-cover")
            except ValueError:
                return
            files = self.hit

            def on_line(code, line):
                s = files.get(code.co_filename)
                if s is not None:
                    s.add(line)
                return mon.DISABLE

            mon.register_callback(TOOL, mon.events.LINE, on_line)
            mon.set_events(TOOL, mon.events.LINE)
            self.ok = True
        except Exception:  # noqa: BLE001  (measuring must never break a check)
            self.ok = False

    def report(self):
        if not self.ok:
            return {"measured": False}
        try:
            sys.monitoring.set_events(TOOL, 0)
            sys.monitoring.free_tool_id(TOOL)
        except Exception:  # noqa: BLE001
            pass
        per_fn = {}
        tot = cov = ntot = ncov = 0
        for path, sel in self.targets.items():
            hit = self.hit.get(path, set())
            rel = path[path.find("prosemirror/"):]
            for q, ls, named in sel:
                h = ls & hit
                if named or len(h) < len(ls):
                    per_fn[f"{rel}:{q}"] = {"named_in_anchor": named, "lines": len(ls), "executed": len(h), "missed": sorted(ls - hit)[:40]}
            alll = set().union(*[ls for _, ls, _ in sel])
            nl = set().union(set(), *[ls for _, ls, n in sel if n])
            tot += len(alll)
            cov += len(alll & hit)
            ntot += len(nl)
            ncov += len(nl & hit)
        return {"measured": True,
                "named_functions": {"lines": ntot, "executed": ncov, "percent": round(100.0 * ncov / ntot, 1) if ntot else None},
                "anchored_files": {"lines": tot, "executed": cov, "percent": round(100.0 * cov / tot, 1) if tot else None},
                "note": "named_functions = the functions the property's anchors name (mechanism[].where); anchored_files = every function "
                        "of the anchored files, most of which other properties exercise; 'functions' lists the named ones and every "
                        "function with lines this run did not execute",
                "functions": dict(sorted(per_fn.items()))}
