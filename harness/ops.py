"""Random high-level Transform operations (the whole public editing API), used by the history /
rebasing / structure / replace-family checks."""
from prosemirror.model import Fragment, Slice
from prosemirror.transform import Transform
from prosemirror.transform.structure import (
    NodeTypeWithAttrs,
    can_join,
    can_split,
    find_wrapping,
    lift_target,
)

from . import gen
from .core import outcome

REPLACE_FAMILY = ["replace", "replace_with", "insert", "delete", "replace_range", "replace_range_with", "delete_range"]
MARK_OPS = ["add_mark", "remove_mark", "add_node_mark", "remove_node_mark"]
STRUCT_OPS = ["split", "join", "lift", "wrap"]
TYPE_OPS = ["set_block_type", "set_node_markup", "set_node_attribute", "set_doc_attribute"]
ALL_OPS = REPLACE_FAMILY + MARK_OPS + STRUCT_OPS + TYPE_OPS


def random_node(rng, info, docs):
    """a schema-valid node taken from some document"""
    d = rng.choice(docs)
    starts = gen.node_starts(d)
    if not starts:
        return None
    return gen.safe_node_at(d, rng.choice(starts))


def block_ranges(doc, limit=40):
    out = []
    size = doc.content.size
    ps = list(range(size + 1))
    for p in ps:
        try:
            r = doc.resolve(p)
        except Exception:  # noqa: BLE001
            continue
        for q in (p, min(size, p + 3), min(size, p + 7)):
            try:
                rng_ = r.block_range(doc.resolve(q))
            except Exception:  # noqa: BLE001
                rng_ = None
            if rng_ is not None:
                out.append(rng_)
    return out[:400]


def describe(op, args):
    def enc(a):
        if hasattr(a, "to_json"):
            return a.to_json()
        if isinstance(a, list):
            return [enc(x) for x in a]
        if hasattr(a, "name"):
            return a.name
        if isinstance(a, NodeTypeWithAttrs):
            return [a.type.name, a.attrs]
        return a
    return {"op": op, "args": [enc(a) for a in args]}


def plan_op(rng, info, doc, docs, kinds=None):
    """choose an operation and its arguments for the current document: (name, args, thunk(tr))"""
    schema = info.schema
    kinds = kinds or ALL_OPS
    op = rng.choice(kinds)
    f, t = gen.random_range(rng, doc)
    if op == "replace":
        sl = gen.random_slice(rng, docs)
        return op, [f, t, sl], lambda tr: tr.replace(f, t, sl)
    if op == "replace_with":
        n = random_node(rng, info, docs)
        if n is None:
            return "delete", [f, t], lambda tr: tr.delete(f, t)
        return op, [f, t, n], lambda tr: tr.replace_with(f, t, n)
    if op == "insert":
        n = random_node(rng, info, docs)
        if n is None:
            return "delete", [f, t], lambda tr: tr.delete(f, t)
        return op, [f, n], lambda tr: tr.insert(f, n)
    if op == "delete":
        return op, [f, t], lambda tr: tr.delete(f, t)
    if op == "replace_range":
        sl = gen.random_slice(rng, docs)
        return op, [f, t, sl], lambda tr: tr.replace_range(f, t, sl)
    if op == "replace_range_with":
        n = random_node(rng, info, docs)
        if n is None:
            return "delete_range", [f, t], lambda tr: tr.delete_range(f, t)
        return op, [f, t, n], lambda tr: tr.replace_range_with(f, t, n)
    if op == "delete_range":
        return op, [f, t], lambda tr: tr.delete_range(f, t)
    if op in ("add_mark", "remove_mark"):
        m = gen.gen_mark(rng, schema)
        if op == "remove_mark" and m is not None and rng.random() < 0.6:
            # mostly a mark that is actually there
            present = []
            doc.descendants(lambda n, p, par, i: present.extend(n.marks) or True)
            if present:
                m = rng.choice(present)
        if m is None:
            return "delete", [f, t], lambda tr: tr.delete(f, t)
        if op == "add_mark":
            return op, [f, t, m], lambda tr: tr.add_mark(f, t, m)
        r = rng.random()
        what = m if r < 0.6 else (m.type if r < 0.85 else None)
        return op, [f, t, what], lambda tr: tr.remove_mark(f, t, what)
    if op in ("add_node_mark", "remove_node_mark"):
        m = gen.gen_mark(rng, schema)
        pos = gen.node_pos(rng, doc)
        if m is None:
            return "delete", [f, t], lambda tr: tr.delete(f, t)
        if op == "add_node_mark":
            return op, [pos, m], lambda tr: tr.add_node_mark(pos, m)
        what = m if rng.random() < 0.6 else m.type
        return op, [pos, what], lambda tr: tr.remove_node_mark(pos, what)
    if op == "split":
        depth = rng.choice([1, 1, 2, 3])
        return op, [f, depth], lambda tr: tr.split(f, depth)
    if op == "join":
        depth = rng.choice([1, 1, 2])
        return op, [f, depth], lambda tr: tr.join(f, depth)
    if op in ("lift", "wrap"):
        brs = block_ranges(doc)
        if not brs:
            return "delete", [f, t], lambda tr: tr.delete(f, t)
        br = rng.choice(brs)
        if op == "lift":
            target = lift_target(br)
            if target is None:
                target = max(0, br.depth - 1)
            return op, [br.start, br.end, br.depth, target], lambda tr: tr.lift(remap_range(tr, br), target)
        types = [x for x in schema.nodes.values() if not x.is_leaf and not x.is_text]
        wt = rng.choice(types)
        wr = find_wrapping(br, wt, gen.gen_attrs(rng, wt))
        if wr is None:
            wr = [NodeTypeWithAttrs(wt, gen.gen_attrs(rng, wt))]
        return op, [br.start, br.end, br.depth, wr], lambda tr: tr.wrap(remap_range(tr, br), wr)
    if op == "set_block_type":
        tbs = [x for x in schema.nodes.values() if x.is_textblock]
        if not tbs:
            return "delete", [f, t], lambda tr: tr.delete(f, t)
        ty = rng.choice(tbs)
        attrs = gen.gen_attrs(rng, ty)
        return op, [f, t, ty, attrs], lambda tr: tr.set_block_type(f, t, ty, attrs)
    if op == "set_node_markup":
        pos = gen.node_pos(rng, doc)
        n = gen.safe_node_at(doc, pos)
        cands = [x for x in schema.nodes.values() if not x.is_text]
        if n is not None and n.is_leaf:
            # the new node is created empty: only types for which that is a schema-valid node are a valid payload
            cands = [x for x in cands if x.valid_content(Fragment.empty)] or cands
        ty = rng.choice(cands) if rng.random() < 0.6 or n is None else n.type
        attrs = gen.gen_attrs(rng, ty)
        return op, [pos, ty, attrs], lambda tr: tr.set_node_markup(pos, ty, attrs)
    if op == "set_node_attribute":
        pos = gen.node_pos(rng, doc)
        n = gen.safe_node_at(doc, pos)
        names = list(n.type.attrs.keys()) if n is not None else []
        name = rng.choice(names) if names else "nosuch"
        v = gen.gen_attr_value(rng, name)
        return op, [pos, name, v], lambda tr: tr.set_node_attribute(pos, name, v)
    if op == "set_doc_attribute":
        names = list(doc.type.attrs.keys())
        name = rng.choice(names) if names else "nosuch"
        v = gen.gen_attr_value(rng, name)
        return op, [name, v], lambda tr: tr.set_doc_attribute(name, v)
    return "delete", [f, t], lambda tr: tr.delete(f, t)


def remap_range(tr, br):
    """block ranges are computed on the document the op was planned for (tr.doc at that time)"""
    return br


def run_op(tr, thunk):
    """apply one planned operation to the transform; returns outcome class and the number of steps it added"""
    before = len(tr.steps)
    st, val = outcome(lambda: thunk(tr))
    return st, val, len(tr.steps) - before
