"""The decidable hypotheses of `delete_applies` / `delete_never_raises` (lean/Props/C11.lean), tied to the real code.

* schema guards (lean/PM/DeleteGuards.lean: `joinCompatB`, `reopenOKB`, `textAbsorbB`, `inlineUniformB`): computed here on the
  real `Schema` object — `ContentMatch` graphs, `NodeType.compatible_content`, `has_required_attrs` — and compared exactly with
  the driver's evaluation on the compiled tables (op `deleteGuards`), for every named schema the run uses;
* per request `delete(from, to)` / `delete_range(from, to)`: the document hypotheses (op `deleteApplies` /
  `deleteRangeApplies`) compared exactly with their values computed here, the class of the model's answer for the whole
  operation (`replace_step`, then `Step.apply`) compared exactly with what the real `Transform` did, and the statement
  itself, relationally: all guards and hypotheses true => the real operation returned (did not raise).
"""
from prosemirror.model import Schema
from prosemirror.transform import Transform

from .codec import SchemaInfo
from .core import outcome


def states(cm):
    seen = [cm]
    i = 0
    while i < len(seen):
        for e in seen[i].next:
            if not any(e.next is s for s in seen):
                seen.append(e.next)
        i += 1
    return seen


def generatable(t):
    return not (t.is_text or t.has_required_attrs())


def covers(r, q):
    """state `r` offers every edge of `q` to the same target, and is a valid end if `q` is"""
    for e in q.next:
        if r.match_type(e.type) is not e.next:
            return False
    return (not q.valid_end) or r.valid_end


def schema_guards(schema):
    """the four guards of lean/PM/DeleteGuards.lean on the real schema object"""
    types = list(schema.nodes.values())
    st = {t.name: states(t.content_match) for t in types}
    labels = {t.name: {e.type.name for q in st[t.name] for e in q.next} for t in types}
    join_compat = all(a.compatible_content(b) for a in types for b in types if labels[a.name] & labels[b.name])
    reopen = True
    for t in types:
        reach = [t.content_match]
        i = 0
        while i < len(reach):
            for e in reach[i].next:
                if generatable(e.type) and not any(e.next is s for s in reach):
                    reach.append(e.next)
            i += 1
        for q in st[t.name]:
            if not any(covers(r, q) for r in reach):
                reopen = False
    text = schema.nodes.get("text")
    absorb = True
    for t in types:
        for q in st[t.name]:
            q1 = q.match_type(text) if text is not None else None
            if q1 is not None and not covers(q1, q):
                absorb = False
    uniform = True
    for t in types:
        if t.inline_content:
            for q in st[t.name]:
                for r in st[t.name]:
                    for e in q.next:
                        if r.match_type(e.type) is not e.next:
                            uniform = False
    return {"joinCompat": join_compat, "reopenOK": reopen, "textAbsorb": absorb, "inlineUniform": uniform}


def tie_schema_guards(ctx, info, reqs, metas):
    exp = schema_guards(info.schema)
    reqs.append({"op": "deleteGuards", "s": info.lean_id})
    metas.append(("deleteGuards", {"schema": info.name}, exp))
    ctx.count("delete guards: %s %s" % (info.name, ",".join(k for k in sorted(exp) if not exp[k]) or "all hold"))


def high_closed(doc):
    """no text node holds a high surrogate that is not followed by a low surrogate (UTF-16 view of the text)"""
    ok = [True]

    def visit(n, *_):
        if n.is_text:
            u = n.text.encode("utf-16-le", "surrogatepass")
            units = [u[i] | (u[i + 1] << 8) for i in range(0, len(u), 2)]
            for i, c in enumerate(units):
                if 0xD800 <= c < 0xDC00 and not (i + 1 < len(units) and 0xDC00 <= units[i + 1] < 0xE000):
                    ok[0] = False
        return True
    doc.descendants(visit)
    return ok[0]


def pair_aligned(doc, pos):
    if pos < 0 or pos > doc.content.size:
        return True
    r = doc.resolve(pos)
    off = r.text_offset
    if off == 0:
        return True
    node = r.parent.maybe_child(r.index())
    if node is None or not node.is_text:
        return True
    u = node.text.encode("utf-16-le", "surrogatepass")
    units = [u[i] | (u[i + 1] << 8) for i in range(0, len(u), 2)]
    if off < len(units):
        return not (0xD800 <= units[off - 1] < 0xDC00 and 0xDC00 <= units[off] < 0xE000)
    return True


def real_outcome(doc, f, t, rng_op):
    """class of what the real `Transform.delete` / `delete_range` did"""
    tr = Transform(doc)
    st, val = outcome(lambda: (tr.delete(f, t) if rng_op == "delete" else tr.delete_range(f, t)))
    if st == "ok":
        return "applies" if tr.steps else "none"
    if st == "failed":
        return "refused"
    return st      # valueError / internal / hang


ANSWER = {"deleteGuards", "deleteApplies", "deleteRangeApplies", "trivialApplies", "directApplies"}


def tie_delete_applies(ctx, info, guards, doc, f, t, name, reqs, metas):
    """`name` = "delete" or "delete_range"; `guards` = the driver's answer to `deleteGuards` for the schema (all guards)"""
    real = real_outcome(doc, f, t, name)
    exp = {"hyp": {"valid": True, "norm": True, "attrs": True, "highClosed": high_closed(doc),
                   "alignedFrom": pair_aligned(doc, f), "alignedTo": pair_aligned(doc, t),
                   "topTextblock": bool(doc.type.is_textblock), "inRange": t <= doc.content.size, "ordered": f <= t},
           "model": real}
    replay = {"schema": info.name, "doc": doc.to_json(), "from": f, "to": t, "op": name, "real": real, "guards": guards}
    reqs.append({"op": "deleteApplies" if name == "delete" else "deleteRangeApplies", "s": info.lean_id,
                 "doc": info.node(doc), "from": f, "to": t})
    metas.append(("deleteApplies" if name == "delete" else "deleteRangeApplies", replay, exp))


def check_delete_applies(ctx, replay, out):
    """the statement, relationally: guards and hypotheses true (as the *model* evaluates them) => the real operation returned"""
    g = out.get("ok")
    if not isinstance(g, dict):
        return
    h = g.get("hyp", {})
    guards = replay.get("guards") or {}
    hyps_ok = all(h.get(k) for k in ("valid", "norm", "attrs", "highClosed", "alignedFrom", "alignedTo", "inRange", "ordered")) \
        and not h.get("topTextblock")
    if guards and all(guards.values()) and hyps_ok:
        ctx.count("%s_never_raises: hypotheses hold (%s)" % (replay["op"], g.get("model")))
        if replay["real"] not in ("applies", "none"):
            ctx.mismatch("deleteApplies:hypotheses-true-but-raises", replay, replay["real"], g)
        if g.get("model") not in ("applies", "none"):
            ctx.mismatch("deleteApplies:hypotheses-true-but-model-refuses", replay, replay["real"], g)
    else:
        bad = [k for k, v in guards.items() if not v] + [k for k in sorted(h) if k != "topTextblock" and not h[k]] + \
            (["topTextblock"] if h.get("topTextblock") else [])
        ctx.count("%s_never_raises: hypotheses fail (%s)" % (replay["op"], ",".join(bad)[:80]))


def tie_trivial_applies(ctx, info, guards, doc, f, t, sl, reqs, metas):
    """`trivialFit_replace_applies` (lean/Props/C11.lean): for a closed slice, the hypotheses exactly (`fits_trivially` among
    them) and the answer of `ReplaceStep(f, t, slice).apply(doc)` exactly; relationally: hypotheses true => it applied"""
    from prosemirror.transform.replace import fits_trivially
    from prosemirror.transform.replace_step import ReplaceStep
    if sl.open_start or sl.open_end or f > t:
        return
    fits = bool(fits_trivially(doc.resolve(f), doc.resolve(t), sl))
    st, res = outcome(lambda: ReplaceStep(f, t, sl).apply(doc))
    if st == "ok":
        real = "applies" if res.failed is None else "refused"
    else:
        real = "refused" if st == "failed" else st
    exp = {"hyp": {"valid": True, "norm": True, "sliceNorm": True, "alignedFrom": pair_aligned(doc, f),
                   "alignedTo": pair_aligned(doc, t), "fits": fits}, "model": real}
    replay = {"schema": info.name, "doc": doc.to_json(), "from": f, "to": t, "slice": sl.to_json(), "real": real,
              "guards": guards, "op": "trivial"}
    reqs.append({"op": "trivialApplies", "s": info.lean_id, "doc": info.node(doc), "from": f, "to": t, "slice": info.slice(sl)})
    metas.append(("trivialApplies", replay, exp))


def check_trivial_applies(ctx, replay, out):
    g = out.get("ok")
    if not isinstance(g, dict):
        return
    h = g.get("hyp", {})
    guards = replay.get("guards") or {}
    if guards.get("textAbsorb") and guards.get("textStableC") and all(h.get(k) for k in
                                                                      ("valid", "norm", "sliceNorm", "alignedFrom", "alignedTo", "fits")):
        ctx.count("trivialFit_replace_applies: hypotheses hold")
        if replay["real"] != "applies" or g.get("model") != "applies":
            ctx.mismatch("trivialApplies:hypotheses-true-but-refused", replay, replay["real"], g)
    else:
        ctx.count("trivialFit_replace_applies: hypotheses fail (%s)" % ",".join(
            [k for k in ("textAbsorb", "textStableC") if not guards.get(k)] + [k for k in sorted(h) if not h[k]])[:60])


def frag_units(text):
    u = text.encode("utf-16-le", "surrogatepass")
    return [u[i] | (u[i + 1] << 8) for i in range(0, len(u), 2)]


def frag_high_closed(frag):
    """`highClosedKids` on a Fragment"""
    for i in range(frag.child_count):
        n = frag.child(i)
        if n.is_text:
            units = frag_units(n.text)
            for k, c in enumerate(units):
                if 0xD800 <= c < 0xDC00 and not (k + 1 < len(units) and 0xDC00 <= units[k + 1] < 0xE000):
                    return False
        elif not frag_high_closed(n.content):
            return False
    return True


def frag_norm(frag):
    """`fnorm` on a Fragment: no empty text node, no two adjacent text nodes with the same marks, at every level"""
    prev = None
    for i in range(frag.child_count):
        n = frag.child(i)
        if n.is_text:
            if not n.text:
                return False
            if prev is not None and prev.is_text and prev.same_markup(n):
                return False
        elif not frag_norm(n.content):
            return False
        prev = n
    return True


def frag_valid(frag):
    """`Slice.closedValid`: every node of the content passes `Node.check`"""
    for i in range(frag.child_count):
        st, _ = outcome(frag.child(i).check)
        if st != "ok":
            return False
    return True


def direct_fit(doc, f, sl):
    """`directFitB` (lean/PM/DeleteGuards.lean) on the real objects"""
    if sl.open_start or sl.open_end or f < 0 or f > doc.content.size:
        return False
    r = doc.resolve(f)
    st, m = outcome(lambda: r.parent.content_match_at(r.index_after(r.depth)))
    if st != "ok":
        return False
    for i in range(sl.content.child_count):
        m = m.match_type(sl.content.child(i).type)
        if not m:
            return False
    return True


COARSE = {"applies": "applies", "none": "none", "refused": "refused"}


def tie_direct_applies(ctx, info, guards, doc, f, t, sl, reqs, metas):
    """`replace_applies_direct` / `insertInline_never_raises_direct_partial` (lean/Props/C11.lean) for one request
    `replace(f, t, slice)` with a closed slice: the hypotheses exactly, the class of the answer of the whole operation
    (`Transform.replace`: `replace_step`, then `Step.apply`) exactly, and the statements relationally"""
    if sl.open_start or sl.open_end or f > t or t > doc.content.size:
        return
    tr = Transform(doc)
    st, _ = outcome(lambda: tr.replace(f, t, sl))
    real = ("applies" if tr.steps else "none") if st == "ok" else ("refused" if st == "failed" else "other")
    leaves = all(sl.content.child(i).is_leaf for i in range(sl.content.child_count))
    exp = {"hyp": {"doc": {"valid": True, "norm": True, "attrs": True, "highClosed": high_closed(doc),
                           "alignedFrom": pair_aligned(doc, f), "alignedTo": pair_aligned(doc, t),
                           "topTextblock": bool(doc.type.is_textblock), "inRange": True, "ordered": True},
                   "direct": direct_fit(doc, f, sl), "sliceValid": frag_valid(sl.content), "sliceNorm": frag_norm(sl.content),
                   "sliceHighClosed": frag_high_closed(sl.content), "inlineLeaves": leaves},
           "model": real}
    replay = {"schema": info.name, "doc": doc.to_json(), "from": f, "to": t, "slice": sl.to_json(), "real": real,
              "guards": guards, "op": "direct"}
    reqs.append({"op": "directApplies", "s": info.lean_id, "doc": info.node(doc), "from": f, "to": t, "slice": info.slice(sl)})
    metas.append(("directApplies", replay, exp))


def check_direct_applies(ctx, replay, out):
    g = out.get("ok")
    if not isinstance(g, dict):
        return
    h = g.get("hyp", {})
    d = h.get("doc", {})
    guards = replay.get("guards") or {}
    need = ("det", "fillers", "leafOk", "closable", "textStableC", "textAbsorb", "joinCompat", "reopenOK", "inlineUniform")
    hyps = all(d.get(k) for k in ("valid", "norm", "attrs", "highClosed", "alignedFrom", "alignedTo", "ordered")) and \
        all(h.get(k) for k in ("direct", "sliceValid", "sliceNorm", "sliceHighClosed"))
    if guards and all(guards.get(k) for k in need) and hyps:
        model = g.get("model")
        ctx.count("replace_applies_direct: hypotheses hold (%s%s)" % (model, ", inline leaves" if h.get("inlineLeaves") else ""))
        # the emitted step applies: no refusal, in the model and in the code
        if model in ("refused", "valueError", "internal") or replay["real"] == "refused":
            ctx.mismatch("directApplies:hypotheses-true-but-refused", replay, replay["real"], g)
        # typing / inline leaves, the top node no textblock: the operation as a whole returns
        if h.get("inlineLeaves") and not d.get("topTextblock") and \
                (model not in ("applies", "none") or replay["real"] not in ("applies", "none")):
            ctx.mismatch("directApplies:inline-leaves-but-raises", replay, replay["real"], g)
    else:
        bad = [k for k in need if not guards.get(k)] + [k for k in sorted(d) if k != "topTextblock" and not d[k]] + \
            [k for k in ("direct", "sliceValid", "sliceNorm", "sliceHighClosed") if not h.get(k)]
        ctx.count("replace_applies_direct: hypotheses fail (%s)%s" % (",".join(bad)[:60], " [inline leaves]" if h.get("inlineLeaves") else ""))


def tie_join_counterexample(ctx, reqs, metas):
    """`joinCompat_needed` (lean/Props/C11.lean) on the real code: schema doc "(x | y)+", x "a b*", y "b+";
    `doc(x(a), y(b, b))`, `delete(2, 5)` raises TransformError("Cannot join y onto x"); the guard is false there"""
    spec = {"nodes": {"doc": {"content": "(x | y)+"}, "x": {"content": "a b*"}, "y": {"content": "b+"},
                      "a": {}, "b": {}, "text": {}}, "marks": {}}
    schema = Schema(spec)
    info = SchemaInfo(schema, "random")
    ctx.driver.add_schema(info)
    doc = schema.node("doc", None, [schema.node("x", None, [schema.node("a")]),
                                    schema.node("y", None, [schema.node("b"), schema.node("b")])])
    g = schema_guards(schema)
    reqs.append({"op": "deleteGuards", "s": info.lean_id})
    metas.append(("deleteGuards", {"schema": "join-counterexample"}, g))
    real = real_outcome(doc, 2, 5, "delete")
    ctx.count("joinCompat counterexample: guard=%s real delete(2,5): %s" % (g["joinCompat"], real))
    if g["joinCompat"] or real != "refused":
        ctx.mismatch("joinCompat-counterexample", {"schema": spec, "doc": doc.to_json()}, "guard false, TransformError",
                     {"guard": g["joinCompat"], "real": real})
    tie_delete_applies(ctx, info, None, doc, 2, 5, "delete", reqs, metas)


def answer(op, out):
    """the part of the driver's answer that is compared exactly"""
    o = out.get("ok")
    if not isinstance(o, dict):
        return out
    if op == "deleteGuards":
        return {k: o.get(k) for k in ("joinCompat", "reopenOK", "textAbsorb", "inlineUniform")}
    if op == "directApplies":
        return {"hyp": o.get("hyp"), "model": COARSE.get(o.get("model"), "other")}
    return {"hyp": o.get("hyp"), "model": o.get("model")}
