"""Pools of *live* objects that are handed out again and again during a run.

Most generators build a fresh object for every call (a new `StepMap`, a new `Slice`, a new step).  The library's objects
are values: nothing forbids using one map in several mappings, pasting one slice at several places, applying one step to
several documents, inverting a map that was queried before.  A check that never does so cannot see state that an object
carries from one call to the next (or hands on to the objects derived from it: `invert`, `Step.map`, `merge`, `copy`).

A `Pool` keeps a bounded number of such objects together with what the harness knows about them (their *description*: the
plain data an expected answer is computed from) and the list of uses they have been through, which goes into the replay of
a violation found on a reused object.  All choices come from the run's one PRNG.
"""


class Entry:
    __slots__ = ("obj", "meta", "log")

    def __init__(self, obj, meta, log=None):
        self.obj = obj
        self.meta = meta
        self.log = list(log or [])

    def used(self, what):
        """note one use of the object (kept short: the last uses are what a replay needs)"""
        self.log.append(what)
        if len(self.log) > 12:
            del self.log[0]

    @property
    def uses(self):
        return len(self.log)


class Pool:
    def __init__(self, rng, cap=16):
        self.rng = rng
        self.cap = cap
        self.entries = []

    def __len__(self):
        return len(self.entries)

    def add(self, obj, log=None, **meta):
        e = Entry(obj, meta, log)
        if len(self.entries) < self.cap:
            self.entries.append(e)
        else:
            self.entries[self.rng.randrange(self.cap)] = e
        return e

    def draw(self, pred=None):
        cands = self.entries if pred is None else [e for e in self.entries if pred(e)]
        return self.rng.choice(cands) if cands else None
