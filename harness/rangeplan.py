"""Ties of the replace-family *planning* code (lean/PM/RangeOps.lean, lean/PM/Fitter.lean) used by
the checks of C11 and C18: `fits_trivially`, `replace_step`, and the range `delete_range` hands to
`Transform.delete`.  Everything is observed in the harness process only (a `Transform` subclass
records the arguments of `delete`; nothing in the library is patched)."""
from prosemirror.model import Slice
from prosemirror.transform import Transform
from prosemirror.transform.replace import fits_trivially, replace_step
from prosemirror.transform.replace_step import ReplaceAroundStep, ReplaceStep

from .core import outcome

RAISES = "<raises>"


class _DeleteSpy(Transform):
    """records the `(from, to)` that `delete_range` passes to `self.delete` and stops there"""

    def __init__(self, doc):
        super().__init__(doc)
        self.seen = []

    def delete(self, from_, to):
        self.seen.append((from_, to))
        return self


def observed_delete_target(doc, f, t):
    """('ok', [from, to]) as handed to Transform.delete, or (class, repr) if delete_range raised first"""
    spy = _DeleteSpy(doc)
    st, val = outcome(lambda: spy.delete_range(f, t))
    if st != "ok":
        return st, val
    if len(spy.seen) != 1:
        return "internal", f"delete called {len(spy.seen)} times"
    return "ok", list(spy.seen[0])


def answer(out):
    """the model's answer in comparable form"""
    if "ok" in out:
        return out["ok"]
    if out.get("err") == "raises":
        return RAISES
    return out


def tie_delete_range(ctx, info, doc, f, t, reqs, metas, extra=None):
    st, val = observed_delete_target(doc, f, t)
    exp = val if st == "ok" else RAISES
    replay = {"schema": info.name, "doc": doc.to_json(), "op": "delete_range", "args": [f, t], **(extra or {})}
    reqs.append({"op": "deleteRangeTarget", "s": info.lean_id, "doc": info.node(doc), "from": f, "to": t})
    metas.append(("deleteRangeTarget", replay, exp))
    if st == "ok":
        ctx.count("delete_range target:" + ("same" if val == [f, t] else "widened"))
    else:
        ctx.count("delete_range target:raises")
    return exp


def tie_trivial(ctx, info, doc, f, t, sl, reqs, metas):
    """fits_trivially (exact) and replace_step as far as it is decided without a Fitter (exact)"""
    replay = {"schema": info.name, "doc": doc.to_json(), "from": f, "to": t, "slice": sl.to_json()}
    st, fits = outcome(lambda: fits_trivially(doc.resolve(f), doc.resolve(t), sl))
    exp = bool(fits) if st == "ok" else RAISES
    reqs.append({"op": "fitsTrivially", "s": info.lean_id, "doc": info.node(doc), "from": f, "to": t, "slice": info.slice(sl)})
    metas.append(("fitsTrivially", replay, exp))
    ctx.count(f"fits_trivially:{exp}")
    # replace_step: None without looking at the document / the trivial ReplaceStep / a Fitter is needed
    if f == t and not sl.size:
        st2, step = outcome(lambda: replace_step(doc, f, t, sl))
        plan = RAISES if st2 != "ok" else (["none"] if step is None else ["step", info.step(step)])
    elif st != "ok":
        plan = RAISES
    elif fits:
        st2, step = outcome(lambda: replace_step(doc, f, t, sl))
        plan = ["step", info.step(step)] if st2 == "ok" and step is not None else RAISES
    else:
        plan = ["fitter"]
    reqs.append({"op": "replaceStepTrivial", "s": info.lean_id, "doc": info.node(doc), "from": f, "to": t, "slice": info.slice(sl)})
    metas.append(("replaceStepTrivial", replay, plan))
    ctx.count("replace_step plan:" + (plan[0] if isinstance(plan, list) else plan))
