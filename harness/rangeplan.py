"""Ties of the replace-family *planning* code (lean/PM/RangeOps.lean, lean/PM/Fitter.lean) used by
the checks of C11 and C18: `fits_trivially`, `replace_step`, and the range `delete_range` hands to
`Transform.delete`.  Everything is observed in the harness process only (a `Transform` subclass
records the arguments of `delete`; nothing in the library is patched)."""
from prosemirror.model import Fragment, Slice
from prosemirror.transform import Transform
from prosemirror.transform.replace import fits_trivially, replace_step
from prosemirror.transform.replace_step import ReplaceAroundStep, ReplaceStep

from .core import outcome

RAISES = "<raises>"


class _DeleteSpy(Transform):
    """records the `(from, to)` that `delete_range` passes to `self.delete` and stops there"""

    def __init__(self, doc):
        super().__init__(doc)
        self.seen = []

    def delete(self, from_, to):
        self.seen.append((from_, to))
        return self


def observed_delete_target(doc, f, t):
    """('ok', [from, to]) as handed to Transform.delete, or (class, repr) if delete_range raised first"""
    spy = _DeleteSpy(doc)
    st, val = outcome(lambda: spy.delete_range(f, t))
    if st != "ok":
        return st, val
    if len(spy.seen) != 1:
        return "internal", f"delete called {len(spy.seen)} times"
    return "ok", list(spy.seen[0])


def tie_delete_range_step(ctx, info, doc, f, t, reqs, metas):
    """Transform.delete_range(f, t) as a whole: the step it records (lean/PM/Fitter.lean `deleteRangeStep`), exactly"""
    tr = Transform(doc)
    st, val = outcome(lambda: tr.delete_range(f, t))
    if st == "hang":
        ctx.count("delete_range step:hang (not compared)")
        return
    if st != "ok":
        exp = RAISES
    elif len(tr.steps) == 0:
        exp = ["none"]
    elif len(tr.steps) == 1:
        exp = ["step", SchemaStep(info, tr.steps[0])]
    else:
        exp = "more than one step"
    replay = {"schema": info.name, "doc": doc.to_json(), "op": "delete_range", "args": [f, t],
              "steps": [s_.to_json() for s_ in tr.steps]}
    reqs.append({"op": "deleteRangeStep", "s": info.lean_id, "doc": info.node(doc), "from": f, "to": t})
    metas.append(("deleteRangeStep", replay, exp))
    ctx.count("delete_range step:" + (exp[0] if isinstance(exp, list) else str(exp)))


def SchemaStep(info, step):
    return info.step(step)


def answer(out):
    """the model's answer in comparable form"""
    if "ok" in out:
        if isinstance(out["ok"], dict) and "guards" in out["ok"]:
            # fitRaise: the guards on the slice and the class of the answer are exact; the other hypotheses and the run
            # hypothesis are used relationally only (`check_fit_raise`)
            return {"guards": out["ok"]["guards"], "model": out["ok"].get("model")}
        if isinstance(out["ok"], dict) and "hyp" in out["ok"]:
            # fitGuards: the hypotheses of `delete_total` are used relationally only (`check_fit_guards`)
            return {k: v for k, v in out["ok"].items() if k != "hyp"}
        if isinstance(out["ok"], dict) and "rel" in out["ok"]:
            # fitEmit: the in-step trace and the hypotheses are used relationally only (`check_fit_emit`)
            return {k: v for k, v in out["ok"].items() if k != "rel"}
        return out["ok"]
    if out.get("err") == "raises":
        return RAISES
    return out


def tie_delete_range(ctx, info, doc, f, t, reqs, metas, extra=None):
    st, val = observed_delete_target(doc, f, t)
    exp = val if st == "ok" else RAISES
    replay = {"schema": info.name, "doc": doc.to_json(), "op": "delete_range", "args": [f, t], **(extra or {})}
    reqs.append({"op": "deleteRangeTarget", "s": info.lean_id, "doc": info.node(doc), "from": f, "to": t})
    metas.append(("deleteRangeTarget", replay, exp))
    if st == "ok":
        ctx.count("delete_range target:" + ("same" if val == [f, t] else "widened"))
    else:
        ctx.count("delete_range target:raises")
    return exp


def tie_trivial(ctx, info, doc, f, t, sl, reqs, metas):
    """fits_trivially (exact) and replace_step as far as it is decided without a Fitter (exact)"""
    replay = {"schema": info.name, "doc": doc.to_json(), "from": f, "to": t, "slice": sl.to_json()}
    st, fits = outcome(lambda: fits_trivially(doc.resolve(f), doc.resolve(t), sl))
    exp = bool(fits) if st == "ok" else RAISES
    reqs.append({"op": "fitsTrivially", "s": info.lean_id, "doc": info.node(doc), "from": f, "to": t, "slice": info.slice(sl)})
    metas.append(("fitsTrivially", replay, exp))
    ctx.count(f"fits_trivially:{exp}")
    # replace_step: None without looking at the document / the trivial ReplaceStep / a Fitter is needed
    if f == t and not sl.size:
        st2, step = outcome(lambda: replace_step(doc, f, t, sl))
        plan = RAISES if st2 != "ok" else (["none"] if step is None else ["step", info.step(step)])
    elif st != "ok":
        plan = RAISES
    elif fits:
        st2, step = outcome(lambda: replace_step(doc, f, t, sl))
        plan = ["step", info.step(step)] if st2 == "ok" and step is not None else RAISES
    else:
        plan = ["fitter"]
    reqs.append({"op": "replaceStepTrivial", "s": info.lean_id, "doc": info.node(doc), "from": f, "to": t, "slice": info.slice(sl)})
    metas.append(("replaceStepTrivial", replay, plan))
    ctx.count("replace_step plan:" + (plan[0] if isinstance(plan, list) else plan))


# ---------------------------------------------------------------------------------------------
# the Fitter (lean/PM/Fitter.lean) and the order-faithful fill / wrap choices (lean/PM/FillOrder.lean)

def dfa_states(start):
    """states of a content automaton in the order of SchemaInfo.dump_dfa"""
    states, index = [start], {id(start): 0}
    i = 0
    while i < len(states):
        for e in states[i].next:
            if id(e.next) not in index:
                index[id(e.next)] = len(states)
                states.append(e.next)
        i += 1
    return states


def tie_replace_step(ctx, info, doc, f, t, sl, reqs, metas):
    """replace_step(doc, f, t, slice): the emitted step, exactly (None / ReplaceStep / ReplaceAroundStep)"""
    replay = {"schema": info.name, "doc": doc.to_json(), "from": f, "to": t, "slice": sl.to_json()}
    st, step = outcome(lambda: replace_step(doc, f, t, sl))
    if st == "hang":
        # the loop of Fitter.fit does not end: the model must say so (`outOfFuel` is exact, Props/C11.lean
        # `fitLoop_outOfFuel_exact`)
        exp, kind = {"err": "outOfFuel"}, "hang"
    elif st != "ok":
        exp, kind = RAISES, "raises"
    elif step is None:
        exp, kind = ["none"], "none"
    else:
        exp = ["step", info.step(step)]
        if isinstance(step, ReplaceAroundStep):
            kind = "fitted-around"
        else:
            st2, fits = outcome(lambda: fits_trivially(doc.resolve(f), doc.resolve(t), sl))
            kind = "trivial" if st2 == "ok" and fits else "fitted-replace"
    reqs.append({"op": "replaceStep", "s": info.lean_id, "doc": info.node(doc), "from": f, "to": t, "slice": info.slice(sl)})
    metas.append(("replaceStep", dict(replay, kind=kind, real=None if st != "ok" or step is None else step.to_json()), exp))
    ctx.count("replace_step kind:" + kind)
    return st


def term_guard(sl):
    """lean/PM/Fitter.lean `Slice.termGuard`: the top-level content ends in a non-leaf node, or is all leaf / text nodes and
    the slice is closed on both sides"""
    n = sl.content.child_count
    if n and not sl.content.last_child.is_leaf:
        return True
    return all(sl.content.child(i).is_leaf for i in range(n)) and sl.open_start == 0 and sl.open_end == 0


def slice_wf(sl):
    """lean/PM/Replace.lean `Slice.wf`: the open depths stay within the first-child / last-child chains of non-leaf nodes"""
    def spine(frag, last):
        d = 0
        while frag.child_count:
            n = frag.last_child if last else frag.first_child
            if n.is_leaf:
                break
            d, frag = d + 1, n.content
        return d
    return sl.open_start <= spine(sl.content, False) and sl.open_end <= spine(sl.content, True)


def tie_fit_guards(ctx, info, doc, f, t, sl, st, reqs, metas):
    """the guards of the totality theorems of Props/C11.lean, exactly (the finding class `partial_node_class`, the
    termination guard, slice well-formedness, determinism of the automata) together with the class of the model's answer;
    `st` = outcome class of the real `replace_step` on the same request.  Relational part (`check_fit_guards`): guard true
    => the real code did not raise / did return."""
    from .findings import partial_node_class
    replay = {"schema": info.name, "doc": doc.to_json(), "from": f, "to": t, "slice": sl.to_json(), "real": st}
    exp = {"partial": partial_node_class(sl), "term": term_guard(sl), "wf": slice_wf(sl), "det": True,
           "model": "ok" if st == "ok" else "outOfFuel" if st == "hang" else "raises"}
    reqs.append({"op": "fitGuards", "s": info.lean_id, "doc": info.node(doc), "from": f, "to": t, "slice": info.slice(sl)})
    metas.append(("fitGuards", replay, exp))
    ctx.count("fit guards: partial=%s term=%s wf=%s" % (exp["partial"], exp["term"], exp["wf"]))


def open_payload_problem(val, sl):
    """independent payload check of an emitted slice (harness/validator.py, working on JSON): every node *off* the two open
    spines must be fully valid; returns the first problem or None.  (Spine nodes are validated by `replace` when it joins them.)"""
    def walk(frag, a, b):
        n = frag.child_count
        for i in range(n):
            c = frag.child(i)
            on_start, on_end = (i == 0 and a > 0), (i == n - 1 and b > 0)
            if not on_start and not on_end:
                p = val.problem(c.to_json(), "slice")
                if p:
                    return p
            else:
                if c.is_leaf:
                    return "open depth reaches a leaf/text node"
                p = walk(c.content, a - 1 if on_start else 0, b - 1 if on_end else 0)
                if p:
                    return p
        return None
    return walk(sl.content, sl.open_start, sl.open_end)


def tie_fit_emit(ctx, info, val, doc, f, t, sl, reqs, metas):
    """well-formedness of the step replace_step emits (Props/C11.lean `fit_emits_wf_partial`, `delete_emits_wf`,
    `insertInline_emits_wf`): the model evaluates `StepWF`, `aroundShape` and the start half on its own emitted step; compared
    exactly with the same predicates on the real step.  The real step's payload is checked with the independent validator."""
    replay = {"schema": info.name, "doc": doc.to_json(), "from": f, "to": t, "slice": sl.to_json()}
    st, step = outcome(lambda: replace_step(doc, f, t, sl))
    if st == "hang":
        exp = {"kind": "outOfFuel", "wf": None, "left": None, "shape": None}
    elif st != "ok":
        exp = {"kind": "raises", "wf": None, "left": None, "shape": None}
    elif step is None:
        exp = {"kind": "none", "wf": None, "left": None, "shape": None}
    else:
        s_ = step.slice
        start_ok = s_.open_start <= _spine(s_.content, False)
        if isinstance(step, ReplaceAroundStep):
            ins_ok = step.insert <= s_.size
            ordered = step.from_ <= step.gap_from <= step.gap_to <= step.to
            exp = {"kind": "around", "wf": slice_wf(s_) and ins_ok, "left": start_ok and ins_ok,
                   "shape": slice_wf(s_) and ins_ok and ordered}
        else:
            exp = {"kind": "replace", "wf": slice_wf(s_), "left": start_ok, "shape": None}
        replay["step"] = step.to_json()
        prob = open_payload_problem(val, s_) if slice_wf(s_) else "not well-formed"
        replay["payload"] = prob
        if isinstance(step, ReplaceAroundStep):
            # fit_around_shape / fit_around_gap_valid (Props/C11.lean): every replace-around answer starts at `from`, its gap is
            # [to, to.end()) — a closed slice of valid nodes on a valid document —, the structure flag is not set
            rt_ = doc.resolve(t)
            gap_ = doc.slice(step.gap_from, step.gap_to)
            replay["aroundShape"] = (not step.structure and step.from_ == f and step.gap_from == t and step.gap_to == rt_.end()
                                     and gap_.open_start == 0 and gap_.open_end == 0)
            replay["aroundGap"] = open_payload_problem(val, gap_)
        if isinstance(step, ReplaceAroundStep) and not sl.content.child_count:
            # delete_around_is_move / delete_emits_payloadValid (Props/C11.lean): a deletion's replace-around answer has
            # insert = 0, gap [to, to.end()), no structure flag; the slice with the gap content in place is a valid payload
            rt_ = doc.resolve(t)
            replay["aroundMove"] = (step.insert == 0 and not step.structure and step.gap_from == t and step.gap_to == rt_.end())
            st2, ins_ = outcome(lambda: s_.insert_at(step.insert, doc.slice(step.gap_from, step.gap_to).content))
            replay["aroundPayload"] = ("insert_at " + st2) if st2 != "ok" else (
                None if ins_ is None else (open_payload_problem(val, ins_) if slice_wf(ins_) else "not well-formed"))
        ctx.count("fit emit: payload of the real step " + ("valid" if prob is None else "INVALID"))
    reqs.append({"op": "fitEmit", "s": info.lean_id, "doc": info.node(doc), "from": f, "to": t, "slice": info.slice(sl)})
    metas.append(("fitEmit", replay, exp))


def _spine(frag, last):
    d = 0
    while frag.child_count:
        n = frag.last_child if last else frag.first_child
        if n.is_leaf:
            break
        d, frag = d + 1, n.content
    return d


def check_fit_emit(ctx, replay, out):
    """relational part of `fitEmit`: (1) the theorems' conclusions on the model's own answer: start half always; `StepWF` when
    the hypotheses of delete_emits_wf / insertInline_emits_wf hold; (2) in-step over the whole loop => `StepWF`; (3) the real
    step's payload is valid (independent validator) whenever the model's hypotheses hold"""
    g = out.get("ok")
    if not isinstance(g, dict):
        return
    rel = g.get("rel") or {}
    cls = rel.get("cls")
    ctx.count("fit emit guards: labelsOKB=%s unplacedWfRun=%s textStableC=%s" % (rel.get("labels"), rel.get("uWfRun"), rel.get("textStable")))
    for kk in ("uStart", "uEnd"):
        if rel.get(kk) is not None:
            ctx.count("fit emit: unplaced %s half well-formed over the loop: %s" % ("start" if kk == "uStart" else "end", rel[kk]))
    if rel.get("coherent") is not None:
        # candidate key invariant of fit_emits_valid_payload (lean/PM/Fitter.lean `FitState.coherentB`): frontier[i].match is the
        # automaton state after the children placed at level i — evaluated after every iteration
        ctx.count("fit emit: frontier coherent with placed over the loop (%s slice): %s" % (cls, rel["coherent"]))
    if g.get("kind") in ("replace", "around"):
        ctx.count("fit emit: %s slice -> %s, StepWF=%s" % (cls, g["kind"], g.get("wf")))
        if g.get("left") is not True:
            ctx.mismatch("fitEmit:start-half-false (fit_emits_wf_partial)", replay, True, g)
        if rel.get("hyp") and cls in ("empty", "inline") and replay["from"] <= replay["to"]:
            ctx.count("fit emit: hypotheses of %s hold" % ("delete_emits_wf" if cls == "empty" else "insertInline_emits_wf"))
            if g.get("wf") is not True or (g["kind"] == "around" and g.get("shape") is not True):
                ctx.mismatch("fitEmit:hypotheses-true-but-not-StepWF", replay, True, g)
        # fit_emits_wf (Props/C11.lean): schema/document hypotheses, a well-formed request slice and `unplacedWfRun`
        # (the unplaced slice stays Slice.wf over the run) => StepWF (and aroundShape)
        if rel.get("hyp") and rel.get("labels") and rel.get("slWf") and replay["from"] <= replay["to"]:
            if rel.get("uWfRun"):
                ctx.count("fit emit: hypotheses of fit_emits_wf hold (%s slice)" % cls)
                if g.get("wf") is not True or (g["kind"] == "around" and g.get("shape") is not True):
                    ctx.mismatch("fitEmit:fit_emits_wf-hypotheses-true-but-not-StepWF", replay, True, g)
            else:
                ctx.count("fit emit: unplacedWfRun false (%s slice)" % cls)
        # delete_emits_valid_payload (Props/C11.lean): detB, leafOkB, valid document with creatable element types =>
        # the payload of the step emitted for a deletion is valid; checked on the real step with the independent validator
        if cls == "empty" and rel.get("hyp") and rel.get("leafOk"):
            ctx.count("fit emit: hypotheses of delete_emits_valid_payload hold")
            if replay.get("payload") is not None:
                ctx.mismatch("fitEmit:delete-payload-invalid", replay, None, replay.get("payload"))
            if "aroundMove" in replay:
                ctx.count("fit emit: hypotheses of delete_emits_payloadValid hold on a replace-around answer")
                if replay["aroundMove"] is not True:
                    ctx.mismatch("fitEmit:delete-around-not-a-move (delete_around_is_move)", replay, True, replay["aroundMove"])
                if replay.get("aroundPayload") is not None:
                    ctx.mismatch("fitEmit:delete-around-payload-invalid", replay, None, replay.get("aroundPayload"))
        # insertInline_emits_valid_payload (Props/C11.lean): schema guards detB/fillersOKB/wrapOKB/labelsOKB/leafOkB/textStableC/
        # closableB, valid document with creatable element types, closed slice of valid leaf nodes => the payload of the
        # emitted step is valid; checked on the real step with the independent validator
        if cls == "inline":
            if rel.get("hyp") and rel.get("labels") and rel.get("leafOk") and rel.get("textStable") and rel.get("closable") \
                    and rel.get("slClosedValid"):
                ctx.count("fit emit: hypotheses of insertInline_emits_valid_payload hold (-> %s)" % g["kind"])
                if replay.get("payload") is not None:
                    ctx.mismatch("fitEmit:insertInline-payload-invalid", replay, None, replay.get("payload"))
            else:
                ctx.count("fit emit: hypotheses of insertInline_emits_valid_payload fail (closableB=%s slClosedValid=%s)"
                          % (rel.get("closable"), rel.get("slClosedValid")))
        # fit_emits_valid_payload_of_inv (Props/C11.lean): schema guards, valid request slice, creatable element types, and
        # the validity invariant (`FitState.validB`, in step) at the end of the loop => payload valid, for every request
        if rel.get("endInv") is not None:
            ctx.count("fit emit: validity invariant at the end of the loop (%s slice%s): %s"
                      % (cls, "" if rel.get("slValid") else ", request slice not a valid payload", rel["endInv"]))
            if rel["endInv"] and rel.get("hyp") and rel.get("leafOk") and rel.get("textStable") and rel.get("closable") \
                    and rel.get("slValid"):
                ctx.count("fit emit: hypotheses of fit_emits_valid_payload_of_inv hold (%s slice)" % cls)
                if replay.get("payload") is not None:
                    ctx.mismatch("fitEmit:valid-invariant-but-payload-invalid", replay, None, replay.get("payload"))
        if "aroundShape" in replay:
            ctx.count("fit emit: replace-around answer, shape as fit_around_shape: %s" % replay["aroundShape"])
            if replay["aroundShape"] is not True:
                ctx.mismatch("fitEmit:around-shape (fit_around_shape)", replay, True, replay["aroundShape"])
            if rel.get("hyp") and replay.get("aroundGap") is not None:
                ctx.mismatch("fitEmit:around-gap-invalid (fit_around_gap_valid)", replay, None, replay.get("aroundGap"))
        if rel.get("validRun") is not None:
            ctx.count("fit emit: validity invariant after every iteration (%s slice): %s" % (cls, rel["validRun"]))
        if rel.get("inStep") is not None:
            ctx.count("fit emit: in-step invariant over the loop (%s slice): %s" % (cls, rel["inStep"]))
            if rel["inStep"] and g.get("wf") is not True:
                ctx.mismatch("fitEmit:in-step-but-not-StepWF", replay, True, g)
        if g.get("wf") is not True:
            ctx.count("fit emit: emitted step NOT StepWF (%s slice)" % cls)
        if rel.get("hyp") and replay.get("payload") is not None:
            ctx.mismatch("fitEmit:payload-of-real-step-invalid", replay, None, replay.get("payload"))
    elif rel.get("inStep") is not None:
        ctx.count("fit emit: in-step invariant over the loop (%s slice, no step): %s" % (cls, rel["inStep"]))


def check_fit_guards(ctx, replay, out):
    """relational: with the *model's* guards true, the real replace_step neither raised nor hung"""
    g = out.get("ok")
    if not isinstance(g, dict):
        return
    st = replay["real"]
    if g.get("det") and g.get("wf") and not g.get("partial"):
        # a heuristic class only (finding matcher): that it excludes every raise is false — the stale `open_start` of
        # `place_nodes` raises in `find_fittable` on slices of this class (Props/C11.lean, third raise site).  The proven
        # relation "hypotheses of fit_no_raise true => the real code returned" is checked by `check_fit_raise` (op fitRaise).
        ctx.count("fit guards: finding class false, slice well-formed")
        if st not in ("ok", "hang"):
            ctx.count("fit guards: finding class false, slice well-formed, but the real code raised")
    if g.get("det") and g.get("term"):
        ctx.count("fit guards: termination guard holds")
        if st == "hang":
            ctx.mismatch("fitGuards:term-guard-true-but-hangs", replay, st, g)
    h = g.get("hyp")
    if isinstance(h, dict):
        # `delete_total` / `insertInline_total` (Props/C11.lean): with their hypotheses true, replace_step with the empty
        # slice / a closed slice of leaf nodes returned
        which = "delete_total" if h.get("empty") else "insertInline_total"
        if g.get("det") and h.get("fillers") and h.get("valid") and h.get("attrs") and not h.get("topTextblock") \
                and (h.get("empty") or h.get("wrapOK")) and replay["from"] <= replay["to"]:
            ctx.count("fit guards: %s hypotheses hold" % which)
            if st != "ok":
                ctx.mismatch("fitGuards:%s-hypotheses-true-but-not-returned" % which, replay, st, g)
        else:
            ctx.count("fit guards: %s hypotheses fail (%s)" % (which, ",".join(
                k for k in sorted(h) if k != "empty" and h[k] != (k != "topTextblock"))))


def tie_divergence_example(ctx, reqs, metas):
    """the slice of Props/C11.lean's divergence example (`<il("x"), "ab">(0,0)` into `doc(hr)`, schema doc: "hr | p",
    inline il: "text*"): the real replace_step must not return within the allowance and the model must answer outOfFuel"""
    from prosemirror.model import Schema
    from .codec import SchemaInfo
    from . import core
    spec = {"nodes": {"doc": {"content": "hr | p"}, "hr": {}, "il": {"inline": True, "content": "text*", "group": "inline"},
                      "text": {"group": "inline"}, "p": {"content": "inline*"}}, "marks": {}}
    schema = Schema(spec)
    info = SchemaInfo(schema, "random")
    ctx.driver.add_schema(info)
    doc = schema.node("doc", None, [schema.node("hr")])
    src = schema.node("doc", None, [schema.node("p", None, [schema.node("il", None, [schema.text("x")]), schema.text("ab")])])
    sl = src.slice(1, 6)
    try:
        core.call_with_alarm(lambda: replace_step(doc, 1, 1, sl), 0.5)
        st = "ok"
    except core.Timeout:
        st = "hang"
    except Exception:  # noqa: BLE001
        st = "internal"
    ctx.count("divergence example: real replace_step " + st)
    replay = {"schema": "random", "spec": spec, "doc": doc.to_json(), "from": 1, "to": 1, "slice": sl.to_json(), "real": st}
    reqs.append({"op": "replaceStep", "s": info.lean_id, "doc": info.node(doc), "from": 1, "to": 1, "slice": info.slice(sl)})
    metas.append(("replaceStep", dict(replay, kind="hang", real=None), {"err": "outOfFuel"} if st == "hang" else RAISES))
    tie_fit_guards(ctx, info, doc, 1, 1, sl, st, reqs, metas)


def tie_fill_wrap(ctx, info, rng, frags, reqs, metas, per_state=2):
    """ContentMatch.fill_before (the nodes it returns) and find_wrapping (the chain), exactly, for every state of every
    content automaton of the schema"""
    from prosemirror.model import Fragment
    schema = info.schema
    types = list(schema.nodes.values())
    for t in types:
        if t.is_text:
            continue
        for qi, m in enumerate(dfa_states(t.content_match)):
            for _ in range(per_state):
                after = rng.choice(frags) if frags and rng.random() < 0.7 else Fragment.empty
                start = rng.randint(0, after.child_count)
                to_end = rng.random() < 0.5
                after_types = [c.type for c in after.content[start:]]
                st, fill = outcome(lambda: m.fill_before(after, to_end, start))
                replay = {"schema": info.name, "type": t.name, "state": qi, "after": [x.name for x in after_types], "to_end": to_end}
                exp = RAISES if st != "ok" else (None if fill is None else info.frag(fill))
                reqs.append({"op": "fillBeforeO", "s": info.lean_id, "ty": info.nid[t.name], "q": qi,
                             "after": [info.nid[x.name] for x in after_types], "toEnd": to_end})
                metas.append(("fillBeforeO", replay, exp))
                ctx.count("fill_before exact:" + ("raises" if st != "ok" else "none" if fill is None else "len%d" % min(fill.child_count, 3)))
            for target in rng.sample(types, min(len(types), per_state + 1)):
                st, chain = outcome(lambda: m.find_wrapping(target))
                replay = {"schema": info.name, "type": t.name, "state": qi, "target": target.name}
                exp = RAISES if st != "ok" else (None if chain is None else [info.nid[x.name] for x in chain])
                reqs.append({"op": "findWrappingO", "s": info.lean_id, "ty": info.nid[t.name], "q": qi, "target": info.nid[target.name]})
                metas.append(("findWrappingO", replay, exp))
                ctx.count("find_wrapping exact:" + ("raises" if st != "ok" else "none" if chain is None else "len%d" % len(chain)))


# ---------------------------------------------------------------------------------------------
# replace_range / replace_range_with as wholes (lean/PM/ReplaceRange.lean)

class _ReplaceSpy(Transform):
    """records the arguments of every `self.replace` call and of a `self.step` call made outside `replace` (the
    `fits_trivially` path of `replace_range`), and lets them run: the fallback loop of `replace_range` looks at
    `len(self.steps)` after each call"""

    def __init__(self, doc):
        super().__init__(doc)
        self.calls = []
        self.direct = []
        self._inside = 0

    def replace(self, from_, to=None, slice=None):
        self.calls.append((from_, to, slice))
        self._inside += 1
        try:
            return super().replace(from_, to, slice)
        finally:
            self._inside -= 1

    def step(self, object):
        if not self._inside:
            self.direct.append(object)
        return super().step(object)


def observed_replace_plan(info, doc, thunk):
    """what the operation asked of the document, in the model's vocabulary: ["direct", [f, t, slice]] (a ReplaceStep handed
    to `step` without a `replace` call), ["calls", [[f, t, slice], …]] (the arguments of the successive `replace` calls; a
    call that raises is the last one), RAISES (raised before any of these), or None (did not return in time)"""
    spy = _ReplaceSpy(doc)
    st, val = outcome(lambda: thunk(spy))
    if st == "hang":
        return None, spy
    if spy.direct and not spy.calls and len(spy.direct) == 1 and isinstance(spy.direct[0], ReplaceStep) \
            and not isinstance(spy.direct[0], ReplaceAroundStep):
        s_ = spy.direct[0]
        return ["direct", [s_.from_, s_.to, info.slice(s_.slice)]], spy
    if spy.direct:
        return "unexpected direct step", spy
    if spy.calls:
        return ["calls", [[a, b, info.slice(c if c is not None else Slice.empty)] for (a, b, c) in spy.calls]], spy
    if st != "ok":
        return RAISES, spy
    return ["calls", []], spy


def _plan_kind(plan, f, t, sl_enc):
    if plan == RAISES or not isinstance(plan, list):
        return str(plan)
    if plan[0] == "direct":
        return "direct step (fits trivially)"
    cs = plan[1]
    if len(cs) != 1:
        return "fallback loop, %d calls" % len(cs)
    a, b, c = cs[0]
    return "one call:" + ("same range" if (a, b) == (f, t) else "range widened") + "," + \
        ("same slice" if c == sl_enc else "slice closed (open_start %d of %d)" % (c[1], sl_enc[1]))


def tie_replace_range(ctx, info, doc, f, t, sl, reqs, metas, extra=None):
    """Transform.replace_range(f, t, slice): the whole sequence of `(from, to, slice)` it hands to `self.replace`
    (or the direct step), exactly"""
    plan, spy = observed_replace_plan(info, doc, lambda tr: tr.replace_range(f, t, sl))
    if plan is None:
        ctx.count("replace_range plan:hang (not compared)")
        return None
    replay = {"schema": info.name, "doc": doc.to_json(), "op": "replace_range", "args": [f, t, sl.to_json()], **(extra or {})}
    reqs.append({"op": "replaceRangePlan", "s": info.lean_id, "doc": info.node(doc), "from": f, "to": t, "slice": info.slice(sl)})
    metas.append(("replaceRangePlan", replay, plan))
    ctx.count("replace_range plan:" + ("empty slice -> delete_range" if not sl.size else _plan_kind(plan, f, t, info.slice(sl))))
    return plan


def tie_replace_range_with(ctx, info, doc, f, t, node, reqs, metas, extra=None):
    """Transform.replace_range_with(f, t, node): the `(from, to)` it passes on (insert_point or the original pair) and the
    whole sequence of `replace` calls, exactly"""
    plan, spy = observed_replace_plan(info, doc, lambda tr: tr.replace_range_with(f, t, node))
    if plan is None:
        ctx.count("replace_range_with plan:hang (not compared)")
        return None
    replay = {"schema": info.name, "doc": doc.to_json(), "op": "replace_range_with", "args": [f, t, node.to_json()], **(extra or {})}
    reqs.append({"op": "replaceRangeWithPlan", "s": info.lean_id, "doc": info.node(doc), "from": f, "to": t, "node": info.node(node)})
    metas.append(("replaceRangeWithPlan", replay, plan))
    # the pair handed to replace_range, observed separately through a subclass that stops there
    seen = []

    class _Stop(Transform):
        def replace_range(self, from_, to, slice):
            seen.append([from_, to])
            return self

    st, _ = outcome(lambda: _Stop(doc).replace_range_with(f, t, node))
    tgt = seen[0] if st == "ok" and len(seen) == 1 else RAISES
    reqs.append({"op": "replaceRangeWithTarget", "s": info.lean_id, "doc": info.node(doc), "from": f, "to": t, "node": info.node(node)})
    metas.append(("replaceRangeWithTarget", replay, tgt))
    ctx.count("replace_range_with target:" + ("raises" if tgt == RAISES else "same" if tgt == [f, t] else "insert point"))
    ctx.count("replace_range_with plan:" + _plan_kind(plan, tgt[0] if tgt != RAISES else f, tgt[1] if tgt != RAISES else t,
                                                      info.slice(Slice(Fragment.from_(node), 0, 0))))
    return plan


def tie_close_fragment(ctx, info, sl, reqs, metas):
    """close_fragment(slice.content, 0, slice.open_start, open_depth, None, slice.open_end) — the call replace_range
    makes — for every open_depth ≤ open_start, exactly"""
    from prosemirror.transform.replace import close_fragment
    for od in range(sl.open_start + 1):
        st, frag = outcome(lambda: close_fragment(sl.content, 0, sl.open_start, od, None, sl.open_end))
        exp = info.frag(frag) if st == "ok" else RAISES
        reqs.append({"op": "closeSlice", "s": info.lean_id, "slice": info.slice(sl), "openDepth": od})
        metas.append(("closeSlice", {"schema": info.name, "slice": sl.to_json(), "open_depth": od}, exp))
        ctx.count("close_fragment:" + ("raises" if st != "ok" else "unchanged" if frag == sl.content else "filled"))



# ---------------------------------------------------------------------------------------------------------------------
# the guards of `fit_no_raise` (Props/C11.lean; lean/PM/FitRaiseGuard.lean), evaluated on the real objects


def _kids(node):
    return [node.child(i) for i in range(node.child_count)]


def _suffix_all(node, pred):
    """`pred` of every suffix of the node's children (the whole list and the empty one included), as a fragment cut from
    the node's own content (no re-joining of text nodes)"""
    n = node.child_count
    return all(pred(node.content.cut_by_index(i, n)) for i in range(n + 1))


def _fill_ok(node, frag):
    return node.type.content_match.fill_before(frag) is not None


def _run_ok(node, frag):
    return node.type.content_match.match_fragment(frag) is not None


def fillable_kids(frag):
    """`Schema.fillableKids`: every non-leaf node: `fill_before` answers for every suffix of its children"""
    for n in _kids_of_frag(frag):
        if n.is_leaf:
            continue
        if not _suffix_all(n, lambda fr, n=n: _fill_ok(n, fr)) or not fillable_kids(n.content):
            return False
    return True


def _kids_of_frag(frag):
    return [frag.child(i) for i in range(frag.child_count)]


def end_chain_ok(frag):
    """`Schema.endChainOk`: along the whole last-child chain every suffix of the children is a matchable beginning"""
    while frag.child_count:
        n = frag.last_child
        if n.is_leaf:
            return True
        if not _suffix_all(n, lambda fr, n=n: _run_ok(n, fr)):
            return False
        frag = n.content
    return True


def start_site_ok(frag, open_start):
    """`Schema.startSiteOk`: `fill_before(node.content)` answers for the nodes of the open start spine"""
    for _ in range(open_start):
        if not frag.child_count or frag.first_child.is_leaf:
            return True
        n = frag.first_child
        if not _fill_ok(n, n.content):
            return False
        frag = n.content
    return True


def end_site_ok(frag, open_end):
    """`Schema.endSiteOk`: the children of the nodes of the open end spine are a matchable beginning"""
    for _ in range(open_end):
        if not frag.child_count or frag.last_child.is_leaf:
            return True
        n = frag.last_child
        if not _run_ok(n, n.content):
            return False
        frag = n.content
    return True


def _all_states(schema):
    out = []
    for ty in schema.nodes.values():
        out.extend(dfa_states(ty.content_match))
    return out


def stable_kids(frag, states):
    """`Schema.stableKids`: in every fragment each node is followed by one that fits wherever the first does (over every
    state of every content automaton), no leaf directly behind a non-leaf node"""
    ks = _kids_of_frag(frag)
    for a, b in zip(ks, ks[1:]):
        if (not a.is_leaf) and b.is_leaf:
            return False
        for s in states:
            m = s.match_type(a.type)
            if m is not None and m.match_type(b.type) is None:
                return False
    return all(k.is_leaf or stable_kids(k.content, states) for k in ks)


_STATES = {}


def tie_fit_raise(ctx, info, doc, f, t, sl, st, reqs, metas):
    """the guards of `fit_no_raise` exactly (evaluated here on the real slice with the real `fill_before` / `match_fragment`,
    in the driver on the model), with the class of the model's answer; `st` = outcome class of the real `replace_step`.
    Relational part (`check_fit_raise`): hypotheses of `fit_no_raise` / `fit_no_raise_while` true => the real code returned."""
    if id(info) not in _STATES:
        _STATES[id(info)] = (info, _all_states(info.schema))
    states = _STATES[id(info)][1]
    g = {"fillable": fillable_kids(sl.content), "endChain": end_chain_ok(sl.content),
         "stable": stable_kids(sl.content, states), "startSite": start_site_ok(sl.content, sl.open_start),
         "endSite": end_site_ok(sl.content, sl.open_end), "wf": slice_wf(sl), "term": term_guard(sl)}
    st2, fits = outcome(lambda: fits_trivially(doc.resolve(f), doc.resolve(t), sl))
    cls = ("trivial fit" if (st2 == "ok" and fits) or (f == t and not sl.size) else
           "Fitter, empty slice" if not sl.content.child_count else
           "Fitter, open slice" if sl.open_start or sl.open_end else "Fitter, closed slice")
    replay = {"schema": info.name, "doc": doc.to_json(), "from": f, "to": t, "slice": sl.to_json(), "real": st, "cls": cls}
    exp = {"guards": g, "model": "ok" if st == "ok" else "outOfFuel" if st == "hang" else "raises"}
    reqs.append({"op": "fitRaise", "s": info.lean_id, "doc": info.node(doc), "from": f, "to": t, "slice": info.slice(sl)})
    metas.append(("fitRaise", replay, exp))


def check_fit_raise(ctx, replay, out):
    """relational: with the hypotheses of `fit_no_raise` (static guards) or of `fit_no_raise_while` (termination guard, static
    site guard, run hypothesis) true in the model, the real replace_step returned"""
    o = out.get("ok")
    if not isinstance(o, dict):
        return
    g, st = o["guards"], replay["real"]
    prefix = g["fillable"] and g["endChain"]
    ctx.count("fit raise: openPrefixOk=%s stableOk=%s wfWhile=%s wf=%s" % (prefix, g["stable"], o.get("wfWhile"), g["wf"]))
    if not (o.get("hyp") and g["wf"] and prefix and g["stable"]):
        ctx.count("fit raise: hypotheses of fit_no_raise fail (%s)" % replay.get("cls"))
    if not (g["startSite"] and g["endSite"]):
        ctx.count("fit raise: site conditions false for the slice as it stands")
    if o.get("hyp") and g["wf"] and prefix and g["stable"]:
        ctx.count("fit raise: hypotheses of fit_no_raise hold")
        ctx.count("fit raise: hypotheses of fit_no_raise hold (%s)" % replay.get("cls"))
        if st != "ok":
            ctx.mismatch("fitRaise:fit_no_raise-hypotheses-true-but-not-returned", replay, st, o)
    if o.get("hyp") and g["term"] and prefix and o.get("wfWhile"):
        ctx.count("fit raise: hypotheses of fit_no_raise_while hold")
        if st != "ok":
            ctx.mismatch("fitRaise:fit_no_raise_while-hypotheses-true-but-not-returned", replay, st, o)
    if g["wf"] and g["stable"] and not o.get("wfWhile"):
        # stableOk_keeps_wf
        ctx.mismatch("fitRaise:stableOk-but-unplaced-slice-not-wf-over-the-run", replay, True, o)
    if st not in ("ok", "hang"):
        ctx.count("fit raise: real replace_step raised, openPrefixOk=%s wfWhile=%s" % (prefix, o.get("wfWhile")))
        # fit_raises_only_at_sites (Props/C11.lean): a run that raises reaches a state in which the unplaced slice is not
        # well-formed or a site condition fails
        bad = o.get("bad")
        if o.get("hyp"):
            if not isinstance(bad, list):
                ctx.mismatch("fitRaise:raised-without-a-failing-site-condition", replay, "a state with wf/startSite/endSite false", o)
            else:
                ctx.count("fit raise: real replace_step raised; first failing condition: %s" % "+".join(
                    n_ for n_, v in zip(("unplaced slice not wf", "start site", "end site"), bad) if not v))
    # openPrefixOk_of_cut (Props/C11.lean): the generated slices are cut from valid documents; when their non-leaf nodes have
    # suffix-closed content (`Schema.homogKids`, evaluated by the driver) the static guard holds
    ctx.count("fit raise: slice nodes have suffix-closed content: %s (schema: %s)" % (o.get("homog"), o.get("homogSchema")))
    if o.get("homog") and not prefix:
        ctx.mismatch("fitRaise:homogeneous-cut-slice-but-openPrefixOk-false", replay, True, o)


EXACT_OPS = ("fitsTrivially", "replaceStepTrivial", "deleteRangeTarget", "deleteRangeStep", "replaceStep", "fillBeforeO",
             "findWrappingO", "replaceRangePlan", "replaceRangeWithPlan", "replaceRangeWithTarget", "closeSlice", "fitGuards", "fitEmit",
             "fitRaise")
