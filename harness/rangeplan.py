"""Ties of the replace-family *planning* code (lean/PM/RangeOps.lean, lean/PM/Fitter.lean) used by
the checks of C11 and C18: `fits_trivially`, `replace_step`, and the range `delete_range` hands to
`Transform.delete`.  Everything is observed in the harness process only (a `Transform` subclass
records the arguments of `delete`; nothing in the library is patched)."""
from prosemirror.model import Fragment, Slice
from prosemirror.transform import Transform
from prosemirror.transform.replace import fits_trivially, replace_step
from prosemirror.transform.replace_step import ReplaceAroundStep, ReplaceStep

from .core import outcome

RAISES = "<raises>"


class _DeleteSpy(Transform):
    """records the `(from, to)` that `delete_range` passes to `self.delete` and stops there"""

    def __init__(self, doc):
        super().__init__(doc)
        self.seen = []

    def delete(self, from_, to):
        self.seen.append((from_, to))
        return self


def observed_delete_target(doc, f, t):
    """('ok', [from, to]) as handed to Transform.delete, or (class, repr) if delete_range raised first"""
    spy = _DeleteSpy(doc)
    st, val = outcome(lambda: spy.delete_range(f, t))
    if st != "ok":
        return st, val
    if len(spy.seen) != 1:
        return "internal", f"delete called {len(spy.seen)} times"
    return "ok", list(spy.seen[0])


def tie_delete_range_step(ctx, info, doc, f, t, reqs, metas):
    """Transform.delete_range(f, t) as a whole: the step it records (lean/PM/Fitter.lean `deleteRangeStep`), exactly"""
    tr = Transform(doc)
    st, val = outcome(lambda: tr.delete_range(f, t))
    if st == "hang":
        ctx.count("delete_range step:hang (not compared)")
        return
    if st != "ok":
        exp = RAISES
    elif len(tr.steps) == 0:
        exp = ["none"]
    elif len(tr.steps) == 1:
        exp = ["step", SchemaStep(info, tr.steps[0])]
    else:
        exp = "more than one step"
    replay = {"schema": info.name, "doc": doc.to_json(), "op": "delete_range", "args": [f, t],
              "steps": [s_.to_json() for s_ in tr.steps]}
    reqs.append({"op": "deleteRangeStep", "s": info.lean_id, "doc": info.node(doc), "from": f, "to": t})
    metas.append(("deleteRangeStep", replay, exp))
    ctx.count("delete_range step:" + (exp[0] if isinstance(exp, list) else str(exp)))


def SchemaStep(info, step):
    return info.step(step)


def answer(out):
    """the model's answer in comparable form"""
    if "ok" in out:
        return out["ok"]
    if out.get("err") == "raises":
        return RAISES
    return out


def tie_delete_range(ctx, info, doc, f, t, reqs, metas, extra=None):
    st, val = observed_delete_target(doc, f, t)
    exp = val if st == "ok" else RAISES
    replay = {"schema": info.name, "doc": doc.to_json(), "op": "delete_range", "args": [f, t], **(extra or {})}
    reqs.append({"op": "deleteRangeTarget", "s": info.lean_id, "doc": info.node(doc), "from": f, "to": t})
    metas.append(("deleteRangeTarget", replay, exp))
    if st == "ok":
        ctx.count("delete_range target:" + ("same" if val == [f, t] else "widened"))
    else:
        ctx.count("delete_range target:raises")
    return exp


def tie_trivial(ctx, info, doc, f, t, sl, reqs, metas):
    """fits_trivially (exact) and replace_step as far as it is decided without a Fitter (exact)"""
    replay = {"schema": info.name, "doc": doc.to_json(), "from": f, "to": t, "slice": sl.to_json()}
    st, fits = outcome(lambda: fits_trivially(doc.resolve(f), doc.resolve(t), sl))
    exp = bool(fits) if st == "ok" else RAISES
    reqs.append({"op": "fitsTrivially", "s": info.lean_id, "doc": info.node(doc), "from": f, "to": t, "slice": info.slice(sl)})
    metas.append(("fitsTrivially", replay, exp))
    ctx.count(f"fits_trivially:{exp}")
    # replace_step: None without looking at the document / the trivial ReplaceStep / a Fitter is needed
    if f == t and not sl.size:
        st2, step = outcome(lambda: replace_step(doc, f, t, sl))
        plan = RAISES if st2 != "ok" else (["none"] if step is None else ["step", info.step(step)])
    elif st != "ok":
        plan = RAISES
    elif fits:
        st2, step = outcome(lambda: replace_step(doc, f, t, sl))
        plan = ["step", info.step(step)] if st2 == "ok" and step is not None else RAISES
    else:
        plan = ["fitter"]
    reqs.append({"op": "replaceStepTrivial", "s": info.lean_id, "doc": info.node(doc), "from": f, "to": t, "slice": info.slice(sl)})
    metas.append(("replaceStepTrivial", replay, plan))
    ctx.count("replace_step plan:" + (plan[0] if isinstance(plan, list) else plan))


# ---------------------------------------------------------------------------------------------
# the Fitter (lean/PM/Fitter.lean) and the order-faithful fill / wrap choices (lean/PM/FillOrder.lean)

def dfa_states(start):
    """states of a content automaton in the order of SchemaInfo.dump_dfa"""
    states, index = [start], {id(start): 0}
    i = 0
    while i < len(states):
        for e in states[i].next:
            if id(e.next) not in index:
                index[id(e.next)] = len(states)
                states.append(e.next)
        i += 1
    return states


def tie_replace_step(ctx, info, doc, f, t, sl, reqs, metas):
    """replace_step(doc, f, t, slice): the emitted step, exactly (None / ReplaceStep / ReplaceAroundStep)"""
    replay = {"schema": info.name, "doc": doc.to_json(), "from": f, "to": t, "slice": sl.to_json()}
    st, step = outcome(lambda: replace_step(doc, f, t, sl))
    if st == "hang":
        ctx.count("replace_step kind:hang (not compared)")
        return
    if st != "ok":
        exp, kind = RAISES, "raises"
    elif step is None:
        exp, kind = ["none"], "none"
    else:
        exp = ["step", info.step(step)]
        if isinstance(step, ReplaceAroundStep):
            kind = "fitted-around"
        else:
            st2, fits = outcome(lambda: fits_trivially(doc.resolve(f), doc.resolve(t), sl))
            kind = "trivial" if st2 == "ok" and fits else "fitted-replace"
    reqs.append({"op": "replaceStep", "s": info.lean_id, "doc": info.node(doc), "from": f, "to": t, "slice": info.slice(sl)})
    metas.append(("replaceStep", dict(replay, kind=kind, real=None if st != "ok" or step is None else step.to_json()), exp))
    ctx.count("replace_step kind:" + kind)


def tie_fill_wrap(ctx, info, rng, frags, reqs, metas, per_state=2):
    """ContentMatch.fill_before (the nodes it returns) and find_wrapping (the chain), exactly, for every state of every
    content automaton of the schema"""
    from prosemirror.model import Fragment
    schema = info.schema
    types = list(schema.nodes.values())
    for t in types:
        if t.is_text:
            continue
        for qi, m in enumerate(dfa_states(t.content_match)):
            for _ in range(per_state):
                after = rng.choice(frags) if frags and rng.random() < 0.7 else Fragment.empty
                start = rng.randint(0, after.child_count)
                to_end = rng.random() < 0.5
                after_types = [c.type for c in after.content[start:]]
                st, fill = outcome(lambda: m.fill_before(after, to_end, start))
                replay = {"schema": info.name, "type": t.name, "state": qi, "after": [x.name for x in after_types], "to_end": to_end}
                exp = RAISES if st != "ok" else (None if fill is None else info.frag(fill))
                reqs.append({"op": "fillBeforeO", "s": info.lean_id, "ty": info.nid[t.name], "q": qi,
                             "after": [info.nid[x.name] for x in after_types], "toEnd": to_end})
                metas.append(("fillBeforeO", replay, exp))
                ctx.count("fill_before exact:" + ("raises" if st != "ok" else "none" if fill is None else "len%d" % min(fill.child_count, 3)))
            for target in rng.sample(types, min(len(types), per_state + 1)):
                st, chain = outcome(lambda: m.find_wrapping(target))
                replay = {"schema": info.name, "type": t.name, "state": qi, "target": target.name}
                exp = RAISES if st != "ok" else (None if chain is None else [info.nid[x.name] for x in chain])
                reqs.append({"op": "findWrappingO", "s": info.lean_id, "ty": info.nid[t.name], "q": qi, "target": info.nid[target.name]})
                metas.append(("findWrappingO", replay, exp))
                ctx.count("find_wrapping exact:" + ("raises" if st != "ok" else "none" if chain is None else "len%d" % len(chain)))


# ---------------------------------------------------------------------------------------------
# replace_range / replace_range_with as wholes (lean/PM/ReplaceRange.lean)

class _ReplaceSpy(Transform):
    """records the arguments of every `self.replace` call and of a `self.step` call made outside `replace` (the
    `fits_trivially` path of `replace_range`), and lets them run: the fallback loop of `replace_range` looks at
    `len(self.steps)` after each call"""

    def __init__(self, doc):
        super().__init__(doc)
        self.calls = []
        self.direct = []
        self._inside = 0

    def replace(self, from_, to=None, slice=None):
        self.calls.append((from_, to, slice))
        self._inside += 1
        try:
            return super().replace(from_, to, slice)
        finally:
            self._inside -= 1

    def step(self, object):
        if not self._inside:
            self.direct.append(object)
        return super().step(object)


def observed_replace_plan(info, doc, thunk):
    """what the operation asked of the document, in the model's vocabulary: ["direct", [f, t, slice]] (a ReplaceStep handed
    to `step` without a `replace` call), ["calls", [[f, t, slice], …]] (the arguments of the successive `replace` calls; a
    call that raises is the last one), RAISES (raised before any of these), or None (did not return in time)"""
    spy = _ReplaceSpy(doc)
    st, val = outcome(lambda: thunk(spy))
    if st == "hang":
        return None, spy
    if spy.direct and not spy.calls and len(spy.direct) == 1 and isinstance(spy.direct[0], ReplaceStep) \
            and not isinstance(spy.direct[0], ReplaceAroundStep):
        s_ = spy.direct[0]
        return ["direct", [s_.from_, s_.to, info.slice(s_.slice)]], spy
    if spy.direct:
        return "unexpected direct step", spy
    if spy.calls:
        return ["calls", [[a, b, info.slice(c if c is not None else Slice.empty)] for (a, b, c) in spy.calls]], spy
    if st != "ok":
        return RAISES, spy
    return ["calls", []], spy


def _plan_kind(plan, f, t, sl_enc):
    if plan == RAISES or not isinstance(plan, list):
        return str(plan)
    if plan[0] == "direct":
        return "direct step (fits trivially)"
    cs = plan[1]
    if len(cs) != 1:
        return "fallback loop, %d calls" % len(cs)
    a, b, c = cs[0]
    return "one call:" + ("same range" if (a, b) == (f, t) else "range widened") + "," + \
        ("same slice" if c == sl_enc else "slice closed (open_start %d of %d)" % (c[1], sl_enc[1]))


def tie_replace_range(ctx, info, doc, f, t, sl, reqs, metas, extra=None):
    """Transform.replace_range(f, t, slice): the whole sequence of `(from, to, slice)` it hands to `self.replace`
    (or the direct step), exactly"""
    plan, spy = observed_replace_plan(info, doc, lambda tr: tr.replace_range(f, t, sl))
    if plan is None:
        ctx.count("replace_range plan:hang (not compared)")
        return None
    replay = {"schema": info.name, "doc": doc.to_json(), "op": "replace_range", "args": [f, t, sl.to_json()], **(extra or {})}
    reqs.append({"op": "replaceRangePlan", "s": info.lean_id, "doc": info.node(doc), "from": f, "to": t, "slice": info.slice(sl)})
    metas.append(("replaceRangePlan", replay, plan))
    ctx.count("replace_range plan:" + ("empty slice -> delete_range" if not sl.size else _plan_kind(plan, f, t, info.slice(sl))))
    return plan


def tie_replace_range_with(ctx, info, doc, f, t, node, reqs, metas, extra=None):
    """Transform.replace_range_with(f, t, node): the `(from, to)` it passes on (insert_point or the original pair) and the
    whole sequence of `replace` calls, exactly"""
    plan, spy = observed_replace_plan(info, doc, lambda tr: tr.replace_range_with(f, t, node))
    if plan is None:
        ctx.count("replace_range_with plan:hang (not compared)")
        return None
    replay = {"schema": info.name, "doc": doc.to_json(), "op": "replace_range_with", "args": [f, t, node.to_json()], **(extra or {})}
    reqs.append({"op": "replaceRangeWithPlan", "s": info.lean_id, "doc": info.node(doc), "from": f, "to": t, "node": info.node(node)})
    metas.append(("replaceRangeWithPlan", replay, plan))
    # the pair handed to replace_range, observed separately through a subclass that stops there
    seen = []

    class _Stop(Transform):
        def replace_range(self, from_, to, slice):
            seen.append([from_, to])
            return self

    st, _ = outcome(lambda: _Stop(doc).replace_range_with(f, t, node))
    tgt = seen[0] if st == "ok" and len(seen) == 1 else RAISES
    reqs.append({"op": "replaceRangeWithTarget", "s": info.lean_id, "doc": info.node(doc), "from": f, "to": t, "node": info.node(node)})
    metas.append(("replaceRangeWithTarget", replay, tgt))
    ctx.count("replace_range_with target:" + ("raises" if tgt == RAISES else "same" if tgt == [f, t] else "insert point"))
    ctx.count("replace_range_with plan:" + _plan_kind(plan, tgt[0] if tgt != RAISES else f, tgt[1] if tgt != RAISES else t,
                                                      info.slice(Slice(Fragment.from_(node), 0, 0))))
    return plan


def tie_close_fragment(ctx, info, sl, reqs, metas):
    """close_fragment(slice.content, 0, slice.open_start, open_depth, None, slice.open_end) — the call replace_range
    makes — for every open_depth ≤ open_start, exactly"""
    from prosemirror.transform.replace import close_fragment
    for od in range(sl.open_start + 1):
        st, frag = outcome(lambda: close_fragment(sl.content, 0, sl.open_start, od, None, sl.open_end))
        exp = info.frag(frag) if st == "ok" else RAISES
        reqs.append({"op": "closeSlice", "s": info.lean_id, "slice": info.slice(sl), "openDepth": od})
        metas.append(("closeSlice", {"schema": info.name, "slice": sl.to_json(), "open_depth": od}, exp))
        ctx.count("close_fragment:" + ("raises" if st != "ok" else "unchanged" if frag == sl.content else "filled"))


EXACT_OPS = ("fitsTrivially", "replaceStepTrivial", "deleteRangeTarget", "deleteRangeStep", "replaceStep", "fillBeforeO",
             "findWrappingO", "replaceRangePlan", "replaceRangeWithPlan", "replaceRangeWithTarget", "closeSlice")
