"""Shared machinery of the checks: build + audit of the Lean side, the model driver, the run
context (counters, samples, violations, known findings), evidence and exit status."""
import fcntl
import hashlib
import json
import os
import random
import re
import signal
import subprocess
import sys
import time
import traceback

VERIF = os.path.dirname(os.path.dirname(os.path.abspath(__file__)))
LEAN = os.path.join(VERIF, "lean")
DRIVER = os.path.join(LEAN, ".lake", "build", "bin", "pmdriver")
OUT = os.environ.get("VERIF_OUT", VERIF)          # where evidence/ and replays/ go (overridden only by tools/seeded.py)
EVIDENCE = os.path.join(OUT, "evidence")
REPLAYS = os.path.join(OUT, "replays")
ALLOWED_AXIOMS = {"propext", "Classical.choice", "Quot.sound"}
FORBIDDEN = re.compile(r"\bsorry\b|\badmit\b|^\s*axiom\s|native_decide|bv_decide|implemented_by|\bunsafe\s|maxHeartbeats 0")

REPO = os.environ.get("VERIF_REPO", "/repo")   # the tree under check (overridden only by tools/seeded.py --worktree)
sys.path.insert(0, REPO)
os.environ.setdefault("PROSEMIRROR_PY_VERIF", "1")


INTERNAL_ERRORS = (IndexError, KeyError, AttributeError, TypeError, AssertionError, RecursionError, UnboundLocalError,
                   ZeroDivisionError, StopIteration, NameError)


class Timeout(Exception):
    pass


_CONFIRMED_HANGS = 0


def _alarm(signum, frame):
    raise Timeout()


def call_with_alarm(fn, seconds=2.0):
    """run fn() under a wall-clock alarm; a hang becomes Timeout"""
    old = signal.signal(signal.SIGALRM, _alarm)
    signal.setitimer(signal.ITIMER_REAL, seconds)
    try:
        return fn()
    finally:
        signal.setitimer(signal.ITIMER_REAL, 0)
        signal.signal(signal.SIGALRM, old)


def outcome(fn, seconds=5.0):
    """('ok', value) | ('failed'|'valueError'|'internal'|'hang', repr)"""
    from prosemirror.model.replace import ReplaceError
    from prosemirror.transform.transform import TransformError

    try:
        return ("ok", call_with_alarm(fn, seconds))
    except Timeout:
        # a wall-clock alarm can fire on a loaded machine although the call would return: before calling it a hang the call
        # is repeated once with ten times the allowance (only for the first few hangs of a run — a real non-termination shows
        # up in every repetition and must not eat the run's time budget)
        global _CONFIRMED_HANGS
        if _CONFIRMED_HANGS < 3:
            try:
                return ("ok", call_with_alarm(fn, seconds * 10))
            except Timeout:
                _CONFIRMED_HANGS += 1
                return ("hang", "timeout")
            except (ReplaceError, TransformError) as e:
                return ("failed", repr(e))
            except ValueError as e:
                return ("valueError", repr(e))
            except RecursionError:
                return ("internal", "RecursionError")
            except Exception as e:  # noqa: BLE001
                return ("internal", type(e).__name__ + ": " + str(e)[:200])
        return ("hang", "timeout")
    except (ReplaceError, TransformError) as e:
        return ("failed", repr(e))
    except ValueError as e:
        return ("valueError", repr(e))
    except RecursionError as e:
        return ("internal", "RecursionError")
    except Exception as e:  # noqa: BLE001
        return ("internal", type(e).__name__ + ": " + str(e)[:200])


# ---------------------------------------------------------------------------------------------
# Lean side

def _strip_comments(src):
    src = re.sub(r"/-.*?-/", "", src, flags=re.S)
    src = re.sub(r"--.*", "", src)
    return src


def lean_sources():
    out = []
    for root, dirs, files in os.walk(LEAN):
        if ".lake" in root:
            continue
        for f in files:
            if f.endswith(".lean"):
                out.append(os.path.join(root, f))
    return sorted(out)


def import_closure(module):
    """project-local modules reachable from `module` (e.g. 'Props.C08') through imports"""
    seen, todo = set(), [module]
    while todo:
        m = todo.pop()
        if m in seen:
            continue
        path = os.path.join(LEAN, *m.split(".")) + ".lean"
        if not os.path.exists(path):
            continue
        seen.add(m)
        for imp in re.findall(r"^import\s+(\S+)", open(path).read(), flags=re.M):
            todo.append(imp)
    return sorted(seen)


def grep_forbidden(prop=None):
    hits = []
    if prop is None:
        files = lean_sources()
    else:
        mods = set(import_closure("Props." + prop)) | set(import_closure("Family." + prop)) | \
            set(import_closure("Family." + prop + "RoundTrip")) | \
            (set(import_closure("Gen.SchemaBuilds")) if prop in FAMILY_BUILDS else set())
        files = [os.path.join(LEAN, *m.split(".")) + ".lean" for m in sorted(mods)]
    for p in files:
        src = _strip_comments(open(p).read())
        for i, line in enumerate(src.splitlines()):
            if FORBIDDEN.search(line):
                hits.append(f"{os.path.relpath(p, LEAN)}: {line.strip()[:100]}")
    return hits


_LOCK_DEPTH = 0


class lean_lock:
    """the file lock around everything that writes under lean/ (generated sources, lake build, audits that read the
    oleans); re-entrant within the process (checks of different properties may run concurrently)"""

    def __enter__(self):
        global _LOCK_DEPTH
        if _LOCK_DEPTH == 0:
            os.makedirs(os.path.join(LEAN, ".lake"), exist_ok=True)
            self.f = open(os.path.join(LEAN, ".lake", ".verif.lock"), "w")
            fcntl.flock(self.f, fcntl.LOCK_EX)
        else:
            self.f = None
        _LOCK_DEPTH += 1
        return self

    def __exit__(self, *a):
        global _LOCK_DEPTH
        _LOCK_DEPTH -= 1
        if self.f is not None:
            self.f.close()


BUILD_RSS_LIMIT_KB = 10 * 1024 * 1024     # a single `lean` process of this project needs < 2 GB; a generated `decide +kernel`
BUILD_WALL_LIMIT_S = 1500                 # obligation that has become false can blow up instead of failing — cut it off


def _descendants(pid):
    kids = {}
    for d in os.listdir("/proc"):
        if d.isdigit():
            try:
                with open(f"/proc/{d}/stat") as f:
                    parts = f.read().rsplit(")", 1)[1].split()
                kids.setdefault(int(parts[1]), []).append(int(d))
            except OSError:
                pass
    out, todo = [], [pid]
    while todo:
        x = todo.pop()
        for k in kids.get(x, []):
            out.append(k)
            todo.append(k)
    return out


def _rss_kb(pid):
    try:
        with open(f"/proc/{pid}/status") as f:
            for line in f:
                if line.startswith("VmRSS:"):
                    return int(line.split()[1])
    except OSError:
        pass
    return 0


def build(targets):
    """lake build under the file lock, with a watchdog: a compiler process that grows beyond BUILD_RSS_LIMIT_KB (or a build
    that runs beyond BUILD_WALL_LIMIT_S) is killed, which makes the build fail like any other broken obligation"""
    import tempfile
    with lean_lock():
        t0 = time.time()
        with tempfile.TemporaryFile("w+") as out:
            p = subprocess.Popen(["lake", "build", *targets], cwd=LEAN, stdout=out, stderr=subprocess.STDOUT, text=True)
            killed = []
            while p.poll() is None:
                time.sleep(1.0)
                over = time.time() - t0 > BUILD_WALL_LIMIT_S
                for k in _descendants(p.pid):
                    if over or _rss_kb(k) > BUILD_RSS_LIMIT_KB:
                        try:
                            os.kill(k, 9)
                            killed.append(k)
                        except OSError:
                            pass
            out.seek(0)
            log = out.read()
        if killed:
            log += f"\n[watchdog] killed {len(killed)} compiler process(es): memory above {BUILD_RSS_LIMIT_KB // 1024} MB or build above {BUILD_WALL_LIMIT_S} s\n"
        return p.returncode == 0 and not killed, log[-6000:], time.time() - t0


def theorem_names(prop, path=None):
    path = path or os.path.join(LEAN, "Props", prop + ".lean")
    if not os.path.exists(path):
        return []
    src = _strip_comments(open(path).read())
    ns = re.search(r"^namespace\s+(\S+)", src, flags=re.M)
    prefix = (ns.group(1) + ".") if ns else ""
    return [prefix + m for m in re.findall(r"^\s*theorem\s+([^\s:({\[]+)", src, flags=re.M)]


def audit_names(modules, names, tag):
    """`#print axioms` of the named theorems (after importing the modules): (obligations, discharged, details)"""
    if not names:
        return 0, 0, {"error": "no theorems found"}
    tmp = os.path.join(LEAN, ".lake", f"audit_{tag}_{os.getpid()}.lean")
    with open(tmp, "w") as f:
        for m in modules:
            f.write(f"import {m}\n")
        for n in names:
            f.write(f"#print axioms {n}\n")
    p = subprocess.run(["lake", "env", "lean", tmp], cwd=LEAN, capture_output=True, text=True)
    os.unlink(tmp)
    out = p.stdout + p.stderr
    details = {}
    ok = 0
    for n in names:
        m = re.search(r"'" + re.escape(n) + r"' depends on axioms: \[([^\]]*)\]", out, flags=re.S)
        m0 = re.search(r"'" + re.escape(n) + r"' does not depend on any axioms", out)
        if m0:
            details[n] = []
            ok += 1
        elif m:
            ax = [a.strip() for a in m.group(1).replace("\n", " ").split(",") if a.strip()]
            details[n] = ax
            if set(ax) <= ALLOWED_AXIOMS:
                ok += 1
        else:
            details[n] = "MISSING"
    if p.returncode != 0 and ok == len(names):
        details["_stderr"] = out[-500:]
    return len(names), ok, details


def audit(prop):
    """returns (obligations, discharged, details) for the theorems of Props/<prop>.lean"""
    return audit_names([f"Props.{prop}"], theorem_names(prop), prop)


class Driver:
    """batch interface to the compiled model driver"""

    def __init__(self):
        self.schemas = []
        self.preamble = []

    def add_schema(self, info):
        self.last_info = info
        if info.lean_id is None or info not in self.schemas:
            info.lean_id = len(self.schemas)
            self.schemas.append(info)
            self.preamble.append({"op": "schema", "schema": info.dump()})
        return info.lean_id

    def run(self, requests):
        lines = [json.dumps(r, separators=(",", ":")) for r in self.preamble + requests]
        cmd = [DRIVER] if os.path.exists(DRIVER) else ["lake", "env", "lean", "--run", "Driver/Main.lean"]
        p = subprocess.run(cmd, cwd=LEAN, input="\n".join(lines) + "\n", capture_output=True, text=True)
        outs = [json.loads(l) for l in p.stdout.splitlines() if l.strip()]
        if len(outs) != len(lines):
            raise RuntimeError(f"driver answered {len(outs)} of {len(lines)} lines; stderr: {p.stderr[-500:]}")
        return outs[len(self.preamble):]


# ---------------------------------------------------------------------------------------------
# run context

# per-property multipliers of every loop size (loops nest, so the effect on the running time is a power of these);
# tuned so that a quick check takes 10-35 s and a thorough one some minutes
QUICK_FACTOR = {"C05": 1.5, "C07": 1.8, "C08": 3.0, "C09": 1.7, "C14": 1.4, "C15": 1.4, "C16": 2.2, "C19": 3.0, "C20": 2.5}
THOROUGH_FACTOR = {"C03": 1.5, "C04": 1.5, "C06": 2.0, "C07": 1.5, "C08": 2.0, "C15": 2.0, "C16": 2.5, "C19": 4.0, "C20": 3.0}


class Ctx:
    def __init__(self, prop, tier, seed):
        self.prop = prop
        self.tier = tier
        self.seed = seed
        self.rng = random.Random(seed * 1000003 + int(prop[1:]))
        self.t0 = time.time()
        self.evaluations = 0
        self.distinct = set()
        self.samples = []
        self.counters = {}
        self.violations = []      # dicts
        self.known = []           # (finding id, what)
        self.mismatches = []      # correspondence disagreements (dicts)
        self.notes = []
        self.obligations = 0
        self.discharged = 0
        self.audit_details = {}
        self.build_ok = True
        self.build_log = ""
        self.family = None        # the kernel-checked schema family (family_phase)
        self.driver = Driver()
        self.findings = load_findings()
        from . import cover
        self.cover = cover.Coverage(VERIF, REPO, prop)   # line coverage of the anchored functions (measuring only)

    def count(self, key, n=1):
        self.counters[key] = self.counters.get(key, 0) + n

    def case(self, key, nontrivial=True, sample=None):
        self.evaluations += 1
        if nontrivial:
            h = hashlib.blake2b(json.dumps(key, sort_keys=True, default=str).encode(), digest_size=8).digest()
            self.distinct.add(h)
        if sample is not None and len(self.samples) < 6 and self.rng.random() < 0.05 + (0.9 if not self.samples else 0):
            self.samples.append(sample)

    def budget(self, quick, thorough):
        """loop sizes: the numbers given by the property modules are scaled so that a quick run takes
        some tens of seconds and a thorough run some minutes (both are additionally capped by time_left)"""
        if self.tier == "thorough":
            return max(1, int(thorough * 2 * THOROUGH_FACTOR.get(self.prop, 1.0)))
        return max(1, int(quick * 2.2 * QUICK_FACTOR.get(self.prop, 1.0)))

    def time_left(self, limit_quick=100, limit_thorough=1200):
        lim = limit_thorough if self.tier == "thorough" else limit_quick
        return lim - (time.time() - self.t0)

    def guard(self, fn, what=None):
        """run one self-contained piece of a check (typically: everything done with one generated document).  If the
        library dies inside its own code with an internal error while the harness is using its public API there, the
        piece is abandoned, the traceback is kept, and the run goes on with the next piece — so that an oracle can still
        find a proper failing input elsewhere.  At the end such events are reported as a broken correspondence."""
        try:
            return fn()
        except INTERNAL_ERRORS as e:
            tb = traceback.extract_tb(e.__traceback__)
            inner = tb[-1].filename if tb else ""
            if not inner.startswith(os.path.abspath(REPO) + os.sep):
                raise
            self.count("library_died_during_harness_use")
            if not any(m["op"] == "harness-use-of-public-api" for m in self.mismatches):
                self.mismatch("harness-use-of-public-api", {"exception": type(e).__name__, "message": str(e)[:300], "context": what,
                                                            "traceback": traceback.format_exc()[-3000:]},
                              "the library call returns", "the library raised inside its own code")
            return None

    # -- violations
    def violation(self, kind, what, replay):
        """a concrete failing input against the real code (or a broken obligation w/o witness)"""
        replay = dict(replay)
        li = getattr(self.driver, "last_info", None)
        if replay.get("schema") == "random" and li is not None and li.name == "random":
            try:
                replay["schema_spec"] = json.loads(json.dumps(li.schema.spec, default=str))
            except Exception:  # noqa: BLE001
                pass
        replay["property"] = self.prop
        replay["kind"] = kind
        replay["what"] = what
        replay["run"] = {"tier": self.tier, "seed": self.seed}
        for f in self.findings:
            if f.get("property") == self.prop and f.get("status") == "open" and finding_matches(f, replay):
                if f["id"] not in [k[0] for k in self.known]:
                    self.known.append((f["id"], f["what"]))
                self.count("known_finding_hits")
                return
        nkind = sum(1 for v in self.violations if v["kind"] == kind)
        if nkind < 2 and len(self.violations) < 40:
            self.violations.append(replay)
        self.count("violations_seen")
        self.count("violation:" + kind)

    def mismatch(self, op, request, impl, model):
        self.count("mismatch:" + op)
        if len(self.mismatches) < 20:
            if isinstance(request, dict) and request.get("schema") == "random" and "schema_spec" not in request:
                # (a mismatch is compared after the batch: the random schema it belongs to is found by its Lean id)
                try:
                    infos = list(getattr(self.driver, "schemas", []))
                    sid = request.get("s", request.get("_sid"))
                    cand = [i for i in infos if sid is not None and getattr(i, "lean_id", None) == sid]
                    if cand:
                        request = dict(request, schema_spec=json.loads(json.dumps(cand[0].schema.spec, default=str)))
                except Exception:  # noqa: BLE001
                    pass
            self.mismatches.append({"op": op, "request": request, "impl": impl, "model": model})

    # -- finish
    def finish(self, level_note=None, rule="", extra=None):
        os.makedirs(EVIDENCE, exist_ok=True)
        os.makedirs(REPLAYS, exist_ok=True)
        lines = []
        status = 0
        for fid, what in self.known:
            lines.append(f"KNOWN-FINDING: property={self.prop} {fid}: {what}")
        viol_count = 0
        for v in self.violations[:12]:
            path = write_replay(self.prop, v)
            lines.append(f"VIOLATION property={self.prop} replay={path}")
            viol_count += 1
            status = 1
        broken = []
        if not self.build_ok:
            broken.append({"obligation": "lake build", "log": self.build_log[-3000:]})
        if self.discharged < self.obligations:
            broken.append({"obligation": "theorems/axiom audit", "details": self.audit_details})
        if self.family is not None and not self.family.get("ok"):
            broken.append({"obligation": "the bundled schema family as regenerated Lean data (lean/Gen/Schema*.lean, "
                                         "lean/Family/%s.lean): construction tie / schema guards / closed corollaries" % self.prop,
                           "failing": self.family.get("failing"), "log": self.family.get("log", "")[-3000:]})
        forb = grep_forbidden(self.prop)
        if forb:
            broken.append({"obligation": "no sorry/axiom/native_decide in lean/", "hits": forb[:10]})
        if self.mismatches:
            broken.append({"obligation": "correspondence model<->implementation", "first": self.mismatches[:3],
                           "counts": {k: v for k, v in self.counters.items() if k.startswith("mismatch:")}})
        if broken and not self.violations:
            path = write_replay(self.prop, {"property": self.prop, "kind": "obligation-broken",
                                            "run": {"tier": self.tier, "seed": self.seed},
                                            "what": "a proof obligation or the model/implementation correspondence "
                                                    "no longer checks and the failing-input search found no witness",
                                            "broken": broken})
            lines.append(f"VIOLATION property={self.prop} replay={path} no-failing-input-found")
            viol_count += 1
            status = 1
        ev = {
            "property_id": self.prop,
            "tier": self.tier,
            "seed": self.seed,
            "level": "proof",
            "coverage": {
                "obligations": max(self.obligations, 0),
                "discharged": self.discharged,
                "checker_cmd": f"cd lean && lake build Props.{self.prop} && lake env lean <#print axioms of every theorem in Props/{self.prop}.lean>",
                "trusted_base": TRUSTED_BASE,
                "theorems": self.audit_details,
                "evaluations": self.evaluations,
                "distinct_nontrivial": len(self.distinct),
                "rule": rule,
                "samples": self.samples[:6] or [{"note": "no samples"}],
                "counters": dict(sorted(self.counters.items())),
                "correspondence_mismatches": len(self.mismatches),
                "known_findings_hit": [k[0] for k in self.known],
                "notes": self.notes,
            },
            "assumptions": ASSUMPTIONS + ([level_note] if level_note else []),
            "wall_s": round(time.time() - self.t0, 2),
            "violations": viol_count,
        }
        ev["coverage"]["anchored_line_coverage"] = self.cover.report()
        # the schema-level guards some theorems carry (deterministic / in-range / live automata, TextLoop, transitive
        # compatibility), evaluated by the model driver on the named schemas this run used — measured, not assumed
        try:
            named = [i for i in self.driver.schemas if getattr(i, "name", "random") not in ("random", "marks-random")]
            if named and self.build_ok:
                outs = self.driver.run([{"op": "schemaHyps", "s": i.lean_id} for i in named])
                ev["coverage"]["schema_guards"] = {i.name: o.get("ok", o) for i, o in zip(named, outs)}
        except Exception as e:  # noqa: BLE001  (measuring only)
            ev["coverage"]["schema_guards"] = {"error": str(e)[:200]}
        if self.family is not None:
            # the same guards (and more), no longer measured but proved: kernel evaluation on the schema tables regenerated
            # from the running library
            ev["coverage"]["schema_guards_kernel"] = {k: v for k, v in self.family.items() if k != "log"}
        if extra:
            ev["coverage"].update(extra)
        with open(os.path.join(EVIDENCE, self.prop + ".json"), "w") as f:
            json.dump(ev, f, indent=1, default=str)
        for l in lines:
            print(l)
        print(f"[{self.prop}] tier={self.tier} seed={self.seed} obligations={self.obligations} discharged={self.discharged} "
              f"evaluations={self.evaluations} distinct={len(self.distinct)} mismatches={len(self.mismatches)} "
              f"violations={viol_count} known={len(self.known)} wall={ev['wall_s']}s")
        return status


TRUSTED_BASE = [
    "Lean 4.33 kernel; axioms per theorem are listed under coverage.theorems (allowed: propext, Classical.choice, Quot.sound)",
    "the hand-written Lean model lean/PM/*.lean, tied to /repo only by the differential correspondence run in this check",
    "the correspondence harness (generators, canonical encoding harness/codec.py, outcome classification) and the Lean compiler that runs the model driver",
    "the formal statement of the property in lean/Props/<id>.lean",
    "CPython, lxml, re, json semantics (modelled, not verified)",
]
ASSUMPTIONS = [
    "differential testing samples inputs: agreement of model and code is checked on the generated cases only",
    "text positions are compared at pair-aligned UTF-16 offsets (Python cannot represent a cut inside a surrogate pair)",
]


def load_findings():
    p = os.path.join(VERIF, "KNOWN_FINDINGS.jsonl")
    out = []
    if os.path.exists(p):
        for l in open(p):
            l = l.strip()
            if l and not l.startswith("#"):
                try:
                    out.append(json.loads(l))
                except json.JSONDecodeError:
                    pass
    return out


def finding_matches(f, replay):
    from . import findings as F
    pred = getattr(F, f.get("matcher", ""), None)
    if pred is None:
        return False
    try:
        if not pred(f, replay):
            return False
    except Exception:  # noqa: BLE001
        return False
    # ... and the tree under check behaves on this input exactly as the frozen copy of the library the finding was
    # recorded against (harness/reference.py): the finding covers what that code does, nothing newer
    from . import reference
    return reference.same_as_reference(f.get("property"), replay)


def write_replay(prop, obj):
    os.makedirs(REPLAYS, exist_ok=True)
    blob = json.dumps(obj, sort_keys=True, default=str)
    h = hashlib.blake2b(blob.encode(), digest_size=6).hexdigest()
    path = os.path.join(REPLAYS, f"{prop}-{h}.json")
    with open(path, "w") as f:
        json.dump(obj, f, indent=1, default=str)
    return path


# properties whose statement covers the *construction* of the schemas: their checks also kernel-check
# `<name>_builds : buildSchema <spec> = .ok <compiled>` for every family schema (lean/Gen/SchemaBuilds/*.lean)
FAMILY_BUILDS = {"C06", "C07", "C14"}


def family_phase(ctx, builds=None):
    """The bundled schema family as kernel-checked Lean data.  Under the lean lock: regenerate lean/Gen/Schemas.lean,
    Gen/SchemaFacts/*, Gen/SchemaBuilds/* from the schemas the library under check compiles (harness/translate_schemas.py;
    byte-identical files are not rewritten, so nothing is rebuilt on an unchanged tree), build the guards (and, for the
    construction properties, the construction tie) and the closed corollaries lean/Family/<prop>.lean, audit their axioms.
    A failure is a broken proof obligation: the run goes on (the property's own oracles and ties search for a failing
    input); `finish` reports it."""
    from . import translate_schemas as ts
    if builds is None:
        builds = ctx.prop in FAMILY_BUILDS
    fmods = ts.family_modules(ctx.prop)
    if not fmods and not builds:
        return            # no theorem of this property carries a schema guard
    guards = ts.guards_used(ctx.prop)
    fam = {"ok": False, "checked_by": "Lean kernel (`decide +kernel`) on the generated lean/Gen/Guards/*.lean" +
           (", lean/Gen/SchemaBuilds/*.lean" if builds else "") + ", regenerated from the schemas the library compiled in this run",
           "guards_used_by_this_property": guards}
    ctx.family = fam
    t0 = time.time()
    with lean_lock():
        try:
            items, changed = ts.regenerate()
        except Exception as e:  # noqa: BLE001  (the library refused or died on a family spec: nothing to check against)
            fam["failing"] = ["translator: " + type(e).__name__ + ": " + str(e)[:300]]
            fam["log"] = traceback.format_exc()[-3000:]
            ctx.obligations += 1
            return
        fam["regenerated_files"] = changed
        mods = fmods + (["Gen.SchemaBuilds"] if builds else [])
        ok, log, dt = build(mods)
        fam["build_s"] = round(dt, 1)
        ctx.counters["family_build_s"] = round(dt, 1)
        closure = set()
        for m in fmods:
            closure |= set(import_closure(m))
        parsers = "Gen.Parsers" in closure
        roundtrip = "Gen.RoundTrip" in closure
        names = ts.gen_theorems(items, builds, parsers, guards, roundtrip)
        if roundtrip:
            # the export→import tables (harness/rt_tables.py) of the bundled schemas as Lean data, their schema part decided by
            # the kernel (lean/Gen/RoundTrip.lean: <name>_rtSchemaOk); harness/props/c19.py adds what its tie saw
            fam["roundtrip_schema_part"] = {
                n: ({"theorem": "PM.Gen.RoundTrip.%s_rtSchemaOk : rtSchemaOk r%s d%s = %s" % (
                        ts.lname(ts.lean_ident(n)), ts.lean_ident(n), ts.lean_ident(n), "true" if v else "false"),
                     "tables": "generated" if isinstance(ts.RT_TABLES.get(n), dict) else "none: " + str(ts.RT_TABLES.get(n))})
                for n, v in ts.RT_SCHEMAS.items()}
        if parsers:
            fam["parser_rules"] = {it[0]: ("rulesOk" if ts.PARSERS.get(it[0]) else "not translated (clear_mark closure)")
                                   for it in items if it[2]}
        fnames = []
        for m in fmods:
            fnames += theorem_names(ctx.prop, os.path.join(LEAN, *m.split(".")) + ".lean")
        n_all = len(names) + len(fnames)
        if ok:
            n, d, details = audit_names(mods, names + fnames, "family_" + ctx.prop)
            # the generated per-schema instances are summarised, the hand-written corollaries listed one by one
            gen_ok = sum(1 for k in names if isinstance(details.get(k), list) and set(details[k]) <= ALLOWED_AXIOMS)
            what = (["guards " + ", ".join(guards)] if guards else []) + (["construction"] if builds else []) + \
                (["parser rules"] if parsers else []) + (["round-trip schema part"] if roundtrip else [])
            if roundtrip:
                for sn in ts.RT_SCHEMAS:
                    k = "PM.Gen.RoundTrip.%s_rtSchemaOk" % ts.lname(ts.lean_ident(sn))
                    fam["roundtrip_schema_part"][sn]["kernel_checked"] = isinstance(details.get(k), list) and set(details[k]) <= ALLOWED_AXIOMS
            ctx.audit_details["Gen.*"] = f"{gen_ok}/{len(names)} generated kernel-checked instances (" + "; ".join(what) + \
                ") of the family schemas built and audited"
            for k in fnames:
                ctx.audit_details[k] = details.get(k, "MISSING")
            ctx.obligations += n
            ctx.discharged += d
            fam["ok"] = d == n
            if d < n:
                fam["failing"] = [k for k in names + fnames if not (isinstance(details.get(k), list) and set(details[k]) <= ALLOWED_AXIOMS)]
        else:
            ctx.obligations += n_all
            bad = sorted(set(re.findall(r"error: (\S+\.lean:\d+)", log)))
            fam["failing"] = sorted(set(ts.describe_error(b) for b in bad)) or ["lake build " + " ".join(mods)]
            fam["log"] = log
            ctx.audit_details["Gen.*"] = "build failed: " + "; ".join(fam["failing"])[:600]
        fam["schemas"] = ts.guard_table(items, guards)
        fam["closed_corollaries"] = fnames
        if builds:
            fam["construction"] = {it[0]: "buildSchema <spec> = .ok <compiled>; compileSchema <spec> <automata> = .ok <compiled>"
                                   for it in items}
        fam["wall_s"] = round(time.time() - t0, 1)


def lean_phase(ctx, extra_targets=()):
    """build + audit; fills ctx.obligations/discharged"""
    _lean_phase(ctx, extra_targets)      # (locks around its `lake build` only: the thorough tier's leanchecker is slow)
    if ctx.build_ok:
        family_phase(ctx)                # regenerate + build + audit under one lock: lean/Gen is shared by concurrent checks


def _lean_phase(ctx, extra_targets=()):
    ok, log, dt = build(["PM", "pmdriver", f"Props.{ctx.prop}", *extra_targets])
    ctx.build_ok = ok
    ctx.build_log = log
    ctx.counters["lake_build_s"] = round(dt, 1)
    names = theorem_names(ctx.prop)
    ctx.obligations = len(names)
    if ok:
        n, d, details = audit(ctx.prop)
        ctx.obligations, ctx.discharged, ctx.audit_details = n, d, details
        if ctx.tier == "thorough":
            # independent re-check of the compiled proofs by leanchecker (replays every declaration of the module
            # and its imports through the kernel); one more obligation
            t0 = time.time()
            p = subprocess.run(["lake", "env", "leanchecker", f"Props.{ctx.prop}"], cwd=LEAN, capture_output=True, text=True)
            ctx.obligations += 1
            ctx.discharged += 1 if p.returncode == 0 else 0
            ctx.audit_details["leanchecker"] = {"module": f"Props.{ctx.prop}", "ok": p.returncode == 0, "wall_s": round(time.time() - t0, 1),
                                                "output": (p.stdout + p.stderr)[-400:]}
    else:
        ctx.discharged = 0
        ctx.audit_details = {"build": "failed"}
        # the driver may still exist from an earlier build; try to build it alone for the search
        build(["pmdriver"])


def main(prop, run):
    tier = "quick"
    args = sys.argv[1:]
    if args and args[0] in ("quick", "thorough"):
        tier = args[0]
    tier = os.environ.get("VERIF_TIER", tier)
    seed = int(os.environ.get("VERIF_SEED", "0") or 0)
    ctx = Ctx(prop, tier, seed)
    try:
        status = run(ctx)
    except Exception as e:  # noqa: BLE001
        tb = traceback.extract_tb(e.__traceback__)
        inner = tb[-1].filename if tb else ""
        if inner.startswith(os.path.abspath(REPO) + os.sep) and isinstance(e, INTERNAL_ERRORS):
            # the library itself died (innermost frame in /repo) while the harness was using its public API on inputs
            # it generated — building, walking or encoding a document.  The correspondence between model and
            # implementation cannot be established on this run: reported as a broken correspondence, with the
            # traceback as the replay (no property-level witness was reached).
            traceback.print_exc()
            ctx.mismatch("harness-use-of-public-api", {"exception": type(e).__name__, "message": str(e)[:300],
                                                       "traceback": traceback.format_exc()[-3000:]},
                         "the library call returns", "the library raised inside its own code")
            try:
                status = ctx.finish(rule="the run stopped early: the library raised inside its own code while the harness was "
                                         "constructing or inspecting generated inputs")
            except Exception:  # noqa: BLE001
                traceback.print_exc()
                sys.exit(2)
            sys.exit(status)
        traceback.print_exc()   # machinery failure: not a violation ...
        if getattr(ctx, "violations", None):
            # ... but failing inputs against the real code that the oracles had already recorded before the harness
            # tripped over the same inconsistent answers of the library are still reported (they are concrete replays);
            # a run whose recorded violations are all known findings stays a machinery failure
            ctx.count("harness_stopped_early_after_violations")
            try:
                status = ctx.finish(rule="the run stopped early inside the harness after violations had been recorded")
            except Exception:  # noqa: BLE001
                traceback.print_exc()
                status = 0
            if status == 1:
                sys.exit(1)
        print(f"[{prop}] internal error of the checking machinery", file=sys.stderr)
        sys.exit(2)
    sys.exit(status)
