/-
  Family/C11.lean — the guarded theorems of Props/C11.lean for the bundled schema family: every schema-level
  hypothesis is discharged by the kernel-checked facts of lean/Gen/SchemaFacts.lean (regenerated on every run from the
  schemas the library compiles); what remains are the hypotheses about the document / step / DOM at hand.
  Written by tools/gen_family_corollaries.py from the statements in Props/C11.lean.
-/
import Props.C11
import Props.Family
import Gen.Guards.Closable
import Gen.Guards.Det
import Gen.Guards.FillersOK
import Gen.Guards.InlineUniform
import Gen.Guards.JoinCompat
import Gen.Guards.LabelsOK
import Gen.Guards.LeafOk
import Gen.Guards.ReopenOK
import Gen.Guards.TextAbsorb
import Gen.Guards.TextStable
import Gen.Guards.TextStableC
import Gen.Guards.WrapOK
namespace PM.Family.C11
open PM
open PM.C11
open PM.Gen PM.Family PM.FromDom

/-- `PM.C11.fitStep_decreases` with its schema guards discharged for the bundled schema family -/
theorem fitStep_decreases (S : Schema) (hS : S ∈ familySchemas) (st st' : FitState)
    (hne : st.unplaced.content ≠ []) (h : fitStep S st = .ok st') :
    fitMeasure st'.unplaced (cpot S st') < fitMeasure st.unplaced (cpot S st) :=
  PM.C11.fitStep_decreases S (family_det _ hS) st st' hne h

/-- `PM.C11.fitLoop_outOfFuel_exact` with its schema guards discharged for the bundled schema family -/
theorem fitLoop_outOfFuel_exact (S : Schema) (hS : S ∈ familySchemas) (fuel : Nat) (st : FitState)
    (hfuel : fitMeasure st.unplaced (cpot S st) < fuel) :
    (fitLoop S fuel st = .error .outOfFuel ↔ ∃ st', FitReach S st st' ∧ st'.stuck) ∧
    (fitLoop S fuel st = .error .outOfFuel ↔ ∀ fuel', fitLoop S fuel' st = .error .outOfFuel) :=
  PM.C11.fitLoop_outOfFuel_exact S (family_det _ hS) fuel st hfuel

/-- `PM.C11.fitLoop_terminates` with its schema guards discharged for the bundled schema family -/
theorem fitLoop_terminates (S : Schema) (hS : S ∈ familySchemas) (st : FitState)
    (hg : st.unplaced.termGuard = true) (fuel : Nat) (hfuel : fitMeasure st.unplaced (cpot S st) < fuel) :
    fitLoop S fuel st ≠ .error .outOfFuel :=
  PM.C11.fitLoop_terminates S (family_det _ hS) st hg fuel hfuel

/-- `PM.C11.replaceStep_outOfFuel_cycle` with its schema guards discharged for the bundled schema family -/
theorem replaceStep_outOfFuel_cycle (S : Schema) (hS : S ∈ familySchemas) (doc : Node) (f t : Nat) (sl : Slice)
    (h : replaceStep S doc f t sl = .error .outOfFuel) :
    ∃ rf st0 st', doc.resolve f = some rf ∧ fitInit S rf sl = .ok st0 ∧ FitReach S st0 st' ∧ st'.stuck :=
  PM.C11.replaceStep_outOfFuel_cycle S (family_det _ hS) doc f t sl h

/-- `PM.C11.replaceStep_not_outOfFuel` with its schema guards discharged for the bundled schema family -/
theorem replaceStep_not_outOfFuel (S : Schema) (hS : S ∈ familySchemas) (doc : Node) (f t : Nat) (sl : Slice)
    (hg : sl.termGuard = true) :
    replaceStep S doc f t sl ≠ .error .outOfFuel :=
  PM.C11.replaceStep_not_outOfFuel S (family_det _ hS) doc f t sl hg

/-- `PM.C11.fit_no_internal_partial` with its schema guards discharged for the bundled schema family -/
theorem fit_no_internal_partial (S : Schema) (hS : S ∈ familySchemas) (doc : Node) (f t : Nat) (sl : Slice)
    (hg : sl.termGuard = true) (e : FitErr) (h : replaceStep S doc f t sl = .error e) :
    e = .raises ∨ e = .negInsert :=
  PM.C11.fit_no_internal_partial S (family_det _ hS) doc f t sl hg e h

/-- `PM.C11.replaceStep_total_partial` with its schema guards discharged for the bundled schema family -/
theorem replaceStep_total_partial (S : Schema) (hS : S ∈ familySchemas) (doc : Node) (f t : Nat) (sl : Slice)
    (hft : f ≤ t) (hwf : sl.wf = true) (hg : sl.termGuard = true) :
    replaceStep S doc f t sl = .ok none ∨
    (∃ st, replaceStep S doc f t sl = .ok (some st) ∧
    ((∀ F T G1 G2 sl' ins b, st = .replaceAround F T G1 G2 sl' ins b →
    noText ((sliceToks' sl').drop ins) = true) → respects (ftoks doc.kids) f t sl st = true)) ∨
    replaceStep S doc f t sl = .error .raises ∨ replaceStep S doc f t sl = .error .negInsert :=
  PM.C11.replaceStep_total_partial S (family_det _ hS) doc f t sl hft hwf hg

/-- `PM.C11.delete_total` with its schema guards discharged for the bundled schema family -/
theorem delete_total (S : Schema) (hS : S ∈ familySchemas) (doc : Node) (f t : Nat) (hv : C01.Valid S doc)
    (hattrs : S.nodeAttrsOK doc = true) (htop : S.isTextblockO (S.tyOf doc) = false) (hft : f ≤ t)
    (ht : t ≤ fsize doc.kids) :
    ∃ r, replaceStep S doc f t Slice.empty = .ok r :=
  PM.C11.delete_total S (family_det _ hS) (family_fillersOK _ hS) doc f t hv hattrs htop hft ht

/-- `PM.C11.delete_total_respects` with its schema guards discharged for the bundled schema family -/
theorem delete_total_respects (S : Schema) (hS : S ∈ familySchemas) (doc : Node) (f t : Nat)
    (hv : C01.Valid S doc) (hattrs : S.nodeAttrsOK doc = true) (htop : S.isTextblockO (S.tyOf doc) = false)
    (hft : f ≤ t) (ht : t ≤ fsize doc.kids) :
    replaceStep S doc f t Slice.empty = .ok none ∨
    ∃ st, replaceStep S doc f t Slice.empty = .ok (some st) ∧
    ((∀ F T G1 G2 sl' ins b, st = .replaceAround F T G1 G2 sl' ins b →
    noText ((sliceToks' sl').drop ins) = true) → respects (ftoks doc.kids) f t Slice.empty st = true) :=
  PM.C11.delete_total_respects S (family_det _ hS) (family_fillersOK _ hS) doc f t hv hattrs htop hft ht

/-- `PM.C11.deleteRange_total` with its schema guards discharged for the bundled schema family -/
theorem deleteRange_total (S : Schema) (hS : S ∈ familySchemas) (doc : Node) (f t : Nat) (hv : C01.Valid S doc)
    (hattrs : S.nodeAttrsOK doc = true) (htop : S.isTextblockO (S.tyOf doc) = false) (hft : f ≤ t)
    (ht : t ≤ fsize doc.kids) :
    ∃ r, deleteRangeStep S doc f t = .ok r :=
  PM.C11.deleteRange_total S (family_det _ hS) (family_fillersOK _ hS) doc f t hv hattrs htop hft ht

/-- `PM.C11.insertInline_total` with its schema guards discharged for the bundled schema family -/
theorem insertInline_total (S : Schema) (hS : S ∈ familySchemas) (doc : Node) (f t : Nat) (sl : Slice)
    (hsl : sl.inlineLeaves S = true) (hv : C01.Valid S doc) (hattrs : S.nodeAttrsOK doc = true)
    (htop : S.isTextblockO (S.tyOf doc) = false) (hft : f ≤ t) (ht : t ≤ fsize doc.kids) :
    ∃ r, replaceStep S doc f t sl = .ok r :=
  PM.C11.insertInline_total S (family_det _ hS) (family_fillersOK _ hS) (family_wrapOK _ hS) doc f t sl hsl hv
    hattrs htop hft ht

/-- `PM.C11.fit_emits_wf` with its schema guards discharged for the bundled schema family -/
theorem fit_emits_wf (S : Schema) (hS : S ∈ familySchemas) (doc : Node) (f t : Nat) (sl : Slice)
    (hv : C01.Valid S doc) (hattrs : S.nodeAttrsOK doc = true) (hwf : sl.wf = true) (hft : f ≤ t)
    (hrun : unplacedWfRun S doc f t sl = true) (st : Step) (h : replaceStep S doc f t sl = .ok (some st)) :
    StepWF st = true ∧
    (∀ F T G1 G2 sl' ins b, st = .replaceAround F T G1 G2 sl' ins b → aroundShape F T G1 G2 sl' ins = true) :=
  PM.C11.fit_emits_wf S (family_det _ hS) (family_fillersOK _ hS) (family_wrapOK _ hS) (family_labelsOK _ hS)
    doc f t sl hv hattrs hwf hft hrun st h

/-- `PM.C11.coherent_invariant` with its schema guards discharged for the bundled schema family -/
theorem coherent_invariant (S : Schema) (hS : S ∈ familySchemas) :
    (∀ (doc : Node) (f : Nat) (rf : RPos) (sl : Slice) (st0 : FitState), doc.resolve f = some rf →
    fitInit S rf sl = .ok st0 →
    Coh S rf.depth rf.depth st0.frontier 0 st0.frontier st0.placed ∧
    st0.coherentB S rf.depth st0.frontier = true) ∧
    (∀ (D g : Nat) (base : List FItem) (st st' : FitState), InStep st → g ≤ D →
    Coh S D g base 0 st.frontier st.placed → st.unplaced.wf = true → (st.unplaced.size == 0) = false →
    fitStep S st = .ok st' →
    ∃ g', g' ≤ g ∧ Coh S D g' base 0 st'.frontier st'.placed ∧ st'.coherentB S D base = true) ∧
    (∀ (D g : Nat) (base : List FItem) (fuel : Nat) (st st' : FitState), InStep st → g ≤ D →
    Coh S D g base 0 st.frontier st.placed → fitLoopAll S (fun s => s.unplaced.wf) fuel st = some true →
    fitLoop S fuel st = .ok st' →
    InStep st' ∧ ∃ g', g' ≤ g ∧ Coh S D g' base 0 st'.frontier st'.placed ∧ st'.coherentB S D base = true) :=
  PM.C11.coherent_invariant S (family_det _ hS) (family_fillersOK _ hS) (family_wrapOK _ hS)
    (family_labelsOK _ hS) (family_textStableC _ hS)

/-- `PM.C11.inStep_invariant` with its schema guards discharged for the bundled schema family -/
theorem inStep_invariant (S : Schema) (hS : S ∈ familySchemas) (st st' : FitState) (hin : InStep st)
    (hwf : st.unplaced.wf = true) (hsz : (st.unplaced.size == 0) = false) (h : fitStep S st = .ok st') :
    InStep st' ∧ st'.inStepB = true :=
  PM.C11.inStep_invariant S (family_det _ hS) (family_fillersOK _ hS) (family_wrapOK _ hS)
    (family_labelsOK _ hS) st st' hin hwf hsz h

/-- `PM.C11.delete_emits_wf` with its schema guards discharged for the bundled schema family -/
theorem delete_emits_wf (S : Schema) (hS : S ∈ familySchemas) (doc : Node) (f t : Nat) (hv : C01.Valid S doc)
    (hattrs : S.nodeAttrsOK doc = true) (hft : f ≤ t) (st : Step)
    (h : replaceStep S doc f t Slice.empty = .ok (some st)) :
    StepWF st = true ∧
    (∀ F T G1 G2 sl' ins b, st = .replaceAround F T G1 G2 sl' ins b → aroundShape F T G1 G2 sl' ins = true) :=
  PM.C11.delete_emits_wf S (family_det _ hS) (family_fillersOK _ hS) doc f t hv hattrs hft st h

/-- `PM.C11.deleteRange_emits_wf` with its schema guards discharged for the bundled schema family -/
theorem deleteRange_emits_wf (S : Schema) (hS : S ∈ familySchemas) (doc : Node) (f t : Nat)
    (hv : C01.Valid S doc) (hattrs : S.nodeAttrsOK doc = true) (hft : f ≤ t) (st : Step)
    (h : deleteRangeStep S doc f t = .ok (some st)) :
    StepWF st = true :=
  PM.C11.deleteRange_emits_wf S (family_det _ hS) (family_fillersOK _ hS) doc f t hv hattrs hft st h

/-- `PM.C11.insertInline_emits_wf` with its schema guards discharged for the bundled schema family -/
theorem insertInline_emits_wf (S : Schema) (hS : S ∈ familySchemas) (doc : Node) (f t : Nat) (sl : Slice)
    (hsl : sl.inlineLeaves S = true) (hv : C01.Valid S doc) (hattrs : S.nodeAttrsOK doc = true) (hft : f ≤ t)
    (st : Step) (h : replaceStep S doc f t sl = .ok (some st)) :
    StepWF st = true ∧
    (∀ F T G1 G2 sl' ins b, st = .replaceAround F T G1 G2 sl' ins b → aroundShape F T G1 G2 sl' ins = true) :=
  PM.C11.insertInline_emits_wf S (family_det _ hS) (family_fillersOK _ hS) (family_wrapOK _ hS) doc f t sl hsl
    hv hattrs hft st h

/-- `PM.C11.delete_emits_valid_payload` with its schema guards discharged for the bundled schema family -/
theorem delete_emits_valid_payload (S : Schema) (hS : S ∈ familySchemas) (doc : Node) (f t : Nat)
    (hv : C01.Valid S doc) (hattrs : S.nodeAttrsOK doc = true) (st : Step)
    (h : replaceStep S doc f t Slice.empty = .ok (some st)) :
    ∃ sl', st.sliceOf = some sl' ∧ openValid S sl'.openStart sl'.openEnd sl'.content = true :=
  PM.C11.delete_emits_valid_payload S (family_det _ hS) (family_leafOk _ hS) doc f t hv hattrs st h

/-- `PM.C11.deleteRange_emits_valid_payload` with its schema guards discharged for the bundled schema family -/
theorem deleteRange_emits_valid_payload (S : Schema) (hS : S ∈ familySchemas) (doc : Node) (f t : Nat)
    (hv : C01.Valid S doc) (hattrs : S.nodeAttrsOK doc = true) (st : Step)
    (h : deleteRangeStep S doc f t = .ok (some st)) :
    ∃ sl', st.sliceOf = some sl' ∧ openValid S sl'.openStart sl'.openEnd sl'.content = true :=
  PM.C11.deleteRange_emits_valid_payload S (family_det _ hS) (family_leafOk _ hS) doc f t hv hattrs st h

/-- `PM.C11.delete_emits_payloadValid` with its schema guards discharged for the bundled schema family -/
theorem delete_emits_payloadValid (S : Schema) (hS : S ∈ familySchemas) (doc : Node) (f t : Nat)
    (hv : C01.Valid S doc) (hattrs : S.nodeAttrsOK doc = true) (st : Step)
    (h : replaceStep S doc f t Slice.empty = .ok (some st)) :
    C01.PayloadValid S doc st :=
  PM.C11.delete_emits_payloadValid S (family_det _ hS) (family_leafOk _ hS) doc f t hv hattrs st h

/-- `PM.C11.deleteRange_emits_payloadValid` with its schema guards discharged for the bundled schema family -/
theorem deleteRange_emits_payloadValid (S : Schema) (hS : S ∈ familySchemas) (doc : Node) (f t : Nat)
    (hv : C01.Valid S doc) (hattrs : S.nodeAttrsOK doc = true) (st : Step)
    (h : deleteRangeStep S doc f t = .ok (some st)) :
    C01.PayloadValid S doc st :=
  PM.C11.deleteRange_emits_payloadValid S (family_det _ hS) (family_leafOk _ hS) doc f t hv hattrs st h

/-- `PM.C11.insertInline_emits_valid_payload` with its schema guards discharged for the bundled schema family -/
theorem insertInline_emits_valid_payload (S : Schema) (hS : S ∈ familySchemas) (doc : Node) (f t : Nat)
    (sl : Slice) (hsl : sl.inlineLeaves S = true) (hslv : sl.closedValid S = true) (hv : C01.Valid S doc)
    (hattrs : S.nodeAttrsOK doc = true) (st : Step) (h : replaceStep S doc f t sl = .ok (some st)) :
    ∃ sl', st.sliceOf = some sl' ∧ openValid S sl'.openStart sl'.openEnd sl'.content = true :=
  PM.C11.insertInline_emits_valid_payload S (family_det _ hS) (family_fillersOK _ hS) (family_wrapOK _ hS)
    (family_labelsOK _ hS) (family_leafOk _ hS) (family_textStableC _ hS) (family_closable _ hS) doc f t sl hsl
    hslv hv hattrs st h

/-- `PM.C11.payloadInv_step` with its schema guards discharged for the bundled schema family -/
theorem payloadInv_step (S : Schema) (hS : S ∈ familySchemas) (D g : Nat) (st : FitState)
    (inv : FitLoopInv S D st) (hv : VInv S D g st.frontier st.placed)
    (hu : ∀ n ∈ st.unplaced.content, S.checkNode n = true) :
    ∃ st' g', fitStep S st = .ok st' ∧ FitLoopInv S D st' ∧ VInv S D g' st'.frontier st'.placed ∧
    (∀ n ∈ st'.unplaced.content, S.checkNode n = true) :=
  PM.C11.payloadInv_step S (family_det _ hS) (family_fillersOK _ hS) (family_wrapOK _ hS) (family_labelsOK _ hS)
    (family_leafOk _ hS) (family_textStableC _ hS) (family_closable _ hS) D g st inv hv hu

/-- `PM.C11.fit_emits_valid_payload_of_inv` with its schema guards discharged for the bundled schema family -/
theorem fit_emits_valid_payload_of_inv (S : Schema) (hS : S ∈ familySchemas) (doc : Node) (f t : Nat)
    (sl : Slice) (hslv : openValid S sl.openStart sl.openEnd sl.content = true)
    (hattrs : S.nodeAttrsOK doc = true) (st : Step) (h : replaceStep S doc f t sl = .ok (some st))
    (hend : fitEndInv S doc f t sl ≠ some false) :
    ∃ sl', st.sliceOf = some sl' ∧ openValid S sl'.openStart sl'.openEnd sl'.content = true :=
  PM.C11.fit_emits_valid_payload_of_inv S (family_det _ hS) (family_fillersOK _ hS) (family_leafOk _ hS)
    (family_textStableC _ hS) (family_closable _ hS) doc f t sl hslv hattrs st h hend

/-- `PM.C11.delete_emitOK` with its schema guards discharged for the bundled schema family -/
theorem delete_emitOK (S : Schema) (hS : S ∈ familySchemas) (doc : Node) (f t : Nat) (hv : C01.Valid S doc)
    (hattrs : S.nodeAttrsOK doc = true) (hft : f ≤ t) (st : Step)
    (h : replaceStep S doc f t Slice.empty = .ok (some st)) :
    EmitOK S doc st :=
  PM.C11.delete_emitOK S (family_det _ hS) (family_fillersOK _ hS) (family_leafOk _ hS) doc f t hv hattrs hft st
    h

/-- `PM.C11.delete_valid` with its schema guards discharged for the bundled schema family -/
theorem delete_valid (S : Schema) (hS : S ∈ familySchemas) (doc doc' : Node) (f t : Nat) (hv : C01.Valid S doc)
    (hattrs : S.nodeAttrsOK doc = true) (hft : f ≤ t) (st : Step)
    (h : replaceStep S doc f t Slice.empty = .ok (some st)) (ha : S.apply st doc = .ok doc') :
    C01.Valid S doc' ∧ Kept (ftoks doc.kids) (ftoks doc'.kids) f t [] ∧
    textUnits (ftoks doc'.kids) = textUnits ((ftoks doc.kids).take f) ++ textUnits ((ftoks doc.kids).drop t) :=
  PM.C11.delete_valid S (family_det _ hS) (family_fillersOK _ hS) (family_leafOk _ hS) doc doc' f t hv hattrs
    hft st h ha

/-- `PM.C11.deleteRange_emitOK` with its schema guards discharged for the bundled schema family -/
theorem deleteRange_emitOK (S : Schema) (hS : S ∈ familySchemas) (doc : Node) (f t : Nat) (hv : C01.Valid S doc)
    (hattrs : S.nodeAttrsOK doc = true) (hft : f ≤ t) (st : Step)
    (h : deleteRangeStep S doc f t = .ok (some st)) :
    EmitOK S doc st :=
  PM.C11.deleteRange_emitOK S (family_det _ hS) (family_fillersOK _ hS) (family_leafOk _ hS) doc f t hv hattrs
    hft st h

/-- `PM.C11.deleteRange_valid` with its schema guards discharged for the bundled schema family -/
theorem deleteRange_valid (S : Schema) (hS : S ∈ familySchemas) (doc doc' : Node) (f t : Nat)
    (hv : C01.Valid S doc) (hattrs : S.nodeAttrsOK doc = true) (hft : f ≤ t) (st : Step)
    (h : deleteRangeStep S doc f t = .ok (some st)) (ha : S.apply st doc = .ok doc') :
    C01.Valid S doc' ∧ Kept (ftoks doc.kids) (ftoks doc'.kids) f t [] ∧
    textUnits (ftoks doc'.kids) = textUnits ((ftoks doc.kids).take f) ++ textUnits ((ftoks doc.kids).drop t) :=
  PM.C11.deleteRange_valid S (family_det _ hS) (family_fillersOK _ hS) (family_leafOk _ hS) doc doc' f t hv
    hattrs hft st h ha

/-- `PM.C11.delete_total_valid` with its schema guards discharged for the bundled schema family -/
theorem delete_total_valid (S : Schema) (hS : S ∈ familySchemas) (doc : Node) (f t : Nat) (hv : C01.Valid S doc)
    (hdoc : C01.IsElem doc) (hattrs : S.nodeAttrsOK doc = true) (htop : S.isTextblockO (S.tyOf doc) = false)
    (hft : f ≤ t) (ht : t ≤ fsize doc.kids) :
    replaceStep S doc f t Slice.empty = .ok none ∨
    ∃ st, replaceStep S doc f t Slice.empty = .ok (some st) ∧
    (S.apply st doc = .error .failed ∨ S.apply st doc = .error .valueError ∨
    ∃ doc', S.apply st doc = .ok doc' ∧ C01.Valid S doc' ∧ Kept (ftoks doc.kids) (ftoks doc'.kids) f t [] ∧
    textUnits (ftoks doc'.kids) = textUnits ((ftoks doc.kids).take f) ++ textUnits ((ftoks doc.kids).drop t)) :=
  PM.C11.delete_total_valid S (family_det _ hS) (family_fillersOK _ hS) (family_leafOk _ hS) doc f t hv hdoc
    hattrs htop hft ht

/-- `PM.C11.deleteRange_total_valid` with its schema guards discharged for the bundled schema family -/
theorem deleteRange_total_valid (S : Schema) (hS : S ∈ familySchemas) (doc : Node) (f t : Nat)
    (hv : C01.Valid S doc) (hdoc : C01.IsElem doc) (hattrs : S.nodeAttrsOK doc = true)
    (htop : S.isTextblockO (S.tyOf doc) = false) (hft : f ≤ t) (ht : t ≤ fsize doc.kids) :
    deleteRangeStep S doc f t = .ok none ∨
    ∃ st, deleteRangeStep S doc f t = .ok (some st) ∧
    (S.apply st doc = .error .failed ∨ S.apply st doc = .error .valueError ∨
    ∃ doc', S.apply st doc = .ok doc' ∧ C01.Valid S doc' ∧ Kept (ftoks doc.kids) (ftoks doc'.kids) f t [] ∧
    textUnits (ftoks doc'.kids) = textUnits ((ftoks doc.kids).take f) ++ textUnits ((ftoks doc.kids).drop t)) :=
  PM.C11.deleteRange_total_valid S (family_det _ hS) (family_fillersOK _ hS) (family_leafOk _ hS) doc f t hv
    hdoc hattrs htop hft ht

/-- `PM.C11.replaceRange_valid_delete` with its schema guards discharged for the bundled schema family -/
theorem replaceRange_valid_delete (S : Schema) (hS : S ∈ familySchemas) (doc doc' : Node) (f t : Nat)
    (sl : Slice) (hsz : (sl.size == 0) = true) (cs : List (Nat × Nat × Slice)) (hv : C01.Valid S doc)
    (hattrs : S.nodeAttrsOK doc = true) (hft : f ≤ t) (h : replaceRangeCalls S doc f t sl = some cs)
    (c : Nat × Nat × Slice) (hc : c ∈ cs) (st : Step) (hst : replaceStep S doc c.1 c.2.1 c.2.2 = .ok (some st))
    (ha : S.apply st doc = .ok doc') :
    C01.Valid S doc' ∧ Kept (ftoks doc.kids) (ftoks doc'.kids) f t [] ∧
    textUnits (ftoks doc'.kids) = textUnits ((ftoks doc.kids).take f) ++ textUnits ((ftoks doc.kids).drop t) :=
  PM.C11.replaceRange_valid_delete S (family_det _ hS) (family_fillersOK _ hS) (family_leafOk _ hS) doc doc' f t
    sl hsz cs hv hattrs hft h c hc st hst ha

/-- `PM.C11.insertInline_emitOK_partial` with its schema guards discharged for the bundled schema family -/
theorem insertInline_emitOK_partial (S : Schema) (hS : S ∈ familySchemas) (doc : Node) (f t : Nat) (sl : Slice)
    (hsl : sl.inlineLeaves S = true) (hslv : sl.closedValid S = true) (hv : C01.Valid S doc)
    (hattrs : S.nodeAttrsOK doc = true) (hft : f ≤ t) (st : Step) (h : replaceStep S doc f t sl = .ok (some st))
    (hpa : AroundPayload S doc st) :
    EmitOK S doc st :=
  PM.C11.insertInline_emitOK_partial S (family_det _ hS) (family_fillersOK _ hS) (family_wrapOK _ hS)
    (family_labelsOK _ hS) (family_leafOk _ hS) (family_textStableC _ hS) (family_closable _ hS) doc f t sl hsl
    hslv hv hattrs hft st h hpa

/-- `PM.C11.fit_emitOK_of_inv_partial` with its schema guards discharged for the bundled schema family -/
theorem fit_emitOK_of_inv_partial (S : Schema) (hS : S ∈ familySchemas) (doc : Node) (f t : Nat) (sl : Slice)
    (hwf : sl.wf = true) (hslv : openValid S sl.openStart sl.openEnd sl.content = true)
    (hattrs : S.nodeAttrsOK doc = true) (st : Step) (h : replaceStep S doc f t sl = .ok (some st))
    (hend : fitEndInv S doc f t sl ≠ some false) (hpa : AroundPayload S doc st) :
    EmitOK S doc st :=
  PM.C11.fit_emitOK_of_inv_partial S (family_det _ hS) (family_fillersOK _ hS) (family_leafOk _ hS)
    (family_textStableC _ hS) (family_closable _ hS) doc f t sl hwf hslv hattrs st h hend hpa

/-- `PM.C11.insertInline_valid_partial` with its schema guards discharged for the bundled schema family -/
theorem insertInline_valid_partial (S : Schema) (hS : S ∈ familySchemas) (doc doc' : Node) (f t : Nat)
    (sl : Slice) (hsl : sl.inlineLeaves S = true) (hslv : sl.closedValid S = true) (hv : C01.Valid S doc)
    (hattrs : S.nodeAttrsOK doc = true) (hft : f ≤ t) (st : Step) (h : replaceStep S doc f t sl = .ok (some st))
    (hpa : AroundPayload S doc st) (ha : S.apply st doc = .ok doc') :
    C01.Valid S doc' ∧ Kept (ftoks doc.kids) (ftoks doc'.kids) f t (textUnits (sliceToks' sl)) :=
  PM.C11.insertInline_valid_partial S (family_det _ hS) (family_fillersOK _ hS) (family_wrapOK _ hS)
    (family_labelsOK _ hS) (family_leafOk _ hS) (family_textStableC _ hS) (family_closable _ hS) doc doc' f t sl
    hsl hslv hv hattrs hft st h hpa ha

/-- `PM.C11.insertInline_total_valid_partial` with its schema guards discharged for the bundled schema family -/
theorem insertInline_total_valid_partial (S : Schema) (hS : S ∈ familySchemas) (doc : Node) (f t : Nat)
    (sl : Slice) (hsl : sl.inlineLeaves S = true) (hslv : sl.closedValid S = true) (hv : C01.Valid S doc)
    (hdoc : C01.IsElem doc) (hattrs : S.nodeAttrsOK doc = true) (htop : S.isTextblockO (S.tyOf doc) = false)
    (hft : f ≤ t) (ht : t ≤ fsize doc.kids) :
    replaceStep S doc f t sl = .ok none ∨
    ∃ st, replaceStep S doc f t sl = .ok (some st) ∧
    (AroundPayload S doc st →
    S.apply st doc = .error .failed ∨ S.apply st doc = .error .valueError ∨
    ∃ doc', S.apply st doc = .ok doc' ∧ C01.Valid S doc' ∧
    Kept (ftoks doc.kids) (ftoks doc'.kids) f t (textUnits (sliceToks' sl))) :=
  PM.C11.insertInline_total_valid_partial S (family_det _ hS) (family_fillersOK _ hS) (family_wrapOK _ hS)
    (family_labelsOK _ hS) (family_leafOk _ hS) (family_textStableC _ hS) (family_closable _ hS) doc f t sl hsl
    hslv hv hdoc hattrs htop hft ht

/-- `PM.C11.replace_valid_of_inv_partial` with its schema guards discharged for the bundled schema family -/
theorem replace_valid_of_inv_partial (S : Schema) (hS : S ∈ familySchemas) (doc doc' : Node) (f t : Nat)
    (sl : Slice) (hwf : sl.wf = true) (hslv : openValid S sl.openStart sl.openEnd sl.content = true)
    (hv : C01.Valid S doc) (hattrs : S.nodeAttrsOK doc = true) (hft : f ≤ t) (st : Step)
    (h : replaceStep S doc f t sl = .ok (some st)) (hend : fitEndInv S doc f t sl ≠ some false)
    (hpa : AroundPayload S doc st) (ha : S.apply st doc = .ok doc') :
    C01.Valid S doc' ∧ Kept (ftoks doc.kids) (ftoks doc'.kids) f t (textUnits (sliceToks' sl)) :=
  PM.C11.replace_valid_of_inv_partial S (family_det _ hS) (family_fillersOK _ hS) (family_leafOk _ hS)
    (family_textStableC _ hS) (family_closable _ hS) doc doc' f t sl hwf hslv hv hattrs hft st h hend hpa ha

/-- `PM.C11.replaceRange_valid_inline_partial` with its schema guards discharged for the bundled schema family -/
theorem replaceRange_valid_inline_partial (S : Schema) (hS : S ∈ familySchemas) (doc doc' : Node) (f t : Nat)
    (sl : Slice) (cs : List (Nat × Nat × Slice)) (hv : C01.Valid S doc) (hattrs : S.nodeAttrsOK doc = true)
    (hft : f ≤ t) (hwf : sl.wf = true) (h : replaceRangeCalls S doc f t sl = some cs) (c : Nat × Nat × Slice)
    (hc : c ∈ cs) (hsl : c.2.2.inlineLeaves S = true) (hslv : c.2.2.closedValid S = true) (st : Step)
    (hst : replaceStep S doc c.1 c.2.1 c.2.2 = .ok (some st)) (hpa : AroundPayload S doc st)
    (ha : S.apply st doc = .ok doc') :
    C01.Valid S doc' ∧ Kept (ftoks doc.kids) (ftoks doc'.kids) f t (textUnits (sliceToks' sl)) :=
  PM.C11.replaceRange_valid_inline_partial S (family_det _ hS) (family_fillersOK _ hS) (family_wrapOK _ hS)
    (family_labelsOK _ hS) (family_leafOk _ hS) (family_textStableC _ hS) (family_closable _ hS) doc doc' f t sl
    cs hv hattrs hft hwf h c hc hsl hslv st hst hpa ha

/-- `PM.C11.replaceRange_valid_of_inv_partial` with its schema guards discharged for the bundled schema family -/
theorem replaceRange_valid_of_inv_partial (S : Schema) (hS : S ∈ familySchemas) (doc doc' : Node) (f t : Nat)
    (sl : Slice) (cs : List (Nat × Nat × Slice)) (hv : C01.Valid S doc) (hattrs : S.nodeAttrsOK doc = true)
    (hft : f ≤ t) (hwf : sl.wf = true) (h : replaceRangeCalls S doc f t sl = some cs) (c : Nat × Nat × Slice)
    (hc : c ∈ cs) (hcwf : c.2.2.wf = true)
    (hslv : openValid S c.2.2.openStart c.2.2.openEnd c.2.2.content = true) (st : Step)
    (hst : replaceStep S doc c.1 c.2.1 c.2.2 = .ok (some st))
    (hend : fitEndInv S doc c.1 c.2.1 c.2.2 ≠ some false) (hpa : AroundPayload S doc st)
    (ha : S.apply st doc = .ok doc') :
    C01.Valid S doc' ∧ Kept (ftoks doc.kids) (ftoks doc'.kids) f t (textUnits (sliceToks' sl)) :=
  PM.C11.replaceRange_valid_of_inv_partial S (family_det _ hS) (family_fillersOK _ hS) (family_leafOk _ hS)
    (family_textStableC _ hS) (family_closable _ hS) doc doc' f t sl cs hv hattrs hft hwf h c hc hcwf hslv st
    hst hend hpa ha

/-- `PM.C11.replaceRangeWith_valid_of_inv_partial` with its schema guards discharged for the bundled schema family -/
theorem replaceRangeWith_valid_of_inv_partial (S : Schema) (hS : S ∈ familySchemas) (doc doc' : Node)
    (f t : Nat) (node : Node) (cs : List (Nat × Nat × Slice)) (hv : C01.Valid S doc)
    (hattrs : S.nodeAttrsOK doc = true) (hft : f ≤ t) (h : replaceRangeWithCalls S doc f t node = some cs)
    (c : Nat × Nat × Slice) (hc : c ∈ cs) (hcwf : c.2.2.wf = true)
    (hslv : openValid S c.2.2.openStart c.2.2.openEnd c.2.2.content = true) (st : Step)
    (hst : replaceStep S doc c.1 c.2.1 c.2.2 = .ok (some st))
    (hend : fitEndInv S doc c.1 c.2.1 c.2.2 ≠ some false) (hpa : AroundPayload S doc st)
    (hgap : ∀ F T G1 G2 sl' ins b, st = .replaceAround F T G1 G2 sl' ins b → t ≤ G1)
    (ha : S.apply st doc = .ok doc') :
    C01.Valid S doc' ∧ Kept (ftoks doc.kids) (ftoks doc'.kids) f t (textUnits (sliceToks' ⟨[node], 0, 0⟩)) :=
  PM.C11.replaceRangeWith_valid_of_inv_partial S (family_det _ hS) (family_fillersOK _ hS) (family_leafOk _ hS)
    (family_textStableC _ hS) (family_closable _ hS) doc doc' f t node cs hv hattrs hft h c hc hcwf hslv st hst
    hend hpa hgap ha

/-- `PM.C11.replaceRangeWith_valid_inline_partial` with its schema guards discharged for the bundled schema family -/
theorem replaceRangeWith_valid_inline_partial (S : Schema) (hS : S ∈ familySchemas) (doc doc' : Node)
    (f t : Nat) (node : Node) (hinl : (S.nodeType (S.tyOf node)).isInline = true)
    (cs : List (Nat × Nat × Slice)) (hv : C01.Valid S doc) (hattrs : S.nodeAttrsOK doc = true) (hft : f ≤ t)
    (h : replaceRangeWithCalls S doc f t node = some cs) (c : Nat × Nat × Slice) (hc : c ∈ cs)
    (hsl : c.2.2.inlineLeaves S = true) (hslv : c.2.2.closedValid S = true) (st : Step)
    (hst : replaceStep S doc c.1 c.2.1 c.2.2 = .ok (some st)) (hpa : AroundPayload S doc st)
    (ha : S.apply st doc = .ok doc') :
    C01.Valid S doc' ∧ Kept (ftoks doc.kids) (ftoks doc'.kids) f t (textUnits (sliceToks' ⟨[node], 0, 0⟩)) :=
  PM.C11.replaceRangeWith_valid_inline_partial S (family_det _ hS) (family_fillersOK _ hS) (family_wrapOK _ hS)
    (family_labelsOK _ hS) (family_leafOk _ hS) (family_textStableC _ hS) (family_closable _ hS) doc doc' f t
    node hinl cs hv hattrs hft h c hc hsl hslv st hst hpa ha

/-- `PM.C11.aroundPayload_of_norm` with its schema guards discharged for the bundled schema family -/
theorem aroundPayload_of_norm (S : Schema) (hS : S ∈ familySchemas) (doc : Node) (f t : Nat) (req : Slice)
    (hv : C01.Valid S doc) (st : Step) (h : replaceStep S doc f t req = .ok (some st)) (hwf : StepWF st = true)
    (hp : ∃ sl', st.sliceOf = some sl' ∧ openValid S sl'.openStart sl'.openEnd sl'.content = true)
    (hsn : ∀ sl', st.sliceOf = some sl' → fnorm sl'.content = true) :
    AroundPayload S doc st :=
  PM.C11.aroundPayload_of_norm S doc f t req hv st h hwf hp hsn

/-- `PM.C11.insertInline_valid_of_norm` with its schema guards discharged for the bundled schema family -/
theorem insertInline_valid_of_norm (S : Schema) (hS : S ∈ familySchemas) (doc doc' : Node) (f t : Nat)
    (sl : Slice) (hsl : sl.inlineLeaves S = true) (hslv : sl.closedValid S = true) (hv : C01.Valid S doc)
    (hattrs : S.nodeAttrsOK doc = true) (hft : f ≤ t) (st : Step) (h : replaceStep S doc f t sl = .ok (some st))
    (hsn : ∀ F T G1 G2 sl' ins b, st = .replaceAround F T G1 G2 sl' ins b → fnorm sl'.content = true)
    (ha : S.apply st doc = .ok doc') :
    C01.Valid S doc' ∧ Kept (ftoks doc.kids) (ftoks doc'.kids) f t (textUnits (sliceToks' sl)) :=
  PM.C11.insertInline_valid_of_norm S (family_det _ hS) (family_fillersOK _ hS) (family_wrapOK _ hS)
    (family_labelsOK _ hS) (family_leafOk _ hS) (family_textStableC _ hS) (family_closable _ hS) doc doc' f t sl
    hsl hslv hv hattrs hft st h hsn ha

/-- `PM.C11.replace_valid_of_inv_of_norm` with its schema guards discharged for the bundled schema family -/
theorem replace_valid_of_inv_of_norm (S : Schema) (hS : S ∈ familySchemas) (doc doc' : Node) (f t : Nat)
    (sl : Slice) (hwf : sl.wf = true) (hslv : openValid S sl.openStart sl.openEnd sl.content = true)
    (hv : C01.Valid S doc) (hattrs : S.nodeAttrsOK doc = true) (hft : f ≤ t) (st : Step)
    (h : replaceStep S doc f t sl = .ok (some st)) (hend : fitEndInv S doc f t sl ≠ some false)
    (hsn : ∀ F T G1 G2 sl' ins b, st = .replaceAround F T G1 G2 sl' ins b → fnorm sl'.content = true)
    (ha : S.apply st doc = .ok doc') :
    C01.Valid S doc' ∧ Kept (ftoks doc.kids) (ftoks doc'.kids) f t (textUnits (sliceToks' sl)) :=
  PM.C11.replace_valid_of_inv_of_norm S (family_det _ hS) (family_fillersOK _ hS) (family_leafOk _ hS)
    (family_textStableC _ hS) (family_closable _ hS) doc doc' f t sl hwf hslv hv hattrs hft st h hend hsn ha

/-- `PM.C11.insertInline_valid` with its schema guards discharged for the bundled schema family -/
theorem insertInline_valid (S : Schema) (hS : S ∈ familySchemas) (doc doc' : Node) (f t : Nat) (sl : Slice)
    (hsl : sl.inlineLeaves S = true) (hslv : sl.closedValid S = true) (hsn : fnorm sl.content = true)
    (hv : C01.Valid S doc) (hattrs : S.nodeAttrsOK doc = true) (hft : f ≤ t) (st : Step)
    (h : replaceStep S doc f t sl = .ok (some st)) (ha : S.apply st doc = .ok doc') :
    C01.Valid S doc' ∧ Kept (ftoks doc.kids) (ftoks doc'.kids) f t (textUnits (sliceToks' sl)) :=
  PM.C11.insertInline_valid S (family_det _ hS) (family_fillersOK _ hS) (family_wrapOK _ hS)
    (family_labelsOK _ hS) (family_leafOk _ hS) (family_textStableC _ hS) (family_closable _ hS) doc doc' f t sl
    hsl hslv hsn hv hattrs hft st h ha

/-- `PM.C11.replace_valid_of_inv` with its schema guards discharged for the bundled schema family -/
theorem replace_valid_of_inv (S : Schema) (hS : S ∈ familySchemas) (doc doc' : Node) (f t : Nat) (sl : Slice)
    (hwf : sl.wf = true) (hslv : openValid S sl.openStart sl.openEnd sl.content = true)
    (hsn : fnorm sl.content = true) (hv : C01.Valid S doc) (hattrs : S.nodeAttrsOK doc = true) (hft : f ≤ t)
    (st : Step) (h : replaceStep S doc f t sl = .ok (some st)) (hend : fitEndInv S doc f t sl ≠ some false)
    (ha : S.apply st doc = .ok doc') :
    C01.Valid S doc' ∧ Kept (ftoks doc.kids) (ftoks doc'.kids) f t (textUnits (sliceToks' sl)) :=
  PM.C11.replace_valid_of_inv S (family_det _ hS) (family_fillersOK _ hS) (family_leafOk _ hS)
    (family_textStableC _ hS) (family_closable _ hS) doc doc' f t sl hwf hslv hsn hv hattrs hft st h hend ha

/-- `PM.C11.fit_emits_valid_payload` with its schema guards discharged for the bundled schema family -/
theorem fit_emits_valid_payload (S : Schema) (hS : S ∈ familySchemas) (doc : Node) (f t : Nat) (sl : Slice)
    (hloose : sl.looseValid S = true) (hv : C01.Valid S doc) (hattrs : S.nodeAttrsOK doc = true)
    (hrun : unplacedWfRun S doc f t sl = true) (st : Step) (h : replaceStep S doc f t sl = .ok (some st)) :
    ∃ sl', st.sliceOf = some sl' ∧ openValid S sl'.openStart sl'.openEnd sl'.content = true :=
  PM.C11.fit_emits_valid_payload S (family_det _ hS) (family_fillersOK _ hS) (family_wrapOK _ hS)
    (family_labelsOK _ hS) (family_leafOk _ hS) (family_textStableC _ hS) (family_closable _ hS) doc f t sl
    hloose hv hattrs hrun st h

/-- `PM.C11.payloadInv_step_gen` with its schema guards discharged for the bundled schema family -/
theorem payloadInv_step_gen (S : Schema) (hS : S ∈ familySchemas) (D g : Nat) (st : FitState) (inv : InStep st)
    (hv : VInv S D g st.frontier st.placed) (hU : UInv S st.unplaced) (hwf : st.unplaced.wf = true)
    (hsz : (st.unplaced.size == 0) = false) (st' : FitState) (h : fitStep S st = .ok st') :
    (∃ g', VInv S D g' st'.frontier st'.placed) ∧ UInv S st'.unplaced :=
  PM.C11.payloadInv_step_gen S (family_det _ hS) (family_fillersOK _ hS) (family_wrapOK _ hS)
    (family_labelsOK _ hS) (family_leafOk _ hS) (family_textStableC _ hS) (family_closable _ hS) D g st inv hv
    hU hwf hsz st' h

/-- `PM.C11.fit_emits_valid_payload_cut` with its schema guards discharged for the bundled schema family -/
theorem fit_emits_valid_payload_cut (S : Schema) (hS : S ∈ familySchemas) (doc : Node) (f t : Nat) (src : Node)
    (a b : Nat) (sl : Slice) (hsrc : C01.Valid S src) (hcut : src.slice a b = .ok sl) (hv : C01.Valid S doc)
    (hattrs : S.nodeAttrsOK doc = true) (hrun : unplacedWfRun S doc f t sl = true) (st : Step)
    (h : replaceStep S doc f t sl = .ok (some st)) :
    ∃ sl', st.sliceOf = some sl' ∧ openValid S sl'.openStart sl'.openEnd sl'.content = true :=
  PM.C11.fit_emits_valid_payload_cut S (family_det _ hS) (family_fillersOK _ hS) (family_wrapOK _ hS)
    (family_labelsOK _ hS) (family_leafOk _ hS) (family_textStableC _ hS) (family_closable _ hS) doc f t src a b
    sl hsrc hcut hv hattrs hrun st h

/-- `PM.C11.fit_replace_recorded_valid` with its schema guards discharged for the bundled schema family -/
theorem fit_replace_recorded_valid (S : Schema) (hS : S ∈ familySchemas) (doc : Node) (f t : Nat) (sl : Slice)
    (hloose : sl.looseValid S = true) (hv : C01.Valid S doc) (hattrs : S.nodeAttrsOK doc = true)
    (hrun : unplacedWfRun S doc f t sl = true) (F T : Nat) (sl' : Slice) (b : Bool)
    (h : replaceStep S doc f t sl = .ok (some (.replace F T sl' b))) (doc' : Node)
    (ha : S.apply (.replace F T sl' b) doc = .ok doc') :
    C01.Valid S doc' :=
  PM.C11.fit_replace_recorded_valid S (family_det _ hS) (family_fillersOK _ hS) (family_wrapOK _ hS)
    (family_labelsOK _ hS) (family_leafOk _ hS) (family_textStableC _ hS) (family_closable _ hS) doc f t sl
    hloose hv hattrs hrun F T sl' b h doc' ha

/-- `PM.C11.delete_recorded_valid` with its schema guards discharged for the bundled schema family -/
theorem delete_recorded_valid (S : Schema) (hS : S ∈ familySchemas) (doc : Node) (f t : Nat)
    (hv : C01.Valid S doc) (hattrs : S.nodeAttrsOK doc = true) (st : Step)
    (h : replaceStep S doc f t Slice.empty = .ok (some st)) (doc' : Node) (ha : S.apply st doc = .ok doc') :
    C01.Valid S doc' :=
  PM.C11.delete_recorded_valid S (family_det _ hS) (family_leafOk _ hS) doc f t hv hattrs st h doc' ha

/-- `PM.C11.fit_no_raise_partial` with its schema guards discharged for the bundled schema family -/
theorem fit_no_raise_partial (S : Schema) (hS : S ∈ familySchemas) (st : FitState) (hin : st.inStepB = true)
    (hwf : st.unplaced.wf = true) (e : FitErr) (h : fitStep S st = .error e) :
    ∃ f, findFittable S st = .ok (some f) ∧ placeNodes S st f = .error e :=
  PM.C11.fit_no_raise_partial S (family_det _ hS) (family_fillersOK _ hS) st hin hwf e h

/-- `PM.C11.fit_raise_sites` with its schema guards discharged for the bundled schema family -/
theorem fit_raise_sites (S : Schema) (hS : S ∈ familySchemas) (st : FitState) (hin : st.inStepB = true)
    (hwf : st.unplaced.wf = true) (e : FitErr) (h : fitStep S st = .error e) :
    ∃ f, findFittable S st = .ok (some f) ∧
    ((∃ d fty os oec total q add, takeLoop S d fty os oec total (f.fragment st.unplaced) 0 q add = .error e) ∨
    (∃ n fr, pushOpenEnd S n (f.fragment st.unplaced) fr = .error e)) :=
  PM.C11.fit_raise_sites S (family_det _ hS) (family_fillersOK _ hS) (family_wrapOK _ hS) (family_labelsOK _ hS)
    st hin hwf e h

/-- `PM.C11.trivialFit_delete_applies` with its schema guards discharged for the bundled schema family -/
theorem trivialFit_delete_applies (S : Schema) (hS : S ∈ domFamilySchemas) (doc : Node) (f t : Nat)
    (hv : C01.Valid S doc) (hdoc : C01.IsElem doc) (hn : fnorm doc.kids = true) (hft : f ≤ t)
    (hpf : pairAligned doc f = true) (hpt : pairAligned doc t = true)
    (htr : fitsTriviallyO S doc f t Slice.empty = some true) :
    ∃ doc', S.apply (.replace f t Slice.empty false) doc = .ok doc' :=
  PM.C11.trivialFit_delete_applies S (family_textStable _ hS) doc f t hv hdoc hn hft hpf hpt htr

/-- `PM.C11.delete_applies_flat` with its schema guards discharged for the bundled schema family -/
theorem delete_applies_flat (S : Schema) (hS : S ∈ domFamilySchemas) (doc : Node) (f t : Nat)
    (hv : C01.Valid S doc) (hdoc : C01.IsElem doc) (hn : fnorm doc.kids = true) (hft : f ≤ t)
    (hpf : pairAligned doc f = true) (hpt : pairAligned doc t = true)
    (htr : fitsTriviallyO S doc f t Slice.empty = some true) (st : Step)
    (h : replaceStep S doc f t Slice.empty = .ok (some st)) :
    st = .replace f t Slice.empty false ∧ ∃ doc', S.apply st doc = .ok doc' :=
  PM.C11.delete_applies_flat S (family_textStable _ hS) doc f t hv hdoc hn hft hpf hpt htr st h

/-- `PM.C11.delete_never_raises_flat` with its schema guards discharged for the bundled schema family -/
theorem delete_never_raises_flat (S : Schema) (hS : S ∈ domFamilySchemas) (doc : Node) (f t : Nat)
    (hv : C01.Valid S doc) (hdoc : C01.IsElem doc) (hn : fnorm doc.kids = true)
    (hattrs : S.nodeAttrsOK doc = true) (hft : f ≤ t) (hpf : pairAligned doc f = true)
    (hpt : pairAligned doc t = true) (htr : fitsTriviallyO S doc f t Slice.empty = some true) :
    replaceStep S doc f t Slice.empty = .ok none ∨
    ∃ doc', replaceStep S doc f t Slice.empty = .ok (some (.replace f t Slice.empty false)) ∧
    S.apply (.replace f t Slice.empty false) doc = .ok doc' ∧ C01.Valid S doc' ∧
    Kept (ftoks doc.kids) (ftoks doc'.kids) f t [] ∧
    textUnits (ftoks doc'.kids) = textUnits ((ftoks doc.kids).take f) ++ textUnits ((ftoks doc.kids).drop t) :=
  PM.C11.delete_never_raises_flat S (family_det _ (domFamily_sub _ hS))
    (family_fillersOK _ (domFamily_sub _ hS)) (family_leafOk _ (domFamily_sub _ hS)) (family_textStable _ hS)
    doc f t hv hdoc hn hattrs hft hpf hpt htr

/-- `PM.C11.fit_step_returns` with its schema guards discharged for the bundled schema family -/
theorem fit_step_returns (S : Schema) (hS : S ∈ familySchemas) (st : FitState) (hin : st.inStepB = true)
    (hwf : st.unplaced.wf = true) (hsites : st.unplaced.sitesOk S = true) :
    ∃ st', fitStep S st = .ok st' :=
  PM.C11.fit_step_returns S (family_det _ hS) (family_fillersOK _ hS) (family_wrapOK _ hS)
    (family_labelsOK _ hS) (family_textStableC _ hS) (family_closable _ hS) st hin hwf hsites

/-- `PM.C11.startSite_exact` with its schema guards discharged for the bundled schema family -/
theorem startSite_exact (S : Schema) (hS : S ∈ familySchemas) (t : TypeId) (a : Attrs) (m : Marks)
    (kids : List Node) (oe : Int) (ht : t < S.nodes.size) :
    (∃ r, closeNodeStart S 1 (.elem t a m kids) oe = .ok r) ↔
    (fillBeforeTypes S (S.dfa t) 0 (S.types kids) false).isSome = true :=
  PM.C11.startSite_exact S (family_det _ hS) (family_fillersOK _ hS) (family_textStableC _ hS)
    (family_closable _ hS) t a m kids oe ht

/-- `PM.C11.fit_no_raise_while` with its schema guards discharged for the bundled schema family -/
theorem fit_no_raise_while (S : Schema) (hS : S ∈ familySchemas) (doc : Node) (f t : Nat) (sl : Slice)
    (hv : C01.Valid S doc) (hattrs : S.nodeAttrsOK doc = true) (htop : S.isTextblockO (S.tyOf doc) = false)
    (hft : f ≤ t) (ht : t ≤ fsize doc.kids) (hterm : sl.termGuard = true) (hg : sl.openPrefixOk S = true)
    (hrun : unplacedWfWhile S doc f t sl = true) :
    ∃ r, replaceStep S doc f t sl = .ok r :=
  PM.C11.fit_no_raise_while S (family_det _ hS) (family_fillersOK _ hS) (family_wrapOK _ hS)
    (family_labelsOK _ hS) (family_textStableC _ hS) (family_closable _ hS) doc f t sl hv hattrs htop hft ht
    hterm hg hrun

/-- `PM.C11.fit_no_raise` with its schema guards discharged for the bundled schema family -/
theorem fit_no_raise (S : Schema) (hS : S ∈ familySchemas) (doc : Node) (f t : Nat) (sl : Slice)
    (hv : C01.Valid S doc) (hattrs : S.nodeAttrsOK doc = true) (htop : S.isTextblockO (S.tyOf doc) = false)
    (hft : f ≤ t) (ht : t ≤ fsize doc.kids) (hwf : sl.wf = true) (hg : sl.openPrefixOk S = true)
    (hst : sl.stableOk S = true) :
    ∃ r, replaceStep S doc f t sl = .ok r :=
  PM.C11.fit_no_raise S (family_det _ hS) (family_fillersOK _ hS) (family_wrapOK _ hS) (family_labelsOK _ hS)
    (family_textStableC _ hS) (family_closable _ hS) doc f t sl hv hattrs htop hft ht hwf hg hst

/-- `PM.C11.fit_no_raise_emits` with its schema guards discharged for the bundled schema family -/
theorem fit_no_raise_emits (S : Schema) (hS : S ∈ familySchemas) (doc : Node) (f t : Nat) (sl : Slice)
    (hv : C01.Valid S doc) (hattrs : S.nodeAttrsOK doc = true) (htop : S.isTextblockO (S.tyOf doc) = false)
    (hft : f ≤ t) (ht : t ≤ fsize doc.kids) (hwf : sl.wf = true) (hg : sl.openPrefixOk S = true)
    (hst : sl.stableOk S = true) (hloose : sl.looseValid S = true) :
    replaceStep S doc f t sl = .ok none ∨
    ∃ st, replaceStep S doc f t sl = .ok (some st) ∧ StepWF st = true ∧
    (∀ F T G1 G2 sl' ins b, st = .replaceAround F T G1 G2 sl' ins b → aroundShape F T G1 G2 sl' ins = true) ∧
    (∃ sl', st.sliceOf = some sl' ∧ openValid S sl'.openStart sl'.openEnd sl'.content = true) ∧
    ((∀ F T G1 G2 sl' ins b, st = .replaceAround F T G1 G2 sl' ins b →
    noText ((sliceToks' sl').drop ins) = true) → respects (ftoks doc.kids) f t sl st = true) :=
  PM.C11.fit_no_raise_emits S (family_det _ hS) (family_fillersOK _ hS) (family_wrapOK _ hS)
    (family_labelsOK _ hS) (family_textStableC _ hS) (family_closable _ hS) (family_leafOk _ hS) doc f t sl hv
    hattrs htop hft ht hwf hg hst hloose

/-- `PM.C11.fit_raises_only_at_sites` with its schema guards discharged for the bundled schema family -/
theorem fit_raises_only_at_sites (S : Schema) (hS : S ∈ familySchemas) (doc : Node) (f t : Nat) (sl : Slice)
    (hv : C01.Valid S doc) (hattrs : S.nodeAttrsOK doc = true) (htop : S.isTextblockO (S.tyOf doc) = false)
    (hft : f ≤ t) (ht : t ≤ fsize doc.kids) (h : replaceStep S doc f t sl = .error .raises) :
    (∃ rf st0 st', doc.resolve f = some rf ∧ fitInit S rf sl = .ok st0 ∧ FitReach S st0 st' ∧
    (st'.unplaced.size == 0) = false ∧ (st'.unplaced.wf = false ∨ st'.unplaced.sitesOk S = false)) ∧
    (∃ w a b, requestBadState S doc f t sl = some (w, a, b) ∧ (w && a && b) = false) :=
  PM.C11.fit_raises_only_at_sites S (family_det _ hS) (family_fillersOK _ hS) (family_wrapOK _ hS)
    (family_labelsOK _ hS) (family_textStableC _ hS) (family_closable _ hS) doc f t sl hv hattrs htop hft ht h

/-- `PM.C11.delete_applies` with its schema guards discharged for the bundled schema family -/
theorem delete_applies (S : Schema) (hS : S ∈ familySchemas) (doc : Node) (f t : Nat) (hv : C01.Valid S doc)
    (hdoc : C01.IsElem doc) (hn : fnorm doc.kids = true) (hattrs : S.nodeAttrsOK doc = true)
    (hhc : highClosedKids doc.kids = true) (hft : f ≤ t) (hpf : pairAligned doc f = true)
    (hpt : pairAligned doc t = true) (st : Step) (h : replaceStep S doc f t Slice.empty = .ok (some st)) :
    ∃ doc', S.apply st doc = .ok doc' :=
  PM.C11.delete_applies S (family_det _ hS) (family_fillersOK _ hS) (family_leafOk _ hS) (family_closable _ hS)
    (family_textStableC _ hS) (family_textAbsorb _ hS) (family_joinCompat _ hS) (family_reopenOK _ hS)
    (family_inlineUniform _ hS) doc f t hv hdoc hn hattrs hhc hft hpf hpt st h

/-- `PM.C11.delete_never_raises` with its schema guards discharged for the bundled schema family -/
theorem delete_never_raises (S : Schema) (hS : S ∈ familySchemas) (doc : Node) (f t : Nat)
    (hv : C01.Valid S doc) (hdoc : C01.IsElem doc) (hn : fnorm doc.kids = true)
    (hattrs : S.nodeAttrsOK doc = true) (hhc : highClosedKids doc.kids = true)
    (htop : S.isTextblockO (S.tyOf doc) = false) (hft : f ≤ t) (ht : t ≤ fsize doc.kids)
    (hpf : pairAligned doc f = true) (hpt : pairAligned doc t = true) :
    replaceStep S doc f t Slice.empty = .ok none ∨
    ∃ st doc', replaceStep S doc f t Slice.empty = .ok (some st) ∧ S.apply st doc = .ok doc' ∧ C01.Valid S doc' ∧
    Kept (ftoks doc.kids) (ftoks doc'.kids) f t [] ∧
    textUnits (ftoks doc'.kids) = textUnits ((ftoks doc.kids).take f) ++ textUnits ((ftoks doc.kids).drop t) :=
  PM.C11.delete_never_raises S (family_det _ hS) (family_fillersOK _ hS) (family_leafOk _ hS)
    (family_closable _ hS) (family_textStableC _ hS) (family_textAbsorb _ hS) (family_joinCompat _ hS)
    (family_reopenOK _ hS) (family_inlineUniform _ hS) doc f t hv hdoc hn hattrs hhc htop hft ht hpf hpt

/-- `PM.C11.deleteRange_applies` with its schema guards discharged for the bundled schema family -/
theorem deleteRange_applies (S : Schema) (hS : S ∈ familySchemas) (doc : Node) (f t : Nat)
    (hv : C01.Valid S doc) (hdoc : C01.IsElem doc) (hn : fnorm doc.kids = true)
    (hattrs : S.nodeAttrsOK doc = true) (hhc : highClosedKids doc.kids = true) (hft : f ≤ t)
    (ht : t ≤ fsize doc.kids) (hpf : pairAligned doc f = true) (hpt : pairAligned doc t = true) (st : Step)
    (h : deleteRangeStep S doc f t = .ok (some st)) :
    ∃ doc', S.apply st doc = .ok doc' :=
  PM.C11.deleteRange_applies S (family_det _ hS) (family_fillersOK _ hS) (family_leafOk _ hS)
    (family_closable _ hS) (family_textStableC _ hS) (family_textAbsorb _ hS) (family_joinCompat _ hS)
    (family_reopenOK _ hS) (family_inlineUniform _ hS) doc f t hv hdoc hn hattrs hhc hft ht hpf hpt st h

/-- `PM.C11.deleteRange_never_raises` with its schema guards discharged for the bundled schema family -/
theorem deleteRange_never_raises (S : Schema) (hS : S ∈ familySchemas) (doc : Node) (f t : Nat)
    (hv : C01.Valid S doc) (hdoc : C01.IsElem doc) (hn : fnorm doc.kids = true)
    (hattrs : S.nodeAttrsOK doc = true) (hhc : highClosedKids doc.kids = true)
    (htop : S.isTextblockO (S.tyOf doc) = false) (hft : f ≤ t) (ht : t ≤ fsize doc.kids)
    (hpf : pairAligned doc f = true) (hpt : pairAligned doc t = true) :
    deleteRangeStep S doc f t = .ok none ∨
    ∃ st doc', deleteRangeStep S doc f t = .ok (some st) ∧ S.apply st doc = .ok doc' ∧ C01.Valid S doc' ∧
    Kept (ftoks doc.kids) (ftoks doc'.kids) f t [] ∧
    textUnits (ftoks doc'.kids) = textUnits ((ftoks doc.kids).take f) ++ textUnits ((ftoks doc.kids).drop t) :=
  PM.C11.deleteRange_never_raises S (family_det _ hS) (family_fillersOK _ hS) (family_leafOk _ hS)
    (family_closable _ hS) (family_textStableC _ hS) (family_textAbsorb _ hS) (family_joinCompat _ hS)
    (family_reopenOK _ hS) (family_inlineUniform _ hS) doc f t hv hdoc hn hattrs hhc htop hft ht hpf hpt

/-- `PM.C11.replaceRange_delete_applies` with its schema guards discharged for the bundled schema family -/
theorem replaceRange_delete_applies (S : Schema) (hS : S ∈ familySchemas) (doc : Node) (f t : Nat) (sl : Slice)
    (hsz : (sl.size == 0) = true) (cs : List (Nat × Nat × Slice)) (hv : C01.Valid S doc) (hdoc : C01.IsElem doc)
    (hn : fnorm doc.kids = true) (hattrs : S.nodeAttrsOK doc = true) (hhc : highClosedKids doc.kids = true)
    (hft : f ≤ t) (ht : t ≤ fsize doc.kids) (hpf : pairAligned doc f = true) (hpt : pairAligned doc t = true)
    (h : replaceRangeCalls S doc f t sl = some cs) (c : Nat × Nat × Slice) (hc : c ∈ cs) (st : Step)
    (hst : replaceStep S doc c.1 c.2.1 c.2.2 = .ok (some st)) :
    ∃ doc', S.apply st doc = .ok doc' :=
  PM.C11.replaceRange_delete_applies S (family_det _ hS) (family_fillersOK _ hS) (family_leafOk _ hS)
    (family_closable _ hS) (family_textStableC _ hS) (family_textAbsorb _ hS) (family_joinCompat _ hS)
    (family_reopenOK _ hS) (family_inlineUniform _ hS) doc f t sl hsz cs hv hdoc hn hattrs hhc hft ht hpf hpt h
    c hc st hst

/-- `PM.C11.trivialFit_replace_applies` with its schema guards discharged for the bundled schema family -/
theorem trivialFit_replace_applies (S : Schema) (hS : S ∈ familySchemas) (doc : Node) (f t : Nat) (sl : Slice)
    (hv : C01.Valid S doc) (hdoc : C01.IsElem doc) (hn : fnorm doc.kids = true) (hsn : fnorm sl.content = true)
    (hft : f ≤ t) (hpf : pairAligned doc f = true) (hpt : pairAligned doc t = true)
    (htr : fitsTriviallyO S doc f t sl = some true) :
    ∃ doc', S.apply (.replace f t sl false) doc = .ok doc' :=
  PM.C11.trivialFit_replace_applies S (family_textStableC _ hS) (family_textAbsorb _ hS) doc f t sl hv hdoc hn
    hsn hft hpf hpt htr

/-- `PM.C11.replace_never_raises_flat` with its schema guards discharged for the bundled schema family -/
theorem replace_never_raises_flat (S : Schema) (hS : S ∈ familySchemas) (doc : Node) (f t : Nat) (sl : Slice)
    (hv : C01.Valid S doc) (hdoc : C01.IsElem doc) (hn : fnorm doc.kids = true) (hsn : fnorm sl.content = true)
    (hft : f ≤ t) (hpf : pairAligned doc f = true) (hpt : pairAligned doc t = true)
    (hne : ¬ (f = t ∧ sl.size = 0)) (htr : fitsTriviallyO S doc f t sl = some true) :
    ∃ doc', replaceStep S doc f t sl = .ok (some (.replace f t sl false)) ∧
    S.apply (.replace f t sl false) doc = .ok doc' :=
  PM.C11.replace_never_raises_flat S (family_textStableC _ hS) (family_textAbsorb _ hS) doc f t sl hv hdoc hn
    hsn hft hpf hpt hne htr

/-- `PM.C11.insertInline_never_raises_flat` with its schema guards discharged for the bundled schema family -/
theorem insertInline_never_raises_flat (S : Schema) (hS : S ∈ familySchemas) (doc : Node) (f t : Nat)
    (sl : Slice) (hsl : sl.inlineLeaves S = true) (hslv : sl.closedValid S = true)
    (hsn : fnorm sl.content = true) (hv : C01.Valid S doc) (hdoc : C01.IsElem doc) (hn : fnorm doc.kids = true)
    (hattrs : S.nodeAttrsOK doc = true) (hft : f ≤ t) (hpf : pairAligned doc f = true)
    (hpt : pairAligned doc t = true) (hne : ¬ (f = t ∧ sl.size = 0))
    (htr : fitsTriviallyO S doc f t sl = some true) :
    ∃ doc', replaceStep S doc f t sl = .ok (some (.replace f t sl false)) ∧
    S.apply (.replace f t sl false) doc = .ok doc' ∧ C01.Valid S doc' ∧
    Kept (ftoks doc.kids) (ftoks doc'.kids) f t (textUnits (sliceToks' sl)) :=
  PM.C11.insertInline_never_raises_flat S (family_det _ hS) (family_fillersOK _ hS) (family_wrapOK _ hS)
    (family_labelsOK _ hS) (family_leafOk _ hS) (family_textStableC _ hS) (family_closable _ hS)
    (family_textAbsorb _ hS) doc f t sl hsl hslv hsn hv hdoc hn hattrs hft hpf hpt hne htr

/-- `PM.C11.replace_applies_direct` with its schema guards discharged for the bundled schema family -/
theorem replace_applies_direct (S : Schema) (hS : S ∈ familySchemas) (doc : Node) (f t : Nat) (sl : Slice)
    (hv : C01.Valid S doc) (hdoc : C01.IsElem doc) (hn : fnorm doc.kids = true)
    (hattrs : S.nodeAttrsOK doc = true) (hhc : highClosedKids doc.kids = true) (hft : f ≤ t)
    (hpf : pairAligned doc f = true) (hpt : pairAligned doc t = true) (hdir : directFitB S doc f sl = true)
    (hslv : sl.closedValid S = true) (hsn : fnorm sl.content = true) (hshc : highClosedKids sl.content = true)
    (st : Step) (h : replaceStep S doc f t sl = .ok (some st)) :
    ∃ doc', S.apply st doc = .ok doc' :=
  PM.C11.replace_applies_direct S (family_det _ hS) (family_fillersOK _ hS) (family_leafOk _ hS)
    (family_closable _ hS) (family_textStableC _ hS) (family_textAbsorb _ hS) (family_joinCompat _ hS)
    (family_reopenOK _ hS) (family_inlineUniform _ hS) doc f t sl hv hdoc hn hattrs hhc hft hpf hpt hdir hslv
    hsn hshc st h

/-- `PM.C11.insertInline_never_raises_direct_partial` with its schema guards discharged for the bundled schema family -/
theorem insertInline_never_raises_direct_partial (S : Schema) (hS : S ∈ familySchemas) (doc : Node) (f t : Nat)
    (sl : Slice) (hsl : sl.inlineLeaves S = true) (hslv : sl.closedValid S = true)
    (hsn : fnorm sl.content = true) (hshc : highClosedKids sl.content = true) (hv : C01.Valid S doc)
    (hdoc : C01.IsElem doc) (hn : fnorm doc.kids = true) (hattrs : S.nodeAttrsOK doc = true)
    (hhc : highClosedKids doc.kids = true) (htop : S.isTextblockO (S.tyOf doc) = false) (hft : f ≤ t)
    (ht : t ≤ fsize doc.kids) (hpf : pairAligned doc f = true) (hpt : pairAligned doc t = true)
    (hdir : directFitB S doc f sl = true) :
    replaceStep S doc f t sl = .ok none ∨
    ∃ st doc', replaceStep S doc f t sl = .ok (some st) ∧ S.apply st doc = .ok doc' ∧ C01.Valid S doc' ∧
    Kept (ftoks doc.kids) (ftoks doc'.kids) f t (textUnits (sliceToks' sl)) :=
  PM.C11.insertInline_never_raises_direct_partial S (family_det _ hS) (family_fillersOK _ hS)
    (family_wrapOK _ hS) (family_labelsOK _ hS) (family_leafOk _ hS) (family_textStableC _ hS)
    (family_closable _ hS) (family_textAbsorb _ hS) (family_joinCompat _ hS) (family_reopenOK _ hS)
    (family_inlineUniform _ hS) doc f t sl hsl hslv hsn hshc hv hdoc hn hattrs hhc htop hft ht hpf hpt hdir

end PM.Family.C11
