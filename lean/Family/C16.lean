/-
  Family/C16.lean — the guarded theorems of Props/C16.lean for the bundled schema family: every schema-level
  hypothesis is discharged by the kernel-checked facts of lean/Gen/SchemaFacts.lean (regenerated on every run from the
  schemas the library compiles); what remains are the hypotheses about the document / step / DOM at hand.
  Written by tools/gen_family_corollaries.py from the statements in Props/C16.lean.
-/
import Props.C16
import Props.Family
import Gen.Guards.CompatTrans
import Gen.Guards.TextLoop
namespace PM.Family.C16
open PM
open PM.C16
open PM.Gen PM.Family PM.FromDom

/-- `PM.C16.merge_succeeds_marks` with its schema guards discharged for the bundled schema family -/
theorem merge_succeeds_marks (S : Schema) (hS : S ∈ familySchemas) (s1 s2 m : Step) (d d1 d2 : Node)
    (hmark : (∃ f t mk, s1 = .addMark f t mk) ∨ (∃ f t mk, s1 = .removeMark f t mk)) (hv : S.checkNode d = true)
    (hn : fnorm d.kids = true) (h1 : S.apply s1 d = .ok d1) (h2 : S.apply s2 d1 = .ok d2)
    (hm : s1.merge s2 = some m) :
    ∃ d', S.apply m d = .ok d' :=
  PM.C16.merge_succeeds_marks S (textLoop_of_B _ (family_textLoop _ hS)) s1 s2 m d d1 d2 hmark hv hn h1 h2 hm

/-- `PM.C16.merge_equiv_marks` with its schema guards discharged for the bundled schema family -/
theorem merge_equiv_marks (S : Schema) (hS : S ∈ familySchemas) (s1 s2 m : Step) (d d1 d2 : Node)
    (hmark : (∃ f t mk, s1 = .addMark f t mk) ∨ (∃ f t mk, s1 = .removeMark f t mk)) (hv : S.checkNode d = true)
    (hn : fnorm d.kids = true) (h1 : S.apply s1 d = .ok d1) (h2 : S.apply s2 d1 = .ok d2)
    (hm : s1.merge s2 = some m) :
    S.apply m d = .ok d2 :=
  PM.C16.merge_equiv_marks S (textLoop_of_B _ (family_textLoop _ hS)) s1 s2 m d d1 d2 hmark hv hn h1 h2 hm

/-- `PM.C16.merge_succeeds_replace` with its schema guards discharged for the bundled schema family -/
theorem merge_succeeds_replace (S : Schema) (hS : S ∈ familySchemas) (d d1 d2 : Node) (f t f' t' : Nat)
    (sl sl' : Slice) (m : Step) (hv : S.checkNode d = true) (hn : fnorm d.kids = true)
    (hsn : fnorm sl.content = true) (hsn' : fnorm sl'.content = true)
    (hp : openValid S sl.openStart sl.openEnd sl.content = true)
    (hp' : openValid S sl'.openStart sl'.openEnd sl'.content = true)
    (h1 : S.apply (.replace f t sl false) d = .ok d1) (h2 : S.apply (.replace f' t' sl' false) d1 = .ok d2)
    (hm : (Step.replace f t sl false).merge (.replace f' t' sl' false) = some m)
    (ha1 : alignedAt d1.kids f = true ∧ alignedAt d1.kids (f + sl.size.toNat) = true)
    (ha2 : alignedAt d2.kids f' = true ∧ alignedAt d2.kids (f' + sl'.size.toNat) = true) :
    S.apply m d = .ok d2 :=
  PM.C16.merge_succeeds_replace S (family_compatTrans _ hS) d d1 d2 f t f' t' sl sl' m hv hn hsn hsn' hp hp' h1
    h2 hm ha1 ha2

end PM.Family.C16
