/-
  Family/C12.lean — the guarded theorems of Props/C12.lean for the bundled schema family: every schema-level
  hypothesis is discharged by the kernel-checked facts of lean/Gen/SchemaFacts.lean (regenerated on every run from the
  schemas the library compiles); what remains are the hypotheses about the document / step / DOM at hand.
  Written by tools/gen_family_corollaries.py from the statements in Props/C12.lean.
-/
import Props.C12
import Props.Family
import Gen.Guards.TextLoop
namespace PM.Family.C12
open PM
open PM.C12
open PM.Gen PM.Family PM.FromDom

/-- `PM.C12.canJoin_join_applies` with its schema guards discharged for the bundled schema family -/
theorem canJoin_join_applies (S : Schema) (hS : S ∈ familySchemas) (doc : Node) (pos : Nat) (st : Step)
    (hv : C01.Valid S doc) (hn : fnorm doc.kids = true) (hg : joinGuard S doc pos = true)
    (hc : canJoin S doc pos = some (some true)) (hb : joinStep pos 1 = .ok st) :
    ∃ doc', S.apply st doc = .ok doc' ∧ C01.Valid S doc' ∧
    (ftoks doc'.kids).filter Tok.isContent = (ftoks doc.kids).filter Tok.isContent :=
  PM.C12.canJoin_join_applies S (textLoop_of_B _ (family_textLoop _ hS)).stable doc pos st hv hn hg hc hb

/-- `PM.C12.liftTarget_lift_applies_flat` with its schema guards discharged for the bundled schema family -/
theorem liftTarget_lift_applies_flat (S : Schema) (hS : S ∈ familySchemas) (doc : Node) (a b depth target : Nat)
    (f t : RPos) (st : Step) (hv : C01.Valid S doc) (hn : fnorm doc.kids = true) (hf : doc.resolve a = some f)
    (ht : doc.resolve b = some t) (hab : a ≤ b) (hend : b ≤ f.end_ depth)
    (hfb : depth < f.depth ∨ f.textOffset = 0) (htb : depth < t.depth ∨ t.textOffset = 0)
    (hg : liftFlatGuard doc a b depth target = true) (hc : liftTarget S doc a b depth = some (some target))
    (hb : liftStep doc a b depth target = .ok st) :
    ∃ doc', S.apply st doc = .ok doc' ∧ C01.Valid S doc' ∧
    (ftoks doc'.kids).filter Tok.isContent = (ftoks doc.kids).filter Tok.isContent :=
  PM.C12.liftTarget_lift_applies_flat S (textLoop_of_B _ (family_textLoop _ hS)).stable doc a b depth target f t
    st hv hn hf ht hab hend hfb htb hg hc hb

/-- `PM.C12.liftTarget_lift_applies` with its schema guards discharged for the bundled schema family -/
theorem liftTarget_lift_applies (S : Schema) (hS : S ∈ familySchemas) (doc : Node) (a b depth target : Nat)
    (f t : RPos) (st : Step) (hv : C01.Valid S doc) (hn : fnorm doc.kids = true) (hf : doc.resolve a = some f)
    (ht : doc.resolve b = some t) (hab : a ≤ b) (hend : b ≤ f.end_ depth)
    (hfb : depth < f.depth ∨ f.textOffset = 0) (htb : depth < t.depth ∨ t.textOffset = 0)
    (hg : liftGuard S doc a b depth target = true) (hc : liftTarget S doc a b depth = some (some target))
    (hb : liftStep doc a b depth target = .ok st) :
    ∃ doc', S.apply st doc = .ok doc' ∧ C01.Valid S doc' ∧
    (ftoks doc'.kids).filter Tok.isContent = (ftoks doc.kids).filter Tok.isContent :=
  PM.C12.liftTarget_lift_applies S (textLoop_of_B _ (family_textLoop _ hS)).stable doc a b depth target f t st
    hv hn hf ht hab hend hfb htb hg hc hb

end PM.Family.C12
