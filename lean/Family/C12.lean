/-
  Family/C12.lean — the guarded theorems of Props/C12.lean for the bundled schema family: every schema-level
  hypothesis is discharged by the kernel-checked facts of lean/Gen/SchemaFacts.lean (regenerated on every run from the
  schemas the library compiles); what remains are the hypotheses about the document / step / DOM at hand.
  Written by tools/gen_family_corollaries.py from the statements in Props/C12.lean.
-/
import Props.C12
import Props.Family
import Gen.Guards.TextLoop
namespace PM.Family.C12
open PM
open PM.C12
open PM.Gen PM.Family PM.FromDom

/-- `PM.C12.canJoin_join_applies` with its schema guards discharged for the bundled schema family -/
theorem canJoin_join_applies (S : Schema) (hS : S ∈ familySchemas) (doc : Node) (pos : Nat) (st : Step)
    (hv : C01.Valid S doc) (hn : fnorm doc.kids = true) (hg : joinGuard S doc pos = true)
    (hc : canJoin S doc pos = some (some true)) (hb : joinStep pos 1 = .ok st) :
    ∃ doc', S.apply st doc = .ok doc' ∧ C01.Valid S doc' ∧
    (ftoks doc'.kids).filter Tok.isContent = (ftoks doc.kids).filter Tok.isContent :=
  PM.C12.canJoin_join_applies S (textLoop_of_B _ (family_textLoop _ hS)).stable doc pos st hv hn hg hc hb

/-- `PM.C12.liftTarget_lift_applies_flat` with its schema guards discharged for the bundled schema family -/
theorem liftTarget_lift_applies_flat (S : Schema) (hS : S ∈ familySchemas) (doc : Node) (a b depth target : Nat)
    (f t : RPos) (st : Step) (hv : C01.Valid S doc) (hn : fnorm doc.kids = true) (hf : doc.resolve a = some f)
    (ht : doc.resolve b = some t) (hab : a ≤ b) (hend : b ≤ f.end_ depth)
    (hfb : depth < f.depth ∨ f.textOffset = 0) (htb : depth < t.depth ∨ t.textOffset = 0)
    (hg : liftFlatGuard doc a b depth target = true) (hc : liftTarget S doc a b depth = some (some target))
    (hb : liftStep doc a b depth target = .ok st) :
    ∃ doc', S.apply st doc = .ok doc' ∧ C01.Valid S doc' ∧
    (ftoks doc'.kids).filter Tok.isContent = (ftoks doc.kids).filter Tok.isContent :=
  PM.C12.liftTarget_lift_applies_flat S (textLoop_of_B _ (family_textLoop _ hS)).stable doc a b depth target f t
    st hv hn hf ht hab hend hfb htb hg hc hb

/-- `PM.C12.liftTarget_lift_applies` with its schema guards discharged for the bundled schema family -/
theorem liftTarget_lift_applies (S : Schema) (hS : S ∈ familySchemas) (doc : Node) (a b depth target : Nat)
    (f t : RPos) (st : Step) (hv : C01.Valid S doc) (hn : fnorm doc.kids = true) (hf : doc.resolve a = some f)
    (ht : doc.resolve b = some t) (hab : a ≤ b) (hend : b ≤ f.end_ depth)
    (hfb : depth < f.depth ∨ f.textOffset = 0) (htb : depth < t.depth ∨ t.textOffset = 0)
    (hg : liftGuard S doc a b depth target = true) (hc : liftTarget S doc a b depth = some (some target))
    (hb : liftStep doc a b depth target = .ok st) :
    ∃ doc', S.apply st doc = .ok doc' ∧ C01.Valid S doc' ∧
    (ftoks doc'.kids).filter Tok.isContent = (ftoks doc.kids).filter Tok.isContent :=
  PM.C12.liftTarget_lift_applies S (textLoop_of_B _ (family_textLoop _ hS)).stable doc a b depth target f t st
    hv hn hf ht hab hend hfb htb hg hc hb

/-- `PM.C12.insertPoint_insert_applies` with its schema guards discharged for the bundled schema family -/
theorem insertPoint_insert_applies (S : Schema) (hS : S ∈ familySchemas) (doc : Node) (pos : Nat) (ty : TypeId)
    (p : Nat) (n : Node) (hdoc : C01.IsElem doc) (hv : C01.Valid S doc) (hn : fnorm doc.kids = true)
    (hvn : S.checkNode n = true) (hnn : n.norm = true) (hty : S.tyOf n = ty) (hg : insertGuard S doc p n = true)
    (hc : insertPoint S doc pos ty = some (some p)) :
    replaceStep S doc p p ⟨[n], 0, 0⟩ = .ok (some (.replace p p ⟨[n], 0, 0⟩ false)) ∧
    ∃ doc', S.apply (.replace p p ⟨[n], 0, 0⟩ false) doc = .ok doc' ∧ C01.Valid S doc' :=
  PM.C12.insertPoint_insert_applies S (textLoop_of_B _ (family_textLoop _ hS)).stable doc pos ty p n hdoc hv hn
    hvn hnn hty hg hc

/-- `PM.C12.dropPoint_drop_applies_closed` with its schema guards discharged for the bundled schema family -/
theorem dropPoint_drop_applies_closed (S : Schema) (hS : S ∈ familySchemas) (doc : Node) (pos : Nat)
    (C : List Node) (p : Nat) (hdoc : C01.IsElem doc) (hv : C01.Valid S doc) (hn : fnorm doc.kids = true)
    (hvC : S.checkKids C = true) (hnC : fnorm C = true) (hsz : fsize C ≠ 0) (hg : dropGuard S doc p C = true)
    (hc : dropPointPass1 S doc pos ⟨C, 0, 0⟩ = some (some p)) :
    dropPoint S doc pos ⟨C, 0, 0⟩ = some (some p) ∧
    replaceStep S doc p p ⟨C, 0, 0⟩ = .ok (some (.replace p p ⟨C, 0, 0⟩ false)) ∧
    ∃ doc', S.apply (.replace p p ⟨C, 0, 0⟩ false) doc = .ok doc' ∧ C01.Valid S doc' :=
  PM.C12.dropPoint_drop_applies_closed S (textLoop_of_B _ (family_textLoop _ hS)).stable doc pos C p hdoc hv hn
    hvC hnC hsz hg hc

/-- `PM.C12.joinPoint_join_applies` with its schema guards discharged for the bundled schema family -/
theorem joinPoint_join_applies (S : Schema) (hS : S ∈ familySchemas) (doc : Node) (pos : Nat) (dir : Int)
    (p : Nat) (st : Step) (hdoc : C01.IsElem doc) (hv : C01.Valid S doc) (hn : fnorm doc.kids = true)
    (hdir : dir ≠ 0) (hg : joinGuard S doc p = true) (hc : joinPoint S doc pos dir = some (some p))
    (hb : joinStep p 1 = .ok st) :
    ∃ doc', S.apply st doc = .ok doc' ∧ C01.Valid S doc' ∧
    (ftoks doc'.kids).filter Tok.isContent = (ftoks doc.kids).filter Tok.isContent :=
  PM.C12.joinPoint_join_applies S (textLoop_of_B _ (family_textLoop _ hS)).stable doc pos dir p st hdoc hv hn
    hdir hg hc hb

/-- `PM.C12.insertPoint_insert_text_applies` with its schema guards discharged for the bundled schema family -/
theorem insertPoint_insert_text_applies (S : Schema) (hS : S ∈ familySchemas) (doc : Node) (pos : Nat) (p : Nat)
    (n : Node) (hdoc : C01.IsElem doc) (hv : C01.Valid S doc) (hn : fnorm doc.kids = true)
    (hvn : S.checkNode n = true) (hnn : n.norm = true) (htext : S.tyOf n = S.textTy)
    (hal : pairAligned doc p = true) (hm : marksAllowedAt S doc p n = true)
    (hc : insertPoint S doc pos S.textTy = some (some p)) :
    replaceStep S doc p p ⟨[n], 0, 0⟩ = .ok (some (.replace p p ⟨[n], 0, 0⟩ false)) ∧
    ∃ doc', S.apply (.replace p p ⟨[n], 0, 0⟩ false) doc = .ok doc' ∧ C01.Valid S doc' :=
  PM.C12.insertPoint_insert_text_applies S (textLoop_of_B _ (family_textLoop _ hS)).stable doc pos p n hdoc hv
    hn hvn hnn htext hal hm hc

/-- `PM.C12.insertPoint_insert_marked_top` with its schema guards discharged for the bundled schema family -/
theorem insertPoint_insert_marked_top (S : Schema) (hS : S ∈ familySchemas) (doc : Node) (pos : Nat)
    (ty : TypeId) (p : Nat) (n : Node) (hdoc : C01.IsElem doc) (hv : C01.Valid S doc)
    (hn : fnorm doc.kids = true) (hvn : S.checkNode (strippedAt S doc p n) = true) (hnn : n.norm = true)
    (hty : S.tyOf n = ty) (htop : topBoundary S doc p = true) (hm : marksAllowedAt S doc p n = false)
    (hc : insertPoint S doc pos ty = some (some p)) :
    replaceStep S doc p p ⟨[n], 0, 0⟩ = .ok (some (.replace p p ⟨[strippedAt S doc p n], 0, 0⟩ false)) ∧
    ∃ doc', S.apply (.replace p p ⟨[strippedAt S doc p n], 0, 0⟩ false) doc = .ok doc' ∧ C01.Valid S doc' :=
  PM.C12.insertPoint_insert_marked_top S (textLoop_of_B _ (family_textLoop _ hS)).stable doc pos ty p n hdoc hv
    hn hvn hnn hty htop hm hc

end PM.Family.C12
