/-
  Family/C14.lean — the guarded theorems of Props/C14.lean for the bundled schema family: every schema-level
  hypothesis is discharged by the kernel-checked facts of lean/Gen/SchemaFacts.lean (regenerated on every run from the
  schemas the library compiles); what remains are the hypotheses about the document / step / DOM at hand.
  Written by tools/gen_family_corollaries.py from the statements in Props/C14.lean.
-/
import Props.C14
import Props.Family
import Gen.SchemaBuilds
namespace PM.Family.C14
open PM
open PM.SchemaCompile
open PM.SchemaBuild
open PM.C14
open PM.Gen PM.Family PM.FromDom

/-- `PM.C14.excluded_lt` with its schema guards discharged for the bundled schema family -/
theorem excluded_lt {spec : Spec} {S : Schema} (hS : (spec, S) ∈ familySpecs) (a b : Nat)
    (ha : a < spec.marks.length) (hex : S.excludes a b = true) :
    b < spec.marks.length :=
  PM.C14.excluded_lt (family_compiles (spec, S) hS) a b ha hex

/-- `PM.C14.excluded_spec` with its schema guards discharged for the bundled schema family -/
theorem excluded_spec {spec : Spec} {S : Schema} (hS : (spec, S) ∈ familySpecs)
    (hnd : (spec.marks.map (·.name)).Nodup) (a b : Nat) (ha : a < spec.marks.length)
    (hb : b < spec.marks.length) :
    S.excludes a b = true ↔
    match spec.marks[a].excludes with
    | none => a = b
    | some e => e ≠ "" ∧ ∃ w ∈ pySplit e, Names spec.marks w spec.marks[b] :=
  PM.C14.excluded_spec (family_compiles (spec, S) hS) hnd a b ha hb

/-- `PM.C14.excluded_cases` with its schema guards discharged for the bundled schema family -/
theorem excluded_cases {spec : Spec} {S : Schema} (hS : (spec, S) ∈ familySpecs)
    (hnd : (spec.marks.map (·.name)).Nodup) (hs : Separated spec.marks) (a b : Nat) (ha : a < spec.marks.length)
    (hb : b < spec.marks.length) :
    (spec.marks[a].excludes = none → (S.excludes a b = true ↔ a = b)) ∧
    (spec.marks[a].excludes = some "_" → S.excludes a b = true) ∧
    (spec.marks[a].excludes = some "" → S.excludes a b = false) ∧
    (∀ e, spec.marks[a].excludes = some e → e ≠ "" →
    (S.excludes a b = true ↔ ∃ w ∈ pySplit e,
    spec.marks[b].name = w ∨ w = "_" ∨ w ∈ spec.marks[b].groups)) :=
  PM.C14.excluded_cases (family_compiles (spec, S) hS) hnd hs a b ha hb

/-- `PM.C14.markSet_spec` with its schema guards discharged for the bundled schema family -/
theorem markSet_spec {spec : Spec} {S : Schema} (hS : (spec, S) ∈ familySpecs)
    (hnd : (spec.marks.map (·.name)).Nodup) (n m : Nat) (hn : n < spec.nodes.length)
    (hm : m < spec.marks.length) :
    (S.nodeType n).allowsMarkType m = true ↔
    match spec.nodes[n].marks with
    | none => (S.nodeType n).inlineContent = true
    | some e => e = "_" ∨ (e ≠ "" ∧ ∃ w ∈ pySplit e, Names spec.marks w spec.marks[m]) :=
  PM.C14.markSet_spec (family_compiles (spec, S) hS) hnd n m hn hm

/-- `PM.C14.markSet_lt` with its schema guards discharged for the bundled schema family -/
theorem markSet_lt {spec : Spec} {S : Schema} (hS : (spec, S) ∈ familySpecs) (n : Nat)
    (hn : n < spec.nodes.length) (l : List MarkTypeId) (hl : (S.nodeType n).markSet = some l) (m : Nat)
    (hm : m ∈ l) :
    m < spec.marks.length :=
  PM.C14.markSet_lt (family_compiles (spec, S) hS) n hn l hl m hm

/-- `PM.C14.markType_fields` with its schema guards discharged for the bundled schema family -/
theorem markType_fields {spec : Spec} {S : Schema} (hS : (spec, S) ∈ familySpecs) (i : Nat)
    (hi : i < spec.marks.length) :
    (S.markType i).inclusive = spec.marks[i].inclusive ∧
    (S.markType i).attrs = initAttrs spec.marks[i].attrs ∧
    (hasRequiredAttrs (S.markType i).attrs = true ↔ ∃ a ∈ spec.marks[i].attrs, a.default = none) :=
  PM.C14.markType_fields (family_compiles (spec, S) hS) i hi

/-- `PM.C14.buildSchema_excluded` with its schema guards discharged for the bundled schema family -/
theorem buildSchema_excluded {spec : Spec} {S : Schema} (hS : (spec, S) ∈ familySpecs)
    (hnd : (spec.marks.map (·.name)).Nodup) (a b : Nat) (ha : a < spec.marks.length)
    (hb : b < spec.marks.length) :
    S.excludes a b = true ↔
    match spec.marks[a].excludes with
    | none => a = b
    | some e => e ≠ "" ∧ ∃ w ∈ pySplit e, Names spec.marks w spec.marks[b] :=
  PM.C14.buildSchema_excluded (family_builds (spec, S) hS) hnd a b ha hb

/-- `PM.C14.buildSchema_markSet` with its schema guards discharged for the bundled schema family -/
theorem buildSchema_markSet {spec : Spec} {S : Schema} (hS : (spec, S) ∈ familySpecs)
    (hnd : (spec.marks.map (·.name)).Nodup) (n m : Nat) (hn : n < spec.nodes.length)
    (hm : m < spec.marks.length) :
    (S.nodeType n).allowsMarkType m = true ↔
    match spec.nodes[n].marks with
    | none => (S.nodeType n).inlineContent = true
    | some e => e = "_" ∨ (e ≠ "" ∧ ∃ w ∈ pySplit e, Names spec.marks w spec.marks[m]) :=
  PM.C14.buildSchema_markSet (family_builds (spec, S) hS) hnd n m hn hm

end PM.Family.C14
