/-
  Family/C04.lean — the guarded theorems of Props/C04.lean for the bundled schema family: every schema-level
  hypothesis is discharged by the kernel-checked facts of lean/Gen/SchemaFacts.lean (regenerated on every run from the
  schemas the library compiles); what remains are the hypotheses about the document / step / DOM at hand.
  Written by tools/gen_family_corollaries.py from the statements in Props/C04.lean.
-/
import Props.C04
import Props.Family
import Gen.Guards.Closable
import Gen.Guards.CompatTrans
import Gen.Guards.Det
import Gen.Guards.FillersOK
import Gen.Guards.LabelsOK
import Gen.Guards.LeafOk
import Gen.Guards.TextLoop
import Gen.Guards.TextStableC
import Gen.Guards.WrapOK
namespace PM.Family.C04
open PM
open PM.C04
open PM.Gen PM.Family PM.FromDom

/-- `PM.C04.replace_undo_transitive` with its schema guards discharged for the bundled schema family -/
theorem replace_undo_transitive (S : Schema) (hS : S ∈ familySchemas) (doc doc' : Node) (f t : Nat) (sl : Slice)
    (b : Bool) (inv : Step) (hd : S.checkNode doc = true) (hn : fnorm doc.kids = true)
    (hsn : fnorm sl.content = true) (h1 : S.apply (.replace f t sl b) doc = .ok doc')
    (hi : S.invert (.replace f t sl b) doc = .ok inv)
    (ha : alignedAt doc'.kids f = true ∧ alignedAt doc'.kids (f + sl.size.toNat) = true) :
    S.apply inv doc' = .ok doc :=
  PM.C04.replace_undo_transitive S doc doc' f t sl b inv (family_compatTrans _ hS) hd hn hsn h1 hi ha

/-- `PM.C04.replaceAround_undo_bmp` with its schema guards discharged for the bundled schema family -/
theorem replaceAround_undo_bmp (S : Schema) (hS : S ∈ familySchemas) (d d' : Node) (f t gf gt : Nat)
    (sl : Slice) (ins : Nat) (b : Bool) (hv : S.checkNode d = true) (hn : fnorm d.kids = true)
    (hsn : fnorm sl.content = true) (hwf : sl.wf = true) (hgo : f ≤ gf ∧ gf ≤ gt ∧ gt ≤ t)
    (h : S.apply (.replaceAround f t gf gt sl ins b) d = .ok d')
    (hst : b = true → contentBetween d' f (f + ins) = some false ∧
      contentBetween d' (f + ins + (gt - gf)) (f + sl.size.toNat + (gt - gf)) = some false)
    (hb : bmpDoc d = true) (hb' : bmpDoc d' = true) :
    ∃ inv, S.invert (.replaceAround f t gf gt sl ins b) d = .ok inv ∧ S.apply inv d' = .ok d :=
  PM.C04.replaceAround_undo_bmp S (family_compatTrans _ hS) d d' f t gf gt sl ins b hv hn hsn hwf hgo h hst hb
    hb'

/-- `PM.C04.removeMarkStep_undo` with its schema guards discharged for the bundled schema family -/
theorem removeMarkStep_undo (S : Schema) (hS : S ∈ familySchemas) (doc doc' : Node) (f t : Nat) (m : Mark)
    (hd : S.checkNode doc = true) (hn : fnorm doc.kids = true) (h1 : S.apply (.removeMark f t m) doc = .ok doc')
    (hg : removeMarkUndoable S doc f t m = true)
    (ha : alignedAt doc'.kids f = true ∧ alignedAt doc'.kids t = true) :
    S.invert (.removeMark f t m) doc = .ok (.addMark f t m) ∧ S.apply (.addMark f t m) doc' = .ok doc :=
  PM.C04.removeMarkStep_undo S (textLoop_of_B _ (family_textLoop _ hS)) doc doc' f t m hd hn h1 hg ha

/-- `PM.C04.addMarkStep_undo` with its schema guards discharged for the bundled schema family -/
theorem addMarkStep_undo (S : Schema) (hS : S ∈ familySchemas) (doc doc' : Node) (f t : Nat) (m : Mark)
    (hd : S.checkNode doc = true) (hn : fnorm doc.kids = true) (h1 : S.apply (.addMark f t m) doc = .ok doc')
    (hg : addMarkUndoable S doc f t m = true) (ha : alignedAt doc'.kids f = true ∧ alignedAt doc'.kids t = true) :
    S.invert (.addMark f t m) doc = .ok (.removeMark f t m) ∧ S.apply (.removeMark f t m) doc' = .ok doc :=
  PM.C04.addMarkStep_undo S (textLoop_of_B _ (family_textLoop _ hS)) doc doc' f t m hd hn h1 hg ha

/-- `PM.C04.markHistory_undo` with its schema guards discharged for the bundled schema family -/
theorem markHistory_undo (S : Schema) (hS : S ∈ familySchemas) (doc : Node) (ops : List MarkOp) (tr' : Tr)
    (hd : S.checkNode doc = true) (hn : fnorm doc.kids = true) (hflat : flatInline S doc = true)
    (h : (Tr.init doc).markOps S ops = .ok tr')
    (hty : HistAll (fun s d _ => s.sameTypeGuard S d) tr'.hist tr'.doc)
    (hal : HistAll (fun s _ d' => s.undoAligned d') tr'.hist tr'.doc) :
    tr'.undo S = .ok doc :=
  PM.C04.markHistory_undo S (textLoop_of_B _ (family_textLoop _ hS)) doc ops tr' hd hn hflat h hty hal

/-- `PM.C04.markHistory_undo_bmp` with its schema guards discharged for the bundled schema family -/
theorem markHistory_undo_bmp (S : Schema) (hS : S ∈ familySchemas) (doc : Node) (ops : List MarkOp) (tr' : Tr)
    (hd : S.checkNode doc = true) (hn : fnorm doc.kids = true) (hflat : flatInline S doc = true)
    (hb : bmpDoc doc = true) (h : (Tr.init doc).markOps S ops = .ok tr')
    (hty : HistAll (fun s d _ => s.sameTypeGuard S d) tr'.hist tr'.doc) :
    tr'.undo S = .ok doc :=
  PM.C04.markHistory_undo_bmp S (textLoop_of_B _ (family_textLoop _ hS)) doc ops tr' hd hn hflat hb h hty

/-- `PM.C04.family_step` with its schema guards discharged for the bundled schema family -/
theorem family_step (S : Schema) (hS : S ∈ familySchemas) (s : Step) (d d' : Node) (hI : FamilyInv S d)
    (h : S.apply s d = .ok d') (hg : FamilyGuard S s d d') :
    StepUndoes S s d d' ∧ FamilyInv S d' :=
  PM.C04.family_step S (family_compatTrans _ hS) (textLoop_of_B _ (family_textLoop _ hS)) s d d' hI h hg

/-- `PM.C04.family_history_undo` with its schema guards discharged for the bundled schema family -/
theorem family_history_undo (S : Schema) (hS : S ∈ familySchemas) (doc : Node) (steps : List Step)
    (docs : List Node) (fin : Node) (hd : S.checkNode doc = true) (hn : fnorm doc.kids = true)
    (hrep : replay S doc steps = some (docs, fin)) (hg : HistAll (FamilyGuard S) (steps.zip docs) fin) :
    S.unwind (steps.zip docs) fin = .ok doc ∧ FamilyInv S fin :=
  PM.C04.family_history_undo S (family_compatTrans _ hS) (textLoop_of_B _ (family_textLoop _ hS)) doc steps docs
    fin hd hn hrep hg

/-- `PM.C04.family_history_undo_run` with its schema guards discharged for the bundled schema family -/
theorem family_history_undo_run (S : Schema) (hS : S ∈ familySchemas) (doc : Node) (sts : List Step)
    (hd : S.checkNode doc = true) (hn : fnorm doc.kids = true) :
    let tr := (Tr.init doc).run S sts
    HistAll (FamilyGuard S) tr.hist tr.doc → tr.undo S = .ok doc :=
  PM.C04.family_history_undo_run S (family_compatTrans _ hS) (textLoop_of_B _ (family_textLoop _ hS)) doc sts hd
    hn

/-- `PM.C04.opHistory_undo` with its schema guards discharged for the bundled schema family -/
theorem opHistory_undo (S : Schema) (hS : S ∈ familySchemas) (doc : Node) (ops : List Op) (tr' : Tr)
    (hd : S.checkNode doc = true) (hn : fnorm doc.kids = true) (h : (Tr.init doc).runOps S ops = some tr')
    (hres : OpsAll S (OpResidual S) (Tr.init doc) ops) :
    tr'.undo S = .ok doc ∧ FamilyInv S tr'.doc :=
  PM.C04.opHistory_undo S (family_compatTrans _ hS) (textLoop_of_B _ (family_textLoop _ hS)) doc ops tr' hd hn h
    hres

/-- `PM.C04.structHistory_undo_bmp` with its schema guards discharged for the bundled schema family -/
theorem structHistory_undo_bmp (S : Schema) (hS : S ∈ familySchemas) (doc : Node) (ops : List Op) (tr' : Tr)
    (hd : S.checkNode doc = true) (hn : fnorm doc.kids = true) (hb : bmpDoc doc = true)
    (hall : ∀ op ∈ ops, structuralOp op = true) (h : (Tr.init doc).runOps S ops = some tr')
    (hres : OpsAll S (StructResidual S) (Tr.init doc) ops) :
    tr'.undo S = .ok doc ∧ FamilyInv S tr'.doc :=
  PM.C04.structHistory_undo_bmp S (family_compatTrans _ hS) (textLoop_of_B _ (family_textLoop _ hS)) doc ops tr'
    hd hn hb hall h hres

/-- `PM.C04.structHistory_undo_bmp'` with its schema guards discharged for the bundled schema family -/
theorem structHistory_undo_bmp' (S : Schema) (hS : S ∈ familySchemas) (doc : Node) (ops : List Op) (tr' : Tr)
    (hd : S.checkNode doc = true) (hn : fnorm doc.kids = true) (hb : bmpDoc doc = true)
    (hall : ∀ op ∈ ops, structuralOp' op = true) (h : (Tr.init doc).runOps S ops = some tr')
    (hres : OpsAll S (StructResidual' S) (Tr.init doc) ops) :
    tr'.undo S = .ok doc ∧ FamilyInv S tr'.doc :=
  PM.C04.structHistory_undo_bmp' S (family_compatTrans _ hS) (textLoop_of_B _ (family_textLoop _ hS)) doc ops
    tr' hd hn hb hall h hres

/-- `PM.C04.mixedHistory_undo_bmp` with its schema guards discharged for the bundled schema family -/
theorem mixedHistory_undo_bmp (S : Schema) (hS : S ∈ familySchemas) (doc : Node) (ops : List Op) (tr' : Tr)
    (hd : S.checkNode doc = true) (hn : fnorm doc.kids = true) (hb : bmpDoc doc = true)
    (hall : ∀ op ∈ ops, mixedOp op = true) (h : (Tr.init doc).runOps S ops = some tr')
    (hres : OpsAll S (MixedResidual S) (Tr.init doc) ops) :
    tr'.undo S = .ok doc ∧ FamilyInv S tr'.doc :=
  PM.C04.mixedHistory_undo_bmp S (family_compatTrans _ hS) (textLoop_of_B _ (family_textLoop _ hS)) doc ops tr'
    hd hn hb hall h hres

/-- `PM.C04.delete_residual` with its schema guards discharged for the bundled schema family -/
theorem delete_residual (S : Schema) (hS : S ∈ familySchemas) (tr tr1 : Tr)
    (hlen : tr.steps.length = tr.docs.length) (hv : C01.Valid S tr.doc) (hattrs : S.nodeAttrsOK tr.doc = true)
    (f t : Nat) (h : tr.runOp S (.replace f t Slice.empty) = some tr1) (hres : DeleteResidual S tr tr1) :
    OpResidual S (.replace f t Slice.empty) tr tr1 :=
  PM.C04.delete_residual S (family_det _ hS) (family_leafOk _ hS) tr tr1 hlen hv hattrs f t h hres

/-- `PM.C04.delete_residual_around` with its schema guards discharged for the bundled schema family -/
theorem delete_residual_around (S : Schema) (hS : S ∈ familySchemas) (tr tr1 : Tr)
    (hlen : tr.steps.length = tr.docs.length) (hv : C01.Valid S tr.doc) (hattrs : S.nodeAttrsOK tr.doc = true)
    (f t : Nat) (hft : f ≤ t) (h : tr.runOp S (.replace f t Slice.empty) = some tr1)
    (hres : DeleteResidualAround S tr tr1) :
    OpResidual S (.replace f t Slice.empty) tr tr1 :=
  PM.C04.delete_residual_around S (family_det _ hS) (family_fillersOK _ hS) (family_leafOk _ hS) tr tr1 hlen hv
    hattrs f t hft h hres

/-- `PM.C04.insertInline_residual` with its schema guards discharged for the bundled schema family -/
theorem insertInline_residual (S : Schema) (hS : S ∈ familySchemas) (tr tr1 : Tr)
    (hlen : tr.steps.length = tr.docs.length) (hv : C01.Valid S tr.doc) (hattrs : S.nodeAttrsOK tr.doc = true)
    (f t : Nat) (sl : Slice) (hsl : sl.inlineLeaves S = true) (hslv : sl.closedValid S = true)
    (h : tr.runOp S (.replace f t sl) = some tr1) (hres : DeleteResidual S tr tr1) :
    OpResidual S (.replace f t sl) tr tr1 :=
  PM.C04.insertInline_residual S (family_det _ hS) (family_fillersOK _ hS) (family_wrapOK _ hS)
    (family_labelsOK _ hS) (family_leafOk _ hS) (family_textStableC _ hS) (family_closable _ hS) tr tr1 hlen hv
    hattrs f t sl hsl hslv h hres

/-- `PM.C04.insertInline_residual_around` with its schema guards discharged for the bundled schema family -/
theorem insertInline_residual_around (S : Schema) (hS : S ∈ familySchemas) (tr tr1 : Tr)
    (hlen : tr.steps.length = tr.docs.length) (hv : C01.Valid S tr.doc) (hattrs : S.nodeAttrsOK tr.doc = true)
    (f t : Nat) (hft : f ≤ t) (sl : Slice) (hsl : sl.inlineLeaves S = true) (hslv : sl.closedValid S = true)
    (h : tr.runOp S (.replace f t sl) = some tr1) (hres : InsertInlineResidualAround S tr tr1) :
    OpResidual S (.replace f t sl) tr tr1 :=
  PM.C04.insertInline_residual_around S (family_det _ hS) (family_fillersOK _ hS) (family_wrapOK _ hS)
    (family_labelsOK _ hS) (family_leafOk _ hS) (family_textStableC _ hS) (family_closable _ hS) tr tr1 hlen hv
    hattrs f t hft sl hsl hslv h hres

/-- `PM.C04.replace_residual_of_inv` with its schema guards discharged for the bundled schema family -/
theorem replace_residual_of_inv (S : Schema) (hS : S ∈ familySchemas) (tr tr1 : Tr)
    (hlen : tr.steps.length = tr.docs.length) (hattrs : S.nodeAttrsOK tr.doc = true) (f t : Nat) (sl : Slice)
    (hslv : openValid S sl.openStart sl.openEnd sl.content = true)
    (hend : fitEndInv S tr.doc f t sl ≠ some false) (h : tr.runOp S (.replace f t sl) = some tr1)
    (hres : DeleteResidual S tr tr1) :
    OpResidual S (.replace f t sl) tr tr1 :=
  PM.C04.replace_residual_of_inv S (family_det _ hS) (family_fillersOK _ hS) (family_leafOk _ hS)
    (family_textStableC _ hS) (family_closable _ hS) tr tr1 hlen hattrs f t sl hslv hend h hres

/-- `PM.C04.replace_residual` with its schema guards discharged for the bundled schema family -/
theorem replace_residual (S : Schema) (hS : S ∈ familySchemas) (tr tr1 : Tr)
    (hlen : tr.steps.length = tr.docs.length) (hv : C01.Valid S tr.doc) (hattrs : S.nodeAttrsOK tr.doc = true)
    (f t : Nat) (sl : Slice) (hloose : sl.looseValid S = true) (hrun : unplacedWfRun S tr.doc f t sl = true)
    (h : tr.runOp S (.replace f t sl) = some tr1) (hres : DeleteResidual S tr tr1) :
    OpResidual S (.replace f t sl) tr tr1 :=
  PM.C04.replace_residual S (family_det _ hS) (family_fillersOK _ hS) (family_wrapOK _ hS)
    (family_labelsOK _ hS) (family_leafOk _ hS) (family_textStableC _ hS) (family_closable _ hS) tr tr1 hlen hv
    hattrs f t sl hloose hrun h hres

/-- `PM.C04.replace_residual_cut` with its schema guards discharged for the bundled schema family -/
theorem replace_residual_cut (S : Schema) (hS : S ∈ familySchemas) (tr tr1 : Tr)
    (hlen : tr.steps.length = tr.docs.length) (hv : C01.Valid S tr.doc) (hattrs : S.nodeAttrsOK tr.doc = true)
    (f t : Nat) (src : Node) (a b : Nat) (sl : Slice) (hsrc : C01.Valid S src) (hcut : src.slice a b = .ok sl)
    (hrun : unplacedWfRun S tr.doc f t sl = true) (h : tr.runOp S (.replace f t sl) = some tr1)
    (hres : DeleteResidual S tr tr1) :
    OpResidual S (.replace f t sl) tr tr1 :=
  PM.C04.replace_residual_cut S (family_det _ hS) (family_fillersOK _ hS) (family_wrapOK _ hS)
    (family_labelsOK _ hS) (family_leafOk _ hS) (family_textStableC _ hS) (family_closable _ hS) tr tr1 hlen hv
    hattrs f t src a b sl hsrc hcut hrun h hres

/-- `PM.C04.replaceOp_residual` with its schema guards discharged for the bundled schema family -/
theorem replaceOp_residual (S : Schema) (hS : S ∈ familySchemas) (tr tr1 : Tr)
    (hlen : tr.steps.length = tr.docs.length) (hI : FamilyInv S tr.doc) (f t : Nat) (sl : Slice)
    (h : tr.runOp S (.replace f t sl) = some tr1) (hres : EditResidual S (.replace f t sl) tr tr1) :
    OpResidual S (.replace f t sl) tr tr1 :=
  PM.C04.replaceOp_residual S (family_det _ hS) (family_fillersOK _ hS) (family_wrapOK _ hS)
    (family_labelsOK _ hS) (family_leafOk _ hS) (family_textStableC _ hS) (family_closable _ hS) tr tr1 hlen hI
    f t sl h hres

/-- `PM.C04.editHistory_undo_bmp` with its schema guards discharged for the bundled schema family -/
theorem editHistory_undo_bmp (S : Schema) (hS : S ∈ familySchemas) (doc : Node) (ops : List Op) (tr' : Tr)
    (hd : S.checkNode doc = true) (hn : fnorm doc.kids = true) (hb : bmpDoc doc = true)
    (hall : ∀ op ∈ ops, editOp op = true) (h : (Tr.init doc).runOps S ops = some tr')
    (hres : OpsAll S (EditResidual S) (Tr.init doc) ops) :
    tr'.undo S = .ok doc ∧ FamilyInv S tr'.doc :=
  PM.C04.editHistory_undo_bmp S (family_compatTrans _ hS) (textLoop_of_B _ (family_textLoop _ hS))
    (family_det _ hS) (family_fillersOK _ hS) (family_wrapOK _ hS) (family_labelsOK _ hS) (family_leafOk _ hS)
    (family_textStableC _ hS) (family_closable _ hS) doc ops tr' hd hn hb hall h hres

/-- `PM.C04.editResidual_of'` with its schema guards discharged for the bundled schema family -/
theorem editResidual_of' (S : Schema) (hS : S ∈ familySchemas) (op : Op) (tr tr1 : Tr)
    (hlen : tr.steps.length = tr.docs.length) (hI : FamilyInv S tr.doc) (hb : bmpDoc tr.doc = true)
    (h : tr.runOp S op = some tr1) (hres : EditResidual' S op tr tr1) :
    EditResidual S op tr tr1 :=
  PM.C04.editResidual_of' S (family_det _ hS) (family_fillersOK _ hS) (family_wrapOK _ hS)
    (family_labelsOK _ hS) (family_leafOk _ hS) (family_textStableC _ hS) (family_closable _ hS) op tr tr1 hlen
    hI hb h hres

/-- `PM.C04.editHistory_undo_bmp'` with its schema guards discharged for the bundled schema family -/
theorem editHistory_undo_bmp' (S : Schema) (hS : S ∈ familySchemas) (doc : Node) (ops : List Op) (tr' : Tr)
    (hd : S.checkNode doc = true) (hn : fnorm doc.kids = true) (hb : bmpDoc doc = true)
    (hall : ∀ op ∈ ops, editOp op = true) (h : (Tr.init doc).runOps S ops = some tr')
    (hres : OpsAll S (EditResidual' S) (Tr.init doc) ops) :
    tr'.undo S = .ok doc ∧ FamilyInv S tr'.doc :=
  PM.C04.editHistory_undo_bmp' S (family_compatTrans _ hS) (textLoop_of_B _ (family_textLoop _ hS))
    (family_det _ hS) (family_fillersOK _ hS) (family_wrapOK _ hS) (family_labelsOK _ hS) (family_leafOk _ hS)
    (family_textStableC _ hS) (family_closable _ hS) doc ops tr' hd hn hb hall h hres

/-- `PM.C04.editResidual'_of_hyps` with its schema guards discharged for the bundled schema family -/
theorem editResidual'_of_hyps (S : Schema) (hS : S ∈ familySchemas) (op : Op) (tr tr1 : Tr)
    (hlen : tr.steps.length = tr.docs.length) (hI : FamilyInv S tr.doc) (hb : bmpDoc tr.doc = true)
    (h : tr.runOp S op = some tr1) (hres : EditHyps S op tr tr1) :
    EditResidual' S op tr tr1 :=
  PM.C04.editResidual'_of_hyps S (textLoop_of_B _ (family_textLoop _ hS)) op tr tr1 hlen hI hb h hres

/-- `PM.C04.editHistory_undo` with its schema guards discharged for the bundled schema family -/
theorem editHistory_undo (S : Schema) (hS : S ∈ familySchemas) (doc : Node) (ops : List Op) (tr' : Tr)
    (hd : S.checkNode doc = true) (hn : fnorm doc.kids = true) (hb : bmpDoc doc = true)
    (hall : ∀ op ∈ ops, editOp op = true) (h : (Tr.init doc).runOps S ops = some tr')
    (hres : OpsAll S (EditHyps S) (Tr.init doc) ops) :
    tr'.undo S = .ok doc ∧ FamilyInv S tr'.doc :=
  PM.C04.editHistory_undo S (family_compatTrans _ hS) (textLoop_of_B _ (family_textLoop _ hS)) (family_det _ hS)
    (family_fillersOK _ hS) (family_wrapOK _ hS) (family_labelsOK _ hS) (family_leafOk _ hS)
    (family_textStableC _ hS) (family_closable _ hS) doc ops tr' hd hn hb hall h hres

/-- `PM.C04.deleteOp_residual` with its schema guards discharged for the bundled schema family -/
theorem deleteOp_residual (S : Schema) (hS : S ∈ familySchemas) (tr tr1 : Tr)
    (hlen : tr.steps.length = tr.docs.length) (hml : tr.maps.length = tr.steps.length) (hI : FamilyInv S tr.doc)
    (hb : bmpDoc tr.doc = true) (hattrs : S.nodeAttrsOK tr.doc = true) (f t : Nat) (hft : f ≤ t)
    (h : tr.runOp S (.replace f t Slice.empty) = some tr1) :
    OpResidual S (.replace f t Slice.empty) tr tr1 ∧ bmpDoc tr1.doc = true :=
  PM.C04.deleteOp_residual S (family_compatTrans _ hS) (textLoop_of_B _ (family_textLoop _ hS))
    (family_det _ hS) (family_fillersOK _ hS) (family_wrapOK _ hS) (family_labelsOK _ hS) (family_leafOk _ hS)
    (family_textStableC _ hS) (family_closable _ hS) tr tr1 hlen hml hI hb hattrs f t hft h

/-- `PM.C04.insertInlineOp_residual` with its schema guards discharged for the bundled schema family -/
theorem insertInlineOp_residual (S : Schema) (hS : S ∈ familySchemas) (tr tr1 : Tr)
    (hlen : tr.steps.length = tr.docs.length) (hml : tr.maps.length = tr.steps.length) (hI : FamilyInv S tr.doc)
    (hb : bmpDoc tr.doc = true) (hattrs : S.nodeAttrsOK tr.doc = true) (f t : Nat) (hft : f ≤ t) (sl : Slice)
    (hsl : sl.inlineLeaves S = true) (hslv : sl.closedValid S = true) (hsb : sliceBmp sl = true)
    (h : tr.runOp S (.replace f t sl) = some tr1)
    (hnorm : HistAll (fun s _ _ => RecordedNorm s) (appended tr tr1) tr1.doc) :
    OpResidual S (.replace f t sl) tr tr1 ∧ bmpDoc tr1.doc = true :=
  PM.C04.insertInlineOp_residual S (family_compatTrans _ hS) (textLoop_of_B _ (family_textLoop _ hS))
    (family_det _ hS) (family_fillersOK _ hS) (family_wrapOK _ hS) (family_labelsOK _ hS) (family_leafOk _ hS)
    (family_textStableC _ hS) (family_closable _ hS) tr tr1 hlen hml hI hb hattrs f t hft sl hsl hslv hsb h
    hnorm

/-- `PM.C04.editHistory_undo'` with its schema guards discharged for the bundled schema family -/
theorem editHistory_undo' (S : Schema) (hS : S ∈ familySchemas) (doc : Node) (ops : List Op) (tr' : Tr)
    (hd : S.checkNode doc = true) (hn : fnorm doc.kids = true) (hb : bmpDoc doc = true)
    (hall : ∀ op ∈ ops, editOp op = true) (h : (Tr.init doc).runOps S ops = some tr')
    (hres : OpsAll S (EditHyps' S) (Tr.init doc) ops) :
    tr'.undo S = .ok doc ∧ FamilyInv S tr'.doc :=
  PM.C04.editHistory_undo' S (family_compatTrans _ hS) (textLoop_of_B _ (family_textLoop _ hS))
    (family_det _ hS) (family_fillersOK _ hS) (family_wrapOK _ hS) (family_labelsOK _ hS) (family_leafOk _ hS)
    (family_textStableC _ hS) (family_closable _ hS) doc ops tr' hd hn hb hall h hres

/-- `PM.C04.insertInlineOp_residual'` with its schema guards discharged for the bundled schema family -/
theorem insertInlineOp_residual' (S : Schema) (hS : S ∈ familySchemas) (tr tr1 : Tr)
    (hlen : tr.steps.length = tr.docs.length) (hml : tr.maps.length = tr.steps.length) (hI : FamilyInv S tr.doc)
    (hb : bmpDoc tr.doc = true) (hattrs : S.nodeAttrsOK tr.doc = true) (f t : Nat) (hft : f ≤ t) (sl : Slice)
    (hsl : sl.inlineLeaves S = true) (hslv : sl.closedValid S = true) (hsb : sliceBmp sl = true)
    (hsn : fnorm sl.content = true) (h : tr.runOp S (.replace f t sl) = some tr1) :
    OpResidual S (.replace f t sl) tr tr1 ∧ bmpDoc tr1.doc = true :=
  PM.C04.insertInlineOp_residual' S (family_compatTrans _ hS) (textLoop_of_B _ (family_textLoop _ hS))
    (family_det _ hS) (family_fillersOK _ hS) (family_wrapOK _ hS) (family_labelsOK _ hS) (family_leafOk _ hS)
    (family_textStableC _ hS) (family_closable _ hS) tr tr1 hlen hml hI hb hattrs f t hft sl hsl hslv hsb hsn h

end PM.Family.C04
