/-
  Family/C01.lean — the guarded theorems of Props/C01.lean for the bundled schema family: every schema-level
  hypothesis is discharged by the kernel-checked facts of lean/Gen/SchemaFacts.lean (regenerated on every run from the
  schemas the library compiles); what remains are the hypotheses about the document / step / DOM at hand.
  Written by tools/gen_family_corollaries.py from the statements in Props/C01.lean.
-/
import Props.C01
import Props.Family
import Gen.Guards.TextLoop
namespace PM.Family.C01
open PM
open PM.C01
open PM.Gen PM.Family PM.FromDom

/-- `PM.C01.addMark_applies` with its schema guards discharged for the bundled schema family -/
theorem addMark_applies (S : Schema) (hS : S ∈ familySchemas) (ty : TypeId) (a : Attrs) (mk : Marks)
    (kids : List Node) (f t : Nat) (m : Mark) (hd : Valid S (.elem ty a mk kids)) (hn : fnorm kids = true)
    (hft : f ≤ t) (ht : t ≤ fsize kids) (haf : alignedAt kids f = true) (hat : alignedAt kids t = true) :
    ∃ doc', S.apply (.addMark f t m) (.elem ty a mk kids) = .ok doc' ∧ Valid S doc' :=
  PM.C01.addMark_applies S (textLoop_of_B _ (family_textLoop _ hS)) ty a mk kids f t m hd hn hft ht haf hat

/-- `PM.C01.removeMark_applies` with its schema guards discharged for the bundled schema family -/
theorem removeMark_applies (S : Schema) (hS : S ∈ familySchemas) (ty : TypeId) (a : Attrs) (mk : Marks)
    (kids : List Node) (f t : Nat) (m : Mark) (hd : Valid S (.elem ty a mk kids)) (hn : fnorm kids = true)
    (hft : f ≤ t) (ht : t ≤ fsize kids) (haf : alignedAt kids f = true) (hat : alignedAt kids t = true) :
    ∃ doc', S.apply (.removeMark f t m) (.elem ty a mk kids) = .ok doc' ∧ Valid S doc' :=
  PM.C01.removeMark_applies S (textLoop_of_B _ (family_textLoop _ hS)) ty a mk kids f t m hd hn hft ht haf hat

end PM.Family.C01
