/-
  Family/C07.lean — the guarded theorems of Props/C07.lean for the bundled schema family: every schema-level
  hypothesis is discharged by the kernel-checked facts of lean/Gen/SchemaFacts.lean (regenerated on every run from the
  schemas the library compiles); what remains are the hypotheses about the document / step / DOM at hand.
  Written by tools/gen_family_corollaries.py from the statements in Props/C07.lean.
-/
import Props.C07
import Props.Family
import Gen.SchemaBuilds
namespace PM.Family.C07
open PM
open PM.SchemaCompile
open PM.C07
open PM.Gen PM.Family PM.FromDom

/-- `PM.C07.nodeTable_spec` with its schema guards discharged for the bundled schema family -/
theorem nodeTable_spec {spec : Spec} {S : Schema} (hS : (spec, S) ∈ familySpecs) (i : Nat)
    (hi : i < spec.nodes.length) :
    (S.nodeType i).name = spec.nodes[i].name ∧
    (S.nodeType i).isText = (spec.nodes[i].name == "text") ∧
    (S.nodeType i).isInline = (spec.nodes[i].inline || spec.nodes[i].name == "text") ∧
    (S.nodeType i).isLeaf = contentEmpty spec.nodes[i].content ∧
    (S.nodeType i).isAtom = ((S.nodeType i).isLeaf || spec.nodes[i].atom) ∧
    (S.nodeType i).isolating = spec.nodes[i].isolating ∧
    (S.nodeType i).defining = spec.nodes[i].defining ∧
    (S.nodeType i).code = spec.nodes[i].code ∧
    S.dfa i = (if (S.nodeType i).isLeaf then emptyMatch else (S.nodes.toList.map (·.dfa)).getD i emptyMatch) ∧
    (S.nodeType i).inlineContent = inlineContentOf spec.nodes (S.dfa i) :=
  PM.C07.nodeTable_spec (family_compiles (spec, S) hS) i hi

/-- `PM.C07.inlineContent_iff` with its schema guards discharged for the bundled schema family -/
theorem inlineContent_iff {spec : Spec} {S : Schema} (hS : (spec, S) ∈ familySpecs) (i : Nat)
    (hi : i < spec.nodes.length) :
    (S.nodeType i).inlineContent = true ↔
    ∃ t q rest, (S.dfa i).edgesOf 0 = (t, q) :: rest ∧ t < spec.nodes.length ∧ (S.nodeType t).isInline = true :=
  PM.C07.inlineContent_iff (family_compiles (spec, S) hS) i hi

/-- `PM.C07.leaf_spec` with its schema guards discharged for the bundled schema family -/
theorem leaf_spec {spec : Spec} {S : Schema} (hS : (spec, S) ∈ familySpecs) (i : Nat)
    (hi : i < spec.nodes.length) (hl : (S.nodeType i).isLeaf = true) :
    S.dfa i = #[⟨true, []⟩] ∧ (∀ ts, (S.dfa i).accepts ts = true ↔ ts = []) ∧
    (S.nodeType i).inlineContent = false :=
  PM.C07.leaf_spec (family_compiles (spec, S) hS) i hi hl

/-- `PM.C07.top_text_spec` with its schema guards discharged for the bundled schema family -/
theorem top_text_spec {spec : Spec} {S : Schema} (hS : (spec, S) ∈ familySpecs) :
    (∃ ht : S.top < spec.nodes.length, spec.nodes[S.top].name = spec.topName) ∧
    (∃ hx : S.textTy < spec.nodes.length, spec.nodes[S.textTy].name = "text") ∧
    (S.nodeType S.textTy).isText = true ∧ (S.nodeType S.textTy).isInline = true ∧
    (S.nodeType S.textTy).attrs = [] ∧
    ((spec.nodes.map (·.name)).Nodup → ∀ i, i < spec.nodes.length →
    ((S.nodeType i).isText = true ↔ i = S.textTy)) :=
  PM.C07.top_text_spec (family_compiles (spec, S) hS)

/-- `PM.C07.attrs_defaults_spec` with its schema guards discharged for the bundled schema family -/
theorem attrs_defaults_spec {spec : Spec} {S : Schema} (hS : (spec, S) ∈ familySpecs) (i : Nat)
    (hi : i < spec.nodes.length) :
    (S.nodeType i).attrs.map (·.name) = spec.nodes[i].attrs.map (·.name) ∧
    (S.nodeType i).attrs.map (·.hasDefault) = spec.nodes[i].attrs.map (·.default.isSome) ∧
    (∀ a ∈ spec.nodes[i].attrs, ∀ v, a.default = some v → ⟨a.name, true, v⟩ ∈ (S.nodeType i).attrs) ∧
    (hasRequiredAttrs (S.nodeType i).attrs = true ↔ ∃ a ∈ spec.nodes[i].attrs, a.default = none) ∧
    (S.generatable i = true ↔ spec.nodes[i].name ≠ "text" ∧ ∀ a ∈ spec.nodes[i].attrs, a.default ≠ none) :=
  PM.C07.attrs_defaults_spec (family_compiles (spec, S) hS) i hi

end PM.Family.C07
