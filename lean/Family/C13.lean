/-
  Family/C13.lean — the guarded theorems of Props/C13.lean for the bundled schema family: every schema-level
  hypothesis is discharged by the kernel-checked facts of lean/Gen/SchemaFacts.lean (regenerated on every run from the
  schemas the library compiles); what remains are the hypotheses about the document / step / DOM at hand.
  Written by tools/gen_family_corollaries.py from the statements in Props/C13.lean.
-/
import Props.C13
import Props.Family
import Gen.Guards.Det
import Gen.Guards.FillersOK
import Gen.Guards.LabelsOK
import Gen.Guards.TextLoop
import Gen.Guards.WrapOK
namespace PM.Family.C13
open PM
open PM.C13
open PM.Gen PM.Family PM.FromDom

/-- `PM.C13.stepAll_total` with its schema guards discharged for the bundled schema family -/
theorem stepAll_total (S : Schema) (hS : S ∈ familySchemas) (tr : Tr) (steps : List Step)
    (hdoc : C01.IsElem tr.doc) (hv : C01.Valid S tr.doc) (hn : fnorm tr.doc.kids = true)
    (hc : pairClosedKids tr.doc.kids = true)
    (hs : ∀ s ∈ steps, ∃ a b x, (s = .addMark a b x ∨ s = .removeMark a b x) ∧
      a ≤ b ∧ b ≤ fsize tr.doc.kids ∧ alignedAt tr.doc.kids a = true ∧ alignedAt tr.doc.kids b = true) :
    ∃ tr', tr.stepAll S steps = .ok tr' ∧ C01.Valid S tr'.doc ∧ fnorm tr'.doc.kids = true ∧
    (ftoks tr'.doc.kids).map Tok.shape = (ftoks tr.doc.kids).map Tok.shape :=
  PM.C13.stepAll_total S (textLoop_of_B _ (family_textLoop _ hS)) tr steps hdoc hv hn hc hs

/-- `PM.C13.addMark_total` with its schema guards discharged for the bundled schema family -/
theorem addMark_total (S : Schema) (hS : S ∈ familySchemas) (tr : Tr) (f t : Nat) (m : Mark)
    (hdoc : C01.IsElem tr.doc) (hv : C01.Valid S tr.doc) (hn : fnorm tr.doc.kids = true)
    (hc : pairClosedKids tr.doc.kids = true) (hft : f ≤ t) (ht : t ≤ fsize tr.doc.kids)
    (haf : alignedAt tr.doc.kids f = true) (hat : alignedAt tr.doc.kids t = true) :
    ∃ tr', tr.addMark S f t m = .ok tr' :=
  PM.C13.addMark_total S (textLoop_of_B _ (family_textLoop _ hS)) tr f t m hdoc hv hn hc hft ht haf hat

/-- `PM.C13.removeMark_total` with its schema guards discharged for the bundled schema family -/
theorem removeMark_total (S : Schema) (hS : S ∈ familySchemas) (tr : Tr) (f t : Nat) (sel : MarkSel)
    (hdoc : C01.IsElem tr.doc) (hv : C01.Valid S tr.doc) (hn : fnorm tr.doc.kids = true)
    (hc : pairClosedKids tr.doc.kids = true) (hft : f ≤ t) (ht : t ≤ fsize tr.doc.kids)
    (haf : alignedAt tr.doc.kids f = true) (hat : alignedAt tr.doc.kids t = true) :
    ∃ tr', tr.removeMark S f t sel = .ok tr' :=
  PM.C13.removeMark_total S (textLoop_of_B _ (family_textLoop _ hS)) tr f t sel hdoc hv hn hc hft ht haf hat

/-- `PM.C13.addMark_total_effect` with its schema guards discharged for the bundled schema family -/
theorem addMark_total_effect (S : Schema) (hS : S ∈ familySchemas) (tr : Tr) (f t : Nat) (m : Mark)
    (hdoc : C01.IsElem tr.doc) (hv : C01.Valid S tr.doc) (hn : fnorm tr.doc.kids = true)
    (hc : pairClosedKids tr.doc.kids = true) (hft : f ≤ t) (ht : t ≤ fsize tr.doc.kids)
    (haf : alignedAt tr.doc.kids f = true) (hat : alignedAt tr.doc.kids t = true) :
    ∃ tr', tr.addMark S f t m = .ok tr' ∧ C01.Valid S tr'.doc ∧ fnorm tr'.doc.kids = true ∧
    (let old := ftoks tr.doc.kids
    let new := ftoks tr'.doc.kids
    let qualifies := fun i => f ≤ i ∧ i < t ∧ isAtomTok S (tokAt old i) = true ∧
    (S.nodeType (ctxAt (S.tyOf tr.doc) old i)).allowsMarkType m.ty = true
    tr'.steps = tr.steps ++ planAddMarkSteps S tr.doc f t m ∧
    new.length = old.length ∧
    ∀ i, i < old.length →
    (tokAt new i).shape = (tokAt old i).shape ∧
    (qualifies i → m ∈ (tokAt new i).marks ∨
    ∃ o ∈ (tokAt old i).marks, S.excludes o.ty m.ty = true ∧ S.excludes m.ty o.ty = false) ∧
    (m ∈ (tokAt new i).marks → m ∈ (tokAt old i).marks ∨ qualifies i) ∧
    (∀ x, x ≠ m →
    (x ∈ (tokAt new i).marks → x ∈ (tokAt old i).marks) ∧
    (x ∈ (tokAt old i).marks → S.excludes m.ty x.ty = false → x ∈ (tokAt new i).marks)) ∧
    (¬ (f ≤ i ∧ i < t) → tokAt new i = tokAt old i)) :=
  PM.C13.addMark_total_effect S (textLoop_of_B _ (family_textLoop _ hS)) tr f t m hdoc hv hn hc hft ht haf hat

/-- `PM.C13.removeMark_total_effect` with its schema guards discharged for the bundled schema family -/
theorem removeMark_total_effect (S : Schema) (hS : S ∈ familySchemas) (tr : Tr) (f t : Nat) (sel : MarkSel)
    (hdoc : C01.IsElem tr.doc) (hv : C01.Valid S tr.doc) (hn : fnorm tr.doc.kids = true)
    (hc : pairClosedKids tr.doc.kids = true) (hft : f ≤ t) (ht : t ≤ fsize tr.doc.kids)
    (haf : alignedAt tr.doc.kids f = true) (hat : alignedAt tr.doc.kids t = true) :
    ∃ tr', tr.removeMark S f t sel = .ok tr' ∧ C01.Valid S tr'.doc ∧ fnorm tr'.doc.kids = true ∧
    (let old := ftoks tr.doc.kids
    let new := ftoks tr'.doc.kids
    tr'.steps = tr.steps ++ planRemoveMarkSteps S tr.doc f t sel ∧
    new.length = old.length ∧
    ∀ i, i < old.length →
    (tokAt new i).shape = (tokAt old i).shape ∧
    ((f ≤ i ∧ i < t ∧ isInlineTok S (tokAt old i) = true) →
    (tokAt new i).marks = (tokAt old i).marks.filter (fun x => !sel.matches x)) ∧
    (¬ (f ≤ i ∧ i < t ∧ isInlineTok S (tokAt old i) = true) → tokAt new i = tokAt old i)) :=
  PM.C13.removeMark_total_effect S (textLoop_of_B _ (family_textLoop _ hS)) tr f t sel hdoc hv hn hc hft ht haf
    hat

/-- `PM.C13.fillOutcome_step_wf` with its schema guards discharged for the bundled schema family -/
theorem fillOutcome_step_wf (S : Schema) (hS : S ∈ familySchemas) (pty : TypeId) (q : Nat) (d1 : Node)
    (cur : Nat) (fs : List Step) (hv : C01.Valid S d1) (hattrs : S.nodeAttrsOK d1 = true)
    (hrun : unplacedWfRun S d1 cur cur ⟨retypeFill S pty q, 0, 0⟩ = true) (ho : FillOutcome S pty q d1 cur fs)
    (st : Step) (hst : st ∈ fs) :
    StepWF st = true ∧
    (∀ F T G1 G2 sl' ins b, st = .replaceAround F T G1 G2 sl' ins b → aroundShape F T G1 G2 sl' ins = true) :=
  PM.C13.fillOutcome_step_wf S (family_det _ hS) (family_fillersOK _ hS) (family_wrapOK _ hS)
    (family_labelsOK _ hS) pty q d1 cur fs hv hattrs hrun ho st hst

/-- `PM.C13.fillOutcome_step_notext` with its schema guards discharged for the bundled schema family -/
theorem fillOutcome_step_notext (S : Schema) (hS : S ∈ familySchemas) (pty : TypeId) (q : Nat) (d1 : Node)
    (cur : Nat) (fs : List Step) (ho : FillOutcome S pty q d1 cur fs) (st : Step) (hst : st ∈ fs) :
    ∃ sl', st.sliceOf = some sl' ∧ textUnits sl'.toks = [] :=
  PM.C13.fillOutcome_step_notext S pty q d1 cur fs ho st hst

end PM.Family.C13
