/-
  Family/C19.lean — the guarded theorems of Props/C19.lean for the bundled schema family: every schema-level
  hypothesis is discharged by the kernel-checked facts of lean/Gen/SchemaFacts.lean (regenerated on every run from the
  schemas the library compiles); what remains are the hypotheses about the document / step / DOM at hand.
  Written by tools/gen_family_corollaries.py from the statements in Props/C19.lean.
-/
import Props.C19
import Props.Family
import Gen.Guards.Det
import Gen.Guards.FillOk
import Gen.Guards.LeafOk
import Gen.Guards.TextStable
import Gen.Parsers
namespace PM.Family.C19
open PM.Dom
open PM.FromDom
open PM.FromDom PM.DomWalk
open PM.DomWalk
open PM PM.RoundTrip PM.FromDom
open PM PM.RoundTrip
open PM.RoundTrip PM.FromDom
open PM.C19
open PM.Gen PM.Family PM.FromDom

/-- `PM.C19.placement_match_coherent` with its schema guards discharged for the bundled schema family -/
theorem placement_match_coherent (S : Schema) (hS : S ∈ familySchemas) (wsPre : TypeId → Bool) (pw : WS)
    (topOpen : Bool) (events : List Event) (st : FromDom.PState)
    (h : PState.run S wsPre (PState.init S false pw topOpen) events = .ok st) (i : Nat) (cx : NodeCtx)
    (hi : st.nodes[i]? = some cx) :
    cx.opts.openLeft = false ∧ ∃ t q, cx.ty = some t ∧ cx.mtch = some q ∧
    (S.dfa t).run 0 (S.types cx.content ++ ((st.nodes[i + 1]?).bind (·.ty)).toList) = some q :=
  PM.C19.placement_match_coherent S wsPre (det_of_detB _ (family_det _ hS)) pw topOpen events st h i cx hi

/-- `PM.C19.placement_content_prefix` with its schema guards discharged for the bundled schema family -/
theorem placement_content_prefix (S : Schema) (hS : S ∈ familySchemas) (wsPre : TypeId → Bool) (pw : WS)
    (topOpen : Bool) (events : List Event) (st : FromDom.PState)
    (h : PState.run S wsPre (PState.init S false pw topOpen) events = .ok st) (cx : NodeCtx)
    (hcx : cx ∈ st.nodes) :
    ∃ t, cx.ty = some t ∧ ((S.dfa t).run 0 (S.types cx.content)).isSome = true :=
  PM.C19.placement_content_prefix S wsPre (det_of_detB _ (family_det _ hS)) pw topOpen events st h cx hcx

/-- `PM.C19.placement_finish_valid` with its schema guards discharged for the bundled schema family -/
theorem placement_finish_valid (S : Schema) (hS : S ∈ domFamilySchemas) (wsPre : TypeId → Bool) (pw : WS)
    (events : List Event) (hev : ∀ e ∈ events, WalkOk S e) (hevm : ∀ e ∈ events, WalkMarksOk S e)
    (st : FromDom.PState) (doc : Node) (rest : List Node)
    (hrun : PState.run S wsPre (PState.init S false pw false) events = .ok st)
    (hfin : st.finish S = .ok (some doc, rest)) :
    S.checkNode doc = true :=
  PM.C19.placement_finish_valid S wsPre (det_of_detB _ (family_det _ (domFamily_sub _ hS)))
    (textStable_of_B _ (family_textStable _ hS)) (leafOk_of_B _ (family_leafOk _ (domFamily_sub _ hS))) pw
    events hev hevm st doc rest hrun hfin

/-- `PM.C19.parse_valid` with its schema guards discharged for the bundled schema family -/
theorem parse_valid (P : Parser) (hS : P.S ∈ domFamilySchemas) (rootTag : String) (kids : List DNode)
    (hn : listOk false (givenNodeOk P.S) kids = true) (doc : Node) (h : parse P rootTag kids = .ok doc) :
    P.S.checkNode doc = true :=
  PM.C19.parse_valid P (det_of_detB _ (family_det _ (domFamily_sub _ hS)))
    (textStable_of_B _ (family_textStable _ hS)) (leafOk_of_B _ (family_leafOk _ (domFamily_sub _ hS))) rootTag
    kids hn doc h

/-- `PM.C19.walk_events_admissible` with its schema guards discharged for the bundled schema family -/
theorem walk_events_admissible (P : Parser) (hS : P.S ∈ familySchemas) (isOpen : Bool) (pw : WS)
    (rootTag : String) (kids : List DNode) (hn : listOk false (givenNodeOk P.S) kids = true) (w : WState)
    (h : addAll P rootTag kids false (walkInit P isOpen pw) = .ok w) :
    PState.run P.S P.wsPre (PState.init P.S isOpen pw false) w.log = .ok w.st ∧
    (∀ e ∈ w.log, WalkOk P.S e) ∧ (∀ e ∈ w.log, WalkMarksOk P.S e) :=
  PM.C19.walk_events_admissible P (leafOk_of_B _ (family_leafOk _ hS)) isOpen pw rootTag kids hn w h

/-- `PM.C19.parse_no_internal` with its schema guards discharged for the bundled schema family -/
theorem parse_no_internal (P : Parser) (hS : P.S ∈ familySchemas) (hr : P.rulesOk = true) (rootTag : String)
    (kids : List DNode) (hk : listOk true (fun _ => true) kids = true) :
    parse P rootTag kids ≠ .error .internal :=
  PM.C19.parse_no_internal P (schemaOk_of_K _ (family_det _ hS) (family_fillOk _ hS)) hr rootTag kids hk

/-- `PM.C19.walk_no_internal` with its schema guards discharged for the bundled schema family -/
theorem walk_no_internal (P : Parser) (hS : P.S ∈ familySchemas) (hr : P.rulesOk = true) (rootTag : String)
    (kids : List DNode) (hk : listOk true (fun _ => true) kids = true) (isOpen : Bool) (pw : WS) :
    addAll P rootTag kids false (walkInit P isOpen pw) ≠ .error .internal ∧
    ∀ w, addAll P rootTag kids false (walkInit P isOpen pw) = .ok w → w.st.finish P.S ≠ .error .internal :=
  PM.C19.walk_no_internal P (schemaOk_of_K _ (family_det _ hS) (family_fillOk _ hS)) hr rootTag kids hk isOpen
    pw

/-- `PM.C19.parse_no_internal` with its schema guards discharged for the bundled schema family -/
theorem parse_no_internal_from_schema (P : Parser) (hS : P ∈ familyParsers) (rootTag : String)
    (kids : List DNode) (hk : listOk true (fun _ => true) kids = true) :
    parse P rootTag kids ≠ .error .internal :=
  PM.C19.parse_no_internal P
    (schemaOk_of_K _ (family_det _ (family_rulesOk P hS).2) (family_fillOk _ (family_rulesOk P hS).2))
    (family_rulesOk P hS).1 rootTag kids hk

/-- `PM.C19.walk_no_internal` with its schema guards discharged for the bundled schema family -/
theorem walk_no_internal_from_schema (P : Parser) (hS : P ∈ familyParsers) (rootTag : String)
    (kids : List DNode) (hk : listOk true (fun _ => true) kids = true) (isOpen : Bool) (pw : WS) :
    addAll P rootTag kids false (walkInit P isOpen pw) ≠ .error .internal ∧
    ∀ w, addAll P rootTag kids false (walkInit P isOpen pw) = .ok w → w.st.finish P.S ≠ .error .internal :=
  PM.C19.walk_no_internal P
    (schemaOk_of_K _ (family_det _ (family_rulesOk P hS).2) (family_fillOk _ (family_rulesOk P hS).2))
    (family_rulesOk P hS).1 rootTag kids hk isOpen pw

end PM.Family.C19
