/-
  Family/C19.lean — the guarded theorems of Props/C19.lean for the bundled schema family: every schema-level
  hypothesis is discharged by the kernel-checked facts of lean/Gen/SchemaFacts.lean (regenerated on every run from the
  schemas the library compiles); what remains are the hypotheses about the document / step / DOM at hand.
  Written by tools/gen_family_corollaries.py from the statements in Props/C19.lean.
-/
import Props.C19
import Props.Family
import Gen.SchemaFacts
import Gen.Parsers
namespace PM.Family.C19
open PM.Dom
open PM.FromDom
open PM.FromDom PM.DomWalk
open PM.DomWalk
open PM.C19
open PM.Gen PM.Family

/-- `PM.C19.placement_match_coherent` with its schema guards discharged for the bundled schema family -/
theorem placement_match_coherent (S : Schema) (hS : S ∈ familySchemas) (wsPre : TypeId → Bool) (pw : WS)
    (topOpen : Bool) (events : List Event) (st : FromDom.PState)
    (h : PState.run S wsPre (PState.init S false pw topOpen) events = .ok st) (i : Nat) (cx : NodeCtx)
    (hi : st.nodes[i]? = some cx) :
    cx.opts.openLeft = false ∧ ∃ t q, cx.ty = some t ∧ cx.mtch = some q ∧
    (S.dfa t).run 0 (S.types cx.content ++ ((st.nodes[i + 1]?).bind (·.ty)).toList) = some q :=
  PM.C19.placement_match_coherent S wsPre (family_facts _ hS).Det pw topOpen events st h i cx hi

/-- `PM.C19.placement_content_prefix` with its schema guards discharged for the bundled schema family -/
theorem placement_content_prefix (S : Schema) (hS : S ∈ familySchemas) (wsPre : TypeId → Bool) (pw : WS)
    (topOpen : Bool) (events : List Event) (st : FromDom.PState)
    (h : PState.run S wsPre (PState.init S false pw topOpen) events = .ok st) (cx : NodeCtx)
    (hcx : cx ∈ st.nodes) :
    ∃ t, cx.ty = some t ∧ ((S.dfa t).run 0 (S.types cx.content)).isSome = true :=
  PM.C19.placement_content_prefix S wsPre (family_facts _ hS).Det pw topOpen events st h cx hcx

/-- `PM.C19.placement_finish_valid` with its schema guards discharged for the bundled schema family -/
theorem placement_finish_valid (S : Schema) (hS : S ∈ domFamilySchemas) (wsPre : TypeId → Bool) (pw : WS)
    (events : List Event) (hev : ∀ e ∈ events, WalkOk S e) (hevm : ∀ e ∈ events, WalkMarksOk S e)
    (st : FromDom.PState) (doc : Node) (rest : List Node)
    (hrun : PState.run S wsPre (PState.init S false pw false) events = .ok st)
    (hfin : st.finish S = .ok (some doc, rest)) :
    S.checkNode doc = true :=
  PM.C19.placement_finish_valid S wsPre (family_facts _ (domFamily_sub _ hS)).Det
    (FromDom.textStable_of_B _ (domFamily_textStable _ hS)) (family_facts _ (domFamily_sub _ hS)).LeafOk pw
    events hev hevm st doc rest hrun hfin

/-- `PM.C19.parse_valid` with its schema guards discharged for the bundled schema family -/
theorem parse_valid (P : Parser) (hS : P.S ∈ domFamilySchemas) (rootTag : String) (kids : List DNode)
    (hn : listOk false (givenNodeOk P.S) kids = true) (doc : Node) (h : parse P rootTag kids = .ok doc) :
    P.S.checkNode doc = true :=
  PM.C19.parse_valid P (family_facts _ (domFamily_sub _ hS)).Det
    (FromDom.textStable_of_B _ (domFamily_textStable _ hS)) (family_facts _ (domFamily_sub _ hS)).LeafOk rootTag
    kids hn doc h

/-- `PM.C19.walk_events_admissible` with its schema guards discharged for the bundled schema family -/
theorem walk_events_admissible (P : Parser) (hS : P.S ∈ familySchemas) (isOpen : Bool) (pw : WS)
    (rootTag : String) (kids : List DNode) (hn : listOk false (givenNodeOk P.S) kids = true) (w : WState)
    (h : addAll P rootTag kids false (walkInit P isOpen pw) = .ok w) :
    PState.run P.S P.wsPre (PState.init P.S isOpen pw false) w.log = .ok w.st ∧
    (∀ e ∈ w.log, WalkOk P.S e) ∧ (∀ e ∈ w.log, WalkMarksOk P.S e) :=
  PM.C19.walk_events_admissible P (family_facts _ hS).LeafOk isOpen pw rootTag kids hn w h

/-- `PM.C19.parse_no_internal` with its schema guards discharged for the bundled schema family -/
theorem parse_no_internal (P : Parser) (hS : P.S ∈ familySchemas) (hr : P.rulesOk = true) (rootTag : String)
    (kids : List DNode) (hk : listOk true (fun _ => true) kids = true) :
    parse P rootTag kids ≠ .error .internal :=
  PM.C19.parse_no_internal P (family_facts _ hS).SchemaOk hr rootTag kids hk

/-- `PM.C19.walk_no_internal` with its schema guards discharged for the bundled schema family -/
theorem walk_no_internal (P : Parser) (hS : P.S ∈ familySchemas) (hr : P.rulesOk = true) (rootTag : String)
    (kids : List DNode) (hk : listOk true (fun _ => true) kids = true) (isOpen : Bool) (pw : WS) :
    addAll P rootTag kids false (walkInit P isOpen pw) ≠ .error .internal ∧
    ∀ w, addAll P rootTag kids false (walkInit P isOpen pw) = .ok w → w.st.finish P.S ≠ .error .internal :=
  PM.C19.walk_no_internal P (family_facts _ hS).SchemaOk hr rootTag kids hk isOpen pw

/-- `PM.C19.parse_no_internal` with its schema guards discharged for the bundled schema family -/
theorem parse_no_internal_from_schema (P : Parser) (hS : P ∈ familyParsers) (rootTag : String)
    (kids : List DNode) (hk : listOk true (fun _ => true) kids = true) :
    parse P rootTag kids ≠ .error .internal :=
  PM.C19.parse_no_internal P (family_facts _ (family_rulesOk P hS).2).SchemaOk (family_rulesOk P hS).1 rootTag
    kids hk

/-- `PM.C19.walk_no_internal` with its schema guards discharged for the bundled schema family -/
theorem walk_no_internal_from_schema (P : Parser) (hS : P ∈ familyParsers) (rootTag : String)
    (kids : List DNode) (hk : listOk true (fun _ => true) kids = true) (isOpen : Bool) (pw : WS) :
    addAll P rootTag kids false (walkInit P isOpen pw) ≠ .error .internal ∧
    ∀ w, addAll P rootTag kids false (walkInit P isOpen pw) = .ok w → w.st.finish P.S ≠ .error .internal :=
  PM.C19.walk_no_internal P (family_facts _ (family_rulesOk P hS).2).SchemaOk (family_rulesOk P hS).1 rootTag
    kids hk isOpen pw

end PM.Family.C19
