/-
  Family/C15.lean — the guarded theorems of Props/C15.lean for the bundled schema family: every schema-level
  hypothesis is discharged by the kernel-checked facts of lean/Gen/SchemaFacts.lean (regenerated on every run from the
  schemas the library compiles); what remains are the hypotheses about the document / step / DOM at hand.
  Written by tools/gen_family_corollaries.py from the statements in Props/C15.lean.
-/
import Props.C15
import Props.Family
import Gen.Guards.Det
import Gen.Guards.FillOk
import Gen.Guards.LeafEmpty
namespace PM.Family.C15
open PM
open PM.C15
open PM.Gen PM.Family PM.FromDom

theorem leafEmpty_of_B {S : Schema} (h : leafEmptyB S = true) : LeafEmpty S := by
  intro nt hnt hl
  simp only [leafEmptyB, List.all_eq_true, Bool.or_eq_true, Bool.not_eq_eq_eq_not, Bool.not_true] at h
  rcases h nt hnt with h1 | h1
  · rw [h1] at hl; cases hl
  · exact h1

theorem liveSchema_of_ok {S : Schema} (hok : FromDom.SchemaOk S) : LiveSchema S := by
  intro nt hnt
  obtain ⟨t, ht, rfl⟩ := List.getElem_of_mem hnt
  have ht' : t < S.nodes.size := by simpa using ht
  have hd : S.dfa t = S.nodes.toList[t].dfa := by simp [Schema.dfa, Schema.nodeType, ht']
  rw [← hd]
  refine ⟨hok.start t ht', fun q hq => ⟨hok.det t q, fun e he => hok.edge t q e he, ?_⟩⟩
  have := hok.fill t q hq
  intro hn; rw [hn] at this; cases this

theorem wrapWF_of_ok {S : Schema} (hok : FromDom.SchemaOk S) (t q : Nat) : WrapWF S (S.dfa t) q := by
  refine ⟨fun e he => (hok.edge t q e he).2, fun nt hnt e he => ?_⟩
  obtain ⟨w, hw, rfl⟩ := List.getElem_of_mem hnt
  have hw' : w < S.nodes.size := by simpa using hw
  have hd : S.dfa w = S.nodes.toList[w].dfa := by simp [Schema.dfa, Schema.nodeType, hw']
  rw [← hd] at he
  exact (hok.edge w 0 e he).2

/-- `PM.C15.findWrapping_complete` with its schema guards discharged for the bundled schema family -/
theorem findWrapping_complete (S : Schema) (hS : S ∈ familySchemas) (t : TypeId) (q : Nat) (target : TypeId)
    (chain : List TypeId) (hc : isWrapChain S (S.dfa t) q target chain = true) :
    findWrapping S (S.dfa t) q target ≠ none :=
  PM.C15.findWrapping_complete S (S.dfa t) q
    (wrapWF_of_ok (schemaOk_of_K _ (family_det _ hS) (family_fillOk _ hS)) t q) target chain hc

/-- `PM.C15.findWrapping_shortest_complete` with its schema guards discharged for the bundled schema family -/
theorem findWrapping_shortest_complete (S : Schema) (hS : S ∈ familySchemas) (t : TypeId) (q : Nat)
    (target : TypeId) (chain : List TypeId) (hc : isWrapChain S (S.dfa t) q target chain = true) :
    ∃ c, findWrapping S (S.dfa t) q target = some c ∧ isWrapChain S (S.dfa t) q target c = true ∧ c.length ≤ chain.length :=
  PM.C15.findWrapping_shortest_complete S (fun w => det_of_detB _ (family_det _ hS) w 0) (S.dfa t) q
    (wrapWF_of_ok (schemaOk_of_K _ (family_det _ hS) (family_fillOk _ hS)) t q) target chain hc

/-- `PM.C15.findWrappingTypes_eq` with its schema guards discharged for the bundled schema family -/
theorem findWrappingTypes_eq (S : Schema) (hS : S ∈ familySchemas) (t : TypeId) (q : Nat) (target : TypeId) :
    findWrappingTypes S (S.dfa t) q target = findWrapping S (S.dfa t) q target :=
  PM.C15.findWrappingTypes_eq S (S.dfa t) q
    (wrapWF_of_ok (schemaOk_of_K _ (family_det _ hS) (family_fillOk _ hS)) t q) target

/-- `PM.C15.findWrappingTypes_shortest_complete` with its schema guards discharged for the bundled schema family -/
theorem findWrappingTypes_shortest_complete (S : Schema) (hS : S ∈ familySchemas) (t : TypeId) (q : Nat)
    (target : TypeId) (chain : List TypeId) (hc : isWrapChain S (S.dfa t) q target chain = true) :
    ∃ c, findWrappingTypes S (S.dfa t) q target = some c ∧ isWrapChain S (S.dfa t) q target c = true ∧
    c.length ≤ chain.length :=
  PM.C15.findWrappingTypes_shortest_complete S (fun w => det_of_detB _ (family_det _ hS) w 0) (S.dfa t) q
    (wrapWF_of_ok (schemaOk_of_K _ (family_det _ hS) (family_fillOk _ hS)) t q) target chain hc

/-- `PM.C15.findWrappingTypes_sound_shortest` with its schema guards discharged for the bundled schema family -/
theorem findWrappingTypes_sound_shortest (S : Schema) (hS : S ∈ familySchemas) (t : TypeId) (q : Nat)
    (target : TypeId) (c : List TypeId) (h : findWrappingTypes S (S.dfa t) q target = some c) :
    isWrapChain S (S.dfa t) q target c = true ∧
    ∀ chain, isWrapChain S (S.dfa t) q target chain = true → c.length ≤ chain.length :=
  PM.C15.findWrappingTypes_sound_shortest S (fun w => det_of_detB _ (family_det _ hS) w 0) (S.dfa t) q
    (wrapWF_of_ok (schemaOk_of_K _ (family_det _ hS) (family_fillOk _ hS)) t q) target c h

/-- `PM.C15.findWrapping_sound` with its schema guards discharged for the bundled schema family -/
theorem findWrapping_sound (S : Schema) (hS : S ∈ familySchemas) (d : Dfa) (q : Nat) (target : TypeId)
    (chain : List TypeId) (h : findWrapping S d q target = some chain) :
    isWrapChain S d q target chain = true :=
  PM.C15.findWrapping_sound S (fun w => det_of_detB _ (family_det _ hS) w 0) d q target chain h

/-- `PM.C15.createAndFill_valid` with its schema guards discharged for the bundled schema family -/
theorem createAndFill_valid (S : Schema) (hS : S ∈ familySchemas) (fuel : Nat) (t : TypeId) (attrs : Attrs)
    (content : List Node) (marks : Marks) (n : Node) (h : S.createAndFill fuel t attrs content marks = .node n)
    (hmarks : canonicalMarks S (setFrom marks) = true) (hcontent : S.checkKids content = true)
    (hsz : ∀ c, c ∈ content → c.size ≠ 0) :
    S.checkNode n = true ∧ S.tyOf n = t ∧ n.marks = setFrom marks ∧
    computeAttrs (S.nodeType t).attrs attrs = .ok n.attrs ∧
    ∃ before after, n.kids = before ++ content ++ after ∧
    ∀ x, x ∈ before ++ after → x.isText = false ∧ x.marks = [] :=
  PM.C15.createAndFill_valid S (det_of_detB _ (family_det _ hS)) fuel t attrs content marks n h hmarks hcontent
    hsz

/-- `PM.C15.createAndFill_nothing_iff` with its schema guards discharged for the bundled schema family -/
theorem createAndFill_nothing_iff (S : Schema) (hS : S ∈ familySchemas) (fuel : Nat) (t : TypeId)
    (ht : t < S.nodes.size) (attrs : Attrs) (content : List Node) (marks : Marks) (a : Attrs)
    (hca : computeAttrs (S.nodeType t).attrs attrs = .ok a) (hsz : ∀ c, c ∈ content → c.size ≠ 0) :
    S.createAndFill (fuel + 1) t attrs content marks = .nothing ↔
    (content.all (fun c => (S.nodeType t).allowsMarks c.marks) = false ∨
    ∀ fill, isFill (S.dfa t) S.generatable 0 (S.types content) false fill = false) :=
  PM.C15.createAndFill_nothing_iff S (liveSchema_of_ok (schemaOk_of_K _ (family_det _ hS) (family_fillOk _ hS)))
    fuel t ht attrs content marks a hca hsz

/-- `PM.C15.createAndFill_raises` with its schema guards discharged for the bundled schema family -/
theorem createAndFill_raises (S : Schema) (hS : S ∈ familySchemas) (fuel : Nat) (t : TypeId) (attrs : Attrs)
    (content : List Node) (marks : Marks) (e : Err) (h : S.createAndFill fuel t attrs content marks = .raises e) :
    e = .valueError ∧ computeAttrs (S.nodeType t).attrs attrs = .error .valueError :=
  PM.C15.createAndFill_raises S (liveSchema_of_ok (schemaOk_of_K _ (family_det _ hS) (family_fillOk _ hS))) fuel
    t attrs content marks e h

/-- `PM.C15.createAndFillO_iff` with its schema guards discharged for the bundled schema family -/
theorem createAndFillO_iff (S : Schema) (hS : S ∈ familySchemas) (fuel : Nat) (t : TypeId)
    (ht : (S.nodeType t).isText = false) (n : Node) :
    PM.createAndFill S fuel t = some n ↔ S.createAndFill fuel t [] [] [] = .node n :=
  PM.C15.createAndFillO_iff S (leafEmpty_of_B (family_leafEmpty _ hS)) fuel t ht n

/-- `PM.C15.createAndFill0_iff` with its schema guards discharged for the bundled schema family -/
theorem createAndFill0_iff (S : Schema) (hS : S ∈ familySchemas) (fuel : Nat) (t : TypeId)
    (ht : (S.nodeType t).isText = false) (n : Node) :
    S.createAndFill0 fuel t = some n ↔ S.createAndFill fuel t [] [] [] = .node n :=
  PM.C15.createAndFill0_iff S (leafEmpty_of_B (family_leafEmpty _ hS)) fuel t ht n

/-- `PM.C15.createAndFillDom_iff` with its schema guards discharged for the bundled schema family -/
theorem createAndFillDom_iff (S : Schema) (hS : S ∈ familySchemas) (fuel : Nat) (t : TypeId)
    (ht : (S.nodeType t).isText = false) (n : Node) :
    FromDom.createAndFill S fuel t = .ok n ↔ S.createAndFill fuel t [] [] [] = .node n :=
  PM.C15.createAndFillDom_iff S (leafEmpty_of_B (family_leafEmpty _ hS)) fuel t ht n

/-- `PM.C15.createAndFillO_valid` with its schema guards discharged for the bundled schema family -/
theorem createAndFillO_valid (S : Schema) (hS : S ∈ familySchemas) (fuel : Nat) (t : TypeId)
    (ht : (S.nodeType t).isText = false) (n : Node) (h : PM.createAndFill S fuel t = some n) :
    FilledValid S t n :=
  PM.C15.createAndFillO_valid S (det_of_detB _ (family_det _ hS)) (leafEmpty_of_B (family_leafEmpty _ hS)) fuel
    t ht n h

/-- `PM.C15.createAndFill0_valid` with its schema guards discharged for the bundled schema family -/
theorem createAndFill0_valid (S : Schema) (hS : S ∈ familySchemas) (fuel : Nat) (t : TypeId)
    (ht : (S.nodeType t).isText = false) (n : Node) (h : S.createAndFill0 fuel t = some n) :
    FilledValid S t n :=
  PM.C15.createAndFill0_valid S (det_of_detB _ (family_det _ hS)) (leafEmpty_of_B (family_leafEmpty _ hS)) fuel
    t ht n h

/-- `PM.C15.createAndFillDom_valid` with its schema guards discharged for the bundled schema family -/
theorem createAndFillDom_valid (S : Schema) (hS : S ∈ familySchemas) (fuel : Nat) (t : TypeId)
    (ht : (S.nodeType t).isText = false) (n : Node) (h : FromDom.createAndFill S fuel t = .ok n) :
    FilledValid S t n :=
  PM.C15.createAndFillDom_valid S (det_of_detB _ (family_det _ hS)) (leafEmpty_of_B (family_leafEmpty _ hS))
    fuel t ht n h

/-- `PM.C15.fillBeforeNodes_valid` with its schema guards discharged for the bundled schema family -/
theorem fillBeforeNodes_valid (S : Schema) (hS : S ∈ familySchemas) (d : Dfa)
    (hd : ∀ q, ((d.edgesOf q).map (·.1)).Nodup) (q : Nat) (after : List TypeId) (toEnd : Bool) (ns : List Node)
    (h : fillBeforeNodes S d q after toEnd = some (some ns)) :
    isFill d S.generatable q after toEnd (S.types ns) = true ∧
    ∀ n, n ∈ ns → FilledValid S (S.tyOf n) n :=
  PM.C15.fillBeforeNodes_valid S (det_of_detB _ (family_det _ hS)) (leafEmpty_of_B (family_leafEmpty _ hS)) d hd
    q after toEnd ns h

/-- `PM.C15.fillNodesDom_valid` with its schema guards discharged for the bundled schema family -/
theorem fillNodesDom_valid (S : Schema) (hS : S ∈ familySchemas) (d : Dfa)
    (hd : ∀ q, ((d.edgesOf q).map (·.1)).Nodup) (q : Nat) (after : List TypeId) (toEnd : Bool) (ns : List Node)
    (h : FromDom.fillNodes S d q after toEnd = .ok (some ns)) :
    isFill d S.generatable q after toEnd (S.types ns) = true ∧
    ∀ n, n ∈ ns → FilledValid S (S.tyOf n) n :=
  PM.C15.fillNodesDom_valid S (det_of_detB _ (family_det _ hS)) (leafEmpty_of_B (family_leafEmpty _ hS)) d hd q
    after toEnd ns h

end PM.Family.C15
