/-
  Family/C06.lean — the guarded theorems of Props/C06.lean for the bundled schema family: every schema-level
  hypothesis is discharged by the kernel-checked facts of lean/Gen/SchemaFacts.lean (regenerated on every run from the
  schemas the library compiles); what remains are the hypotheses about the document / step / DOM at hand.
  Written by tools/gen_family_corollaries.py from the statements in Props/C06.lean.
-/
import Props.C06
import Props.Family
import Gen.SchemaBuilds
namespace PM.Family.C06
open PM
open PM.SchemaCompile PM.SchemaBuild PM.ParseC
open PM.SpecParse
open PM.C06
open PM.Gen PM.Family PM.FromDom

/-- `PM.C06.buildSchema_content_correct` with its schema guards discharged for the bundled schema family -/
theorem buildSchema_content_correct {spec : Spec} {S : Schema} (hS : (spec, S) ∈ familySpecs) (i : Nat)
    (hi : i < spec.nodes.length) :
    ∃ oe, parseC (nameTable spec) spec.nodes[i].content = .ok oe ∧ S.dfa i = contentDfa oe ∧
    (∀ w, (S.dfa i).accepts w = true ↔ w ∈ (contentRE oe).lang) ∧
    (∀ w, ((S.dfa i).run 0 w).isSome = true ↔ ∃ v, w ++ v ∈ (contentRE oe).lang) :=
  PM.C06.buildSchema_content_correct (family_builds (spec, S) hS) i hi

/-- `PM.C06.buildSchema_live` with its schema guards discharged for the bundled schema family -/
theorem buildSchema_live {spec : Spec} {S : Schema} (hS : (spec, S) ∈ familySpecs) :
    C15.LiveSchema S ∧ FromDom.Det S ∧ (∀ t, C15.DfaWF (S.dfa t)) ∧ (∀ t q, C15.WrapWF S (S.dfa t) q) :=
  PM.C06.buildSchema_live (family_builds (spec, S) hS)

/-- `PM.C06.buildSchema_completable` with its schema guards discharged for the bundled schema family -/
theorem buildSchema_completable {spec : Spec} {S : Schema} (hS : (spec, S) ∈ familySpecs) (i : Nat)
    (hi : i < spec.nodes.length) (oe : Option Expr)
    (hp : parseC (nameTable spec) spec.nodes[i].content = .ok oe) (w : List Nat)
    (hw : ∃ v, w ++ v ∈ (contentRE oe).lang) :
    ∃ v, (∀ t, t ∈ v → S.generatable t = true) ∧ w ++ v ∈ (contentRE oe).lang :=
  PM.C06.buildSchema_completable (family_builds (spec, S) hS) i hi oe hp w hw

/-- `PM.C06.buildSchema_wellFormed` with its schema guards discharged for the bundled schema family -/
theorem buildSchema_wellFormed {spec : Spec} {S : Schema} (hS : (spec, S) ∈ familySpecs) (i : Nat)
    (hi : i < spec.nodes.length) :
    WellFormedContent spec i hi :=
  PM.C06.buildSchema_wellFormed (family_builds (spec, S) hS) i hi

/-- `PM.C06.buildSchema_parses` with its schema guards discharged for the bundled schema family -/
theorem buildSchema_parses {spec : Spec} {S : Schema} (hS : (spec, S) ∈ familySpecs) (i : Nat)
    (hi : i < spec.nodes.length) :
    contentMatch spec spec.nodes[i].content = .ok (S.dfa i) :=
  PM.C06.buildSchema_parses (family_builds (spec, S) hS) i hi

/-- `PM.C06.buildSchema_tables` with its schema guards discharged for the bundled schema family -/
theorem buildSchema_tables {spec : Spec} {S : Schema} (hS : (spec, S) ∈ familySpecs) :
    compileSchema spec (S.nodes.toList.map (·.dfa)) = .ok S :=
  PM.C06.buildSchema_tables (family_builds (spec, S) hS)

/-- `PM.C06.buildSchema_nodeTable` with its schema guards discharged for the bundled schema family -/
theorem buildSchema_nodeTable {spec : Spec} {S : Schema} (hS : (spec, S) ∈ familySpecs) (i : Nat)
    (hi : i < spec.nodes.length) :
    (S.nodeType i).name = spec.nodes[i].name ∧
    (S.nodeType i).isText = (spec.nodes[i].name == "text") ∧
    (S.nodeType i).isInline = (spec.nodes[i].inline || spec.nodes[i].name == "text") ∧
    (S.nodeType i).isLeaf = contentEmpty spec.nodes[i].content ∧
    (S.nodeType i).isAtom = ((S.nodeType i).isLeaf || spec.nodes[i].atom) ∧
    (S.nodeType i).isolating = spec.nodes[i].isolating ∧
    (S.nodeType i).defining = spec.nodes[i].defining ∧
    (S.nodeType i).code = spec.nodes[i].code ∧
    contentMatch spec spec.nodes[i].content = .ok (S.dfa i) ∧
    ((S.nodeType i).isLeaf = true ↔ S.dfa i = emptyMatch ∧ (tokenize spec.nodes[i].content).isEmpty = true) ∧
    (S.nodeType i).inlineContent = inlineContentOf spec.nodes (S.dfa i) :=
  PM.C06.buildSchema_nodeTable (family_builds (spec, S) hS) i hi

/-- `PM.C06.buildSchema_content_spec` with its schema guards discharged for the bundled schema family -/
theorem buildSchema_content_spec {spec : Spec} {S : Schema} (hS : (spec, S) ∈ familySpecs) (i : Nat)
    (hi : i < spec.nodes.length) (hp : PlainNumbers spec.nodes[i].content) :
    ∃ r, specParse (nameTable spec) spec.nodes[i].content = .ok r ∧
    (∀ w, (S.dfa i).accepts w = true ↔ w ∈ r.lang) ∧
    (∀ w, ((S.dfa i).run 0 w).isSome = true ↔ ∃ v, w ++ v ∈ r.lang) ∧
    (∀ w, (∃ v, w ++ v ∈ r.lang) → ∃ v, (∀ t, t ∈ v → S.generatable t = true) ∧ w ++ v ∈ r.lang) :=
  PM.C06.buildSchema_content_spec (family_builds (spec, S) hS) i hi hp

end PM.Family.C06
