/-
  Family/C19RoundTrip.lean — the export→import round-trip theorem (Props/C19.lean: `roundtrip`, `roundtrip_of_parts`) for
  the *actual* bundled schemas: the parse rules and `toDOM` functions of `prosemirror.schema.basic` and of the list schema
  (`prosemirror.test_builder.test_schema`: basic + `add_list_nodes`) are Lean data regenerated from /repo on every run
  (lean/Gen/RoundTrip.lean, written by harness/translate_schemas.py from harness/rt_tables.py — the same tables the tie of
  harness/props/c19.py sends to the model driver with every round-trip case); the schema part of the theorem's hypothesis is
  decided by the kernel there (`basic_rtSchemaOk`, `list_rtSchemaOk`).  What remains is the document part `rtDocOk`.
  Hand-written (not produced by tools/gen_family_corollaries.py); built and audited by the C19 check's family phase.
-/
import Props.C19
import Gen.RoundTrip
namespace PM.Family.C19RoundTrip
open PM PM.Dom PM.RoundTrip PM.Gen.Schemas PM.Gen.Parsers PM.Gen.RoundTrip

/-- **export then import is the identity for the bundled basic schema**: every document of `prosemirror.schema.basic` that
    passes the document part of the hypothesis — valid, normalised, whitespace-normal text, marks on inline leaves, image /
    link / heading attributes the rules carry (`src`, `title`; `href`; `level` 1–6) — is parsed back from its own HTML -/
theorem roundtrip_basic (doc : Node) (h : rtDocOk rBasic dBasic doc = true) : roundTrip rBasic dBasic doc = .ok doc :=
  PM.C19.roundtrip_of_parts rBasic dBasic doc basic_rtSchemaOk h

/-- the same for the list schema (basic + ordered_list / bullet_list / list_item) -/
theorem roundtrip_list (doc : Node) (h : rtDocOk rList dList doc = true) : roundTrip rList dList doc = .ok doc :=
  PM.C19.roundtrip_of_parts rList dList doc list_rtSchemaOk h

/-- the same for the basic schema with marks allowed on `doc` (harness/schemas.py: "marks-on-doc") -/
theorem roundtrip_marksOnDoc (doc : Node) (h : rtDocOk rMarksOnDoc dMarksOnDoc doc = true) :
    roundTrip rMarksOnDoc dMarksOnDoc doc = .ok doc :=
  PM.C19.roundtrip_of_parts rMarksOnDoc dMarksOnDoc doc marksOnDoc_rtSchemaOk h

/-- for these schemas the document part is the whole hypothesis `rtOk` of the general theorem -/
theorem rtDocOk_basic_eq (doc : Node) : rtDocOk rBasic dBasic doc = rtOk rBasic dBasic doc :=
  PM.C19.roundtrip_parts_iff rBasic dBasic doc basic_rtSchemaOk

theorem rtDocOk_list_eq (doc : Node) : rtDocOk rList dList doc = rtOk rList dList doc :=
  PM.C19.roundtrip_parts_iff rList dList doc list_rtSchemaOk

/-- what the schema part established for `basic`, as a table (node type, attributes, tag, `preserve_whitespace` of the
    rule that reads it back): paragraph ↔ `p`, blockquote, `hr`, heading levels 1–6 ↔ `h1`–`h6`, code_block ↔ `pre`
    (`"full"`), hard_break ↔ `br`.  `image` has no row (no pattern: `src` has no default): checked per document -/
theorem basic_rtForms : (formTable rBasic dBasic).map (fun (r : TypeId × Attrs × Option (String × FromDom.WS)) =>
      ((sBasic.nodeType r.1).name, r.2.1, r.2.2)) =
    [("paragraph", [], some ("p", .unset)), ("blockquote", [], some ("blockquote", .unset)),
     ("horizontal_rule", [], some ("hr", .unset)),
     ("heading", [("level", "1")], some ("h1", .unset)), ("heading", [("level", "1")], some ("h1", .unset)),
     ("heading", [("level", "2")], some ("h2", .unset)), ("heading", [("level", "3")], some ("h3", .unset)),
     ("heading", [("level", "4")], some ("h4", .unset)), ("heading", [("level", "5")], some ("h5", .unset)),
     ("heading", [("level", "6")], some ("h6", .unset)), ("code_block", [], some ("pre", .full)),
     ("hard_break", [], some ("br", .unset))] := by
  decide +kernel

/-- the mark patterns of `basic`: em, strong, code (link has none: `href` has no default) -/
theorem basic_rtMarks : (markPatterns rBasic).map (fun m => ((sBasic.markType m.ty).name, m.attrs)) =
    [("em", []), ("strong", []), ("code", [])] := by
  decide +kernel

/-! ## whole documents through the corollary

  The documents are written with type *names* and the attributes *given* (`el` / `lf` / `tx` / `mk` look the type up and
  complete / order the attributes as `compute_attrs` does), so that they stay the same documents when /repo reorders a spec
  dict or adds an attribute with a default. -/

def nid (S : Schema) (name : String) : TypeId :=
  ((List.range S.nodes.size).find? (fun i => (S.nodeType i).name == name)).getD 0
def mid (S : Schema) (name : String) : MarkTypeId :=
  ((List.range S.marks.size).find? (fun i => (S.markType i).name == name)).getD 0
def nattrs (S : Schema) (name : String) (given : Attrs) : Attrs :=
  (okAttrs (computeAttrs (S.nodeType (nid S name)).attrs given)).getD []
/-- a mark by name -/
def mk (S : Schema) (name : String) (given : Attrs := []) : Mark :=
  ⟨mid S name, (okAttrs (computeAttrs (S.markType (mid S name)).attrs given)).getD []⟩
def el (S : Schema) (name : String) (given : Attrs) (kids : List Node) : Node := .elem (nid S name) (nattrs S name given) [] kids
def lf (S : Schema) (name : String) (given : Attrs := []) (marks : Marks := []) : Node := .leaf (nid S name) (nattrs S name given) marks
def tx (s : String) (marks : Marks := []) : Node := .text (unitsOfChars s.toList) marks
def html (S : Schema) (D : ToDom) (doc : Node) : String := String.ofList (renderAll (serializeDoc S D doc))

/-- doc(p(em("a "), strong("b"), " ", em+strong("c d"))): differently marked words separated by spaces -/
def docWords : Node :=
  el sBasic "doc" [] [el sBasic "paragraph" [] [tx "a " [mk sBasic "em"], tx "b" [mk sBasic "strong"], tx " ",
    tx "c d" [mk sBasic "em", mk sBasic "strong"]]]
theorem roundtrip_words : roundTrip rBasic dBasic docWords = .ok docWords := roundtrip_basic docWords (by decide +kernel)
theorem html_words : html sBasic dBasic docWords = "<p><em>a </em><strong>b</strong> <em><strong>c d</strong></em></p>" := by
  decide +kernel

/-- doc(code_block("def f():\n    return 1\n\n\tx\n")): newlines, indentation, a tab -/
def docCode : Node := el sBasic "doc" [] [el sBasic "code_block" [] [tx "def f():\n    return 1\n\n\tx\n"]]
theorem roundtrip_code : roundTrip rBasic dBasic docCode = .ok docCode := roundtrip_basic docCode (by decide +kernel)
theorem html_code : html sBasic dBasic docCode = "<pre><code>def f():\n    return 1\n\n\tx\n</code></pre>" := by decide +kernel

/-- doc(p("see ", image(src="a.png", title="T & \"q\""), " here")): an image with attributes (escaped in the HTML); the
    text after it may start with a space -/
def docImage : Node :=
  el sBasic "doc" [] [el sBasic "paragraph" [] [tx "see ",
    lf sBasic "image" [("src", "\"a.png\""), ("title", "\"T & \\\"q\\\"\"")], tx " here"]]
theorem roundtrip_image : roundTrip rBasic dBasic docImage = .ok docImage := roundtrip_basic docImage (by decide +kernel)
-- an `alt` text is emitted but no rule of the port reads it back: such an image does not pass the document part
theorem image_alt_not_carried : rtDocOk rBasic dBasic
    (el sBasic "doc" [] [el sBasic "paragraph" [] [lf sBasic "image" [("src", "\"a.png\""), ("alt", "\"x\"")]]]) = false := by
  decide +kernel

/-- doc(p(link(href="http://x/?a=1&b=2")("click"), " now")) -/
def docLink : Node :=
  el sBasic "doc" [] [el sBasic "paragraph" [] [tx "click" [mk sBasic "link" [("href", "\"http://x/?a=1&b=2\"")]], tx " now"]]
theorem roundtrip_link : roundTrip rBasic dBasic docLink = .ok docLink := roundtrip_basic docLink (by decide +kernel)
theorem html_link : html sBasic dBasic docLink = "<p><a href=\"http://x/?a=1&amp;b=2\">click</a> now</p>" := by decide +kernel

/-- doc(h3("Title"), blockquote(p("q")), hr) -/
def docHeading : Node :=
  el sBasic "doc" [] [el sBasic "heading" [("level", "3")] [tx "Title"],
                      el sBasic "blockquote" [] [el sBasic "paragraph" [] [tx "q"]], lf sBasic "horizontal_rule"]
theorem roundtrip_heading : roundTrip rBasic dBasic docHeading = .ok docHeading := roundtrip_basic docHeading (by decide +kernel)
theorem html_heading : html sBasic dBasic docHeading = "<h3>Title</h3><blockquote><p>q</p></blockquote><hr>" := by decide +kernel
-- a heading of level 7 is emitted as `<h7>`, which no rule reads: not in the document part
theorem heading7_not_carried : rtDocOk rBasic dBasic (el sBasic "doc" [] [el sBasic "heading" [("level", "7")] []]) = false := by
  decide +kernel

/-- doc(p("a", hard_break, "b", hard_break)) -/
def docBreak : Node :=
  el sBasic "doc" [] [el sBasic "paragraph" [] [tx "a", lf sBasic "hard_break", tx "b", lf sBasic "hard_break"]]
theorem roundtrip_break : roundTrip rBasic dBasic docBreak = .ok docBreak := roundtrip_basic docBreak (by decide +kernel)
theorem html_break : html sBasic dBasic docBreak = "<p>a<br>b<br></p>" := by decide +kernel
-- a space after a hard break is dropped by the parser: not whitespace-normal
theorem break_space_not_normal : rtDocOk rBasic dBasic
    (el sBasic "doc" [] [el sBasic "paragraph" [] [tx "a", lf sBasic "hard_break", tx " b"]]) = false := by decide +kernel

/-- list schema: doc(ul(li(p("a"), ol(li(p(em("b"))), li(p("c")))), li(p("d")))): a nested list -/
def docList : Node :=
  el sList "doc" [] [el sList "bullet_list" [] [
    el sList "list_item" [] [el sList "paragraph" [] [tx "a"],
      el sList "ordered_list" [] [el sList "list_item" [] [el sList "paragraph" [] [tx "b" [mk sList "em"]]],
                                  el sList "list_item" [] [el sList "paragraph" [] [tx "c"]]]],
    el sList "list_item" [] [el sList "paragraph" [] [tx "d"]]]]
theorem roundtrip_nested_list : roundTrip rList dList docList = .ok docList := roundtrip_list docList (by decide +kernel)
theorem html_nested_list : html sList dList docList =
    "<ul><li><p>a</p><ol><li><p><em>b</em></p></li><li><p>c</p></li></ol></li><li><p>d</p></li></ul>" := by decide +kernel
-- the port's `ol` rule has no `getAttrs`: a start number is emitted (`<ol start="3">`) but not read back
def docStart : Node :=
  el sList "doc" [] [el sList "ordered_list" [("order", "3")] [el sList "list_item" [] [el sList "paragraph" [] []]]]
theorem list_start_not_carried : rtDocOk rList dList docStart = false := by decide +kernel
theorem html_list_start : html sList dList docStart = "<ol start=\"3\"><li><p></p></li></ol>" := by decide +kernel

end PM.Family.C19RoundTrip
