/-
  Family/C19RoundTrip.lean — the export→import round-trip theorem (Props/C19.lean: `roundtrip`, `roundtrip_of_parts`) for
  the *actual* bundled schemas: the parse rules and `toDOM` functions of `prosemirror.schema.basic` and of the list schema
  (`prosemirror.test_builder.test_schema`: basic + `add_list_nodes`) are Lean data regenerated from /repo on every run
  (lean/Gen/RoundTrip.lean, written by harness/translate_schemas.py from harness/rt_tables.py — the same tables the tie of
  harness/props/c19.py sends to the model driver with every round-trip case); the schema part of the theorem's hypothesis is
  decided by the kernel there (`basic_rtSchemaOk`, `list_rtSchemaOk`).  What remains is the document part `rtDocOk`.
  Hand-written (not produced by tools/gen_family_corollaries.py); built and audited by the C19 check's family phase.
-/
import Props.C19
import Gen.RoundTrip
namespace PM.Family.C19RoundTrip
open PM PM.Dom PM.RoundTrip PM.Gen.Schemas PM.Gen.Parsers PM.Gen.RoundTrip

/-- **export then import is the identity for the bundled basic schema**: every document of `prosemirror.schema.basic` that
    passes the document part of the hypothesis — valid, normalised, whitespace-normal text, marks on inline leaves, image /
    link / heading attributes the rules carry (`src`, `title`; `href`; `level` 1–6) — is parsed back from its own HTML -/
theorem roundtrip_basic (doc : Node) (h : rtDocOk rBasic dBasic doc = true) : roundTrip rBasic dBasic doc = .ok doc :=
  PM.C19.roundtrip_of_parts rBasic dBasic doc basic_rtSchemaOk h

/-- the same for the list schema (basic + ordered_list / bullet_list / list_item) -/
theorem roundtrip_list (doc : Node) (h : rtDocOk rList dList doc = true) : roundTrip rList dList doc = .ok doc :=
  PM.C19.roundtrip_of_parts rList dList doc list_rtSchemaOk h

/-- for these schemas the document part is the whole hypothesis `rtOk` of the general theorem -/
theorem rtDocOk_basic_eq (doc : Node) : rtDocOk rBasic dBasic doc = rtOk rBasic dBasic doc :=
  PM.C19.roundtrip_parts_iff rBasic dBasic doc basic_rtSchemaOk

theorem rtDocOk_list_eq (doc : Node) : rtDocOk rList dList doc = rtOk rList dList doc :=
  PM.C19.roundtrip_parts_iff rList dList doc list_rtSchemaOk

/-- what the schema part established for `basic`, as a table (node type, attributes, tag, `preserve_whitespace` of the
    rule that reads it back): paragraph ↔ `p`, blockquote, `hr`, heading levels 1–6 ↔ `h1`–`h6`, code_block ↔ `pre`
    (`"full"`), hard_break ↔ `br`.  `image` has no row (no pattern: `src` has no default): checked per document -/
theorem basic_rtForms : formTable rBasic dBasic =
    [(1, [], some ("p", .unset)), (2, [], some ("blockquote", .unset)), (3, [], some ("hr", .unset)),
     (4, [("level", "1")], some ("h1", .unset)), (4, [("level", "1")], some ("h1", .unset)),
     (4, [("level", "2")], some ("h2", .unset)), (4, [("level", "3")], some ("h3", .unset)),
     (4, [("level", "4")], some ("h4", .unset)), (4, [("level", "5")], some ("h5", .unset)),
     (4, [("level", "6")], some ("h6", .unset)), (5, [], some ("pre", .full)), (8, [], some ("br", .unset))] := by
  decide +kernel

/-- the mark patterns of `basic`: em, strong, code (link has none: `href` has no default) -/
theorem basic_rtMarks : markPatterns rBasic = [⟨1, []⟩, ⟨2, []⟩, ⟨3, []⟩] := by
  decide +kernel

/-! ## whole documents through the corollary (type ids of `basic`: doc 0, paragraph 1, blockquote 2, horizontal_rule 3,
    heading 4, code_block 5, text 6, image 7, hard_break 8; of `list` also ordered_list 9, bullet_list 10, list_item 11;
    marks: link 0, em 1, strong 2, code 3) -/

def u (s : String) : List Nat := unitsOfChars s.toList

/-- doc(p(em("a "), strong("b"), " ", em+strong("c d"))): differently marked words separated by spaces -/
def docWords : Node :=
  .elem 0 [] [] [.elem 1 [] [] [.text [97, 32] [⟨1, []⟩], .text [98] [⟨2, []⟩], .text [32] [], .text [99, 32, 100] [⟨1, []⟩, ⟨2, []⟩]]]
theorem roundtrip_words : roundTrip rBasic dBasic docWords = .ok docWords := roundtrip_basic docWords (by decide +kernel)
theorem html_words : String.ofList (renderAll (serializeDoc sBasic dBasic docWords)) =
    "<p><em>a </em><strong>b</strong> <em><strong>c d</strong></em></p>" := by decide +kernel

/-- doc(code_block("def f():\n    return 1\n\n\tx\n")): newlines, indentation, a tab -/
def docCode : Node :=
  .elem 0 [] [] [.elem 5 [] [] [.text [100, 101, 102, 32, 102, 40, 41, 58, 10, 32, 32, 32, 32, 114, 101, 116, 117, 114, 110, 32, 49, 10, 10, 9, 120, 10] []]]
theorem roundtrip_code : roundTrip rBasic dBasic docCode = .ok docCode := roundtrip_basic docCode (by decide +kernel)
theorem html_code : String.ofList (renderAll (serializeDoc sBasic dBasic docCode)) =
    "<pre><code>def f():\n    return 1\n\n\tx\n</code></pre>" := by decide +kernel

/-- doc(p("see ", image(src="a.png", title="T & \"q\""), " here")): an image with attributes; the text after it may start with a space -/
def docImage : Node :=
  .elem 0 [] [] [.elem 1 [] [] [.text [115, 101, 101, 32] [],
    .leaf 7 [("src", "\"a.png\""), ("alt", "null"), ("title", "\"T & \\\"q\\\"\"")] [], .text [32, 104, 101, 114, 101] []]]
theorem roundtrip_image : roundTrip rBasic dBasic docImage = .ok docImage := roundtrip_basic docImage (by decide +kernel)
theorem html_image : String.ofList (renderAll (serializeDoc sBasic dBasic docImage)) =
    "<p>see <img src=\"a.png\" title=\"T &amp; &quot;q&quot;\"> here</p>" := by decide +kernel
-- an `alt` text is emitted but no rule of the port reads it back: such an image does not pass the document part
theorem image_alt_not_carried : rtDocOk rBasic dBasic
    (.elem 0 [] [] [.elem 1 [] [] [.leaf 7 [("src", "\"a.png\""), ("alt", "\"x\""), ("title", "null")] []]]) = false := by decide +kernel

/-- doc(p(link(href="http://x/?a=1&b=2")("click"), " now")) -/
def docLink : Node :=
  .elem 0 [] [] [.elem 1 [] [] [.text [99, 108, 105, 99, 107] [⟨0, [("href", "\"http://x/?a=1&b=2\""), ("title", "null")]⟩],
    .text [32, 110, 111, 119] []]]
theorem roundtrip_link : roundTrip rBasic dBasic docLink = .ok docLink := roundtrip_basic docLink (by decide +kernel)
theorem html_link : String.ofList (renderAll (serializeDoc sBasic dBasic docLink)) =
    "<p><a href=\"http://x/?a=1&amp;b=2\">click</a> now</p>" := by decide +kernel

/-- doc(h3("Title"), blockquote(p("q")), hr) -/
def docHeading : Node :=
  .elem 0 [] [] [.elem 4 [("level", "3")] [] [.text [84, 105, 116, 108, 101] []],
                 .elem 2 [] [] [.elem 1 [] [] [.text [113] []]], .leaf 3 [] []]
theorem roundtrip_heading : roundTrip rBasic dBasic docHeading = .ok docHeading := roundtrip_basic docHeading (by decide +kernel)
theorem html_heading : String.ofList (renderAll (serializeDoc sBasic dBasic docHeading)) =
    "<h3>Title</h3><blockquote><p>q</p></blockquote><hr>" := by decide +kernel
-- a heading of level 7 is emitted as `<h7>`, which no rule reads: not in the document part
theorem heading7_not_carried : rtDocOk rBasic dBasic (.elem 0 [] [] [.elem 4 [("level", "7")] [] []]) = false := by decide +kernel

/-- doc(p("a", hard_break, "b", hard_break)) -/
def docBreak : Node :=
  .elem 0 [] [] [.elem 1 [] [] [.text [97] [], .leaf 8 [] [], .text [98] [], .leaf 8 [] []]]
theorem roundtrip_break : roundTrip rBasic dBasic docBreak = .ok docBreak := roundtrip_basic docBreak (by decide +kernel)
theorem html_break : String.ofList (renderAll (serializeDoc sBasic dBasic docBreak)) = "<p>a<br>b<br></p>" := by decide +kernel
-- a space after a hard break is dropped by the parser: not whitespace-normal
theorem break_space_not_normal : rtDocOk rBasic dBasic
    (.elem 0 [] [] [.elem 1 [] [] [.text [97] [], .leaf 8 [] [], .text [32, 98] []]]) = false := by decide +kernel

/-- list schema (its `doc` has an attribute `meta`, default `None`): doc(ul(li(p("a"), ol(li(p(em("b"))), li(p("c")))), li(p("d")))): a nested list -/
def docList : Node :=
  .elem 0 [("meta", "null")] [] [.elem 10 [] [] [
    .elem 11 [] [] [.elem 1 [] [] [.text [97] []],
                    .elem 9 [("order", "1")] [] [.elem 11 [] [] [.elem 1 [] [] [.text [98] [⟨1, []⟩]]],
                                                 .elem 11 [] [] [.elem 1 [] [] [.text [99] []]]]],
    .elem 11 [] [] [.elem 1 [] [] [.text [100] []]]]]
theorem roundtrip_nested_list : roundTrip rList dList docList = .ok docList := roundtrip_list docList (by decide +kernel)
theorem html_nested_list : String.ofList (renderAll (serializeDoc sList dList docList)) =
    "<ul><li><p>a</p><ol><li><p><em>b</em></p></li><li><p>c</p></li></ol></li><li><p>d</p></li></ul>" := by decide +kernel
-- the port's `ol` rule has no `getAttrs`: a start number is emitted (`<ol start="3">`) but not read back
theorem list_start_not_carried : rtDocOk rList dList
    (.elem 0 [("meta", "null")] [] [.elem 9 [("order", "3")] [] [.elem 11 [] [] [.elem 1 [] [] []]]]) = false := by decide +kernel
theorem html_list_start : String.ofList (renderAll (serializeDoc sList dList
    (.elem 0 [("meta", "null")] [] [.elem 9 [("order", "3")] [] [.elem 11 [] [] [.elem 1 [] [] []]]]))) = "<ol start=\"3\"><li><p></p></li></ol>" := by
  decide +kernel

end PM.Family.C19RoundTrip
