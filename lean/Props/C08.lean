/-
  Props/C08.lean — C08: position maps and mappings obey the documented mapping algebra.

  Property theorems only (helper lemmas live in Proofs/Map.lean, MapMirror.lean, MapAlgebra.lean,
  MapCompose.lean, MirrorTable.lean).  Coordinates of range `i` of a
  map are given in closed form by prefix sums (`quad`), independently of the scanning loop of
  `StepMap._map`; the theorems say the loop computes exactly the documented rule over them.
-/
import PM.Map
import Proofs.Map
import Proofs.MapMirror
import Proofs.MapAlgebra
import Proofs.MapCompose
import Proofs.MirrorTable
namespace PM.C08
open PM

/-- stored ranges are sorted, have non-negative sizes and do not overlap (they may touch) -/
def WF : Int → List Range → Prop
  | _, [] => True
  | lo, r :: rest => lo ≤ r.1 ∧ 0 ≤ r.2.1 ∧ 0 ≤ r.2.2 ∧ WF (r.1 + r.2.1) rest

/-- consecutive ranges are separated by at least one untouched position -/
def StrictWF : Int → List Range → Prop
  | _, [] => True
  | lo, r :: rest => lo ≤ r.1 ∧ 0 ≤ r.2.1 ∧ 0 ≤ r.2.2 ∧ StrictWF (r.1 + r.2.1 + 1) rest

/-- Σ_{j<i} (new_j − old_j) in stored orientation -/
def shiftBefore (rs : List Range) (i : Nat) : Int := ((rs.take i).map (fun r => r.2.2 - r.2.1)).sum

structure Quad where
  oldStart : Int
  oldEnd   : Int
  newStart : Int
  newEnd   : Int
deriving DecidableEq, Repr

/-- closed-form coordinates of range `i` in the orientation of the map -/
def quad (m : StepMap) (i : Nat) : Quad :=
  let r := m.ranges[i]!
  let sh := shiftBefore m.ranges i
  if m.inverted then ⟨r.1 + sh, r.1 + sh + r.2.2, r.1, r.1 + r.2.1⟩
  else ⟨r.1, r.1 + r.2.1, r.1 + sh, r.1 + sh + r.2.2⟩

/-- shift applied to a position lying after the first `k` ranges, in the orientation of the map -/
def shiftAfter (m : StepMap) (k : Nat) : Int :=
  if m.inverted then - shiftBefore m.ranges k else shiftBefore m.ranges k

/-- the association side the rule uses inside range `q` -/
def sideOf (q : Quad) (pos assoc : Int) : Int :=
  if q.oldStart = q.oldEnd then assoc
  else if pos = q.oldStart then -1
  else if pos = q.oldEnd then 1
  else assoc

/-- the documented result for a position inside (or at a boundary of) range `i` -/
def insideResult (q : Quad) (i : Nat) (pos assoc : Int) : MapResult :=
  { pos := if sideOf q pos assoc < 0 then q.newStart else q.newEnd
    delInfo :=
      let d0 := if pos = q.oldStart then DEL_AFTER else if pos = q.oldEnd then DEL_BEFORE else DEL_ACROSS
      if (if assoc < 0 then pos ≠ q.oldStart else pos ≠ q.oldEnd) then d0 ||| DEL_SIDE else d0
    recover := if pos = (if assoc < 0 then q.oldStart else q.oldEnd) then none else some (i, pos - q.oldStart) }

/-! glue between the definitions above and the list-level notions of `Proofs/Map.lean` -/

private theorem WF_iff : ∀ (rs : List Range) (lo : Int), WF lo rs ↔ RWF lo rs
  | [], _ => Iff.rfl
  | r :: rest, lo => by simp only [WF, RWF, WF_iff rest]

private theorem StrictWF_iff : ∀ (rs : List Range) (lo : Int), StrictWF lo rs ↔ RSWF lo rs
  | [], _ => Iff.rfl
  | r :: rest, lo => by simp only [StrictWF, RSWF, StrictWF_iff rest]

private theorem shiftBefore_eq (rs : List Range) (i : Nat) : shiftBefore rs i = shiftB rs i := rfl

private theorem quad_oldStart (m : StepMap) (i : Nat) :
    (quad m i).oldStart = qOS m.inverted 0 m.ranges i := by
  unfold quad; cases m.inverted <;> simp [qOS, shiftBefore_eq]

private theorem quad_oldEnd (m : StepMap) (i : Nat) :
    (quad m i).oldEnd = qOE m.inverted 0 m.ranges i := by
  unfold quad; cases m.inverted <;> simp [qOE, qOS, shiftBefore_eq, Range.oldSize]

private theorem quad_newStart (m : StepMap) (i : Nat) :
    (quad m i).newStart = qOS (!m.inverted) (-0) m.ranges i := by
  unfold quad; cases m.inverted <;> simp [qOS, shiftBefore_eq]

private theorem quad_newEnd (m : StepMap) (i : Nat) :
    (quad m i).newEnd = qOE (!m.inverted) (-0) m.ranges i := by
  unfold quad; cases m.inverted <;> simp [qOE, qOS, shiftBefore_eq, Range.oldSize]

private theorem insideResult_eq (q : Quad) (i : Nat) (pos assoc : Int) :
    insideResult q i pos assoc = insideRes q.oldStart q.oldEnd q.newStart q.newEnd i pos assoc := rfl

/-- every position is either inside a first range or strictly between two consecutive ranges -/
private theorem locate_quad (m : StepMap) (pos : Int) :
    (∃ i, i < m.ranges.length ∧ (∀ j, j < i → (quad m j).oldEnd < pos) ∧
      (quad m i).oldStart ≤ pos ∧ pos ≤ (quad m i).oldEnd) ∨
    (∃ k, k ≤ m.ranges.length ∧ (∀ j, j < k → (quad m j).oldEnd < pos) ∧
      (k < m.ranges.length → pos < (quad m k).oldStart)) :=
  locate (fun i => (quad m i).oldStart) (fun i => (quad m i).oldEnd) pos m.ranges.length

/-- **for_each** enumerates exactly the closed-form coordinates, in order (any map). -/
theorem forEach_spec (m : StepMap) :
    m.forEach = (List.range m.ranges.length).map
      (fun i => ((quad m i).oldStart, (quad m i).oldEnd, (quad m i).newStart, (quad m i).newEnd)) := by
  unfold StepMap.forEach
  rw [forEachAux_spec]
  simp only [quad_oldStart, quad_oldEnd, quad_newStart, quad_newEnd]

/-- **The rule, outside the ranges**: a position after the first `k` ranges and before range `k`
    is shifted by the accumulated size difference, with no deletion info and no recover value. -/
theorem map_outside (m : StepMap) (hwf : WF 0 m.ranges) (pos assoc : Int) (k : Nat)
    (hk : k ≤ m.ranges.length)
    (hbefore : ∀ j, j < k → (quad m j).oldEnd < pos)
    (hafter : k < m.ranges.length → pos < (quad m k).oldStart) :
    m.mapResult pos assoc = { pos := pos + shiftAfter m k, delInfo := 0, recover := none } := by
  unfold StepMap.mapResult
  simp only [quad_oldStart, quad_oldEnd] at hbefore hafter
  rw [mapAux_outside m.inverted pos assoc m.ranges 0 0 0 k ((WF_iff _ _).1 hwf) hk hbefore hafter]
  simp only [shiftAfter, shiftBefore_eq, Int.add_zero]

/-- **The rule, inside a range**: the first range whose closed old interval contains the position
    decides; start or end of the replacement by association side; deletion flags and recover value
    as documented. -/
theorem map_inside (m : StepMap) (hwf : WF 0 m.ranges) (pos assoc : Int) (i : Nat)
    (hi : i < m.ranges.length)
    (hfirst : ∀ j, j < i → (quad m j).oldEnd < pos)
    (h1 : (quad m i).oldStart ≤ pos) (h2 : pos ≤ (quad m i).oldEnd) :
    m.mapResult pos assoc = insideResult (quad m i) i pos assoc := by
  unfold StepMap.mapResult
  rw [insideResult_eq]
  simp only [quad_oldStart, quad_oldEnd, quad_newStart, quad_newEnd] at *
  rw [mapAux_inside m.inverted pos assoc m.ranges 0 0 0 i ((WF_iff _ _).1 hwf) hi hfirst h1 h2,
    Nat.zero_add]

/-- **Monotonicity** (same association side). -/
theorem map_mono (m : StepMap) (hwf : WF 0 m.ranges) (p q assoc : Int) (hpq : p ≤ q) :
    m.map p assoc ≤ m.map q assoc := by
  exact mapAux_mono m.inverted p q assoc hpq m.ranges 0 0 0 ((WF_iff _ _).1 hwf)

/-- `deleted` is set exactly when the token on the association side of the position was deleted. -/
theorem deleted_spec (m : StepMap) (hwf : WF 0 m.ranges) (pos assoc : Int) :
    (m.mapResult pos assoc).deleted = true ↔
      ∃ i, i < m.ranges.length ∧ (∀ j, j < i → (quad m j).oldEnd < pos) ∧
        (quad m i).oldStart ≤ pos ∧ pos ≤ (quad m i).oldEnd ∧
        (if assoc < 0 then pos ≠ (quad m i).oldStart else pos ≠ (quad m i).oldEnd) := by
  constructor
  · intro hd
    rcases locate_quad m pos with ⟨i, hi, hf, h1, h2⟩ | ⟨k, hk, hb, ha⟩
    · refine ⟨i, hi, hf, h1, h2, ?_⟩
      rw [map_inside m hwf pos assoc i hi hf h1 h2, insideResult_eq, insideRes_deleted] at hd
      exact hd
    · rw [map_outside m hwf pos assoc k hk hb ha] at hd
      simp [MapResult.deleted] at hd
  · rintro ⟨i, hi, hf, h1, h2, hc⟩
    rw [map_inside m hwf pos assoc i hi hf h1 h2, insideResult_eq, insideRes_deleted]
    exact hc

/-- under strict separation, the start of a range maps (to the left) to its new start -/
private theorem map_at_start (m : StepMap) (hwf : StrictWF 0 m.ranges) (i : Nat)
    (hi : i < m.ranges.length) (assoc : Int) (ha : assoc < 0) :
    m.map (quad m i).oldStart assoc = (quad m i).newStart := by
  have hw : WF 0 m.ranges := (WF_iff _ _).2 ((StrictWF_iff _ _).1 hwf).toRWF
  have hsep : ∀ j, j < i → (quad m j).oldEnd < (quad m i).oldStart := fun j hj => by
    rw [quad_oldEnd, quad_oldStart]
    exact qOE_lt_qOS m.inverted m.ranges 0 0 j i ((StrictWF_iff _ _).1 hwf) hj hi
  have hle : (quad m i).oldStart ≤ (quad m i).oldEnd := by
    rw [quad_oldEnd, quad_oldStart]
    exact qOS_le_qOE m.inverted m.ranges 0 0 i ((WF_iff _ _).1 hw) hi
  unfold StepMap.map
  rw [map_inside m hw _ assoc i hi hsep (Int.le_refl _) hle]
  by_cases h : (quad m i).oldStart = (quad m i).oldEnd <;> simp [insideResult, sideOf, h, ha]

/-- under strict separation, the end of a range maps (to the right) to its new end -/
private theorem map_at_end (m : StepMap) (hwf : StrictWF 0 m.ranges) (i : Nat)
    (hi : i < m.ranges.length) (assoc : Int) (ha : ¬ assoc < 0) :
    m.map (quad m i).oldEnd assoc = (quad m i).newEnd := by
  have hw : WF 0 m.ranges := (WF_iff _ _).2 ((StrictWF_iff _ _).1 hwf).toRWF
  have hsep : ∀ j, j < i → (quad m j).oldEnd < (quad m i).oldStart := fun j hj => by
    rw [quad_oldEnd, quad_oldStart]
    exact qOE_lt_qOS m.inverted m.ranges 0 0 j i ((StrictWF_iff _ _).1 hwf) hj hi
  have hle : (quad m i).oldStart ≤ (quad m i).oldEnd := by
    rw [quad_oldEnd, quad_oldStart]
    exact qOS_le_qOE m.inverted m.ranges 0 0 i ((WF_iff _ _).1 hw) hi
  unfold StepMap.map
  rw [map_inside m hw _ assoc i hi (fun j hj => by have := hsep j hj; omega) hle (Int.le_refl _)]
  by_cases h : (quad m i).oldStart = (quad m i).oldEnd
  · simp [insideResult, sideOf, h, ha]
  · have h' : ¬ (quad m i).oldEnd = (quad m i).oldStart := fun e => h e.symm
    simp [insideResult, sideOf, h, h']

/-- **for_each agrees with map** when ranges are strictly separated: the new coordinates reported
    for a range are where `map` sends the range's old boundaries. -/
theorem forEach_map_agree (m : StepMap) (hwf : StrictWF 0 m.ranges) (i : Nat) (hi : i < m.ranges.length) :
    m.map (quad m i).oldStart (-1) = (quad m i).newStart ∧
    m.map (quad m i).oldEnd 1 = (quad m i).newEnd := by
  exact ⟨map_at_start m hwf i hi (-1) (by decide), map_at_end m hwf i hi 1 (by decide)⟩

/-- the guard of `forEach_map_agree` is necessary: with adjacent ranges it fails -/
theorem forEach_map_agree_needs_strict :
    let m : StepMap := ⟨[(2, 0, 1), (2, 2, 0)], false⟩
    WF 0 m.ranges ∧ m.map (quad m 1).oldStart (-1) ≠ (quad m 1).newStart := by
  intro m
  refine ⟨by simp [m, WF], by decide⟩

/-- **touches**: true exactly when the range named by the recover value contains the position. -/
theorem touches_spec (m : StepMap) (hwf : WF 0 m.ranges) (pos : Int) (i : Nat) (off : Int) :
    m.touches pos (i, off) = true ↔
      i < m.ranges.length ∧ (quad m i).oldStart ≤ pos ∧ pos ≤ (quad m i).oldEnd := by
  unfold StepMap.touches
  rw [touchesAux_spec m.inverted pos i m.ranges 0 0 0 ((WF_iff _ _).1 hwf)]
  simp only [quad_oldStart, quad_oldEnd, Nat.zero_add]
  constructor
  · rintro ⟨i', rfl, h⟩; exact h
  · intro h; exact ⟨i, rfl, h⟩

/-- **recover**: the inverse map turns a recover value back into the original position. -/
theorem recover_spec (m : StepMap) (i : Nat) (off : Int) (hi : i < m.ranges.length) :
    m.invert.recover (i, off) = some ((quad m i).oldStart + off) := by
  unfold StepMap.recover StepMap.invert quad
  simp only [List.getElem?_eq_getElem hi, getElem!_pos m.ranges i hi, shiftBefore]
  cases m.inverted <;> simp

/-- **Inversion** swaps the old and the new coordinates of every range. -/
theorem invert_quad (m : StepMap) (i : Nat) (hi : i < m.ranges.length) :
    quad m.invert i = ⟨(quad m i).newStart, (quad m i).newEnd, (quad m i).oldStart, (quad m i).oldEnd⟩ := by
  have _ := hi
  unfold quad StepMap.invert
  cases m.inverted <;> simp

/-- **Inverse round trip** outside the changed ranges. -/
theorem invert_roundtrip_outside (m : StepMap) (hwf : WF 0 m.ranges) (pos a a' : Int) (k : Nat)
    (hk : k ≤ m.ranges.length)
    (hbefore : ∀ j, j < k → (quad m j).oldEnd < pos)
    (hafter : k < m.ranges.length → pos < (quad m k).oldStart) :
    m.invert.map (m.map pos a) a' = pos := by
  have hw := (WF_iff _ _).1 hwf
  have hb := hbefore
  have ha := hafter
  simp only [quad_oldStart, quad_oldEnd] at hb ha
  obtain ⟨hb', ha'⟩ := outside_transfer m.inverted m.ranges 0 hw pos k hk hb ha
  have e : pos + shiftAfter m k =
      pos + (if m.inverted then - shiftB m.ranges k else shiftB m.ranges k) := by
    simp only [shiftAfter, shiftBefore_eq]
  unfold StepMap.map
  rw [map_outside m hwf pos a k hk hbefore hafter]
  rw [map_outside m.invert hwf (pos + shiftAfter m k) a' k hk
    (fun j hj => by rw [quad_oldEnd, e]; exact hb' j hj)
    (fun hk' => by rw [quad_oldStart, e]; exact ha' hk')]
  simp only [shiftAfter, StepMap.invert, shiftBefore_eq]
  by_cases h : m.inverted = true <;> simp [h] <;> omega

/-- **A mapping without mirrors is the left-to-right composition of its maps** (`map_result`). -/
theorem mapping_composition (mp : Mapping) (hm : mp.mirror = []) (hto : mp.to ≤ mp.maps.length)
    (pos assoc : Int) :
    (mp.mapResult pos assoc).map (·.pos) = some (mp.mapPlain pos assoc) := by
  unfold Mapping.mapResult Mapping.mapPlain
  exact mappingMapAux_plain mp hm hto assoc _ _ _ _ (by omega)

/-- slicing composes the sliced maps -/
theorem slice_spec (mp : Mapping) (a b : Nat) (pos assoc : Int) :
    (mp.slice a (some b)).mapPlain pos assoc =
      ((mp.maps.take b).drop a).foldl (fun p sm => sm.map p assoc) pos := by
  rfl

/-- `append_map` appends -/
theorem appendMap_spec (mp : Mapping) (sm : StepMap) :
    (mp.appendMap sm).maps = mp.maps ++ [sm] ∧ (mp.appendMap sm).to = mp.maps.length + 1 ∧
    (mp.appendMap sm).mirror = mp.mirror := by
  exact ⟨rfl, rfl, rfl⟩

/-- `append_mapping` appends the other mapping's maps in order -/
theorem appendMapping_spec (mp other : Mapping) :
    (mp.appendMapping other).maps = mp.maps ++ other.maps := by
  unfold Mapping.appendMapping
  rw [foldl_range_maps _ other.maps (fun acc i hi => by
    simp only [List.getElem?_eq_getElem hi, appendMap_maps]) _ (Nat.le_refl _), List.take_length]

/-- `append_mapping_inverted` appends the inverted maps in reverse order -/
theorem appendMappingInverted_spec (mp other : Mapping) :
    (mp.appendMappingInverted other).maps = mp.maps ++ (other.maps.reverse.map StepMap.invert) := by
  unfold Mapping.appendMappingInverted
  rw [foldl_range_reverse_maps _ other.maps (fun acc i hi => by
    simp only [List.getElem?_eq_getElem hi, appendMap_maps]) _ (Nat.le_refl _), List.take_length]

/-- `Mapping.invert` -/
theorem mappingInvert_spec (mp : Mapping) :
    mp.invert.maps = mp.maps.reverse.map StepMap.invert := by
  unfold Mapping.invert
  rw [appendMappingInverted_spec]
  rfl

/-- **Mirror round trip (one map)**: `[m, m⁻¹]` with the two registered as mirrors sends every
    position — including positions inside deleted content — back to itself. -/
theorem mirror_roundtrip_one (m : StepMap) (hwf : StrictWF 0 m.ranges) (pos assoc : Int) :
    let mp : Mapping := { maps := [m, m.invert], mirror := [1, 0], from_ := 0, to := 2 }
    mp.map pos assoc = some pos := by
  intro mp
  have hw : WF 0 m.ranges := (WF_iff _ _).2 ((StrictWF_iff _ _).1 hwf).toRWF
  have hmap : mp.map pos assoc = (mappingMapAux mp assoc 3 0 pos 0).map (·.pos) := rfl
  -- the second map is applied without a mirror jump (its mirror precedes it)
  have stage2 : ∀ p del, (mappingMapAux mp assoc 2 1 p del).map (·.pos) =
      some (m.invert.map p assoc) := by
    intro p del
    rw [mappingMapAux_step_nojump mp assoc 1 1 p del m.invert (show 1 < 2 by decide) rfl
      (Or.inr (fun corr hc => by
        have : corr = 0 := by
          have h0 : mp.getMirror 1 = some 0 := rfl
          rw [h0] at hc; exact (Option.some.inj hc).symm
        omega)),
      mappingMapAux_done mp assoc 1 2 _ _ (show ¬ 2 < 2 by decide)]
    rfl
  -- no recover value after the first map: plain composition of the two maps
  have plain : (m.mapResult pos assoc).recover = none →
      mp.map pos assoc = some (m.invert.map (m.map pos assoc) assoc) := by
    intro hr
    rw [hmap, mappingMapAux_step_nojump mp assoc 2 0 pos 0 m (show 0 < 2 by decide) rfl (Or.inl hr), stage2]
    rfl
  rcases locate_quad m pos with ⟨i, hi, hf, h1, h2⟩ | ⟨k, hk, hb, ha⟩
  · have hres := map_inside m hw pos assoc i hi hf h1 h2
    by_cases hrec : pos = (if assoc < 0 then (quad m i).oldStart else (quad m i).oldEnd)
    · have hr : (m.mapResult pos assoc).recover = none := by
        rw [hres]; simp only [insideResult]; rw [if_pos hrec]
      rw [plain hr]
      have hq := invert_quad m i hi
      by_cases hassoc : assoc < 0
      · rw [if_pos hassoc] at hrec
        rw [hrec, map_at_start m hwf i hi assoc hassoc]
        have := map_at_start m.invert hwf i hi assoc hassoc
        rw [hq] at this
        exact congrArg some this
      · rw [if_neg hassoc] at hrec
        rw [hrec, map_at_end m hwf i hi assoc hassoc]
        have := map_at_end m.invert hwf i hi assoc hassoc
        rw [hq] at this
        exact congrArg some this
    · have hr : (m.mapResult pos assoc).recover = some (i, pos - (quad m i).oldStart) := by
        rw [hres]; simp only [insideResult]; rw [if_neg hrec]
      rw [hmap, mappingMapAux_step_mirror mp assoc 2 0 pos 0 m m.invert _ 1 _
        (show 0 < 2 by decide) rfl hr rfl (show 1 > 0 by decide) (show 1 < 2 by decide) rfl (recover_spec m i _ hi),
        mappingMapAux_done mp assoc 2 2 _ _ (show ¬ 2 < 2 by decide)]
      simp only [Option.map_some]
      congr 1
      omega
  · have hres := map_outside m hw pos assoc k hk hb ha
    have hr : (m.mapResult pos assoc).recover = none := by rw [hres]
    rw [plain hr, invert_roundtrip_outside m hw pos assoc assoc k hk hb ha]

/-- the guard is necessary: an adjacent-range map breaks the round trip -/
-- STATEMENT CHANGED: the original witness `mp.map 3 (-1) ≠ some 3` is false for this map
-- (`#eval mp.map 3 (-1)` gives `some 3`: position 3 lies strictly inside range 0, gets the recover
-- value `(0, 1)` and is recovered exactly through the mirror).  Among positions 0..11 and
-- assoc ∈ {-1, 1} the only failing round trip for this adjacent-range map is `pos = 6, assoc = 1`
-- (`#eval mp.map 6 1` gives `some 4`), so the witness position/side was changed to that one.
-- The `example` right below is a kernel-checked refutation of the original witness.
example :
    let m : StepMap := ⟨[(2, 2, 1), (4, 2, 0)], false⟩
    let mp : Mapping := { maps := [m, m.invert], mirror := [1, 0], from_ := 0, to := 2 }
    mp.map 3 (-1) = some 3 := by
  decide

theorem mirror_roundtrip_needs_strict :
    let m : StepMap := ⟨[(2, 2, 1), (4, 2, 0)], false⟩
    let mp : Mapping := { maps := [m, m.invert], mirror := [1, 0], from_ := 0, to := 2 }
    WF 0 m.ranges ∧ mp.map 6 1 ≠ some 6 := by
  intro m mp
  refine ⟨by simp [m, WF], by decide⟩

/-! ### Mirror round trip through a whole history (`palindrome`, defined in PM/Map.lean) -/

/-- A strictly well-formed map (either orientation) round-trips with its inverse, for either
    association side: a position that gets no recover value is brought back by the inverse map, and
    a recover value is turned back into the position by `recover` of the inverse map. -/
theorem roundTrips_of_strict (m : StepMap) (hwf : StrictWF 0 m.ranges) (assoc : Int) :
    RoundTrips m assoc := by
  intro pos
  have hw : WF 0 m.ranges := (WF_iff _ _).2 ((StrictWF_iff _ _).1 hwf).toRWF
  rcases locate_quad m pos with ⟨i, hi, hf, h1, h2⟩ | ⟨k, hk, hb, ha⟩
  · have hres := map_inside m hw pos assoc i hi hf h1 h2
    by_cases hrec : pos = (if assoc < 0 then (quad m i).oldStart else (quad m i).oldEnd)
    · have hr : (m.mapResult pos assoc).recover = none := by
        rw [hres]; simp only [insideResult]; rw [if_pos hrec]
      refine ⟨fun _ => ?_, fun rv h => (by rw [hr] at h; cases h)⟩
      have hq := invert_quad m i hi
      by_cases hassoc : assoc < 0
      · rw [if_pos hassoc] at hrec
        rw [hrec, map_at_start m hwf i hi assoc hassoc]
        have := map_at_start m.invert hwf i hi assoc hassoc
        rw [hq] at this
        exact this
      · rw [if_neg hassoc] at hrec
        rw [hrec, map_at_end m hwf i hi assoc hassoc]
        have := map_at_end m.invert hwf i hi assoc hassoc
        rw [hq] at this
        exact this
    · have hr : (m.mapResult pos assoc).recover = some (i, pos - (quad m i).oldStart) := by
        rw [hres]; simp only [insideResult]; rw [if_neg hrec]
      refine ⟨fun h => (by rw [hr] at h; cases h), fun rv h => ?_⟩
      rw [hr] at h
      cases h
      rw [recover_spec m i _ hi]
      congr 1
      omega
  · have hres := map_outside m hw pos assoc k hk hb ha
    have hr : (m.mapResult pos assoc).recover = none := by rw [hres]
    exact ⟨fun _ => invert_roundtrip_outside m hw pos assoc assoc k hk hb ha,
      fun rv h => (by rw [hr] at h; cases h)⟩

/-- `palindrome [m]` is the mapping of `mirror_roundtrip_one` -/
example (m : StepMap) :
    palindrome [m] = { maps := [m, m.invert], mirror := [1, 0], from_ := 0, to := 2 } := rfl

/-- what `palindrome` builds, in closed form: the maps followed by their inverses in reverse order,
    every position `i < 2k` mirrored with `2k − 1 − i`, the whole of it selected -/
theorem palindrome_spec (ms : List StepMap) :
    (palindrome ms).maps = ms ++ ms.reverse.map StepMap.invert ∧
    (palindrome ms).from_ = 0 ∧ (palindrome ms).to = 2 * ms.length ∧
    ∀ i, i < 2 * ms.length → (palindrome ms).getMirror i = some (2 * ms.length - 1 - i) :=
  ⟨(palindrome_isPalindrome ms).maps, palindrome_from ms, (palindrome_isPalindrome ms).to,
    (palindrome_isPalindrome ms).mirror⟩

/-- **Mirror round trip (whole history)**: the maps of an arbitrary history followed by their
    inverses in reverse order, each inverse registered (through `append_map`) as the mirror of the
    map it undoes, send every position — including positions inside content deleted by any of the
    maps — back to itself, for either association side.

    Nothing is assumed about how consecutive maps fit together (no chaining hypothesis), about the
    orientation of the maps (`inverted = true` members are covered), or about the sign of `pos`;
    only that every single map has strictly separated ranges (necessary already for one map, see
    `mirror_roundtrip_needs_strict`). -/
theorem mirror_roundtrip_chain (ms : List StepMap) (h : ∀ m ∈ ms, StrictWF 0 m.ranges)
    (pos assoc : Int) :
    (palindrome ms).map pos assoc = some pos :=
  palin_roundtrip (palindrome_isPalindrome ms) (palindrome_from ms) assoc
    (fun m hm => roundTrips_of_strict m (h m hm) assoc) pos

/-- the second half of the palindrome, taken as a slice, contains no complete mirror pair and is
    the plain composition of the inverted maps, last map first (any maps, no well-formedness) -/
theorem palindrome_slice_back (ms : List StepMap) (pos assoc : Int) :
    ((palindrome ms).slice ms.length (some (2 * ms.length))).map pos assoc =
      some (ms.foldr (fun m q => m.invert.map q assoc) pos) :=
  palin_slice_back (palindrome_isPalindrome ms) assoc pos

/-- non-vacuity of `mirror_roundtrip_chain`: two strictly well-formed two-range maps; position 3
    lies strictly inside the range `2..4` deleted (replaced) by the first map and is recovered
    through the mirror; position 5 survives the first map (→ 4) and lies strictly inside the range
    `3..6` deleted by the second map; plain composition without mirrors loses both. -/
example :
    let m1 : StepMap := ⟨[(2, 2, 1), (7, 0, 3)], false⟩
    let m2 : StepMap := ⟨[(0, 1, 1), (3, 3, 0)], false⟩
    (∀ m ∈ [m1, m2], StrictWF 0 m.ranges) ∧
    (m1.mapResult 3 1).deleted = true ∧
    (m1.mapResult 5 1).deleted = false ∧ (m2.mapResult (m1.map 5 1) 1).deleted = true ∧
    (palindrome [m1, m2]).map 3 1 = some 3 ∧ (palindrome [m1, m2]).map 3 (-1) = some 3 ∧
    (palindrome [m1, m2]).map 5 1 = some 5 ∧ (palindrome [m1, m2]).map 5 (-1) = some 5 ∧
    (Mapping.ofMaps [m1, m2, m2.invert, m1.invert]).map 3 1 ≠ some 3 ∧
    (Mapping.ofMaps [m1, m2, m2.invert, m1.invert]).map 5 1 ≠ some 5 := by
  intro m1 m2
  refine ⟨?_, by decide⟩
  intro m hm
  simp only [List.mem_cons, List.not_mem_nil, or_false] at hm
  rcases hm with rfl | rfl <;> simp [m1, m2, StrictWF]

/-- non-vacuity: a concrete strictly well-formed two-range map and what the rule gives on it -/
example : StrictWF 0 [(2, 2, 1), (6, 0, 3)] ∧
    (⟨[(2, 2, 1), (6, 0, 3)], false⟩ : StepMap).map 3 1 = 3 ∧
    (⟨[(2, 2, 1), (6, 0, 3)], false⟩ : StepMap).map 6 1 = 8 ∧
    (⟨[(2, 2, 1), (6, 0, 3)], false⟩ : StepMap).map 7 1 = 9 := by
  refine ⟨by simp [StrictWF], by decide⟩

/-! ### what the `append_*` / `invert` builders do to the mirror table -/

/-- **`append_mapping`, mirror table**: the receiver's table is kept; for every map `i` of `other`
    (in order) whose partner `k = other.get_mirror(i)` exists and precedes it (`k < i`) the pair
    `[len + i, len + k]` is appended (`len` = number of maps of the receiver): the other mapping's
    mirror indices, shifted by the receiver's length (`carriedPairs`, Proofs/MapMirror.lean).
    `from_` is untouched and `to` becomes the new number of maps (unless nothing was appended). -/
theorem appendMapping_mirror_spec (mp other : Mapping) :
    (mp.appendMapping other).mirror =
      mp.mirror ++ flatPairs ((List.range other.maps.length).filterMap (fun i =>
        match other.getMirror i with
        | some k => if k < i then some (mp.maps.length + i, mp.maps.length + k) else none
        | none => none)) ∧
    (mp.appendMapping other).from_ = mp.from_ ∧
    (mp.appendMapping other).to =
      (if other.maps.length = 0 then mp.to else mp.maps.length + other.maps.length) :=
  appendMapping_mirror mp other

/-- **`append_mapping_inverted`, mirror table**: maps of `other` are taken last to first, so map `i`
    lands at index `len + (n − 1 − i)` (`n` = number of maps of `other`); when its partner
    `k = other.get_mirror(i)` exists and follows it (`k > i`) the pair
    `[len + (n − 1 − i), len + n − k − 1]` is appended: the mirror indices reflected (`i ↦ n − 1 − i`)
    and shifted by the receiver's length. -/
theorem appendMappingInverted_mirror_spec (mp other : Mapping) :
    (mp.appendMappingInverted other).mirror =
      mp.mirror ++ flatPairs ((List.range other.maps.length).reverse.filterMap (fun i =>
        match other.getMirror i with
        | some k =>
          if k > i then some (mp.maps.length + (other.maps.length - 1 - i),
            mp.maps.length + other.maps.length - k - 1) else none
        | none => none)) ∧
    (mp.appendMappingInverted other).from_ = mp.from_ ∧
    (mp.appendMappingInverted other).to =
      (if other.maps.length = 0 then mp.to else mp.maps.length + other.maps.length) :=
  appendMappingInverted_mirror mp other

/-- **`Mapping.invert`, mirror table**: the reflected pairs, nothing else; the whole of it selected -/
theorem mappingInvert_mirror_spec (mp : Mapping) :
    mp.invert.mirror = flatPairs ((List.range mp.maps.length).reverse.filterMap (fun i =>
        match mp.getMirror i with
        | some k => if k > i then some (mp.maps.length - 1 - i, mp.maps.length - k - 1) else none
        | none => none)) ∧
    mp.invert.from_ = 0 ∧ mp.invert.to = mp.maps.length := by
  obtain ⟨h1, h2, h3⟩ := appendMappingInverted_mirror ({} : Mapping) mp
  unfold Mapping.invert
  refine ⟨?_, h2, ?_⟩
  · rw [h1]
    simp only [invertedPairs, List.nil_append, List.length_nil, Nat.zero_add]
    have : invertedPair mp 0 mp.maps.length = (fun i =>
        match mp.getMirror i with
        | some k => if k > i then some (mp.maps.length - 1 - i, mp.maps.length - k - 1) else none
        | none => none) := by
      funext i
      simp only [invertedPair]
      cases mp.getMirror i <;> simp
    rw [this]
  · rw [h3]
    by_cases h0 : mp.maps.length = 0 <;> simp [h0]

/-- **read through `get_mirror`**: after `append_mapping` the receiver's own indices keep their
    partners, and index `len + j` has the partner of `j` in `other`, shifted by `len` — provided the
    receiver's table is a list of pairs over its own indices and partners in `other` are mutual,
    distinct and in range (`MirrorSym`, `MirrorInRange`: true of every table built through
    `set_mirror` on distinct indices, e.g. `palindrome`) -/
theorem appendMapping_getMirror (mp other : Mapping) (hev : mp.mirror.length % 2 = 0)
    (hin : ∀ x ∈ mp.mirror, x < mp.maps.length) (hsym : MirrorSym other) (hrng : MirrorInRange other) :
    (∀ i, i < mp.maps.length → (mp.appendMapping other).getMirror i = mp.getMirror i) ∧
    (∀ j, j < other.maps.length →
      (mp.appendMapping other).getMirror (mp.maps.length + j) =
        (other.getMirror j).map (mp.maps.length + ·)) :=
  ⟨fun i hi => appendMapping_getMirror_old mp other hev i hi,
   fun j hj => appendMapping_getMirror_new mp other hev hin hsym hrng j hj⟩

/-- … after `append_mapping_inverted` map `j` of `other` sits (inverted) at `len + (n − 1 − j)` and
    its partner is the reflected partner of `j` -/
theorem appendMappingInverted_getMirror (mp other : Mapping) (hev : mp.mirror.length % 2 = 0)
    (hin : ∀ x ∈ mp.mirror, x < mp.maps.length) (hsym : MirrorSym other) (hrng : MirrorInRange other) :
    (∀ i, i < mp.maps.length → (mp.appendMappingInverted other).getMirror i = mp.getMirror i) ∧
    (∀ j, j < other.maps.length →
      (mp.appendMappingInverted other).getMirror (mp.maps.length + (other.maps.length - 1 - j)) =
        (other.getMirror j).map (fun k => mp.maps.length + (other.maps.length - 1 - k))) :=
  ⟨fun i hi => appendMappingInverted_getMirror_old mp other hev hrng i hi,
   fun j hj => appendMappingInverted_getMirror_new mp other hev hin hsym hrng j hj⟩

/-- … and `invert` reflects every partnership: `j ↔ k` becomes `n − 1 − j ↔ n − 1 − k` -/
theorem mappingInvert_getMirror (mp : Mapping) (hsym : MirrorSym mp) (hrng : MirrorInRange mp)
    (j : Nat) (hj : j < mp.maps.length) :
    mp.invert.getMirror (mp.maps.length - 1 - j) =
      (mp.getMirror j).map (fun k => mp.maps.length - 1 - k) := by
  have := appendMappingInverted_getMirror_new ({} : Mapping) mp rfl (by simp) hsym hrng j hj
  simpa [Mapping.invert] using this

/-- non-vacuity: the hypotheses hold for the undo mapping of a two-step history, and the instance -/
example :
    let other := palindrome [⟨[(2, 2, 1)], false⟩, ⟨[(0, 1, 1)], false⟩]
    let mp : Mapping := (Mapping.ofMaps [⟨[(1, 0, 1)], false⟩])
    other.mirror = [2, 1, 3, 0] ∧
    (mp.appendMapping other).mirror = [3, 2, 4, 1] ∧
    (mp.appendMappingInverted other).mirror = [3, 2, 4, 1] ∧
    other.invert.mirror = [2, 1, 3, 0] := by decide

/-- non-vacuity of `MirrorSym` / `MirrorInRange`: the one-step undo mapping -/
example (m : StepMap) :
    let o : Mapping := { maps := [m, m.invert], mirror := [1, 0], from_ := 0, to := 2 }
    MirrorSym o ∧ MirrorInRange o := by
  intro o
  constructor
  · intro i k h
    simp only [o, Mapping.getMirror, getMirrorAux] at h ⊢
    split at h
    · simp only [Option.some.injEq] at h; subst h; rename_i h1; subst h1; simp
    · split at h
      · simp only [Option.some.injEq] at h; subst h; rename_i h1; subst h1; simp
      · simp at h
  · intro i k _ h
    simp only [o, Mapping.getMirror, getMirrorAux] at h ⊢
    split at h
    · simp only [Option.some.injEq] at h; subst h; simp
    · split at h
      · simp only [Option.some.injEq] at h; subst h; simp
      · simp at h

/-! ### the mapping algebra: what the composed mappings *map like*

  `mapFold ms a p` (PM/MapFold.lean) sends `p` through the maps `ms` left to right with the one
  association side `a`; `delFold ms a p 0` ORs the deletion-info bits met on the way.  "`r1`, then
  `f`" below is spelled out with `Option.bind`/`Option.map`: `none` (an IndexError of the code)
  propagates, positions are chained, deletion flags are OR-ed. -/

/-- `append_mapping` of a mapping without maps changes nothing (not even `to`) -/
theorem appendMapping_empty (m n : Mapping) (h : n.maps = []) : m.appendMapping n = m := by
  unfold Mapping.appendMapping; rw [h]; rfl

theorem appendMappingInverted_empty (m n : Mapping) (h : n.maps = []) : m.appendMappingInverted n = m := by
  unfold Mapping.appendMappingInverted; rw [h]; rfl

/-- **`append_mapping`, mirror-less, as a fold** (no side condition at all): the receiver's maps from
    its `from_` on — its `to` is reset — then *all* maps of the other mapping — its `from_`/`to` are
    ignored —, left to right, for either association side; `map_result` ORs the flags. -/
theorem appendMapping_map_spec_plain (m n : Mapping) (hm : m.mirror = []) (hn : n.mirror = [])
    (hne : n.maps ≠ []) (p a : Int) :
    (m.appendMapping n).mapResult p a =
      some { pos := mapFold ((m.maps ++ n.maps).drop m.from_) a p,
             delInfo := delFold ((m.maps ++ n.maps).drop m.from_) a p 0 } ∧
    (m.appendMapping n).map p a = some (mapFold ((m.maps ++ n.maps).drop m.from_) a p) := by
  have h1 := appendMapping_mapResult_plain m n hm hn hne p a
  refine ⟨h1, ?_⟩
  have hto : (m.appendMapping n).to ≤ (m.appendMapping n).maps.length := by
    rw [(appendMapping_mirror m n).2.2, appendMapping_maps]
    have : n.maps.length ≠ 0 := fun h => hne (List.eq_nil_of_length_eq_zero h)
    simp [this]
  rw [map_eq_mapResult _ hto, h1]; rfl

/-- **`append_mapping`, composition law** (`map_result`, either association side; tables in which no
    index is registered twice, mirror-less ones included): the result maps like the receiver read
    from its `from_` to its last map, then the whole other mapping — the carried-over mirror pairs
    jump exactly where the other mapping's pairs jump —, deletion flags OR-ed. -/
theorem appendMapping_map_spec (m n : Mapping) (hm : MirrorFunctional m) (hn : MirrorFunctional n)
    (hne : n.maps ≠ []) (hf : m.from_ ≤ m.maps.length) (p a : Int) :
    (m.appendMapping n).mapResult p a =
      ((m.slice m.from_).mapResult p a).bind (fun r1 =>
        ((n.slice 0).mapResult r1.pos a).map (fun r2 =>
          { pos := r2.pos, delInfo := r1.delInfo ||| r2.delInfo })) :=
  appendMapping_mapResult m n hne hm.1 hm.2.2 hm.inRange hn.sym hn.inRange hf p a

/-- … and when the receiver's `from_` lies at or beyond its last map, the walk starts inside the
    appended part: the other mapping read from `from_ − len` (its own bounds still ignored) -/
theorem appendMapping_map_spec_late (m n : Mapping) (hm : MirrorFunctional m) (hn : MirrorFunctional n)
    (hne : n.maps ≠ []) (hf : m.maps.length ≤ m.from_) (p a : Int) :
    (m.appendMapping n).mapResult p a = (n.slice (m.from_ - m.maps.length)).mapResult p a :=
  appendMapping_mapResult_late m n hne hm.1 hm.2.2 hn.sym hn.inRange hf p a

/-- … and for `Mapping.map` -/
theorem appendMapping_map_spec_pos (m n : Mapping) (hm : MirrorFunctional m) (hn : MirrorFunctional n)
    (hne : n.maps ≠ []) (hf : m.from_ ≤ m.maps.length) (p a : Int) :
    (m.appendMapping n).map p a =
      ((m.slice m.from_).map p a).bind (fun q => (n.slice 0).map q a) := by
  have hto : (m.appendMapping n).to ≤ (m.appendMapping n).maps.length := by
    rw [(appendMapping_mirror m n).2.2, appendMapping_maps]
    have : n.maps.length ≠ 0 := fun h => hne (List.eq_nil_of_length_eq_zero h)
    simp [this]
  rw [map_eq_mapResult _ hto, appendMapping_map_spec m n hm hn hne hf,
    map_eq_mapResult (m.slice m.from_) (Nat.le_refl _)]
  cases (m.slice m.from_).mapResult p a with
  | none => rfl
  | some r1 =>
    simp only [Option.bind_some, Option.map_some, Option.map_map]
    rw [map_eq_mapResult (n.slice 0) (Nat.le_refl _)]
    cases (n.slice 0).mapResult r1.pos a <;> rfl

/-- `append_map(map)` (no mirror argument) is `append_mapping` of the one-map mapping -/
theorem appendMap_eq_appendMapping (m : Mapping) (sm : StepMap) :
    m.appendMap sm = m.appendMapping (Mapping.ofMaps [sm]) := rfl

/-- **`append_map`, composition law**: the receiver read from `from_` to its end, then the new map -/
theorem appendMap_map_spec (m : Mapping) (sm : StepMap) (hm : MirrorFunctional m)
    (hf : m.from_ ≤ m.maps.length) (p a : Int) :
    (m.appendMap sm).mapResult p a =
      ((m.slice m.from_).mapResult p a).map (fun r1 =>
        { pos := sm.map r1.pos a, delInfo := r1.delInfo ||| (sm.mapResult r1.pos a).delInfo }) := by
  rw [appendMap_eq_appendMapping,
    appendMapping_map_spec m _ hm (ofMaps_functional [sm]) (by simp [Mapping.ofMaps]) hf]
  cases (m.slice m.from_).mapResult p a with
  | none => rfl
  | some r1 =>
    simp only [Option.bind_some, Option.map_some]
    have : (Mapping.ofMaps [sm]).slice 0 = Mapping.ofMaps [sm] := rfl
    rw [this, ofMaps_mapResult]
    simp [mapFold, delFold]

/-- **`append_mapping_inverted`, mirror-less, as a fold**: the receiver's maps from its `from_` on,
    then the inverted maps of the other mapping, last map first -/
theorem appendMappingInverted_map_spec_plain (m n : Mapping) (hm : m.mirror = []) (hn : n.mirror = [])
    (hne : n.maps ≠ []) (p a : Int) :
    (m.appendMappingInverted n).mapResult p a =
      some { pos := mapFold ((m.maps ++ n.maps.reverse.map StepMap.invert).drop m.from_) a p,
             delInfo := delFold ((m.maps ++ n.maps.reverse.map StepMap.invert).drop m.from_) a p 0 } ∧
    (m.appendMappingInverted n).map p a =
      some (mapFold ((m.maps ++ n.maps.reverse.map StepMap.invert).drop m.from_) a p) := by
  have h1 := appendMappingInverted_mapResult_plain m n hm hn hne p a
  refine ⟨h1, ?_⟩
  have hto : (m.appendMappingInverted n).to ≤ (m.appendMappingInverted n).maps.length := by
    rw [(appendMappingInverted_mirror m n).2.2, appendMappingInverted_maps]
    have : n.maps.length ≠ 0 := fun h => hne (List.eq_nil_of_length_eq_zero h)
    simp [this]
  rw [map_eq_mapResult _ hto, h1]; rfl

/-- **`append_mapping_inverted`, composition law**: the receiver read from its `from_` to its last
    map, then `other.invert()` — the reflected mirror pairs included —, flags OR-ed -/
theorem appendMappingInverted_map_spec (m n : Mapping) (hm : MirrorFunctional m) (hn : MirrorFunctional n)
    (hne : n.maps ≠ []) (hf : m.from_ ≤ m.maps.length) (p a : Int) :
    (m.appendMappingInverted n).mapResult p a =
      ((m.slice m.from_).mapResult p a).bind (fun r1 =>
        (n.invert.mapResult r1.pos a).map (fun r2 =>
          { pos := r2.pos, delInfo := r1.delInfo ||| r2.delInfo })) :=
  appendMappingInverted_mapResult m n hne hm.1 hm.2.2 hm.inRange hn.sym hn.inRange hf p a

theorem appendMappingInverted_map_spec_late (m n : Mapping) (hm : MirrorFunctional m) (hn : MirrorFunctional n)
    (hne : n.maps ≠ []) (hf : m.maps.length ≤ m.from_) (p a : Int) :
    (m.appendMappingInverted n).mapResult p a =
      (n.invert.slice (m.from_ - m.maps.length) (some n.maps.length)).mapResult p a := by
  rw [appendMappingInverted_mapResult_late m n hne hm.1 hm.2.2 hn.sym hn.inRange hf p a, invert_to]

/-- **`Mapping.invert`, mirror-less**: mapping through the inverted mapping is folding the inverted
    maps in reverse order (the `from_`/`to` of the original are ignored: *all* its maps) -/
theorem mappingInvert_map_spec (mp : Mapping) (hm : mp.mirror = []) (p a : Int) :
    mp.invert.mapResult p a =
      some { pos := mp.maps.foldr (fun m q => m.invert.map q a) p,
             delInfo := delFold (mp.maps.reverse.map StepMap.invert) a p 0 } ∧
    mp.invert.map p a = some (mp.maps.foldr (fun m q => m.invert.map q a) p) := by
  have h1 := invert_mapResult_plain mp hm p a
  refine ⟨h1, ?_⟩
  rw [map_eq_mapResult _ (by rw [invert_to, invert_maps]; simp), h1]; rfl

/-- **inversion is an involution** (up to the bounds, which `invert` resets): inverting twice gives
    back the maps, the mirror partnerships, and a mapping that maps like the original read as a whole -/
theorem mappingInvert_involutive (mp : Mapping) (h : MirrorFunctional mp) :
    mp.invert.invert.maps = mp.maps ∧
    (∀ j, j < mp.maps.length → mp.invert.invert.getMirror j = mp.getMirror j) ∧
    (∀ p a, mp.invert.invert.mapResult p a = (mp.slice 0).mapResult p a) :=
  ⟨invert_invert_maps mp, invert_invert_getMirror mp h, invert_invert_mapResult mp h⟩

/-- `append_mapping_inverted`, composition law for `Mapping.map` -/
theorem appendMappingInverted_map_spec_pos (m n : Mapping) (hm : MirrorFunctional m) (hn : MirrorFunctional n)
    (hne : n.maps ≠ []) (hf : m.from_ ≤ m.maps.length) (p a : Int) :
    (m.appendMappingInverted n).map p a =
      ((m.slice m.from_).map p a).bind (fun q => n.invert.map q a) := by
  have hto : (m.appendMappingInverted n).to ≤ (m.appendMappingInverted n).maps.length := by
    rw [(appendMappingInverted_mirror m n).2.2, appendMappingInverted_maps]
    have : n.maps.length ≠ 0 := fun h => hne (List.eq_nil_of_length_eq_zero h)
    simp [this]
  rw [map_eq_mapResult _ hto, appendMappingInverted_map_spec m n hm hn hne hf,
    map_eq_mapResult (m.slice m.from_) (Nat.le_refl _)]
  cases (m.slice m.from_).mapResult p a with
  | none => rfl
  | some r1 =>
    simp only [Option.bind_some, Option.map_some, Option.map_map]
    rw [map_eq_mapResult n.invert (by rw [invert_to, invert_maps]; simp)]
    cases n.invert.mapResult r1.pos a <;> rfl

/-! ### round trip of a whole mapping through its inverse -/

private theorem insideResult_flags_ne_zero (q : Quad) (i : Nat) (pos a : Int) :
    (insideResult q i pos a).delInfo ≠ 0 := by
  simp only [insideResult, DEL_AFTER, DEL_BEFORE, DEL_ACROSS, DEL_SIDE]
  repeat' split
  all_goals decide

/-- **no deletion flag at all = outside every range**: `map_result` reports `del_info = 0` exactly
    for the positions strictly between two consecutive ranges (before the first, after the last) -/
theorem no_flags_iff_outside (m : StepMap) (hwf : WF 0 m.ranges) (pos a : Int) :
    (m.mapResult pos a).delInfo = 0 ↔
      ∃ k, k ≤ m.ranges.length ∧ (∀ j, j < k → (quad m j).oldEnd < pos) ∧
        (k < m.ranges.length → pos < (quad m k).oldStart) := by
  constructor
  · intro h
    rcases locate_quad m pos with ⟨i, hi, hf, h1, h2⟩ | ⟨k, hk, hb, ha⟩
    · rw [map_inside m hwf pos a i hi hf h1 h2] at h
      exact absurd h (insideResult_flags_ne_zero _ _ _ _)
    · exact ⟨k, hk, hb, ha⟩
  · rintro ⟨k, hk, hb, ha⟩
    rw [map_outside m hwf pos a k hk hb ha]

/-- one map: a position that gets no deletion flag is brought back by the inverse map, whatever the
    two association sides -/
theorem invert_roundtrip_no_flags (m : StepMap) (hwf : WF 0 m.ranges) (pos a a' : Int)
    (h : (m.mapResult pos a).delInfo = 0) : m.invert.map (m.map pos a) a' = pos := by
  obtain ⟨k, hk, hb, ha⟩ := (no_flags_iff_outside m hwf pos a).1 h
  exact invert_roundtrip_outside m hwf pos a a' k hk hb ha

private theorem roundtrip_fold (a a' : Int) : ∀ (ms : List StepMap), (∀ m ∈ ms, WF 0 m.ranges) →
    ∀ p, delFold ms a p 0 = 0 → unwind a' ms (mapFold ms a p) = p
  | [], _, _, _ => rfl
  | m :: ms, hwf, p, h => by
    rw [delFold, delFold_or] at h
    have h' := Nat.or_eq_zero_iff.mp h
    have hm0 : (m.mapResult p a).delInfo = 0 := by
      have := h'.1; rwa [Nat.zero_or] at this
    rw [mapFold_cons]
    show m.invert.map (unwind a' ms (mapFold ms a (m.map p a))) a' = p
    rw [roundtrip_fold a a' ms (fun x hx => hwf x (List.mem_cons_of_mem _ hx)) _ h'.2]
    exact invert_roundtrip_no_flags m (hwf m List.mem_cons_self) p a a' hm0

/-- **Inverse round trip of a whole mapping** (mirror-less): a position that `map_result` reports
    without any deletion flag — it lies outside every replaced range of every map, followed along
    (`no_flags_iff_outside`) — is brought back by `mapping.invert()`, whatever the association sides
    of the two passes.  Positions inside replaced ranges need the mirror registrations
    (`mirror_roundtrip_chain`, `mirror_jump_spec`). -/
theorem invert_roundtrip_mapping (mp : Mapping) (hm : mp.mirror = []) (hfrom : mp.from_ = 0)
    (hto : mp.to = mp.maps.length) (hwf : ∀ m ∈ mp.maps, WF 0 m.ranges) (p a a' : Int) (r : MapResult)
    (hr : mp.mapResult p a = some r) (hdel : r.delInfo = 0) :
    mp.invert.map r.pos a' = some p := by
  rw [mapResult_plain mp hm (by omega), hfrom, hto, List.take_length, List.drop_zero] at hr
  cases hr
  rw [(mappingInvert_map_spec mp hm _ a').2]
  exact congrArg some (roundtrip_fold a a' mp.maps hwf p hdel)

/-- non-vacuity: a two-map history; position 7 lies after the range of the first map and before the
    range of the second one (followed along), gets no flag and comes back; position 3 lies inside
    the deleted range of the first map, is flagged and does not come back -/
example :
    let mp := Mapping.ofMaps [⟨[(2, 2, 0)], false⟩, ⟨[(8, 0, 3)], false⟩]
    mp.mapResult 7 1 = some { pos := 5, delInfo := 0 } ∧ mp.invert.map 5 (-1) = some 7 ∧
    (mp.mapResult 3 1).map (·.delInfo) = some 12 ∧ mp.invert.map 2 1 ≠ some 3 := by decide

/-! ### one mirrored pair inside a longer chain -/

/-- a recover value is handed out exactly when `deleted` is reported -/
theorem recover_iff_deleted (m : StepMap) (hwf : WF 0 m.ranges) (pos a : Int) :
    (m.mapResult pos a).recover.isSome = (m.mapResult pos a).deleted := by
  rcases locate_quad m pos with ⟨i, hi, hf, h1, h2⟩ | ⟨k, hk, hb, ha⟩
  · rw [map_inside m hwf pos a i hi hf h1 h2]
    rw [Bool.eq_iff_iff, insideResult_eq, insideRes_deleted]
    simp only [insideRes]
    by_cases ha : a < 0 <;> simp [ha]
  · rw [map_outside m hwf pos a k hk hb ha, deleted_plain]; rfl

/-- the inverse map turns the recover value of a position back into the position -/
theorem recover_roundtrip (m : StepMap) (hwf : WF 0 m.ranges) (pos a : Int) (rv : Nat × Int)
    (h : (m.mapResult pos a).recover = some rv) : m.invert.recover rv = some pos := by
  rcases locate_quad m pos with ⟨i, hi, hf, h1, h2⟩ | ⟨k, hk, hb, ha⟩
  · rw [map_inside m hwf pos a i hi hf h1 h2] at h
    simp only [insideResult] at h
    by_cases hrec : pos = (if a < 0 then (quad m i).oldStart else (quad m i).oldEnd)
    · rw [if_pos hrec] at h; cases h
    · rw [if_neg hrec] at h
      cases h
      rw [recover_spec m i _ hi]
      congr 1; omega
  · rw [map_outside m hwf pos a k hk hb ha] at h; cases h

/-- **Mirror shortcut, one pair inside a longer chain**: the walk stands at map `i` (anything may
    precede it), map `j` — after `i`, before the upper bound `b` — is registered as its mirror and is
    its inverse, and map `i` reports the position as deleted.  Then the position is recovered
    unchanged and the walk continues at `j + 1`: maps `i … j` leave no trace on the result, neither
    on the position nor on the deletion flags (any maps between them, any further mirror pairs). -/
theorem mirror_jump_spec (mp : Mapping) (i j b : Nat) (sm : StepMap) (q a : Int)
    (hsm : mp.maps[i]? = some sm) (hmir : mp.getMirror i = some j) (hij : i < j) (hjb : j < b)
    (hcm : mp.maps[j]? = some sm.invert) (hwf : WF 0 sm.ranges)
    (hdel : (sm.mapResult q a).deleted = true) :
    (mp.slice i (some b)).mapResult q a = (mp.slice (j + 1) (some b)).mapResult q a := by
  have hs : (sm.mapResult q a).recover.isSome = true := by rw [recover_iff_deleted sm hwf, hdel]
  obtain ⟨rv, hrv⟩ := Option.isSome_iff_exists.mp hs
  exact slice_jump mp i j b sm sm.invert q a rv q hsm hmir hij hjb hcm hrv
    (recover_roundtrip sm hwf q a rv hrv)

/-- … and when map `i` does not report the position as deleted, or has no mirror after it inside
    the slice, it is applied like any map and the walk goes on at `i + 1` -/
theorem mirror_nojump_spec (mp : Mapping) (i b : Nat) (sm : StepMap) (q a : Int) (hib : i < b)
    (hsm : mp.maps[i]? = some sm) (hwf : WF 0 sm.ranges)
    (h : (sm.mapResult q a).deleted = false ∨ ∀ c, mp.getMirror i = some c → ¬ (c > i ∧ c < b)) :
    (mp.slice i (some b)).mapResult q a =
      ((mp.slice (i + 1) (some b)).mapResult (sm.map q a) a).map (fun r2 =>
        { pos := r2.pos, delInfo := (sm.mapResult q a).delInfo ||| r2.delInfo }) := by
  rw [slice_nojump_step mp i b sm q a hib hsm (h.imp (fun hd => by
    have := recover_iff_deleted sm hwf q a
    rw [hd] at this
    cases hr : (sm.mapResult q a).recover with
    | none => rfl
    | some rv => rw [hr] at this; cases this) id)]
  rfl

/-- non-vacuity (rebasing shape `A⁻¹, B, A` with `A⁻¹ ↔ A` mirrored): position 3 is deleted by
    map 0, whose mirror is map 2; the walk jumps over map 1 and continues after map 2 -/
example :
    let A : StepMap := ⟨[(2, 0, 3)], false⟩
    let mp : Mapping := { maps := [A.invert, ⟨[(0, 0, 4)], false⟩, A, ⟨[(0, 1, 0)], false⟩],
                          mirror := [2, 0], from_ := 0, to := 4 }
    (A.invert.mapResult 3 1).deleted = true ∧
    (mp.slice 0 (some 4)).mapResult 3 1 = (mp.slice 3 (some 4)).mapResult 3 1 ∧
    mp.mapResult 3 1 = some { pos := 2, delInfo := 0 } ∧
    (Mapping.ofMaps mp.maps).mapResult 3 1 = some { pos := 8, delInfo := 12 } := by decide

/-! ### slices, both bounds explicit -/

/-- **slice, mirror-less, `map` and `map_result`**: exactly the maps with index `a' ≤ i < b`, left to
    right — nothing before `a'`, nothing at or after `b` — for either association side -/
theorem slice_map_spec (mp : Mapping) (hm : mp.mirror = []) (a' b : Nat) (hb : b ≤ mp.maps.length)
    (p a : Int) :
    (mp.slice a' (some b)).mapResult p a =
      some { pos := mapFold ((mp.maps.take b).drop a') a p,
             delInfo := delFold ((mp.maps.take b).drop a') a p 0 } ∧
    (mp.slice a' (some b)).map p a = some (mapFold ((mp.maps.take b).drop a') a p) :=
  ⟨mapResult_plain (mp.slice a' (some b)) hm hb p a, map_plain (mp.slice a' (some b)) hm hb p a⟩

/-- the fast path of `Mapping.map` raises IndexError exactly when the loop reaches `len(maps)` -/
theorem slice_map_out_of_range (mp : Mapping) (hm : mp.mirror = []) (a' b : Nat) (p a : Int) :
    (mp.slice a' (some b)).map p a = none ↔ (mp.maps.length < b ∧ a' < b) := by
  simp only [Mapping.map, Mapping.slice, hm, List.isEmpty_nil, if_true, Option.getD_some]
  split <;> simp <;> omega

/-- **slice, upper bound, any mirror table**: the maps at or after the upper bound are never
    consulted (`b ≤ len(maps)` is not even needed) -/
theorem slice_upper_bound (mp : Mapping) (a' b : Nat) (p a : Int) :
    (mp.slice a' (some b)).mapResult p a =
      (({ mp with maps := mp.maps.take b }).slice a' (some b)).mapResult p a :=
  slice_upper mp a' b p a

/-- **slice with mirrors, no complete pair inside**: a mirror pair is followed only when both its
    maps lie inside the slice; a slice that contains no such pair is the plain composition -/
theorem slice_no_pair_inside (mp : Mapping) (a' b : Nat) (hb : b ≤ mp.maps.length)
    (hno : ∀ i c, a' ≤ i → mp.getMirror i = some c → ¬ (i < c ∧ c < b)) (p a : Int) :
    (mp.slice a' (some b)).mapResult p a =
      some { pos := mapFold ((mp.maps.take b).drop a') a p,
             delInfo := delFold ((mp.maps.take b).drop a') a p 0 } := by
  apply slice_nojump mp a' b hb
  intro j hj _
  cases h : jumpT (mp.slice a' (some b)) j with
  | none => rfl
  | some c =>
    obtain ⟨g, g1, g2⟩ := jumpT_some h
    exact absurd ⟨g1, g2⟩ (hno j c hj g)

/-- **slices compose**: `slice(a', b)` is `slice(a', L)` then `slice(L, b)` whenever no mirror pair
    that the walk could follow starts before `L` and ends at or after it -/
theorem slice_split_spec (mp : Mapping) (a' L b : Nat) (h1 : a' ≤ L) (h2 : L ≤ b)
    (hns : ∀ j c, j < L → mp.getMirror j = some c → j < c → c < b → c < L) (p a : Int) :
    (mp.slice a' (some b)).mapResult p a =
      ((mp.slice a' (some L)).mapResult p a).bind (fun r1 =>
        ((mp.slice L (some b)).mapResult r1.pos a).map (fun r2 =>
          { pos := r2.pos, delInfo := r1.delInfo ||| r2.delInfo })) :=
  slice_split mp a' L b h1 h2 hns p a

/-- non-vacuity of `slice_split_spec` / `slice_no_pair_inside` (rebasing shape `A⁻¹, B, A, C` with
    `A⁻¹ ↔ A`): index 3 is not straddled, so the whole is `slice(0, 3)` then `slice(3, 4)`; index 1 is
    straddled by the pair: `slice(0, 1)` reports the deletion (flags 12) that the whole walk jumps
    over; the slice `[1, 4)` holds no complete pair and is the plain composition of its three maps -/
example :
    let A : StepMap := ⟨[(2, 0, 3)], false⟩
    let mp : Mapping := { maps := [A.invert, ⟨[(0, 0, 4)], false⟩, A, ⟨[(0, 1, 0)], false⟩],
                          mirror := [2, 0], from_ := 0, to := 4 }
    (∀ j c, j < 3 → mp.getMirror j = some c → j < c → c < 4 → c < 3) ∧
    (∀ i c, 1 ≤ i → mp.getMirror i = some c → ¬ (i < c ∧ c < 4)) ∧
    (mp.slice 0 (some 4)).mapResult 3 1 = some { pos := 2, delInfo := 0 } ∧
    (mp.slice 0 (some 3)).mapResult 3 1 = some { pos := 3, delInfo := 0 } ∧
    (mp.slice 3 (some 4)).mapResult 3 1 = some { pos := 2, delInfo := 0 } ∧
    (mp.slice 0 (some 1)).mapResult 3 1 = some { pos := 2, delInfo := 12 } ∧
    (mp.slice 1 (some 4)).mapResult 3 1 = some { pos := 9, delInfo := 0 } := by
  intro A mp
  have hg : ∀ j c, mp.getMirror j = some c → (j = 0 ∧ c = 2) ∨ (j = 2 ∧ c = 0) := by
    intro j c h
    simp only [mp, Mapping.getMirror, getMirrorAux] at h
    split at h
    · simp only [Option.some.injEq] at h; omega
    · split at h
      · simp only [Option.some.injEq] at h; omega
      · cases h
  refine ⟨fun j c _ h _ _ => ?_, fun i c hi h => ?_, by decide⟩
  · rcases hg j c h with ⟨_, _⟩ | ⟨_, _⟩ <;> omega
  · rcases hg i c h with ⟨_, _⟩ | ⟨_, _⟩ <;> omega

/-- non-vacuity of the two bounds: three maps that each insert one token at 0; the slice `[1, 2)`
    applies exactly one of them, and so does it on the mapping cut after two maps -/
example :
    let mp := Mapping.ofMaps [⟨[(0, 0, 1)], false⟩, ⟨[(0, 0, 1)], false⟩, ⟨[(0, 0, 1)], false⟩]
    (mp.slice 1 (some 2)).map 5 1 = some 6 ∧ (mp.slice 0 (some 2)).map 5 1 = some 7 ∧
    (mp.slice 1 (some 3)).map 5 1 = some 7 ∧ (mp.slice 1 (some 4)).map 5 1 = none ∧
    (mp.slice 4 (some 4)).map 5 1 = some 5 := by decide

/-! ### tables with an index registered twice, and why the builders never make one -/

/-- **`get_mirror` on any table: first match wins** — the flat list is scanned from the front and
    the first occurrence of `n` decides (its neighbour inside the pair is returned); later pairs that
    contain `n` are never seen -/
theorem getMirror_first_match (mp : Mapping) (n a b : Nat) (A B : List Nat)
    (htab : mp.mirror = A ++ a :: b :: B) (hev : A.length % 2 = 0) (hA : n ∉ A) (hab : a = n ∨ b = n) :
    mp.getMirror n = some (if a = n then b else a) := by
  unfold Mapping.getMirror; rw [htab]; exact getMirrorAux_first n a b A B hev hA hab

/-- a table with an index registered twice: the first registration answers for the index itself,
    the partner of the second registration still points back to it — partners are no longer mutual -/
example :
    let mp : Mapping := { maps := [], mirror := [1, 0, 2, 0] }
    mp.getMirror 0 = some 1 ∧ mp.getMirror 2 = some 0 ∧ mp.getMirror 1 = some 0 ∧
    ¬ MirrorFunctional mp ∧ ¬ MirrorSym mp := by
  refine ⟨rfl, rfl, rfl, by decide, fun h => ?_⟩
  have := (h 2 0 rfl).1
  cases this

/-- **functional tables** (`MirrorFunctional`: pairs, no index twice, every index names a map):
    partners are mutual, distinct and in range — the `get_mirror` family of the theorems above -/
theorem functional_getMirror (mp : Mapping) (h : MirrorFunctional mp) (i k : Nat)
    (hg : mp.getMirror i = some k) :
    mp.getMirror k = some i ∧ k ≠ i ∧ i < mp.maps.length ∧ k < mp.maps.length :=
  ⟨(h.sym i k hg).1, (h.sym i k hg).2, h.key_lt i k hg, h.2.2 k (getMirrorAux_mem i mp.mirror k hg).2⟩

/-- **every builder stays inside the family**: the empty mapping and `Mapping(maps)` are functional;
    `append_map` without a mirror argument, `append_map(map, k)` with `k` an earlier map that has no
    partner yet, `append_mapping`, `append_mapping_inverted`, `invert` and `slice` produce functional
    tables from functional tables. -/
theorem functional_preserved :
    MirrorFunctional ({} : Mapping) ∧
    (∀ ms, MirrorFunctional (Mapping.ofMaps ms)) ∧
    (∀ m sm, MirrorFunctional m → MirrorFunctional (m.appendMap sm)) ∧
    (∀ m sm k, MirrorFunctional m → k < m.maps.length → m.getMirror k = none →
      MirrorFunctional (m.appendMap sm (some k))) ∧
    (∀ m n, MirrorFunctional m → MirrorFunctional n → MirrorFunctional (m.appendMapping n)) ∧
    (∀ m n, MirrorFunctional m → MirrorFunctional n → MirrorFunctional (m.appendMappingInverted n)) ∧
    (∀ m, MirrorFunctional m → MirrorFunctional m.invert) ∧
    (∀ m a b, MirrorFunctional m → MirrorFunctional (m.slice a b)) ∧
    (∀ ms, MirrorFunctional (palindrome ms)) :=
  ⟨empty_functional, ofMaps_functional, appendMap_none_functional, appendMap_some_functional,
    appendMapping_functional, appendMappingInverted_functional, invert_functional,
    slice_functional, palindrome_functional⟩

/-- the side condition of `append_map(map, k)` is necessary: the code does not check it, and
    registering a partner that already has one (or the new map itself) leaves the family -/
example :
    let sm : StepMap := ⟨[], false⟩
    let m0 := (Mapping.ofMaps [sm]).appendMap sm (some 0)
    MirrorFunctional m0 ∧ ¬ MirrorFunctional (m0.appendMap sm (some 0)) ∧
    ¬ MirrorFunctional (m0.appendMap sm (some 2)) := by decide

/-! ### one mirrored block inside a longer chain -/

/-- **Mirror round trip, embedded**: the undo block of a history (`palindrome ms`: the maps, then
    their inverses with mirrors) appended after arbitrary maps `pre` and followed by arbitrary maps
    `post` — all through `append_mapping` — is invisible: the whole maps like `pre` then `post`, for
    every position (also inside content deleted by maps of `ms`) and either association side. -/
theorem mirror_roundtrip_embedded (pre ms post : List StepMap)
    (h : ∀ m ∈ ms, StrictWF 0 m.ranges) (p a : Int) :
    (((Mapping.ofMaps pre).appendMapping (palindrome ms)).appendMapping (Mapping.ofMaps post)).map p a =
      some (mapFold post a (mapFold pre a p)) := by
  obtain ⟨A, hAdef⟩ : ∃ A, A = (Mapping.ofMaps pre).appendMapping (palindrome ms) := ⟨_, rfl⟩
  rw [← hAdef]
  have hA : MirrorFunctional A := by
    rw [hAdef]
    exact appendMapping_functional _ _ (ofMaps_functional pre) (palindrome_functional ms)
  have hAfrom : A.from_ = 0 := by rw [hAdef]; exact (appendMapping_mirror _ _).2.1
  have hAto : A.to = A.maps.length := by
    rw [hAdef, (appendMapping_mirror _ _).2.2, appendMapping_maps]
    by_cases hl : (palindrome ms).maps.length = 0
    · rw [if_pos hl, List.eq_nil_of_length_eq_zero hl]; simp [Mapping.ofMaps]
    · rw [if_neg hl]; simp
  have hAself : A.slice A.from_ = A := by
    cases hA' : A with
    | mk maps mirror from_ to =>
      rw [hA'] at hAto
      simp only [Mapping.slice, Option.getD_none] at hAto ⊢
      rw [hAto]
  -- the receiver with the undo block maps like the receiver
  have hAres : ∃ d, A.mapResult p a = some { pos := mapFold pre a p, delInfo := d } := by
    by_cases hms : ms = []
    · subst hms
      have : A = Mapping.ofMaps pre := by rw [hAdef]; exact appendMapping_empty _ _ rfl
      rw [this, ofMaps_mapResult]
      exact ⟨_, rfl⟩
    · have hpalne : (palindrome ms).maps ≠ [] := by
        rw [(palindrome_isPalindrome ms).maps]
        cases ms with
        | nil => exact absurd rfl hms
        | cons x xs => simp
      have hpalself : (palindrome ms).slice 0 = palindrome ms := by
        rw [palindrome_eq]; simp [Mapping.slice]; omega
      have hpreself : (Mapping.ofMaps pre).slice (Mapping.ofMaps pre).from_ = Mapping.ofMaps pre := rfl
      rw [hAdef, appendMapping_map_spec _ _ (ofMaps_functional pre) (palindrome_functional ms) hpalne
        (Nat.zero_le _), hpreself, hpalself, ofMaps_mapResult]
      simp only [Option.bind_some]
      have hpal := mirror_roundtrip_chain ms h (mapFold pre a p) a
      have hne : (palindrome ms).mirror.isEmpty = false := by
        cases hE : (palindrome ms).mirror.isEmpty with
        | false => rfl
        | true =>
          have := (palindrome_isPalindrome ms).mirror 0 (by have := List.length_pos_iff.mpr hms; omega)
          rw [getMirrorAux_none_of_nil _ hE] at this
          cases this
      simp only [Mapping.map, hne, Bool.false_eq_true, if_false] at hpal
      cases hq : (palindrome ms).mapResult (mapFold pre a p) a with
      | none => rw [hq] at hpal; cases hpal
      | some r =>
        rw [hq] at hpal
        simp only [Option.map_some, Option.some.injEq] at hpal
        exact ⟨delFold pre a p 0 ||| r.delInfo, by simp only [Option.map_some, hpal]⟩
  obtain ⟨d, hd⟩ := hAres
  by_cases hpost : post = []
  · subst hpost
    rw [appendMapping_empty A _ rfl, map_eq_mapResult A (by omega), hd]
    rfl
  · have hpostne : (Mapping.ofMaps post).maps ≠ [] := hpost
    have hpostself : (Mapping.ofMaps post).slice 0 = Mapping.ofMaps post := rfl
    have hto : (A.appendMapping (Mapping.ofMaps post)).to ≤ (A.appendMapping (Mapping.ofMaps post)).maps.length := by
      have hl : (Mapping.ofMaps post).maps.length ≠ 0 := fun h0 => hpostne (List.eq_nil_of_length_eq_zero h0)
      rw [(appendMapping_mirror _ _).2.2, appendMapping_maps, if_neg hl]; simp
    rw [map_eq_mapResult _ hto,
      appendMapping_map_spec A _ hA (ofMaps_functional post) hpostne (by rw [hAfrom]; omega),
      hAself, hpostself, hd]
    simp only [Option.bind_some, ofMaps_mapResult, Option.map_some]

/-- non-vacuity: position 4 is moved to 5 by `A`, position 5 lies inside the range `B` deletes; the
    undo block `B, B⁻¹` between `A` and `C` leaves no trace -/
example :
    let A : StepMap := ⟨[(1, 0, 1)], false⟩
    let B : StepMap := ⟨[(3, 4, 0)], false⟩
    let C : StepMap := ⟨[(0, 1, 0)], false⟩
    (∀ m ∈ [B], StrictWF 0 m.ranges) ∧ (B.mapResult (A.map 4 1) 1).deleted = true ∧
    (((Mapping.ofMaps [A]).appendMapping (palindrome [B])).appendMapping (Mapping.ofMaps [C])).map 4 1 =
      some 4 ∧ mapFold [C] 1 (mapFold [A] 1 4) = 4 := by
  intro A B C
  refine ⟨?_, by decide⟩
  intro m hm
  simp only [List.mem_cons, List.not_mem_nil, or_false] at hm
  subst hm
  simp [B, StrictWF]

/-- **Mirror shortcut inside a chain, from the start of the walk**: no followed pair leaves the part
    of the mapping before map `i`; that part produces `r1`; map `i` reports `r1.pos` as deleted and
    its mirror `j` (its inverse) lies after it inside the mapping.  Then the whole mapping maps like
    the part before `i` followed by the part after `j`: maps `i … j` are skipped altogether. -/
theorem mirror_jump_in_chain (mp : Mapping) (i j : Nat) (sm : StepMap) (p a : Int) (r1 : MapResult)
    (hfi : mp.from_ ≤ i) (hsm : mp.maps[i]? = some sm) (hmir : mp.getMirror i = some j) (hij : i < j)
    (hjt : j < mp.to) (hcm : mp.maps[j]? = some sm.invert) (hwf : WF 0 sm.ranges)
    (hns : ∀ k c, k < i → mp.getMirror k = some c → k < c → c < mp.to → c < i)
    (h1 : (mp.slice mp.from_ (some i)).mapResult p a = some r1)
    (hdel : (sm.mapResult r1.pos a).deleted = true) :
    mp.mapResult p a =
      ((mp.slice (j + 1) (some mp.to)).mapResult r1.pos a).map (fun r2 =>
        { pos := r2.pos, delInfo := r1.delInfo ||| r2.delInfo }) := by
  have hself : mp.slice mp.from_ (some mp.to) = mp := by cases mp; rfl
  rw [← hself, slice_split_spec mp mp.from_ i mp.to hfi (by omega) hns p a, h1]
  simp only [Option.bind_some]
  rw [mirror_jump_spec mp i j mp.to sm r1.pos a hsm hmir hij hjt hcm hwf hdel]
  rw [hself]

/-- **forward, then back, in one mapping** (`append_mapping_inverted` of a mapping onto itself, no
    mirrors): positions that get no deletion flag on the way out come back -/
theorem appendMappingInverted_roundtrip (ms : List StepMap) (hne : ms ≠ [])
    (hwf : ∀ m ∈ ms, WF 0 m.ranges) (p a : Int) (h : delFold ms a p 0 = 0) :
    ((Mapping.ofMaps ms).appendMappingInverted (Mapping.ofMaps ms)).map p a = some p := by
  rw [(appendMappingInverted_map_spec_plain (Mapping.ofMaps ms) (Mapping.ofMaps ms) rfl rfl hne p a).2]
  show some (mapFold ((ms ++ ms.reverse.map StepMap.invert).drop 0) a p) = some p
  rw [List.drop_zero, mapFold_append, mapFold_reverse_invert, roundtrip_fold a a ms hwf p h]

/-! ### non-vacuity of the composition laws with mirrors -/

/-- `append_mapping` of an undo block (`B, B⁻¹` mirrored) onto a receiver `[A]`: all hypotheses of
    `appendMapping_map_spec` hold; position 4 survives `A` (→ 5), is deleted by `B` and recovered
    through the carried-over pair `[2, 1]`; without the pair it would end up elsewhere (→ 7) -/
example :
    let A : StepMap := ⟨[(1, 0, 1)], false⟩
    let B : StepMap := ⟨[(3, 4, 0)], false⟩
    let m := Mapping.ofMaps [A]
    let n := palindrome [B]
    MirrorFunctional m ∧ MirrorFunctional n ∧ n.maps ≠ [] ∧ m.from_ ≤ m.maps.length ∧
    (m.appendMapping n).mirror = [2, 1] ∧
    (m.appendMapping n).mapResult 4 1 = some { pos := 5, delInfo := 0 } ∧
    (Mapping.ofMaps (m.appendMapping n).maps).map 4 1 = some 7 := by decide

/-- `append_mapping_inverted` of a rebasing-shaped mapping (`A⁻¹, C, A` with `A⁻¹ ↔ A`): the result
    carries the reflected pair and maps like the receiver followed by `other.invert()` -/
example :
    let A : StepMap := ⟨[(2, 0, 3)], false⟩
    let C : StepMap := ⟨[(0, 0, 4)], false⟩
    let n : Mapping := (((({} : Mapping).appendMap A.invert).appendMap C).appendMap A (some 0))
    let m := Mapping.ofMaps [⟨[(0, 0, 1)], false⟩]
    MirrorFunctional m ∧ MirrorFunctional n ∧ n.mirror = [2, 0] ∧
    (m.appendMappingInverted n).mirror = [3, 1] ∧ n.invert.mirror = [2, 0] ∧
    (m.appendMappingInverted n).mapResult 2 1 = some { pos := 3, delInfo := 0 } ∧
    (n.invert.mapResult 3 1) = some { pos := 3, delInfo := 0 } ∧
    (Mapping.ofMaps (m.appendMappingInverted n).maps).mapResult 2 1 ≠ some { pos := 3, delInfo := 0 } := by
  decide

end PM.C08
