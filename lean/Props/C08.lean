/-
  Props/C08.lean — C08: position maps and mappings obey the documented mapping algebra.

  Property theorems only (helper lemmas live in Proofs/Map.lean).  Coordinates of range `i` of a
  map are given in closed form by prefix sums (`quad`), independently of the scanning loop of
  `StepMap._map`; the theorems say the loop computes exactly the documented rule over them.
-/
import PM.Map
import Proofs.Map
namespace PM.C08
open PM

/-- stored ranges are sorted, have non-negative sizes and do not overlap (they may touch) -/
def WF : Int → List Range → Prop
  | _, [] => True
  | lo, r :: rest => lo ≤ r.1 ∧ 0 ≤ r.2.1 ∧ 0 ≤ r.2.2 ∧ WF (r.1 + r.2.1) rest

/-- consecutive ranges are separated by at least one untouched position -/
def StrictWF : Int → List Range → Prop
  | _, [] => True
  | lo, r :: rest => lo ≤ r.1 ∧ 0 ≤ r.2.1 ∧ 0 ≤ r.2.2 ∧ StrictWF (r.1 + r.2.1 + 1) rest

/-- Σ_{j<i} (new_j − old_j) in stored orientation -/
def shiftBefore (rs : List Range) (i : Nat) : Int := ((rs.take i).map (fun r => r.2.2 - r.2.1)).sum

structure Quad where
  oldStart : Int
  oldEnd   : Int
  newStart : Int
  newEnd   : Int
deriving DecidableEq, Repr

/-- closed-form coordinates of range `i` in the orientation of the map -/
def quad (m : StepMap) (i : Nat) : Quad :=
  let r := m.ranges[i]!
  let sh := shiftBefore m.ranges i
  if m.inverted then ⟨r.1 + sh, r.1 + sh + r.2.2, r.1, r.1 + r.2.1⟩
  else ⟨r.1, r.1 + r.2.1, r.1 + sh, r.1 + sh + r.2.2⟩

/-- shift applied to a position lying after the first `k` ranges, in the orientation of the map -/
def shiftAfter (m : StepMap) (k : Nat) : Int :=
  if m.inverted then - shiftBefore m.ranges k else shiftBefore m.ranges k

/-- the association side the rule uses inside range `q` -/
def sideOf (q : Quad) (pos assoc : Int) : Int :=
  if q.oldStart = q.oldEnd then assoc
  else if pos = q.oldStart then -1
  else if pos = q.oldEnd then 1
  else assoc

/-- the documented result for a position inside (or at a boundary of) range `i` -/
def insideResult (q : Quad) (i : Nat) (pos assoc : Int) : MapResult :=
  { pos := if sideOf q pos assoc < 0 then q.newStart else q.newEnd
    delInfo :=
      let d0 := if pos = q.oldStart then DEL_AFTER else if pos = q.oldEnd then DEL_BEFORE else DEL_ACROSS
      if (if assoc < 0 then pos ≠ q.oldStart else pos ≠ q.oldEnd) then d0 ||| DEL_SIDE else d0
    recover := if pos = (if assoc < 0 then q.oldStart else q.oldEnd) then none else some (i, pos - q.oldStart) }

/-- **for_each** enumerates exactly the closed-form coordinates, in order (any map). -/
theorem forEach_spec (m : StepMap) :
    m.forEach = (List.range m.ranges.length).map
      (fun i => ((quad m i).oldStart, (quad m i).oldEnd, (quad m i).newStart, (quad m i).newEnd)) := by
  sorry

/-- **The rule, outside the ranges**: a position after the first `k` ranges and before range `k`
    is shifted by the accumulated size difference, with no deletion info and no recover value. -/
theorem map_outside (m : StepMap) (hwf : WF 0 m.ranges) (pos assoc : Int) (k : Nat)
    (hk : k ≤ m.ranges.length)
    (hbefore : ∀ j, j < k → (quad m j).oldEnd < pos)
    (hafter : k < m.ranges.length → pos < (quad m k).oldStart) :
    m.mapResult pos assoc = { pos := pos + shiftAfter m k, delInfo := 0, recover := none } := by
  sorry

/-- **The rule, inside a range**: the first range whose closed old interval contains the position
    decides; start or end of the replacement by association side; deletion flags and recover value
    as documented. -/
theorem map_inside (m : StepMap) (hwf : WF 0 m.ranges) (pos assoc : Int) (i : Nat)
    (hi : i < m.ranges.length)
    (hfirst : ∀ j, j < i → (quad m j).oldEnd < pos)
    (h1 : (quad m i).oldStart ≤ pos) (h2 : pos ≤ (quad m i).oldEnd) :
    m.mapResult pos assoc = insideResult (quad m i) i pos assoc := by
  sorry

/-- **Monotonicity** (same association side). -/
theorem map_mono (m : StepMap) (hwf : WF 0 m.ranges) (p q assoc : Int) (hpq : p ≤ q) :
    m.map p assoc ≤ m.map q assoc := by
  sorry

/-- `deleted` is set exactly when the token on the association side of the position was deleted. -/
theorem deleted_spec (m : StepMap) (hwf : WF 0 m.ranges) (pos assoc : Int) :
    (m.mapResult pos assoc).deleted = true ↔
      ∃ i, i < m.ranges.length ∧ (∀ j, j < i → (quad m j).oldEnd < pos) ∧
        (quad m i).oldStart ≤ pos ∧ pos ≤ (quad m i).oldEnd ∧
        (if assoc < 0 then pos ≠ (quad m i).oldStart else pos ≠ (quad m i).oldEnd) := by
  sorry

/-- **for_each agrees with map** when ranges are strictly separated: the new coordinates reported
    for a range are where `map` sends the range's old boundaries. -/
theorem forEach_map_agree (m : StepMap) (hwf : StrictWF 0 m.ranges) (i : Nat) (hi : i < m.ranges.length) :
    m.map (quad m i).oldStart (-1) = (quad m i).newStart ∧
    m.map (quad m i).oldEnd 1 = (quad m i).newEnd := by
  sorry

/-- the guard of `forEach_map_agree` is necessary: with adjacent ranges it fails -/
theorem forEach_map_agree_needs_strict :
    let m : StepMap := ⟨[(2, 0, 1), (2, 2, 0)], false⟩
    WF 0 m.ranges ∧ m.map (quad m 1).oldStart (-1) ≠ (quad m 1).newStart := by
  decide

/-- **touches**: true exactly when the range named by the recover value contains the position. -/
theorem touches_spec (m : StepMap) (hwf : WF 0 m.ranges) (pos : Int) (i : Nat) (off : Int) :
    m.touches pos (i, off) = true ↔
      i < m.ranges.length ∧ (quad m i).oldStart ≤ pos ∧ pos ≤ (quad m i).oldEnd := by
  sorry

/-- **recover**: the inverse map turns a recover value back into the original position. -/
theorem recover_spec (m : StepMap) (i : Nat) (off : Int) (hi : i < m.ranges.length) :
    m.invert.recover (i, off) = some ((quad m i).oldStart + off) := by
  sorry

/-- **Inversion** swaps the old and the new coordinates of every range. -/
theorem invert_quad (m : StepMap) (i : Nat) (hi : i < m.ranges.length) :
    quad m.invert i = ⟨(quad m i).newStart, (quad m i).newEnd, (quad m i).oldStart, (quad m i).oldEnd⟩ := by
  sorry

/-- **Inverse round trip** outside the changed ranges. -/
theorem invert_roundtrip_outside (m : StepMap) (hwf : WF 0 m.ranges) (pos a a' : Int) (k : Nat)
    (hk : k ≤ m.ranges.length)
    (hbefore : ∀ j, j < k → (quad m j).oldEnd < pos)
    (hafter : k < m.ranges.length → pos < (quad m k).oldStart) :
    m.invert.map (m.map pos a) a' = pos := by
  sorry

/-- **A mapping without mirrors is the left-to-right composition of its maps** (`map_result`). -/
theorem mapping_composition (mp : Mapping) (hm : mp.mirror = []) (hto : mp.to ≤ mp.maps.length)
    (pos assoc : Int) :
    (mp.mapResult pos assoc).map (·.pos) = some (mp.mapPlain pos assoc) := by
  sorry

/-- slicing composes the sliced maps -/
theorem slice_spec (mp : Mapping) (a b : Nat) (pos assoc : Int) :
    (mp.slice a (some b)).mapPlain pos assoc =
      ((mp.maps.take b).drop a).foldl (fun p sm => sm.map p assoc) pos := by
  sorry

/-- `append_map` appends -/
theorem appendMap_spec (mp : Mapping) (sm : StepMap) :
    (mp.appendMap sm).maps = mp.maps ++ [sm] ∧ (mp.appendMap sm).to = mp.maps.length + 1 ∧
    (mp.appendMap sm).mirror = mp.mirror := by
  sorry

/-- `append_mapping` appends the other mapping's maps in order -/
theorem appendMapping_spec (mp other : Mapping) :
    (mp.appendMapping other).maps = mp.maps ++ other.maps := by
  sorry

/-- `append_mapping_inverted` appends the inverted maps in reverse order -/
theorem appendMappingInverted_spec (mp other : Mapping) :
    (mp.appendMappingInverted other).maps = mp.maps ++ (other.maps.reverse.map StepMap.invert) := by
  sorry

/-- `Mapping.invert` -/
theorem mappingInvert_spec (mp : Mapping) :
    mp.invert.maps = mp.maps.reverse.map StepMap.invert := by
  sorry

/-- **Mirror round trip (one map)**: `[m, m⁻¹]` with the two registered as mirrors sends every
    position — including positions inside deleted content — back to itself. -/
theorem mirror_roundtrip_one (m : StepMap) (hwf : StrictWF 0 m.ranges) (pos assoc : Int) :
    let mp : Mapping := { maps := [m, m.invert], mirror := [1, 0], from_ := 0, to := 2 }
    mp.map pos assoc = some pos := by
  sorry

/-- the guard is necessary: an adjacent-range map breaks the round trip -/
theorem mirror_roundtrip_needs_strict :
    let m : StepMap := ⟨[(2, 2, 1), (4, 2, 0)], false⟩
    let mp : Mapping := { maps := [m, m.invert], mirror := [1, 0], from_ := 0, to := 2 }
    WF 0 m.ranges ∧ mp.map 3 (-1) ≠ some 3 := by
  decide

/-- non-vacuity: a concrete strictly well-formed two-range map and what the rule gives on it -/
example : StrictWF 0 [(2, 2, 1), (6, 0, 3)] ∧
    (⟨[(2, 2, 1), (6, 0, 3)], false⟩ : StepMap).map 3 1 = 3 ∧
    (⟨[(2, 2, 1), (6, 0, 3)], false⟩ : StepMap).map 6 1 = 8 ∧
    (⟨[(2, 2, 1), (6, 0, 3)], false⟩ : StepMap).map 7 1 = 9 := by
  decide

end PM.C08
