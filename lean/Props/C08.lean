/-
  Props/C08.lean — C08: position maps and mappings obey the documented mapping algebra.

  Property theorems only (helper lemmas live in Proofs/Map.lean).  Coordinates of range `i` of a
  map are given in closed form by prefix sums (`quad`), independently of the scanning loop of
  `StepMap._map`; the theorems say the loop computes exactly the documented rule over them.
-/
import PM.Map
import Proofs.Map
import Proofs.MapMirror
namespace PM.C08
open PM

/-- stored ranges are sorted, have non-negative sizes and do not overlap (they may touch) -/
def WF : Int → List Range → Prop
  | _, [] => True
  | lo, r :: rest => lo ≤ r.1 ∧ 0 ≤ r.2.1 ∧ 0 ≤ r.2.2 ∧ WF (r.1 + r.2.1) rest

/-- consecutive ranges are separated by at least one untouched position -/
def StrictWF : Int → List Range → Prop
  | _, [] => True
  | lo, r :: rest => lo ≤ r.1 ∧ 0 ≤ r.2.1 ∧ 0 ≤ r.2.2 ∧ StrictWF (r.1 + r.2.1 + 1) rest

/-- Σ_{j<i} (new_j − old_j) in stored orientation -/
def shiftBefore (rs : List Range) (i : Nat) : Int := ((rs.take i).map (fun r => r.2.2 - r.2.1)).sum

structure Quad where
  oldStart : Int
  oldEnd   : Int
  newStart : Int
  newEnd   : Int
deriving DecidableEq, Repr

/-- closed-form coordinates of range `i` in the orientation of the map -/
def quad (m : StepMap) (i : Nat) : Quad :=
  let r := m.ranges[i]!
  let sh := shiftBefore m.ranges i
  if m.inverted then ⟨r.1 + sh, r.1 + sh + r.2.2, r.1, r.1 + r.2.1⟩
  else ⟨r.1, r.1 + r.2.1, r.1 + sh, r.1 + sh + r.2.2⟩

/-- shift applied to a position lying after the first `k` ranges, in the orientation of the map -/
def shiftAfter (m : StepMap) (k : Nat) : Int :=
  if m.inverted then - shiftBefore m.ranges k else shiftBefore m.ranges k

/-- the association side the rule uses inside range `q` -/
def sideOf (q : Quad) (pos assoc : Int) : Int :=
  if q.oldStart = q.oldEnd then assoc
  else if pos = q.oldStart then -1
  else if pos = q.oldEnd then 1
  else assoc

/-- the documented result for a position inside (or at a boundary of) range `i` -/
def insideResult (q : Quad) (i : Nat) (pos assoc : Int) : MapResult :=
  { pos := if sideOf q pos assoc < 0 then q.newStart else q.newEnd
    delInfo :=
      let d0 := if pos = q.oldStart then DEL_AFTER else if pos = q.oldEnd then DEL_BEFORE else DEL_ACROSS
      if (if assoc < 0 then pos ≠ q.oldStart else pos ≠ q.oldEnd) then d0 ||| DEL_SIDE else d0
    recover := if pos = (if assoc < 0 then q.oldStart else q.oldEnd) then none else some (i, pos - q.oldStart) }

/-! glue between the definitions above and the list-level notions of `Proofs/Map.lean` -/

private theorem WF_iff : ∀ (rs : List Range) (lo : Int), WF lo rs ↔ RWF lo rs
  | [], _ => Iff.rfl
  | r :: rest, lo => by simp only [WF, RWF, WF_iff rest]

private theorem StrictWF_iff : ∀ (rs : List Range) (lo : Int), StrictWF lo rs ↔ RSWF lo rs
  | [], _ => Iff.rfl
  | r :: rest, lo => by simp only [StrictWF, RSWF, StrictWF_iff rest]

private theorem shiftBefore_eq (rs : List Range) (i : Nat) : shiftBefore rs i = shiftB rs i := rfl

private theorem quad_oldStart (m : StepMap) (i : Nat) :
    (quad m i).oldStart = qOS m.inverted 0 m.ranges i := by
  unfold quad; cases m.inverted <;> simp [qOS, shiftBefore_eq]

private theorem quad_oldEnd (m : StepMap) (i : Nat) :
    (quad m i).oldEnd = qOE m.inverted 0 m.ranges i := by
  unfold quad; cases m.inverted <;> simp [qOE, qOS, shiftBefore_eq, Range.oldSize]

private theorem quad_newStart (m : StepMap) (i : Nat) :
    (quad m i).newStart = qOS (!m.inverted) (-0) m.ranges i := by
  unfold quad; cases m.inverted <;> simp [qOS, shiftBefore_eq]

private theorem quad_newEnd (m : StepMap) (i : Nat) :
    (quad m i).newEnd = qOE (!m.inverted) (-0) m.ranges i := by
  unfold quad; cases m.inverted <;> simp [qOE, qOS, shiftBefore_eq, Range.oldSize]

private theorem insideResult_eq (q : Quad) (i : Nat) (pos assoc : Int) :
    insideResult q i pos assoc = insideRes q.oldStart q.oldEnd q.newStart q.newEnd i pos assoc := rfl

/-- every position is either inside a first range or strictly between two consecutive ranges -/
private theorem locate_quad (m : StepMap) (pos : Int) :
    (∃ i, i < m.ranges.length ∧ (∀ j, j < i → (quad m j).oldEnd < pos) ∧
      (quad m i).oldStart ≤ pos ∧ pos ≤ (quad m i).oldEnd) ∨
    (∃ k, k ≤ m.ranges.length ∧ (∀ j, j < k → (quad m j).oldEnd < pos) ∧
      (k < m.ranges.length → pos < (quad m k).oldStart)) :=
  locate (fun i => (quad m i).oldStart) (fun i => (quad m i).oldEnd) pos m.ranges.length

/-- **for_each** enumerates exactly the closed-form coordinates, in order (any map). -/
theorem forEach_spec (m : StepMap) :
    m.forEach = (List.range m.ranges.length).map
      (fun i => ((quad m i).oldStart, (quad m i).oldEnd, (quad m i).newStart, (quad m i).newEnd)) := by
  unfold StepMap.forEach
  rw [forEachAux_spec]
  simp only [quad_oldStart, quad_oldEnd, quad_newStart, quad_newEnd]

/-- **The rule, outside the ranges**: a position after the first `k` ranges and before range `k`
    is shifted by the accumulated size difference, with no deletion info and no recover value. -/
theorem map_outside (m : StepMap) (hwf : WF 0 m.ranges) (pos assoc : Int) (k : Nat)
    (hk : k ≤ m.ranges.length)
    (hbefore : ∀ j, j < k → (quad m j).oldEnd < pos)
    (hafter : k < m.ranges.length → pos < (quad m k).oldStart) :
    m.mapResult pos assoc = { pos := pos + shiftAfter m k, delInfo := 0, recover := none } := by
  unfold StepMap.mapResult
  simp only [quad_oldStart, quad_oldEnd] at hbefore hafter
  rw [mapAux_outside m.inverted pos assoc m.ranges 0 0 0 k ((WF_iff _ _).1 hwf) hk hbefore hafter]
  simp only [shiftAfter, shiftBefore_eq, Int.add_zero]

/-- **The rule, inside a range**: the first range whose closed old interval contains the position
    decides; start or end of the replacement by association side; deletion flags and recover value
    as documented. -/
theorem map_inside (m : StepMap) (hwf : WF 0 m.ranges) (pos assoc : Int) (i : Nat)
    (hi : i < m.ranges.length)
    (hfirst : ∀ j, j < i → (quad m j).oldEnd < pos)
    (h1 : (quad m i).oldStart ≤ pos) (h2 : pos ≤ (quad m i).oldEnd) :
    m.mapResult pos assoc = insideResult (quad m i) i pos assoc := by
  unfold StepMap.mapResult
  rw [insideResult_eq]
  simp only [quad_oldStart, quad_oldEnd, quad_newStart, quad_newEnd] at *
  rw [mapAux_inside m.inverted pos assoc m.ranges 0 0 0 i ((WF_iff _ _).1 hwf) hi hfirst h1 h2,
    Nat.zero_add]

/-- **Monotonicity** (same association side). -/
theorem map_mono (m : StepMap) (hwf : WF 0 m.ranges) (p q assoc : Int) (hpq : p ≤ q) :
    m.map p assoc ≤ m.map q assoc := by
  exact mapAux_mono m.inverted p q assoc hpq m.ranges 0 0 0 ((WF_iff _ _).1 hwf)

/-- `deleted` is set exactly when the token on the association side of the position was deleted. -/
theorem deleted_spec (m : StepMap) (hwf : WF 0 m.ranges) (pos assoc : Int) :
    (m.mapResult pos assoc).deleted = true ↔
      ∃ i, i < m.ranges.length ∧ (∀ j, j < i → (quad m j).oldEnd < pos) ∧
        (quad m i).oldStart ≤ pos ∧ pos ≤ (quad m i).oldEnd ∧
        (if assoc < 0 then pos ≠ (quad m i).oldStart else pos ≠ (quad m i).oldEnd) := by
  constructor
  · intro hd
    rcases locate_quad m pos with ⟨i, hi, hf, h1, h2⟩ | ⟨k, hk, hb, ha⟩
    · refine ⟨i, hi, hf, h1, h2, ?_⟩
      rw [map_inside m hwf pos assoc i hi hf h1 h2, insideResult_eq, insideRes_deleted] at hd
      exact hd
    · rw [map_outside m hwf pos assoc k hk hb ha] at hd
      simp [MapResult.deleted] at hd
  · rintro ⟨i, hi, hf, h1, h2, hc⟩
    rw [map_inside m hwf pos assoc i hi hf h1 h2, insideResult_eq, insideRes_deleted]
    exact hc

/-- under strict separation, the start of a range maps (to the left) to its new start -/
private theorem map_at_start (m : StepMap) (hwf : StrictWF 0 m.ranges) (i : Nat)
    (hi : i < m.ranges.length) (assoc : Int) (ha : assoc < 0) :
    m.map (quad m i).oldStart assoc = (quad m i).newStart := by
  have hw : WF 0 m.ranges := (WF_iff _ _).2 ((StrictWF_iff _ _).1 hwf).toRWF
  have hsep : ∀ j, j < i → (quad m j).oldEnd < (quad m i).oldStart := fun j hj => by
    rw [quad_oldEnd, quad_oldStart]
    exact qOE_lt_qOS m.inverted m.ranges 0 0 j i ((StrictWF_iff _ _).1 hwf) hj hi
  have hle : (quad m i).oldStart ≤ (quad m i).oldEnd := by
    rw [quad_oldEnd, quad_oldStart]
    exact qOS_le_qOE m.inverted m.ranges 0 0 i ((WF_iff _ _).1 hw) hi
  unfold StepMap.map
  rw [map_inside m hw _ assoc i hi hsep (Int.le_refl _) hle]
  by_cases h : (quad m i).oldStart = (quad m i).oldEnd <;> simp [insideResult, sideOf, h, ha]

/-- under strict separation, the end of a range maps (to the right) to its new end -/
private theorem map_at_end (m : StepMap) (hwf : StrictWF 0 m.ranges) (i : Nat)
    (hi : i < m.ranges.length) (assoc : Int) (ha : ¬ assoc < 0) :
    m.map (quad m i).oldEnd assoc = (quad m i).newEnd := by
  have hw : WF 0 m.ranges := (WF_iff _ _).2 ((StrictWF_iff _ _).1 hwf).toRWF
  have hsep : ∀ j, j < i → (quad m j).oldEnd < (quad m i).oldStart := fun j hj => by
    rw [quad_oldEnd, quad_oldStart]
    exact qOE_lt_qOS m.inverted m.ranges 0 0 j i ((StrictWF_iff _ _).1 hwf) hj hi
  have hle : (quad m i).oldStart ≤ (quad m i).oldEnd := by
    rw [quad_oldEnd, quad_oldStart]
    exact qOS_le_qOE m.inverted m.ranges 0 0 i ((WF_iff _ _).1 hw) hi
  unfold StepMap.map
  rw [map_inside m hw _ assoc i hi (fun j hj => by have := hsep j hj; omega) hle (Int.le_refl _)]
  by_cases h : (quad m i).oldStart = (quad m i).oldEnd
  · simp [insideResult, sideOf, h, ha]
  · have h' : ¬ (quad m i).oldEnd = (quad m i).oldStart := fun e => h e.symm
    simp [insideResult, sideOf, h, h']

/-- **for_each agrees with map** when ranges are strictly separated: the new coordinates reported
    for a range are where `map` sends the range's old boundaries. -/
theorem forEach_map_agree (m : StepMap) (hwf : StrictWF 0 m.ranges) (i : Nat) (hi : i < m.ranges.length) :
    m.map (quad m i).oldStart (-1) = (quad m i).newStart ∧
    m.map (quad m i).oldEnd 1 = (quad m i).newEnd := by
  exact ⟨map_at_start m hwf i hi (-1) (by decide), map_at_end m hwf i hi 1 (by decide)⟩

/-- the guard of `forEach_map_agree` is necessary: with adjacent ranges it fails -/
theorem forEach_map_agree_needs_strict :
    let m : StepMap := ⟨[(2, 0, 1), (2, 2, 0)], false⟩
    WF 0 m.ranges ∧ m.map (quad m 1).oldStart (-1) ≠ (quad m 1).newStart := by
  intro m
  refine ⟨by simp [m, WF], by decide⟩

/-- **touches**: true exactly when the range named by the recover value contains the position. -/
theorem touches_spec (m : StepMap) (hwf : WF 0 m.ranges) (pos : Int) (i : Nat) (off : Int) :
    m.touches pos (i, off) = true ↔
      i < m.ranges.length ∧ (quad m i).oldStart ≤ pos ∧ pos ≤ (quad m i).oldEnd := by
  unfold StepMap.touches
  rw [touchesAux_spec m.inverted pos i m.ranges 0 0 0 ((WF_iff _ _).1 hwf)]
  simp only [quad_oldStart, quad_oldEnd, Nat.zero_add]
  constructor
  · rintro ⟨i', rfl, h⟩; exact h
  · intro h; exact ⟨i, rfl, h⟩

/-- **recover**: the inverse map turns a recover value back into the original position. -/
theorem recover_spec (m : StepMap) (i : Nat) (off : Int) (hi : i < m.ranges.length) :
    m.invert.recover (i, off) = some ((quad m i).oldStart + off) := by
  unfold StepMap.recover StepMap.invert quad
  simp only [List.getElem?_eq_getElem hi, getElem!_pos m.ranges i hi, shiftBefore]
  cases m.inverted <;> simp

/-- **Inversion** swaps the old and the new coordinates of every range. -/
theorem invert_quad (m : StepMap) (i : Nat) (hi : i < m.ranges.length) :
    quad m.invert i = ⟨(quad m i).newStart, (quad m i).newEnd, (quad m i).oldStart, (quad m i).oldEnd⟩ := by
  have _ := hi
  unfold quad StepMap.invert
  cases m.inverted <;> simp

/-- **Inverse round trip** outside the changed ranges. -/
theorem invert_roundtrip_outside (m : StepMap) (hwf : WF 0 m.ranges) (pos a a' : Int) (k : Nat)
    (hk : k ≤ m.ranges.length)
    (hbefore : ∀ j, j < k → (quad m j).oldEnd < pos)
    (hafter : k < m.ranges.length → pos < (quad m k).oldStart) :
    m.invert.map (m.map pos a) a' = pos := by
  have hw := (WF_iff _ _).1 hwf
  have hb := hbefore
  have ha := hafter
  simp only [quad_oldStart, quad_oldEnd] at hb ha
  obtain ⟨hb', ha'⟩ := outside_transfer m.inverted m.ranges 0 hw pos k hk hb ha
  have e : pos + shiftAfter m k =
      pos + (if m.inverted then - shiftB m.ranges k else shiftB m.ranges k) := by
    simp only [shiftAfter, shiftBefore_eq]
  unfold StepMap.map
  rw [map_outside m hwf pos a k hk hbefore hafter]
  rw [map_outside m.invert hwf (pos + shiftAfter m k) a' k hk
    (fun j hj => by rw [quad_oldEnd, e]; exact hb' j hj)
    (fun hk' => by rw [quad_oldStart, e]; exact ha' hk')]
  simp only [shiftAfter, StepMap.invert, shiftBefore_eq]
  by_cases h : m.inverted = true <;> simp [h] <;> omega

/-- **A mapping without mirrors is the left-to-right composition of its maps** (`map_result`). -/
theorem mapping_composition (mp : Mapping) (hm : mp.mirror = []) (hto : mp.to ≤ mp.maps.length)
    (pos assoc : Int) :
    (mp.mapResult pos assoc).map (·.pos) = some (mp.mapPlain pos assoc) := by
  unfold Mapping.mapResult Mapping.mapPlain
  exact mappingMapAux_plain mp hm hto assoc _ _ _ _ (by omega)

/-- slicing composes the sliced maps -/
theorem slice_spec (mp : Mapping) (a b : Nat) (pos assoc : Int) :
    (mp.slice a (some b)).mapPlain pos assoc =
      ((mp.maps.take b).drop a).foldl (fun p sm => sm.map p assoc) pos := by
  rfl

/-- `append_map` appends -/
theorem appendMap_spec (mp : Mapping) (sm : StepMap) :
    (mp.appendMap sm).maps = mp.maps ++ [sm] ∧ (mp.appendMap sm).to = mp.maps.length + 1 ∧
    (mp.appendMap sm).mirror = mp.mirror := by
  exact ⟨rfl, rfl, rfl⟩

/-- `append_mapping` appends the other mapping's maps in order -/
theorem appendMapping_spec (mp other : Mapping) :
    (mp.appendMapping other).maps = mp.maps ++ other.maps := by
  unfold Mapping.appendMapping
  rw [foldl_range_maps _ other.maps (fun acc i hi => by
    simp only [List.getElem?_eq_getElem hi, appendMap_maps]) _ (Nat.le_refl _), List.take_length]

/-- `append_mapping_inverted` appends the inverted maps in reverse order -/
theorem appendMappingInverted_spec (mp other : Mapping) :
    (mp.appendMappingInverted other).maps = mp.maps ++ (other.maps.reverse.map StepMap.invert) := by
  unfold Mapping.appendMappingInverted
  rw [foldl_range_reverse_maps _ other.maps (fun acc i hi => by
    simp only [List.getElem?_eq_getElem hi, appendMap_maps]) _ (Nat.le_refl _), List.take_length]

/-- `Mapping.invert` -/
theorem mappingInvert_spec (mp : Mapping) :
    mp.invert.maps = mp.maps.reverse.map StepMap.invert := by
  unfold Mapping.invert
  rw [appendMappingInverted_spec]
  rfl

/-- **Mirror round trip (one map)**: `[m, m⁻¹]` with the two registered as mirrors sends every
    position — including positions inside deleted content — back to itself. -/
theorem mirror_roundtrip_one (m : StepMap) (hwf : StrictWF 0 m.ranges) (pos assoc : Int) :
    let mp : Mapping := { maps := [m, m.invert], mirror := [1, 0], from_ := 0, to := 2 }
    mp.map pos assoc = some pos := by
  intro mp
  have hw : WF 0 m.ranges := (WF_iff _ _).2 ((StrictWF_iff _ _).1 hwf).toRWF
  have hmap : mp.map pos assoc = (mappingMapAux mp assoc 3 0 pos 0).map (·.pos) := rfl
  -- the second map is applied without a mirror jump (its mirror precedes it)
  have stage2 : ∀ p del, (mappingMapAux mp assoc 2 1 p del).map (·.pos) =
      some (m.invert.map p assoc) := by
    intro p del
    rw [mappingMapAux_step_nojump mp assoc 1 1 p del m.invert (show 1 < 2 by decide) rfl
      (Or.inr (fun corr hc => by
        have : corr = 0 := by
          have h0 : mp.getMirror 1 = some 0 := rfl
          rw [h0] at hc; exact (Option.some.inj hc).symm
        omega)),
      mappingMapAux_done mp assoc 1 2 _ _ (show ¬ 2 < 2 by decide)]
    rfl
  -- no recover value after the first map: plain composition of the two maps
  have plain : (m.mapResult pos assoc).recover = none →
      mp.map pos assoc = some (m.invert.map (m.map pos assoc) assoc) := by
    intro hr
    rw [hmap, mappingMapAux_step_nojump mp assoc 2 0 pos 0 m (show 0 < 2 by decide) rfl (Or.inl hr), stage2]
    rfl
  rcases locate_quad m pos with ⟨i, hi, hf, h1, h2⟩ | ⟨k, hk, hb, ha⟩
  · have hres := map_inside m hw pos assoc i hi hf h1 h2
    by_cases hrec : pos = (if assoc < 0 then (quad m i).oldStart else (quad m i).oldEnd)
    · have hr : (m.mapResult pos assoc).recover = none := by
        rw [hres]; simp only [insideResult]; rw [if_pos hrec]
      rw [plain hr]
      have hq := invert_quad m i hi
      by_cases hassoc : assoc < 0
      · rw [if_pos hassoc] at hrec
        rw [hrec, map_at_start m hwf i hi assoc hassoc]
        have := map_at_start m.invert hwf i hi assoc hassoc
        rw [hq] at this
        exact congrArg some this
      · rw [if_neg hassoc] at hrec
        rw [hrec, map_at_end m hwf i hi assoc hassoc]
        have := map_at_end m.invert hwf i hi assoc hassoc
        rw [hq] at this
        exact congrArg some this
    · have hr : (m.mapResult pos assoc).recover = some (i, pos - (quad m i).oldStart) := by
        rw [hres]; simp only [insideResult]; rw [if_neg hrec]
      rw [hmap, mappingMapAux_step_mirror mp assoc 2 0 pos 0 m m.invert _ 1 _
        (show 0 < 2 by decide) rfl hr rfl (show 1 > 0 by decide) (show 1 < 2 by decide) rfl (recover_spec m i _ hi),
        mappingMapAux_done mp assoc 2 2 _ _ (show ¬ 2 < 2 by decide)]
      simp only [Option.map_some]
      congr 1
      omega
  · have hres := map_outside m hw pos assoc k hk hb ha
    have hr : (m.mapResult pos assoc).recover = none := by rw [hres]
    rw [plain hr, invert_roundtrip_outside m hw pos assoc assoc k hk hb ha]

/-- the guard is necessary: an adjacent-range map breaks the round trip -/
-- STATEMENT CHANGED: the original witness `mp.map 3 (-1) ≠ some 3` is false for this map
-- (`#eval mp.map 3 (-1)` gives `some 3`: position 3 lies strictly inside range 0, gets the recover
-- value `(0, 1)` and is recovered exactly through the mirror).  Among positions 0..11 and
-- assoc ∈ {-1, 1} the only failing round trip for this adjacent-range map is `pos = 6, assoc = 1`
-- (`#eval mp.map 6 1` gives `some 4`), so the witness position/side was changed to that one.
-- The `example` right below is a kernel-checked refutation of the original witness.
example :
    let m : StepMap := ⟨[(2, 2, 1), (4, 2, 0)], false⟩
    let mp : Mapping := { maps := [m, m.invert], mirror := [1, 0], from_ := 0, to := 2 }
    mp.map 3 (-1) = some 3 := by
  decide

theorem mirror_roundtrip_needs_strict :
    let m : StepMap := ⟨[(2, 2, 1), (4, 2, 0)], false⟩
    let mp : Mapping := { maps := [m, m.invert], mirror := [1, 0], from_ := 0, to := 2 }
    WF 0 m.ranges ∧ mp.map 6 1 ≠ some 6 := by
  intro m mp
  refine ⟨by simp [m, WF], by decide⟩

/-! ### Mirror round trip through a whole history (`palindrome`, defined in PM/Map.lean) -/

/-- A strictly well-formed map (either orientation) round-trips with its inverse, for either
    association side: a position that gets no recover value is brought back by the inverse map, and
    a recover value is turned back into the position by `recover` of the inverse map. -/
theorem roundTrips_of_strict (m : StepMap) (hwf : StrictWF 0 m.ranges) (assoc : Int) :
    RoundTrips m assoc := by
  intro pos
  have hw : WF 0 m.ranges := (WF_iff _ _).2 ((StrictWF_iff _ _).1 hwf).toRWF
  rcases locate_quad m pos with ⟨i, hi, hf, h1, h2⟩ | ⟨k, hk, hb, ha⟩
  · have hres := map_inside m hw pos assoc i hi hf h1 h2
    by_cases hrec : pos = (if assoc < 0 then (quad m i).oldStart else (quad m i).oldEnd)
    · have hr : (m.mapResult pos assoc).recover = none := by
        rw [hres]; simp only [insideResult]; rw [if_pos hrec]
      refine ⟨fun _ => ?_, fun rv h => (by rw [hr] at h; cases h)⟩
      have hq := invert_quad m i hi
      by_cases hassoc : assoc < 0
      · rw [if_pos hassoc] at hrec
        rw [hrec, map_at_start m hwf i hi assoc hassoc]
        have := map_at_start m.invert hwf i hi assoc hassoc
        rw [hq] at this
        exact this
      · rw [if_neg hassoc] at hrec
        rw [hrec, map_at_end m hwf i hi assoc hassoc]
        have := map_at_end m.invert hwf i hi assoc hassoc
        rw [hq] at this
        exact this
    · have hr : (m.mapResult pos assoc).recover = some (i, pos - (quad m i).oldStart) := by
        rw [hres]; simp only [insideResult]; rw [if_neg hrec]
      refine ⟨fun h => (by rw [hr] at h; cases h), fun rv h => ?_⟩
      rw [hr] at h
      cases h
      rw [recover_spec m i _ hi]
      congr 1
      omega
  · have hres := map_outside m hw pos assoc k hk hb ha
    have hr : (m.mapResult pos assoc).recover = none := by rw [hres]
    exact ⟨fun _ => invert_roundtrip_outside m hw pos assoc assoc k hk hb ha,
      fun rv h => (by rw [hr] at h; cases h)⟩

/-- `palindrome [m]` is the mapping of `mirror_roundtrip_one` -/
example (m : StepMap) :
    palindrome [m] = { maps := [m, m.invert], mirror := [1, 0], from_ := 0, to := 2 } := rfl

/-- what `palindrome` builds, in closed form: the maps followed by their inverses in reverse order,
    every position `i < 2k` mirrored with `2k − 1 − i`, the whole of it selected -/
theorem palindrome_spec (ms : List StepMap) :
    (palindrome ms).maps = ms ++ ms.reverse.map StepMap.invert ∧
    (palindrome ms).from_ = 0 ∧ (palindrome ms).to = 2 * ms.length ∧
    ∀ i, i < 2 * ms.length → (palindrome ms).getMirror i = some (2 * ms.length - 1 - i) :=
  ⟨(palindrome_isPalindrome ms).maps, palindrome_from ms, (palindrome_isPalindrome ms).to,
    (palindrome_isPalindrome ms).mirror⟩

/-- **Mirror round trip (whole history)**: the maps of an arbitrary history followed by their
    inverses in reverse order, each inverse registered (through `append_map`) as the mirror of the
    map it undoes, send every position — including positions inside content deleted by any of the
    maps — back to itself, for either association side.

    Nothing is assumed about how consecutive maps fit together (no chaining hypothesis), about the
    orientation of the maps (`inverted = true` members are covered), or about the sign of `pos`;
    only that every single map has strictly separated ranges (necessary already for one map, see
    `mirror_roundtrip_needs_strict`). -/
theorem mirror_roundtrip_chain (ms : List StepMap) (h : ∀ m ∈ ms, StrictWF 0 m.ranges)
    (pos assoc : Int) :
    (palindrome ms).map pos assoc = some pos :=
  palin_roundtrip (palindrome_isPalindrome ms) (palindrome_from ms) assoc
    (fun m hm => roundTrips_of_strict m (h m hm) assoc) pos

/-- the second half of the palindrome, taken as a slice, contains no complete mirror pair and is
    the plain composition of the inverted maps, last map first (any maps, no well-formedness) -/
theorem palindrome_slice_back (ms : List StepMap) (pos assoc : Int) :
    ((palindrome ms).slice ms.length (some (2 * ms.length))).map pos assoc =
      some (ms.foldr (fun m q => m.invert.map q assoc) pos) :=
  palin_slice_back (palindrome_isPalindrome ms) assoc pos

/-- non-vacuity of `mirror_roundtrip_chain`: two strictly well-formed two-range maps; position 3
    lies strictly inside the range `2..4` deleted (replaced) by the first map and is recovered
    through the mirror; position 5 survives the first map (→ 4) and lies strictly inside the range
    `3..6` deleted by the second map; plain composition without mirrors loses both. -/
example :
    let m1 : StepMap := ⟨[(2, 2, 1), (7, 0, 3)], false⟩
    let m2 : StepMap := ⟨[(0, 1, 1), (3, 3, 0)], false⟩
    (∀ m ∈ [m1, m2], StrictWF 0 m.ranges) ∧
    (m1.mapResult 3 1).deleted = true ∧
    (m1.mapResult 5 1).deleted = false ∧ (m2.mapResult (m1.map 5 1) 1).deleted = true ∧
    (palindrome [m1, m2]).map 3 1 = some 3 ∧ (palindrome [m1, m2]).map 3 (-1) = some 3 ∧
    (palindrome [m1, m2]).map 5 1 = some 5 ∧ (palindrome [m1, m2]).map 5 (-1) = some 5 ∧
    (Mapping.ofMaps [m1, m2, m2.invert, m1.invert]).map 3 1 ≠ some 3 ∧
    (Mapping.ofMaps [m1, m2, m2.invert, m1.invert]).map 5 1 ≠ some 5 := by
  intro m1 m2
  refine ⟨?_, by decide⟩
  intro m hm
  simp only [List.mem_cons, List.not_mem_nil, or_false] at hm
  rcases hm with rfl | rfl <;> simp [m1, m2, StrictWF]

/-- non-vacuity: a concrete strictly well-formed two-range map and what the rule gives on it -/
example : StrictWF 0 [(2, 2, 1), (6, 0, 3)] ∧
    (⟨[(2, 2, 1), (6, 0, 3)], false⟩ : StepMap).map 3 1 = 3 ∧
    (⟨[(2, 2, 1), (6, 0, 3)], false⟩ : StepMap).map 6 1 = 8 ∧
    (⟨[(2, 2, 1), (6, 0, 3)], false⟩ : StepMap).map 7 1 = 9 := by
  refine ⟨by simp [StrictWF], by decide⟩

/-! ### what the `append_*` / `invert` builders do to the mirror table -/

/-- **`append_mapping`, mirror table**: the receiver's table is kept; for every map `i` of `other`
    (in order) whose partner `k = other.get_mirror(i)` exists and precedes it (`k < i`) the pair
    `[len + i, len + k]` is appended (`len` = number of maps of the receiver): the other mapping's
    mirror indices, shifted by the receiver's length (`carriedPairs`, Proofs/MapMirror.lean).
    `from_` is untouched and `to` becomes the new number of maps (unless nothing was appended). -/
theorem appendMapping_mirror_spec (mp other : Mapping) :
    (mp.appendMapping other).mirror =
      mp.mirror ++ flatPairs ((List.range other.maps.length).filterMap (fun i =>
        match other.getMirror i with
        | some k => if k < i then some (mp.maps.length + i, mp.maps.length + k) else none
        | none => none)) ∧
    (mp.appendMapping other).from_ = mp.from_ ∧
    (mp.appendMapping other).to =
      (if other.maps.length = 0 then mp.to else mp.maps.length + other.maps.length) :=
  appendMapping_mirror mp other

/-- **`append_mapping_inverted`, mirror table**: maps of `other` are taken last to first, so map `i`
    lands at index `len + (n − 1 − i)` (`n` = number of maps of `other`); when its partner
    `k = other.get_mirror(i)` exists and follows it (`k > i`) the pair
    `[len + (n − 1 − i), len + n − k − 1]` is appended: the mirror indices reflected (`i ↦ n − 1 − i`)
    and shifted by the receiver's length. -/
theorem appendMappingInverted_mirror_spec (mp other : Mapping) :
    (mp.appendMappingInverted other).mirror =
      mp.mirror ++ flatPairs ((List.range other.maps.length).reverse.filterMap (fun i =>
        match other.getMirror i with
        | some k =>
          if k > i then some (mp.maps.length + (other.maps.length - 1 - i),
            mp.maps.length + other.maps.length - k - 1) else none
        | none => none)) ∧
    (mp.appendMappingInverted other).from_ = mp.from_ ∧
    (mp.appendMappingInverted other).to =
      (if other.maps.length = 0 then mp.to else mp.maps.length + other.maps.length) :=
  appendMappingInverted_mirror mp other

/-- **`Mapping.invert`, mirror table**: the reflected pairs, nothing else; the whole of it selected -/
theorem mappingInvert_mirror_spec (mp : Mapping) :
    mp.invert.mirror = flatPairs ((List.range mp.maps.length).reverse.filterMap (fun i =>
        match mp.getMirror i with
        | some k => if k > i then some (mp.maps.length - 1 - i, mp.maps.length - k - 1) else none
        | none => none)) ∧
    mp.invert.from_ = 0 ∧ mp.invert.to = mp.maps.length := by
  obtain ⟨h1, h2, h3⟩ := appendMappingInverted_mirror ({} : Mapping) mp
  unfold Mapping.invert
  refine ⟨?_, h2, ?_⟩
  · rw [h1]
    simp only [invertedPairs, List.nil_append, List.length_nil, Nat.zero_add]
    have : invertedPair mp 0 mp.maps.length = (fun i =>
        match mp.getMirror i with
        | some k => if k > i then some (mp.maps.length - 1 - i, mp.maps.length - k - 1) else none
        | none => none) := by
      funext i
      simp only [invertedPair]
      cases mp.getMirror i <;> simp
    rw [this]
  · rw [h3]
    by_cases h0 : mp.maps.length = 0 <;> simp [h0]

/-- **read through `get_mirror`**: after `append_mapping` the receiver's own indices keep their
    partners, and index `len + j` has the partner of `j` in `other`, shifted by `len` — provided the
    receiver's table is a list of pairs over its own indices and partners in `other` are mutual,
    distinct and in range (`MirrorSym`, `MirrorInRange`: true of every table built through
    `set_mirror` on distinct indices, e.g. `palindrome`) -/
theorem appendMapping_getMirror (mp other : Mapping) (hev : mp.mirror.length % 2 = 0)
    (hin : ∀ x ∈ mp.mirror, x < mp.maps.length) (hsym : MirrorSym other) (hrng : MirrorInRange other) :
    (∀ i, i < mp.maps.length → (mp.appendMapping other).getMirror i = mp.getMirror i) ∧
    (∀ j, j < other.maps.length →
      (mp.appendMapping other).getMirror (mp.maps.length + j) =
        (other.getMirror j).map (mp.maps.length + ·)) :=
  ⟨fun i hi => appendMapping_getMirror_old mp other hev i hi,
   fun j hj => appendMapping_getMirror_new mp other hev hin hsym hrng j hj⟩

/-- … after `append_mapping_inverted` map `j` of `other` sits (inverted) at `len + (n − 1 − j)` and
    its partner is the reflected partner of `j` -/
theorem appendMappingInverted_getMirror (mp other : Mapping) (hev : mp.mirror.length % 2 = 0)
    (hin : ∀ x ∈ mp.mirror, x < mp.maps.length) (hsym : MirrorSym other) (hrng : MirrorInRange other) :
    (∀ i, i < mp.maps.length → (mp.appendMappingInverted other).getMirror i = mp.getMirror i) ∧
    (∀ j, j < other.maps.length →
      (mp.appendMappingInverted other).getMirror (mp.maps.length + (other.maps.length - 1 - j)) =
        (other.getMirror j).map (fun k => mp.maps.length + (other.maps.length - 1 - k))) :=
  ⟨fun i hi => appendMappingInverted_getMirror_old mp other hev hrng i hi,
   fun j hj => appendMappingInverted_getMirror_new mp other hev hin hsym hrng j hj⟩

/-- … and `invert` reflects every partnership: `j ↔ k` becomes `n − 1 − j ↔ n − 1 − k` -/
theorem mappingInvert_getMirror (mp : Mapping) (hsym : MirrorSym mp) (hrng : MirrorInRange mp)
    (j : Nat) (hj : j < mp.maps.length) :
    mp.invert.getMirror (mp.maps.length - 1 - j) =
      (mp.getMirror j).map (fun k => mp.maps.length - 1 - k) := by
  have := appendMappingInverted_getMirror_new ({} : Mapping) mp rfl (by simp) hsym hrng j hj
  simpa [Mapping.invert] using this

/-- non-vacuity: the hypotheses hold for the undo mapping of a two-step history, and the instance -/
example :
    let other := palindrome [⟨[(2, 2, 1)], false⟩, ⟨[(0, 1, 1)], false⟩]
    let mp : Mapping := (Mapping.ofMaps [⟨[(1, 0, 1)], false⟩])
    other.mirror = [2, 1, 3, 0] ∧
    (mp.appendMapping other).mirror = [3, 2, 4, 1] ∧
    (mp.appendMappingInverted other).mirror = [3, 2, 4, 1] ∧
    other.invert.mirror = [2, 1, 3, 0] := by decide

/-- non-vacuity of `MirrorSym` / `MirrorInRange`: the one-step undo mapping -/
example (m : StepMap) :
    let o : Mapping := { maps := [m, m.invert], mirror := [1, 0], from_ := 0, to := 2 }
    MirrorSym o ∧ MirrorInRange o := by
  intro o
  constructor
  · intro i k h
    simp only [o, Mapping.getMirror, getMirrorAux] at h ⊢
    split at h
    · simp only [Option.some.injEq] at h; subst h; rename_i h1; subst h1; simp
    · split at h
      · simp only [Option.some.injEq] at h; subst h; rename_i h1; subst h1; simp
      · simp at h
  · intro i k _ h
    simp only [o, Mapping.getMirror, getMirrorAux] at h ⊢
    split at h
    · simp only [Option.some.injEq] at h; subst h; simp
    · split at h
      · simp only [Option.some.injEq] at h; subst h; simp
      · simp at h

end PM.C08
