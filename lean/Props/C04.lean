/-
  Props/C04.lean — C04: every recorded change can be undone exactly and replayed exactly.
  Helper lemmas: Proofs/StepToks.lean (token semantics), Proofs/Undo.lean.
-/
import PM.Step
import PM.Transform
import Proofs.StepToks
import Proofs.Undo
import Proofs.UndoReplace
import Proofs.UndoForward
import Proofs.UndoAround
import Proofs.UndoFit
import Proofs.MarkupSuccess
import Proofs.HistoryUndo
import Proofs.MarkHistory
import Proofs.InvertOk
import Proofs.InvertOkAround
import Proofs.OpHistory
import Proofs.UndoStructure
import Proofs.OpGuardSplit
import Proofs.OpGuardWrap
import Proofs.OpGuardLift
import Proofs.OpGuardSetBlock
import Proofs.OpGuardSbtWalk
import Proofs.OpGuardB
import Proofs.FitDeleteNorm
import Proofs.GapTailFits
import Proofs.GapBackAligned
import PM.OpGuardNode
import Props.C01
import Props.C12
import Props.C11
import Props.Family
namespace PM.C04
open PM

/-- replaying a list of steps from a document: the documents before each step and the final one -/
def replay (S : Schema) : Node → List Step → Option (List Node × Node)
  | d, [] => some ([], d)
  | d, st :: rest =>
    match S.apply st d with
    | .ok d' => (replay S d' rest).map (fun (ds, fin) => (d :: ds, fin))
    | .error _ => none

private theorem replay_snoc (S : Schema) (st : Step) (d' : Node) :
    ∀ (xs : List Step) (d : Node) (ds : List Node) (fin : Node),
      replay S d xs = some (ds, fin) → S.apply st fin = .ok d' →
      replay S d (xs ++ [st]) = some (ds ++ [fin], d')
  | [], d, ds, fin, h, ha => by
    simp only [replay, Option.some.injEq, Prod.mk.injEq] at h
    obtain ⟨rfl, rfl⟩ := h
    simp [replay, ha]
  | x :: xs, d, ds, fin, h, ha => by
    simp only [replay, List.cons_append] at h ⊢
    cases hx : S.apply x d with
    | error e => simp [hx] at h
    | ok d1 =>
      simp only [hx] at h ⊢
      cases hr : replay S d1 xs with
      | none => simp [hr] at h
      | some p =>
        obtain ⟨ds1, fin1⟩ := p
        simp only [hr, Option.map_some, Option.some.injEq, Prod.mk.injEq] at h
        obtain ⟨rfl, rfl⟩ := h
        rw [replay_snoc S st d' xs d1 ds1 fin1 hr ha]
        simp

/-- the bookkeeping invariant of a transform -/
private def HInv (S : Schema) (tr : Tr) : Prop :=
  tr.steps.length = tr.docs.length ∧ tr.maps = tr.steps.map Step.getMap ∧
  replay S tr.before tr.steps = some (tr.docs, tr.doc)

private theorem HInv_maybeStep (S : Schema) (tr : Tr) (st : Step) (h : HInv S tr) :
    HInv S (tr.maybeStep S st) ∧ (tr.maybeStep S st).before = tr.before := by
  unfold Tr.maybeStep
  cases ha : S.apply st tr.doc with
  | error e => exact ⟨h, rfl⟩
  | ok d =>
    obtain ⟨h1, h2, h3⟩ := h
    have hb : (tr.addStep st d).before = tr.before := by
      simp only [Tr.before, Tr.addStep]
      cases hd : tr.docs with
      | nil => simp
      | cons x xs => simp
    refine ⟨⟨?_, ?_, ?_⟩, hb⟩
    · simp [Tr.addStep, h1]
    · simp [Tr.addStep, h2]
    · rw [hb]
      exact replay_snoc S st d tr.steps tr.before tr.docs tr.doc h3 ha

private theorem HInv_run (S : Schema) : ∀ (sts : List Step) (tr : Tr), HInv S tr →
    HInv S (tr.run S sts) ∧ (tr.run S sts).before = tr.before
  | [], tr, h => ⟨h, rfl⟩
  | st :: sts, tr, h => by
    have h1 := HInv_maybeStep S tr st h
    have h2 := HInv_run S sts (tr.maybeStep S st) h1.1
    exact ⟨h2.1, h2.2.trans h1.2⟩

/-- **history bookkeeping**: for any finite sequence of attempted steps, the recorded steps, documents
    and maps stay aligned one-to-one (also after rejected steps), every recorded map is the recorded
    step's map, and re-applying the recorded steps to the starting document reproduces the recorded
    intermediate documents and the final document. -/
theorem history_inv (S : Schema) (doc : Node) (sts : List Step) :
    let tr := (Tr.init doc).run S sts
    tr.steps.length = tr.docs.length ∧ tr.maps.length = tr.steps.length ∧
    tr.maps = tr.steps.map Step.getMap ∧
    tr.before = doc ∧
    replay S doc tr.steps = some (tr.docs, tr.doc) := by
  intro tr
  have h0 : HInv S (Tr.init doc) := ⟨rfl, rfl, rfl⟩
  obtain ⟨⟨h1, h2, h3⟩, hb⟩ := HInv_run S sts (Tr.init doc) h0
  have hb' : tr.before = doc := hb
  refine ⟨h1, ?_, h2, hb', ?_⟩
  · have := congrArg List.length h2
    simpa using this
  · rw [← hb']; exact h3

/-- a rejected step leaves the whole transform unchanged -/
theorem rejected_unchanged (S : Schema) (tr : Tr) (st : Step) (e : Err) (h : S.apply st tr.doc = .error e) :
    tr.maybeStep S st = tr := by
  simp [Tr.maybeStep, h]

/-- **an inverted replace step's map is the inverse of the original's** (position by position) -/
theorem invert_map_replace (S : Schema) (doc : Node) (f t : Nat) (sl : Slice) (b : Bool) (inv : Step)
    (hft : f ≤ t) (ht : t ≤ fsize doc.kids) (hs : 0 ≤ sl.size)
    (hi : S.invert (.replace f t sl b) doc = .ok inv) (p a : Int) :
    inv.getMap.map p a = (Step.replace f t sl b).getMap.invert.map p a := by
  simp only [Schema.invert] at hi
  cases hsl : doc.slice f t with
  | error e => simp [hsl] at hi
  | ok old =>
    simp only [hsl, Except.ok.injEq] at hi
    subst hi
    have hsz := sliceKids_size doc.kids f t old hft ht hsl
    simp only [Step.getMap, StepMap.map, StepMap.mapResult, StepMap.invert, Bool.not_false]
    rw [hsz, ← mapAux_single_inv]
    have : ((f + sl.size.toNat : Nat) : Int) - (f : Int) = sl.size := by omega
    rw [this]

theorem invert_map_replaceAround (S : Schema) (doc : Node) (f t gf gt : Nat) (sl : Slice) (ins : Nat)
    (b : Bool) (inv : Step) (hg : f ≤ gf ∧ gf ≤ gt ∧ gt ≤ t) (ht : t ≤ fsize doc.kids)
    (hins : (ins : Int) ≤ sl.size)
    (hi : S.invert (.replaceAround f t gf gt sl ins b) doc = .ok inv) (p a : Int) :
    inv.getMap.map p a = (Step.replaceAround f t gf gt sl ins b).getMap.invert.map p a := by
  simp only [Schema.invert] at hi
  cases hsl : doc.slice f t with
  | error e => simp [hsl] at hi
  | ok old =>
    simp only [hsl] at hi
    cases hrm : old.removeBetween (gf - f) (gt - f) with
    | error e => simp [hrm] at hi
    | ok rem =>
      simp only [hrm, Except.ok.injEq] at hi
      subst hi
      have hsz := sliceKids_size doc.kids f t old (by omega) ht hsl
      obtain ⟨hrs, _, _, _⟩ := removeBetween_size old rem (gf - f) (gt - f) (by omega) hrm
      simp only [Step.getMap, StepMap.map, StepMap.mapResult, StepMap.invert, Bool.not_false]
      rw [mapAux_pair_inv (s2' := (gt : Int))]
      · congr 4 <;> first | omega | (simp only [Prod.mk.injEq, true_and]; refine ⟨?_, ?_⟩ <;> omega)
      · omega

/-- **exact undo of a replace step** (whenever the inverse applies — that it does is decided by the
    correspondence run): the restored document is *equal* to the original -/
theorem replace_undo_partial (S : Schema) (doc doc' doc'' : Node) (f t : Nat) (sl : Slice) (b : Bool)
    (inv : Step) (hn : fnorm doc.kids = true) (hsn : fnorm sl.content = true)
    (h1 : S.apply (.replace f t sl b) doc = .ok doc')
    (hi : S.invert (.replace f t sl b) doc = .ok inv)
    (h2 : S.apply inv doc' = .ok doc'') : doc'' = doc := by
  obtain ⟨ty, a, m, K, K', rfl, rfl, hr1⟩ :=
    fromReplace_elem S doc doc' f t sl (apply_replace_fromReplace S doc doc' f t sl b h1)
  simp only [Node.kids] at hn
  obtain ⟨hft, ht, hwf⟩ := replaceKids_guards S ty K f t sl K' hr1
  simp only [Schema.invert] at hi
  cases hsl : (Node.elem ty a m K).slice f t with
  | error e => simp [hsl] at hi
  | ok old =>
    simp only [hsl, Except.ok.injEq] at hi
    subst hi
    have hsl' : sliceKids K f t = .ok old := hsl
    obtain ⟨ty', a', m', K0, K'', he, rfl, hr2⟩ :=
      fromReplace_elem S _ doc'' f _ old (apply_replace_fromReplace S _ doc'' f _ old false h2)
    cases he
    have hon := sliceKids_norm K f t old hn hsl'
    have hn' := replaceKids_norm S ty K f t sl K' hn hsn hr1
    have hn'' := replaceKids_norm S ty K' f _ old K'' hn' hon.1 hr2
    have ht1 := replaceKids_toks S ty K f t sl K' hr1
    have ht2 := replaceKids_toks S ty K' f _ old K'' hr2
    have hot := sliceKids_toks K f t old hft ht hsl'
    have hlen := (Slice.toks_length_of_wf hwf).1
    have : ftoks K'' = ftoks K := by
      rw [ht2, ht1, hot, ← hlen]
      exact splice_undo (ftoks K) sl.toks f t hft (by rw [ftoks_length]; exact ht)
    rw [ftoks_inj K'' K hn'' hn this]

/- The full, unguarded statement (the inverse of every applicable replace step applies):

     replace_undo_unguarded : (hd : S.checkNode doc) (hn : fnorm doc.kids) (hsn : fnorm sl.content)
         (h1 : S.apply (.replace f t sl b) doc = .ok doc') (hi : S.invert (.replace f t sl b) doc = .ok inv)
         (ha : pair-alignment of `f` and `f + sl.size` in `doc'`) : S.apply inv doc' = .ok doc

   is FALSE, in the model and in the code (and upstream): `compatible_content` is symmetric but not
   transitive.  When the slice is a single node `C` open on both sides, the forward step checks
   `C ~ A` and `B ~ C` for `from`'s ancestor `A` and `to`'s ancestor `B` and merges the two sides
   through `C`; the inverse has to re-split the merged `A` node and checks `A ~ B`, which the forward
   step never did.  `replace_undo_needs_guard` below is the checked counterexample.

   What holds is `replace_undo`: the same statement with the decidable guard
   `sidesCompatible S doc f t sl` — at the depths `d` with `e < d ≤ e + n`
   (`e = depth(f) − openStart`, `n = singleDepth` = number of nested levels at which the slice is a single
   node open on both sides) the ancestors of `f` and `t` in `doc` have compatible types.  The guard is
   vacuous for slices closed on one side (`replace_undo_closed_side`) and it is exactly what the proof
   needs: every other `check_join` of the inverse is a pair of equal types or the mirror image of a pair
   the forward step checked, and every `close` re-validates the content of a node of `doc`.
   Proof: `Proofs/UndoRel.lean` (relations), `Proofs/UndoForward.lean` (what the forward step leaves),
   `Proofs/UndoInverse.lean` (the inverse succeeds).  -/

/-- **the inverse of a flat replace step applies and restores the document exactly.**
    `doc` valid (`Node.check`) and in normal form, the step's slice closed and in normal form, the replaced
    range flat (its slice is closed: both ends in the same parent, not strictly inside an element child).
    `ha`: the two ends of the inserted content do not fall between the halves of a surrogate pair of
    `doc'` (Python strings cannot; the model's unit lists can, when a text ending in a lone high
    surrogate is merged with one starting with a lone low surrogate). -/
theorem replace_undo_closed (S : Schema) (doc doc' : Node) (f t : Nat) (sl : Slice) (b : Bool)
    (inv : Step) (hd : S.checkNode doc = true) (hn : fnorm doc.kids = true)
    (hsn : fnorm sl.content = true) (hc : sl.openStart = 0 ∧ sl.openEnd = 0)
    (h1 : S.apply (.replace f t sl b) doc = .ok doc')
    (hi : S.invert (.replace f t sl b) doc = .ok inv)
    (hoc : ∀ old, doc.slice f t = .ok old → old.openStart = 0 ∧ old.openEnd = 0)
    (ha : alignedAt doc'.kids f = true ∧ alignedAt doc'.kids (f + fsize sl.content) = true) :
    S.apply inv doc' = .ok doc := by
  obtain ⟨ty, a, m, K, K', rfl, rfl, hr1⟩ :=
    fromReplace_elem S doc doc' f t sl (apply_replace_fromReplace S doc doc' f t sl b h1)
  simp only [Node.kids] at hn ha
  simp only [checkNode_elem, Bool.and_eq_true] at hd
  simp only [Schema.invert] at hi
  cases hsl : (Node.elem ty a m K).slice f t with
  | error e => simp [hsl] at hi
  | ok old =>
    simp only [hsl, Except.ok.injEq] at hi
    subst hi
    obtain ⟨ho0, ho1⟩ := hoc old hsl
    have hsz : sl.size.toNat = fsize sl.content := by
      simp only [Slice.size, hc.1, hc.2]; omega
    have := replaceKids_undo_closed S ty K K' f t sl old hd.1.1 hd.2 hn hsn hc.1 hc.2 hr1 hsl
      ho0 ho1 ha.1 ha.2
    simp [Schema.apply, Schema.fromReplace, Schema.replace, hsz, this, Except.map]

/-! Non-vacuity of `replace_undo_closed`: in `doc(p("ab"), p("c"))` the step "replace 2 … 3 by the closed
    slice `x`" gives `doc(p("ax"), p("c"))`; its inverse "replace 2 … 3 by `b`" applies and restores. -/
section Example
/-- doc(para*), para(text*), text -/
private def tinyS : Schema :=
  { nodes := #[
      { name := "doc", isText := false, isInline := false, isLeaf := false, isAtom := false,
        inlineContent := false, isolating := false, defining := false, code := false,
        dfa := #[⟨true, [(1, 0)]⟩], markSet := some [], attrs := [] },
      { name := "para", isText := false, isInline := false, isLeaf := false, isAtom := false,
        inlineContent := true, isolating := false, defining := false, code := false,
        dfa := #[⟨true, [(2, 0)]⟩], markSet := none, attrs := [] },
      { name := "text", isText := true, isInline := true, isLeaf := true, isAtom := true,
        inlineContent := false, isolating := false, defining := false, code := false,
        dfa := #[⟨true, []⟩], markSet := some [], attrs := [] }],
    marks := #[], top := 0, textTy := 2 }

private def tinyDoc : Node :=
  .elem 0 [] [] [.elem 1 [] [] [.text [97, 98] []], .elem 1 [] [] [.text [99] []]]
private def tinyDoc' : Node :=
  .elem 0 [] [] [.elem 1 [] [] [.text [97, 120] []], .elem 1 [] [] [.text [99] []]]
private def tinySl : Slice := ⟨[.text [120] []], 0, 0⟩

private theorem tiny_fwd : tinyS.apply (.replace 2 3 tinySl false) tinyDoc = .ok tinyDoc' := by
  have hv : tinyS.validContent 1 [Node.text [97, 120] []] = true := by decide
  simp [Schema.apply, Schema.fromReplace, Schema.replace, tinyDoc, tinySl, replaceKids, inRange,
    depthAt, Slice.wf, spineL, spineR, outer, atLevel, fcut, fcutLoop, cutText, splitOk, isHigh, isLow,
    fappend, addNode, Except.map, tinyDoc', hv]

private theorem tiny_inv : tinyS.invert (.replace 2 3 tinySl false) tinyDoc
    = .ok (.replace 2 3 ⟨[.text [98] []], 0, 0⟩ false) := by
  simp [Schema.invert, Node.slice, Node.kids, tinyDoc, sliceKids, inRange, sliceScan, sliceHere, fcut,
    fcutLoop, cutText, splitOk, isHigh, isLow, depthAt, tinySl, Slice.size]

example : tinyS.apply (.replace 2 3 ⟨[.text [98] []], 0, 0⟩ false) tinyDoc' = .ok tinyDoc := by
  refine replace_undo_closed tinyS tinyDoc tinyDoc' 2 3 tinySl false _ ?_ ?_ ?_ ⟨rfl, rfl⟩
    tiny_fwd tiny_inv ?_ ?_
  · simp [tinyDoc, Schema.checkNode, Schema.checkKids]; decide
  · simp [tinyDoc, Node.kids, fnorm, fnormKids, Node.norm, chainOk, adjOk]
  · simp [tinySl, fnorm, fnormKids, Node.norm, chainOk]
  · intro old h
    simp [Node.slice, Node.kids, tinyDoc, sliceKids, inRange, sliceScan, sliceHere, fcut, fcutLoop,
      cutText, splitOk, isHigh, isLow, depthAt] at h
    subst h; exact ⟨rfl, rfl⟩
  · simp [tinyDoc', Node.kids, tinySl, alignedAt, splitOk, isHigh, isLow]
end Example

/-- **the inverse of a successfully applied replace step applies and restores the document exactly**
    (general case: open slices, ranges across node boundaries).
    `doc` valid (`Node.check`) and in normal form, the slice in normal form.
    `hj`: the guard `sidesCompatible` (see the comment above; without it the statement is false,
    `replace_undo_needs_guard`).
    `ha`: the two ends of the inserted content do not fall between the halves of a surrogate pair of
    `doc'` (Python strings cannot). -/
theorem replace_undo (S : Schema) (doc doc' : Node) (f t : Nat) (sl : Slice) (b : Bool) (inv : Step)
    (hd : S.checkNode doc = true) (hn : fnorm doc.kids = true) (hsn : fnorm sl.content = true)
    (h1 : S.apply (.replace f t sl b) doc = .ok doc')
    (hi : S.invert (.replace f t sl b) doc = .ok inv)
    (hj : sidesCompatible S doc f t sl = true)
    (ha : alignedAt doc'.kids f = true ∧ alignedAt doc'.kids (f + sl.size.toNat) = true) :
    S.apply inv doc' = .ok doc := by
  obtain ⟨ty, a, m, K, K', rfl, rfl, hr1⟩ :=
    fromReplace_elem S doc doc' f t sl (apply_replace_fromReplace S doc doc' f t sl b h1)
  simp only [Node.kids] at hn ha
  simp only [sidesCompatible, Node.kids] at hj
  have hd' := hd
  simp only [checkNode_elem, Bool.and_eq_true] at hd'
  have hi' := hi
  simp only [Schema.invert] at hi'
  cases hsl : (Node.elem ty a m K).slice f t with
  | error e => simp [hsl] at hi'
  | ok old =>
    simp only [hsl, Except.ok.injEq] at hi'
    subst hi'
    have hsl' : sliceKids K f t = .ok old := hsl
    obtain ⟨hft, ht, hwf⟩ := replaceKids_guards S ty K f t sl K' hr1
    have hn' := replaceKids_norm S ty K f t sl K' hn hsn hr1
    have htk := replaceKids_toks S ty K f t sl K' hr1
    have hsz := replaceKids_size S ty K f t sl K' hr1
    have hs0 : 0 ≤ sl.size := by
      have := spine_sum_le sl.content
      simp only [Slice.wf, Bool.and_eq_true, decide_eq_true_eq] at hwf
      simp only [Slice.size]; omega
    have hpos : fsize K' - (fsize K - t) = f + sl.size.toNat := by omega
    -- left of `f` nothing changed
    have hL : LeftRel K' K f := by
      refine leftRel_of_toks K' K f hn' hn (by omega) (by omega) ha.1 ?_
      rw [htk, List.append_assoc, take_app_le _ _ _ (by simp [ftoks_length]; omega),
        List.take_of_length_le (by simp; omega)]
    -- right of the inserted content
    have hR : RightRel S K' (f + sl.size.toNat) K t := by
      have := replaceKids_rrel S ty K K' f t sl hn hsn hr1 hj (by rw [hpos]; exact ha.2)
      rwa [hpos] at this
    obtain ⟨X, hX⟩ := replaceKids_undoG S ty K K' f t (f + sl.size.toNat) old hd'.1.1 hd'.2 hn hn'
      hft ht (by omega) hsl' hL hR
    have h2 : S.apply (.replace f (f + sl.size.toNat) old false) (Node.elem ty a m K')
        = .ok (Node.elem ty a m X) := by
      simp [Schema.apply, Schema.fromReplace, Schema.replace, hX, Except.map]
    have := replace_undo_partial S _ _ _ f t sl b _ (by simpa [Node.kids] using hn) hsn h1 hi h2
    rw [this] at h2
    exact h2

/-- no guard is needed when the slice is closed on at least one side (in particular for deletions,
    `sl = Slice.empty`, across any node boundaries, and for every closed slice over any range) -/
theorem replace_undo_closed_side (S : Schema) (doc doc' : Node) (f t : Nat) (sl : Slice) (b : Bool)
    (inv : Step) (hd : S.checkNode doc = true) (hn : fnorm doc.kids = true)
    (hsn : fnorm sl.content = true) (hc : sl.openStart = 0 ∨ sl.openEnd = 0)
    (h1 : S.apply (.replace f t sl b) doc = .ok doc')
    (hi : S.invert (.replace f t sl b) doc = .ok inv)
    (ha : alignedAt doc'.kids f = true ∧ alignedAt doc'.kids (f + sl.size.toNat) = true) :
    S.apply inv doc' = .ok doc :=
  replace_undo S doc doc' f t sl b inv hd hn hsn h1 hi (sidesCompatible_of_closed S doc f t sl hc) ha

/-- **no guard is needed in a schema whose `compatible_content` is transitive** (`compatTransB S`, a
    finite check over the node types; true e.g. of the basic and list schemas): the inverse of every
    successfully applied replace step applies and restores the document. -/
theorem replace_undo_transitive (S : Schema) (doc doc' : Node) (f t : Nat) (sl : Slice) (b : Bool)
    (inv : Step) (htr : compatTransB S = true)
    (hd : S.checkNode doc = true) (hn : fnorm doc.kids = true) (hsn : fnorm sl.content = true)
    (h1 : S.apply (.replace f t sl b) doc = .ok doc')
    (hi : S.invert (.replace f t sl b) doc = .ok inv)
    (ha : alignedAt doc'.kids f = true ∧ alignedAt doc'.kids (f + sl.size.toNat) = true) :
    S.apply inv doc' = .ok doc := by
  refine replace_undo S doc doc' f t sl b inv hd hn hsn h1 hi ?_ ha
  obtain ⟨ty, a, m, K, K', rfl, rfl, hr1⟩ :=
    fromReplace_elem S doc doc' f t sl (apply_replace_fromReplace S doc doc' f t sl b h1)
  exact sidesCompatible_of_trans S (compatTrans_of_B S htr) ty a m K K' f t sl hn hr1

example : compatTransB tinyS = true := by decide

/-! Non-vacuity of `replace_undo` with a slice open on both sides: in `doc(p("ab"), p("c"))` the step
    "replace 3 … 5 (`</p><p>`) by the slice `p()` open on both sides" joins the paragraphs through the
    slice node, `doc(p("abc"))`; its inverse re-inserts `⟨[p(), p()], 1, 1⟩` at 3 and splits again. -/
section ExampleOpen
private def joinSl : Slice := ⟨[.elem 1 [] [] []], 1, 1⟩
private def joinDoc' : Node := .elem 0 [] [] [.elem 1 [] [] [.text [97, 98, 99] []]]
private def joinInv : Step := .replace 3 3 ⟨[.elem 1 [] [] [], .elem 1 [] [] []], 1, 1⟩ false

private theorem join_fwd : tinyS.apply (.replace 3 5 joinSl false) tinyDoc = .ok joinDoc' := by
  have hc : tinyS.compatibleContent 1 1 = true := by decide
  have hv : tinyS.validContent 1 [Node.text [97, 98, 99] []] = true := by decide
  have hv0 : tinyS.validContent 0 [Node.elem 1 [] [] [Node.text [97, 98, 99] []]] = true := by decide
  simp [Schema.apply, Schema.fromReplace, Schema.replace, joinSl, tinyDoc, joinDoc', replaceKids,
    inRange, depthAt, Slice.wf, spineL, spineR, outer, atLevel, threeWay, splitRight, rightJoin, middle,
    flatTail, Schema.close, fromArray, addNodes, addNode, hc, hv, hv0, Except.map, RSplit.rest]

private theorem join_inv : tinyS.invert (.replace 3 5 joinSl false) tinyDoc = .ok joinInv := by
  simp [Schema.invert, Node.slice, Node.kids, tinyDoc, joinSl, joinInv, sliceKids, inRange, sliceScan,
    sliceHere, fcut, fcutLoop, Node.cut, depthAt, Slice.size]

example : tinyS.apply joinInv joinDoc' = .ok tinyDoc := by
  refine replace_undo tinyS tinyDoc joinDoc' 3 5 joinSl false _ ?_ ?_ ?_ join_fwd join_inv ?_ ?_
  · simp [tinyDoc, Schema.checkNode, Schema.checkKids]; decide
  · simp [tinyDoc, Node.kids, fnorm, fnormKids, Node.norm, chainOk, adjOk]
  · simp [joinSl, fnorm, fnormKids, Node.norm, chainOk]
  · simp [sidesCompatible, bridgeCompat, ancCompat, singleDepth, joinSl, tinyDoc, Node.kids, depthAt,
      splitRight]
    decide
  · simp [joinDoc', Node.kids, joinSl, Slice.size, alignedAt, splitOk, isHigh, isLow]
end ExampleOpen

/-! The guard of `replace_undo` cannot be dropped: a schema in which `compatible_content` is not
    transitive.  `doc "(A|B|C)*"`, `A "p q*"`, `B "q+"`, `C "(p|q)*"`, `p`, `q` leaves:
    `A ~ C` (both can start with `p`), `C ~ B` (`q`), but not `A ~ B`. -/
section NeedsGuard
private def nt (name : String) (leaf : Bool) (dfa : Array DfaState) : NodeType :=
  { name := name, isText := false, isInline := false, isLeaf := leaf, isAtom := leaf,
    inlineContent := false, isolating := false, defining := false, code := false,
    dfa := dfa, markSet := some [], attrs := [] }

private def brS : Schema :=
  { nodes := #[
      nt "doc" false #[⟨true, [(1, 0), (2, 0), (3, 0)]⟩],
      nt "A" false #[⟨false, [(4, 1)]⟩, ⟨true, [(5, 1)]⟩],
      nt "B" false #[⟨false, [(5, 1)]⟩, ⟨true, [(5, 1)]⟩],
      nt "C" false #[⟨true, [(4, 0), (5, 0)]⟩],
      nt "p" true #[⟨true, []⟩],
      nt "q" true #[⟨true, []⟩],
      { nt "text" true #[⟨true, []⟩] with isText := true, isInline := true }],
    marks := #[], top := 0, textTy := 6 }

/-- `doc(A(p, q), B(q, q))` -/
private def brDoc : Node :=
  .elem 0 [] [] [.elem 1 [] [] [.leaf 4 [] [], .leaf 5 [] []], .elem 2 [] [] [.leaf 5 [] [], .leaf 5 [] []]]
/-- the slice `C()` open on both sides -/
private def brSl : Slice := ⟨[.elem 3 [] [] []], 1, 1⟩
/-- `doc(A(p, q, q))` -/
private def brDoc' : Node := .elem 0 [] [] [.elem 1 [] [] [.leaf 4 [] [], .leaf 5 [] [], .leaf 5 [] []]]
private def brInv : Step :=
  .replace 3 3 ⟨[.elem 1 [] [] [], .elem 2 [] [] [.leaf 5 [] []]], 1, 1⟩ false

private theorem br_fwd : brS.apply (.replace 3 6 brSl false) brDoc = .ok brDoc' := by
  have hc1 : brS.compatibleContent 3 1 = true := by decide
  have hc2 : brS.compatibleContent 2 3 = true := by decide
  have hv : brS.validContent 1 [Node.leaf 4 [] [], Node.leaf 5 [] [], Node.leaf 5 [] []] = true := by decide
  have hv0 : brS.validContent 0 [Node.elem 1 [] [] [Node.leaf 4 [] [], Node.leaf 5 [] [], Node.leaf 5 [] []]]
      = true := by decide
  simp [Schema.apply, Schema.fromReplace, Schema.replace, brSl, brDoc, brDoc', replaceKids, inRange,
    depthAt, Slice.wf, spineL, spineR, outer, atLevel, threeWay, splitRight, rightJoin, middle, flatTail,
    Schema.close, fromArray, addNodes, addNode, hc1, hc2, hv, hv0, Except.map, RSplit.rest]

private theorem br_inv : brS.invert (.replace 3 6 brSl false) brDoc = .ok brInv := by
  simp [Schema.invert, Node.slice, Node.kids, brDoc, brSl, brInv, sliceKids, inRange, sliceScan,
    sliceHere, fcut, fcutLoop, Node.cut, depthAt, Slice.size, Except.map]

private theorem br_undo_fails : brS.apply brInv brDoc' = .error .failed := by
  have hc : brS.compatibleContent 1 2 = false := by decide
  have hc1 : brS.compatibleContent 1 1 = true := by decide
  have hv : brS.validContent 1 [Node.leaf 4 [] [], Node.leaf 5 [] []] = true := by decide
  simp [Schema.apply, Schema.fromReplace, Schema.replace, brInv, brDoc', replaceKids, inRange,
    depthAt, Slice.wf, spineL, spineR, outer, atLevel, threeWay, threeWay.rightJoinCheck, twoWay,
    splitRight, rightJoin, Schema.close, fromArray, addNodes, addNode, hc, hc1, hv, Except.map]

/-- **the guard `sidesCompatible` of `replace_undo` is necessary**: a valid normal-form document, a
    normal-form slice, a replace step that applies, whose inverse is computed — and the inverse does
    not apply (`failed`: "Cannot join A onto B"); every hypothesis of `replace_undo` except the guard
    holds.  The same happens in the code (and upstream). -/
theorem replace_undo_needs_guard :
    ∃ (S : Schema) (doc doc' : Node) (f t : Nat) (sl : Slice) (inv : Step),
      S.checkNode doc = true ∧ fnorm doc.kids = true ∧ fnorm sl.content = true ∧
      S.apply (.replace f t sl false) doc = .ok doc' ∧
      S.invert (.replace f t sl false) doc = .ok inv ∧
      (alignedAt doc'.kids f = true ∧ alignedAt doc'.kids (f + sl.size.toNat) = true) ∧
      sidesCompatible S doc f t sl = false ∧
      S.apply inv doc' = .error .failed := by
  refine ⟨brS, brDoc, brDoc', 3, 6, brSl, brInv, by decide, ?_, ?_, br_fwd, br_inv, ?_, ?_, br_undo_fails⟩
  · simp [brDoc, Node.kids, fnorm, fnormKids, Node.norm, chainOk, adjOk]
  · simp [brSl, fnorm, fnormKids, Node.norm, chainOk]
  · simp [brDoc', Node.kids, brSl, Slice.size, alignedAt]
  · simp [sidesCompatible, bridgeCompat, ancCompat, singleDepth, brSl, brDoc, Node.kids, depthAt,
      splitRight]
    decide
/-- and indeed `compatible_content` is not transitive in that schema -/
example : compatTransB brS = false := by decide
end NeedsGuard

/-- **exact undo of a replace-around step** (same proviso) -/
theorem replaceAround_undo_partial (S : Schema) (doc doc' doc'' : Node) (f t gf gt : Nat) (sl : Slice)
    (ins : Nat) (b : Bool) (inv : Step) (hn : fnorm doc.kids = true) (hsn : fnorm sl.content = true)
    (hwf : sl.wf = true) (hins : (ins : Int) ≤ sl.size) (hg : f ≤ gf ∧ gf ≤ gt ∧ gt ≤ t)
    (h1 : S.apply (.replaceAround f t gf gt sl ins b) doc = .ok doc')
    (hi : S.invert (.replaceAround f t gf gt sl ins b) doc = .ok inv)
    (h2 : S.apply inv doc' = .ok doc'') : doc'' = doc := by
  obtain ⟨gap, inserted, hgap, hgo1, hgo2, hinst, hfr1⟩ :=
    apply_replaceAround_parts S doc doc' f t gf gt sl ins b h1
  obtain ⟨hK', htK, _⟩ := apply_replaceAround_toks S doc doc' f t gf gt sl ins b hwf hins hg h1
  obtain ⟨ty, a, m, K, K', rfl, rfl, hr1⟩ := fromReplace_elem S doc doc' f t inserted hfr1
  simp only [Node.kids] at hn hK' htK
  have hgap' : sliceKids K gf gt = .ok gap := hgap
  -- normal forms after the step
  have hgn := sliceKids_norm K gf gt gap hn hgap'
  have hin := insertAt_norm S sl inserted ins gap.content hsn hgn.1 hinst
  have hn' := replaceKids_norm S ty K f t inserted K' hn hin hr1
  -- the inverse
  simp only [Schema.invert] at hi
  cases hsl : (Node.elem ty a m K).slice f t with
  | error e => simp [hsl] at hi
  | ok old =>
    simp only [hsl] at hi
    cases hrm : old.removeBetween (gf - f) (gt - f) with
    | error e => simp [hrm] at hi
    | ok rem =>
      simp only [hrm, Except.ok.injEq] at hi
      subst hi
      have hsl' : sliceKids K f t = .ok old := hsl
      obtain ⟨gap2, inserted2, hgap2, hg2o1, hg2o2, hinst2, hfr2⟩ :=
        apply_replaceAround_parts S _ doc'' _ _ _ _ _ _ _ h2
      obtain ⟨ty', a', m', K0, K'', he, rfl, hr2⟩ := fromReplace_elem S _ doc'' _ _ inserted2 hfr2
      cases he
      have hgap2' : sliceKids K' (f + ins) (f + ins + (gt - gf)) = .ok gap2 := hgap2
      -- normal forms after the inverse
      have hon := sliceKids_norm K f t old hn hsl'
      have hrn := removeBetween_norm old rem _ _ hon.1 hrm
      have hgn2 := sliceKids_norm K' _ _ gap2 hn' hgap2'
      have hin2 := insertAt_norm S rem inserted2 _ gap2.content hrn hgn2.1 hinst2
      have hn'' := replaceKids_norm S ty K' f _ inserted2 K'' hn' hin2 hr2
      -- sizes
      have hosz := sliceKids_size K f t old (by omega) htK hsl'
      obtain ⟨hrsz, _, _, _⟩ := removeBetween_size old rem (gf - f) (gt - f) (by omega) hrm
      obtain ⟨hTlen, hT0⟩ := Slice.toks_length_of_wf hwf
      -- tokens: decompose the original sequence
      obtain ⟨A, P, G, Q, D, hK, hA, hP, hG, hQ⟩ := split5 (ftoks K) f gf gt t hg.1 hg.2.1 hg.2.2
        (by rw [ftoks_length]; exact htK)
      have eA : (ftoks K).take f = A := by
        rw [hK, show A ++ P ++ G ++ Q ++ D = A ++ (P ++ G ++ Q ++ D) by simp]
        exact win_take _ _ _ hA
      have eG : ((ftoks K).drop gf).take (gt - gf) = G := by
        rw [hK, show A ++ P ++ G ++ Q ++ D = (A ++ P) ++ G ++ (Q ++ D) by simp]
        exact win_mid _ _ _ _ _ (by simp; omega) hG
      have eD : (ftoks K).drop t = D := by
        rw [hK]
        exact win_drop _ _ _ (by simp; omega)
      have eO : old.toks = P ++ G ++ Q := by
        rw [sliceKids_toks K f t old (by omega) htK hsl', hK,
          show A ++ P ++ G ++ Q ++ D = A ++ (P ++ G ++ Q) ++ D by simp]
        exact win_mid _ _ _ _ _ hA (by simp; omega)
      have eR : rem.toks = P ++ Q := by
        rw [(removeBetween_toks old rem (gf - f) (gt - f) hon.2 (by omega) (by omega) hrm).1, eO]
        rw [show P ++ G ++ Q = P ++ (G ++ Q) by simp, win_take _ _ _ hP,
          show P ++ (G ++ Q) = (P ++ G) ++ Q by simp, win_drop _ _ _ (by simp; omega)]
      have hBl : (sl.toks.take ins).length = ins := by simp; omega
      have hCl : (sl.toks.drop ins).length = sl.size.toNat - ins := by simp; omega
      rw [eA, eG, eD] at hK'
      have eG2 : ftoks gap2.content = G := by
        have : gap2 = ⟨gap2.content, 0, 0⟩ := by
          cases gap2; simp at hg2o1 hg2o2; simp [hg2o1, hg2o2]
        rw [← Slice.toks_closed, ← this,
          sliceKids_toks K' _ _ gap2 (by omega)
            (by rw [← ftoks_length, hK']; simp; omega) hgap2', hK',
          show f + ins + (gt - gf) - (f + ins) = gt - gf by omega,
          show A ++ sl.toks.take ins ++ G ++ sl.toks.drop ins ++ D
            = (A ++ sl.toks.take ins) ++ G ++ (sl.toks.drop ins ++ D) by simp]
        exact win_mid _ _ _ _ _ (by simp; omega) hG
      have eI : inserted2.toks = P ++ G ++ Q := by
        rw [insertAt_toks' S rem inserted2 (gf - f) gap2.content (by omega) hinst2, eR, eG2,
          win_take _ _ _ hP, win_drop _ _ _ hP]
      have : ftoks K'' = ftoks K := by
        rw [replaceKids_toks S ty K' f _ inserted2 K'' hr2, eI, hK, hK']
        rw [show A ++ sl.toks.take ins ++ G ++ sl.toks.drop ins ++ D
            = A ++ (sl.toks.take ins ++ G ++ sl.toks.drop ins ++ D) by simp, win_take _ _ _ hA,
          show A ++ (sl.toks.take ins ++ G ++ sl.toks.drop ins ++ D)
            = (A ++ sl.toks.take ins ++ G ++ sl.toks.drop ins) ++ D by simp,
          win_drop _ _ _ (by simp; omega)]
        simp
      rw [ftoks_inj K'' K hn'' hn this]

/- The full statement for replace-around steps,

     replaceAround_undo_unguarded : (hd : S.checkNode doc) (hn : fnorm doc.kids) (hsn : fnorm sl.content) …
         (h1 : S.apply (.replaceAround f t gf gt sl ins b) doc = .ok doc') (hi : S.invert … doc = .ok inv) :
         S.apply inv doc' = .ok doc

   is FALSE in the model and in the code, for two independent reasons, each a check of the inverse step
   that a successful forward step does not imply:
   * the structure flag (known finding C04-structure-inverse): the inverse inherits `structure = true` and
     refuses when the slice carried content beside the wrapper tokens — hypothesis `hst`;
   * the final replace of the inverse, as for plain replace steps — guard `hj` (`sidesCompatible` for the
     slice with the gap inserted).
   A THIRD reason stood here until the repair of `insert_into` (finding C04-around-text-gap, same defect as
   C01-insert-inside-text): the fit check `parent.can_replace(index, index, insert)` counted a split text twice and put
   the gap before a text that `remove_range` had joined, so that e.g. over `X "text?"` the inverse of
   "`doc(X("abXYcd"))`: replace 0…8 around the gap 3…5 by `Z()`" was refused with "Content does not fit in gap";
   `replaceAround_undo` therefore carried the fit guard `gapFitsBack`.  `insert_into` now validates the content it
   built; putting the gap back rebuilds the old child list, which is valid content of its node, so the fit check of the
   inverse passes by itself (`gapFitsBack_of_valid`, Proofs/GapBack.lean) and **`replaceAround_undo_aligned`** below
   needs no fit guard — only, like every theorem here, a pair-alignment proviso for one more cut (`Step.gapCutAligned`
   of the inverse, Proofs/GapBackAligned.lean: Python strings cannot be cut inside a surrogate pair, the model's unit lists can).
   `replaceAround_undo` (with `hfit`) is kept: it is the instance for callers that hold `gapFitsBack`.
   `replaceAround_undo_text_gap` is the former counterexample, now undone.  The structure checks `hst` stay a
   hypothesis (two `content_between` evaluations on `doc'`). -/

/-- the common core of the two undo theorems for replace-around steps: `hfit` says that putting the gap back into the
    remainder of the old slice is not refused -/
theorem replaceAround_undo_core (S : Schema) (doc doc' : Node) (f t gf gt : Nat) (sl : Slice)
    (ins : Nat) (b : Bool) (inv : Step)
    (hd : S.checkNode doc = true) (hn : fnorm doc.kids = true) (hsn : fnorm sl.content = true)
    (hwf : sl.wf = true) (hins : (ins : Int) ≤ sl.size) (hg : f ≤ gf ∧ gf ≤ gt ∧ gt ≤ t)
    (h1 : S.apply (.replaceAround f t gf gt sl ins b) doc = .ok doc')
    (hi : S.invert (.replaceAround f t gf gt sl ins b) doc = .ok inv)
    (hst : b = true → contentBetween doc' f (f + ins) = some false ∧
      contentBetween doc' (f + ins + (gt - gf)) (f + sl.size.toNat + (gt - gf)) = some false)
    (hfit : ∀ old rem gap, doc.slice f t = .ok old → old.removeBetween (gf - f) (gt - f) = .ok rem →
      doc.slice gf gt = .ok gap → ∃ x, rem.insertAt S (gf - f) gap.content = .ok (some x))
    (hj : sidesCompatibleAround S doc f t gf gt sl ins = true)
    (ha : alignedAt doc'.kids f = true ∧ alignedAt doc'.kids (f + ins) = true ∧
      alignedAt doc'.kids (f + ins + (gt - gf)) = true ∧
      alignedAt doc'.kids (f + sl.size.toNat + (gt - gf)) = true) :
    S.apply inv doc' = .ok doc := by
  obtain ⟨gap, inserted, hgap, hgo1, hgo2, hinst, hfr1⟩ :=
    apply_replaceAround_parts S doc doc' f t gf gt sl ins b h1
  obtain ⟨hK', htK, _⟩ := apply_replaceAround_toks S doc doc' f t gf gt sl ins b hwf hins hg h1
  have hj' : sidesCompatible S doc f t inserted = true := by
    simpa [sidesCompatibleAround, hgap, hinst] using hj
  obtain ⟨ty, a, m, K, K', rfl, rfl, hr1⟩ := fromReplace_elem S doc doc' f t inserted hfr1
  simp only [Node.kids] at hn hK' htK ha
  have hgap' : sliceKids K gf gt = .ok gap := hgap
  have hgn := sliceKids_norm K gf gt gap hn hgap'
  have hin := insertAt_norm S sl inserted ins gap.content hsn hgn.1 hinst
  have hn' := replaceKids_norm S ty K f t inserted K' hn hin hr1
  obtain ⟨hTlen, _⟩ := Slice.toks_length_of_wf hwf
  have hs0 : 0 ≤ sl.size := by omega
  -- the gap's tokens
  have hgclosed : gap = ⟨gap.content, 0, 0⟩ := by
    cases gap; simp at hgo1 hgo2; simp [hgo1, hgo2]
  have hGt : ftoks gap.content = ((ftoks K).drop gf).take (gt - gf) := by
    rw [← Slice.toks_closed, ← hgclosed]
    exact sliceKids_toks K gf gt gap hg.2.1 (by omega) hgap'
  have hGlen : (ftoks gap.content).length = gt - gf := by
    rw [hGt]; simp [ftoks_length]; omega
  -- the inserted slice: the step is the plain replace by it
  obtain ⟨hitk, hio1, hio2⟩ := insertAt_toks S sl inserted ins gap.content hwf hins hinst
  have hisz : inserted.size.toNat = sl.size.toNat + (gt - gf) := by
    have h1 := congrArg List.length hitk
    have hw : inserted.wf = true := (replaceKids_guards S ty K f t inserted K' hr1).2.2
    obtain ⟨hl2, _⟩ := Slice.toks_length_of_wf hw
    simp only [List.length_append, List.length_take, List.length_drop, hGlen] at h1
    omega
  -- the inverse
  simp only [Schema.invert] at hi
  cases hsl : (Node.elem ty a m K).slice f t with
  | error e => simp [hsl] at hi
  | ok old =>
    simp only [hsl] at hi
    cases hrm : old.removeBetween (gf - f) (gt - f) with
    | error e => simp [hrm] at hi
    | ok rem =>
      simp only [hrm, Except.ok.injEq] at hi
      subst hi
      have hsl' : sliceKids K f t = .ok old := hsl
      have hon := sliceKids_norm K f t old hn hsl'
      have hosz := sliceKids_size K f t old (by omega) htK hsl'
      obtain ⟨x, hx⟩ : ∃ x, rem.insertAt S (gf - f) gap.content = .ok (some x) := hfit old rem gap hsl hrm hgap
      -- the gap is found again in `doc'`
      obtain ⟨A, P, G, Q, D, hK, hA, hP, hG, hQ⟩ := split5 (ftoks K) f gf gt t hg.1 hg.2.1 hg.2.2
        (by rw [ftoks_length]; exact htK)
      have eA : (ftoks K).take f = A := by
        rw [hK, show A ++ P ++ G ++ Q ++ D = A ++ (P ++ G ++ Q ++ D) by simp]
        exact win_take _ _ _ hA
      have eG : ((ftoks K).drop gf).take (gt - gf) = G := by
        rw [hK, show A ++ P ++ G ++ Q ++ D = (A ++ P) ++ G ++ (Q ++ D) by simp]
        exact win_mid _ _ _ _ _ (by simp; omega) hG
      have eD : (ftoks K).drop t = D := by
        rw [hK]
        exact win_drop _ _ _ (by simp; omega)
      have eO : old.toks = P ++ G ++ Q := by
        rw [sliceKids_toks K f t old (by omega) htK hsl', hK,
          show A ++ P ++ G ++ Q ++ D = A ++ (P ++ G ++ Q) ++ D by simp]
        exact win_mid _ _ _ _ _ hA (by simp; omega)
      rw [eA, eG, eD] at hK'
      rw [eG] at hGt
      have hBl : (sl.toks.take ins).length = ins := by simp; omega
      have hK'sz : fsize K' = f + ins + (gt - gf) + (sl.size.toNat - ins) + D.length := by
        rw [← ftoks_length K', hK']; simp; omega
      obtain ⟨gap2, hgap2⟩ := sliceKids_total K' (f + ins) (f + ins + (gt - gf)) (by omega) (by omega)
        ha.2.1 ha.2.2.1 hn'
      have hg2n := sliceKids_norm K' _ _ gap2 hn' hgap2
      have hXY : ftoks K' = (A ++ sl.toks.take ins) ++ G ++ (sl.toks.drop ins ++ D) := by
        rw [hK']; simp
      have hXl : (A ++ sl.toks.take ins).length = f + ins := by simp; omega
      have hg2closed : gap2.openStart = 0 ∧ gap2.openEnd = 0 := by
        by_cases hg0 : gt - gf = 0
        · rw [hg0] at hgap2
          simp [sliceKids] at hgap2
          subst hgap2; exact ⟨rfl, rfl⟩
        · refine sliceKids_closed K' _ _ gap2 (by omega) (by omega) hgap2 ?_ ?_
          · intro k hk1 hk2
            have e1 : (ftoks K').take (f + ins) = A ++ sl.toks.take ins := by
              rw [hXY, List.append_assoc]; exact win_take _ _ _ hXl
            have e2 : (ftoks K').take k = (A ++ sl.toks.take ins) ++ G.take (k - (f + ins)) := by
              rw [hXY, List.append_assoc, take_app_ge _ _ _ (by omega), hXl,
                take_app_le _ _ _ (by omega)]
            rw [e1, e2]
            simp only [balance_append]
            have := balance_prefix_nonneg gap.content (k - (f + ins))
            rw [hGt] at this
            omega
          · have e1 : (ftoks K').take (f + ins) = A ++ sl.toks.take ins := by
              rw [hXY, List.append_assoc]; exact win_take _ _ _ hXl
            have e2 : (ftoks K').take (f + ins + (gt - gf)) = (A ++ sl.toks.take ins) ++ G := by
              rw [hXY]; exact win_take _ _ _ (by simp; omega)
            rw [e1, e2]
            simp only [balance_append]
            have := balance_ftoks gap.content
            rw [hGt] at this
            omega
      have eG2 : gap2.content = gap.content := by
        apply ftoks_inj _ _ hg2n.1 hgn.1
        have : gap2 = ⟨gap2.content, 0, 0⟩ := by
          cases gap2; simp at hg2closed; simp [hg2closed.1, hg2closed.2]
        rw [hGt, ← Slice.toks_closed, ← this,
          sliceKids_toks K' _ _ gap2 (by omega) (by omega) hgap2, hXY,
          show f + ins + (gt - gf) - (f + ins) = gt - gf by omega]
        exact win_mid _ _ _ _ _ hXl hG
      -- putting the gap back gives the old slice
      have hxo : x = old := by
        have e : gt - f = (gf - f) + (gt - gf) := by omega
        rw [e] at hrm
        refine reinsert_gap_eq S old rem x (gf - f) (gt - gf) gap.content hon.2 hon.1 hgn.1
          (by rw [hosz]; omega) hrm ?_ hx
        rw [hGt, eO, show P ++ G ++ Q = P ++ (G ++ Q) by simp, win_drop _ _ _ hP]
        exact (win_take _ _ _ hG).symm
      subst hxo
      -- the final replace of the inverse is the inverse of the plain replace by `inserted`
      have h1r : S.apply (.replace f t inserted false) (Node.elem ty a m K) = .ok (Node.elem ty a m K') := by
        simpa [Schema.apply] using hfr1
      have hir : S.invert (.replace f t inserted false) (Node.elem ty a m K)
          = .ok (.replace f (f + inserted.size.toNat) x false) := by
        simp [Schema.invert, hsl]
      have hfin := replace_undo S _ _ f t inserted false _ hd (by simpa [Node.kids] using hn) hin h1r hir hj'
        (by simp only [Node.kids]; rw [hisz, ← Nat.add_assoc]; exact ⟨ha.1, ha.2.2.2⟩)
      rw [hisz, ← Nat.add_assoc] at hfin
      simp only [Schema.apply, Bool.false_eq_true, if_false] at hfin
      -- assemble
      have hgap2' : (Node.elem ty a m K').slice (f + ins) (f + ins + (gt - gf)) = .ok gap2 := hgap2
      have hx' : rem.insertAt S (gf - f) gap2.content = .ok (some x) := by rw [eG2]; exact hx
      cases b with
      | false =>
        simp [Schema.apply, hgap2', hg2closed.1, hg2closed.2, hx', hfin]
      | true =>
        obtain ⟨c1, c2⟩ := hst rfl
        simp [Schema.apply, c1, c2, hgap2', hg2closed.1, hg2closed.2, hx', hfin]

/-- **the inverse of a successfully applied replace-around step applies and restores the document**,
    provided the checks of the inverse that the forward step does not imply pass:
    `hst` — the structure checks of the inverse (only if the step carries the structure flag);
    `hfit` — putting the gap back into the old slice is not rejected by `insert_into`
    (`gapFitsBack`, PM/UndoGuard.lean; since the repair of `insert_into` this holds by itself up to pair-alignment:
    `replaceAround_undo_aligned`);
    `hj` — the guard of `replace_undo` for the slice with the gap inserted (`sidesCompatibleAround`).
    `ha`: the four positions the inverse resolves in `doc'` do not split a surrogate pair. -/
theorem replaceAround_undo (S : Schema) (doc doc' : Node) (f t gf gt : Nat) (sl : Slice)
    (ins : Nat) (b : Bool) (inv : Step)
    (hd : S.checkNode doc = true) (hn : fnorm doc.kids = true) (hsn : fnorm sl.content = true)
    (hwf : sl.wf = true) (hins : (ins : Int) ≤ sl.size) (hg : f ≤ gf ∧ gf ≤ gt ∧ gt ≤ t)
    (h1 : S.apply (.replaceAround f t gf gt sl ins b) doc = .ok doc')
    (hi : S.invert (.replaceAround f t gf gt sl ins b) doc = .ok inv)
    (hst : b = true → contentBetween doc' f (f + ins) = some false ∧
      contentBetween doc' (f + ins + (gt - gf)) (f + sl.size.toNat + (gt - gf)) = some false)
    (hfit : gapFitsBack S doc f t gf gt = true)
    (hj : sidesCompatibleAround S doc f t gf gt sl ins = true)
    (ha : alignedAt doc'.kids f = true ∧ alignedAt doc'.kids (f + ins) = true ∧
      alignedAt doc'.kids (f + ins + (gt - gf)) = true ∧
      alignedAt doc'.kids (f + sl.size.toNat + (gt - gf)) = true) :
    S.apply inv doc' = .ok doc := by
  refine replaceAround_undo_core S doc doc' f t gf gt sl ins b inv hd hn hsn hwf hins hg h1 hi hst ?_ hj ha
  intro old rem gap hsl hrm hgap
  simp only [gapFitsBack, hsl, hgap, hrm] at hfit
  split at hfit
  · exact ⟨_, by assumption⟩
  · simp at hfit

/-- the fit guard of the inverse holds by itself (repaired `insert_into`): on a valid normal-form document, whenever a
    replace-around step applied and its inverse was built, the gap fits back into the remainder of the old slice —
    given that the inverse's cut at its insertion point is pair-aligned -/
theorem gapFitsBack_of_applied (S : Schema) (doc doc' : Node) (f t gf gt : Nat) (sl : Slice)
    (ins : Nat) (b : Bool) (inv : Step)
    (hd : S.checkNode doc = true) (hn : fnorm doc.kids = true)
    (hwf : sl.wf = true) (hg : f ≤ gf ∧ gf ≤ gt ∧ gt ≤ t)
    (h1 : S.apply (.replaceAround f t gf gt sl ins b) doc = .ok doc')
    (hi : S.invert (.replaceAround f t gf gt sl ins b) doc = .ok inv)
    (hra : inv.gapCutAligned) :
    gapFitsBack S doc f t gf gt = true := by
  have hins := C01.insert_le_of_apply S doc doc' f t gf gt sl ins b h1
  obtain ⟨gap, inserted, hgap, hgo1, hgo2, _, _⟩ := apply_replaceAround_parts S doc doc' f t gf gt sl ins b h1
  obtain ⟨_, htK, _⟩ := apply_replaceAround_toks S doc doc' f t gf gt sl ins b hwf hins hg h1
  simp only [Schema.invert] at hi
  cases hsl : doc.slice f t with
  | error e => simp [hsl] at hi
  | ok old =>
    simp only [hsl] at hi
    cases hrm : old.removeBetween (gf - f) (gt - f) with
    | error e => simp [hrm] at hi
    | ok rem =>
      simp only [hrm, Except.ok.injEq] at hi
      subst hi
      exact (gapFitsBack_of_valid S doc f t gf gt old rem gap hd hn hg htK hsl hgap ⟨hgo1, hgo2⟩ hrm hra).1

/-- **the inverse of a successfully applied replace-around step applies and restores the document — no fit guard**
    (the repaired `insert_into` validates the content it built, and what the inverse builds is the old content):
    `hst` — the structure checks of the inverse (only if the step carries the structure flag);
    `hj` — the guard of `replace_undo` for the slice with the gap inserted (`sidesCompatibleAround`);
    `ha`, `hra` — pair-alignment of the positions the inverse resolves in `doc'` and of the cut it makes in its own
    slice (`Step.gapCutAligned`).  `insert ≤ slice.size` is no hypothesis: `Slice.insert_at` refuses the step
    otherwise (`C01.insert_le_of_apply`).  The gap may start and end anywhere: inside text nodes, between nodes whose
    neighbours join, at any depth of the old slice. -/
theorem replaceAround_undo_aligned (S : Schema) (doc doc' : Node) (f t gf gt : Nat) (sl : Slice)
    (ins : Nat) (b : Bool) (inv : Step)
    (hd : S.checkNode doc = true) (hn : fnorm doc.kids = true) (hsn : fnorm sl.content = true)
    (hwf : sl.wf = true) (hg : f ≤ gf ∧ gf ≤ gt ∧ gt ≤ t)
    (h1 : S.apply (.replaceAround f t gf gt sl ins b) doc = .ok doc')
    (hi : S.invert (.replaceAround f t gf gt sl ins b) doc = .ok inv)
    (hst : b = true → contentBetween doc' f (f + ins) = some false ∧
      contentBetween doc' (f + ins + (gt - gf)) (f + sl.size.toNat + (gt - gf)) = some false)
    (hj : sidesCompatibleAround S doc f t gf gt sl ins = true)
    (ha : alignedAt doc'.kids f = true ∧ alignedAt doc'.kids (f + ins) = true ∧
      alignedAt doc'.kids (f + ins + (gt - gf)) = true ∧
      alignedAt doc'.kids (f + sl.size.toNat + (gt - gf)) = true)
    (hra : inv.gapCutAligned) :
    S.apply inv doc' = .ok doc :=
  replaceAround_undo S doc doc' f t gf gt sl ins b inv hd hn hsn hwf
    (C01.insert_le_of_apply S doc doc' f t gf gt sl ins b h1) hg h1 hi hst
    (gapFitsBack_of_applied S doc doc' f t gf gt sl ins b inv hd hn hwf hg h1 hi hra) hj ha

/-- **replace-around steps of the shapes `lift`, `wrap` and `set_node_markup` emit**: when the gap lies
    between complete children of the node it sits in (both ends at child boundaries of the same node, not
    inside text) and the children before and after it are not two texts with equal marks (`gapClean`,
    evaluated on the old slice `doc.slice(f, t)`), the fit guard of `replaceAround_undo` holds by itself —
    `insert_into` then builds and validates exactly the child sequence of a node of the valid `doc`.
    (A special case of `replaceAround_undo_aligned` since the repair of `insert_into`; kept for its callers.) -/
theorem replaceAround_undo_structural (S : Schema) (doc doc' : Node) (f t gf gt : Nat) (sl : Slice)
    (ins : Nat) (b : Bool) (inv : Step)
    (hd : S.checkNode doc = true) (hn : fnorm doc.kids = true) (hsn : fnorm sl.content = true)
    (hwf : sl.wf = true) (hins : (ins : Int) ≤ sl.size) (hg : f ≤ gf ∧ gf ≤ gt ∧ gt ≤ t)
    (h1 : S.apply (.replaceAround f t gf gt sl ins b) doc = .ok doc')
    (hi : S.invert (.replaceAround f t gf gt sl ins b) doc = .ok inv)
    (hst : b = true → contentBetween doc' f (f + ins) = some false ∧
      contentBetween doc' (f + ins + (gt - gf)) (f + sl.size.toNat + (gt - gf)) = some false)
    (hclean : ∀ old, doc.slice f t = .ok old →
      gapClean old.content none (gf - f + old.openStart) (gt - f + old.openStart) = true)
    (hj : sidesCompatibleAround S doc f t gf gt sl ins = true)
    (ha : alignedAt doc'.kids f = true ∧ alignedAt doc'.kids (f + ins) = true ∧
      alignedAt doc'.kids (f + ins + (gt - gf)) = true ∧
      alignedAt doc'.kids (f + sl.size.toNat + (gt - gf)) = true) :
    S.apply inv doc' = .ok doc := by
  refine replaceAround_undo S doc doc' f t gf gt sl ins b inv hd hn hsn hwf hins hg h1 hi hst ?_ hj ha
  obtain ⟨gap, inserted, hgap, hgo1, hgo2, _, _⟩ :=
    apply_replaceAround_parts S doc doc' f t gf gt sl ins b h1
  obtain ⟨_, htK, _⟩ := apply_replaceAround_toks S doc doc' f t gf gt sl ins b hwf hins hg h1
  simp only [Schema.invert] at hi
  cases hsl : doc.slice f t with
  | error e => simp [hsl] at hi
  | ok old =>
    simp only [hsl] at hi
    cases hrm : old.removeBetween (gf - f) (gt - f) with
    | error e => simp [hrm] at hi
    | ok rem =>
      exact gapFitsBack_of_clean S doc f t gf gt old rem gap hd hn hg htK hsl hgap ⟨hgo1, hgo2⟩ hrm
        (hclean old hsl)

/-! Non-vacuity of `replaceAround_undo`: wrapping `p("ab")` of `doc(p("ab"))` in a `quote`
    (replace-around 0…4, gap 0…4, slice `quote()`, insert 1) gives `doc(quote(p("ab")))`; the inverse
    (replace-around 0…6, gap 1…5, empty slice) lifts it out again. -/
section ExampleAround
private def wnt (name : String) (dfa : Array DfaState) : NodeType :=
  { name := name, isText := false, isInline := false, isLeaf := false, isAtom := false,
    inlineContent := false, isolating := false, defining := false, code := false,
    dfa := dfa, markSet := some [], attrs := [] }

/-- doc "(para|quote)*", quote "para*", para "text*" -/
private def wrapS : Schema :=
  { nodes := #[
      wnt "doc" #[⟨true, [(1, 0), (2, 0)]⟩],
      wnt "para" #[⟨true, [(3, 0)]⟩],
      wnt "quote" #[⟨true, [(1, 0)]⟩],
      { wnt "text" #[⟨true, []⟩] with isText := true, isInline := true, isLeaf := true, isAtom := true }],
    marks := #[], top := 0, textTy := 3 }

private def wDoc : Node := .elem 0 [] [] [.elem 1 [] [] [.text [97, 98] []]]
private def wDoc' : Node := .elem 0 [] [] [.elem 2 [] [] [.elem 1 [] [] [.text [97, 98] []]]]
private def wSl : Slice := ⟨[.elem 2 [] [] []], 0, 0⟩
private def wInv : Step := .replaceAround 0 6 1 5 ⟨[], 0, 0⟩ 0 false

private theorem w_slice : wDoc.slice 0 4 = .ok ⟨[.elem 1 [] [] [.text [97, 98] []]], 0, 0⟩ := by
  simp [Node.slice, Node.kids, wDoc, sliceKids, inRange, sliceScan, sliceHere, fcut, depthAt]

private theorem w_ins : wSl.insertAt wrapS 1 [.elem 1 [] [] [.text [97, 98] []]]
    = .ok (some ⟨[.elem 2 [] [] [.elem 1 [] [] [.text [97, 98] []]]], 0, 0⟩) := by
  have hc : wrapS.validContent 2 [Node.elem 1 [] [] [Node.text [97, 98] []]] = true := by decide
  simp [Slice.insertAt, Slice.size, wSl, insertInto, flatInsert, hc, fcut, fappend]

private theorem w_fwd : wrapS.apply (.replaceAround 0 4 0 4 wSl 1 false) wDoc = .ok wDoc' := by
  have hv : wrapS.validContent 0 [Node.elem 2 [] [] [Node.elem 1 [] [] [Node.text [97, 98] []]]] = true := by
    decide
  simp only [Schema.apply, w_slice, w_ins]
  simp [Schema.fromReplace, Schema.replace, wDoc, wDoc', replaceKids, inRange, depthAt, Slice.wf, spineL,
    spineR, outer, atLevel, fcut, fappend, hv, Except.map]

private theorem w_inv : wrapS.invert (.replaceAround 0 4 0 4 wSl 1 false) wDoc = .ok wInv := by
  simp only [Schema.invert, w_slice]
  simp [Slice.removeBetween, removeRange, removeRange.removeFlat, inRange, flatAt, fcut, fappend, wSl,
    Slice.size, wInv]

example : wrapS.apply wInv wDoc' = .ok wDoc := by
  refine replaceAround_undo wrapS wDoc wDoc' 0 4 0 4 wSl 1 false _ ?_ ?_ ?_ ?_ ?_ ?_ w_fwd w_inv ?_ ?_ ?_ ?_
  · decide
  · simp [wDoc, Node.kids, fnorm, fnormKids, Node.norm, chainOk]
  · simp [wSl, fnorm, fnormKids, Node.norm, chainOk]
  · simp [wSl, Slice.wf, spineL, spineR]
  · simp [wSl, Slice.size]
  · omega
  · intro h; simp at h
  · simp only [gapFitsBack, w_slice]
    simp [Slice.removeBetween, removeRange, removeRange.removeFlat, inRange, flatAt, fcut, fappend,
      Slice.insertAt, Slice.size, insertInto, flatInsert]
  · simp only [sidesCompatibleAround, w_slice, w_ins]
    exact sidesCompatible_of_closed _ _ _ _ _ (.inl rfl)
  · simp [wDoc', Node.kids, wSl, Slice.size, alignedAt]

/-- the same through `replaceAround_undo_structural`: the gap is the whole child `p("ab")` -/
example : wrapS.apply wInv wDoc' = .ok wDoc := by
  refine replaceAround_undo_structural wrapS wDoc wDoc' 0 4 0 4 wSl 1 false _ ?_ ?_ ?_ ?_ ?_ ?_ w_fwd w_inv
    ?_ ?_ ?_ ?_
  · decide
  · simp [wDoc, Node.kids, fnorm, fnormKids, Node.norm, chainOk]
  · simp [wSl, fnorm, fnormKids, Node.norm, chainOk]
  · simp [wSl, Slice.wf, spineL, spineR]
  · simp [wSl, Slice.size]
  · omega
  · intro h; simp at h
  · intro old h
    rw [w_slice] at h
    simp at h; subst h
    simp [gapClean, gapEnd]
  · simp only [sidesCompatibleAround, w_slice, w_ins]
    exact sidesCompatible_of_closed _ _ _ _ _ (.inl rfl)
  · simp [wDoc', Node.kids, wSl, Slice.size, alignedAt]
end ExampleAround

/-! The former counterexample to the unguarded statement (finding C04-around-text-gap), now undone.
    `doc "(X|Z)*"`, `X "text?"`, `Z "text*"`; `doc(X("abXYcd"))`; the step "replace 0…8 around the gap 3…5 (`XY`) by
    `Z()`" gives `doc(Z("XY"))`.  Its inverse has to put `XY` back into `X("abcd")` at offset 2 of the text.  Before the
    repair `insert_into` asked `X.can_replace(0, 0, [text])`, i.e. whether `text text` matches `text?`, and refused
    ("Content does not fit in gap"; the kernel-checked theorem `replaceAround_undo_needs_guard` stood here).  Now it builds
    `"ab" ++ "XY" ++ "cd"`, which `append` joins to the one text `"abXYcd"`, and asks `X` whether *that* is valid
    content. -/
section TextGap
private def fgnt (name : String) (dfa : Array DfaState) : NodeType :=
  { name := name, isText := false, isInline := false, isLeaf := false, isAtom := false,
    inlineContent := false, isolating := false, defining := false, code := false,
    dfa := dfa, markSet := some [], attrs := [] }
private def fgS : Schema :=
  { nodes := #[
      fgnt "doc" #[⟨true, [(1, 0), (2, 0)]⟩],
      fgnt "X" #[⟨true, [(3, 1)]⟩, ⟨true, []⟩],
      fgnt "Z" #[⟨true, [(3, 0)]⟩],
      { fgnt "text" #[⟨true, []⟩] with isText := true, isInline := true, isLeaf := true, isAtom := true }],
    marks := #[], top := 0, textTy := 3 }
private def fgDoc : Node := .elem 0 [] [] [.elem 1 [] [] [.text [97, 98, 88, 89, 99, 100] []]]
private def fgSl : Slice := ⟨[.elem 2 [] [] []], 0, 0⟩
private def fgDoc' : Node := .elem 0 [] [] [.elem 2 [] [] [.text [88, 89] []]]
private def fgOld : Slice := ⟨[.elem 1 [] [] [.text [97, 98, 88, 89, 99, 100] []]], 0, 0⟩
private def fgRem : Slice := ⟨[.elem 1 [] [] [.text [97, 98, 99, 100] []]], 0, 0⟩
private def fgInv : Step := .replaceAround 0 4 1 3 fgRem 3 false

private theorem fg_slice08 : fgDoc.slice 0 8 = .ok fgOld := by
  simp [Node.slice, Node.kids, fgDoc, fgOld, sliceKids, inRange, sliceScan, sliceHere, fcut, depthAt]

private theorem fg_slice35 : fgDoc.slice 3 5 = .ok ⟨[.text [88, 89] []], 0, 0⟩ := by
  simp [Node.slice, Node.kids, fgDoc, sliceKids, inRange, sliceScan, sliceHere, fcut, fcutLoop, cutText,
    splitOk, isHigh, isLow, depthAt]

private theorem fg_ins : fgSl.insertAt fgS 1 [.text [88, 89] []] = .ok (some ⟨[.elem 2 [] [] [.text [88, 89] []]], 0, 0⟩) := by
  have hc : fgS.validContent 2 [Node.text [88, 89] []] = true := by decide
  simp [Slice.insertAt, Slice.size, fgSl, insertInto, flatInsert, hc, fcut, fappend]

private theorem fg_fwd : fgS.apply (.replaceAround 0 8 3 5 fgSl 1 false) fgDoc = .ok fgDoc' := by
  have hv : fgS.validContent 0 [Node.elem 2 [] [] [Node.text [88, 89] []]] = true := by decide
  simp only [Schema.apply, fg_slice35, fg_ins]
  simp [Schema.fromReplace, Schema.replace, fgDoc, fgDoc', replaceKids, inRange, depthAt, Slice.wf, spineL,
    spineR, outer, atLevel, fcut, fappend, hv, Except.map]

private theorem fg_rem : fgOld.removeBetween 3 5 = .ok fgRem := by
  simp [Slice.removeBetween, fgOld, fgRem, removeRange, removeRange.removeFlat, inRange, flatAt, fcut, fcutLoop,
    cutText, splitOk, isHigh, isLow, fappend, addNode, Node.isText]

private theorem fg_inv : fgS.invert (.replaceAround 0 8 3 5 fgSl 1 false) fgDoc = .ok fgInv := by
  simp only [Schema.invert, fg_slice08]
  simp [fg_rem, fgSl, Slice.size, fgInv]

/-- the old test of `insert_into` on this input: `X.can_replace(0, 0, ["XY"])` is false … -/
private theorem fg_old_test :
    fgS.canReplace 1 [Node.text [97, 98, 99, 100] []] 0 0 [Node.text [88, 89] []] 0 1 = some false := by decide

/-- … the repaired `insert_into` accepts: the built content is the one text `"abXYcd"` -/
private theorem fg_fits : fgRem.insertAt fgS 3 [.text [88, 89] []] = .ok (some fgOld) := by
  have hv : fgS.validContent 1 [Node.text [97, 98, 88, 89, 99, 100] []] = true := by decide
  simp [Slice.insertAt, Slice.size, fgRem, fgOld, insertInto, flatInsert, fcut, fcutLoop, cutText, splitOk, isHigh,
    isLow, fappend, addNode, hv]

/-- **finding C04-around-text-gap is repaired**: every hypothesis of `replaceAround_undo_aligned` holds for the former
    counterexample (gap cut inside a text child of a node with content `text?`), the fit guard holds, and the inverse
    applies and restores the document -/
theorem replaceAround_undo_text_gap :
    ∃ (S : Schema) (doc doc' : Node) (f t gf gt : Nat) (sl : Slice) (ins : Nat) (inv : Step),
      S.checkNode doc = true ∧ fnorm doc.kids = true ∧ fnorm sl.content = true ∧ sl.wf = true ∧
      (ins : Int) ≤ sl.size ∧ (f ≤ gf ∧ gf ≤ gt ∧ gt ≤ t) ∧
      S.apply (.replaceAround f t gf gt sl ins false) doc = .ok doc' ∧
      S.invert (.replaceAround f t gf gt sl ins false) doc = .ok inv ∧
      sidesCompatibleAround S doc f t gf gt sl ins = true ∧
      (alignedAt doc'.kids f = true ∧ alignedAt doc'.kids (f + ins) = true ∧
        alignedAt doc'.kids (f + ins + (gt - gf)) = true ∧
        alignedAt doc'.kids (f + sl.size.toNat + (gt - gf)) = true) ∧
      inv.gapCutAligned ∧
      gapFitsBack S doc f t gf gt = true ∧
      S.apply inv doc' = .ok doc := by
  have hsn : fnorm fgSl.content = true := by simp [fgSl, fnorm, fnormKids, Node.norm, chainOk]
  have hn : fnorm fgDoc.kids = true := by simp [fgDoc, Node.kids, fnorm, fnormKids, Node.norm, chainOk]
  have hwf : fgSl.wf = true := by simp [fgSl, Slice.wf, spineL, spineR]
  have hins : ((1 : Nat) : Int) ≤ fgSl.size := by simp [fgSl, Slice.size]
  have hj : sidesCompatibleAround fgS fgDoc 0 8 3 5 fgSl 1 = true := by
    simp only [sidesCompatibleAround, fg_slice35, fg_ins]
    exact sidesCompatible_of_closed _ _ _ _ _ (.inl rfl)
  have ha : alignedAt fgDoc'.kids 0 = true ∧ alignedAt fgDoc'.kids (0 + 1) = true ∧
      alignedAt fgDoc'.kids (0 + 1 + (5 - 3)) = true ∧
      alignedAt fgDoc'.kids (0 + fgSl.size.toNat + (5 - 3)) = true := by
    simp [fgDoc', Node.kids, fgSl, Slice.size, alignedAt]
  have hra : fgInv.gapCutAligned := by
    simp [fgInv, Step.gapCutAligned, fgRem, alignedAt, splitOk, isHigh, isLow]
  refine ⟨fgS, fgDoc, fgDoc', 0, 8, 3, 5, fgSl, 1, fgInv, by decide, hn, hsn, hwf, hins, by omega, fg_fwd, fg_inv,
    hj, ha, hra, ?_, ?_⟩
  · simp only [gapFitsBack, fg_slice08, fg_slice35]
    simp [fg_rem, fg_fits]
  · exact replaceAround_undo_aligned fgS fgDoc fgDoc' 0 8 3 5 fgSl 1 false fgInv (by decide) hn hsn hwf
      (by omega) fg_fwd fg_inv (by intro h; simp at h) hj ha hra
end TextGap

mutual
/-- every node carries its attributes the way the library builds them (`compute_attrs` would return
    them unchanged) -/
def attrsOk (S : Schema) : Node → Bool
  | .text .. => true
  | .leaf t a _ => (match computeAttrs (S.nodeType t).attrs a with
      | .ok a' => a' == a
      | .error _ => false)
  | .elem t a _ kids => (match computeAttrs (S.nodeType t).attrs a with
      | .ok a' => a' == a
      | .error _ => false) && attrsOkKids S kids
def attrsOkKids (S : Schema) : List Node → Bool
  | [] => true
  | n :: ns => attrsOk S n && attrsOkKids S ns
end

private theorem attrsOk_nodeAt (S : Schema) : ∀ (kids : List Node) (pos : Nat) (n : Node),
    attrsOkKids S kids = true → nodeAtKids kids pos = .ok (some n) → attrsOk S n = true
  | [], pos, n, _, h => by
    unfold nodeAtKids at h
    split at h <;> simp at h
  | x :: xs, pos, n, hk, h => by
    simp only [attrsOkKids, Bool.and_eq_true] at hk
    unfold nodeAtKids at h
    split at h
    · simp at h; subst h; exact hk.1
    · split at h
      · exact attrsOk_nodeAt S xs _ n hk.2 h
      · cases x with
        | text s m => simp at h; subst h; exact hk.1
        | leaf t a m => simp at h; subst h; exact hk.1
        | elem t a m kids =>
          have h1 := hk.1
          simp only [attrsOk, Bool.and_eq_true] at h1
          exact attrsOk_nodeAt S kids _ n h1.2 h

private theorem attrsOk_kids {S : Schema} {doc : Node} (h : attrsOk S doc = true) :
    attrsOkKids S doc.kids = true := by
  cases doc with
  | text s m => simp [Node.kids, attrsOkKids]
  | leaf t a m => simp [Node.kids, attrsOkKids]
  | elem t a m k =>
    simp only [attrsOk, Bool.and_eq_true] at h
    simpa [Node.kids] using h.2

private theorem attrsOk_compute {S : Schema} {n : Node} (h : attrsOk S n = true)
    (hnt : n.isText = false) :
    computeAttrs (S.nodeType n.headTok.ty).attrs n.attrs = .ok n.attrs := by
  cases n with
  | text s m => simp [Node.isText] at hnt
  | leaf t a m =>
    simp only [attrsOk] at h
    simp only [Node.headTok, Tok.ty, Node.attrs]
    cases hc : computeAttrs (S.nodeType t).attrs a with
    | error e => simp [hc] at h
    | ok a' => simp [hc] at h; rw [h]
  | elem t a m k =>
    simp only [attrsOk, Bool.and_eq_true] at h
    have h1 := h.1
    simp only [Node.headTok, Tok.ty, Node.attrs]
    cases hc : computeAttrs (S.nodeType t).attrs a with
    | error e => simp [hc] at h1
    | ok a' => simp [hc] at h1; rw [h1]

/-- the value `AttrStep.invert` / `DocAttrStep.invert` read (`attrs.get(name)`, `None` = `"null"` for an
    attribute the node does not carry), and what setting it again does to a canonically built list -/
theorem invert_attr_value (ds : List AttrDecl) (a : Attrs) (name value : String)
    (hcomp : computeAttrs ds a = .ok a) :
    ∃ v, (match a.find? (·.1 == name) with | some (_, v) => v | none => "null") = v ∧
      ∀ a1, computeAttrs ds (a.filter (·.1 != name) ++ [(name, value)]) = .ok a1 →
        computeAttrs ds (a1.filter (·.1 != name) ++ [(name, v)]) = .ok a := by
  cases hf : a.find? (·.1 == name) with
  | none =>
    exact ⟨"null", rfl, fun a1 h => computeAttrs_undo_none ds a a1 name value "null" hcomp (by simp [lk, hf]) h⟩
  | some q =>
    obtain ⟨nm, v⟩ := q
    exact ⟨v, rfl, fun a1 h => computeAttrs_undo ds a a1 name value v hcomp (by simp [lk, hf]) h⟩

/-- the inverse of an attribute step, as a value -/
theorem invert_attr_eq (S : Schema) (doc n : Node) (pos : Nat) (name value : String)
    (hn1 : doc.nodeAt pos = .ok (some n)) :
    S.invert (.attr pos name value) doc =
      .ok (.attr pos name (match n.attrs.find? (·.1 == name) with | some (_, v) => v | none => "null")) := by
  simp only [Schema.invert, hn1]
  cases hf : n.attrs.find? (·.1 == name) with
  | none => rfl
  | some q => obtain ⟨nm, v⟩ := q; rfl

theorem invert_docAttr_eq (S : Schema) (doc : Node) (name value : String) :
    S.invert (.docAttr name value) doc =
      .ok (.docAttr name (match doc.attrs.find? (·.1 == name) with | some (_, v) => v | none => "null")) := by
  simp only [Schema.invert]
  cases hf : doc.attrs.find? (·.1 == name) with
  | none => rfl
  | some q => obtain ⟨nm, v⟩ := q; rfl

/-- what the hypotheses on the document give for the addressed node -/
private theorem node_facts (S : Schema) (doc n : Node) (pos : Nat)
    (hv : S.checkNode doc = true) (ha : attrsOk S doc = true)
    (hn1 : doc.nodeAt pos = .ok (some n)) (hnt : n.isText = false) :
    canonicalMarks S n.marks = true ∧
      computeAttrs (S.nodeType n.headTok.ty).attrs n.attrs = .ok n.attrs :=
  ⟨Node.marks_canonical (nodeAtKids_valid S doc.kids pos n (checkNode_kids hv) hn1),
    attrsOk_compute (attrsOk_nodeAt S doc.kids pos n (attrsOk_kids ha) hn1) hnt⟩

/-- **exact undo of an attribute step naming an attribute the node declares** (same proviso as for
    replace steps: whenever the inverse applies) -/
theorem attr_undo_partial (S : Schema) (doc doc' doc'' : Node) (pos : Nat) (name value : String) (inv : Step)
    (hn : fnorm doc.kids = true) (hv : S.checkNode doc = true) (ha : attrsOk S doc = true)
    (h1 : S.apply (.attr pos name value) doc = .ok doc')
    (hi : S.invert (.attr pos name value) doc = .ok inv)
    (h2 : S.apply inv doc' = .ok doc'') : doc'' = doc := by
  obtain ⟨n, u1, hn1, hu1, hr1⟩ := apply_attr_parts S doc doc' pos name value h1
  have hnt := (recreate_spec S n u1 _ _ hu1).1
  obtain ⟨hcan, hcomp⟩ := node_facts S doc n pos hv ha hn1 hnt
  rw [invert_attr_eq S doc n pos name value hn1] at hi
  obtain ⟨v, hv', hund⟩ := invert_attr_value _ n.attrs name value hcomp
  rw [hv'] at hi
  simp only [Except.ok.injEq] at hi
  subst hi
  obtain ⟨n2, u2, hn2, hu2, hr2⟩ := apply_attr_parts S doc' doc'' pos name v h2
  refine node_undo S doc doc' doc'' n n2 u1 u2 pos _ _ _ _ hn hn1 hu1 hr1 hn2 hu2 hr2 ?_
  intro a1 a2 hc1 hat2 hmk2 hc2
  rw [hat2] at hc2
  rw [hmk2, setFrom_idem_of_canonical S n.marks hcan]
  have := hund a1 hc1
  rw [this] at hc2
  exact ⟨(Except.ok.inj hc2).symm, setFrom_idem_of_canonical S n.marks hcan⟩

-- STATEMENT CHANGED: two hypotheses added (`hty`, `hsym`); as originally stated the theorem is false
-- in the model (and upstream).  Counterexamples (checked with `#eval`, all other hypotheses hold; one
-- top node `doc` (type 0, content `hr*`) holding one leaf `hr` (type 1) at position 0):
--  (1) remove + re-add changes the order when two marks of one type coexist (type not excluding
--      itself): marks `[excluded = []; [1]]`, `x = ⟨0,[("a","1")]⟩`, `y = ⟨0,[("a","2")]⟩`,
--      doc `elem 0 [] [] [leaf 1 [] [x, y]]`, step `removeNodeMark 0 x`: inverse `addNodeMark 0 x`
--      yields marks `[y, x]` (add_to_set inserts after all marks of rank ≤ its own), so doc'' ≠ doc.
--      `hty` (the marks on the addressed node have pairwise distinct types) excludes this.
--  (2) asymmetric exclusion: marks `[excluded = [0]; [0,1]]`, `a = ⟨0,[]⟩`, `b = ⟨1,[]⟩`,
--      doc `elem 0 [] [] [leaf 1 [] [a]]`, step `addNodeMark 0 b` displaces `a` (sets `[a]` → `[b]`,
--      equal length, so `hdis` holds); the inverse `addNodeMark 0 a` is blocked because `b` excludes
--      `a` while `a` does not exclude `b`: marks stay `[b]`, doc'' ≠ doc.
--      `hsym` (every mark the new mark excludes on that node excludes it back) excludes this.
/-- **exact undo of node-mark steps** that displace at most one mark (same proviso) -/
theorem nodeMark_undo_partial (S : Schema) (doc doc' doc'' : Node) (pos : Nat) (m : Mark) (inv : Step) (add : Bool)
    (hn : fnorm doc.kids = true) (hv : S.checkNode doc = true) (ha : attrsOk S doc = true)
    (h1 : S.apply (if add then .addNodeMark pos m else .removeNodeMark pos m) doc = .ok doc')
    (hi : S.invert (if add then .addNodeMark pos m else .removeNodeMark pos m) doc = .ok inv)
    (hdis : ∀ n, doc.nodeAt pos = .ok (some n) → add = true → n.marks.length ≤ (m.addToSet S n.marks).length)
    (hty : ∀ n, doc.nodeAt pos = .ok (some n) → ∀ x ∈ n.marks, ∀ y ∈ n.marks, x.ty = y.ty → x = y)
    (hsym : ∀ n, doc.nodeAt pos = .ok (some n) → add = true →
      ∀ x ∈ n.marks, S.excludes m.ty x.ty = true → S.excludes x.ty m.ty = true)
    (h2 : S.apply inv doc' = .ok doc'') : doc'' = doc := by
  cases add with
  | true =>
    simp only [if_true] at h1 hi
    obtain ⟨n, u1, hn1, hu1, hr1⟩ := apply_addNodeMark_parts S doc doc' pos m h1
    have hnt := (recreate_spec S n u1 _ _ hu1).1
    obtain ⟨hcan, hcomp⟩ := node_facts S doc n pos hv ha hn1 hnt
    have hcanP := (canonicalMarks_iff_canonP S n.marks).1 hcan
    have hdis' := hdis n hn1 rfl
    have hsf1 : setFrom (m.addToSet S n.marks) = m.addToSet S n.marks :=
      setFrom_idem_of_canonical S _ (addToSet_canonical S m _ hcan)
    -- common ending: the second step is a node-mark step whose new set is the old one
    have finish : ∀ (n2 u2 : Node) (marks2 : Marks),
        doc'.nodeAt pos = .ok (some n2) → S.recreate n2 n2.attrs marks2 = .ok u2 →
        S.fromReplace doc' pos (pos + 1) ⟨[u2], 0, if n2.isLeaf then 0 else 1⟩ = .ok doc'' →
        (n2.marks = m.addToSet S n.marks → marks2 = n.marks) → doc'' = doc := by
      intro n2 u2 marks2 hn2 hu2 hr2 hmk
      refine node_undo S doc doc' doc'' n n2 u1 u2 pos _ _ _ _ hn hn1 hu1 hr1 hn2 hu2 hr2 ?_
      intro a1 a2 hc1 hat2 hmk2 hc2
      rw [hcomp] at hc1
      have ha1 : a1 = n.attrs := (Except.ok.inj hc1).symm
      rw [hat2, ha1, hcomp] at hc2
      rw [hmk (hmk2.trans hsf1)]
      exact ⟨(Except.ok.inj hc2).symm, setFrom_idem_of_canonical S n.marks hcan⟩
    simp only [Schema.invert, hn1] at hi
    split at hi
    · rename_i hlen
      split at hi
      · rename_i x hx
        simp only [Except.ok.injEq] at hi; subst hi
        obtain ⟨n2, u2, hn2, hu2, hr2⟩ := apply_addNodeMark_parts S doc' doc'' pos x h2
        refine finish n2 u2 _ hn2 hu2 hr2 (fun hm2 => ?_)
        rw [hm2]
        have hxm : x ∈ n.marks := List.mem_of_find?_eq_some hx
        exact add_displaced_eq S n.marks m x hcanP hlen hx
          (fun o ho e => hty n hn1 o ho x hxm e) (hsym n hn1 rfl)
      · rename_i hx
        simp only [Except.ok.injEq] at hi; subst hi
        obtain ⟨n2, u2, hn2, hu2, hr2⟩ := apply_addNodeMark_parts S doc' doc'' pos m h2
        refine finish n2 u2 _ hn2 hu2 hr2 (fun hm2 => ?_)
        have hsame := add_same_length_none S n.marks m hlen hx
        rw [hm2, hsame, hsame]
    · rename_i hlen
      simp only [Except.ok.injEq] at hi; subst hi
      obtain ⟨n2, u2, hn2, hu2, hr2⟩ := apply_removeNodeMark_parts S doc' doc'' pos m h2
      refine finish n2 u2 _ hn2 hu2 hr2 (fun hm2 => ?_)
      rw [hm2]
      have hgt := addToSet_length_gt S n.marks m (by omega)
      rw [hgt.2]
      exact filter_ne_insertByRank m n.marks hgt.1
  | false =>
    simp only [Bool.false_eq_true, if_false] at h1 hi
    obtain ⟨n, u1, hn1, hu1, hr1⟩ := apply_removeNodeMark_parts S doc doc' pos m h1
    have hnt := (recreate_spec S n u1 _ _ hu1).1
    obtain ⟨hcan, hcomp⟩ := node_facts S doc n pos hv ha hn1 hnt
    have hcanP := (canonicalMarks_iff_canonP S n.marks).1 hcan
    have hsf1 : setFrom (m.removeFromSet n.marks) = m.removeFromSet n.marks :=
      setFrom_idem_of_canonical S _ (removeFromSet_canonical S m _ hcan)
    have finish : ∀ (n2 u2 : Node) (marks2 : Marks),
        doc'.nodeAt pos = .ok (some n2) → S.recreate n2 n2.attrs marks2 = .ok u2 →
        S.fromReplace doc' pos (pos + 1) ⟨[u2], 0, if n2.isLeaf then 0 else 1⟩ = .ok doc'' →
        (n2.marks = m.removeFromSet n.marks → marks2 = n.marks) → doc'' = doc := by
      intro n2 u2 marks2 hn2 hu2 hr2 hmk
      refine node_undo S doc doc' doc'' n n2 u1 u2 pos _ _ _ _ hn hn1 hu1 hr1 hn2 hu2 hr2 ?_
      intro a1 a2 hc1 hat2 hmk2 hc2
      rw [hcomp] at hc1
      have ha1 : a1 = n.attrs := (Except.ok.inj hc1).symm
      rw [hat2, ha1, hcomp] at hc2
      rw [hmk (hmk2.trans hsf1)]
      exact ⟨(Except.ok.inj hc2).symm, setFrom_idem_of_canonical S n.marks hcan⟩
    simp only [Schema.invert, hn1] at hi
    split at hi
    · rename_i hin
      simp only [Except.ok.injEq] at hi; subst hi
      obtain ⟨n2, u2, hn2, hu2, hr2⟩ := apply_addNodeMark_parts S doc' doc'' pos m h2
      refine finish n2 u2 _ hn2 hu2 hr2 (fun hm2 => ?_)
      rw [hm2]
      have hmm : m ∈ n.marks := (isInSet_iff m _).mp hin
      exact add_remove_eq S n.marks m hcanP hmm (fun o ho e => hty n hn1 o ho m hmm e)
    · rename_i hin
      simp only [Except.ok.injEq] at hi; subst hi
      obtain ⟨n2, u2, hn2, hu2, hr2⟩ := apply_removeNodeMark_parts S doc' doc'' pos m h2
      refine finish n2 u2 _ hn2 hu2 hr2 (fun hm2 => ?_)
      have hmm : m ∉ n.marks := fun h => hin ((isInSet_iff m _).mpr h)
      rw [hm2, removeFromSet_of_not_mem m _ hmm, removeFromSet_of_not_mem m _ hmm]

set_option linter.unusedVariables false in
/-- **exact undo of a doc-attribute step** for a declared attribute holding a non-null value or a
    null default -/
theorem docAttr_undo (S : Schema) (t : TypeId) (a : Attrs) (m : Marks) (kids : List Node)
    (name value : String) (doc' : Node) (inv : Step)
    (ha : computeAttrs (S.nodeType t).attrs a = .ok a) (hm : setFrom m = m)
    (h1 : S.apply (.docAttr name value) (.elem t a m kids) = .ok doc')
    (hi : S.invert (.docAttr name value) (.elem t a m kids) = .ok inv)
    (hdecl : name ∈ (S.nodeType t).attrs.map (·.name)) :
    ∃ doc'', S.apply inv doc' = .ok doc'' ∧ doc''.kids = kids ∧ doc''.marks = m := by
  simp only [Schema.apply] at h1
  cases hc1 : computeAttrs (S.nodeType t).attrs (a.filter (·.1 != name) ++ [(name, value)]) with
  | error e => simp [hc1, Except.map] at h1
  | ok a1 =>
    simp only [hc1, Except.map, Except.ok.injEq] at h1
    subst h1
    rw [invert_docAttr_eq] at hi
    simp only [Node.attrs] at hi
    obtain ⟨v, hv', hund⟩ := invert_attr_value _ a name value ha
    rw [hv'] at hi
    simp only [Except.ok.injEq] at hi
    subst hi
    have _ := hdecl
    have := hund a1 hc1
    refine ⟨.elem t a (setFrom (setFrom m)) kids, ?_, rfl, ?_⟩
    · simp only [Schema.apply, this, Except.map]
    · simp only [Node.marks, hm]

-- STATEMENT CHANGED: the first conjunct got the extra premise `∀ o ∈ ms, o.ty = m.ty → o = m`
-- (no other mark of `m`'s type in the set).  Counterexample to the original (`#eval`): mark types
-- `[excluded = []; [1]]`, `ms = [x, y]` with `x = ⟨0,[("a","1")]⟩`, `y = ⟨0,[("a","2")]⟩` (canonical),
-- `m = x`: `x.addToSet S (x.removeFromSet ms) = [y, x] ≠ ms`.  The second conjunct is unchanged.
/-- **exact undo of a remove-node-mark step** and of an **add-node-mark step that displaces at most
    one mark** (the mark set afterwards is the one before) -/
theorem nodeMark_undo_marks (S : Schema) (ms : Marks) (m : Mark) (hc : canonicalMarks S ms = true) :
    (m.isInSet ms = true → (∀ o ∈ ms, o.ty = m.ty → o = m) → m.addToSet S (m.removeFromSet ms) = ms) ∧
    (m.isInSet ms = false → (m.addToSet S ms).length = ms.length + 1 → m.removeFromSet (m.addToSet S ms) = ms) := by
  have hcP := (canonicalMarks_iff_canonP S ms).1 hc
  exact ⟨fun hin hty => add_remove_eq S ms m hcP ((isInSet_iff m ms).mp hin) hty,
    fun _ hlen => remove_add_eq S ms m hlen⟩

/-- three mark types: `small1`, `small2` (each excluding only itself) and `big` (excluding all) -/
private def gS : Schema :=
  ⟨#[], #[⟨"small1", [0], true, []⟩, ⟨"small2", [1], true, []⟩, ⟨"big", [0, 1, 2], true, []⟩], 0, 0⟩

/-- the guard "at most one displaced mark" is necessary: a mark excluding two present marks cannot
    be undone by a single node-mark step (also upstream) -/
theorem nodeMark_undo_needs_guard :
    ∃ (S : Schema) (ms : Marks) (m : Mark), canonicalMarks S ms = true ∧
      (m.addToSet S ms).length < ms.length ∧
      ∀ x : Mark, x.addToSet S (m.addToSet S ms) ≠ ms ∧ x.removeFromSet (m.addToSet S ms) ≠ ms := by
  refine ⟨gS, [⟨0, []⟩, ⟨1, []⟩], ⟨2, []⟩, by decide, by decide, ?_⟩
  have hadd : Mark.addToSet gS ⟨2, []⟩ [⟨0, []⟩, ⟨1, []⟩] = [⟨2, []⟩] := by decide
  rw [hadd]
  intro x
  constructor
  · rw [addToSet_eq]
    split
    · decide
    · intro h
      have hlen := congrArg List.length h
      have hl := (insertByRank_perm x ([⟨2, []⟩].filter fun o => !gS.excludes x.ty o.ty)).length_eq
      simp only [List.length_cons, List.length_nil] at hlen hl
      -- the filter kept `big`, so `big` is in the result
      have hk : ([⟨2, []⟩].filter fun o => !gS.excludes x.ty o.ty) = [(⟨2, []⟩ : Mark)] := by
        apply List.Sublist.eq_of_length List.filter_sublist
        simp only [List.length_cons, List.length_nil]; omega
      have : (⟨2, []⟩ : Mark) ∈ insertByRank x ([⟨2, []⟩].filter fun o => !gS.excludes x.ty o.ty) := by
        rw [hk]; exact (mem_insertByRank x _ _).mpr (Or.inr (by simp))
      rw [h] at this
      revert this; decide
  · intro h
    have hlen := congrArg List.length h
    have hle := List.length_filter_le (· != x) [(⟨2, []⟩ : Mark)]
    simp only [Mark.removeFromSet, List.length_cons, List.length_nil] at hlen hle
    omega


/-! ## The inverse of a node-markup step applies (work package `wk-msuccess`)

The partial theorems above assume that the inverse step applies.  With the success lemmas of
`Proofs/MarkupSuccess.lean` (the replace of a node-markup step on a valid, normal-form document
applies iff the parent of the addressed node allows the new mark set) that assumption is discharged:
the inverse re-creates the original markup, which the parent allowed in the first place. -/

/-- what the forward step of `attr_undo` / `nodeMark_undo` leaves: the document with the addressed
    node's markup exchanged, still valid and in normal form, the same parent type above `pos` -/
private theorem after_nodeStep (S : Schema) (ty : TypeId) (a : Attrs) (m : Marks) (K : List Node)
    (doc' n u1 : Node) (pos : Nat) (attrs1 : Attrs) (marks1 : Marks)
    (hn : fnorm K = true) (hv : S.checkNode (.elem ty a m K) = true)
    (hn1 : nodeAtKids K pos = .ok (some n)) (hc1 : canonicalMarks S marks1 = true)
    (hu1 : S.recreate n attrs1 marks1 = .ok u1)
    (hr1 : S.fromReplace (.elem ty a m K) pos (pos + 1) ⟨[u1], 0, if n.isLeaf then 0 else 1⟩ = .ok doc') :
    doc' = .elem ty a m (remarkAt K pos u1) ∧ S.checkNode doc' = true ∧
      fnorm (remarkAt K pos u1) = true ∧
      nodeAtKids (remarkAt K pos u1) pos = .ok (some (u1.withKids n.kids)) ∧
      parentTyAt ty (remarkAt K pos u1) pos = parentTyAt ty K pos ∧
      (u1.withKids n.kids).isText = false ∧
      ∃ a1, computeAttrs (S.nodeType n.headTok.ty).attrs attrs1 = .ok a1 ∧
        (u1.withKids n.kids).headTok.ty = n.headTok.ty ∧ (u1.withKids n.kids).attrs = a1 ∧
        (u1.withKids n.kids).marks = setFrom marks1 := by
  obtain ⟨hre, _⟩ := recreate_remarked S n u1 _ _ hu1
  obtain ⟨hnt1, hnu1, a1, hca1, hh1⟩ := recreate_spec S n u1 _ _ hu1
  have hfr := fromReplace_node S ty a m K pos n u1 hv hn hn1 hre
  rw [hr1] at hfr
  have hd' : doc' = .elem ty a m (remarkAt K pos u1) := by
    split at hfr
    · exact Except.ok.inj hfr
    · cases hfr
  have hv' : S.checkNode doc' = true := nodeStep_valid S _ doc' n u1 pos _ _ hv hn1 hc1 hu1 hr1
  obtain ⟨ty', a', m', K0, K', he, hd2, hk1⟩ := fromReplace_elem S _ doc' _ _ _ hr1
  cases he
  have hn' := replaceKids_norm S ty K _ _ _ K' hn hnu1 hk1
  have hKK : K' = remarkAt K pos u1 := by
    rw [hd2] at hd'; injection hd'
  rw [hKK] at hn'
  obtain ⟨_, hat2⟩ := mapNodeAt_spec K pos n hn1 hre
  obtain ⟨hh2, hnt2, _, _⟩ := hre.withKids_headTok
  obtain ⟨e1, e2, e3, _⟩ := headTok_eq_remark hnt1 hnt2 (hh2.trans hh1)
  exact ⟨hd', hv', hn', hat2, parentTyAt_remarkAt K pos n ty hn1 hre, hnt2, a1, hca1, e1, e2, e3⟩

/-- **exact undo of an attribute step naming an attribute the node declares: the inverse applies and
    restores the document** (valid, normal-form document whose nodes carry computed attribute lists) -/
theorem attr_undo (S : Schema) (doc doc' : Node) (pos : Nat) (name value : String) (inv : Step)
    (hn : fnorm doc.kids = true) (hv : S.checkNode doc = true) (ha : attrsOk S doc = true)
    (h1 : S.apply (.attr pos name value) doc = .ok doc')
    (hi : S.invert (.attr pos name value) doc = .ok inv) : S.apply inv doc' = .ok doc := by
  suffices h : ∃ doc'', S.apply inv doc' = .ok doc'' by
    obtain ⟨doc'', h2⟩ := h
    rw [h2, attr_undo_partial S doc doc' doc'' pos name value inv hn hv ha h1 hi h2]
  obtain ⟨n, u1, hn1, hu1, hr1⟩ := apply_attr_parts S doc doc' pos name value h1
  have hnt := (recreate_spec S n u1 _ _ hu1).1
  obtain ⟨hcan, hcomp⟩ := node_facts S doc n pos hv ha hn1 hnt
  obtain ⟨ty, a, m, K, K', rfl, _, _⟩ := fromReplace_elem S doc doc' _ _ _ hr1
  simp only [Node.kids] at hn
  obtain ⟨rfl, hv', hn', hat2, _, hnt2, a1, hca1, e1, e2, e3⟩ :=
    after_nodeStep S ty a m K doc' n u1 pos _ _ hn hv hn1 hcan hu1 hr1
  rw [invert_attr_eq S _ n pos name value hn1] at hi
  obtain ⟨v, hvv, hund⟩ := invert_attr_value _ n.attrs name value hcomp
  rw [hvv] at hi
  simp only [Except.ok.injEq] at hi
  subst hi
  have hc2 := hund a1 hca1
  rw [← e1, ← e2] at hc2
  obtain ⟨u2, hu2⟩ := recreate_total S (u1.withKids n.kids) _ _ (u1.withKids n.kids).marks hnt2 hc2
  exact ⟨_, attrStep_applies S ty a m _ pos name v _ u2 hv' hn' hat2 hu2⟩

/-- **exact undo of node-mark steps that displace at most one mark: the inverse applies and restores
    the document** (hypotheses of `nodeMark_undo_partial` minus "the inverse applies") -/
theorem nodeMark_undo (S : Schema) (doc doc' : Node) (pos : Nat) (m : Mark) (inv : Step) (add : Bool)
    (hn : fnorm doc.kids = true) (hv : S.checkNode doc = true) (ha : attrsOk S doc = true)
    (h1 : S.apply (if add then .addNodeMark pos m else .removeNodeMark pos m) doc = .ok doc')
    (hi : S.invert (if add then .addNodeMark pos m else .removeNodeMark pos m) doc = .ok inv)
    (hdis : ∀ n, doc.nodeAt pos = .ok (some n) → add = true → n.marks.length ≤ (m.addToSet S n.marks).length)
    (hty : ∀ n, doc.nodeAt pos = .ok (some n) → ∀ x ∈ n.marks, ∀ y ∈ n.marks, x.ty = y.ty → x = y)
    (hsym : ∀ n, doc.nodeAt pos = .ok (some n) → add = true →
      ∀ x ∈ n.marks, S.excludes m.ty x.ty = true → S.excludes x.ty m.ty = true) :
    S.apply inv doc' = .ok doc := by
  suffices h : ∃ doc'', S.apply inv doc' = .ok doc'' by
    obtain ⟨doc'', h2⟩ := h
    rw [h2, nodeMark_undo_partial S doc doc' doc'' pos m inv add hn hv ha h1 hi hdis hty hsym h2]
  -- the forward step, whichever it is: node `n`, new mark set `marks1` (canonical)
  have fwd : ∃ n u1 marks1, doc.nodeAt pos = .ok (some n) ∧ canonicalMarks S marks1 = true ∧
      S.recreate n n.attrs marks1 = .ok u1 ∧
      S.fromReplace doc pos (pos + 1) ⟨[u1], 0, if n.isLeaf then 0 else 1⟩ = .ok doc' ∧
      marks1 = (if add then m.addToSet S n.marks else m.removeFromSet n.marks) := by
    cases add with
    | true =>
      simp only [if_true] at h1
      obtain ⟨n, u1, hn1, hu1, hr1⟩ := apply_addNodeMark_parts S doc doc' pos m h1
      have hnv := nodeAtKids_valid S doc.kids pos n (checkNode_kids hv) hn1
      exact ⟨n, u1, _, hn1, addToSet_canonical S m _ (Node.marks_canonical hnv), hu1, hr1, rfl⟩
    | false =>
      simp only [Bool.false_eq_true, if_false] at h1
      obtain ⟨n, u1, hn1, hu1, hr1⟩ := apply_removeNodeMark_parts S doc doc' pos m h1
      have hnv := nodeAtKids_valid S doc.kids pos n (checkNode_kids hv) hn1
      exact ⟨n, u1, _, hn1, removeFromSet_canonical S m _ (Node.marks_canonical hnv), hu1, hr1, rfl⟩
  obtain ⟨n, u1, marks1, hn1, hc1, hu1, hr1, hm1⟩ := fwd
  have hnt := (recreate_spec S n u1 _ _ hu1).1
  obtain ⟨hcan, hcomp⟩ := node_facts S doc n pos hv ha hn1 hnt
  have hcanP := (canonicalMarks_iff_canonP S n.marks).1 hcan
  obtain ⟨ty, a, mk, K, K', rfl, _, _⟩ := fromReplace_elem S doc doc' _ _ _ hr1
  simp only [Node.kids] at hn
  obtain ⟨rfl, hv', hn', hat2, hpar, hnt2, a1, hca1, e1, e2, e3⟩ :=
    after_nodeStep S ty a mk K doc' n u1 pos _ _ hn hv hn1 hc1 hu1 hr1
  rw [hcomp] at hca1
  have ha1 : a1 = n.attrs := (Except.ok.inj hca1).symm
  rw [setFrom_idem_of_canonical S _ hc1] at e3
  -- the node after the step re-creates with its own attributes
  have hrec : ∀ marks2, ∃ u2, S.recreate (u1.withKids n.kids) (u1.withKids n.kids).attrs marks2 = .ok u2 := by
    intro marks2
    exact recreate_total S _ _ n.attrs marks2 hnt2 (by rw [e1, e2, ha1]; exact hcomp)
  -- the parent allows the original mark set
  have hd0 := hv
  simp only [checkNode_elem, Schema.validContent, Bool.and_eq_true] at hd0
  have hal := parent_allows S K pos n ty hd0.1.1.2 hd0.2 hn1
  -- an inverse that is an add-node-mark step re-creating the original set applies
  have addBack : ∀ x : Mark, x.addToSet S (u1.withKids n.kids).marks = n.marks →
      ∃ doc'', S.apply (.addNodeMark pos x) (.elem ty a mk (remarkAt K pos u1)) = .ok doc'' := by
    intro x hx
    obtain ⟨u2, hu2⟩ := hrec (x.addToSet S (u1.withKids n.kids).marks)
    have := addNodeMark_applies_iff S ty a mk _ pos x _ u2 hv' hn' hat2 hu2
    rw [hpar, hx, if_pos hal] at this
    exact ⟨_, this⟩
  have remBack : ∀ x : Mark,
      ∃ doc'', S.apply (.removeNodeMark pos x) (.elem ty a mk (remarkAt K pos u1)) = .ok doc'' := by
    intro x
    obtain ⟨u2, hu2⟩ := hrec (x.removeFromSet (u1.withKids n.kids).marks)
    exact ⟨_, removeNodeMark_applies S ty a mk _ pos x _ u2 hv' hn' hat2 hu2⟩
  have hn1' : (Node.elem ty a mk K).nodeAt pos = .ok (some n) := hn1
  cases add with
  | true =>
    simp only [if_true] at hi hm1
    rw [hm1] at e3
    simp only [Schema.invert, hn1'] at hi
    split at hi
    · rename_i hlen
      split at hi
      · rename_i x hx
        simp only [Except.ok.injEq] at hi; subst hi
        apply addBack x
        rw [e3]
        have hxm : x ∈ n.marks := List.mem_of_find?_eq_some hx
        exact add_displaced_eq S n.marks m x hcanP hlen hx
          (fun o ho e => hty n hn1 o ho x hxm e) (hsym n hn1 rfl)
      · rename_i hx
        simp only [Except.ok.injEq] at hi; subst hi
        apply addBack m
        have hsame := add_same_length_none S n.marks m hlen hx
        rw [e3, hsame, hsame]
    · simp only [Except.ok.injEq] at hi; subst hi
      exact remBack m
  | false =>
    simp only [Bool.false_eq_true, if_false] at hi hm1
    rw [hm1] at e3
    simp only [Schema.invert, hn1'] at hi
    split at hi
    · rename_i hin
      simp only [Except.ok.injEq] at hi; subst hi
      apply addBack m
      rw [e3]
      have hmm : m ∈ n.marks := (isInSet_iff m _).mp hin
      exact add_remove_eq S n.marks m hcanP hmm (fun o ho e => hty n hn1 o ho m hmm e)
    · simp only [Except.ok.injEq] at hi; subst hi
      exact remBack m

/-! ## The history clause: "applying the inverted steps in reverse order restores a document equal to
   the starting one" (work package `wk-histundo`)

`Tr.undo` (Proofs/HistoryUndo.lean) inverts the recorded steps against their recorded documents and
applies the inverses last to first, starting from the current document — the loop of the
`history-undo` oracle of harness/props/c04.py. -/

/-- what `replay` records, position by position -/
theorem replay_get (S : Schema) : ∀ (steps : List Step) (d0 : Node) (docs : List Node) (fin : Node),
    replay S d0 steps = some (docs, fin) →
    steps.length = docs.length ∧ (docs[0]?).getD fin = d0 ∧
    ∀ k (hk : k < steps.length), ∃ d, docs[k]? = some d ∧
      S.apply steps[k] d = .ok ((docs[k + 1]?).getD fin)
  | [], d0, docs, fin, h => by
    simp only [replay, Option.some.injEq, Prod.mk.injEq] at h
    obtain ⟨rfl, rfl⟩ := h
    exact ⟨rfl, rfl, fun k hk => by simp at hk⟩
  | s :: steps, d0, docs, fin, h => by
    simp only [replay] at h
    cases ha : S.apply s d0 with
    | error e => simp [ha] at h
    | ok d1 =>
      simp only [ha] at h
      cases hr : replay S d1 steps with
      | none => simp [hr] at h
      | some p =>
        obtain ⟨ds, fin1⟩ := p
        simp only [hr, Option.map_some, Option.some.injEq, Prod.mk.injEq] at h
        obtain ⟨rfl, rfl⟩ := h
        obtain ⟨h1, h2, h3⟩ := replay_get S steps d1 ds fin1 hr
        refine ⟨by simp [h1], rfl, fun k hk => ?_⟩
        cases k with
        | zero => exact ⟨d0, rfl, by simpa [h2] using ha⟩
        | succ k =>
          obtain ⟨d, hd, hk'⟩ := h3 k (by simpa using hk)
          exact ⟨d, by simpa using hd, by simpa using hk'⟩

/-- **composition, over a replayed history**: if every recorded step — applied to its recorded
    document, giving the next recorded document — is undone exactly by its inverse (the inverse
    computed against the recorded document applies to the next one and gives the recorded document
    back), then applying the inverted steps in reverse order to the final document restores the
    starting document. -/
theorem history_undo_of_replay (S : Schema) (d0 : Node) (steps : List Step) (docs : List Node) (fin : Node)
    (hrep : replay S d0 steps = some (docs, fin))
    (hall : ∀ k (hk : k < steps.length), ∀ d, docs[k]? = some d →
      S.apply steps[k] d = .ok ((docs[k + 1]?).getD fin) →
      StepUndoes S steps[k] d ((docs[k + 1]?).getD fin)) :
    S.unwind (steps.zip docs) fin = .ok d0 := by
  obtain ⟨hlen, h0, hk⟩ := replay_get S steps d0 docs fin hrep
  have hrc := replayChain_zip S steps docs fin hlen hk
  have := unwind_of_invariant S (fun _ => True)
    (fun s d d' => S.apply s d = .ok d' → StepUndoes S s d d')
    (fun s d d' _ ha hg => ⟨hg ha, trivial⟩) (steps.zip docs) fin trivial hrc
    (histAll_of_get _ _ _ (fun k hk' ha => by
      have hks : k < steps.length := by simp [List.length_zip] at hk'; omega
      have hkd : k < docs.length := by omega
      rw [histNext_zip_drop steps docs fin (k + 1) hlen] at ha ⊢
      simp only [List.getElem_zip] at ha ⊢
      exact hall k hks docs[k] (List.getElem?_eq_getElem hkd) ha))
  rw [this]
  have := histNext_zip_drop steps docs fin 0 hlen
  simp only [List.drop_zero] at this
  rw [this, h0]

/-- **Target: the history clause as a composition theorem** (`history_inv`'s structure: any finite
    sequence of attempted steps run through `Transform.maybe_step`).  If every *recorded* step `s_k`,
    applied to the recorded document `docs_k` and giving `docs_{k+1}` (the current document for the
    last one), satisfies "`invert s_k docs_k = ok inv_k` and `apply inv_k docs_{k+1} = ok docs_k`",
    then the inverted steps applied in reverse order to the final document restore the starting
    document.  The single-step theorems of this file (`replace_undo`, `replaceAround_undo`,
    `attr_undo`, `nodeMark_undo`, and `removeMarkStep_undo` / `addMarkStep_undo` below) discharge
    the hypothesis step by step. -/
theorem history_undo_of_steps (S : Schema) (doc : Node) (sts : List Step) :
    let tr := (Tr.init doc).run S sts
    (∀ k (hk : k < tr.steps.length), ∀ d, tr.docs[k]? = some d →
      S.apply tr.steps[k] d = .ok (tr.docAfter k) → StepUndoes S tr.steps[k] d (tr.docAfter k)) →
    tr.undo S = .ok doc := by
  intro tr hall
  obtain ⟨_, _, _, _, hrep⟩ := history_inv S doc sts
  exact history_undo_of_replay S doc tr.steps tr.docs tr.doc hrep hall

/-! ### Range mark steps: `AddMarkStep` / `RemoveMarkStep` (work package `wk-histundo`)

`RemoveMarkStep.invert` is `AddMarkStep` with the same range and mark and vice versa, whatever the
document.  That naive inverse does not undo every step (a `RemoveMarkStep` over a node that never
carried the mark is undone by *adding* the mark; an `AddMarkStep` that displaces a mark loses it …).
The exact condition, token by token, are the guards `removeMarkUndoable` / `addMarkUndoable` of
PM/MarkUndoGuard.lean (tied to the real code: guard = "the real inverse restores", request
`markUndoGuards`):

* remove, then add: an inline *atom* starting in `[f, t)` whose parent allows the mark type must
  satisfy `m.addToSet (m.removeFromSet marks) = marks` — it carried `m`, `m` sits where `add_to_set`
  puts it, and nothing kept excludes or is excluded by `m`; any other inline node starting in the range
  (an inline node with content, or one whose parent does not allow the mark type) must not carry `m`,
  because the add step will not give it back;
* add, then remove: an inline atom whose parent allows the type must satisfy
  `m.removeFromSet (m.addToSet marks) = marks` — it did not carry `m` and `m` displaced nothing (a mark
  that *blocks* `m` is harmless: then neither step does anything); any other inline node must not
  carry `m`, because the remove step strips it.

`Transform.add_mark` / `remove_mark` emit only steps that satisfy their guard
(`planRemoveMark_steps_exact`, `planAddMark_steps_exact`), with two exceptions that are carried as
explicit guards: an inline node *with content* in the range (`flatInline`; no bundled schema has
one), and — finding `C04-same-type-mark-order` — an inline node carrying two marks of the removed
mark's type (`sameTypeFree`, `markStep_undo_needs_guard`). -/

/-- **exact undo of a `RemoveMarkStep`**: valid normal-form document, `TextLoop` schema, the step
    applies, guard `removeMarkUndoable`; `ha`: the two ends do not split a surrogate pair of `doc'`.
    Then the inverse (`AddMarkStep(f, t, m)`) applies to `doc'` and gives back `doc`. -/
theorem removeMarkStep_undo (S : Schema) (hts : TextLoop S) (doc doc' : Node) (f t : Nat) (m : Mark)
    (hd : S.checkNode doc = true) (hn : fnorm doc.kids = true)
    (h1 : S.apply (.removeMark f t m) doc = .ok doc')
    (hg : removeMarkUndoable S doc f t m = true)
    (ha : alignedAt doc'.kids f = true ∧ alignedAt doc'.kids t = true) :
    S.invert (.removeMark f t m) doc = .ok (.addMark f t m) ∧ S.apply (.addMark f t m) doc' = .ok doc := by
  obtain ⟨inv, hi, h2⟩ := removeMark_stepUndoes S hts doc doc' f t m hd hn h1 hg ha
  simp only [Schema.invert, Except.ok.injEq] at hi
  subst hi
  exact ⟨rfl, h2⟩

/-- the guard is exact: whenever the inverse applies, it restores the document iff the guard holds -/
theorem removeMarkStep_undo_iff (S : Schema) (doc doc' doc'' : Node) (f t : Nat) (m : Mark)
    (hn : fnorm doc.kids = true)
    (h1 : S.apply (.removeMark f t m) doc = .ok doc') (h2 : S.apply (.addMark f t m) doc' = .ok doc'') :
    doc'' = doc ↔ removeMarkUndoable S doc f t m = true :=
  removeMark_restore_iff S doc doc' doc'' f t m hn h1 h2

/-- **exact undo of an `AddMarkStep`** -/
theorem addMarkStep_undo (S : Schema) (hts : TextLoop S) (doc doc' : Node) (f t : Nat) (m : Mark)
    (hd : S.checkNode doc = true) (hn : fnorm doc.kids = true)
    (h1 : S.apply (.addMark f t m) doc = .ok doc')
    (hg : addMarkUndoable S doc f t m = true)
    (ha : alignedAt doc'.kids f = true ∧ alignedAt doc'.kids t = true) :
    S.invert (.addMark f t m) doc = .ok (.removeMark f t m) ∧ S.apply (.removeMark f t m) doc' = .ok doc := by
  obtain ⟨inv, hi, h2⟩ := addMark_stepUndoes S hts doc doc' f t m hd hn h1 hg ha
  simp only [Schema.invert, Except.ok.injEq] at hi
  subst hi
  exact ⟨rfl, h2⟩

theorem addMarkStep_undo_iff (S : Schema) (doc doc' doc'' : Node) (f t : Nat) (m : Mark)
    (hn : fnorm doc.kids = true)
    (h1 : S.apply (.addMark f t m) doc = .ok doc') (h2 : S.apply (.removeMark f t m) doc' = .ok doc'') :
    doc'' = doc ↔ addMarkUndoable S doc f t m = true :=
  addMark_restore_iff S doc doc' doc'' f t m hn h1 h2

/-- the guard of `removeMarkStep_undo` in plain words (sufficient): in a valid document, every inline
    node starting in `[f, t)` is an atom, carries `m`, and carries no other mark of `m`'s type -/
theorem removeMarkUndoable_of_carried (S : Schema) (doc : Node) (f t : Nat) (m : Mark)
    (hv : S.checkNode doc = true)
    (h : ∀ i, i < (ftoks doc.kids).length → f ≤ i → i < t → isInlineTok S (tokD doc i) = true →
      isAtomTok S (tokD doc i) = true ∧ m ∈ (tokD doc i).marks ∧
        ∀ o ∈ (tokD doc i).marks, o.ty = m.ty → o = m) :
    removeMarkUndoable S doc f t m = true := by
  rw [removeMarkUndoable_iff]
  intro i hi h1 h2
  unfold removeUndoTok
  rw [tokInline_eq, tokAtom_eq, tokMarks_eq]
  by_cases hin : isInlineTok S (tokD doc i) = true
  · obtain ⟨hat, hm, hty⟩ := h i hi h1 h2 hin
    obtain ⟨hc, hal⟩ := valid_tok S doc hv i hi
    simp [hin, hat, hal m hm, add_remove_eq S _ m hc hm hty]
  · simp [hin]

/-- the guard of `addMarkStep_undo` in plain words (sufficient): no inline node starting in `[f, t)`
    carries `m`, and `m` excludes none of the marks of the atoms it is added to -/
theorem addMarkUndoable_of_fresh (S : Schema) (doc : Node) (f t : Nat) (m : Mark)
    (h : ∀ i, i < (ftoks doc.kids).length → f ≤ i → i < t → isInlineTok S (tokD doc i) = true →
      m ∉ (tokD doc i).marks ∧ ∀ o ∈ (tokD doc i).marks, S.excludes m.ty o.ty = false) :
    addMarkUndoable S doc f t m = true := by
  rw [addMarkUndoable_iff]
  intro i hi h1 h2
  unfold addUndoTok
  rw [tokInline_eq, tokAtom_eq, tokMarks_eq]
  by_cases hin : isInlineTok S (tokD doc i) = true
  · obtain ⟨hm, hex⟩ := h i hi h1 h2 hin
    have key : m.removeFromSet (m.addToSet S (tokD doc i).marks) = (tokD doc i).marks := by
      rw [addToSet_eq]
      split
      · exact (removeFromSet_eq_self_iff m _).mpr hm
      · have hf : (tokD doc i).marks.filter (fun o => !S.excludes m.ty o.ty) = (tokD doc i).marks :=
          List.filter_eq_self.mpr (fun o ho => by simp [hex o ho])
        rw [hf]
        exact filter_ne_insertByRank m _ hm
    have hm' : m.isInSet (tokD doc i).marks = false := by
      rw [← Bool.not_eq_true, PM.isInSet_iff]; exact hm
    simp [hin, key, hm']
  · simp [hin]

/-- **`Transform.remove_mark` emits only steps whose naive inverse is exact.**  If the operation goes
    through on a valid document without inline nodes that have content, the history grows by the planned
    steps paired with the documents they were applied to, and every such pair `(RemoveMarkStep(a, b, x), d)`
    satisfies: `f ≤ a`, `b ≤ t`, and — unless some inline node starting in `[a, b)` carries two marks of
    `x`'s type (`sameTypeFree`) — the guard `removeMarkUndoable S d a b x` of `removeMarkStep_undo`. -/
theorem planRemoveMark_steps_exact (S : Schema) (tr tr' : Tr) (f t : Nat) (sel : MarkSel)
    (hlen : tr.steps.length = tr.docs.length) (hv : S.checkNode tr.doc = true)
    (hflat : flatInline S tr.doc = true) (h : tr.removeMark S f t sel = .ok tr') :
    tr'.hist = tr.hist ++ S.stepsHist (planRemoveMarkSteps S tr.doc f t sel) tr.doc ∧
    HistAll (fun s d _ => ∃ a b x, s = .removeMark a b x ∧ f ≤ a ∧ b ≤ t ∧
        (sameTypeFree S d a b x.ty = true → removeMarkUndoable S d a b x = true))
      (S.stepsHist (planRemoveMarkSteps S tr.doc f t sel) tr.doc) tr'.doc := by
  simp only [Tr.removeMark, planRemoveMark] at h
  split at h
  · rename_i sts hsts
    split at hsts
    · simp at hsts
    · simp only [Except.ok.injEq] at hsts
      subst hsts
      obtain ⟨h1, _, h3⟩ := Tr.stepAll_hist S _ tr tr' hlen h
      refine ⟨h1, histAll_stepsHist S _ _ [] tr.doc tr.doc tr'.doc rfl h3 (fun k hk d d' hd _ => ?_)⟩
      simp only [List.nil_append] at hd
      exact planRemoveMark_steps_guard S tr.doc f t sel hv hflat k hk d hd
  · simp at h

/-- **`Transform.add_mark` emits only steps whose naive inverse is exact**: the recorded steps are
    first `RemoveMarkStep(a, b, x)` for displaced marks `x` — each satisfying `removeMarkUndoable` for
    the document it is applied to, under the same-type guard — then `AddMarkStep(a, b, m)`, each
    satisfying `addMarkUndoable` (after the removals the mark displaces nothing, and it is added only
    over nodes that did not carry it). -/
theorem planAddMark_steps_exact (S : Schema) (tr tr' : Tr) (f t : Nat) (m : Mark)
    (hlen : tr.steps.length = tr.docs.length) (hv : S.checkNode tr.doc = true)
    (hflat : flatInline S tr.doc = true) (h : tr.addMark S f t m = .ok tr') :
    tr'.hist = tr.hist ++ S.stepsHist (planAddMarkSteps S tr.doc f t m) tr.doc ∧
    HistAll (fun s d _ =>
        (∃ a b x, s = .removeMark a b x ∧ f ≤ a ∧ b ≤ t ∧
          (sameTypeFree S d a b x.ty = true → removeMarkUndoable S d a b x = true)) ∨
        (∃ a b, s = .addMark a b m ∧ f ≤ a ∧ b ≤ t ∧ addMarkUndoable S d a b m = true))
      (S.stepsHist (planAddMarkSteps S tr.doc f t m) tr.doc) tr'.doc := by
  simp only [Tr.addMark, planAddMark] at h
  split at h
  · rename_i sts hsts
    split at hsts
    · simp at hsts
    · simp only [Except.ok.injEq] at hsts
      subst hsts
      obtain ⟨h1, _, h3⟩ := Tr.stepAll_hist S _ tr tr' hlen h
      refine ⟨h1, histAll_stepsHist S _ _ [] tr.doc tr.doc tr'.doc rfl h3 (fun k hk d d' hd _ => ?_)⟩
      simp only [List.nil_append] at hd
      exact planAddMark_steps_guard S tr.doc f t m hv hflat k hk d hd
  · simp at h

/-- **a history of `add_mark` / `remove_mark` operations is undone exactly by its inverted steps in
    reverse order.**  `S` with `TextLoop`; `doc` valid, in normal form, without inline nodes that have
    content; `ops` any list of `add_mark(f, t, mark)` / `remove_mark(f, t, mark | type | None)` calls
    that all went through (`Tr.markOps`).  Two families of hypotheses over the recorded history
    (`tr'.hist` = recorded steps paired with their recorded documents):
    `hty` — the guard of finding C04-same-type-mark-order: for every recorded `RemoveMarkStep(a, b, x)`
    no inline node starting in `[a, b)` of its recorded document carries two marks of `x`'s type
    (automatic when the mark types exclude themselves: `sameTypeFree_of_selfExcluding`);
    `hal` — the pair-alignment proviso of every step's inverse (automatic for text without surrogate
    pairs: `markHistory_undo_bmp`). -/
theorem markHistory_undo (S : Schema) (hts : TextLoop S) (doc : Node) (ops : List MarkOp) (tr' : Tr)
    (hd : S.checkNode doc = true) (hn : fnorm doc.kids = true) (hflat : flatInline S doc = true)
    (h : (Tr.init doc).markOps S ops = .ok tr')
    (hty : HistAll (fun s d _ => s.sameTypeGuard S d) tr'.hist tr'.doc)
    (hal : HistAll (fun s _ d' => s.undoAligned d') tr'.hist tr'.doc) :
    tr'.undo S = .ok doc :=
  markOps_undo S hts doc ops tr' ⟨hd, hn, hflat⟩ h hty hal

theorem markHistory_undo_bmp (S : Schema) (hts : TextLoop S) (doc : Node) (ops : List MarkOp) (tr' : Tr)
    (hd : S.checkNode doc = true) (hn : fnorm doc.kids = true) (hflat : flatInline S doc = true)
    (hb : bmpDoc doc = true)
    (h : (Tr.init doc).markOps S ops = .ok tr')
    (hty : HistAll (fun s d _ => s.sameTypeGuard S d) tr'.hist tr'.doc) :
    tr'.undo S = .ok doc :=
  markOps_undo_bmp S hts doc ops tr' ⟨hd, hn, hflat⟩ hb h hty

/-- the same-type guard is automatic where the mark types exclude themselves (ProseMirror's default
    for a mark spec without `excludes`; of the bundled family only `marks-x` has a type that does not:
    `comment`): a valid document then has no node with two marks of one declared type -/
theorem sameTypeGuard_of_selfExcluding (S : Schema) (hse : selfExcluding S = true) (d : Node)
    (hv : S.checkNode d = true) (a b : Nat) (x : Mark) (hx : x.ty < S.marks.size) :
    (Step.removeMark a b x).sameTypeGuard S d :=
  sameTypeFree_of_selfExcluding S hse d hv a b x.ty hx

/-! The same-type guard cannot be dropped (finding `C04-same-type-mark-order`).  Schema `doc: para*`,
    `para: text*` (all marks), one mark type `comment` that does not exclude itself; the text of
    `doc(p("ab"))` carries `[comment{id:1}, comment{id:2}]` (a valid, canonical set).
    `RemoveMarkStep(1, 3, comment{id:1})` applies; its inverse `AddMarkStep(1, 3, comment{id:1})` applies
    too, but `add_to_set` puts the mark *behind* the other mark of its type: the result carries
    `[comment{id:2}, comment{id:1}]`, which is not the document we started from (`Mark.same_set` is
    order-sensitive).  Every other hypothesis of `removeMarkStep_undo` / `markHistory_undo` holds. -/
section NeedsSameType
private def cxS : Schema :=
  { nodes := #[
      { name := "doc", isText := false, isInline := false, isLeaf := false, isAtom := false,
        inlineContent := false, isolating := false, defining := false, code := false,
        dfa := #[⟨true, [(1, 0)]⟩], markSet := some [], attrs := [] },
      { name := "para", isText := false, isInline := false, isLeaf := false, isAtom := false,
        inlineContent := true, isolating := false, defining := false, code := false,
        dfa := #[⟨true, [(2, 0)]⟩], markSet := none, attrs := [] },
      { name := "text", isText := true, isInline := true, isLeaf := true, isAtom := true,
        inlineContent := false, isolating := false, defining := false, code := false,
        dfa := #[⟨true, []⟩], markSet := some [], attrs := [] }],
    marks := #[{ name := "comment", excluded := [], inclusive := true, attrs := [] }], top := 0, textTy := 2 }

private def cxM1 : Mark := ⟨0, [("id", "1")]⟩
private def cxM2 : Mark := ⟨0, [("id", "2")]⟩
private def cxKids : List Node := [.elem 1 [] [] [.text [97, 98] [cxM1, cxM2]]]

private theorem cx_loop : TextLoop cxS := by
  intro t q q1 h
  match t, q with
  | 0, 0 => simp [Schema.dfa, Schema.nodeType, cxS, Dfa.matchType, Dfa.edgesOf] at h
  | 1, 0 =>
    have : q1 = 0 := by
      simp [Schema.dfa, Schema.nodeType, cxS, Dfa.matchType, Dfa.edgesOf] at h; omega
    subst this; exact h
  | 2, 0 => simp [Schema.dfa, Schema.nodeType, cxS, Dfa.matchType, Dfa.edgesOf] at h
  | 0, q + 1 => simp [Schema.dfa, Schema.nodeType, cxS, Dfa.matchType, Dfa.edgesOf] at h
  | 1, q + 1 => simp [Schema.dfa, Schema.nodeType, cxS, Dfa.matchType, Dfa.edgesOf] at h
  | 2, q + 1 => simp [Schema.dfa, Schema.nodeType, cxS, Dfa.matchType, Dfa.edgesOf] at h
  | t + 3, q =>
    have : (cxS.dfa (t + 3)) = #[] := by
      simp [Schema.dfa, Schema.nodeType, cxS]
      rfl
    rw [this] at h
    simp [Dfa.matchType, Dfa.edgesOf] at h

/-- **the same-type guard is needed**: a valid, normal-form, flat document under a `TextLoop` schema
    and a `RemoveMarkStep` that applies, whose inverse applies as well (pair-alignment holds) — but
    `sameTypeFree` fails, `removeMarkUndoable` fails, and the inverse does not give the document back -/
theorem markStep_undo_needs_guard :
    ∃ (S : Schema) (doc doc' : Node) (f t : Nat) (m : Mark),
      TextLoop S ∧ S.checkNode doc = true ∧ fnorm doc.kids = true ∧ flatInline S doc = true ∧
      S.apply (.removeMark f t m) doc = .ok doc' ∧
      (alignedAt doc'.kids f = true ∧ alignedAt doc'.kids t = true) ∧
      sameTypeFree S doc f t m.ty = false ∧ removeMarkUndoable S doc f t m = false ∧
      ∃ doc'', S.apply (.addMark f t m) doc' = .ok doc'' ∧ doc'' ≠ doc := by
  have hv : cxS.checkNode (.elem 0 [] [] cxKids) = true := by decide
  have hn : fnorm cxKids = true := by
    simp [cxKids, fnorm, fnormKids, Node.norm, chainOk]
  have hb : bmpDoc (.elem 0 [] [] cxKids) = true := by decide
  obtain ⟨doc', h1⟩ := PM.removeMark_applies cxS cx_loop 0 [] [] cxKids 1 3 cxM1 hv hn (by omega)
    (by simp [cxKids]) (alignedAt_of_bmp _ _ hb) (alignedAt_of_bmp _ _ hb)
  have hal := (bmp_step cxS _ _ doc' (.inl ⟨1, 3, cxM1, rfl⟩) hb h1).2
  have hg : removeMarkUndoable cxS (.elem 0 [] [] cxKids) 1 3 cxM1 = false := by decide
  obtain ⟨doc'', h2⟩ := removeMark_inverse_applies cxS cx_loop _ doc' 1 3 cxM1 hv hn h1 hal
  refine ⟨cxS, _, doc', 1, 3, cxM1, cx_loop, hv, hn, by decide, h1, hal, by decide, hg, doc'', h2, ?_⟩
  intro e
  have := (removeMark_restore_iff cxS (.elem 0 [] [] cxKids) doc' doc'' 1 3 cxM1 hn h1 h2).mp e
  rw [hg] at this
  cases this
/-- the hypotheses of `removeMarkStep_undo` are satisfiable together: with a single `comment` mark on
    the text, `RemoveMarkStep(1, 3, comment{id:1})` applies and its inverse restores the document -/
example : ∃ doc', cxS.apply (.removeMark 1 3 cxM1) (.elem 0 [] [] [.elem 1 [] [] [.text [97, 98] [cxM1]]]) = .ok doc' ∧
    cxS.apply (.addMark 1 3 cxM1) doc' = .ok (.elem 0 [] [] [.elem 1 [] [] [.text [97, 98] [cxM1]]]) := by
  have hv : cxS.checkNode (.elem 0 [] [] [.elem 1 [] [] [.text [97, 98] [cxM1]]]) = true := by decide
  have hn : fnorm [Node.elem 1 [] [] [.text [97, 98] [cxM1]]] = true := by
    simp [fnorm, fnormKids, Node.norm, chainOk]
  have hb : bmpDoc (.elem 0 [] [] [.elem 1 [] [] [.text [97, 98] [cxM1]]]) = true := by decide
  obtain ⟨doc', h1⟩ := PM.removeMark_applies cxS cx_loop 0 [] [] _ 1 3 cxM1 hv hn (by omega)
    (by simp) (alignedAt_of_bmp _ _ hb) (alignedAt_of_bmp _ _ hb)
  have hal := (bmp_step cxS _ _ doc' (.inl ⟨1, 3, cxM1, rfl⟩) hb h1).2
  exact ⟨doc', h1, (removeMarkStep_undo cxS cx_loop _ doc' 1 3 cxM1 hv hn h1 (by decide) hal).2⟩
end NeedsSameType

/-- the hypotheses of `markHistory_undo` on a small instance: the guards are computable -/
example : flatInline cxS (.elem 0 [] [] cxKids) = true ∧ bmpDoc (.elem 0 [] [] cxKids) = true ∧
    selfExcluding cxS = false ∧ sameTypeFree cxS (.elem 0 [] [] cxKids) 1 3 0 = false := by decide

/-! ### The bundled family: a history over all eight step kinds (work package `wk-histundo`)

`family_history_undo` composes the single-step undo theorems of this file along any replayed history,
carrying "valid and in normal form" from document to document (`C01.apply_valid`, `apply_norm`).
What each recorded step has to satisfy besides that is `FamilyGuard` — per step kind, exactly the
hypotheses of its single-step theorem that the invariant does not supply.  The schema hypotheses
`compatTransB S` and `TextLoop S` hold of all nine bundled-family schemas (measured per run:
`coverage.schema_guards` of the evidence). -/

/-- exact undo of a doc-attribute step with the restored document pinned: the document itself
    (strengthens `docAttr_undo`, whose conclusion leaves the attributes open) -/
theorem docAttr_undo_exact (S : Schema) (t : TypeId) (a : Attrs) (m : Marks) (kids : List Node)
    (name value : String) (doc' : Node) (inv : Step)
    (ha : computeAttrs (S.nodeType t).attrs a = .ok a) (hm : setFrom m = m)
    (h1 : S.apply (.docAttr name value) (.elem t a m kids) = .ok doc')
    (hi : S.invert (.docAttr name value) (.elem t a m kids) = .ok inv) :
    S.apply inv doc' = .ok (.elem t a m kids) := by
  simp only [Schema.apply] at h1
  cases hc1 : computeAttrs (S.nodeType t).attrs (a.filter (·.1 != name) ++ [(name, value)]) with
  | error e => simp [hc1, Except.map] at h1
  | ok a1 =>
    simp only [hc1, Except.map, Except.ok.injEq] at h1
    subst h1
    rw [invert_docAttr_eq] at hi
    simp only [Node.attrs] at hi
    obtain ⟨v, hv', hund⟩ := invert_attr_value _ a name value ha
    rw [hv'] at hi
    simp only [Except.ok.injEq] at hi
    subst hi
    have := hund a1 hc1
    simp only [Schema.apply, this, Except.map, hm]

/-- the fit guard holds whenever the inverse gets built at all … -/
theorem invert_ok_of_fits (S : Schema) (d : Node) (f t gf gt : Nat) (sl : Slice) (ins : Nat) (b : Bool)
    (h : gapFitsBack S d f t gf gt = true) : ∃ inv, S.invert (.replaceAround f t gf gt sl ins b) d = .ok inv := by
  unfold gapFitsBack at h
  simp only [Schema.invert]
  cases h1 : d.slice f t with
  | error e => simp [h1] at h
  | ok old =>
    cases h2 : d.slice gf gt with
    | error e => simp [h1, h2] at h
    | ok gap =>
      cases h3 : old.removeBetween (gf - f) (gt - f) with
      | error e => simp [h1, h2, h3] at h
      | ok rem => simp only [h3]; exact ⟨_, rfl⟩

/-- … and is implied by `gapClean` for a step that applied (`replaceAround_undo_structural` as a statement
    about the guard) -/
theorem gapFitsBack_of_clean_apply (S : Schema) (doc doc' : Node) (f t gf gt : Nat) (sl : Slice) (ins : Nat) (b : Bool)
    (hd : S.checkNode doc = true) (hn : fnorm doc.kids = true)
    (hwf : sl.wf = true) (hins : (ins : Int) ≤ sl.size) (hg : f ≤ gf ∧ gf ≤ gt ∧ gt ≤ t)
    (h1 : S.apply (.replaceAround f t gf gt sl ins b) doc = .ok doc')
    (hclean : ∀ old, doc.slice f t = .ok old →
      gapClean old.content none (gf - f + old.openStart) (gt - f + old.openStart) = true) :
    gapFitsBack S doc f t gf gt = true := by
  obtain ⟨inv, hi⟩ := invert_ok_replaceAround S doc doc' f t gf gt sl ins b hn hg h1 hclean
  obtain ⟨gap, inserted, hgap, hgo1, hgo2, _, _⟩ :=
    apply_replaceAround_parts S doc doc' f t gf gt sl ins b h1
  obtain ⟨_, htK, _⟩ := apply_replaceAround_toks S doc doc' f t gf gt sl ins b hwf hins hg h1
  simp only [Schema.invert] at hi
  cases hsl : doc.slice f t with
  | error e => simp [hsl] at hi
  | ok old =>
    simp only [hsl] at hi
    cases hrm : old.removeBetween (gf - f) (gt - f) with
    | error e => simp [hrm] at hi
    | ok rem =>
      exact gapFitsBack_of_clean S doc f t gf gt old rem gap hd hn hg htK hsl hgap ⟨hgo1, hgo2⟩ hrm
        (hclean old hsl)

/-- valid and in normal form -/
def FamilyInv (S : Schema) (d : Node) : Prop := S.checkNode d = true ∧ fnorm d.kids = true

/-- **what a recorded step has to satisfy, by kind** (`d` the document it was applied to, `d'` its result).
    Common to several kinds: `s.undoAligned d'` — the pair-alignment proviso of the inverse.  (That
    `Step.invert` does not raise — oracle `invert-raises` — is no hypothesis: `invert_ok_of_apply`.)
    * replace: the slice is in normal form and a valid payload (`C01.PayloadValid`);
    * replace-around: slice in normal form and well formed, ordered gap, valid payload (`insert ≤ slice.size`
      stood here until `Slice.insert_at` refused an insertion point outside the slice: it follows from "the step
      applied", `C01.insert_le_of_apply`); **`hst`** — when the structure flag is set, the two `content_between` checks of the inverse
      on `d'` find no content (the inverse inherits the flag; finding C04-structure-inverse; for a slice
      with only wrapper tokens beside the insertion point it holds: `replaceAround_hst_of_wrappers`,
      Proofs/UndoStructure.lean); **`undoCutAligned`** — one more pair-alignment proviso, in `d`: `Step.invert` does
      not raise and the inverse can cut the remainder of the old slice where the gap was taken out.  (Until the
      repair of `insert_into` — finding C04-around-text-gap — the fit guard `gapFitsBack` stood here: the gap,
      removed from the old slice, can be put back by `insert_at`.  On a valid normal-form document that *is* this
      proviso now: `gapFitsBack_iff_aligned`; it follows from `gapFitsBack` (`undoCutAligned_of_fits`) and is void
      for a document without text outside the BMP (`undoCutAligned_of_bmp`).)
    * add-mark / remove-mark: the exact guard of the naive inverse (`addMarkUndoable` /
      `removeMarkUndoable`; the planners' steps satisfy it: `planGuard_family`);
    * attr / doc-attr: every node carries its attributes as `compute_attrs` builds them (`attrsOk`); an
      attribute the node's type does not declare is included (the step and its inverse are no-ops);
    * node marks: `attrsOk` and the three guards of `nodeMark_undo` (finding C04-node-mark-inverse). -/
def FamilyGuard (S : Schema) (s : Step) (d d' : Node) : Prop :=
  match s with
  | .replace _ _ sl _ =>
    fnorm sl.content = true ∧ C01.PayloadValid S d s ∧ s.undoAligned d'
  | .replaceAround f t gf gt sl ins b =>
    fnorm sl.content = true ∧ sl.wf = true ∧ (f ≤ gf ∧ gf ≤ gt ∧ gt ≤ t) ∧
    C01.PayloadValid S d s ∧
    (b = true → contentBetween d' f (f + ins) = some false ∧
      contentBetween d' (f + ins + (gt - gf)) (f + sl.size.toNat + (gt - gf)) = some false) ∧
    s.undoCutAligned S d ∧
    s.undoAligned d'
  | .addMark f t m => addMarkUndoable S d f t m = true ∧ s.undoAligned d'
  | .removeMark f t m => removeMarkUndoable S d f t m = true ∧ s.undoAligned d'
  | .attr _ _ _ => attrsOk S d = true
  | .docAttr _ _ => attrsOk S d = true
  | .addNodeMark pos m =>
    attrsOk S d = true ∧
    (∀ n, d.nodeAt pos = .ok (some n) → n.marks.length ≤ (m.addToSet S n.marks).length) ∧
    (∀ n, d.nodeAt pos = .ok (some n) → ∀ x ∈ n.marks, ∀ y ∈ n.marks, x.ty = y.ty → x = y) ∧
    (∀ n, d.nodeAt pos = .ok (some n) → ∀ x ∈ n.marks, S.excludes m.ty x.ty = true → S.excludes x.ty m.ty = true)
  | .removeNodeMark pos _ =>
    attrsOk S d = true ∧
    (∀ n, d.nodeAt pos = .ok (some n) → ∀ x ∈ n.marks, ∀ y ∈ n.marks, x.ty = y.ty → x = y)

/-- a step recorded by `add_mark` / `remove_mark` satisfies its `FamilyGuard`, given the same-type
    guard and the pair-alignment proviso -/
theorem planGuard_family (S : Schema) (s : Step) (d d' : Node) (hp : PlanGuard S s d d')
    (hty : s.sameTypeGuard S d) (hal : s.undoAligned d') : FamilyGuard S s d d' := by
  rcases hp with ⟨a, b, x, rfl, hg⟩ | ⟨a, b, m, rfl, hg⟩
  · exact ⟨hg hty, hal⟩
  · exact ⟨hg, hal⟩

/-- node-markup steps keep the normal form -/
private theorem nodeStep_norm (S : Schema) (d d' n u : Node) (pos : Nat) (attrs : Attrs) (marks : Marks)
    (hn : fnorm d.kids = true) (hu : S.recreate n attrs marks = .ok u)
    (hr : S.fromReplace d pos (pos + 1) ⟨[u], 0, if n.isLeaf then 0 else 1⟩ = .ok d') :
    fnorm d'.kids = true :=
  fromReplace_norm S d d' pos (pos + 1) _ hn (recreate_spec S n u attrs marks hu).2.1 hr

/-- **one recorded step of any kind is undone exactly under its guard, and the invariant is kept** -/
theorem family_step (S : Schema) (htr : compatTransB S = true) (hts : TextLoop S) (s : Step) (d d' : Node)
    (hI : FamilyInv S d) (h : S.apply s d = .ok d') (hg : FamilyGuard S s d d') :
    StepUndoes S s d d' ∧ FamilyInv S d' := by
  obtain ⟨hv, hn⟩ := hI
  cases s with
  | replace f t sl b =>
    obtain ⟨hsn, hp, ha⟩ := hg
    obtain ⟨inv, hi⟩ := invert_ok_replace S d d' f t sl b hn h
    exact ⟨⟨inv, hi, replace_undo_transitive S d d' f t sl b inv htr hv hn hsn h hi ha⟩,
      C01.apply_valid S (.replace f t sl b) d d' hv hp h, apply_norm S (.replace f t sl b) d d' hsn hn h⟩
  | replaceAround f t gf gt sl ins b =>
    obtain ⟨hsn, hwf, hgo, hp, hst, ⟨inv, hi, hra⟩, ha1, ha2, ha3, ha4⟩ := hg
    have hj : sidesCompatibleAround S d f t gf gt sl ins = true := by
      obtain ⟨gap, inserted, hgap, _, _, hinst, hfr1⟩ := apply_replaceAround_parts S d d' f t gf gt sl ins b h
      obtain ⟨ty, a, m, K, K', rfl, rfl, hr1⟩ := fromReplace_elem S d d' f t inserted hfr1
      have := sidesCompatible_of_trans S (compatTrans_of_B S htr) ty a m K K' f t inserted hn hr1
      simpa [sidesCompatibleAround, hgap, hinst] using this
    exact ⟨⟨inv, hi, replaceAround_undo_aligned S d d' f t gf gt sl ins b inv hv hn hsn hwf hgo h hi
        hst hj ⟨ha1, ha3, ha4, ha2⟩ hra⟩,
      C01.apply_valid S (.replaceAround f t gf gt sl ins b) d d' hv hp h,
      apply_norm S (.replaceAround f t gf gt sl ins b) d d' hsn hn h⟩
  | addMark f t m =>
    have k := addMark_keepsAll S d d' f t m h
    exact ⟨addMark_stepUndoes S hts d d' f t m hv hn h hg.1 hg.2, k.valid hts.stable hv, k.norm hn⟩
  | removeMark f t m =>
    have k := removeMark_keepsAll S d d' f t m h
    exact ⟨removeMark_stepUndoes S hts d d' f t m hv hn h hg.1 hg.2, k.valid hts.stable hv, k.norm hn⟩
  | attr pos name value =>
    have ha : attrsOk S d = true := hg
    obtain ⟨inv, hi⟩ := attr_invert_ok S d d' pos name value h
    obtain ⟨n, u, _, hu, hr⟩ := apply_attr_parts S d d' pos name value h
    exact ⟨⟨inv, hi, attr_undo S d d' pos name value inv hn hv ha h hi⟩,
      C01.apply_valid S (.attr pos name value) d d' hv trivial h, nodeStep_norm S d d' n u pos _ _ hn hu hr⟩
  | docAttr name value =>
    have ha : attrsOk S d = true := hg
    cases d with
    | text _ _ => simp [Schema.apply] at h
    | leaf _ _ _ => simp [Schema.apply] at h
    | elem t a m kids =>
      obtain ⟨inv, hi⟩ := docAttr_invert_ok S (.elem t a m kids) name value
      have hca : computeAttrs (S.nodeType t).attrs a = .ok a := by
        have := attrsOk_compute (n := .elem t a m kids) ha rfl
        simpa [Node.headTok, Tok.ty, Node.attrs] using this
      have hv' := hv
      simp only [checkNode_elem, Bool.and_eq_true] at hv'
      have hm : setFrom m = m := setFrom_of_sorted m ((canonicalMarks_iff_canonP S m).1 hv'.1.2).sorted
      refine ⟨⟨inv, hi, docAttr_undo_exact S t a m kids name value d' inv hca hm h hi⟩,
        C01.apply_valid S (.docAttr name value) _ d' hv trivial h, ?_⟩
      simp only [Schema.apply] at h
      cases hc1 : computeAttrs (S.nodeType t).attrs (a.filter (·.1 != name) ++ [(name, value)]) with
      | error e => simp [hc1, Except.map] at h
      | ok a1 =>
        simp only [hc1, Except.map, Except.ok.injEq] at h
        subst h
        exact hn
  | addNodeMark pos m =>
    obtain ⟨ha, hdis, hty, hsym⟩ := hg
    obtain ⟨inv, hi⟩ := invert_ok_addNodeMark S d d' pos m h
    obtain ⟨n, u, _, hu, hr⟩ := apply_addNodeMark_parts S d d' pos m h
    exact ⟨⟨inv, hi, nodeMark_undo S d d' pos m inv true hn hv ha h hi (fun n hn _ => hdis n hn) hty
        (fun n hn _ => hsym n hn)⟩,
      C01.apply_valid S (.addNodeMark pos m) d d' hv trivial h, nodeStep_norm S d d' n u pos _ _ hn hu hr⟩
  | removeNodeMark pos m =>
    obtain ⟨ha, hty⟩ := hg
    obtain ⟨inv, hi⟩ := invert_ok_removeNodeMark S d d' pos m h
    obtain ⟨n, u, _, hu, hr⟩ := apply_removeNodeMark_parts S d d' pos m h
    exact ⟨⟨inv, hi, nodeMark_undo S d d' pos m inv false hn hv ha h hi (fun _ _ hc => by cases hc) hty
        (fun _ _ hc => by cases hc)⟩,
      C01.apply_valid S (.removeNodeMark pos m) d d' hv trivial h, nodeStep_norm S d d' n u pos _ _ hn hu hr⟩

/-- **the inverse of an applied replace-around step restores the document — every guard that can be discharged,
    discharged**: valid normal-form document, normal-form well-formed slice, ordered gap, the
    step applied; schema with transitive `compatible_content` (`compatTransB`: the final replace of the inverse, finding
    C04-nontransitive-join otherwise); no text outside the BMP in the two documents (every pair-alignment proviso,
    `Step.invert` raising included).  Left: `hst`, the structure checks of the inverse when the step carries the
    structure flag (finding C04-structure-inverse).  No fit guard: the gap may lie anywhere (finding
    C04-around-text-gap is repaired). -/
theorem replaceAround_undo_bmp (S : Schema) (htr : compatTransB S = true) (d d' : Node) (f t gf gt : Nat)
    (sl : Slice) (ins : Nat) (b : Bool)
    (hv : S.checkNode d = true) (hn : fnorm d.kids = true) (hsn : fnorm sl.content = true)
    (hwf : sl.wf = true) (hgo : f ≤ gf ∧ gf ≤ gt ∧ gt ≤ t)
    (h : S.apply (.replaceAround f t gf gt sl ins b) d = .ok d')
    (hst : b = true → contentBetween d' f (f + ins) = some false ∧
      contentBetween d' (f + ins + (gt - gf)) (f + sl.size.toNat + (gt - gf)) = some false)
    (hb : bmpDoc d = true) (hb' : bmpDoc d' = true) :
    ∃ inv, S.invert (.replaceAround f t gf gt sl ins b) d = .ok inv ∧ S.apply inv d' = .ok d := by
  obtain ⟨inv, hi, hra⟩ := undoCutAligned_of_bmp S (.replaceAround f t gf gt sl ins b) d d' hn hb h
    (by intro f' t' gf' gt' sl' ins' b' e; cases e; exact hgo)
  have hj : sidesCompatibleAround S d f t gf gt sl ins = true := by
    obtain ⟨gap, inserted, hgap, _, _, hinst, hfr1⟩ := apply_replaceAround_parts S d d' f t gf gt sl ins b h
    obtain ⟨ty, a, m, K, K', rfl, rfl, hr1⟩ := fromReplace_elem S d d' f t inserted hfr1
    have := sidesCompatible_of_trans S (compatTrans_of_B S htr) ty a m K K' f t inserted hn hr1
    simpa [sidesCompatibleAround, hgap, hinst] using this
  have ha := fun p => alignedAt_of_bmp d'.kids p hb'
  exact ⟨inv, hi, replaceAround_undo_aligned S d d' f t gf gt sl ins b inv hv hn hsn hwf hgo h hi hst hj
    ⟨ha _, ha _, ha _, ha _⟩ hra⟩

/-- **the history clause for the bundled family**: schema with transitive `compatible_content`
    (`compatTransB`) and `TextLoop`; `doc` valid and in normal form; any replayed history
    (`replay S doc steps = some (docs, fin)` — every history built through the transform API is one,
    `history_inv`) whose recorded steps satisfy `FamilyGuard`.  Then the inverted steps applied in
    reverse order to the final document restore `doc`, and the final document is again valid and in
    normal form. -/
theorem family_history_undo (S : Schema) (htr : compatTransB S = true) (hts : TextLoop S)
    (doc : Node) (steps : List Step) (docs : List Node) (fin : Node)
    (hd : S.checkNode doc = true) (hn : fnorm doc.kids = true)
    (hrep : replay S doc steps = some (docs, fin))
    (hg : HistAll (FamilyGuard S) (steps.zip docs) fin) :
    S.unwind (steps.zip docs) fin = .ok doc ∧ FamilyInv S fin := by
  obtain ⟨hlen, h0, hk⟩ := replay_get S steps doc docs fin hrep
  have hrc := replayChain_zip S steps docs fin hlen hk
  have hstart : histNext (steps.zip docs) fin = doc := by
    have := histNext_zip_drop steps docs fin 0 hlen
    simp only [List.drop_zero] at this
    rw [this, h0]
  obtain ⟨hc, hfin⟩ := chain_of_invariant S (FamilyInv S) (FamilyGuard S) (family_step S htr hts)
    (steps.zip docs) fin (by rw [hstart]; exact ⟨hd, hn⟩) hrc hg
  exact ⟨by rw [unwind_of_chain S _ fin hc, hstart], hfin⟩

/-- the same over `history_inv`'s structure: any finite sequence of attempted steps -/
theorem family_history_undo_run (S : Schema) (htr : compatTransB S = true) (hts : TextLoop S)
    (doc : Node) (sts : List Step) (hd : S.checkNode doc = true) (hn : fnorm doc.kids = true) :
    let tr := (Tr.init doc).run S sts
    HistAll (FamilyGuard S) tr.hist tr.doc → tr.undo S = .ok doc := by
  intro tr hg
  obtain ⟨_, _, _, _, hrep⟩ := history_inv S doc sts
  exact (family_history_undo S htr hts doc tr.steps tr.docs tr.doc hd hn hrep hg).1

/-- **`Step.invert` does not raise on a step that applied** (oracle `invert-raises`), normal-form document.
    Unconditional for replace, range-mark and node-mark steps.  Replace-around: ordered gap, and the gap is
    non-empty or its position is pair-aligned — an *empty* gap inside a surrogate pair is taken without
    looking by `Node.slice(p, p)`, the forward step applies, and `Slice.remove_between` then has to cut the
    text there and raises (`removeBetween_misaligned_fails`, Proofs/InvertOkAround.lean; on the real code
    `ReplaceAroundStep(1, 3, 2, 2, Slice.empty, 0).invert(doc(p("😀")))` raises `UnicodeDecodeError`).
    Attribute steps: `attrs.get(name)` never raises. -/
theorem invert_ok_of_apply (S : Schema) (s : Step) (d d' : Node) (hn : fnorm d.kids = true)
    (h : S.apply s d = .ok d')
    (hs : match s with
      | .replaceAround f t gf gt _ _ _ => (f ≤ gf ∧ gf ≤ gt ∧ gt ≤ t) ∧ (gf < gt ∨ alignedAt d.kids gf = true)
      | _ => True) :
    ∃ inv, S.invert s d = .ok inv := by
  cases s with
  | replace f t sl b => exact invert_ok_replace S d d' f t sl b hn h
  | replaceAround f t gf gt sl ins b => exact invert_ok_replaceAround_full S d d' f t gf gt sl ins b hn hs.1 hs.2 h
  | addMark f t m => exact ⟨_, rfl⟩
  | removeMark f t m => exact ⟨_, rfl⟩
  | addNodeMark pos m => exact invert_ok_addNodeMark S d d' pos m h
  | removeNodeMark pos m => exact invert_ok_removeNodeMark S d d' pos m h
  | attr pos name value => exact attr_invert_ok S d d' pos name value h
  | docAttr name value => exact docAttr_invert_ok S d name value

/-! ### Histories of *operations* (work package `wk-c04ops`)

The property quantifies over sequences of transform operations.  `Op` / `Tr.runOp` / `Tr.runOps`
(Proofs/OpHistory.lean) compose the step-emitting models of the operations with `Transform.step`.
`opHistory_undo`: any list of operations that all went through is undone exactly, given per operation
`OpResidual` — for the operations whose emitted steps are proved to satisfy `FamilyGuard` only what the
proofs cannot supply (pair-alignment; the same-type guard of finding C04-same-type-mark-order; the
shape of the node range), for the others `FamilyGuard` of the recorded steps (to be discharged by the
`…Guard_family` lemmas below where they apply). -/

/-- what an operation appended to the recorded history -/
def appended (tr tr1 : Tr) : List (Step × Node) := tr1.hist.drop tr.hist.length

/-- `NodeRange(resolve a, resolve b, depth)` is a node range as `block_range` builds it: `from ≤ to`, `to`
    inside the node at the range's depth, both ends at child boundaries of that node -/
def nodeRangeOk (d : Node) (a b depth : Nat) : Prop :=
  ∃ rf rt, d.resolve a = some rf ∧ d.resolve b = some rt ∧ a ≤ b ∧ b ≤ rf.end_ depth ∧
    (depth < rf.depth ∨ rf.textOffset = 0) ∧ (depth < rt.depth ∨ rt.textOffset = 0)

/-- both ends of `NodeRange(resolve a, resolve b, depth)` are child boundaries of the node at `depth` -/
def nodeRangeEnds (d : Node) (a b depth : Nat) : Prop :=
  ∃ rf rt, d.resolve a = some rf ∧ d.resolve b = some rt ∧ a ≤ b ∧
    (depth < rf.depth ∨ rf.textOffset = 0) ∧ (depth < rt.depth ∨ rt.textOffset = 0)

theorem nodeRangeOk.ends {d : Node} {a b depth : Nat} (h : nodeRangeOk d a b depth) : nodeRangeEnds d a b depth := by
  obtain ⟨rf, rt, hf, ht, hab, _, hfb, htb⟩ := h
  exact ⟨rf, rt, hf, ht, hab, hfb, htb⟩

/-- the node condition asked of `set_node_markup(pos, type, attrs, marks)`: a non-leaf node, retyped to a
    non-leaf type (the complement: finding C04-leaf-retype and the Fitter path), canonical mark set -/
def retypeNodeOk (S : Schema) (d : Node) (pos : Nat) (ty : Option TypeId) (marks : Option Marks) : Prop :=
  ∀ node, d.nodeAt pos = .ok (some node) → node.isLeaf = false ∧
    (S.nodeType (ty.getD (S.tyOf node))).isLeaf = false ∧
    canonicalMarks S (setFrom (marksOr marks node)) = true

/-- **what is asked of an operation of a run** (`tr` before, `tr1` after).
    * `add_mark` / `remove_mark`: no inline node with content in the document (`flatInline`; no bundled schema
      has one), the same-type guard (finding C04-same-type-mark-order) and pair-alignment per recorded step;
    * `join`, `split`: pair-alignment;
    * `lift`: both ends of the range at child boundaries of the node at its depth (`nodeRangeEnds`),
      pair-alignment;
    * `wrap`: a node range as `block_range` builds it (`nodeRangeOk`), no wrapper of a leaf type (with one
      `Transform.wrap` goes through and its undo fails: an instance of finding C04-structure-inverse),
      pair-alignment;
    * `set_node_markup` of a non-leaf node to a non-leaf type (the complement is finding C04-leaf-retype
      and the Fitter path) with a canonical mark set: pair-alignment;
    * every other operation: `FamilyGuard` of the steps it recorded — discharged further down for
      `set_block_type` to a plain type (`setBlockType_residual`: same-type guard and pair-alignment left),
      the node-level operations (`nodeOps_residual`: `NodeOpGuard` on the operation's arguments), deletions
      (`delete_residual`) and, in part, `replace` with a non-empty slice (`replace_residual_partial`). -/
def OpResidual (S : Schema) (op : Op) (tr tr1 : Tr) : Prop :=
  match op with
  | .lift a b depth _ => nodeRangeEnds tr.doc a b depth ∧
      HistAll (fun s _ d' => s.undoAligned d') (appended tr tr1) tr1.doc
  | .wrap a b depth ws => nodeRangeOk tr.doc a b depth ∧ (∀ w ∈ ws, (S.nodeType w.1).isLeaf = false) ∧
      HistAll (fun s _ d' => s.undoAligned d') (appended tr tr1) tr1.doc
  | .setNodeMarkup pos ty _ marks => retypeNodeOk S tr.doc pos ty marks ∧
      HistAll (fun s _ d' => s.undoAligned d') (appended tr tr1) tr1.doc
  | .mark _ => flatInline S tr.doc = true ∧
      HistAll (fun s d d' => s.sameTypeGuard S d ∧ s.undoAligned d') (appended tr tr1) tr1.doc
  | .join _ _ => HistAll (fun s _ d' => s.undoAligned d') (appended tr tr1) tr1.doc
  | .split _ _ => HistAll (fun s _ d' => s.undoAligned d') (appended tr tr1) tr1.doc
  | _ => HistAll (FamilyGuard S) (appended tr tr1) tr1.doc

/-- the step `join` emits satisfies its `FamilyGuard`, given pair-alignment -/
theorem joinGuard_family (S : Schema) (d d' : Node) (pos depth : Nat) (st : Step)
    (hb : joinStep pos depth = .ok st) (hal : st.undoAligned d') : FamilyGuard S st d d' := by
  unfold joinStep at hb
  split at hb
  · simp at hb
  · simp only [Except.ok.injEq] at hb
    subst hb
    refine ⟨by simp [Slice.empty, fnorm, chainOk], ?_, hal⟩
    show openValid S 0 0 [] = true
    simp [openValid, rightOpenValid]

/-- the step `split` emits (two copies of the nest of empty ancestors, open on both sides) satisfies its
    `FamilyGuard` on a valid document, given pair-alignment -/
theorem splitGuard_family (S : Schema) (d d' : Node) (pos depth : Nat) (st : Step)
    (hv : S.checkNode d = true) (hb : splitStep d pos depth = .ok st) (h : S.apply st d = .ok d')
    (hal : st.undoAligned d') : FamilyGuard S st d d' := by
  have hdoc : d.isLeaf = false := by
    unfold splitStep at hb
    cases hr : d.resolve pos with
    | none => simp [hr] at hb
    | some r =>
      cases hnn : splitNodes r depth with
      | none => simp [hr, hnn] at hb
      | some nodes =>
        simp only [hr, hnn, Except.ok.injEq] at hb
        subst hb
        cases d with
        | elem => rfl
        | text s m =>
          exfalso
          unfold Schema.apply at h
          simp only [Schema.fromReplace, Schema.replace] at h
          repeat' split at h
          all_goals simp at h
        | leaf ty a m =>
          exfalso
          unfold Schema.apply at h
          simp only [Schema.fromReplace, Schema.replace] at h
          repeat' split at h
          all_goals simp at h
  obtain ⟨sl, rfl, hsn, hp⟩ := split_guard_parts S d pos depth st hv hdoc hb
  exact ⟨hsn, hp, hal⟩

/-- the step `lift` emits satisfies its `FamilyGuard` on a valid normal-form document when both ends of the
    range are child boundaries of the node at the range's depth (`nodeRangeEnds`, as for every range
    `block_range` builds): slice in normal form and well formed, ordered gap, valid payload, the structure
    checks of the inverse (`hst`: the slice carries only the close tokens of the ancestors split before the
    range and the open tokens of those split after it), and `gapClean` (between the step's start and the gap
    the document has only open tokens, between the gap and the step's end only close tokens, so in the old
    slice the gap is a run of whole children with nothing before it at its level).  Pair-alignment left. -/
theorem liftGuard_family (S : Schema) (d d' : Node) (a b depth target : Nat) (st : Step)
    (hv : S.checkNode d = true) (hn : fnorm d.kids = true) (hr : nodeRangeEnds d a b depth)
    (hb : liftStep d a b depth target = .ok st) (h : S.apply st d = .ok d')
    (hal : st.undoAligned d') : FamilyGuard S st d d' := by
  obtain ⟨rf, rt, hf, ht, hab, hfb, htb⟩ := hr
  obtain ⟨f, t, gf, gt, sl, ins, rfl, hsn, hwf, hins, hgo, hshape⟩ :=
    lift_guard_parts S d d' a b depth target st hv hn hab hb h
  have hp := lift_payload_valid S d d' a b depth target _ hv hab hb h f t gf gt sl ins true rfl
  have hclean := lift_gapClean S d d' a b depth target _ rf rt hn hab hf ht hfb htb hb h f t gf gt sl ins true rfl
  exact ⟨hsn, hwf, hgo, hp,
    fun _ => replaceAround_hst_of_wrappers S d d' f t gf gt sl ins true hn hsn hwf hins hgo h hshape,
    undoCutAligned_of_fits S d f t gf gt sl ins true
      (gapFitsBack_of_clean_apply S d d' f t gf gt sl ins true hv hn hwf hins hgo h hclean), hal⟩

/-- the step `wrap` emits satisfies its `FamilyGuard` on a valid normal-form document: node range as
    `block_range` builds it, no wrapper of a leaf type; pair-alignment left.  (Payload: the wrappers with
    the range in place are valid because `insert_at` accepted them; `hst`: the slice is a nest of open
    tokens before the insertion point and close tokens after it; `gapClean`: the gap is the range.) -/
theorem wrapGuard_family (S : Schema) (d d' : Node) (a b depth : Nat) (ws : List (TypeId × Attrs)) (st : Step)
    (hv : S.checkNode d = true) (hn : fnorm d.kids = true) (hr : nodeRangeOk d a b depth)
    (hl : ∀ w ∈ ws, (S.nodeType w.1).isLeaf = false)
    (hb : wrapStep S d a b depth ws = .ok st) (h : S.apply st d = .ok d')
    (hal : st.undoAligned d') : FamilyGuard S st d d' := by
  obtain ⟨rf, rt, hf, ht, hab, hend, hfb, htb⟩ := hr
  obtain ⟨f, t, gf, gt, sl, ins, rfl, hsn, hwf, hins, hgo, hp, hst, hclean⟩ :=
    wrap_guard_parts S d d' a b depth ws st rf rt hv hn hf ht hab hend hfb htb hl hb h
  exact ⟨hsn, hwf, hgo, hp, fun _ => hst,
    undoCutAligned_of_fits S d f t gf gt sl ins true
      (gapFitsBack_of_clean_apply S d d' f t gf gt sl ins true hv hn hwf hins hgo h hclean), hal⟩

/-- the replace-around step `set_node_markup` and `set_block_type` emit for a non-leaf node (`retypeStep`:
    keep the content as the gap, put the new empty node around it) satisfies its `FamilyGuard` on a valid
    normal-form document when the new node is a non-leaf node with a canonical mark set (a leaf: finding
    C04-leaf-retype); pair-alignment left -/
theorem retypeGuard_family (S : Schema) (d d' node nn : Node) (pos : Nat)
    (hv : S.checkNode d = true) (hn : fnorm d.kids = true)
    (hna : d.nodeAt pos = .ok (some node)) (hnl : node.isLeaf = false)
    (hnn : ∃ ty a m, nn = .elem ty a m [] ∧ canonicalMarks S m = true)
    (h : S.apply (retypeStep pos (pos + node.size) nn) d = .ok d')
    (hal : (retypeStep pos (pos + node.size) nn).undoAligned d') :
    FamilyGuard S (retypeStep pos (pos + node.size) nn) d d' := by
  obtain ⟨h1, h2, h3, h4, h5, h6, h7⟩ := retype_guard_parts S d d' node nn pos hv hn hna hnl hnn h
  exact ⟨h1, h2, h4, h5, fun _ => h6,
    undoCutAligned_of_fits S d _ _ _ _ _ 1 true
      (gapFitsBack_of_clean_apply S d d' _ _ _ _ _ 1 true hv hn h2 h3 h4 h h7), hal⟩

/-- what `NodeType.create(attrs, None, marks)` gives for a non-leaf type -/
theorem createNode_elem (S : Schema) (ty : TypeId) (attrs : Attrs) (ms : Marks) (nn : Node)
    (hleaf : (S.nodeType ty).isLeaf = false) (h : S.createNode ty attrs ms = .ok nn) :
    ∃ a, nn = .elem ty a (setFrom ms) [] := by
  unfold Schema.createNode at h
  simp only at h
  split at h
  · simp at h
  · cases hc : computeAttrs (S.nodeType ty).attrs attrs with
    | error e => simp [hc, Except.map] at h
    | ok a =>
      simp only [hc, Except.map, hleaf, Bool.false_eq_true, if_false, Except.ok.injEq] at h
      exact ⟨a, h.symm⟩

/-- **`set_node_markup`**: the step it records for a non-leaf node retyped to a non-leaf type -/
theorem setNodeMarkupGuard_family (S : Schema) (d d' node nn : Node) (pos : Nat) (ty : TypeId) (attrs : Attrs)
    (ms : Marks) (hv : S.checkNode d = true) (hn : fnorm d.kids = true)
    (hna : d.nodeAt pos = .ok (some node)) (hnl : node.isLeaf = false)
    (hleaf : (S.nodeType ty).isLeaf = false) (hms : canonicalMarks S (setFrom ms) = true)
    (hc : S.createNode ty attrs ms = .ok nn)
    (h : S.apply (retypeStep pos (pos + node.size) nn) d = .ok d')
    (hal : (retypeStep pos (pos + node.size) nn).undoAligned d') :
    FamilyGuard S (retypeStep pos (pos + node.size) nn) d d' := by
  obtain ⟨a, rfl⟩ := createNode_elem S ty attrs ms nn hleaf hc
  exact retypeGuard_family S d d' node _ pos hv hn hna hnl ⟨ty, a, _, rfl, hms⟩ h hal

/-- **`set_block_type`**: the replace-around step it records for the textblock `node` at the (mapped) position
    `s`, retyped to the (non-leaf) textblock type `ty` with the node's own marks.  (That the step ends at
    `s + node.size` follows from its having applied: `retype_applied_end`.  "Applied" alone does not give the
    node at `s`: `retypeStep 2 4 X()` applies to `doc(X("a"), X("b"))` — close token, open token — and joins
    the two siblings around the new node; `set_block_type` reads the node before it builds the step.) -/
theorem setBlockTypeGuard_family (S : Schema) (d d' node nn : Node) (s e : Nat) (ty : TypeId) (attrs : Attrs)
    (hv : S.checkNode d = true) (hn : fnorm d.kids = true)
    (hna : d.nodeAt s = .ok (some node)) (hnl : node.isLeaf = false)
    (hleaf : (S.nodeType ty).isLeaf = false) (hms : canonicalMarks S node.marks = true)
    (hc : S.createNode ty attrs node.marks = .ok nn)
    (h : S.apply (retypeStep s e nn) d = .ok d') (hal : (retypeStep s e nn).undoAligned d') :
    FamilyGuard S (retypeStep s e nn) d d' := by
  obtain ⟨a, rfl⟩ := createNode_elem S ty attrs node.marks nn hleaf hc
  have he : e = s + node.size := retype_applied_end S d d' node _ s e hna hnl rfl h
  subst he
  exact retypeGuard_family S d d' node _ s hv hn hna hnl
    ⟨ty, a, _, rfl, by rw [setFrom_idem_of_canonical S _ hms]; exact hms⟩ h hal

/-- **`clear_incompatible`** (called by `set_block_type` before it retypes): the `ReplaceStep`s it collects —
    deleting a child the new type does not take, a space for a newline — satisfy `FamilyGuard`, given
    pair-alignment (`kids` the children of the node as `clear_incompatible` walks them) -/
theorem clearEditsGuard_family (S : Schema) (pty : TypeId) (kids : List Node) (q cur : Nat)
    (hk : S.checkKids kids = true) (st : Step) (d d' : Node)
    (hst : st ∈ ((clearEdits S pty kids q cur).map Edit.step).reverse) (hal : st.undoAligned d') :
    FamilyGuard S st d d' := by
  obtain ⟨a, b, c, rfl, hsn, hp⟩ := clearEdits_steps_payload S pty kids q cur hk st hst
  exact ⟨hsn, hp, hal⟩

/-- … and its `RemoveMarkStep`s (marks the new type does not allow, child by child) satisfy the planners'
    guard `PlanGuard` on the documents they are applied to — hence `FamilyGuard` by `planGuard_family`, given
    the same-type guard and pair-alignment — when every child carrying a forbidden mark is a text or a leaf
    (children of a textblock without inline nodes that have content) -/
theorem clearRm_planGuard (S : Schema) (hts : TextLoop S) (pty : TypeId) (d0 dEnd node : Node) (pos q : Nat)
    (hv : S.checkNode d0 = true) (hna : d0.nodeAt pos = .ok (some node))
    (hleaf : ∀ c ∈ node.kids, c.isLeaf = true ∨ badMarks S pty c.marks = [])
    (h : S.applyAll (clearRm S pty node.kids q (pos + 1)) d0 = .ok dEnd) :
    HistAll (PlanGuard S) (S.stepsHist (clearRm S pty node.kids q (pos + 1)) d0) dEnd ∧ S.checkNode dEnd = true := by
  obtain ⟨hg, hv'⟩ := clearRm_steps_guard S hts.stable pty d0 dEnd node pos q hv hna hleaf h
  exact ⟨histAll_mono (fun s d d' hr => .inl hr) _ _ hg, hv'⟩

/-- **the executable guard of PM/OpGuard.lean implies `FamilyGuard`** (replace / replace-around steps; the
    driver request `familyGuard` evaluates it on recorded steps of real histories) -/
theorem structGuardB_family (S : Schema) (s : Step) (d d' : Node) (h : structGuardB S s d d' = true) :
    FamilyGuard S s d d' := by
  cases s with
  | replace f t sl b =>
    simp only [structGuardB, structGuardParts, Bool.and_eq_true, Bool.and_true, alignedAtB_eq, openValidB_eq] at h
    obtain ⟨⟨hsn, hp⟩, ha1, ha2⟩ := h
    exact ⟨hsn, hp, ha1, ha2⟩
  | replaceAround f t gf gt sl ins b =>
    simp only [structGuardB, structGuardParts, Bool.and_eq_true, decide_eq_true_eq, alignedAtB_eq,
      Bool.or_eq_true, Bool.not_eq_true', beq_iff_eq] at h
    obtain ⟨⟨⟨⟨⟨⟨⟨⟨⟨hsn, hwf⟩, hins⟩, h1⟩, h2⟩, h3⟩, hp⟩, hst⟩, hclean⟩, ⟨⟨ha1, ha2⟩, ha3⟩, ha4⟩ := h
    refine ⟨hsn, hwf, ⟨h1, h2, h3⟩, ?_, ?_, ?_, ha1, ha2, ha3, ha4⟩
    · intro gap x hg hx
      rw [hg] at hp
      simp only [hx, openValidB_eq] at hp
      exact hp
    · intro hb
      rcases hst with hb' | hst
      · rw [hb] at hb'; cases hb'
      · exact hst
    · exact undoCutAligned_of_fits S d f t gf gt sl ins b hclean
  | addMark => simp [structGuardB, structGuardParts] at h
  | removeMark => simp [structGuardB, structGuardParts] at h
  | addNodeMark => simp [structGuardB, structGuardParts] at h
  | removeNodeMark => simp [structGuardB, structGuardParts] at h
  | attr => simp [structGuardB, structGuardParts] at h
  | docAttr => simp [structGuardB, structGuardParts] at h

theorem appended_eq {tr tr1 : Tr} {h2 : List (Step × Node)} (e : tr1.hist = tr.hist ++ h2) : appended tr tr1 = h2 := by
  simp [appended, e]

/-- `set_node_markup` under `retypeNodeOk`: it records the one retype step -/
theorem setNodeMarkup_step (S : Schema) (tr tr1 : Tr) (pos : Nat) (ty : Option TypeId) (attrs : Attrs)
    (marks : Option Marks) (hnode : retypeNodeOk S tr.doc pos ty marks)
    (h : tr.runOp S (.setNodeMarkup pos ty attrs marks) = some tr1) :
    ∃ node nn, tr.doc.nodeAt pos = .ok (some node) ∧ node.isLeaf = false ∧
      (S.nodeType (ty.getD (S.tyOf node))).isLeaf = false ∧
      canonicalMarks S (setFrom (marksOr marks node)) = true ∧
      S.createNode (ty.getD (S.tyOf node)) attrs (marksOr marks node) = .ok nn ∧
      tr.step S (retypeStep pos (pos + node.size) nn) = .ok tr1 := by
  obtain ⟨st', hs, rfl⟩ := Tr.planned_some (run := fun st => st.setNodeMarkupF S pos ty attrs marks) h
  unfold PSt.setNodeMarkupF at hs
  simp only at hs
  split at hs
  · simp at hs
  · simp at hs
  · rename_i node hna
    obtain ⟨hnl, hleaf, hms⟩ := hnode node hna
    split at hs
    · simp at hs
    · rename_i nn hc
      rw [if_neg (by simp [hnl])] at hs
      split at hs
      · simp at hs
      · exact ⟨node, nn, hna, hnl, hleaf, hms, hc, PSt.step_tr' (liftP_ok hs)⟩

/-- one operation: the steps it recorded satisfy `FamilyGuard` -/
theorem op_family (S : Schema) (op : Op) (tr tr1 : Tr) (hlen : tr.steps.length = tr.docs.length)
    (hI : FamilyInv S tr.doc) (h : tr.runOp S op = some tr1) (hres : OpResidual S op tr tr1) :
    HistAll (FamilyGuard S) (appended tr tr1) tr1.doc := by
  cases op with
  | mark o =>
    obtain ⟨hflat, hta⟩ := hres
    obtain ⟨h2, e, _, _, _, g⟩ := Tr.markOp_hist S tr tr1 o hlen hI.1 hflat (toOption_some h)
    rw [appended_eq e] at hta ⊢
    exact histAll_mono (fun s d d' ⟨hp, ht, ha⟩ => planGuard_family S s d d' hp ht ha) h2 tr1.doc
      (histAll_and h2 tr1.doc g hta)
  | join pos depth =>
    obtain ⟨st, hb, hs⟩ := Tr.built_some h
    obtain ⟨e, _⟩ := Tr.step_hist hlen hs
    simp only [OpResidual] at hres
    rw [appended_eq e] at hres ⊢
    exact ⟨joinGuard_family S _ _ pos depth st hb hres.1, trivial⟩
  | step s => exact hres
  | replace f t sl => exact hres
  | addNodeMark pos m => exact hres
  | removeNodeMark pos sel => exact hres
  | setNodeAttribute pos name value => exact hres
  | split pos depth =>
    obtain ⟨st, hb, hs⟩ := Tr.built_some h
    obtain ⟨e, ha⟩ := Tr.step_hist hlen hs
    simp only [OpResidual] at hres
    rw [appended_eq e] at hres ⊢
    exact ⟨splitGuard_family S _ _ pos depth st hI.1 hb ha hres.1, trivial⟩
  | lift a b depth target =>
    obtain ⟨st, hb, hs⟩ := Tr.built_some h
    obtain ⟨e, ha⟩ := Tr.step_hist hlen hs
    obtain ⟨hr, hal⟩ := hres
    rw [appended_eq e] at hal ⊢
    exact ⟨liftGuard_family S _ _ a b depth target st hI.1 hI.2 hr hb ha hal.1, trivial⟩
  | wrap a b depth ws =>
    obtain ⟨st, hb, hs⟩ := Tr.built_some h
    obtain ⟨e, ha⟩ := Tr.step_hist hlen hs
    obtain ⟨hr, hl, hal⟩ := hres
    rw [appended_eq e] at hal ⊢
    exact ⟨wrapGuard_family S _ _ a b depth ws st hI.1 hI.2 hr hl hb ha hal.1, trivial⟩
  | setNodeMarkup pos ty attrs marks =>
    obtain ⟨hnode, hal⟩ := hres
    obtain ⟨node, nn, hna, hnl, hleaf, hms, hc, hs⟩ := setNodeMarkup_step S tr tr1 pos ty attrs marks hnode h
    obtain ⟨e, ha⟩ := Tr.step_hist hlen hs
    rw [appended_eq e] at hal ⊢
    exact ⟨setNodeMarkupGuard_family S _ _ node nn pos _ attrs _ hI.1 hI.2 hna hnl hleaf hms hc ha hal.1,
      trivial⟩
  | setBlockType f t ty attrs => exact hres

/-- a run of operations: what it appended replays and satisfies `FamilyGuard` -/
theorem runOps_family (S : Schema) (htr : compatTransB S = true) (hts : TextLoop S) :
    ∀ (ops : List Op) (tr tr' : Tr), tr.steps.length = tr.docs.length → FamilyInv S tr.doc →
    tr.runOps S ops = some tr' → OpsAll S (OpResidual S) tr ops →
    ∃ h2, tr'.hist = tr.hist ++ h2 ∧ tr'.steps.length = tr'.docs.length ∧
      histNext h2 tr'.doc = tr.doc ∧ ReplayChain S h2 tr'.doc ∧ HistAll (FamilyGuard S) h2 tr'.doc
  | [], tr, tr', hlen, _, h, _ => by
    simp only [Tr.runOps, Option.some.injEq] at h
    subst h
    exact ⟨[], by simp, hlen, rfl, trivial, trivial⟩
  | op :: ops, tr, tr', hlen, hI, h, hres => by
    simp only [Tr.runOps] at h
    cases h1 : tr.runOp S op with
    | none => rw [h1] at h; simp at h
    | some tr1 =>
      rw [h1] at h
      simp only [OpsAll, h1] at hres
      obtain ⟨ha, e1, l1, n1, r1⟩ := (Tr.runOp_grows op h1).hist hlen
      have g1 := op_family S op tr tr1 hlen hI h1 hres.1
      rw [appended_eq e1] at g1
      have hI1 : FamilyInv S tr1.doc :=
        (chain_of_invariant S (FamilyInv S) (FamilyGuard S) (family_step S htr hts) ha tr1.doc
          (by rw [n1]; exact hI) r1 g1).2
      obtain ⟨hb, e2, l2, n2, r2, g2⟩ := runOps_family S htr hts ops tr1 tr' l1 hI1 h hres.2
      refine ⟨ha ++ hb, by rw [e2, e1, List.append_assoc], l2, ?_, ?_, ?_⟩
      · rw [histNext_append, n2, n1]
      · exact (histAll_append _ ha hb tr'.doc).mpr ⟨by rw [n2]; exact r1, r2⟩
      · exact (histAll_append _ ha hb tr'.doc).mpr ⟨by rw [n2]; exact g1, g2⟩

/-- **exact undo of a history built through the transform API.**  Schema with transitive
    `compatible_content` (`compatTransB`) and `TextLoop`; `doc` valid and in normal form; `ops` any list of
    modelled operations (replace, mark operations, node marks, attributes, split, join, lift, wrap, set node
    markup, set block type, raw steps) that all went through; `OpResidual` of every operation.  Then the
    inverted recorded steps applied in reverse order to the final document restore `doc`, and the final
    document is again valid and in normal form. -/
theorem opHistory_undo (S : Schema) (htr : compatTransB S = true) (hts : TextLoop S)
    (doc : Node) (ops : List Op) (tr' : Tr) (hd : S.checkNode doc = true) (hn : fnorm doc.kids = true)
    (h : (Tr.init doc).runOps S ops = some tr')
    (hres : OpsAll S (OpResidual S) (Tr.init doc) ops) :
    tr'.undo S = .ok doc ∧ FamilyInv S tr'.doc := by
  obtain ⟨h2, e, _, n, r, g⟩ := runOps_family S htr hts ops (Tr.init doc) tr' rfl ⟨hd, hn⟩ h hres
  have e' : tr'.hist = h2 := by rw [e]; simp [Tr.hist, Tr.init]
  obtain ⟨hc, hfin⟩ := chain_of_invariant S (FamilyInv S) (FamilyGuard S) (family_step S htr hts) h2 tr'.doc
    (by rw [n]; exact ⟨hd, hn⟩) r g
  refine ⟨?_, hfin⟩
  show S.unwind tr'.hist tr'.doc = .ok doc
  rw [e', unwind_of_chain S h2 tr'.doc hc, n]
  rfl

/-- pair-alignment is automatic where the new document has no text outside the Basic Multilingual Plane -/
theorem undoAligned_of_bmp (s : Step) (d' : Node) (hb : bmpDoc d' = true) : s.undoAligned d' := by
  have ha := fun p => alignedAt_of_bmp d'.kids p hb
  cases s <;> simp [Step.undoAligned, ha]

theorem histAll_undoAligned_of_bmp (hist : List (Step × Node)) (fin : Node)
    (h : HistAll (fun _ _ d' => bmpDoc d' = true) hist fin) : HistAll (fun s _ d' => s.undoAligned d') hist fin :=
  histAll_mono (fun s _ d' hb => undoAligned_of_bmp s d' hb) hist fin h

/-- a step that keeps the text and leaf tokens keeps "no text outside the Basic Multilingual Plane" -/
theorem bmp_of_keeps_content (d d' : Node)
    (h : (ftoks d'.kids).filter Tok.isContent = (ftoks d.kids).filter Tok.isContent)
    (hb : bmpDoc d = true) : bmpDoc d' = true := by
  unfold bmpDoc at hb ⊢
  rw [List.all_eq_true] at hb ⊢
  intro x hx
  cases x with
  | op t a m => rfl
  | cl => rfl
  | leaf t a m => rfl
  | unit c m =>
    have : Tok.unit c m ∈ (ftoks d'.kids).filter Tok.isContent := List.mem_filter.mpr ⟨hx, rfl⟩
    rw [h] at this
    exact hb _ (List.mem_filter.mp this).1

/-- the four structural edits and `set_node_markup` -/
def structuralOp : Op → Bool
  | .setNodeMarkup .. => true
  | .split .. => true
  | .join .. => true
  | .lift .. => true
  | .wrap .. => true
  | _ => false

/-- what is asked of a structural edit: the node-range shape of `lift` / `wrap`, no leaf wrapper -/
def StructResidual (S : Schema) (op : Op) (tr _tr1 : Tr) : Prop :=
  match op with
  | .lift a b depth _ => nodeRangeEnds tr.doc a b depth
  | .wrap a b depth ws => nodeRangeOk tr.doc a b depth ∧ (∀ w ∈ ws, (S.nodeType w.1).isLeaf = false)
  | .setNodeMarkup pos ty _ marks => retypeNodeOk S tr.doc pos ty marks
  | _ => True

/-- the retype step is a structure-only step: it keeps the text and leaf tokens -/
theorem retype_keeps_content (S : Schema) (d d' node : Node) (pos : Nat) (ty : TypeId) (a : Attrs) (m : Marks)
    (hna : d.nodeAt pos = .ok (some node)) (hnl : node.isLeaf = false)
    (h : S.apply (retypeStep pos (pos + node.size) (.elem ty a m [])) d = .ok d') :
    (ftoks d'.kids).filter Tok.isContent = (ftoks d.kids).filter Tok.isContent := by
  have _ := hna
  have hsz : 2 ≤ node.size := by
    cases node with
    | elem t a' m' k => simp [Node.size]
    | text s' m' => simp [Node.isLeaf] at hnl
    | leaf t a' m' => simp [Node.isLeaf] at hnl
  refine C12.structural_keeps_content S d d' _ ?_ ?_ h
  · simp only [retypeStep, isStructuralAt, isStructural, Bool.true_and, Bool.and_eq_true, decide_eq_true_eq]
    refine ⟨?_, ⟨by omega, by omega⟩, by omega⟩
    simp [sliceToks', ftoks, Node.toks, structuralOnly, Tok.isContent, fsize, Node.size]
  · intro f t gf gt sl i b e
    simp only [retypeStep, Step.replaceAround.injEq] at e
    obtain ⟨_, _, _, _, rfl, rfl, _⟩ := e
    simp [Slice.wf, Slice.size, fsize, Node.size]

/-- a structural edit that went through: its step, and the new document keeps the text and leaf tokens -/
theorem structOp_step (S : Schema) (op : Op) (tr tr1 : Tr) (hop : structuralOp op = true)
    (hlen : tr.steps.length = tr.docs.length) (h : tr.runOp S op = some tr1)
    (hres : StructResidual S op tr tr1) :
    ∃ st, tr1.hist = tr.hist ++ [(st, tr.doc)] ∧ S.apply st tr.doc = .ok tr1.doc ∧
      (ftoks tr1.doc.kids).filter Tok.isContent = (ftoks tr.doc.kids).filter Tok.isContent := by
  cases op with
  | split pos depth =>
    obtain ⟨st, hb, hs⟩ := Tr.built_some h
    obtain ⟨e, ha⟩ := Tr.step_hist hlen hs
    exact ⟨st, e, ha, C12.split_keeps_content S _ _ pos depth st hb ha⟩
  | join pos depth =>
    obtain ⟨st, hb, hs⟩ := Tr.built_some h
    obtain ⟨e, ha⟩ := Tr.step_hist hlen hs
    exact ⟨st, e, ha, C12.join_keeps_content S _ _ pos depth st hb ha⟩
  | lift a b depth target =>
    obtain ⟨st, hb, hs⟩ := Tr.built_some h
    obtain ⟨e, ha⟩ := Tr.step_hist hlen hs
    obtain ⟨_, _, _, _, hab, _, _⟩ := hres
    exact ⟨st, e, ha, C12.lift_keeps_content S _ _ a b depth target st hab hb ha⟩
  | wrap a b depth ws =>
    obtain ⟨st, hb, hs⟩ := Tr.built_some h
    obtain ⟨e, ha⟩ := Tr.step_hist hlen hs
    obtain ⟨⟨_, _, _, _, hab, _, _, _⟩, hl⟩ := hres
    exact ⟨st, e, ha, C12.wrap_keeps_content S _ _ a b depth ws st hab hl hb ha⟩
  | setNodeMarkup pos ty attrs marks =>
    obtain ⟨node, nn, hna, hnl, hleaf, _, hc, hs⟩ := setNodeMarkup_step S tr tr1 pos ty attrs marks hres h
    obtain ⟨e, ha⟩ := Tr.step_hist hlen hs
    obtain ⟨a, rfl⟩ := createNode_elem S _ attrs _ nn hleaf hc
    exact ⟨_, e, ha, retype_keeps_content S _ _ node pos _ a _ hna hnl ha⟩
  | step => simp [structuralOp] at hop
  | replace => simp [structuralOp] at hop
  | mark => simp [structuralOp] at hop
  | addNodeMark => simp [structuralOp] at hop
  | removeNodeMark => simp [structuralOp] at hop
  | setNodeAttribute => simp [structuralOp] at hop
  | setBlockType => simp [structuralOp] at hop

/-- on a document without text outside the BMP, a run of structural edits meets `OpResidual` -/
theorem structOps_residual (S : Schema) (htr : compatTransB S = true) (hts : TextLoop S) :
    ∀ (ops : List Op) (tr : Tr), tr.steps.length = tr.docs.length → FamilyInv S tr.doc → bmpDoc tr.doc = true →
    (∀ op ∈ ops, structuralOp op = true) → OpsAll S (StructResidual S) tr ops → OpsAll S (OpResidual S) tr ops
  | [], _, _, _, _, _, _ => trivial
  | op :: ops, tr, hlen, hI, hb, hall, hres => by
    simp only [OpsAll] at hres ⊢
    cases h1 : tr.runOp S op with
    | none => trivial
    | some tr1 =>
      simp only [h1] at hres ⊢
      have hop := hall op (List.mem_cons_self ..)
      obtain ⟨st, e, ha, hk⟩ := structOp_step S op tr tr1 hop hlen h1 hres.1
      have hb1 : bmpDoc tr1.doc = true := bmp_of_keeps_content _ _ hk hb
      have hal : HistAll (fun s _ d' => s.undoAligned d') (appended tr tr1) tr1.doc := by
        rw [appended_eq e]
        exact ⟨undoAligned_of_bmp st tr1.doc hb1, trivial⟩
      have hr1 : OpResidual S op tr tr1 := by
        cases op with
        | split pos depth => exact hal
        | join pos depth => exact hal
        | lift a b depth target => exact ⟨hres.1, hal⟩
        | wrap a b depth ws => exact ⟨hres.1.1, hres.1.2, hal⟩
        | setNodeMarkup pos ty attrs marks => exact ⟨hres.1, hal⟩
        | step => simp [structuralOp] at hop
        | replace => simp [structuralOp] at hop
        | mark => simp [structuralOp] at hop
        | addNodeMark => simp [structuralOp] at hop
        | removeNodeMark => simp [structuralOp] at hop
        | setNodeAttribute => simp [structuralOp] at hop
        | setBlockType => simp [structuralOp] at hop
      refine ⟨hr1, ?_⟩
      obtain ⟨h2, e1, l1, n1, r1⟩ := (Tr.runOp_grows op h1).hist hlen
      have g1 := op_family S op tr tr1 hlen hI h1 hr1
      rw [appended_eq e1] at g1
      have hI1 : FamilyInv S tr1.doc :=
        (chain_of_invariant S (FamilyInv S) (FamilyGuard S) (family_step S htr hts) h2 tr1.doc
          (by rw [n1]; exact hI) r1 g1).2
      exact structOps_residual S htr hts ops tr1 l1 hI1 hb1
        (fun o ho => hall o (List.mem_cons_of_mem _ ho)) hres.2

/-- **a history of structural edits (`split`, `join`, `lift`, `wrap`, `set_node_markup`) is undone exactly**:
    schema with transitive `compatible_content` and `TextLoop`; `doc` valid, in normal form, no text outside
    the Basic Multilingual Plane; the ranges of `lift` / `wrap` are node ranges as `block_range` builds them,
    no wrapper of a leaf type; `set_node_markup` retypes a non-leaf node to a non-leaf type with a canonical
    mark set.  No hypothesis on the recorded steps is left. -/
theorem structHistory_undo_bmp (S : Schema) (htr : compatTransB S = true) (hts : TextLoop S)
    (doc : Node) (ops : List Op) (tr' : Tr) (hd : S.checkNode doc = true) (hn : fnorm doc.kids = true)
    (hb : bmpDoc doc = true) (hall : ∀ op ∈ ops, structuralOp op = true)
    (h : (Tr.init doc).runOps S ops = some tr')
    (hres : OpsAll S (StructResidual S) (Tr.init doc) ops) :
    tr'.undo S = .ok doc ∧ FamilyInv S tr'.doc :=
  opHistory_undo S htr hts doc ops tr' hd hn h
    (structOps_residual S htr hts ops (Tr.init doc) rfl ⟨hd, hn⟩ hb hall hres)

/-! Non-vacuity of `opHistory_undo`: on `doc(p("ab"))` (schema `wrapS` above) the history
    "wrap the paragraph in a quote" meets every hypothesis; the recorded step is the structure-flagged
    replace-around step of `Transform.wrap`. -/
section OpExample
private theorem w_wrapStep : wrapStep wrapS wDoc 1 3 0 [(2, [])] = .ok (.replaceAround 0 4 0 4 wSl 1 true) := by
  rfl

private theorem w_fwd_struct : wrapS.apply (.replaceAround 0 4 0 4 wSl 1 true) wDoc = .ok wDoc' := by
  have hv : wrapS.validContent 0 [Node.elem 2 [] [] [Node.elem 1 [] [] [Node.text [97, 98] []]]] = true := by
    decide
  have hc1 : contentBetween wDoc 0 0 = some false := by decide
  have hc2 : contentBetween wDoc 4 4 = some false := by decide
  simp only [Schema.apply, hc1, hc2, w_slice, w_ins]
  simp [Schema.fromReplace, Schema.replace, wDoc, wDoc', replaceKids, inRange, depthAt, Slice.wf, spineL,
    spineR, outer, atLevel, fcut, fappend, hv, Except.map]

private theorem wrapS_loop : TextLoop wrapS := by
  intro t q q1 h
  match t, q with
  | 0, 0 => simp [Schema.dfa, Schema.nodeType, wrapS, wnt, Dfa.matchType, Dfa.edgesOf] at h
  | 1, 0 =>
    have : q1 = 0 := by
      simp [Schema.dfa, Schema.nodeType, wrapS, wnt, Dfa.matchType, Dfa.edgesOf] at h; omega
    subst this; exact h
  | 2, 0 => simp [Schema.dfa, Schema.nodeType, wrapS, wnt, Dfa.matchType, Dfa.edgesOf] at h
  | 3, 0 => simp [Schema.dfa, Schema.nodeType, wrapS, wnt, Dfa.matchType, Dfa.edgesOf] at h
  | 0, q + 1 => simp [Schema.dfa, Schema.nodeType, wrapS, wnt, Dfa.matchType, Dfa.edgesOf] at h
  | 1, q + 1 => simp [Schema.dfa, Schema.nodeType, wrapS, wnt, Dfa.matchType, Dfa.edgesOf] at h
  | 2, q + 1 => simp [Schema.dfa, Schema.nodeType, wrapS, wnt, Dfa.matchType, Dfa.edgesOf] at h
  | 3, q + 1 => simp [Schema.dfa, Schema.nodeType, wrapS, wnt, Dfa.matchType, Dfa.edgesOf] at h
  | t + 4, q =>
    have : (wrapS.dfa (t + 4)) = #[] := by
      simp [Schema.dfa, Schema.nodeType, wrapS]
      rfl
    rw [this] at h
    simp [Dfa.matchType, Dfa.edgesOf] at h

private def wTr : Tr := (Tr.init wDoc).addStep (.replaceAround 0 4 0 4 wSl 1 true) wDoc'

private theorem w_run : (Tr.init wDoc).runOps wrapS [.wrap 1 3 0 [(2, [])]] = some wTr := by
  simp only [Tr.runOps, Tr.runOp, Tr.init, w_wrapStep, Tr.built, Tr.step, w_fwd_struct, Except.toOption]
  rfl

example : wTr.undo wrapS = .ok wDoc := by
  refine (opHistory_undo wrapS (by decide) wrapS_loop wDoc [.wrap 1 3 0 [(2, [])]] wTr (by decide) ?_ w_run ?_).1
  · simp [wDoc, Node.kids, fnorm, fnormKids, Node.norm, chainOk]
  · simp only [OpsAll, Tr.runOp, Tr.init, w_wrapStep, Tr.built, Tr.step, w_fwd_struct,
      Except.toOption, OpResidual, and_true]
    refine ⟨⟨_, _, rfl, rfl, by decide, by decide, by decide, by decide⟩, by decide, ?_, trivial⟩
    exact undoAligned_of_bmp _ _ (by decide)
end OpExample

/-! Non-vacuity of `family_history_undo`: the one-step history "replace 2 … 3 by `x`" on
    `doc(p("ab"), p("c"))` (`tiny_fwd`, `tiny_inv` above) meets every hypothesis. -/
section FamilyExample
private theorem tinyS_loop : TextLoop tinyS := by
  intro t q q1 h
  match t, q with
  | 0, 0 => simp [Schema.dfa, Schema.nodeType, tinyS, Dfa.matchType, Dfa.edgesOf] at h
  | 1, 0 =>
    have : q1 = 0 := by
      simp [Schema.dfa, Schema.nodeType, tinyS, Dfa.matchType, Dfa.edgesOf] at h; omega
    subst this; exact h
  | 2, 0 => simp [Schema.dfa, Schema.nodeType, tinyS, Dfa.matchType, Dfa.edgesOf] at h
  | 0, q + 1 => simp [Schema.dfa, Schema.nodeType, tinyS, Dfa.matchType, Dfa.edgesOf] at h
  | 1, q + 1 => simp [Schema.dfa, Schema.nodeType, tinyS, Dfa.matchType, Dfa.edgesOf] at h
  | 2, q + 1 => simp [Schema.dfa, Schema.nodeType, tinyS, Dfa.matchType, Dfa.edgesOf] at h
  | t + 3, q =>
    have : (tinyS.dfa (t + 3)) = #[] := by
      simp [Schema.dfa, Schema.nodeType, tinyS]
      rfl
    rw [this] at h
    simp [Dfa.matchType, Dfa.edgesOf] at h

example : tinyS.unwind ([Step.replace 2 3 tinySl false].zip [tinyDoc]) tinyDoc' = .ok tinyDoc := by
  refine (family_history_undo tinyS (by decide) tinyS_loop tinyDoc [.replace 2 3 tinySl false] [tinyDoc] tinyDoc'
    (by decide) ?_ ?_ ?_).1
  · simp [tinyDoc, Node.kids, fnorm, fnormKids, Node.norm, chainOk, adjOk]
  · simp [replay, tiny_fwd]
  · refine ⟨⟨?_, ?_, ?_⟩, trivial⟩
    · simp [tinySl, fnorm, fnormKids, Node.norm, chainOk]
    · show openValid tinyS tinySl.openStart tinySl.openEnd tinySl.content = true
      simp [tinySl, openValid, rightOpenValid, Schema.checkKids, Schema.checkNode]
      decide
    · simp [Step.undoAligned, histNext, tinyDoc', Node.kids, tinySl, alignedAt, splitOk, isHigh, isLow,
        Slice.size, fsize, Node.size]
end FamilyExample

/-- **exact undo of a replace-around step the Fitter emitted**: the structural hypotheses of
    `replaceAround_undo_partial` (`sl.wf`, `insert ≤ slice.size`, range and gap in order) are discharged
    for every replace-around step `replace_step` answers with (C11 `fit_emits_wf`: schema guards, valid
    document, well-formed request slice, the unplaced slice staying well-formed over the Fitter's run —
    all decidable).  What remains assumed is what the undo theorem assumes of any step: normal forms and
    that the three applications succeed.  (Payload validity — `openValid` of the emitted slice — is not
    needed here and not yet proved for Fitter-emitted steps: C11, `fit_emits_valid_payload`.) -/
theorem fitter_replaceAround_undo_partial (S : Schema) (hdet : PM.C11.detB S = true) (hfill : S.fillersOKB = true)
    (hwrap : S.wrapOKB = true) (hlab : S.labelsOKB = true) (doc doc' doc'' : Node) (f t : Nat) (req : Slice)
    (hv : C01.Valid S doc) (hattrs : S.nodeAttrsOK doc = true) (hreq : req.wf = true) (hft : f ≤ t)
    (hrun : unplacedWfRun S doc f t req = true) (F T G1 G2 : Nat) (sl : Slice) (ins : Nat) (b : Bool)
    (hemit : replaceStep S doc f t req = .ok (some (.replaceAround F T G1 G2 sl ins b)))
    (inv : Step) (hn : fnorm doc.kids = true) (hsn : fnorm sl.content = true)
    (h1 : S.apply (.replaceAround F T G1 G2 sl ins b) doc = .ok doc')
    (hi : S.invert (.replaceAround F T G1 G2 sl ins b) doc = .ok inv)
    (h2 : S.apply inv doc' = .ok doc'') : doc'' = doc := by
  obtain ⟨_, hs⟩ := PM.C11.fit_emits_wf S hdet hfill hwrap hlab doc f t req hv hattrs hreq hft hrun _ hemit
  have hsh := hs F T G1 G2 sl ins b rfl
  simp only [aroundShape, Bool.and_eq_true, decide_eq_true_eq] at hsh
  obtain ⟨⟨⟨⟨hwf, hins⟩, g1⟩, g2⟩, g3⟩ := hsh
  exact replaceAround_undo_partial S doc doc' doc'' F T G1 G2 sl ins b inv hn hsn hwf hins ⟨g1, g2, g3⟩ h1 hi h2

/-- what is still asked of the step a **deletion** (`Transform.delete` = `replace(f, t, Slice.empty)`) records,
    once its payload validity is a theorem (C11 `delete_emits_valid_payload`): for a `ReplaceStep` only the
    normal form of its slice and pair-alignment; for a `ReplaceAroundStep` (the Fitter moved the rest of a
    textblock) the full guard, whose payload conjunct speaks about the slice *with the gap inserted* -/
def DeleteResidual (S : Schema) (tr tr1 : Tr) : Prop :=
  HistAll (fun s d d' =>
    match s with
    | .replace _ _ sl _ => fnorm sl.content = true ∧ s.undoAligned d'
    | _ => FamilyGuard S s d d') (appended tr tr1) tr1.doc

/-- **deletions need no payload hypothesis**: for `delete` / the `delete_range` call, `OpResidual` (what
    `opHistory_undo` asks of the operation) follows from `DeleteResidual` — the `C01.PayloadValid` conjunct
    of the family guard of the recorded `ReplaceStep` is discharged by `C11.delete_emits_valid_payload`
    (guards `detB`, `leafOkB`; the document valid with creatable element types) -/
theorem delete_residual (S : Schema) (hdet : PM.C11.detB S = true) (hleaf : PM.FromDom.leafOkB S = true)
    (tr tr1 : Tr) (hlen : tr.steps.length = tr.docs.length) (hv : C01.Valid S tr.doc)
    (hattrs : S.nodeAttrsOK tr.doc = true) (f t : Nat)
    (h : tr.runOp S (.replace f t Slice.empty) = some tr1) (hres : DeleteResidual S tr tr1) :
    OpResidual S (.replace f t Slice.empty) tr tr1 := by
  have h' : tr.planned (fun st => st.replaceF S f t Slice.empty) = some tr1 := h
  obtain ⟨st', hrun, htr⟩ := Tr.planned_some h'
  obtain ⟨r, hr, hstep⟩ := PSt.replaceF_spec S { tr := tr } st' f t Slice.empty hrun
  simp only at hr hstep
  cases r with
  | none =>
    simp only at hstep
    have e : tr1.hist = tr.hist ++ [] := by rw [← htr, hstep]; simp
    show HistAll (FamilyGuard S) (appended tr tr1) tr1.doc
    rw [appended_eq e]
    trivial
  | some s =>
    simp only at hstep
    rw [htr] at hstep
    obtain ⟨e, _⟩ := Tr.step_hist hlen hstep
    show HistAll (FamilyGuard S) (appended tr tr1) tr1.doc
    unfold DeleteResidual at hres
    rw [appended_eq e] at hres ⊢
    refine ⟨?_, trivial⟩
    have hs := hres.1
    obtain ⟨sl', hsl, hval⟩ := PM.C11.delete_emits_valid_payload S hdet hleaf tr.doc f t hv hattrs s hr
    cases s with
    | replace F T sl b =>
      simp only at hs
      simp only [Step.sliceOf, Option.some.injEq] at hsl
      subst hsl
      exact ⟨hs.1, hval, hs.2⟩
    | replaceAround F T G1 G2 sl ins b => exact hs
    | addMark _ _ _ => exact hs
    | removeMark _ _ _ => exact hs
    | attr _ _ _ => exact hs
    | docAttr _ _ => exact hs
    | addNodeMark _ _ => exact hs
    | removeNodeMark _ _ => exact hs

/-! ### `set_block_type` to a plain type as a whole operation (work package `wk-sbt`) -/

/-- **one converting visit of `set_block_type`**: the history it records — the `RemoveMarkStep`s of
    `clear_incompatible`, its `ReplaceStep`s, the retype step — replays, has the shapes `SbtShape`, and
    satisfies `FamilyGuard` step by step once the document the visit starts from is valid and in normal form,
    given the same-type guard and pair-alignment of the recorded steps -/
theorem sbtVisit_guard (S : Schema) (htr : compatTransB S = true) (hts : TextLoop S)
    (ty : TypeId) (attrs : Attrs) (hty : (S.nodeType ty).isLeaf = false)
    (st st1 st2 : PSt) (node nn : Node) (p e : Nat)
    (hlen : st.tr.steps.length = st.tr.docs.length)
    (hnl : node.isLeaf = false)
    (hna : st.tr.doc.nodeAt p = .ok (some node))
    (hall : st.stepAll S (clearRm S ty node.kids 0 (p + 1) ++
      ((clearEdits S ty node.kids 0 (p + 1)).map Edit.step).reverse) = .ok st1)
    (hnn : S.createNode ty attrs node.marks = .ok nn)
    (htok : (ftoks st1.tr.doc.kids)[p]? = some node.headTok)
    (hn1 : fnorm st1.tr.doc.kids = true)
    (hs : st1.step S (retypeStep p e nn) = .ok st2)
    (hleaf : ∀ c ∈ node.kids, c.isLeaf = true ∨ badMarks S ty c.marks = [])
    (bad : Mark → Prop) (hbad : ∀ c ∈ node.kids, ∀ x ∈ badMarks S ty c.marks, bad x) :
    ∃ h2, st2.tr.hist = st.tr.hist ++ h2 ∧ st2.tr.steps.length = st2.tr.docs.length ∧
      histNext h2 st2.tr.doc = st.tr.doc ∧ ReplayChain S h2 st2.tr.doc ∧
      HistAll (fun s d _ => SbtShape bad s d) h2 st2.tr.doc ∧
      (FamilyInv S st.tr.doc →
        HistAll (fun s d d' => s.sameTypeGuard S d ∧ s.undoAligned d') h2 st2.tr.doc →
        HistAll (FamilyGuard S) h2 st2.tr.doc) := by
  cases node with
  | text => simp [Node.isLeaf] at hnl
  | leaf => simp [Node.isLeaf] at hnl
  | elem t a m kids =>
  simp only [Node.kids_elem, Node.marks_elem, Node.headTok_elem] at hall hnn htok hleaf hbad
  obtain ⟨a1, a2, a3⟩ := PSt.stepAll_hist S _ st st1 hlen hall
  obtain ⟨d1, r1, r2⟩ := applyAll_append S _ _ _ _ a3
  obtain ⟨b1, b2, b3⟩ := Tr.step_hist' a2 (PSt.step_tr' hs)
  rw [stepsHist_append S _ _ _ d1 r1] at a1
  generalize hrm : clearRm S ty kids 0 (p + 1) = rm at *
  generalize hed : ((clearEdits S ty kids 0 (p + 1)).map Edit.step).reverse = ed at *
  obtain ⟨n1, c1, _⟩ := stepsHist_spec S rm st.tr.doc d1 r1
  obtain ⟨n2, c2, _⟩ := stepsHist_spec S ed d1 st1.tr.doc r2
  -- the node at `p` after `clear_incompatible`
  obtain ⟨k, hk⟩ := nodeAtKids_of_op t a m st1.tr.doc.kids p (fnormKids_of_fnorm hn1) htok
  obtain ⟨a', rfl⟩ := createNode_elem S ty attrs m nn hty hnn
  have he : e = p + (Node.elem t a m k).size :=
    retype_applied_end S st1.tr.doc st2.tr.doc _ _ p e hk rfl rfl b2
  have hx : histNext [(retypeStep p e (.elem ty a' (setFrom m) []), st1.tr.doc)] st2.tr.doc = st1.tr.doc := rfl
  have hB : histNext (S.stepsHist ed d1 ++ [(retypeStep p e (.elem ty a' (setFrom m) []), st1.tr.doc)])
      st2.tr.doc = d1 := by rw [histNext_append, hx, n2]
  refine ⟨S.stepsHist rm st.tr.doc ++
    (S.stepsHist ed d1 ++ [(retypeStep p e (.elem ty a' (setFrom m) []), st1.tr.doc)]), ?_, b3, ?_, ?_, ?_, ?_⟩
  · rw [b1, a1]; simp only [List.append_assoc]
  · rw [histNext_append, hB, n1]
  · exact (histAll_append _ _ _ _).mpr ⟨by rw [hB]; exact c1,
      (histAll_append _ _ _ _).mpr ⟨by rw [hx]; exact c2, ⟨b2, trivial⟩⟩⟩
  · refine (histAll_append _ _ _ _).mpr ⟨?_, (histAll_append _ _ _ _).mpr ⟨?_, ⟨?_, trivial⟩⟩⟩
    · exact histAll_mono (fun s d d' h => .inl h) _ _
        (histAll_stepsHist_mem S (fun s => ∃ a b x, s = Step.removeMark a b x ∧ bad x) rm _ _
          (by
            rw [← hrm]
            intro s hs'
            obtain ⟨a, b, x, e', c, hc, hx⟩ := clearRm_isRm S ty kids 0 (p + 1) s hs'
            exact ⟨a, b, x, e', hbad c hc x hx⟩))
    · refine histAll_mono (fun s d d' h => .inr (.inl h)) _ _
        (histAll_stepsHist_mem S
          (fun s => ∃ a b c, s = Step.replace a b ⟨c, 0, 0⟩ false ∧ (ftoks c).all Tok.noHigh = true) ed _ _ ?_)
      intro s hs'
      rw [← hed] at hs'
      simp only [List.mem_reverse, List.mem_map] at hs'
      obtain ⟨ed1, hed1, rfl⟩ := hs'
      exact ⟨_, _, _, rfl, clearEdits_bmp S ty kids 0 (p + 1) ed1 hed1⟩
    · exact .inr (.inr ⟨p, .elem t a m k, ty, a', setFrom m, by rw [he], hk, rfl⟩)
  · intro hI hR
    obtain ⟨RA, hR'⟩ := (histAll_append _ _ _ _).mp hR
    obtain ⟨RB, Rx, _⟩ := (histAll_append _ _ _ _).mp hR'
    rw [hB] at RA
    rw [hx] at RB
    have hvN : S.checkNode (.elem t a m kids) = true :=
      nodeAtKids_valid S st.tr.doc.kids p _ (checkNode_kids hI.1) hna
    rw [checkNode_elem] at hvN
    simp only [Bool.and_eq_true] at hvN
    obtain ⟨pg, _⟩ := clearRm_planGuard S hts ty st.tr.doc d1 (.elem t a m kids) p 0 hI.1 hna
      hleaf (by rw [Node.kids_elem, hrm]; exact r1)
    simp only [Node.kids_elem, hrm] at pg
    have gA : HistAll (FamilyGuard S) (S.stepsHist rm st.tr.doc) d1 :=
      histAll_mono (fun s d d' ⟨hp, ht, ha⟩ => planGuard_family S s d d' hp ht ha) _ _
        (histAll_and _ _ pg RA)
    have hI1 : FamilyInv S d1 :=
      (chain_of_invariant S (FamilyInv S) (FamilyGuard S) (family_step S htr hts) _ d1
        (by rw [n1]; exact hI) c1 gA).2
    have gB : HistAll (FamilyGuard S) (S.stepsHist ed d1) st1.tr.doc :=
      histAll_mono (fun s d d' ⟨hm, _, ha⟩ =>
          clearEditsGuard_family S ty kids 0 (p + 1) hvN.2 s d d' (by rw [hed]; exact hm) ha) _ _
        (histAll_and _ _ (histAll_stepsHist_mem S (· ∈ ed) ed d1 st1.tr.doc (fun _ h => h)) RB)
    have hI2 : FamilyInv S st1.tr.doc :=
      (chain_of_invariant S (FamilyInv S) (FamilyGuard S) (family_step S htr hts) _ st1.tr.doc
        (by rw [n2]; exact hI1) c2 gB).2
    have gx := setBlockTypeGuard_family S st1.tr.doc st2.tr.doc (.elem t a m k) _ p e ty attrs hI2.1 hI2.2 hk rfl
      hty hvN.1.2 hnn b2 Rx.2
    exact (histAll_append _ _ _ _).mpr ⟨by rw [hB]; exact gA,
      (histAll_append _ _ _ _).mpr ⟨by rw [hx]; exact gB, ⟨gx, trivial⟩⟩⟩

/-- the marks `set_block_type(from, to, type)` strips: those a child of a visited textblock carries and the
    new type forbids -/
def sbtBad (S : Schema) (d : Node) (f t : Nat) (ty : TypeId) (x : Mark) : Prop :=
  ∃ v ∈ S.docVisits d f t, S.isTextblockN v.node = true ∧ ∃ c ∈ v.node.kids, x ∈ badMarks S ty c.marks

/-- what is asked of the visits of `nodes_between(from, to)` over the document `set_block_type` starts from:
    a visited textblock is a node with content (true of valid documents of schemas whose types with inline
    content are no leaf types), and each of its children that carries a mark the new type forbids is a text
    or a leaf (no inline node with content and forbidden marks) -/
def sbtBlocksOk (S : Schema) (d : Node) (f t : Nat) (ty : TypeId) : Prop :=
  ∀ v ∈ S.docVisits d f t, S.isTextblockN v.node = true →
    v.node.isLeaf = false ∧ ∀ c ∈ v.node.kids, c.isLeaf = true ∨ badMarks S ty c.marks = []

/-- **the walk of `set_block_type`**: the history the fold of the visit callback records -/
theorem sbt_fold_guard (S : Schema) (htr : compatTransB S = true) (hts : TextLoop S)
    (ty : TypeId) (attrs : Attrs) (mf : Nat) (L0 : List Tok)
    (hty : (S.nodeType ty).isLeaf = false) (hp : S.plainType ty = true) (bad : Mark → Prop) :
    ∀ (vs : List NV) (st : PSt) (skip : Nat) (X : List Tok) (st' : PSt) (skip' : Nat),
    (∀ v ∈ vs, (L0.drop v.pos).take v.node.size = v.node.toks ∧ v.node.norm = true ∧
      (S.isTextblockN v.node = true →
        v.node.isLeaf = false ∧ (∀ c ∈ v.node.kids, c.isLeaf = true ∨ badMarks S ty c.marks = []) ∧
        ∀ c ∈ v.node.kids, ∀ x ∈ badMarks S ty c.marks, bad x)) →
    SbtInv L0 mf st skip X → st.tr.steps.length = st.tr.docs.length →
    vs.foldl (setBlockTypeVisit S ty attrs mf) (.ok (st, skip)) = .ok (st', skip') →
    ∃ h2, st'.tr.hist = st.tr.hist ++ h2 ∧ st'.tr.steps.length = st'.tr.docs.length ∧
      histNext h2 st'.tr.doc = st.tr.doc ∧ ReplayChain S h2 st'.tr.doc ∧
      HistAll (fun s d _ => SbtShape bad s d) h2 st'.tr.doc ∧
      (FamilyInv S st.tr.doc →
        HistAll (fun s d d' => s.sameTypeGuard S d ∧ s.undoAligned d') h2 st'.tr.doc →
        HistAll (FamilyGuard S) h2 st'.tr.doc)
  | [], st, skip, X, st', skip', _, _, hlen, h => by
    simp only [List.foldl_nil, Except.ok.injEq, Prod.mk.injEq] at h
    obtain ⟨rfl, rfl⟩ := h
    exact ⟨[], by simp, hlen, rfl, trivial, trivial, fun _ _ => trivial⟩
  | v :: vs, st, skip, X, st', skip', hvs, hI, hlen, h => by
    have hv := hvs v (by simp)
    have hrest : ∀ w ∈ vs, (L0.drop w.pos).take w.node.size = w.node.toks ∧ w.node.norm = true ∧
        (S.isTextblockN w.node = true →
          w.node.isLeaf = false ∧ (∀ c ∈ w.node.kids, c.isLeaf = true ∨ badMarks S ty c.marks = []) ∧
          ∀ c ∈ w.node.kids, ∀ x ∈ badMarks S ty c.marks, bad x) :=
      fun w hw => hvs w (by simp [hw])
    simp only [List.foldl_cons] at h
    cases h1 : setBlockTypeVisit S ty attrs mf (.ok (st, skip)) v with
    | error e => rw [h1, sbt_foldl_error] at h; simp at h
    | ok r =>
      obtain ⟨st2, skip2⟩ := r
      rw [h1] at h
      rcases sbtVisit_cases S ty attrs mf L0 hty hp st st2 skip skip2 X v hI hv.1 hv.2.1
          (fun htb => (hv.2.2 htb).1) h1 with
        ⟨rfl, rfl⟩ | ⟨st1, nn, X2, p, e, htb, hnl, hna, hall, hnn, htok, hn1, hs, hI2⟩
      · exact sbt_fold_guard S htr hts ty attrs mf L0 hty hp bad vs st2 skip2 X st' skip' hrest hI hlen h
      · obtain ⟨ha, e1, l1, n1, r1, s1, g1⟩ := sbtVisit_guard S htr hts ty attrs hty st st1 st2 v.node nn p e hlen
          hnl hna hall hnn htok hn1 hs (hv.2.2 htb).2.1 bad (hv.2.2 htb).2.2
        obtain ⟨hb, e2, l2, n2, r2, s2, g2⟩ :=
          sbt_fold_guard S htr hts ty attrs mf L0 hty hp bad vs st2 skip2 X2 st' skip' hrest hI2 l1 h
        refine ⟨ha ++ hb, by rw [e2, e1, List.append_assoc], l2, by rw [histNext_append, n2, n1],
          (histAll_append _ ha hb _).mpr ⟨by rw [n2]; exact r1, r2⟩,
          (histAll_append _ ha hb _).mpr ⟨by rw [n2]; exact s1, s2⟩, fun hInv hR => ?_⟩
        obtain ⟨Ra, Rb⟩ := (histAll_append _ ha hb _).mp hR
        rw [n2] at Ra
        have ga := g1 hInv Ra
        have hInv2 : FamilyInv S st2.tr.doc :=
          (chain_of_invariant S (FamilyInv S) (FamilyGuard S) (family_step S htr hts) ha st2.tr.doc
            (by rw [n1]; exact hInv) r1 ga).2
        exact (histAll_append _ ha hb _).mpr ⟨by rw [n2]; exact ga, g2 hInv2 Rb⟩

/-- **`set_block_type(from, to, type, attrs)` to a plain type, as a whole operation**: what it appended to the
    recorded history has the shapes `SbtShape` and meets `FamilyGuard` given the same-type guard and
    pair-alignment of the recorded steps -/
theorem setBlockType_appended (S : Schema) (htr : compatTransB S = true) (hts : TextLoop S)
    (tr tr1 : Tr) (f t : Nat) (ty : TypeId) (attrs : Attrs)
    (hlen : tr.steps.length = tr.docs.length) (hml : tr.maps.length = tr.steps.length)
    (hn : fnorm tr.doc.kids = true)
    (hty : (S.nodeType ty).isLeaf = false) (hp : S.plainType ty = true)
    (hblocks : sbtBlocksOk S tr.doc f t ty)
    (h : tr.runOp S (.setBlockType f t ty attrs) = some tr1) :
    HistAll (fun s d _ => SbtShape (sbtBad S tr.doc f t ty) s d) (appended tr tr1) tr1.doc ∧
    (FamilyInv S tr.doc →
      HistAll (fun s d d' => s.sameTypeGuard S d ∧ s.undoAligned d') (appended tr tr1) tr1.doc →
      HistAll (FamilyGuard S) (appended tr tr1) tr1.doc) := by
  obtain ⟨st', hs, rfl⟩ := Tr.planned_some (run := fun st => st.setBlockTypeF S f t ty attrs) h
  obtain ⟨sk, hfold⟩ := setBlockTypeF_plain_fold S tr st' f t ty attrs hp hs
  have hI : SbtInv (ftoks tr.doc.kids) tr.steps.length ({ tr := tr } : PSt) 0 [] :=
    { toks := by simp
      maps := by
        intro p _
        rw [List.drop_of_length_le (by simp only; omega)]
        simp [mapsThrough]
      fits := rfl
      mf_le := by simp only; omega
      skip_le := Nat.zero_le _
      norm := hn }
  obtain ⟨h2, e, _, _, _, s2, g2⟩ := sbt_fold_guard S htr hts ty attrs tr.steps.length (ftoks tr.doc.kids) hty hp
    (sbtBad S tr.doc f t ty) (S.docVisits tr.doc f t) { tr := tr } 0 [] { tr := st'.tr } sk
    (fun v hv => by
      obtain ⟨h1, h2⟩ := docVisits_window S tr.doc f t v hv
      exact ⟨h1, h2 hn, fun htb => ⟨(hblocks v hv htb).1, (hblocks v hv htb).2,
        fun c hc x hx => ⟨v, hv, htb, c, hc, hx⟩⟩⟩)
    hI hlen hfold
  rw [appended_eq e]
  exact ⟨s2, g2⟩

/-- **`set_block_type` to a plain type needs no hypothesis on the shape of its recorded steps**: for a
    transform whose current document is valid and in normal form, a non-leaf plain target type
    (`Schema.plainType`: the Fitter is never consulted) and visited textblocks that are nodes with content
    whose marked-and-forbidden children are texts or leaves (`sbtBlocksOk`), `OpResidual` — what
    `opHistory_undo` asks of the operation, the full `FamilyGuard` of every recorded step — follows from what
    is asked of a mark operation: the same-type guard (finding C04-same-type-mark-order) and pair-alignment
    of the recorded steps.  (The recorded steps, visit by visit at mapped positions: the `RemoveMarkStep`s of
    `clear_incompatible` — `clearRm_planGuard`; its `ReplaceStep`s — `clearEditsGuard_family`; no filler
    step; the retype step — `setBlockTypeGuard_family`; validity and normal form are carried through by
    `family_step`.) -/
theorem setBlockType_residual (S : Schema) (htr : compatTransB S = true) (hts : TextLoop S)
    (tr tr1 : Tr) (f t : Nat) (ty : TypeId) (attrs : Attrs)
    (hlen : tr.steps.length = tr.docs.length) (hml : tr.maps.length = tr.steps.length)
    (hI : FamilyInv S tr.doc)
    (hty : (S.nodeType ty).isLeaf = false) (hp : S.plainType ty = true)
    (hblocks : sbtBlocksOk S tr.doc f t ty)
    (h : tr.runOp S (.setBlockType f t ty attrs) = some tr1)
    (hres : HistAll (fun s d d' => s.sameTypeGuard S d ∧ s.undoAligned d') (appended tr tr1) tr1.doc) :
    OpResidual S (.setBlockType f t ty attrs) tr tr1 :=
  (setBlockType_appended S htr hts tr tr1 f t ty attrs hlen hml hI.2 hty hp hblocks h).2 hI hres

/-- the steps `set_block_type` records keep "no text outside the Basic Multilingual Plane" -/
theorem sbtShape_bmp (S : Schema) (bad : Mark → Prop) (s : Step) (d d' : Node) (hs : SbtShape bad s d)
    (h : S.apply s d = .ok d') (hb : bmpDoc d = true) : bmpDoc d' = true := by
  rcases hs with ⟨a, b, x, rfl, _⟩ | ⟨a, b, c, rfl, hc⟩ | ⟨p, node, ty, a, m, rfl, hna, hnl⟩
  · exact (bmp_step S _ d d' (.inl ⟨a, b, x, rfl⟩) hb h).1
  · obtain ⟨e, _, _, _⟩ := apply_replace_toks S d d' a b _ false h
    unfold bmpDoc at hb ⊢
    rw [List.all_eq_true] at hb hc ⊢
    intro x hx
    rw [e, Slice.toks_closed] at hx
    simp only [List.mem_append] at hx
    rcases hx with (hx | hx) | hx
    · exact hb x (List.mem_of_mem_take hx)
    · exact hc x hx
    · exact hb x (List.mem_of_mem_drop hx)
  · exact bmp_of_keeps_content d d' (retype_keeps_content S d d' node p ty a m hna hnl h) hb

/-- a step that is no `RemoveMarkStep` has no same-type guard -/
theorem sbtShape_sameType (S : Schema) (bad : Mark → Prop) (hno : ∀ x, ¬ bad x) (s : Step) (d : Node)
    (hs : SbtShape bad s d) : s.sameTypeGuard S d := by
  rcases hs with ⟨a, b, x, rfl, hx⟩ | ⟨a, b, c, rfl, _⟩ | ⟨p, node, ty, a, m, rfl, _, _⟩
  · exact absurd hx (hno x)
  · trivial
  · trivial

/-- the four structural edits, `set_node_markup` and `set_block_type` -/
def structuralOp' : Op → Bool
  | .setBlockType .. => true
  | op => structuralOp op

/-- what is asked of an operation of the extended structural class — operation-level facts, decidable from
    the current document and the operation's arguments.  `set_block_type(from, to, type, attrs)`: a non-leaf
    plain target type; every visited textblock a node with content whose children carrying a mark the type
    forbids are texts or leaves (`sbtBlocksOk`); and either no visited textblock has a child with a mark the
    new type forbids (nothing is stripped: no `RemoveMarkStep` is recorded), or the recorded steps meet the
    same-type guard of finding C04-same-type-mark-order (as asked of `remove_mark`). -/
def StructResidual' (S : Schema) (op : Op) (tr tr1 : Tr) : Prop :=
  match op with
  | .setBlockType f t ty _ => (S.nodeType ty).isLeaf = false ∧ S.plainType ty = true ∧
      sbtBlocksOk S tr.doc f t ty ∧
      ((∀ x, ¬ sbtBad S tr.doc f t ty x) ∨
        HistAll (fun s d _ => s.sameTypeGuard S d) (appended tr tr1) tr1.doc)
  | op => StructResidual S op tr tr1

/-- one operation of the extended structural class on a BMP document: `OpResidual` holds and the new
    document is again BMP -/
theorem structOp_residual' (S : Schema) (htr : compatTransB S = true) (hts : TextLoop S)
    (op : Op) (tr tr1 : Tr) (hop : structuralOp' op = true)
    (hlen : tr.steps.length = tr.docs.length) (hml : tr.maps.length = tr.steps.length)
    (hI : FamilyInv S tr.doc) (hb : bmpDoc tr.doc = true)
    (h : tr.runOp S op = some tr1) (hres : StructResidual' S op tr tr1) :
    OpResidual S op tr tr1 ∧ bmpDoc tr1.doc = true := by
  have old : ∀ (hop : structuralOp op = true) (hres : StructResidual S op tr tr1),
      OpResidual S op tr tr1 ∧ bmpDoc tr1.doc = true := by
    intro hop hres
    obtain ⟨st, e, ha, hk⟩ := structOp_step S op tr tr1 hop hlen h hres
    have hb1 : bmpDoc tr1.doc = true := bmp_of_keeps_content _ _ hk hb
    have hal : HistAll (fun s _ d' => s.undoAligned d') (appended tr tr1) tr1.doc := by
      rw [appended_eq e]
      exact ⟨undoAligned_of_bmp st tr1.doc hb1, trivial⟩
    refine ⟨?_, hb1⟩
    cases op with
    | split pos depth => exact hal
    | join pos depth => exact hal
    | lift a b depth target => exact ⟨hres, hal⟩
    | wrap a b depth ws => exact ⟨hres.1, hres.2, hal⟩
    | setNodeMarkup pos ty attrs marks => exact ⟨hres, hal⟩
    | step => simp [structuralOp] at hop
    | replace => simp [structuralOp] at hop
    | mark => simp [structuralOp] at hop
    | addNodeMark => simp [structuralOp] at hop
    | removeNodeMark => simp [structuralOp] at hop
    | setNodeAttribute => simp [structuralOp] at hop
    | setBlockType => simp [structuralOp] at hop
  cases op with
  | setBlockType f t ty attrs =>
    obtain ⟨hty, hp, hblocks, hst⟩ := hres
    obtain ⟨shape, g⟩ := setBlockType_appended S htr hts tr tr1 f t ty attrs hlen hml hI.2 hty hp hblocks h
    obtain ⟨h2, e1, _, n1, r1⟩ := (Tr.runOp_grows _ h).hist hlen
    rw [appended_eq e1] at shape g hst
    have hbs : HistAll (fun _ _ d' => bmpDoc d' = true) h2 tr1.doc :=
      histAll_of_inv S (fun d => bmpDoc d = true) (fun s d _ => SbtShape (sbtBad S tr.doc f t ty) s d)
        (fun _ _ d' => bmpDoc d' = true)
        (fun s d d' hbd ha hs => ⟨sbtShape_bmp S _ s d d' hs ha hbd, sbtShape_bmp S _ s d d' hs ha hbd⟩)
        h2 tr1.doc (by rw [n1]; exact hb) r1 shape
    have hb1 : bmpDoc tr1.doc = true :=
      inv_fin_of_hist S (fun d => bmpDoc d = true) (fun s d _ => SbtShape (sbtBad S tr.doc f t ty) s d)
        (fun s d d' hbd ha hs => sbtShape_bmp S _ s d d' hs ha hbd) h2 tr1.doc (by rw [n1]; exact hb) r1 shape
    have hsame : HistAll (fun s d _ => s.sameTypeGuard S d) h2 tr1.doc := by
      rcases hst with hno | hst
      · exact histAll_mono (fun s d _ hs => sbtShape_sameType S _ hno s d hs) _ _ shape
      · exact hst
    refine ⟨?_, hb1⟩
    show HistAll (FamilyGuard S) (appended tr tr1) tr1.doc
    rw [appended_eq e1]
    exact g hI (histAll_and _ _ hsame (histAll_undoAligned_of_bmp _ _ hbs))
  | split pos depth => exact old hop hres
  | join pos depth => exact old hop hres
  | lift a b depth target => exact old hop hres
  | wrap a b depth ws => exact old hop hres
  | setNodeMarkup pos ty attrs marks => exact old hop hres
  | step => simp [structuralOp', structuralOp] at hop
  | replace => simp [structuralOp', structuralOp] at hop
  | mark => simp [structuralOp', structuralOp] at hop
  | addNodeMark => simp [structuralOp', structuralOp] at hop
  | removeNodeMark => simp [structuralOp', structuralOp] at hop
  | setNodeAttribute => simp [structuralOp', structuralOp] at hop

/-- on a document without text outside the BMP, a run of operations of the extended structural class meets
    `OpResidual` -/
theorem structOps_residual' (S : Schema) (htr : compatTransB S = true) (hts : TextLoop S) :
    ∀ (ops : List Op) (tr : Tr), tr.steps.length = tr.docs.length → tr.maps.length = tr.steps.length →
    FamilyInv S tr.doc → bmpDoc tr.doc = true →
    (∀ op ∈ ops, structuralOp' op = true) → OpsAll S (StructResidual' S) tr ops → OpsAll S (OpResidual S) tr ops
  | [], _, _, _, _, _, _, _ => trivial
  | op :: ops, tr, hlen, hml, hI, hb, hall, hres => by
    simp only [OpsAll] at hres ⊢
    cases h1 : tr.runOp S op with
    | none => trivial
    | some tr1 =>
      simp only [h1] at hres ⊢
      have hop := hall op (List.mem_cons_self ..)
      obtain ⟨hr1, hb1⟩ := structOp_residual' S htr hts op tr tr1 hop hlen hml hI hb h1 hres.1
      refine ⟨hr1, ?_⟩
      obtain ⟨h2, e1, l1, n1, r1⟩ := (Tr.runOp_grows op h1).hist hlen
      have g1 := op_family S op tr tr1 hlen hI h1 hr1
      rw [appended_eq e1] at g1
      have hI1 : FamilyInv S tr1.doc :=
        (chain_of_invariant S (FamilyInv S) (FamilyGuard S) (family_step S htr hts) h2 tr1.doc
          (by rw [n1]; exact hI) r1 g1).2
      exact structOps_residual' S htr hts ops tr1 l1 ((Tr.runOp_grows op h1).maps_len hml) hI1 hb1
        (fun o ho => hall o (List.mem_cons_of_mem _ ho)) hres.2

/-- **a history of structural edits, `set_node_markup` and `set_block_type` to plain types is undone exactly**
    (extends `structHistory_undo_bmp`): schema with transitive `compatible_content` and `TextLoop`; `doc`
    valid, in normal form, no text outside the Basic Multilingual Plane; per operation the operation-level
    facts `StructResidual'`.  For `set_block_type` that strips no marks, and for the five other kinds, no
    hypothesis on the recorded steps is left; for a `set_block_type` that strips marks the same-type guard
    of its `RemoveMarkStep`s (finding C04-same-type-mark-order) is. -/
theorem structHistory_undo_bmp' (S : Schema) (htr : compatTransB S = true) (hts : TextLoop S)
    (doc : Node) (ops : List Op) (tr' : Tr) (hd : S.checkNode doc = true) (hn : fnorm doc.kids = true)
    (hb : bmpDoc doc = true) (hall : ∀ op ∈ ops, structuralOp' op = true)
    (h : (Tr.init doc).runOps S ops = some tr')
    (hres : OpsAll S (StructResidual' S) (Tr.init doc) ops) :
    tr'.undo S = .ok doc ∧ FamilyInv S tr'.doc :=
  opHistory_undo S htr hts doc ops tr' hd hn h
    (structOps_residual' S htr hts ops (Tr.init doc) rfl rfl ⟨hd, hn⟩ hb hall hres)


/-! ### node-level operations and `Transform.replace` as whole operations (work package `wk-sbt`) -/

mutual
theorem attrsOk_eq_exact (S : Schema) : ∀ n : Node, attrsOk S n = attrsExact S n
  | .text .. => rfl
  | .leaf .. => rfl
  | .elem t a m kids => by
    simp only [attrsOk, attrsExact, attrsOkKids_eq_exact S kids]
    cases computeAttrs (S.nodeType t).attrs a <;> rfl
theorem attrsOkKids_eq_exact (S : Schema) : ∀ l : List Node, attrsOkKids S l = attrsExactKids S l
  | [] => rfl
  | n :: ns => by simp only [attrsOkKids, attrsExactKids, attrsOk_eq_exact S n, attrsOkKids_eq_exact S ns]
end

theorem uniqueMarkTypes_spec (ms : Marks) (h : uniqueMarkTypes ms = true) :
    ∀ x ∈ ms, ∀ y ∈ ms, x.ty = y.ty → x = y := by
  intro x hx y hy hty
  simp only [uniqueMarkTypes, List.all_eq_true, Bool.or_eq_true, bne_iff_ne, ne_eq, beq_iff_eq] at h
  rcases h x hx y hy with h | h
  · exact absurd hty h
  · exact h

/-- **the executable guard of PM/OpGuardNode.lean implies `FamilyGuard`** (node-level steps; the driver request
    `nodeStepGuard` evaluates it on recorded steps of real histories) -/
theorem nodeStepGuardB_family (S : Schema) (s : Step) (d d' : Node) (h : nodeStepGuardB S s d = true) :
    FamilyGuard S s d d' := by
  cases s with
  | attr pos name value =>
    simp only [nodeStepGuardB, nodeStepGuardParts, Bool.and_true] at h
    show attrsOk S d = true
    rw [attrsOk_eq_exact]; exact h
  | docAttr name value =>
    simp only [nodeStepGuardB, nodeStepGuardParts, Bool.and_true] at h
    show attrsOk S d = true
    rw [attrsOk_eq_exact]; exact h
  | addNodeMark pos m =>
    simp only [nodeStepGuardB, nodeStepGuardParts] at h
    cases hn : d.nodeAt pos with
    | error e =>
      rw [hn] at h
      simp only [Bool.and_true] at h
      exact ⟨by rw [attrsOk_eq_exact]; exact h, fun n hn' => by simp [hn] at hn', fun n hn' => by simp [hn] at hn',
        fun n hn' => by simp [hn] at hn'⟩
    | ok o =>
      cases o with
      | none =>
        rw [hn] at h
        simp only [Bool.and_true] at h
        exact ⟨by rw [attrsOk_eq_exact]; exact h, fun n hn' => by simp [hn] at hn',
          fun n hn' => by simp [hn] at hn', fun n hn' => by simp [hn] at hn'⟩
      | some n =>
        rw [hn] at h
        simp only [Bool.and_eq_true, decide_eq_true_eq, List.all_eq_true, Bool.or_eq_true,
          Bool.not_eq_true'] at h
        obtain ⟨⟨⟨h1, h2⟩, h3⟩, h4⟩ := h
        refine ⟨by rw [attrsOk_eq_exact]; exact h1, ?_, ?_, ?_⟩
        · intro n' hn'
          rw [hn] at hn'
          simp only [Except.ok.injEq, Option.some.injEq] at hn'
          subst hn'; exact h2
        · intro n' hn'
          rw [hn] at hn'
          simp only [Except.ok.injEq, Option.some.injEq] at hn'
          subst hn'; exact uniqueMarkTypes_spec _ h3
        · intro n' hn' x hx hex
          rw [hn] at hn'
          simp only [Except.ok.injEq, Option.some.injEq] at hn'
          subst hn'
          rcases h4 x hx with h | h
          · rw [hex] at h; cases h
          · exact h
  | removeNodeMark pos m =>
    simp only [nodeStepGuardB, nodeStepGuardParts] at h
    cases hn : d.nodeAt pos with
    | error e =>
      rw [hn] at h
      simp only [Bool.and_true] at h
      exact ⟨by rw [attrsOk_eq_exact]; exact h, fun n hn' => by simp [hn] at hn'⟩
    | ok o =>
      cases o with
      | none =>
        rw [hn] at h
        simp only [Bool.and_true] at h
        exact ⟨by rw [attrsOk_eq_exact]; exact h, fun n hn' => by simp [hn] at hn'⟩
      | some n =>
        rw [hn] at h
        simp only [Bool.and_eq_true, Bool.and_true] at h
        refine ⟨by rw [attrsOk_eq_exact]; exact h.1, ?_⟩
        intro n' hn'
        rw [hn] at hn'
        simp only [Except.ok.injEq, Option.some.injEq] at hn'
        subst hn'; exact uniqueMarkTypes_spec _ h.2
  | replace => simp [nodeStepGuardB, nodeStepGuardParts] at h
  | replaceAround => simp [nodeStepGuardB, nodeStepGuardParts] at h
  | addMark => simp [nodeStepGuardB, nodeStepGuardParts] at h
  | removeMark => simp [nodeStepGuardB, nodeStepGuardParts] at h

/-- the node-level operations: `add_node_mark`, `remove_node_mark`, `set_node_attribute` -/
def nodeLevelOp : Op → Bool
  | .addNodeMark .. => true
  | .removeNodeMark .. => true
  | .setNodeAttribute .. => true
  | _ => false

/-- **what is asked of a node-level operation**, on the current document `d` and the operation's arguments —
    exactly the guards of `attr_undo` / `nodeMark_undo`:
    * `set_node_attribute`: every node of `d` carries its attributes as `compute_attrs` builds them (`attrsOk`);
    * `add_node_mark(pos, m)`: `attrsOk`; on the node at `pos`: `m.add_to_set` does not shrink the mark set, no two
      different marks of one type, and every mark `m` excludes excludes `m` too (finding C04-node-mark-inverse);
    * `remove_node_mark(pos, mark or mark type)`: `attrsOk`; no two different marks of one type on the node. -/
def NodeOpGuard (S : Schema) (op : Op) (d : Node) : Prop :=
  match op with
  | .setNodeAttribute _ _ _ => attrsOk S d = true
  | .addNodeMark pos m =>
    attrsOk S d = true ∧
    (∀ n, d.nodeAt pos = .ok (some n) → n.marks.length ≤ (m.addToSet S n.marks).length) ∧
    (∀ n, d.nodeAt pos = .ok (some n) → ∀ x ∈ n.marks, ∀ y ∈ n.marks, x.ty = y.ty → x = y) ∧
    (∀ n, d.nodeAt pos = .ok (some n) → ∀ x ∈ n.marks, S.excludes m.ty x.ty = true → S.excludes x.ty m.ty = true)
  | .removeNodeMark pos _ =>
    attrsOk S d = true ∧
    (∀ n, d.nodeAt pos = .ok (some n) → ∀ x ∈ n.marks, ∀ y ∈ n.marks, x.ty = y.ty → x = y)
  | _ => True

/-- what a node-level operation records: nothing (`remove_node_mark` with a mark type the node does not carry), or
    the one node-level step at the operation's position, which meets `FamilyGuard` under `NodeOpGuard` -/
theorem nodeOp_hist (S : Schema) (op : Op) (tr tr1 : Tr) (hop : nodeLevelOp op = true)
    (hlen : tr.steps.length = tr.docs.length) (h : tr.runOp S op = some tr1) :
    (appended tr tr1 = [] ∧ tr1.doc = tr.doc) ∨
    ∃ pos s, ((∃ m, s = Step.addNodeMark pos m) ∨ (∃ m, s = Step.removeNodeMark pos m) ∨
        (∃ n v, s = Step.attr pos n v)) ∧
      appended tr tr1 = [(s, tr.doc)] ∧ S.apply s tr.doc = .ok tr1.doc ∧
      (NodeOpGuard S op tr.doc → FamilyGuard S s tr.doc tr1.doc) := by
  cases op with
  | setNodeAttribute pos name value =>
    obtain ⟨e, ha⟩ := Tr.step_hist hlen (toOption_some h : tr.step S (.attr pos name value) = .ok tr1)
    exact .inr ⟨pos, _, .inr (.inr ⟨name, value, rfl⟩), appended_eq e, ha, fun hg => hg⟩
  | addNodeMark pos m =>
    obtain ⟨e, ha⟩ := Tr.step_hist hlen (toOption_some h : tr.step S (.addNodeMark pos m) = .ok tr1)
    exact .inr ⟨pos, _, .inl ⟨m, rfl⟩, appended_eq e, ha, fun hg => hg⟩
  | removeNodeMark pos sel =>
    have h' : tr.removeNodeMark S pos sel = .ok tr1 := toOption_some h
    simp only [Tr.removeNodeMark] at h'
    split at h'
    · obtain ⟨e, ha⟩ := Tr.step_hist hlen h'
      exact .inr ⟨pos, _, .inr (.inl ⟨_, rfl⟩), appended_eq e, ha, fun hg => hg⟩
    · split at h'
      · simp at h'
      · simp at h'
      · split at h'
        · simp only [Except.ok.injEq] at h'
          subst h'
          exact .inl ⟨by simp [appended], rfl⟩
        · obtain ⟨e, ha⟩ := Tr.step_hist hlen h'
          exact .inr ⟨pos, _, .inr (.inl ⟨_, rfl⟩), appended_eq e, ha, fun hg => hg⟩
  | step => simp [nodeLevelOp] at hop
  | replace => simp [nodeLevelOp] at hop
  | mark => simp [nodeLevelOp] at hop
  | split => simp [nodeLevelOp] at hop
  | join => simp [nodeLevelOp] at hop
  | lift => simp [nodeLevelOp] at hop
  | wrap => simp [nodeLevelOp] at hop
  | setNodeMarkup => simp [nodeLevelOp] at hop
  | setBlockType => simp [nodeLevelOp] at hop

/-- **node-level operations need only operation-level hypotheses**: `OpResidual` — `FamilyGuard` of the steps
    the operation recorded — follows from `NodeOpGuard` on the current document and the operation's arguments
    (the one recorded step is the `AttrStep` / `AddNodeMarkStep` / `RemoveNodeMarkStep` at the same position;
    `remove_node_mark` with a mark type records the step for the first mark of that type, or nothing) -/
theorem nodeOps_residual (S : Schema) (op : Op) (tr tr1 : Tr) (hop : nodeLevelOp op = true)
    (hlen : tr.steps.length = tr.docs.length) (h : tr.runOp S op = some tr1)
    (hg : NodeOpGuard S op tr.doc) : OpResidual S op tr tr1 := by
  have key : HistAll (FamilyGuard S) (appended tr tr1) tr1.doc := by
    rcases nodeOp_hist S op tr tr1 hop hlen h with ⟨e, _⟩ | ⟨pos, s, _, e, _, g⟩
    · rw [e]; trivial
    · rw [e]; exact ⟨g hg, trivial⟩
  cases op with
  | setNodeAttribute pos name value => exact key
  | addNodeMark pos m => exact key
  | removeNodeMark pos sel => exact key
  | step => simp [nodeLevelOp] at hop
  | replace => simp [nodeLevelOp] at hop
  | mark => simp [nodeLevelOp] at hop
  | split => simp [nodeLevelOp] at hop
  | join => simp [nodeLevelOp] at hop
  | lift => simp [nodeLevelOp] at hop
  | wrap => simp [nodeLevelOp] at hop
  | setNodeMarkup => simp [nodeLevelOp] at hop
  | setBlockType => simp [nodeLevelOp] at hop

/-- a node-level step keeps "no text outside the Basic Multilingual Plane" -/
theorem nodeStep_bmp (S : Schema) (d d' : Node) (pos : Nat) (st : Step)
    (hst : (∃ m, st = .addNodeMark pos m) ∨ (∃ m, st = .removeNodeMark pos m) ∨ (∃ n v, st = .attr pos n v))
    (h : S.apply st d = .ok d') (hb : bmpDoc d = true) : bmpDoc d' = true := by
  obtain ⟨h1, h2, h3, h4, _⟩ := apply_nodeStep_toks S d d' pos st hst h
  unfold bmpDoc at hb ⊢
  rw [List.all_eq_true] at hb ⊢
  intro x hx
  rw [← List.take_append_drop pos (ftoks d'.kids)] at hx
  rcases List.mem_append.mp hx with hx | hx
  · rw [h2] at hx; exact hb x (List.mem_of_mem_take hx)
  · cases hd : (ftoks d'.kids).drop pos with
    | nil => rw [hd] at hx; simp at hx
    | cons y ys =>
      rw [hd] at hx
      have hy : (ftoks d'.kids).getD pos Tok.cl = y := by
        rw [List.getD_eq_getElem?_getD, ← List.head?_drop, hd]; rfl
      have hys : ys = (ftoks d.kids).drop (pos + 1) := by
        rw [← h3, ← List.tail_drop, hd]; rfl
      rcases List.mem_cons.mp hx with rfl | hx
      · rw [← hy, noHigh_shape _ _ h4]
        have hlt : pos < (ftoks d.kids).length := by rw [ftoks_length]; exact h1
        rw [List.getD_eq_getElem?_getD, List.getElem?_eq_getElem hlt]
        exact hb _ (List.getElem_mem hlt)
      · rw [hys] at hx
        exact hb x (List.mem_of_mem_drop hx)

/-! #### `Transform.replace` with a non-empty slice -/

/-- what is still asked of the step `Transform.replace(from, to, slice)` records: the normal form of the emitted
    slice and the validity of its payload (for a `ReplaceAroundStep`: of the slice with the gap inserted — C11,
    another work package is on it), and for a `ReplaceAroundStep` the fit guard `gapFitsBack` (the Fitter emits
    replace-around steps whose gap is not clean but fits back: measured by the tie) -/
def ReplaceResidual (S : Schema) (tr tr1 : Tr) : Prop :=
  HistAll (fun s d _ =>
    match s with
    | .replace _ _ sl _ => fnorm sl.content = true ∧ C01.PayloadValid S d s
    | .replaceAround f t gf gt sl _ _ =>
      fnorm sl.content = true ∧ C01.PayloadValid S d s ∧ gapFitsBack S d f t gf gt = true
    | _ => True) (appended tr tr1) tr1.doc

/-- **`Transform.replace(from, to, slice)` as a whole operation, partial**: `OpResidual` — the full `FamilyGuard`
    of the recorded step — follows from `ReplaceResidual` (normal form and payload validity of the emitted slice;
    `gapFitsBack` for a replace-around step) when the resulting document has no text outside the BMP (then the
    inverse's cuts are pair-aligned).  Discharged here: the shape of a replace-around step the Fitter emits
    (`sl.wf`, `insert ≤ slice.size`, ordered gap: C11 `fit_emits_wf`; its structure flag is never set:
    `replaceStep_range`), pair-alignment; that `Step.invert` does not raise is no hypothesis of `family_step`
    (`invert_ok_of_apply`).
    Full statement (not proved): no `ReplaceResidual` — needs C11 `fit_emits_valid_payload` for insertions and a
    proof that the Fitter's replace-around steps satisfy `gapFitsBack`. -/
theorem replace_residual_partial (S : Schema) (hdet : PM.C11.detB S = true) (hfill : S.fillersOKB = true)
    (hwrap : S.wrapOKB = true) (hlab : S.labelsOKB = true)
    (tr tr1 : Tr) (hlen : tr.steps.length = tr.docs.length) (hv : C01.Valid S tr.doc)
    (hattrs : S.nodeAttrsOK tr.doc = true) (f t : Nat) (sl : Slice) (hreq : sl.wf = true) (hft : f ≤ t)
    (hrun : unplacedWfRun S tr.doc f t sl = true) (hb : bmpDoc tr1.doc = true)
    (h : tr.runOp S (.replace f t sl) = some tr1) (hres : ReplaceResidual S tr tr1) :
    OpResidual S (.replace f t sl) tr tr1 := by
  have h' : tr.planned (fun st => st.replaceF S f t sl) = some tr1 := h
  obtain ⟨st', hrun', htr⟩ := Tr.planned_some h'
  obtain ⟨r, hr, hstep⟩ := PSt.replaceF_spec S { tr := tr } st' f t sl hrun'
  simp only at hr hstep
  show HistAll (FamilyGuard S) (appended tr tr1) tr1.doc
  cases r with
  | none =>
    simp only at hstep
    have e : tr1.hist = tr.hist ++ [] := by rw [← htr, hstep]; simp
    rw [appended_eq e]
    trivial
  | some s =>
    simp only at hstep
    rw [htr] at hstep
    obtain ⟨e, _⟩ := Tr.step_hist hlen hstep
    unfold ReplaceResidual at hres
    rw [appended_eq e] at hres ⊢
    refine ⟨?_, trivial⟩
    have hs := hres.1
    have hal := undoAligned_of_bmp s tr1.doc hb
    rcases replaceStep_range S tr.doc f t sl s hr with ⟨T, sl', rfl, _⟩ | ⟨T, G2, sl', ins, rfl, _⟩
    · exact ⟨hs.1, hs.2, hal⟩
    · obtain ⟨_, hsh⟩ := PM.C11.fit_emits_wf S hdet hfill hwrap hlab tr.doc f t sl hv hattrs hreq hft hrun _ hr
      have hshape := hsh _ _ _ _ _ _ _ rfl
      simp only [aroundShape, Bool.and_eq_true, decide_eq_true_eq] at hshape
      obtain ⟨⟨⟨⟨hwf, hins⟩, g1⟩, g2⟩, g3⟩ := hshape
      exact ⟨hs.1, hwf, ⟨g1, g2, g3⟩, hs.2.1, fun hb' => by simp at hb', undoCutAligned_of_fits S _ _ _ _ _ _ _ _ hs.2.2, hal⟩

/-! #### histories mixing structural edits, node-level edits and mark operations -/

/-- structural edits, `set_node_markup`, `set_block_type`; node-level edits; `add_mark` / `remove_mark` -/
def mixedOp : Op → Bool
  | .mark _ => true
  | op => structuralOp' op || nodeLevelOp op

/-- what is asked of an operation of a mixed history: operation-level facts only, except for the same-type
    guard (finding C04-same-type-mark-order) of the `RemoveMarkStep`s recorded by `remove_mark` (and by a
    `set_block_type` that strips marks).
    * `add_mark` / `remove_mark`: no inline node with content (`flatInline`), same-type guard;
    * node-level edits: `NodeOpGuard`;
    * the others: `StructResidual'`. -/
def MixedResidual (S : Schema) (op : Op) (tr tr1 : Tr) : Prop :=
  match op with
  | .mark _ => flatInline S tr.doc = true ∧
      HistAll (fun s d _ => s.sameTypeGuard S d) (appended tr tr1) tr1.doc
  | .addNodeMark .. => NodeOpGuard S op tr.doc
  | .removeNodeMark .. => NodeOpGuard S op tr.doc
  | .setNodeAttribute .. => NodeOpGuard S op tr.doc
  | op => StructResidual' S op tr tr1

/-- one operation of a mixed history on a BMP document: `OpResidual` holds and the new document is again BMP -/
theorem mixedOp_residual (S : Schema) (htr : compatTransB S = true) (hts : TextLoop S)
    (op : Op) (tr tr1 : Tr) (hop : mixedOp op = true)
    (hlen : tr.steps.length = tr.docs.length) (hml : tr.maps.length = tr.steps.length)
    (hI : FamilyInv S tr.doc) (hb : bmpDoc tr.doc = true)
    (h : tr.runOp S op = some tr1) (hres : MixedResidual S op tr tr1) :
    OpResidual S op tr tr1 ∧ bmpDoc tr1.doc = true := by
  have nodeCase : nodeLevelOp op = true → NodeOpGuard S op tr.doc →
      OpResidual S op tr tr1 ∧ bmpDoc tr1.doc = true := by
    intro hn hg
    refine ⟨nodeOps_residual S op tr tr1 hn hlen h hg, ?_⟩
    rcases nodeOp_hist S op tr tr1 hn hlen h with ⟨_, e⟩ | ⟨pos, s, hk, _, ha, _⟩
    · rw [e]; exact hb
    · exact nodeStep_bmp S tr.doc tr1.doc pos s hk ha hb
  cases op with
  | mark o =>
    obtain ⟨hflat, hty⟩ := hres
    obtain ⟨h2, e, _, n, r, g⟩ := Tr.markOp_hist S tr tr1 o hlen hI.1 hflat (toOption_some h)
    rw [appended_eq e] at hty
    have hal : HistAll (fun s _ d' => s.undoAligned d') h2 tr1.doc :=
      histAll_of_inv S (fun d => bmpDoc d = true) (PlanGuard S) (fun s _ d' => s.undoAligned d')
        (fun s d d' hbd ha hg => (bmp_step S s d d' (planGuard_isMark S s d d' hg) hbd ha).symm)
        h2 tr1.doc (by rw [n]; exact hb) r g
    have hb1 : bmpDoc tr1.doc = true :=
      inv_fin_of_hist S (fun d => bmpDoc d = true) (PlanGuard S)
        (fun s d d' hbd ha hg => (bmp_step S s d d' (planGuard_isMark S s d d' hg) hbd ha).1)
        h2 tr1.doc (by rw [n]; exact hb) r g
    refine ⟨⟨hflat, ?_⟩, hb1⟩
    rw [appended_eq e]
    exact histAll_and _ _ hty hal
  | addNodeMark pos m => exact nodeCase rfl hres
  | removeNodeMark pos sel => exact nodeCase rfl hres
  | setNodeAttribute pos name value => exact nodeCase rfl hres
  | split pos depth => exact structOp_residual' S htr hts _ tr tr1 rfl hlen hml hI hb h hres
  | join pos depth => exact structOp_residual' S htr hts _ tr tr1 rfl hlen hml hI hb h hres
  | lift a b depth target => exact structOp_residual' S htr hts _ tr tr1 rfl hlen hml hI hb h hres
  | wrap a b depth ws => exact structOp_residual' S htr hts _ tr tr1 rfl hlen hml hI hb h hres
  | setNodeMarkup pos ty attrs marks => exact structOp_residual' S htr hts _ tr tr1 rfl hlen hml hI hb h hres
  | setBlockType f t ty attrs => exact structOp_residual' S htr hts _ tr tr1 rfl hlen hml hI hb h hres
  | step => simp [mixedOp, structuralOp', structuralOp, nodeLevelOp] at hop
  | replace => simp [mixedOp, structuralOp', structuralOp, nodeLevelOp] at hop

/-- on a BMP document, a mixed run meets `OpResidual` -/
theorem mixedOps_residual (S : Schema) (htr : compatTransB S = true) (hts : TextLoop S) :
    ∀ (ops : List Op) (tr : Tr), tr.steps.length = tr.docs.length → tr.maps.length = tr.steps.length →
    FamilyInv S tr.doc → bmpDoc tr.doc = true →
    (∀ op ∈ ops, mixedOp op = true) → OpsAll S (MixedResidual S) tr ops → OpsAll S (OpResidual S) tr ops
  | [], _, _, _, _, _, _, _ => trivial
  | op :: ops, tr, hlen, hml, hI, hb, hall, hres => by
    simp only [OpsAll] at hres ⊢
    cases h1 : tr.runOp S op with
    | none => trivial
    | some tr1 =>
      simp only [h1] at hres ⊢
      have hop := hall op (List.mem_cons_self ..)
      obtain ⟨hr1, hb1⟩ := mixedOp_residual S htr hts op tr tr1 hop hlen hml hI hb h1 hres.1
      refine ⟨hr1, ?_⟩
      obtain ⟨h2, e1, l1, n1, r1⟩ := (Tr.runOp_grows op h1).hist hlen
      have g1 := op_family S op tr tr1 hlen hI h1 hr1
      rw [appended_eq e1] at g1
      have hI1 : FamilyInv S tr1.doc :=
        (chain_of_invariant S (FamilyInv S) (FamilyGuard S) (family_step S htr hts) h2 tr1.doc
          (by rw [n1]; exact hI) r1 g1).2
      exact mixedOps_residual S htr hts ops tr1 l1 ((Tr.runOp_grows op h1).maps_len hml) hI1 hb1
        (fun o ho => hall o (List.mem_cons_of_mem _ ho)) hres.2

/-- **a history mixing structural edits (`split`, `join`, `lift`, `wrap`, `set_node_markup`, `set_block_type` to
    plain types), node-level edits (`add_node_mark`, `remove_node_mark`, `set_node_attribute`) and mark
    operations is undone exactly**: schema with transitive `compatible_content` and `TextLoop`; `doc` valid,
    in normal form, no text outside the BMP; per operation `MixedResidual` — facts about the current document
    and the operation's arguments, plus the same-type guard where `RemoveMarkStep`s are recorded. -/
theorem mixedHistory_undo_bmp (S : Schema) (htr : compatTransB S = true) (hts : TextLoop S)
    (doc : Node) (ops : List Op) (tr' : Tr) (hd : S.checkNode doc = true) (hn : fnorm doc.kids = true)
    (hb : bmpDoc doc = true) (hall : ∀ op ∈ ops, mixedOp op = true)
    (h : (Tr.init doc).runOps S ops = some tr')
    (hres : OpsAll S (MixedResidual S) (Tr.init doc) ops) :
    tr'.undo S = .ok doc ∧ FamilyInv S tr'.doc :=
  opHistory_undo S htr hts doc ops tr' hd hn h
    (mixedOps_residual S htr hts ops (Tr.init doc) rfl rfl ⟨hd, hn⟩ hb hall hres)

/-! #### decidable forms of the operation-level hypotheses, non-vacuity -/

/-- `sbtBlocksOk` is decidable from the document and the operation's arguments -/
instance (S : Schema) (d : Node) (f t : Nat) (ty : TypeId) : Decidable (sbtBlocksOk S d f t ty) := by
  unfold sbtBlocksOk; infer_instance

/-- executable form of "the operation strips no mark": no child of a visited textblock carries a mark the new
    type forbids -/
def sbtNoStripB (S : Schema) (d : Node) (f t : Nat) (ty : TypeId) : Bool :=
  (S.docVisits d f t).all (fun v => !S.isTextblockN v.node ||
    v.node.kids.all (fun c => (badMarks S ty c.marks).isEmpty))

theorem sbtNoStripB_spec (S : Schema) (d : Node) (f t : Nat) (ty : TypeId) (h : sbtNoStripB S d f t ty = true) :
    ∀ x, ¬ sbtBad S d f t ty x := by
  intro x ⟨v, hv, htb, c, hc, hx⟩
  simp only [sbtNoStripB, List.all_eq_true, Bool.or_eq_true, Bool.not_eq_true', List.isEmpty_iff] at h
  rcases h v hv with h | h
  · rw [htb] at h; cases h
  · rw [h c hc] at hx; cases hx

/-- the step a node-level operation records, as far as its guard is concerned (for `remove_node_mark` with a mark
    type the guard does not depend on the mark found) -/
def opNodeStep : Op → Option Step
  | .addNodeMark pos m => some (.addNodeMark pos m)
  | .removeNodeMark pos (.inl m) => some (.removeNodeMark pos m)
  | .removeNodeMark pos (.inr t) => some (.removeNodeMark pos ⟨t, []⟩)
  | .setNodeAttribute pos n v => some (.attr pos n v)
  | _ => none

/-- **`NodeOpGuard` is decidable**: it is implied by the executable guard `nodeStepGuardB` (PM/OpGuardNode.lean,
    evaluated by the tie on real documents) of the operation's step on the current document -/
theorem nodeOpGuard_of_B (S : Schema) (op : Op) (d : Node) (s : Step) (hs : opNodeStep op = some s)
    (h : nodeStepGuardB S s d = true) : NodeOpGuard S op d := by
  have g := nodeStepGuardB_family S s d d h
  cases op with
  | addNodeMark pos m =>
    simp only [opNodeStep, Option.some.injEq] at hs; subst hs; exact g
  | removeNodeMark pos sel =>
    cases sel with
    | inl m => simp only [opNodeStep, Option.some.injEq] at hs; subst hs; exact g
    | inr t => simp only [opNodeStep, Option.some.injEq] at hs; subst hs; exact g
  | setNodeAttribute pos n v =>
    simp only [opNodeStep, Option.some.injEq] at hs; subst hs; exact g
  | step => simp [opNodeStep] at hs
  | replace => simp [opNodeStep] at hs
  | mark => simp [opNodeStep] at hs
  | split => simp [opNodeStep] at hs
  | join => simp [opNodeStep] at hs
  | lift => simp [opNodeStep] at hs
  | wrap => simp [opNodeStep] at hs
  | setNodeMarkup => simp [opNodeStep] at hs
  | setBlockType => simp [opNodeStep] at hs

/-! Non-vacuity of the operation-level hypotheses of `structHistory_undo_bmp'` for `set_block_type`: schema
    `doc: (para|head)*`, `para: text*`, `head: text*` (two plain textblock types), document `doc(para("ab"))`,
    `set_block_type(0, 4, head)`: the visited textblock is a node with content, nothing is stripped. -/
private def sbNt (name : String) (dfa : Array DfaState) : NodeType :=
  { name := name, isText := false, isInline := false, isLeaf := false, isAtom := false,
    inlineContent := false, isolating := false, defining := false, code := false,
    dfa := dfa, markSet := some [], attrs := [] }

private def sbDoc : Node := .elem 0 [] [] [.elem 1 [] [] [.text [97, 98] []]]

private def sbS : Schema :=
  { nodes := #[
      sbNt "doc" #[⟨true, [(1, 0), (2, 0)]⟩],
      { sbNt "para" #[⟨true, [(3, 0)]⟩] with inlineContent := true },
      { sbNt "head" #[⟨true, [(3, 0)]⟩] with inlineContent := true },
      { sbNt "text" #[⟨true, []⟩] with isText := true, isInline := true, isLeaf := true, isAtom := true }],
    marks := #[], top := 0, textTy := 3 }

private theorem sb_visits : sbS.docVisits sbDoc 0 4 =
    [⟨.elem 1 [] [] [.text [97, 98] []], 0, 0, 0⟩, ⟨.text [97, 98] [], 1, 1, 0⟩] := by
  simp [Schema.docVisits, sbDoc, nodesBetweenP, Node.size, fsize, Node.kids, Schema.tyOf, Node.tyOr]

example : (sbS.nodeType 2).isLeaf = false ∧ sbS.plainType 2 = true ∧ sbtBlocksOk sbS sbDoc 0 4 2 ∧
    sbtNoStripB sbS sbDoc 0 4 2 = true ∧ bmpDoc sbDoc = true ∧ compatTransB sbS = true ∧
    (sbS.docVisits sbDoc 0 4).any (fun v => sbS.isTextblockN v.node) = true := by
  refine ⟨by decide, by decide, ?_, ?_, by decide, by decide, ?_⟩
  · unfold sbtBlocksOk
    rw [sb_visits]
    decide
  · unfold sbtNoStripB
    rw [sb_visits]
    decide
  · rw [sb_visits]
    decide

/-- … and of `NodeOpGuard` through its executable form -/
example : NodeOpGuard sbS (.setNodeAttribute 0 "x" "1") sbDoc :=
  nodeOpGuard_of_B sbS _ sbDoc _ rfl (by decide)

/-- **typing / inserting leaves needs no payload hypothesis**: for `replace(f, t, slice)` with a closed slice of
    valid leaf / text nodes (`Slice.inlineLeaves`, `Slice.closedValid`: what `insert`, `replace_with` and typing hand
    to `replace` for inline content), `OpResidual` follows from `DeleteResidual` (normal form of the recorded
    slice and pair-alignment for a `ReplaceStep`; the full guard for a `ReplaceAroundStep`) — the
    `C01.PayloadValid` conjunct of the family guard of the recorded `ReplaceStep` is discharged by
    `C11.insertInline_emits_valid_payload` (schema guards `detB`, `fillersOKB`, `wrapOKB`, `labelsOKB`, `leafOkB`,
    `textStableC`, `closableB`; the document valid with creatable element types) -/
theorem insertInline_residual (S : Schema) (hdet : PM.C11.detB S = true) (hfill : S.fillersOKB = true)
    (hwrap : S.wrapOKB = true) (hlab : S.labelsOKB = true) (hleaf : PM.FromDom.leafOkB S = true)
    (hts : textStableC S = true) (hcl : S.closableB = true)
    (tr tr1 : Tr) (hlen : tr.steps.length = tr.docs.length) (hv : C01.Valid S tr.doc)
    (hattrs : S.nodeAttrsOK tr.doc = true) (f t : Nat) (sl : Slice) (hsl : sl.inlineLeaves S = true)
    (hslv : sl.closedValid S = true)
    (h : tr.runOp S (.replace f t sl) = some tr1) (hres : DeleteResidual S tr tr1) :
    OpResidual S (.replace f t sl) tr tr1 := by
  have h' : tr.planned (fun st => st.replaceF S f t sl) = some tr1 := h
  obtain ⟨st', hrun, htr⟩ := Tr.planned_some h'
  obtain ⟨r, hr, hstep⟩ := PSt.replaceF_spec S { tr := tr } st' f t sl hrun
  simp only at hr hstep
  cases r with
  | none =>
    simp only at hstep
    have e : tr1.hist = tr.hist ++ [] := by rw [← htr, hstep]; simp
    show HistAll (FamilyGuard S) (appended tr tr1) tr1.doc
    rw [appended_eq e]
    trivial
  | some s =>
    simp only at hstep
    rw [htr] at hstep
    obtain ⟨e, _⟩ := Tr.step_hist hlen hstep
    show HistAll (FamilyGuard S) (appended tr tr1) tr1.doc
    unfold DeleteResidual at hres
    rw [appended_eq e] at hres ⊢
    refine ⟨?_, trivial⟩
    have hs := hres.1
    obtain ⟨sl', hsl', hval⟩ := PM.C11.insertInline_emits_valid_payload S hdet hfill hwrap hlab hleaf hts hcl tr.doc f t sl
      hsl hslv hv hattrs s hr
    cases s with
    | replace F T sl0 b =>
      simp only at hs
      simp only [Step.sliceOf, Option.some.injEq] at hsl'
      subst hsl'
      exact ⟨hs.1, hval, hs.2⟩
    | replaceAround F T G1 G2 sl0 ins b => exact hs
    | addMark _ _ _ => exact hs
    | removeMark _ _ _ => exact hs
    | attr _ _ _ => exact hs
    | docAttr _ _ => exact hs
    | addNodeMark _ _ => exact hs
    | removeNodeMark _ _ => exact hs

/-- what is still asked of the step a **deletion** records once *all* of its payload and shape conjuncts are
    theorems (C11 `delete_emits_payloadValid`, `delete_emits_wf`, `delete_around_is_move`): normal form of the
    slice and pair-alignment; for a `ReplaceAroundStep` also the fit guard `gapFitsBack` of the inverse (finding
    C04-around-text-gap was its complement; derivable since the repair of `insert_into`: `gapFitsBack_of_applied`) -/
def DeleteResidualAround (S : Schema) (tr tr1 : Tr) : Prop :=
  HistAll (fun s d d' =>
    match s with
    | .replace _ _ sl _ => fnorm sl.content = true ∧ s.undoAligned d'
    | .replaceAround f t gf gt sl _ _ => fnorm sl.content = true ∧ gapFitsBack S d f t gf gt = true ∧ s.undoAligned d'
    | _ => FamilyGuard S s d d') (appended tr tr1) tr1.doc

/-- **deletions need no payload or shape hypothesis, replace-around answers included**: `OpResidual` of
    `delete` / the `delete_range` call follows from `DeleteResidualAround` — for the recorded step, whichever
    kind, `C01.PayloadValid` (for a replace-around answer: of the slice with the gap content in place) is
    `C11.delete_emits_payloadValid`; `Slice.wf`, `insert ≤ slice.size` and the order of range and gap are
    `C11.delete_emits_wf`; the structure flag is not set (`C11.delete_around_is_move`), so the two
    `content_between` conditions are vacuous -/
theorem delete_residual_around (S : Schema) (hdet : PM.C11.detB S = true) (hfill : S.fillersOKB = true)
    (hleaf : PM.FromDom.leafOkB S = true)
    (tr tr1 : Tr) (hlen : tr.steps.length = tr.docs.length) (hv : C01.Valid S tr.doc)
    (hattrs : S.nodeAttrsOK tr.doc = true) (f t : Nat) (hft : f ≤ t)
    (h : tr.runOp S (.replace f t Slice.empty) = some tr1) (hres : DeleteResidualAround S tr tr1) :
    OpResidual S (.replace f t Slice.empty) tr tr1 := by
  have h' : tr.planned (fun st => st.replaceF S f t Slice.empty) = some tr1 := h
  obtain ⟨st', hrun, htr⟩ := Tr.planned_some h'
  obtain ⟨r, hr, hstep⟩ := PSt.replaceF_spec S { tr := tr } st' f t Slice.empty hrun
  simp only at hr hstep
  cases r with
  | none =>
    simp only at hstep
    have e : tr1.hist = tr.hist ++ [] := by rw [← htr, hstep]; simp
    show HistAll (FamilyGuard S) (appended tr tr1) tr1.doc
    rw [appended_eq e]
    trivial
  | some s =>
    simp only at hstep
    rw [htr] at hstep
    obtain ⟨e, _⟩ := Tr.step_hist hlen hstep
    show HistAll (FamilyGuard S) (appended tr tr1) tr1.doc
    unfold DeleteResidualAround at hres
    rw [appended_eq e] at hres ⊢
    refine ⟨?_, trivial⟩
    have hs := hres.1
    have hpv := PM.C11.delete_emits_payloadValid S hdet hleaf tr.doc f t hv hattrs s hr
    obtain ⟨_, hshape⟩ := PM.C11.delete_emits_wf S hdet hfill tr.doc f t hv hattrs hft s hr
    cases s with
    | replace F T sl b =>
      simp only at hs
      exact ⟨hs.1, hpv, hs.2⟩
    | replaceAround F T G1 G2 sl ins b =>
      simp only at hs
      have hsh := hshape F T G1 G2 sl ins b rfl
      simp only [aroundShape, Bool.and_eq_true, decide_eq_true_eq] at hsh
      obtain ⟨⟨⟨⟨hwf, hins⟩, g1⟩, g2⟩, g3⟩ := hsh
      obtain ⟨_, hb, _⟩ := PM.C11.delete_around_is_move S tr.doc f t hv F T G1 G2 sl ins b hr
      refine ⟨hs.1, hwf, ⟨g1, g2, g3⟩, hpv, ?_, undoCutAligned_of_fits S _ _ _ _ _ _ _ _ hs.2.1, hs.2.2⟩
      intro hbt
      rw [hb] at hbt
      cases hbt
    | addMark _ _ _ => exact hs
    | removeMark _ _ _ => exact hs
    | attr _ _ _ => exact hs
    | docAttr _ _ => exact hs
    | addNodeMark _ _ => exact hs
    | removeNodeMark _ _ => exact hs

/-- what is still asked of the step an **insertion of inline leaves** records, with the shape conjuncts of a
    replace-around answer discharged (C11 `insertInline_emits_wf`, `fit_around_shape`): for a `ReplaceStep` normal
    form and pair-alignment; for a `ReplaceAroundStep` normal form, the payload with the gap content in place,
    the fit guard of the inverse and pair-alignment -/
def InsertInlineResidualAround (S : Schema) (tr tr1 : Tr) : Prop :=
  HistAll (fun s d d' =>
    match s with
    | .replace _ _ sl _ => fnorm sl.content = true ∧ s.undoAligned d'
    | .replaceAround f t gf gt sl _ _ => fnorm sl.content = true ∧ C01.PayloadValid S d s ∧
        gapFitsBack S d f t gf gt = true ∧ s.undoAligned d'
    | _ => FamilyGuard S s d d') (appended tr tr1) tr1.doc

/-- `insertInline_residual` with the shape of a replace-around answer discharged as well: `Slice.wf`,
    `insert ≤ slice.size`, the order of range and gap (`C11.insertInline_emits_wf`) and the structure flag
    (`C11.fit_around_shape`: never set by `replace_step`) -/
theorem insertInline_residual_around (S : Schema) (hdet : PM.C11.detB S = true) (hfill : S.fillersOKB = true)
    (hwrap : S.wrapOKB = true) (hlab : S.labelsOKB = true) (hleaf : PM.FromDom.leafOkB S = true)
    (hts : textStableC S = true) (hcl : S.closableB = true)
    (tr tr1 : Tr) (hlen : tr.steps.length = tr.docs.length) (hv : C01.Valid S tr.doc)
    (hattrs : S.nodeAttrsOK tr.doc = true) (f t : Nat) (hft : f ≤ t) (sl : Slice) (hsl : sl.inlineLeaves S = true)
    (hslv : sl.closedValid S = true)
    (h : tr.runOp S (.replace f t sl) = some tr1) (hres : InsertInlineResidualAround S tr tr1) :
    OpResidual S (.replace f t sl) tr tr1 := by
  have h' : tr.planned (fun st => st.replaceF S f t sl) = some tr1 := h
  obtain ⟨st', hrun, htr⟩ := Tr.planned_some h'
  obtain ⟨r, hr, hstep⟩ := PSt.replaceF_spec S { tr := tr } st' f t sl hrun
  simp only at hr hstep
  cases r with
  | none =>
    simp only at hstep
    have e : tr1.hist = tr.hist ++ [] := by rw [← htr, hstep]; simp
    show HistAll (FamilyGuard S) (appended tr tr1) tr1.doc
    rw [appended_eq e]
    trivial
  | some s =>
    simp only at hstep
    rw [htr] at hstep
    obtain ⟨e, _⟩ := Tr.step_hist hlen hstep
    show HistAll (FamilyGuard S) (appended tr tr1) tr1.doc
    unfold InsertInlineResidualAround at hres
    rw [appended_eq e] at hres ⊢
    refine ⟨?_, trivial⟩
    have hs := hres.1
    obtain ⟨sl', hsl', hval⟩ := PM.C11.insertInline_emits_valid_payload S hdet hfill hwrap hlab hleaf hts hcl tr.doc f t sl
      hsl hslv hv hattrs s hr
    obtain ⟨_, hshape⟩ := PM.C11.insertInline_emits_wf S hdet hfill hwrap tr.doc f t sl hsl hv hattrs hft s hr
    cases s with
    | replace F T sl0 b =>
      simp only at hs
      simp only [Step.sliceOf, Option.some.injEq] at hsl'
      subst hsl'
      exact ⟨hs.1, hval, hs.2⟩
    | replaceAround F T G1 G2 sl0 ins b =>
      simp only at hs
      have hsh := hshape F T G1 G2 sl0 ins b rfl
      simp only [aroundShape, Bool.and_eq_true, decide_eq_true_eq] at hsh
      obtain ⟨⟨⟨⟨hwf, hins⟩, g1⟩, g2⟩, g3⟩ := hsh
      obtain ⟨hb, _⟩ := PM.C11.fit_around_shape S tr.doc f t sl F T G1 G2 sl0 ins b hr
      refine ⟨hs.1, hwf, ⟨g1, g2, g3⟩, hs.2.1, ?_, undoCutAligned_of_fits S _ _ _ _ _ _ _ _ hs.2.2.1, hs.2.2.2⟩
      intro hbt
      rw [hb] at hbt
      cases hbt
    | addMark _ _ _ => exact hs
    | removeMark _ _ _ => exact hs
    | attr _ _ _ => exact hs
    | docAttr _ _ => exact hs
    | addNodeMark _ _ => exact hs
    | removeNodeMark _ _ => exact hs

/-- **any `replace(f, t, slice)`: no payload hypothesis for the recorded `ReplaceStep` when the Fitter's validity invariant
    holds at the end of its loop** — `OpResidual` follows from `DeleteResidual` (normal form and pair-alignment for a
    `ReplaceStep`; the full guard for a `ReplaceAroundStep`) for every request slice that is itself a valid payload,
    given the decidable run hypothesis `fitEndInv S doc f t slice ≠ some false` (PM/FitGuards.lean: `placed` valid up to
    its open sides and known to the frontier when the loop ends; evaluated by the driver on every generated request,
    never false so far) — `C11.fit_emits_valid_payload_of_inv` -/
theorem replace_residual_of_inv (S : Schema) (hdet : PM.C11.detB S = true) (hfill : S.fillersOKB = true)
    (hleaf : PM.FromDom.leafOkB S = true) (hts : textStableC S = true) (hcl : S.closableB = true)
    (tr tr1 : Tr) (hlen : tr.steps.length = tr.docs.length)
    (hattrs : S.nodeAttrsOK tr.doc = true) (f t : Nat) (sl : Slice)
    (hslv : openValid S sl.openStart sl.openEnd sl.content = true)
    (hend : fitEndInv S tr.doc f t sl ≠ some false)
    (h : tr.runOp S (.replace f t sl) = some tr1) (hres : DeleteResidual S tr tr1) :
    OpResidual S (.replace f t sl) tr tr1 := by
  have h' : tr.planned (fun st => st.replaceF S f t sl) = some tr1 := h
  obtain ⟨st', hrun, htr⟩ := Tr.planned_some h'
  obtain ⟨r, hr, hstep⟩ := PSt.replaceF_spec S { tr := tr } st' f t sl hrun
  simp only at hr hstep
  cases r with
  | none =>
    simp only at hstep
    have e : tr1.hist = tr.hist ++ [] := by rw [← htr, hstep]; simp
    show HistAll (FamilyGuard S) (appended tr tr1) tr1.doc
    rw [appended_eq e]
    trivial
  | some s =>
    simp only at hstep
    rw [htr] at hstep
    obtain ⟨e, _⟩ := Tr.step_hist hlen hstep
    show HistAll (FamilyGuard S) (appended tr tr1) tr1.doc
    unfold DeleteResidual at hres
    rw [appended_eq e] at hres ⊢
    refine ⟨?_, trivial⟩
    have hs := hres.1
    obtain ⟨sl', hsl', hval⟩ := PM.C11.fit_emits_valid_payload_of_inv S hdet hfill hleaf hts hcl tr.doc f t sl hslv hattrs s hr
      hend
    cases s with
    | replace F T sl0 b =>
      simp only at hs
      simp only [Step.sliceOf, Option.some.injEq] at hsl'
      subst hsl'
      exact ⟨hs.1, hval, hs.2⟩
    | replaceAround F T G1 G2 sl0 ins b => exact hs
    | addMark _ _ _ => exact hs
    | removeMark _ _ _ => exact hs
    | attr _ _ _ => exact hs
    | docAttr _ _ => exact hs
    | addNodeMark _ _ => exact hs
    | removeNodeMark _ _ => exact hs

/-- **any `replace(f, t, slice)` with a loosely valid slice: no payload hypothesis for the recorded `ReplaceStep`** —
    `OpResidual` follows from `DeleteResidual` (normal form and pair-alignment for a `ReplaceStep`; the full guard for a
    `ReplaceAroundStep`) for every request slice that is loosely valid (`Slice.looseValid`: what a slice cut from a valid
    document satisfies), under the hypotheses of `C11.fit_emits_valid_payload`: the schema guards, the document valid with
    creatable element types, and the run hypothesis `unplacedWfRun` of `C11.fit_emits_wf` (the unplaced slice stays
    well-formed).  The run hypothesis `fitEndInv` of `replace_residual_of_inv` is gone. -/
theorem replace_residual (S : Schema) (hdet : PM.C11.detB S = true) (hfill : S.fillersOKB = true)
    (hwrap : S.wrapOKB = true) (hlab : S.labelsOKB = true) (hleaf : PM.FromDom.leafOkB S = true)
    (hts : textStableC S = true) (hcl : S.closableB = true)
    (tr tr1 : Tr) (hlen : tr.steps.length = tr.docs.length) (hv : C01.Valid S tr.doc)
    (hattrs : S.nodeAttrsOK tr.doc = true) (f t : Nat) (sl : Slice) (hloose : sl.looseValid S = true)
    (hrun : unplacedWfRun S tr.doc f t sl = true)
    (h : tr.runOp S (.replace f t sl) = some tr1) (hres : DeleteResidual S tr tr1) :
    OpResidual S (.replace f t sl) tr tr1 := by
  have h' : tr.planned (fun st => st.replaceF S f t sl) = some tr1 := h
  obtain ⟨st', hrun', htr⟩ := Tr.planned_some h'
  obtain ⟨r, hr, hstep⟩ := PSt.replaceF_spec S { tr := tr } st' f t sl hrun'
  simp only at hr hstep
  cases r with
  | none =>
    simp only at hstep
    have e : tr1.hist = tr.hist ++ [] := by rw [← htr, hstep]; simp
    show HistAll (FamilyGuard S) (appended tr tr1) tr1.doc
    rw [appended_eq e]
    trivial
  | some s =>
    simp only at hstep
    rw [htr] at hstep
    obtain ⟨e, _⟩ := Tr.step_hist hlen hstep
    show HistAll (FamilyGuard S) (appended tr tr1) tr1.doc
    unfold DeleteResidual at hres
    rw [appended_eq e] at hres ⊢
    refine ⟨?_, trivial⟩
    have hs := hres.1
    obtain ⟨sl', hsl', hval⟩ := PM.C11.fit_emits_valid_payload S hdet hfill hwrap hlab hleaf hts hcl tr.doc f t sl hloose hv
      hattrs hrun s hr
    cases s with
    | replace F T sl0 b =>
      simp only at hs
      simp only [Step.sliceOf, Option.some.injEq] at hsl'
      subst hsl'
      exact ⟨hs.1, hval, hs.2⟩
    | replaceAround F T G1 G2 sl0 ins b => exact hs
    | addMark _ _ _ => exact hs
    | removeMark _ _ _ => exact hs
    | attr _ _ _ => exact hs
    | docAttr _ _ => exact hs
    | addNodeMark _ _ => exact hs
    | removeNodeMark _ _ => exact hs

/-- `replace_residual` for a slice **cut from a valid document** (`src.slice a b`: what `Transform.replace` is handed by
    every caller that copies content): loosely valid by `C11.slice_loose`, so no payload hypothesis for the recorded
    `ReplaceStep` -/
theorem replace_residual_cut (S : Schema) (hdet : PM.C11.detB S = true) (hfill : S.fillersOKB = true)
    (hwrap : S.wrapOKB = true) (hlab : S.labelsOKB = true) (hleaf : PM.FromDom.leafOkB S = true)
    (hts : textStableC S = true) (hcl : S.closableB = true)
    (tr tr1 : Tr) (hlen : tr.steps.length = tr.docs.length) (hv : C01.Valid S tr.doc)
    (hattrs : S.nodeAttrsOK tr.doc = true) (f t : Nat) (src : Node) (a b : Nat) (sl : Slice)
    (hsrc : C01.Valid S src) (hcut : src.slice a b = .ok sl)
    (hrun : unplacedWfRun S tr.doc f t sl = true)
    (h : tr.runOp S (.replace f t sl) = some tr1) (hres : DeleteResidual S tr tr1) :
    OpResidual S (.replace f t sl) tr tr1 := by
  have h' : tr.planned (fun st => st.replaceF S f t sl) = some tr1 := h
  obtain ⟨st', hrun', htr⟩ := Tr.planned_some h'
  obtain ⟨r, hr, hstep⟩ := PSt.replaceF_spec S { tr := tr } st' f t sl hrun'
  simp only at hr hstep
  cases r with
  | none =>
    simp only at hstep
    have e : tr1.hist = tr.hist ++ [] := by rw [← htr, hstep]; simp
    show HistAll (FamilyGuard S) (appended tr tr1) tr1.doc
    rw [appended_eq e]
    trivial
  | some s =>
    simp only at hstep
    rw [htr] at hstep
    obtain ⟨e, _⟩ := Tr.step_hist hlen hstep
    show HistAll (FamilyGuard S) (appended tr tr1) tr1.doc
    unfold DeleteResidual at hres
    rw [appended_eq e] at hres ⊢
    refine ⟨?_, trivial⟩
    have hs := hres.1
    obtain ⟨sl', hsl', hval⟩ := PM.C11.fit_emits_valid_payload_cut S hdet hfill hwrap hlab hleaf hts hcl tr.doc f t src a b sl
      hsrc hcut hv hattrs hrun s hr
    cases s with
    | replace F T sl0 b0 =>
      simp only at hs
      simp only [Step.sliceOf, Option.some.injEq] at hsl'
      subst hsl'
      exact ⟨hs.1, hval, hs.2⟩
    | replaceAround F T G1 G2 sl0 ins b0 => exact hs
    | addMark _ _ _ => exact hs
    | removeMark _ _ _ => exact hs
    | attr _ _ _ => exact hs
    | docAttr _ _ => exact hs
    | addNodeMark _ _ => exact hs
    | removeNodeMark _ _ => exact hs

/-! #### editing histories: structural, node-level and mark operations, deletions, typing, pasted slices -/

/-- what `Transform.replace(from, to, slice)` appended to the history: nothing (then the document is unchanged), or
    the one step `replace_step` answered on the current document, applied -/
theorem replaceOp_recorded (S : Schema) (tr tr1 : Tr) (hlen : tr.steps.length = tr.docs.length) (f t : Nat)
    (sl : Slice) (h : tr.runOp S (.replace f t sl) = some tr1) :
    (appended tr tr1 = [] ∧ tr1.doc = tr.doc) ∨
    ∃ s, replaceStep S tr.doc f t sl = .ok (some s) ∧ appended tr tr1 = [(s, tr.doc)] ∧
      S.apply s tr.doc = .ok tr1.doc := by
  have h' : tr.planned (fun st => st.replaceF S f t sl) = some tr1 := h
  obtain ⟨st', hrun, htr⟩ := Tr.planned_some h'
  obtain ⟨r, hr, hstep⟩ := PSt.replaceF_spec S { tr := tr } st' f t sl hrun
  simp only at hr hstep
  cases r with
  | none =>
    simp only at hstep
    have e : tr1.hist = tr.hist ++ [] := by rw [← htr, hstep]; simp
    exact Or.inl ⟨appended_eq e, by rw [← htr, hstep]⟩
  | some s =>
    simp only at hstep
    rw [htr] at hstep
    obtain ⟨e, ha⟩ := Tr.step_hist hlen hstep
    exact Or.inr ⟨s, hr, appended_eq e, ha⟩

/-- what is asked of the step a `replace` recorded: the emitted slice is in normal form (no empty text node, no
    adjacent text nodes with equal marks); for a `ReplaceAroundStep` the fit guard `gapFitsBack` of the inverse.
    Both are Boolean functions of the recorded step and the document it was applied to. -/
def RecordedReplaceOk (S : Schema) (s : Step) (d : Node) : Prop :=
  match s with
  | .replace _ _ sl _ => fnorm sl.content = true
  | .replaceAround f t gf gt sl _ _ => fnorm sl.content = true ∧ gapFitsBack S d f t gf gt = true
  | _ => True

instance (S : Schema) (s : Step) (d : Node) : Decidable (RecordedReplaceOk S s d) := by
  unfold RecordedReplaceOk; split <;> infer_instance

/-- **the family guard of a step `replace_step` answered**, from: the shape facts and the payload validity of the
    emitted slice (C11, by request class), the document valid and in normal form
    (the payload of a replace-around answer with the gap content in place: `C11.aroundPayload_of_norm`, which since the
    repair of `insert_into` needs no schema condition — `FromDom.textStableB S` was a hypothesis here and of every
    theorem below that goes through this one), the new document BMP, and `RecordedReplaceOk` -/
theorem fitted_familyGuard (S : Schema) (doc doc' : Node) (f t : Nat)
    (req : Slice) (hv : C01.Valid S doc) (hn : fnorm doc.kids = true) (s : Step)
    (hr : replaceStep S doc f t req = .ok (some s))
    (hwf : StepWF s = true ∧
      (∀ F T G1 G2 sl' ins b, s = .replaceAround F T G1 G2 sl' ins b → aroundShape F T G1 G2 sl' ins = true))
    (hp : ∃ sl', s.sliceOf = some sl' ∧ openValid S sl'.openStart sl'.openEnd sl'.content = true)
    (hb : bmpDoc doc' = true) (hok : RecordedReplaceOk S s doc) : FamilyGuard S s doc doc' := by
  have hal := undoAligned_of_bmp s doc' hb
  rcases replaceStep_range S doc f t req s hr with ⟨T, sl', rfl, _⟩ | ⟨T, G2, sl', ins, rfl, _⟩
  · obtain ⟨sl2, hs2, hval⟩ := hp
    simp only [Step.sliceOf, Option.some.injEq] at hs2
    subst hs2
    exact ⟨hok, hval, hal⟩
  · have hshape := hwf.2 _ _ _ _ _ _ _ rfl
    simp only [aroundShape, Bool.and_eq_true, decide_eq_true_eq] at hshape
    obtain ⟨⟨⟨⟨hwf', hins⟩, g1⟩, g2⟩, g3⟩ := hshape
    have hpa := PM.C11.aroundPayload_of_norm S doc f t req hv _ hr hwf.1 hp
      (by
        intro sl2 hs2
        simp only [Step.sliceOf, Option.some.injEq] at hs2
        subst hs2
        exact hok.1) _ _ _ _ _ _ _ rfl
    exact ⟨hok.1, hwf', ⟨g1, g2, g3⟩, hpa, fun hb' => by simp at hb', undoCutAligned_of_fits S _ _ _ _ _ _ _ _ hok.2, hal⟩

/-- the classes of `replace(from, to, slice)` requests covered: a **deletion** (`Slice.empty`); **typing /
    inserting inline leaves** (a closed slice of valid leaf / text nodes); a well-formed slice that passes the
    executable check `Slice.looseValid`, or **any slice cut from a valid document** (`src.slice a b`: what every
    caller that copies content hands to `replace`) — these two with the decidable run hypothesis `unplacedWfRun`
    of `C11.fit_emits_wf` (the unplaced rest of the slice stays well-formed while the Fitter runs) -/
def ReplaceKind (S : Schema) (d : Node) (f t : Nat) (sl : Slice) : Prop :=
  sl = Slice.empty ∨ (sl.inlineLeaves S = true ∧ sl.closedValid S = true) ∨
  (sl.looseValid S = true ∧ sl.wf = true ∧ unplacedWfRun S d f t sl = true) ∨
  ((∃ src a b, C01.Valid S src ∧ src.slice a b = .ok sl) ∧ unplacedWfRun S d f t sl = true)

/-- structural edits, node-level edits, mark operations, and `replace` -/
def editOp : Op → Bool
  | .replace .. => true
  | op => mixedOp op

/-- what is asked of an operation of an editing history.  `replace(f, t, slice)`: `f ≤ t`; the current document's
    element nodes have creatable types and attributes (`nodeAttrsOK`); the request is of one of the classes
    `ReplaceKind`; the new document has no text outside the BMP; `RecordedReplaceOk` of the recorded step.  Every
    other operation: `MixedResidual`. -/
def EditResidual (S : Schema) (op : Op) (tr tr1 : Tr) : Prop :=
  match op with
  | .replace f t sl => f ≤ t ∧ S.nodeAttrsOK tr.doc = true ∧ ReplaceKind S tr.doc f t sl ∧
      bmpDoc tr1.doc = true ∧ HistAll (fun s d _ => RecordedReplaceOk S s d) (appended tr tr1) tr1.doc
  | op => MixedResidual S op tr tr1

/-- **`replace(f, t, slice)` of one of the classes `ReplaceKind` as a whole operation**: `OpResidual` — the full family
    guard of the recorded step — from `EditResidual` -/
theorem replaceOp_residual (S : Schema) (hdet : PM.C11.detB S = true) (hfill : S.fillersOKB = true)
    (hwrap : S.wrapOKB = true) (hlab : S.labelsOKB = true) (hleaf : PM.FromDom.leafOkB S = true)
    (hts : textStableC S = true) (hcl : S.closableB = true)
    (tr tr1 : Tr) (hlen : tr.steps.length = tr.docs.length) (hI : FamilyInv S tr.doc) (f t : Nat) (sl : Slice)
    (h : tr.runOp S (.replace f t sl) = some tr1) (hres : EditResidual S (.replace f t sl) tr tr1) :
    OpResidual S (.replace f t sl) tr tr1 := by
  obtain ⟨hft, hattrs, hkind, hb, hrec⟩ := hres
  show HistAll (FamilyGuard S) (appended tr tr1) tr1.doc
  rcases replaceOp_recorded S tr tr1 hlen f t sl h with ⟨e, _⟩ | ⟨s, hr, e, _⟩
  · rw [e]; trivial
  · rw [e] at hrec ⊢
    refine ⟨?_, trivial⟩
    have hok : RecordedReplaceOk S s tr.doc := hrec.1
    have hv : C01.Valid S tr.doc := hI.1
    show FamilyGuard S s tr.doc tr1.doc
    rcases hkind with rfl | ⟨hsl, hslv⟩ | ⟨hloose, hwf, hrun⟩ | ⟨⟨src, a, b, hsrc, hcut⟩, hrun⟩
    · exact fitted_familyGuard S tr.doc tr1.doc f t _ hv hI.2 s hr
        (PM.C11.delete_emits_wf S hdet hfill tr.doc f t hv hattrs hft s hr)
        (PM.C11.delete_emits_valid_payload S hdet hleaf tr.doc f t hv hattrs s hr) hb hok
    · exact fitted_familyGuard S tr.doc tr1.doc f t _ hv hI.2 s hr
        (PM.C11.insertInline_emits_wf S hdet hfill hwrap tr.doc f t sl hsl hv hattrs hft s hr)
        (PM.C11.insertInline_emits_valid_payload S hdet hfill hwrap hlab hleaf hts hcl tr.doc f t sl hsl hslv hv
          hattrs s hr) hb hok
    · exact fitted_familyGuard S tr.doc tr1.doc f t _ hv hI.2 s hr
        (PM.C11.fit_emits_wf S hdet hfill hwrap hlab tr.doc f t sl hv hattrs hwf hft hrun s hr)
        (PM.C11.fit_emits_valid_payload S hdet hfill hwrap hlab hleaf hts hcl tr.doc f t sl hloose hv hattrs hrun
          s hr) hb hok
    · exact fitted_familyGuard S tr.doc tr1.doc f t _ hv hI.2 s hr
        (PM.C11.fit_emits_wf S hdet hfill hwrap hlab tr.doc f t sl hv hattrs (sliceKids_wf _ _ _ _ hcut) hft hrun s
          hr)
        (PM.C11.fit_emits_valid_payload_cut S hdet hfill hwrap hlab hleaf hts hcl tr.doc f t src a b sl hsrc hcut hv
          hattrs hrun s hr) hb hok

/-- one operation of an editing history on a BMP document: `OpResidual` holds and the new document is again BMP -/
theorem editOp_residual (S : Schema) (htr : compatTransB S = true) (htl : TextLoop S)
    (hdet : PM.C11.detB S = true) (hfill : S.fillersOKB = true)
    (hwrap : S.wrapOKB = true) (hlab : S.labelsOKB = true) (hleaf : PM.FromDom.leafOkB S = true)
    (hts : textStableC S = true) (hcl : S.closableB = true)
    (op : Op) (tr tr1 : Tr) (hop : editOp op = true)
    (hlen : tr.steps.length = tr.docs.length) (hml : tr.maps.length = tr.steps.length)
    (hI : FamilyInv S tr.doc) (hb : bmpDoc tr.doc = true)
    (h : tr.runOp S op = some tr1) (hres : EditResidual S op tr tr1) :
    OpResidual S op tr tr1 ∧ bmpDoc tr1.doc = true := by
  cases op with
  | replace f t sl =>
    exact ⟨replaceOp_residual S hdet hfill hwrap hlab hleaf hts hcl tr tr1 hlen hI f t sl h hres, hres.2.2.2.1⟩
  | _ => exact mixedOp_residual S htr htl _ tr tr1 hop hlen hml hI hb h hres

/-- on a BMP document, an editing run meets `OpResidual` -/
theorem editOps_residual (S : Schema) (htr : compatTransB S = true) (htl : TextLoop S)
    (hdet : PM.C11.detB S = true) (hfill : S.fillersOKB = true)
    (hwrap : S.wrapOKB = true) (hlab : S.labelsOKB = true) (hleaf : PM.FromDom.leafOkB S = true)
    (hts : textStableC S = true) (hcl : S.closableB = true) :
    ∀ (ops : List Op) (tr : Tr), tr.steps.length = tr.docs.length → tr.maps.length = tr.steps.length →
    FamilyInv S tr.doc → bmpDoc tr.doc = true →
    (∀ op ∈ ops, editOp op = true) → OpsAll S (EditResidual S) tr ops → OpsAll S (OpResidual S) tr ops
  | [], _, _, _, _, _, _, _ => trivial
  | op :: ops, tr, hlen, hml, hI, hb, hall, hres => by
    simp only [OpsAll] at hres ⊢
    cases h1 : tr.runOp S op with
    | none => trivial
    | some tr1 =>
      simp only [h1] at hres ⊢
      have hop := hall op (List.mem_cons_self ..)
      obtain ⟨hr1, hb1⟩ := editOp_residual S htr htl hdet hfill hwrap hlab hleaf hts hcl op tr tr1 hop hlen hml
        hI hb h1 hres.1
      refine ⟨hr1, ?_⟩
      obtain ⟨h2, e1, l1, n1, r1⟩ := (Tr.runOp_grows op h1).hist hlen
      have g1 := op_family S op tr tr1 hlen hI h1 hr1
      rw [appended_eq e1] at g1
      have hI1 : FamilyInv S tr1.doc :=
        (chain_of_invariant S (FamilyInv S) (FamilyGuard S) (family_step S htr htl) h2 tr1.doc
          (by rw [n1]; exact hI) r1 g1).2
      exact editOps_residual S htr htl hdet hfill hwrap hlab hleaf hts hcl ops tr1 l1
        ((Tr.runOp_grows op h1).maps_len hml) hI1 hb1
        (fun o ho => hall o (List.mem_cons_of_mem _ ho)) hres.2

/-- **an editing history is undone exactly** — structural edits (`split`, `join`, `lift`, `wrap`, `set_node_markup`,
    `set_block_type` to plain types), node-level edits, mark operations, **deletions, typing / inserting inline
    leaves, and `replace` with a loosely valid slice (every slice cut from a valid document)**, in any order.
    Schema guards (all Boolean, all true of the bundled family); `doc` valid, in normal form, no text outside the
    BMP; per operation `EditResidual`: for `replace(f, t, slice)` facts about the operation's arguments on the
    current document (`f ≤ t`, `nodeAttrsOK`, the class of the slice with its run hypothesis `unplacedWfRun`), about
    the new document (BMP) and about the recorded step (`RecordedReplaceOk`: normal form of the emitted slice;
    `gapFitsBack` for a replace-around answer) — nothing about the Fitter's internal state; no payload, shape or
    pair-alignment hypothesis. -/
theorem editHistory_undo_bmp (S : Schema) (htr : compatTransB S = true) (htl : TextLoop S)
    (hdet : PM.C11.detB S = true) (hfill : S.fillersOKB = true)
    (hwrap : S.wrapOKB = true) (hlab : S.labelsOKB = true) (hleaf : PM.FromDom.leafOkB S = true)
    (hts : textStableC S = true) (hcl : S.closableB = true)
    (doc : Node) (ops : List Op) (tr' : Tr) (hd : S.checkNode doc = true) (hn : fnorm doc.kids = true)
    (hb : bmpDoc doc = true) (hall : ∀ op ∈ ops, editOp op = true)
    (h : (Tr.init doc).runOps S ops = some tr')
    (hres : OpsAll S (EditResidual S) (Tr.init doc) ops) :
    tr'.undo S = .ok doc ∧ FamilyInv S tr'.doc :=
  opHistory_undo S htr htl doc ops tr' hd hn h
    (editOps_residual S htr htl hdet hfill hwrap hlab hleaf hts hcl ops (Tr.init doc) rfl rfl ⟨hd, hn⟩ hb
      hall hres)

/-! #### the new document of a deletion / an inline insertion is BMP again -/

theorem all_noHigh_iff : ∀ (l : List Tok), l.all Tok.noHigh = true ↔ ∀ c ∈ textUnits l, isHigh c = false
  | [] => by simp [textUnits]
  | x :: r => by
    have ih := all_noHigh_iff r
    cases x <;> simp [textUnits, Tok.noHigh, ih]

theorem isSubseq_mem {α} [DecidableEq α] : ∀ (a b : List α), isSubseq a b = true → ∀ c ∈ a, c ∈ b
  | [], _, _, c, hc => by cases hc
  | _ :: _, [], h, _, _ => by simp [isSubseq] at h
  | x :: xs, y :: ys, h, c, hc => by
    unfold isSubseq at h
    split at h
    · rename_i e
      subst e
      rcases List.mem_cons.mp hc with rfl | hm
      · exact List.mem_cons_self
      · exact List.mem_cons_of_mem _ (isSubseq_mem xs ys h c hm)
    · exact List.mem_cons_of_mem _ (isSubseq_mem (x :: xs) ys h c hc)

/-- content kept around the range, inserted text from BMP text only: the new document is BMP -/
theorem bmp_of_kept (d d' : Node) (f t : Nat) (req : List Nat) (hb : bmpDoc d = true)
    (hreq : ∀ c ∈ req, isHigh c = false)
    (hk : PM.C11.Kept (ftoks d.kids) (ftoks d'.kids) f t req) : bmpDoc d' = true := by
  obtain ⟨mid, e, hs⟩ := hk.text
  unfold bmpDoc at hb ⊢
  rw [all_noHigh_iff] at hb ⊢
  intro c hc
  rw [e] at hc
  simp only [List.mem_append] at hc
  rcases hc with (hc | hc) | hc
  · exact hb c ((textUnits_sublist (List.take_sublist _ _)).subset hc)
  · exact hreq c (isSubseq_mem _ _ hs c hc)
  · exact hb c ((textUnits_sublist (List.drop_sublist _ _)).subset hc)

/-- the text of a slice is BMP -/
def sliceBmp (sl : Slice) : Bool := (sliceToks' sl).all Tok.noHigh

/-- **the new document of a fitted replace is BMP when the document and the requested slice are**: the tokens of the new
    document are tokens of the old one and tokens of the emitted slice (`apply_replace_toks`,
    `apply_replaceAround_toks`), and the text of the emitted slice is a subsequence of the requested text
    (`C11.fit_text`) -/
theorem fitted_bmp (S : Schema) (doc doc' : Node) (f t : Nat) (req : Slice) (hwf : req.wf = true) (s : Step)
    (hr : replaceStep S doc f t req = .ok (some s))
    (hsh : ∀ F T G1 G2 sl' ins b, s = .replaceAround F T G1 G2 sl' ins b → aroundShape F T G1 G2 sl' ins = true)
    (ha : S.apply s doc = .ok doc') (hb : bmpDoc doc = true) (hsb : sliceBmp req = true) :
    bmpDoc doc' = true := by
  obtain ⟨sl', hs, hsub⟩ := PM.C11.fit_text S doc f t req s hwf hr
  unfold sliceBmp at hsb
  unfold bmpDoc at hb ⊢
  rw [all_noHigh_iff] at hb hsb ⊢
  have hsl : ∀ c ∈ textUnits sl'.toks, isHigh c = false := fun c hc => hsb c (hsub.subset hc)
  rcases replaceStep_range S doc f t req s hr with ⟨T, sl2, rfl, _⟩ | ⟨T, G2, sl2, ins, rfl, _⟩
  · simp only [Step.sliceOf, Option.some.injEq] at hs
    subst hs
    obtain ⟨e, _⟩ := apply_replace_toks S doc doc' f T sl2 false ha
    intro c hc
    rw [e] at hc
    simp only [textUnits_append, List.mem_append] at hc
    rcases hc with (hc | hc) | hc
    · exact hb c ((textUnits_sublist (List.take_sublist _ _)).subset hc)
    · exact hsl c hc
    · exact hb c ((textUnits_sublist (List.drop_sublist _ _)).subset hc)
  · simp only [Step.sliceOf, Option.some.injEq] at hs
    subst hs
    have hshape := hsh _ _ _ _ _ _ _ rfl
    simp only [aroundShape, Bool.and_eq_true, decide_eq_true_eq] at hshape
    obtain ⟨⟨⟨⟨hwf', hins⟩, g1⟩, g2⟩, g3⟩ := hshape
    obtain ⟨e, _⟩ := apply_replaceAround_toks S doc doc' f T t G2 sl2 ins false hwf' hins ⟨g1, g2, g3⟩ ha
    intro c hc
    rw [e] at hc
    simp only [textUnits_append, List.mem_append] at hc
    rcases hc with (((hc | hc) | hc) | hc) | hc
    · exact hb c ((textUnits_sublist (List.take_sublist _ _)).subset hc)
    · exact hsl c ((textUnits_sublist (List.take_sublist _ _)).subset hc)
    · exact hb c ((textUnits_sublist ((List.take_sublist _ _).trans (List.drop_sublist _ _))).subset hc)
    · exact hsl c ((textUnits_sublist (List.drop_sublist _ _)).subset hc)
    · exact hb c ((textUnits_sublist (List.drop_sublist _ _)).subset hc)

/-- what is asked of the replace-around answer to a deletion: the fit guard of its inverse -/
def AroundFitsBack (S : Schema) (s : Step) (d : Node) : Prop :=
  match s with
  | .replaceAround f t gf gt _ _ _ => gapFitsBack S d f t gf gt = true
  | _ => True

/-- `EditResidual` with what is derivable derived.  `replace(f, t, slice)`: `f ≤ t`, `nodeAttrsOK` of the current
    document, and by class
    * **deletion**: only `gapFitsBack` if the recorded step is a `ReplaceAroundStep` — the emitted slice has no text node
      (normal form: `replaceStep_empty_norm`), the new document is BMP (`C11.delete_valid`: its text is the text
      outside the range);
    * **typing / inline leaves** with BMP text (`sliceBmp`): `RecordedReplaceOk` — the new document is BMP
      (`C11.insertInline_valid_of_norm`: its text is the old text around the range and text of the slice);
    * **loosely valid / cut from a valid document**: `unplacedWfRun`, BMP text in the slice (`fitted_bmp`; or the new
      document BMP), `RecordedReplaceOk`.
    Every other operation: `MixedResidual`. -/
def EditResidual' (S : Schema) (op : Op) (tr tr1 : Tr) : Prop :=
  match op with
  | .replace f t sl => f ≤ t ∧ S.nodeAttrsOK tr.doc = true ∧
      ((sl = Slice.empty ∧ HistAll (fun s d _ => AroundFitsBack S s d) (appended tr tr1) tr1.doc) ∨
       (sl.inlineLeaves S = true ∧ sl.closedValid S = true ∧ sliceBmp sl = true ∧
          HistAll (fun s d _ => RecordedReplaceOk S s d) (appended tr tr1) tr1.doc) ∨
       (((sl.looseValid S = true ∧ sl.wf = true) ∨ ∃ src a b, C01.Valid S src ∧ src.slice a b = .ok sl) ∧
          unplacedWfRun S tr.doc f t sl = true ∧ (sliceBmp sl = true ∨ bmpDoc tr1.doc = true) ∧
          HistAll (fun s d _ => RecordedReplaceOk S s d) (appended tr tr1) tr1.doc))
  | op => MixedResidual S op tr tr1

/-- `EditResidual'` implies `EditResidual` on a valid BMP document in normal form -/
theorem editResidual_of' (S : Schema) (hdet : PM.C11.detB S = true) (hfill : S.fillersOKB = true)
    (hwrap : S.wrapOKB = true) (hlab : S.labelsOKB = true) (hleaf : PM.FromDom.leafOkB S = true)
    (hts : textStableC S = true) (hcl : S.closableB = true)
    (op : Op) (tr tr1 : Tr) (hlen : tr.steps.length = tr.docs.length) (hI : FamilyInv S tr.doc)
    (hb : bmpDoc tr.doc = true) (h : tr.runOp S op = some tr1) (hres : EditResidual' S op tr tr1) :
    EditResidual S op tr tr1 := by
  cases op with
  | replace f t sl =>
    obtain ⟨hft, hattrs, hk⟩ := hres
    have hv : C01.Valid S tr.doc := hI.1
    rcases hk with ⟨rfl, hrec⟩ | ⟨hsl, hslv, hsb, hrec⟩ | ⟨hk, hrun, hb1, hrec⟩
    · refine ⟨hft, hattrs, Or.inl rfl, ?_⟩
      rcases replaceOp_recorded S tr tr1 hlen f t _ h with ⟨e, ed⟩ | ⟨s, hr, e, ha⟩
      · rw [e, ed]; exact ⟨hb, trivial⟩
      · rw [e] at hrec ⊢
        have hn := replaceStep_empty_norm S tr.doc f t hv s hr
        have hkept := (PM.C11.delete_valid S hdet hfill hleaf tr.doc tr1.doc f t hv hattrs hft s hr ha).2.1
        refine ⟨bmp_of_kept tr.doc tr1.doc f t [] hb (fun c hc => by cases hc) hkept, ?_, trivial⟩
        have h1 : AroundFitsBack S s tr.doc := hrec.1
        show RecordedReplaceOk S s tr.doc
        cases s with
        | replace F T sl0 b0 => exact hn _ rfl
        | replaceAround F T G1 G2 sl0 ins b0 => exact ⟨hn _ rfl, h1⟩
        | _ => trivial
    · refine ⟨hft, hattrs, Or.inr (Or.inl ⟨hsl, hslv⟩), ?_, hrec⟩
      rcases replaceOp_recorded S tr tr1 hlen f t _ h with ⟨e, ed⟩ | ⟨s, hr, e, ha⟩
      · rw [ed]; exact hb
      · rw [e] at hrec
        have hok : RecordedReplaceOk S s tr.doc := hrec.1
        have hkept := (PM.C11.insertInline_valid_of_norm S hdet hfill hwrap hlab hleaf hts hcl tr.doc tr1.doc f t sl
          hsl hslv hv hattrs hft s hr (by
            intro F T G1 G2 sl' ins b e'
            subst e'
            exact hok.1) ha).2
        refine bmp_of_kept tr.doc tr1.doc f t _ hb ?_ hkept
        unfold sliceBmp at hsb
        exact (all_noHigh_iff _).mp hsb
    · have hwf : sl.wf = true := by
        rcases hk with ⟨_, h2⟩ | ⟨src, a, b, _, hcut⟩
        · exact h2
        · exact sliceKids_wf _ _ _ _ hcut
      have hb1' : bmpDoc tr1.doc = true := by
        rcases hb1 with hsb | hb1
        · rcases replaceOp_recorded S tr tr1 hlen f t _ h with ⟨_, ed⟩ | ⟨s, hr, _, ha⟩
          · rw [ed]; exact hb
          · exact fitted_bmp S tr.doc tr1.doc f t sl hwf s hr
              (PM.C11.fit_emits_wf S hdet hfill hwrap hlab tr.doc f t sl hv hattrs hwf hft hrun s hr).2 ha hb hsb
        · exact hb1
      refine ⟨hft, hattrs, ?_, hb1', hrec⟩
      rcases hk with ⟨h1, h2⟩ | hcut
      · exact Or.inr (Or.inr (Or.inl ⟨h1, h2, hrun⟩))
      · exact Or.inr (Or.inr (Or.inr ⟨hcut, hrun⟩))
  | _ => exact hres

/-- on a BMP document, an editing run with `EditResidual'` meets `OpResidual` -/
theorem editOps_residual' (S : Schema) (htr : compatTransB S = true) (htl : TextLoop S)
    (hdet : PM.C11.detB S = true) (hfill : S.fillersOKB = true)
    (hwrap : S.wrapOKB = true) (hlab : S.labelsOKB = true) (hleaf : PM.FromDom.leafOkB S = true)
    (hts : textStableC S = true) (hcl : S.closableB = true) :
    ∀ (ops : List Op) (tr : Tr), tr.steps.length = tr.docs.length → tr.maps.length = tr.steps.length →
    FamilyInv S tr.doc → bmpDoc tr.doc = true →
    (∀ op ∈ ops, editOp op = true) → OpsAll S (EditResidual' S) tr ops → OpsAll S (OpResidual S) tr ops
  | [], _, _, _, _, _, _, _ => trivial
  | op :: ops, tr, hlen, hml, hI, hb, hall, hres => by
    simp only [OpsAll] at hres ⊢
    cases h1 : tr.runOp S op with
    | none => trivial
    | some tr1 =>
      simp only [h1] at hres ⊢
      have hop := hall op (List.mem_cons_self ..)
      have hres1 := editResidual_of' S hdet hfill hwrap hlab hleaf hts hcl op tr tr1 hlen hI hb h1 hres.1
      obtain ⟨hr1, hb1⟩ := editOp_residual S htr htl hdet hfill hwrap hlab hleaf hts hcl op tr tr1 hop hlen hml
        hI hb h1 hres1
      refine ⟨hr1, ?_⟩
      obtain ⟨h2, e1, l1, n1, r1⟩ := (Tr.runOp_grows op h1).hist hlen
      have g1 := op_family S op tr tr1 hlen hI h1 hr1
      rw [appended_eq e1] at g1
      have hI1 : FamilyInv S tr1.doc :=
        (chain_of_invariant S (FamilyInv S) (FamilyGuard S) (family_step S htr htl) h2 tr1.doc
          (by rw [n1]; exact hI) r1 g1).2
      exact editOps_residual' S htr htl hdet hfill hwrap hlab hleaf hts hcl ops tr1 l1
        ((Tr.runOp_grows op h1).maps_len hml) hI1 hb1
        (fun o ho => hall o (List.mem_cons_of_mem _ ho)) hres.2

/-- **`editHistory_undo_bmp` with the derivable hypotheses derived** (`EditResidual'`): a deletion asks for nothing
    but `f ≤ t`, `nodeAttrsOK` of the current document and — only when the Fitter answered a `ReplaceAroundStep` —
    `gapFitsBack`; typing / inserting inline leaves asks for BMP text in the slice instead of a BMP result. -/
theorem editHistory_undo_bmp' (S : Schema) (htr : compatTransB S = true) (htl : TextLoop S)
    (hdet : PM.C11.detB S = true) (hfill : S.fillersOKB = true)
    (hwrap : S.wrapOKB = true) (hlab : S.labelsOKB = true) (hleaf : PM.FromDom.leafOkB S = true)
    (hts : textStableC S = true) (hcl : S.closableB = true)
    (doc : Node) (ops : List Op) (tr' : Tr) (hd : S.checkNode doc = true) (hn : fnorm doc.kids = true)
    (hb : bmpDoc doc = true) (hall : ∀ op ∈ ops, editOp op = true)
    (h : (Tr.init doc).runOps S ops = some tr')
    (hres : OpsAll S (EditResidual' S) (Tr.init doc) ops) :
    tr'.undo S = .ok doc ∧ FamilyInv S tr'.doc :=
  opHistory_undo S htr htl doc ops tr' hd hn h
    (editOps_residual' S htr htl hdet hfill hwrap hlab hleaf hts hcl ops (Tr.init doc) rfl rfl ⟨hd, hn⟩ hb
      hall hres)

/-- **every replace-around answer of `replace_step` fits back** (document valid, in normal form, BMP; the step
    applied): its gap `[to, to.end())` runs to the end of the parent of `to` — the token behind it is that node's
    closing token (`replaceStep_range`) — so after `remove_between` the gap goes back at the end of that node's
    remaining content, a pair-aligned cut, and what `insert_into` builds and validates there is the node's original
    content (`gapFitsBack_of_tail`, Proofs/GapTailFits.lean, from `gapFitsBack_of_valid`).  The gap may start inside
    a text child (not `gapClean`).  No schema condition: until the repair of `insert_into` (finding
    C04-around-text-gap) this needed `TextLoop S`. -/
theorem fit_around_gapFitsBack (S : Schema) (doc doc' : Node) (f t : Nat) (req : Slice)
    (hd : S.checkNode doc = true) (hn : fnorm doc.kids = true) (hb : bmpDoc doc = true) (hft : f ≤ t) (s : Step)
    (hr : replaceStep S doc f t req = .ok (some s)) (ha : S.apply s doc = .ok doc') :
    AroundFitsBack S s doc := by
  rcases replaceStep_range S doc f t req s hr with ⟨T, sl', rfl, _⟩ | ⟨T, G2, sl', ins, rfl, h1, h2, h3, h4⟩
  · trivial
  · show gapFitsBack S doc f T t G2 = true
    have hg : f ≤ t ∧ t ≤ G2 ∧ G2 ≤ T := ⟨hft, h1, by omega⟩
    obtain ⟨inv, hi⟩ := invert_ok_replaceAround_full S doc doc' f T t G2 sl' ins false hn hg
      (Or.inr (alignedAt_of_bmp doc.kids t hb)) ha
    obtain ⟨gap, inserted, hgap, hgo1, hgo2, _, _⟩ := apply_replaceAround_parts S doc doc' f T t G2 sl' ins false ha
    simp only [Schema.invert] at hi
    cases hsl : doc.slice f T with
    | error e => simp [hsl] at hi
    | ok old =>
      simp only [hsl] at hi
      cases hrm : old.removeBetween (t - f) (G2 - f) with
      | error e => simp [hrm] at hi
      | ok rem =>
        exact gapFitsBack_of_tail S doc f T t G2 old rem gap hd hn ⟨hft, h1, h2⟩ h3 hsl hgap ⟨hgo1, hgo2⟩ hrm
          (h4 G2 (Nat.le_refl _) h2)

/-- the slice of a recorded replace / replace-around step is in normal form -/
def RecordedNorm (s : Step) : Prop :=
  match s with
  | .replace _ _ sl _ => fnorm sl.content = true
  | .replaceAround _ _ _ _ sl _ _ => fnorm sl.content = true
  | _ => True

instance (s : Step) : Decidable (RecordedNorm s) := by
  unfold RecordedNorm; split <;> infer_instance

/-- **what is asked of an operation of an editing history, final form** (schema with `TextLoop`: no `gapFitsBack`).
    `replace(f, t, slice)`: `f ≤ t`, `nodeAttrsOK` of the current document, and by class
    * **deletion** (`Slice.empty`): nothing more;
    * **typing / inline leaves** (`inlineLeaves`, `closedValid`) with BMP text: the emitted slice in normal form;
    * **loosely valid / cut from a valid document**: the run hypothesis `unplacedWfRun`, BMP text in the slice (or a
      BMP result), the emitted slice in normal form.
    Every other operation: `MixedResidual`. -/
def EditHyps (S : Schema) (op : Op) (tr tr1 : Tr) : Prop :=
  match op with
  | .replace f t sl => f ≤ t ∧ S.nodeAttrsOK tr.doc = true ∧
      (sl = Slice.empty ∨
       (sl.inlineLeaves S = true ∧ sl.closedValid S = true ∧ sliceBmp sl = true ∧
          HistAll (fun s _ _ => RecordedNorm s) (appended tr tr1) tr1.doc) ∨
       (((sl.looseValid S = true ∧ sl.wf = true) ∨ ∃ src a b, C01.Valid S src ∧ src.slice a b = .ok sl) ∧
          unplacedWfRun S tr.doc f t sl = true ∧ (sliceBmp sl = true ∨ bmpDoc tr1.doc = true) ∧
          HistAll (fun s _ _ => RecordedNorm s) (appended tr tr1) tr1.doc))
  | op => MixedResidual S op tr tr1

/-- `EditHyps` implies `EditResidual'` on a valid BMP document in normal form, for a schema with `TextLoop` -/
theorem editResidual'_of_hyps (S : Schema) (htl : TextLoop S)
    (op : Op) (tr tr1 : Tr) (hlen : tr.steps.length = tr.docs.length) (hI : FamilyInv S tr.doc)
    (hb : bmpDoc tr.doc = true) (h : tr.runOp S op = some tr1) (hres : EditHyps S op tr tr1) :
    EditResidual' S op tr tr1 := by
  cases op with
  | replace f t sl =>
    obtain ⟨hft, hattrs, hk⟩ := hres
    refine ⟨hft, hattrs, ?_⟩
    have key : ∀ (P : Step → Prop), HistAll (fun s _ _ => P s) (appended tr tr1) tr1.doc →
        HistAll (fun s d _ => P s ∧ AroundFitsBack S s d) (appended tr tr1) tr1.doc := by
      intro P hP
      rcases replaceOp_recorded S tr tr1 hlen f t sl h with ⟨e, _⟩ | ⟨s, hr, e, ha⟩
      · rw [e]; trivial
      · rw [e] at hP ⊢
        exact ⟨⟨hP.1, fit_around_gapFitsBack S tr.doc tr1.doc f t sl hI.1 hI.2 hb hft s hr ha⟩, trivial⟩
    have conv : HistAll (fun s _ _ => RecordedNorm s) (appended tr tr1) tr1.doc →
        HistAll (fun s d _ => RecordedReplaceOk S s d) (appended tr tr1) tr1.doc := by
      intro hP
      refine histAll_mono ?_ _ _ (key _ hP)
      intro s d _ ⟨h1, h2⟩
      cases s with
      | replace _ _ _ _ => exact h1
      | replaceAround _ _ _ _ _ _ _ => exact ⟨h1, h2⟩
      | _ => trivial
    rcases hk with rfl | ⟨hsl, hslv, hsb, hrec⟩ | ⟨hk, hrun, hb1, hrec⟩
    · refine Or.inl ⟨rfl, ?_⟩
      have := key (fun _ => True) (histAll_mono (fun _ _ _ _ => trivial) _ _
        (show HistAll (fun _ _ _ => True) (appended tr tr1) tr1.doc from by
          generalize appended tr tr1 = l
          induction l with
          | nil => trivial
          | cons x xs ih => exact ⟨trivial, ih⟩))
      exact histAll_mono (fun s d _ hh => hh.2) _ _ this
    · exact Or.inr (Or.inl ⟨hsl, hslv, hsb, conv hrec⟩)
    · exact Or.inr (Or.inr ⟨hk, hrun, hb1, conv hrec⟩)
  | _ => exact hres

/-- on a BMP document, an editing run with `EditHyps` meets `OpResidual` -/
theorem editOps_hyps (S : Schema) (htr : compatTransB S = true) (htl : TextLoop S)
    (hdet : PM.C11.detB S = true) (hfill : S.fillersOKB = true)
    (hwrap : S.wrapOKB = true) (hlab : S.labelsOKB = true) (hleaf : PM.FromDom.leafOkB S = true)
    (hts : textStableC S = true) (hcl : S.closableB = true) :
    ∀ (ops : List Op) (tr : Tr), tr.steps.length = tr.docs.length → tr.maps.length = tr.steps.length →
    FamilyInv S tr.doc → bmpDoc tr.doc = true →
    (∀ op ∈ ops, editOp op = true) → OpsAll S (EditHyps S) tr ops → OpsAll S (OpResidual S) tr ops
  | [], _, _, _, _, _, _, _ => trivial
  | op :: ops, tr, hlen, hml, hI, hb, hall, hres => by
    simp only [OpsAll] at hres ⊢
    cases h1 : tr.runOp S op with
    | none => trivial
    | some tr1 =>
      simp only [h1] at hres ⊢
      have hop := hall op (List.mem_cons_self ..)
      have hres0 := editResidual'_of_hyps S htl op tr tr1 hlen hI hb h1 hres.1
      have hres1 := editResidual_of' S hdet hfill hwrap hlab hleaf hts hcl op tr tr1 hlen hI hb h1 hres0
      obtain ⟨hr1, hb1⟩ := editOp_residual S htr htl hdet hfill hwrap hlab hleaf hts hcl op tr tr1 hop hlen hml
        hI hb h1 hres1
      refine ⟨hr1, ?_⟩
      obtain ⟨h2, e1, l1, n1, r1⟩ := (Tr.runOp_grows op h1).hist hlen
      have g1 := op_family S op tr tr1 hlen hI h1 hr1
      rw [appended_eq e1] at g1
      have hI1 : FamilyInv S tr1.doc :=
        (chain_of_invariant S (FamilyInv S) (FamilyGuard S) (family_step S htr htl) h2 tr1.doc
          (by rw [n1]; exact hI) r1 g1).2
      exact editOps_hyps S htr htl hdet hfill hwrap hlab hleaf hts hcl ops tr1 l1
        ((Tr.runOp_grows op h1).maps_len hml) hI1 hb1
        (fun o ho => hall o (List.mem_cons_of_mem _ ho)) hres.2

/-- **an editing history is undone exactly — operation-level hypotheses only.**  Structural edits, node-level edits,
    mark operations, deletions, typing / inserting inline leaves, `replace` with a loosely valid slice or a slice cut
    from a valid document, in any order.  Schema guards: all Boolean, all true of the bundled family.  `doc` valid,
    in normal form, BMP.  Per operation `EditHyps`: for a **deletion** `f ≤ t` and `nodeAttrsOK` of the current
    document, nothing about the recorded step; for the other `replace` classes additionally BMP text, the run
    hypothesis `unplacedWfRun` (loosely valid / cut slices) and the normal form of the emitted slice.  No payload,
    shape, pair-alignment or `gapFitsBack` hypothesis; nothing about the Fitter's internal state. -/
theorem editHistory_undo (S : Schema) (htr : compatTransB S = true) (htl : TextLoop S)
    (hdet : PM.C11.detB S = true) (hfill : S.fillersOKB = true)
    (hwrap : S.wrapOKB = true) (hlab : S.labelsOKB = true) (hleaf : PM.FromDom.leafOkB S = true)
    (hts : textStableC S = true) (hcl : S.closableB = true)
    (doc : Node) (ops : List Op) (tr' : Tr) (hd : S.checkNode doc = true) (hn : fnorm doc.kids = true)
    (hb : bmpDoc doc = true) (hall : ∀ op ∈ ops, editOp op = true)
    (h : (Tr.init doc).runOps S ops = some tr')
    (hres : OpsAll S (EditHyps S) (Tr.init doc) ops) :
    tr'.undo S = .ok doc ∧ FamilyInv S tr'.doc :=
  opHistory_undo S htr htl doc ops tr' hd hn h
    (editOps_hyps S htr htl hdet hfill hwrap hlab hleaf hts hcl ops (Tr.init doc) rfl rfl ⟨hd, hn⟩ hb
      hall hres)

/-- **a deletion as a whole operation, no hypothesis about the recorded step**: `Transform.delete(f, t)` =
    `replace(f, t, Slice.empty)` on a valid BMP document in normal form whose element nodes are creatable
    (`nodeAttrsOK`), `f ≤ t`: `OpResidual` — the full family guard of whatever step the Fitter answered, replace or
    replace-around — holds, and the new document is BMP again.  Payload validity, shape, normal form of the emitted
    slice (`replaceStep_empty_norm`), `gapFitsBack` (`fit_around_gapFitsBack`) and pair-alignment are all derived. -/
theorem deleteOp_residual (S : Schema) (htr : compatTransB S = true) (htl : TextLoop S)
    (hdet : PM.C11.detB S = true) (hfill : S.fillersOKB = true)
    (hwrap : S.wrapOKB = true) (hlab : S.labelsOKB = true) (hleaf : PM.FromDom.leafOkB S = true)
    (hts : textStableC S = true) (hcl : S.closableB = true)
    (tr tr1 : Tr) (hlen : tr.steps.length = tr.docs.length) (hml : tr.maps.length = tr.steps.length)
    (hI : FamilyInv S tr.doc) (hb : bmpDoc tr.doc = true) (hattrs : S.nodeAttrsOK tr.doc = true)
    (f t : Nat) (hft : f ≤ t) (h : tr.runOp S (.replace f t Slice.empty) = some tr1) :
    OpResidual S (.replace f t Slice.empty) tr tr1 ∧ bmpDoc tr1.doc = true := by
  have h0 : EditHyps S (.replace f t Slice.empty) tr tr1 := ⟨hft, hattrs, Or.inl rfl⟩
  have h1 := editResidual'_of_hyps S htl _ tr tr1 hlen hI hb h h0
  have h2 := editResidual_of' S hdet hfill hwrap hlab hleaf hts hcl _ tr tr1 hlen hI hb h h1
  exact editOp_residual S htr htl hdet hfill hwrap hlab hleaf hts hcl _ tr tr1 rfl hlen hml hI hb h h2

/-- **typing / inserting inline leaves as a whole operation**: the only hypothesis about the recorded step is the
    normal form of the emitted slice -/
theorem insertInlineOp_residual (S : Schema) (htr : compatTransB S = true) (htl : TextLoop S)
    (hdet : PM.C11.detB S = true) (hfill : S.fillersOKB = true)
    (hwrap : S.wrapOKB = true) (hlab : S.labelsOKB = true) (hleaf : PM.FromDom.leafOkB S = true)
    (hts : textStableC S = true) (hcl : S.closableB = true)
    (tr tr1 : Tr) (hlen : tr.steps.length = tr.docs.length) (hml : tr.maps.length = tr.steps.length)
    (hI : FamilyInv S tr.doc) (hb : bmpDoc tr.doc = true) (hattrs : S.nodeAttrsOK tr.doc = true)
    (f t : Nat) (hft : f ≤ t) (sl : Slice) (hsl : sl.inlineLeaves S = true) (hslv : sl.closedValid S = true)
    (hsb : sliceBmp sl = true) (h : tr.runOp S (.replace f t sl) = some tr1)
    (hnorm : HistAll (fun s _ _ => RecordedNorm s) (appended tr tr1) tr1.doc) :
    OpResidual S (.replace f t sl) tr tr1 ∧ bmpDoc tr1.doc = true := by
  have h0 : EditHyps S (.replace f t sl) tr tr1 := ⟨hft, hattrs, Or.inr (Or.inl ⟨hsl, hslv, hsb, hnorm⟩)⟩
  have h1 := editResidual'_of_hyps S htl _ tr tr1 hlen hI hb h h0
  have h2 := editResidual_of' S hdet hfill hwrap hlab hleaf hts hcl _ tr tr1 hlen hI hb h h1
  exact editOp_residual S htr htl hdet hfill hwrap hlab hleaf hts hcl _ tr tr1 rfl hlen hml hI hb h h2

/-! #### `RecordedNorm` discharged: the Fitter emits normal-form slices (`C11.fit_emits_norm`) -/

/-- the step `replace_step` answers for a request slice in normal form has a slice in normal form -/
theorem recordedNorm_of_fit (S : Schema) (doc : Node) (f t : Nat) (sl : Slice) (hsn : fnorm sl.content = true)
    (s : Step) (hr : replaceStep S doc f t sl = .ok (some s)) : RecordedNorm s := by
  have h := PM.C11.fit_emits_norm S doc f t sl hsn s hr
  cases s with
  | replace _ _ sl' _ => exact h sl' rfl
  | replaceAround _ _ _ _ sl' _ _ => exact h sl' rfl
  | _ => trivial

/-- **what is asked of an operation of an editing history — nothing about a recorded step.**
    `replace(f, t, slice)`: `f ≤ t`, `nodeAttrsOK` of the current document, and by class
    * **deletion** (`Slice.empty`): nothing more;
    * **typing / inline leaves** (`inlineLeaves`, `closedValid`) with BMP text: the slice in normal form;
    * **loosely valid / cut from a valid document**: the run hypothesis `unplacedWfRun`, BMP text in the slice (or a
      BMP result), the slice in normal form.
    Every other operation: `MixedResidual`.  (`EditHyps` with `RecordedNorm` of the emitted slice replaced by `fnorm`
    of the *request* slice.) -/
def EditHyps' (S : Schema) (op : Op) (tr tr1 : Tr) : Prop :=
  match op with
  | .replace f t sl => f ≤ t ∧ S.nodeAttrsOK tr.doc = true ∧
      (sl = Slice.empty ∨
       (sl.inlineLeaves S = true ∧ sl.closedValid S = true ∧ sliceBmp sl = true ∧ fnorm sl.content = true) ∨
       (((sl.looseValid S = true ∧ sl.wf = true) ∨ ∃ src a b, C01.Valid S src ∧ src.slice a b = .ok sl) ∧
          unplacedWfRun S tr.doc f t sl = true ∧ (sliceBmp sl = true ∨ bmpDoc tr1.doc = true) ∧
          fnorm sl.content = true))
  | op => MixedResidual S op tr tr1

/-- the class "cut from a valid document" of `EditHyps'` needs no separate normal-form hypothesis when the source
    document is in normal form (cutting preserves it: `sliceKids_norm`) — e.g. a slice copied from a document of
    the history itself (`FamilyInv`) -/
theorem editHyps'_of_cut (S : Schema) (tr tr1 : Tr) (f t : Nat) (sl : Slice) (hft : f ≤ t)
    (hattrs : S.nodeAttrsOK tr.doc = true) (src : Node) (a b : Nat) (hv : C01.Valid S src)
    (hsn : fnorm src.kids = true) (hcut : src.slice a b = .ok sl)
    (hrun : unplacedWfRun S tr.doc f t sl = true) (hb1 : sliceBmp sl = true ∨ bmpDoc tr1.doc = true) :
    EditHyps' S (.replace f t sl) tr tr1 :=
  ⟨hft, hattrs, Or.inr (Or.inr ⟨Or.inr ⟨src, a, b, hv, hcut⟩, hrun, hb1,
    (sliceKids_norm src.kids a b sl hsn hcut).1⟩)⟩

/-- `EditHyps'` implies `EditHyps` -/
theorem editHyps_of' (S : Schema) (op : Op) (tr tr1 : Tr) (hlen : tr.steps.length = tr.docs.length)
    (h : tr.runOp S op = some tr1) (hres : EditHyps' S op tr tr1) : EditHyps S op tr tr1 := by
  cases op with
  | replace f t sl =>
    obtain ⟨hft, hattrs, hk⟩ := hres
    refine ⟨hft, hattrs, ?_⟩
    have key : fnorm sl.content = true → HistAll (fun s _ _ => RecordedNorm s) (appended tr tr1) tr1.doc := by
      intro hsn
      rcases replaceOp_recorded S tr tr1 hlen f t sl h with ⟨e, _⟩ | ⟨s, hr, e, _⟩
      · rw [e]; trivial
      · rw [e]
        exact ⟨recordedNorm_of_fit S tr.doc f t sl hsn s hr, trivial⟩
    rcases hk with rfl | ⟨hsl, hslv, hsb, hsn⟩ | ⟨hk, hrun, hb1, hsn⟩
    · exact Or.inl rfl
    · exact Or.inr (Or.inl ⟨hsl, hslv, hsb, key hsn⟩)
    · exact Or.inr (Or.inr ⟨hk, hrun, hb1, key hsn⟩)
  | _ => exact hres

/-- on a BMP document, an editing run with `EditHyps'` meets `OpResidual` -/
theorem editOps_hyps' (S : Schema) (htr : compatTransB S = true) (htl : TextLoop S)
    (hdet : PM.C11.detB S = true) (hfill : S.fillersOKB = true)
    (hwrap : S.wrapOKB = true) (hlab : S.labelsOKB = true) (hleaf : PM.FromDom.leafOkB S = true)
    (hts : textStableC S = true) (hcl : S.closableB = true) :
    ∀ (ops : List Op) (tr : Tr), tr.steps.length = tr.docs.length → tr.maps.length = tr.steps.length →
    FamilyInv S tr.doc → bmpDoc tr.doc = true →
    (∀ op ∈ ops, editOp op = true) → OpsAll S (EditHyps' S) tr ops → OpsAll S (OpResidual S) tr ops
  | [], _, _, _, _, _, _, _ => trivial
  | op :: ops, tr, hlen, hml, hI, hb, hall, hres => by
    simp only [OpsAll] at hres ⊢
    cases h1 : tr.runOp S op with
    | none => trivial
    | some tr1 =>
      simp only [h1] at hres ⊢
      have hop := hall op (List.mem_cons_self ..)
      have hres00 := editHyps_of' S op tr tr1 hlen h1 hres.1
      have hres0 := editResidual'_of_hyps S htl op tr tr1 hlen hI hb h1 hres00
      have hres1 := editResidual_of' S hdet hfill hwrap hlab hleaf hts hcl op tr tr1 hlen hI hb h1 hres0
      obtain ⟨hr1, hb1⟩ := editOp_residual S htr htl hdet hfill hwrap hlab hleaf hts hcl op tr tr1 hop hlen hml
        hI hb h1 hres1
      refine ⟨hr1, ?_⟩
      obtain ⟨h2, e1, l1, n1, r1⟩ := (Tr.runOp_grows op h1).hist hlen
      have g1 := op_family S op tr tr1 hlen hI h1 hr1
      rw [appended_eq e1] at g1
      have hI1 : FamilyInv S tr1.doc :=
        (chain_of_invariant S (FamilyInv S) (FamilyGuard S) (family_step S htr htl) h2 tr1.doc
          (by rw [n1]; exact hI) r1 g1).2
      exact editOps_hyps' S htr htl hdet hfill hwrap hlab hleaf hts hcl ops tr1 l1
        ((Tr.runOp_grows op h1).maps_len hml) hI1 hb1
        (fun o ho => hall o (List.mem_cons_of_mem _ ho)) hres.2

/-- **an editing history is undone exactly — no hypothesis about any recorded step.**  As `editHistory_undo`, with
    `EditHyps'`: for the `replace` classes other than deletion the *request* slice is in normal form (`fnorm`), and
    the normal form of the slice the Fitter emits is derived (`C11.fit_emits_norm`).  What is left per `replace`
    operation: `f ≤ t`, `nodeAttrsOK` of the current document, the class of the slice, BMP text, its normal form,
    and for loosely valid / cut slices the run hypothesis `unplacedWfRun`. -/
theorem editHistory_undo' (S : Schema) (htr : compatTransB S = true) (htl : TextLoop S)
    (hdet : PM.C11.detB S = true) (hfill : S.fillersOKB = true)
    (hwrap : S.wrapOKB = true) (hlab : S.labelsOKB = true) (hleaf : PM.FromDom.leafOkB S = true)
    (hts : textStableC S = true) (hcl : S.closableB = true)
    (doc : Node) (ops : List Op) (tr' : Tr) (hd : S.checkNode doc = true) (hn : fnorm doc.kids = true)
    (hb : bmpDoc doc = true) (hall : ∀ op ∈ ops, editOp op = true)
    (h : (Tr.init doc).runOps S ops = some tr')
    (hres : OpsAll S (EditHyps' S) (Tr.init doc) ops) :
    tr'.undo S = .ok doc ∧ FamilyInv S tr'.doc :=
  opHistory_undo S htr htl doc ops tr' hd hn h
    (editOps_hyps' S htr htl hdet hfill hwrap hlab hleaf hts hcl ops (Tr.init doc) rfl rfl ⟨hd, hn⟩ hb
      hall hres)

/-- **typing / inserting inline leaves as a whole operation, no hypothesis about the recorded step**: the typed
    slice (`inlineLeaves`, `closedValid`, BMP text) in normal form -/
theorem insertInlineOp_residual' (S : Schema) (htr : compatTransB S = true) (htl : TextLoop S)
    (hdet : PM.C11.detB S = true) (hfill : S.fillersOKB = true)
    (hwrap : S.wrapOKB = true) (hlab : S.labelsOKB = true) (hleaf : PM.FromDom.leafOkB S = true)
    (hts : textStableC S = true) (hcl : S.closableB = true)
    (tr tr1 : Tr) (hlen : tr.steps.length = tr.docs.length) (hml : tr.maps.length = tr.steps.length)
    (hI : FamilyInv S tr.doc) (hb : bmpDoc tr.doc = true) (hattrs : S.nodeAttrsOK tr.doc = true)
    (f t : Nat) (hft : f ≤ t) (sl : Slice) (hsl : sl.inlineLeaves S = true) (hslv : sl.closedValid S = true)
    (hsb : sliceBmp sl = true) (hsn : fnorm sl.content = true) (h : tr.runOp S (.replace f t sl) = some tr1) :
    OpResidual S (.replace f t sl) tr tr1 ∧ bmpDoc tr1.doc = true :=
  insertInlineOp_residual S htr htl hdet hfill hwrap hlab hleaf hts hcl tr tr1 hlen hml hI hb hattrs f t hft sl
    hsl hslv hsb h
    (by
      have := editHyps_of' S (.replace f t sl) tr tr1 hlen h
        ⟨hft, hattrs, Or.inr (Or.inl ⟨hsl, hslv, hsb, hsn⟩)⟩
      rcases this.2.2 with e | ⟨_, _, _, hh⟩ | ⟨_, _, _, hh⟩
      · subst e
        rcases replaceOp_recorded S tr tr1 hlen f t _ h with ⟨e, _⟩ | ⟨s, hr, e, _⟩
        · rw [e]; trivial
        · rw [e]; exact ⟨recordedNorm_of_fit S tr.doc f t _ hsn s hr, trivial⟩
      · exact hh
      · exact hh)

/-! #### non-vacuity of `editHistory_undo_bmp'`: schema `doc: para*`, `para: text*`, document `doc(para("ab"))` -/

private def nvNt (name : String) (dfa : Array DfaState) : NodeType :=
  { name := name, isText := false, isInline := false, isLeaf := false, isAtom := false,
    inlineContent := false, isolating := false, defining := false, code := false,
    dfa := dfa, markSet := some [], attrs := [] }
private def nvDoc : Node := .elem 0 [] [] [.elem 1 [] [] [.text [97, 98] []]]
private def nvS : Schema :=
  { nodes := #[
      nvNt "doc" #[⟨true, [(1, 0)]⟩],
      { nvNt "para" #[⟨true, [(2, 0)]⟩] with inlineContent := true },
      { nvNt "text" #[⟨true, []⟩] with isText := true, isInline := true, isLeaf := true, isAtom := true }],
    marks := #[], top := 0, textTy := 2 }

private def nvTyped : Slice := ⟨[.text [99] []], 0, 0⟩

/-- the schema guards and the per-operation hypotheses of `EditResidual'` hold on concrete arguments: a deletion and
    typing "c" -/
example : PM.C11.detB nvS = true ∧ nvS.fillersOKB = true ∧ nvS.wrapOKB = true ∧ nvS.labelsOKB = true ∧
    PM.FromDom.leafOkB nvS = true ∧ textStableC nvS = true ∧ nvS.closableB = true ∧
    PM.FromDom.textStableB nvS = true ∧ compatTransB nvS = true ∧
    nvS.checkNode nvDoc = true ∧ fnorm nvDoc.kids = true ∧ bmpDoc nvDoc = true ∧ nvS.nodeAttrsOK nvDoc = true ∧
    -- a deletion: the recorded step is a `ReplaceStep`, nothing further is asked
    replaceStep nvS nvDoc 1 2 Slice.empty = .ok (some (.replace 1 2 Slice.empty false)) ∧
    AroundFitsBack nvS (.replace 1 2 Slice.empty false) nvDoc ∧
    -- typing "c": class, BMP text, and `RecordedReplaceOk` of the recorded step
    nvTyped.inlineLeaves nvS = true ∧ nvTyped.closedValid nvS = true ∧ sliceBmp nvTyped = true ∧
    replaceStep nvS nvDoc 1 1 nvTyped = .ok (some (.replace 1 1 nvTyped false)) ∧
    RecordedReplaceOk nvS (.replace 1 1 nvTyped false) nvDoc := by
  refine ⟨by decide, by decide, by decide, by decide, by decide, by decide, by decide, by decide, by decide,
    by decide, by decide, by decide, by decide, rfl, trivial, by decide, by decide, by decide, rfl, by decide⟩

private theorem nv_apply : nvS.apply (.replace 1 2 Slice.empty false) nvDoc = .ok (.elem 0 [] [] [.elem 1 [] [] [.text [98] []]]) := by
  have hv : nvS.validContent 1 [Node.text [98] []] = true := by decide
  have hv0 : nvS.validContent 0 [Node.elem 1 [] [] [Node.text [98] []]] = true := by decide
  have hs : splitOk [97, 98] 1 = true := by decide
  simp [Schema.apply, Schema.fromReplace, Schema.replace, nvDoc, replaceKids, inRange, Slice.empty,
    depthAt, Slice.wf, spineL, spineR, outer, atLevel, twoWay, splitRight, flatTail,
    Schema.close, fromArray, addNodes, addNode, hv, hv0, hs, Except.map, RSplit.rest]

private theorem nv_replaceF : ∃ st', (PSt.mk (Tr.init nvDoc) []).replaceF nvS 1 2 Slice.empty = .ok st' ∧
    st'.tr.doc = .elem 0 [] [] [.elem 1 [] [] [.text [98] []]] := by
  unfold PSt.replaceF
  rw [if_neg (by decide)]
  split
  · rename_i rf rt hf ht
    cases hf
    cases ht
    split
    · rename_i e hfit
      cases hfit.symm.trans (rfl : _ = Except.ok true)
    · simp only [PSt.step, Tr.step, show (Tr.init nvDoc).doc = nvDoc from rfl, nv_apply, liftP, Except.map]
      exact ⟨_, rfl, rfl⟩
    · rename_i hfit
      cases hfit.symm.trans (rfl : _ = Except.ok true)
  · rename_i hne
    exact (hne _ _ rfl rfl).elim

private theorem nv_run : ∃ tr1, (Tr.init nvDoc).runOps nvS [.replace 1 2 Slice.empty] = some tr1 ∧
    tr1.doc = .elem 0 [] [] [.elem 1 [] [] [.text [98] []]] := by
  obtain ⟨st', h, hd⟩ := nv_replaceF
  refine ⟨st'.tr, ?_, hd⟩
  simp only [Tr.runOps, Tr.runOp, Tr.planned, h]
/-- **non-vacuity, end to end**: on `doc(para("ab"))` the deletion `replace(1, 2, Slice.empty)` goes through, meets
    `EditResidual'`, and `editHistory_undo_bmp'` applies: undoing restores the document -/
example : ∃ tr', (Tr.init nvDoc).runOps nvS [.replace 1 2 Slice.empty] = some tr' ∧
    tr'.doc = .elem 0 [] [] [.elem 1 [] [] [.text [98] []]] ∧ tr'.undo nvS = .ok nvDoc := by
  obtain ⟨tr1, h, hd⟩ := nv_run
  refine ⟨tr1, h, hd, (editHistory_undo_bmp' nvS (by decide) (PM.Family.textLoop_of_B _ (by decide)) (by decide)
    (by decide) (by decide) (by decide) (by decide) (by decide) (by decide) nvDoc _ tr1 (by decide)
    (by decide) (by decide) (by decide) h ?_).1⟩
  simp only [OpsAll]
  split
  · rename_i tr2 h2
    refine ⟨⟨by decide, rfl, Or.inl ⟨rfl, ?_⟩⟩, trivial⟩
    rcases replaceOp_recorded nvS _ tr2 rfl 1 2 _ h2 with ⟨e, _⟩ | ⟨s, hr, e, _⟩
    · rw [e]; trivial
    · rw [e]
      have hs := hr.symm.trans (rfl : _ = Except.ok (some (Step.replace 1 2 Slice.empty false)))
      simp only [Except.ok.injEq, Option.some.injEq] at hs
      subst hs
      exact ⟨trivial, trivial⟩
  · trivial
/-- **non-vacuity of `editHistory_undo`, end to end**: the deletion asks for nothing about the recorded step -/
example : ∃ tr', (Tr.init nvDoc).runOps nvS [.replace 1 2 Slice.empty] = some tr' ∧ tr'.undo nvS = .ok nvDoc := by
  obtain ⟨tr1, h, _⟩ := nv_run
  refine ⟨tr1, h, (editHistory_undo nvS (by decide) (PM.Family.textLoop_of_B _ (by decide)) (by decide)
    (by decide) (by decide) (by decide) (by decide) (by decide) (by decide) nvDoc _ tr1 (by decide)
    (by decide) (by decide) (by decide) h ?_).1⟩
  simp only [OpsAll]
  split
  · exact ⟨⟨by decide, rfl, Or.inl rfl⟩, trivial⟩
  · trivial
/-- **non-vacuity of `editHistory_undo'`**: the per-operation hypotheses of the typing class hold for typing "c"
    (`EditHyps'` asks nothing about the recorded step), the step recorded for it is derived to be in normal form, and
    the deletion history is undone through `editHistory_undo'` -/
example : (nvTyped.inlineLeaves nvS = true ∧ nvTyped.closedValid nvS = true ∧ sliceBmp nvTyped = true ∧
      fnorm nvTyped.content = true) ∧
    RecordedNorm (.replace 1 1 nvTyped false) ∧
    ∃ tr', (Tr.init nvDoc).runOps nvS [.replace 1 2 Slice.empty] = some tr' ∧ tr'.undo nvS = .ok nvDoc := by
  refine ⟨⟨by decide, by decide, by decide, by decide⟩,
    recordedNorm_of_fit nvS nvDoc 1 1 nvTyped (by decide) _ rfl, ?_⟩
  obtain ⟨tr1, h, _⟩ := nv_run
  refine ⟨tr1, h, (editHistory_undo' nvS (by decide) (PM.Family.textLoop_of_B _ (by decide)) (by decide)
    (by decide) (by decide) (by decide) (by decide) (by decide) (by decide) nvDoc _ tr1 (by decide)
    (by decide) (by decide) (by decide) h ?_).1⟩
  simp only [OpsAll]
  split
  · exact ⟨⟨by decide, rfl, Or.inl rfl⟩, trivial⟩
  · trivial
end PM.C04
