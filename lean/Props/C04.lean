import PM.Step
namespace PM.C04
end PM.C04
