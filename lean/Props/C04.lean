/-
  Props/C04.lean — C04: every recorded change can be undone exactly and replayed exactly.
  Helper lemmas: Proofs/StepToks.lean (token semantics), Proofs/Undo.lean.
-/
import PM.Step
import PM.Transform
import Proofs.StepToks
import Proofs.Undo
namespace PM.C04
open PM

/-- replaying a list of steps from a document: the documents before each step and the final one -/
def replay (S : Schema) : Node → List Step → Option (List Node × Node)
  | d, [] => some ([], d)
  | d, st :: rest =>
    match S.apply st d with
    | .ok d' => (replay S d' rest).map (fun (ds, fin) => (d :: ds, fin))
    | .error _ => none

/-- **history bookkeeping**: for any finite sequence of attempted steps, the recorded steps, documents
    and maps stay aligned one-to-one (also after rejected steps), every recorded map is the recorded
    step's map, and re-applying the recorded steps to the starting document reproduces the recorded
    intermediate documents and the final document. -/
theorem history_inv (S : Schema) (doc : Node) (sts : List Step) :
    let tr := (Tr.init doc).run S sts
    tr.steps.length = tr.docs.length ∧ tr.maps.length = tr.steps.length ∧
    tr.maps = tr.steps.map Step.getMap ∧
    tr.before = doc ∧
    replay S doc tr.steps = some (tr.docs, tr.doc) := by
  sorry

/-- a rejected step leaves the whole transform unchanged -/
theorem rejected_unchanged (S : Schema) (tr : Tr) (st : Step) (e : Err) (h : S.apply st tr.doc = .error e) :
    tr.maybeStep S st = tr := by
  sorry

/-- **an inverted replace step's map is the inverse of the original's** (position by position) -/
theorem invert_map_replace (S : Schema) (doc : Node) (f t : Nat) (sl : Slice) (b : Bool) (inv : Step)
    (hft : f ≤ t) (ht : t ≤ fsize doc.kids) (hs : 0 ≤ sl.size)
    (hi : S.invert (.replace f t sl b) doc = .ok inv) (p a : Int) :
    inv.getMap.map p a = (Step.replace f t sl b).getMap.invert.map p a := by
  sorry

theorem invert_map_replaceAround (S : Schema) (doc : Node) (f t gf gt : Nat) (sl : Slice) (ins : Nat)
    (b : Bool) (inv : Step) (hg : f ≤ gf ∧ gf ≤ gt ∧ gt ≤ t) (ht : t ≤ fsize doc.kids)
    (hins : (ins : Int) ≤ sl.size)
    (hi : S.invert (.replaceAround f t gf gt sl ins b) doc = .ok inv) (p a : Int) :
    inv.getMap.map p a = (Step.replaceAround f t gf gt sl ins b).getMap.invert.map p a := by
  sorry

/-- **exact undo of a replace step** (whenever the inverse applies — that it does is decided by the
    correspondence run): the restored document is *equal* to the original -/
theorem replace_undo_partial (S : Schema) (doc doc' doc'' : Node) (f t : Nat) (sl : Slice) (b : Bool)
    (inv : Step) (hn : fnorm doc.kids = true) (hsn : fnorm sl.content = true)
    (h1 : S.apply (.replace f t sl b) doc = .ok doc')
    (hi : S.invert (.replace f t sl b) doc = .ok inv)
    (h2 : S.apply inv doc' = .ok doc'') : doc'' = doc := by
  sorry

/-- **exact undo of a replace-around step** (same proviso) -/
theorem replaceAround_undo_partial (S : Schema) (doc doc' doc'' : Node) (f t gf gt : Nat) (sl : Slice)
    (ins : Nat) (b : Bool) (inv : Step) (hn : fnorm doc.kids = true) (hsn : fnorm sl.content = true)
    (hwf : sl.wf = true) (hins : (ins : Int) ≤ sl.size) (hg : f ≤ gf ∧ gf ≤ gt ∧ gt ≤ t)
    (h1 : S.apply (.replaceAround f t gf gt sl ins b) doc = .ok doc')
    (hi : S.invert (.replaceAround f t gf gt sl ins b) doc = .ok inv)
    (h2 : S.apply inv doc' = .ok doc'') : doc'' = doc := by
  sorry

mutual
/-- every node carries its attributes the way the library builds them (`compute_attrs` would return
    them unchanged) -/
def attrsOk (S : Schema) : Node → Bool
  | .text .. => true
  | .leaf t a _ => (match computeAttrs (S.nodeType t).attrs a with
      | .ok a' => a' == a
      | .error _ => false)
  | .elem t a _ kids => (match computeAttrs (S.nodeType t).attrs a with
      | .ok a' => a' == a
      | .error _ => false) && attrsOkKids S kids
def attrsOkKids (S : Schema) : List Node → Bool
  | [] => true
  | n :: ns => attrsOk S n && attrsOkKids S ns
end

/-- **exact undo of an attribute step naming an attribute the node declares** (same proviso as for
    replace steps: whenever the inverse applies) -/
theorem attr_undo_partial (S : Schema) (doc doc' doc'' : Node) (pos : Nat) (name value : String) (inv : Step)
    (hn : fnorm doc.kids = true) (hv : S.checkNode doc = true) (ha : attrsOk S doc = true)
    (h1 : S.apply (.attr pos name value) doc = .ok doc')
    (hi : S.invert (.attr pos name value) doc = .ok inv)
    (h2 : S.apply inv doc' = .ok doc'') : doc'' = doc := by
  sorry

/-- **exact undo of node-mark steps** that displace at most one mark (same proviso) -/
theorem nodeMark_undo_partial (S : Schema) (doc doc' doc'' : Node) (pos : Nat) (m : Mark) (inv : Step) (add : Bool)
    (hn : fnorm doc.kids = true) (hv : S.checkNode doc = true) (ha : attrsOk S doc = true)
    (h1 : S.apply (if add then .addNodeMark pos m else .removeNodeMark pos m) doc = .ok doc')
    (hi : S.invert (if add then .addNodeMark pos m else .removeNodeMark pos m) doc = .ok inv)
    (hdis : ∀ n, doc.nodeAt pos = .ok (some n) → add = true → n.marks.length ≤ (m.addToSet S n.marks).length)
    (h2 : S.apply inv doc' = .ok doc'') : doc'' = doc := by
  sorry

/-- **exact undo of a doc-attribute step** for a declared attribute holding a non-null value or a
    null default -/
theorem docAttr_undo (S : Schema) (t : TypeId) (a : Attrs) (m : Marks) (kids : List Node)
    (name value : String) (doc' : Node) (inv : Step)
    (ha : computeAttrs (S.nodeType t).attrs a = .ok a) (hm : setFrom m = m)
    (h1 : S.apply (.docAttr name value) (.elem t a m kids) = .ok doc')
    (hi : S.invert (.docAttr name value) (.elem t a m kids) = .ok inv)
    (hdecl : name ∈ (S.nodeType t).attrs.map (·.name)) :
    ∃ doc'', S.apply inv doc' = .ok doc'' ∧ doc''.kids = kids ∧ doc''.marks = m := by
  sorry

/-- **exact undo of a remove-node-mark step** and of an **add-node-mark step that displaces at most
    one mark** (the mark set afterwards is the one before) -/
theorem nodeMark_undo_marks (S : Schema) (ms : Marks) (m : Mark) (hc : canonicalMarks S ms = true) :
    (m.isInSet ms = true → m.addToSet S (m.removeFromSet ms) = ms) ∧
    (m.isInSet ms = false → (m.addToSet S ms).length = ms.length + 1 → m.removeFromSet (m.addToSet S ms) = ms) := by
  sorry

/-- the guard "at most one displaced mark" is necessary: a mark excluding two present marks cannot
    be undone by a single node-mark step (also upstream) -/
theorem nodeMark_undo_needs_guard :
    ∃ (S : Schema) (ms : Marks) (m : Mark), canonicalMarks S ms = true ∧
      (m.addToSet S ms).length < ms.length ∧
      ∀ x : Mark, x.addToSet S (m.addToSet S ms) ≠ ms ∧ x.removeFromSet (m.addToSet S ms) ≠ ms := by
  sorry

end PM.C04
