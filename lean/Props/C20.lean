import PM.Diff
namespace PM.C20
end PM.C20
