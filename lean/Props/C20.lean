/-
  Props/C20.lean — C20: document diffing reports the true first and last difference.
  (Termination of the model is by structural recursion; termination of the Python loops is checked
  by the per-call alarm of the correspondence run.)  Helper lemmas in Proofs/Diff.lean.
-/
import PM.Diff
import Proofs.Diff
namespace PM.C20
open PM

/-- **first difference: nothing is reported exactly when the fragments are equal** -/
-- STATEMENT CHANGED: added `ha : fnorm a = true`, `hb : fnorm b = true`.  As written (no normal-form
-- guard) the `→` direction is false: children of total size 0 are skipped without being compared, so
--   diffStart [Node.elem 1 [] [] [Node.text [] []]] [Node.elem 1 [] [] []] 0 = none
-- although the fragments differ (the first has an empty text child; `fnorm` of it is `false`).
-- Both guards are needed (swap the two arguments).  The `←` direction holds unguarded
-- (`PM.diffStart_none_of_eq`).
theorem diffStart_none_iff (a b : List Node) (pos : Nat) (ha : fnorm a = true) (hb : fnorm b = true) :
    diffStart a b pos = none ↔ a = b :=
  ⟨eq_of_diffStart_none a b pos ha hb, diffStart_none_of_eq a b pos⟩

/-- **first difference: otherwise the position up to which the marked-up token sequences agree** -/
theorem diffStart_lcp (a b : List Node) (pos q : Nat) (ha : fnorm a = true) (hb : fnorm b = true)
    (h : diffStart a b pos = some q) : q = pos + lcpLen (fmtoks a) (fmtoks b) := by
  simpa using diffStart_lcp_gen a b pos q [] [] ha hb rfl rfl h

/-- the reported position never exceeds either fragment -/
theorem diffStart_le (a b : List Node) (pos q : Nat) (h : diffStart a b pos = some q) :
    q ≤ pos + fsize a ∧ q ≤ pos + fsize b :=
  diffStart_le' a b pos q h

/-- **last difference: nothing is reported exactly when the fragments are equal** -/
-- STATEMENT CHANGED: added `ha : fnorm a = true`, `hb : fnorm b = true`, for the same reason as in
-- `diffStart_none_iff`:
--   diffEnd [Node.elem 1 [] [] [Node.text [] []]] [Node.elem 1 [] [] []] 2 2 = none
-- although the fragments differ.
theorem diffEnd_none_iff (a b : List Node) (pa pb : Nat) (ha : fnorm a = true) (hb : fnorm b = true) :
    diffEnd a b pa pb = none ↔ a = b := by
  unfold diffEnd
  rw [Option.map_eq_none_iff]
  constructor
  · intro h
    exact fmirror_inj a b (eq_of_diffStart_none _ _ 0 (by rw [fnorm_fmirror]; exact ha)
      (by rw [fnorm_fmirror]; exact hb) h)
  · intro h
    exact diffStart_none_of_eq _ _ 0 (by rw [h])

/-- **last difference: otherwise the pair of positions after which the marked-up token sequences
    agree** (the length of their longest common suffix, counted back from both ends) -/
theorem diffEnd_lcs (a b : List Node) (qa qb : Nat) (ha : fnorm a = true) (hb : fnorm b = true)
    (h : diffEnd a b (fsize a) (fsize b) = some (qa, qb)) :
    qa + lcpLen (fmtoks a).reverse (fmtoks b).reverse = fsize a ∧
    qb + lcpLen (fmtoks a).reverse (fmtoks b).reverse = fsize b := by
  unfold diffEnd at h
  rw [Option.map_eq_some_iff] at h
  obtain ⟨k, hk, hq⟩ := h
  have hlcp := diffStart_lcp_gen _ _ 0 k [] [] (by rw [fnorm_fmirror]; exact ha)
    (by rw [fnorm_fmirror]; exact hb) rfl rfl hk
  simp only [List.append_nil, Nat.zero_add] at hlcp
  rw [lcpLen_fmirror] at hlcp
  have hle := diffStart_le' _ _ 0 k hk
  rw [fmirror_size, fmirror_size] at hle
  simp only [Prod.mk.injEq] at hq
  omega

/-- the guard `fnorm` is necessary for the token statement: a non-normal pair with equal token
    sequences that the scan tells apart -/
theorem diffStart_needs_norm :
    let a := [Node.text [97, 98] []]
    let b := [Node.text [97] [], Node.text [98] []]
    fmtoks a = fmtoks b ∧ diffStart a b 0 = some 1 ∧ fnorm b = false := by
  simp [diffStart, Node.sameMarkup, lcpLen, fnorm, fnormKids, Node.norm, chainOk, adjOk]

/-- non-vacuity: astral text (surrogate pairs) differing in the low surrogate -/
example :
    diffStart [Node.elem 1 [] [] [Node.text [120, 55357, 56832, 97] []]]
              [Node.elem 1 [] [] [Node.text [120, 55357, 56833, 97] []]] 0 = some 3 ∧
    diffEnd [Node.elem 1 [] [] [Node.text [120, 55357, 56832, 97] []]]
            [Node.elem 1 [] [] [Node.text [121, 55357, 56832, 97] []]] 6 6 = some (2, 2) := by
  simp [diffEnd, diffStart, Node.sameMarkup, lcpLen]

end PM.C20
