/-
  Props/C20.lean — C20: document diffing reports the true first and last difference.
  (Termination of the model is by structural recursion; termination of the Python loops is checked
  by the per-call alarm of the correspondence run.)  Helper lemmas in Proofs/Diff.lean.
-/
import PM.Diff
import Proofs.Diff
namespace PM.C20
open PM

/-- **first difference: nothing is reported exactly when the fragments are equal** -/
theorem diffStart_none_iff (a b : List Node) (pos : Nat) : diffStart a b pos = none ↔ a = b := by
  sorry

/-- **first difference: otherwise the position up to which the marked-up token sequences agree** -/
theorem diffStart_lcp (a b : List Node) (pos q : Nat) (ha : fnorm a = true) (hb : fnorm b = true)
    (h : diffStart a b pos = some q) : q = pos + lcpLen (fmtoks a) (fmtoks b) := by
  sorry

/-- the reported position never exceeds either fragment -/
theorem diffStart_le (a b : List Node) (pos q : Nat) (h : diffStart a b pos = some q) :
    q ≤ pos + fsize a ∧ q ≤ pos + fsize b := by
  sorry

/-- **last difference: nothing is reported exactly when the fragments are equal** -/
theorem diffEnd_none_iff (a b : List Node) (pa pb : Nat) : diffEnd a b pa pb = none ↔ a = b := by
  sorry

/-- **last difference: otherwise the pair of positions after which the marked-up token sequences
    agree** (the length of their longest common suffix, counted back from both ends) -/
theorem diffEnd_lcs (a b : List Node) (qa qb : Nat) (ha : fnorm a = true) (hb : fnorm b = true)
    (h : diffEnd a b (fsize a) (fsize b) = some (qa, qb)) :
    qa + lcpLen (fmtoks a).reverse (fmtoks b).reverse = fsize a ∧
    qb + lcpLen (fmtoks a).reverse (fmtoks b).reverse = fsize b := by
  sorry

/-- the guard `fnorm` is necessary for the token statement: a non-normal pair with equal token
    sequences that the scan tells apart -/
theorem diffStart_needs_norm :
    let a := [Node.text [97, 98] []]
    let b := [Node.text [97] [], Node.text [98] []]
    fmtoks a = fmtoks b ∧ diffStart a b 0 = some 1 ∧ fnorm b = false := by
  decide

/-- non-vacuity: astral text (surrogate pairs) differing in the low surrogate -/
example :
    diffStart [Node.elem 1 [] [] [Node.text [120, 55357, 56832, 97] []]]
              [Node.elem 1 [] [] [Node.text [120, 55357, 56833, 97] []]] 0 = some 3 ∧
    diffEnd [Node.elem 1 [] [] [Node.text [120, 55357, 56832, 97] []]]
            [Node.elem 1 [] [] [Node.text [121, 55357, 56832, 97] []]] 6 6 = some (2, 2) := by
  decide

end PM.C20
