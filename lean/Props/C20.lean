/-
  Props/C20.lean — C20: document diffing reports the true first and last difference.
  (Termination of the model is by structural recursion; termination of the Python loops is checked
  by the per-call alarm of the correspondence run.)  Helper lemmas in Proofs/Diff.lean.
-/
import PM.Diff
import Proofs.Diff
import Proofs.DiffSym
namespace PM.C20
open PM

/-- **first difference: nothing is reported exactly when the fragments are equal** -/
-- STATEMENT CHANGED: added `ha : fnorm a = true`, `hb : fnorm b = true`.  As written (no normal-form
-- guard) the `→` direction is false: children of total size 0 are skipped without being compared, so
--   diffStart [Node.elem 1 [] [] [Node.text [] []]] [Node.elem 1 [] [] []] 0 = none
-- although the fragments differ (the first has an empty text child; `fnorm` of it is `false`).
-- Both guards are needed (swap the two arguments).  The `←` direction holds unguarded
-- (`PM.diffStart_none_of_eq`).
theorem diffStart_none_iff (a b : List Node) (pos : Nat) (ha : fnorm a = true) (hb : fnorm b = true) :
    diffStart a b pos = none ↔ a = b :=
  ⟨eq_of_diffStart_none a b pos ha hb, diffStart_none_of_eq a b pos⟩

/-- **first difference: otherwise the position up to which the marked-up token sequences agree** -/
theorem diffStart_lcp (a b : List Node) (pos q : Nat) (ha : fnorm a = true) (hb : fnorm b = true)
    (h : diffStart a b pos = some q) : q = pos + lcpLen (fmtoks a) (fmtoks b) := by
  simpa using diffStart_lcp_gen a b pos q [] [] ha hb rfl rfl h

/-- the reported position never exceeds either fragment -/
theorem diffStart_le (a b : List Node) (pos q : Nat) (h : diffStart a b pos = some q) :
    q ≤ pos + fsize a ∧ q ≤ pos + fsize b :=
  diffStart_le' a b pos q h

/-- **last difference: nothing is reported exactly when the fragments are equal** -/
-- STATEMENT CHANGED: added `ha : fnorm a = true`, `hb : fnorm b = true`, for the same reason as in
-- `diffStart_none_iff`:
--   diffEnd [Node.elem 1 [] [] [Node.text [] []]] [Node.elem 1 [] [] []] 2 2 = none
-- although the fragments differ.
theorem diffEnd_none_iff (a b : List Node) (pa pb : Nat) (ha : fnorm a = true) (hb : fnorm b = true) :
    diffEnd a b pa pb = none ↔ a = b := by
  unfold diffEnd
  rw [Option.map_eq_none_iff]
  constructor
  · intro h
    exact fmirror_inj a b (eq_of_diffStart_none _ _ 0 (by rw [fnorm_fmirror]; exact ha)
      (by rw [fnorm_fmirror]; exact hb) h)
  · intro h
    exact diffStart_none_of_eq _ _ 0 (by rw [h])

/-- **last difference: otherwise the pair of positions after which the marked-up token sequences
    agree** (the length of their longest common suffix, counted back from both ends) -/
theorem diffEnd_lcs (a b : List Node) (qa qb : Nat) (ha : fnorm a = true) (hb : fnorm b = true)
    (h : diffEnd a b (fsize a) (fsize b) = some (qa, qb)) :
    qa + lcpLen (fmtoks a).reverse (fmtoks b).reverse = fsize a ∧
    qb + lcpLen (fmtoks a).reverse (fmtoks b).reverse = fsize b := by
  unfold diffEnd at h
  rw [Option.map_eq_some_iff] at h
  obtain ⟨k, hk, hq⟩ := h
  have hlcp := diffStart_lcp_gen _ _ 0 k [] [] (by rw [fnorm_fmirror]; exact ha)
    (by rw [fnorm_fmirror]; exact hb) rfl rfl hk
  simp only [List.append_nil, Nat.zero_add] at hlcp
  rw [lcpLen_fmirror] at hlcp
  have hle := diffStart_le' _ _ 0 k hk
  rw [fmirror_size, fmirror_size] at hle
  simp only [Prod.mk.injEq] at hq
  omega

/-- the guard `fnorm` is necessary for the token statement: a non-normal pair with equal token
    sequences that the scan tells apart -/
theorem diffStart_needs_norm :
    let a := [Node.text [97, 98] []]
    let b := [Node.text [97] [], Node.text [98] []]
    fmtoks a = fmtoks b ∧ diffStart a b 0 = some 1 ∧ fnorm b = false := by
  simp [diffStart, Node.sameMarkup, lcpLen, fnorm, fnormKids, Node.norm, chainOk, adjOk]

/-- non-vacuity: astral text (surrogate pairs) differing in the low surrogate -/
example :
    diffStart [Node.elem 1 [] [] [Node.text [120, 55357, 56832, 97] []]]
              [Node.elem 1 [] [] [Node.text [120, 55357, 56833, 97] []]] 0 = some 3 ∧
    diffEnd [Node.elem 1 [] [] [Node.text [120, 55357, 56832, 97] []]]
            [Node.elem 1 [] [] [Node.text [121, 55357, 56832, 97] []]] 6 6 = some (2, 2) := by
  simp [diffEnd, diffStart, Node.sameMarkup, lcpLen]

/-! ### arbitrary start positions, symmetry -/

/-- **last difference from arbitrary end positions**: `find_diff_end(a, b, posA, posB)` steps both
    positions back by the same amount `k`, the length of the longest common suffix of the marked-up
    token sequences; `k` never exceeds either fragment, so with `posA`, `posB` at or past the
    fragment sizes (every call in the library: they are the end positions of the two fragments in
    their documents) nothing is truncated.  (The model subtracts in `Nat`; Python would go negative
    for `posA < k`, which needs `posA` smaller than the size of `a`.)
    `diffStart_lcp` above already holds for an arbitrary start position `pos`. -/
theorem diffEnd_lcs_general (a b : List Node) (pa pb qa qb : Nat) (ha : fnorm a = true)
    (hb : fnorm b = true) (h : diffEnd a b pa pb = some (qa, qb)) :
    let k := lcpLen (fmtoks a).reverse (fmtoks b).reverse
    qa = pa - k ∧ qb = pb - k ∧ k ≤ fsize a ∧ k ≤ fsize b ∧
    (fsize a ≤ pa → qa + k = pa) ∧ (fsize b ≤ pb → qb + k = pb) := by
  intro k
  unfold diffEnd at h
  rw [Option.map_eq_some_iff] at h
  obtain ⟨k', hk, hq⟩ := h
  have hlcp := diffStart_lcp_gen _ _ 0 k' [] [] (by rw [fnorm_fmirror]; exact ha)
    (by rw [fnorm_fmirror]; exact hb) rfl rfl hk
  simp only [List.append_nil, Nat.zero_add] at hlcp
  rw [lcpLen_fmirror] at hlcp
  have hle := diffStart_le' _ _ 0 k' hk
  rw [fmirror_size, fmirror_size] at hle
  simp only [Prod.mk.injEq] at hq
  have hkk : k' = k := hlcp
  subst hkk
  refine ⟨hq.1.symm, hq.2.symm, by omega, by omega, fun _ => by omega, fun _ => by omega⟩

/-- the result of `find_diff_end` from other end positions is the default result shifted -/
theorem diffEnd_shift (a b : List Node) (pa pb : Nat) (hpa : fsize a ≤ pa) (hpb : fsize b ≤ pb) :
    diffEnd a b pa pb =
      (diffEnd a b (fsize a) (fsize b)).map
        (fun q => (q.1 + (pa - fsize a), q.2 + (pb - fsize b))) := by
  unfold diffEnd
  cases hk : diffStart (fmirror a) (fmirror b) 0 with
  | none => rfl
  | some k =>
    have hle := diffStart_le' _ _ 0 k hk
    rw [fmirror_size, fmirror_size] at hle
    simp only [Option.map_some, Option.some.injEq, Prod.mk.injEq]
    omega

/-- likewise `find_diff_start` from another start position -/
theorem diffStart_shift (a b : List Node) (pos : Nat) :
    diffStart a b pos = (diffStart a b 0).map (· + pos) := by
  have key : ∀ (a b : List Node) (pos d : Nat),
      diffStart a b (pos + d) = (diffStart a b pos).map (· + d) := by
    intro a b pos d
    fun_induction diffStart a b pos with
    | case1 => simp [diffStart]
    | case2 => simp [diffStart]
    | case3 => simp [diffStart]
    | case4 x xs y ys pos hm =>
      unfold diffStart; simp [hm]
    | case5 xs ys pos s m s' m' hs =>
      rename_i hm
      unfold diffStart
      simp only [hm, hs, ne_eq, not_false_eq_true, if_true, Option.map_some, Bool.false_eq_true,
        if_false, Option.some.injEq]
      omega
    | case6 xs ys pos s m s' m' hs hm ih =>
      conv => lhs; unfold diffStart
      simp only [hm, if_false, hs]
      rw [show pos + d + s.length = pos + s.length + d by omega]
      exact ih
    | case7 xs ys pos t a m k t' a' m' k' r hr hm ih =>
      conv => lhs; unfold diffStart
      have : (if fsize k ≠ 0 ∨ fsize k' ≠ 0 then diffStart k k' (pos + d + 1) else none) = some (r + d) := by
        by_cases hz : fsize k ≠ 0 ∨ fsize k' ≠ 0
        · simp only [hz, dite_true] at hr
          rw [if_pos hz, show pos + d + 1 = pos + 1 + d by omega, ih, hr]; rfl
        · simp [hz] at hr
      simp [hm, this]
    | case8 xs ys pos t a m k t' a' m' k' hr hm ih ih2 =>
      conv => lhs; unfold diffStart
      have : (if fsize k ≠ 0 ∨ fsize k' ≠ 0 then diffStart k k' (pos + d + 1) else none) = none := by
        by_cases hz : fsize k ≠ 0 ∨ fsize k' ≠ 0
        · simp only [hz, dite_true] at hr
          rw [if_pos hz, show pos + d + 1 = pos + 1 + d by omega, ih, hr]; rfl
        · rw [if_neg hz]
      simp only [hm, this]
      rw [show pos + d + (Node.elem t a m k).size = pos + (Node.elem t a m k).size + d by omega]
      exact ih2
    | case9 x xs y ys pos hm h1 h2 ih =>
      obtain ⟨hxy, t, a, m, hx⟩ := diffStart_case9 x y (by simpa using hm) h1 h2
      subst hxy; subst hx
      conv => lhs; unfold diffStart
      simp only [Node.sameMarkup_self, Bool.not_true, Bool.false_eq_true, if_false]
      rw [show pos + d + (Node.leaf t a m).size = pos + (Node.leaf t a m).size + d by omega]
      exact ih
  have := key a b 0 pos
  rwa [Nat.zero_add] at this

/-- **the two arguments may be swapped**: `find_diff_start` is symmetric, `find_diff_end` returns the
    swapped pair (no normal-form guard needed) -/
theorem diff_symmetric (a b : List Node) (p pa pb : Nat) :
    diffStart a b p = diffStart b a p ∧
    diffEnd a b pa pb = (diffEnd b a pb pa).map Prod.swap :=
  ⟨diffStart_comm a b p, diffEnd_comm a b pa pb⟩

end PM.C20
