/-
  Props/C17.lean — C17: concurrent edits to separate parts of a document commute after rebasing.
  Proved for pairs of replace steps (the steps every replace-family operation, split and join emit),
  for a replace step against any mark / node-mark / attr step (add-mark steps *after* the replaced
  range under the visible guard `ParentStable`: the known finding "mark step vs. parent-retyping
  replace", DESIGN.md), and for two markup steps on disjoint tokens.  Pairs involving
  replace-around steps (lift, wrap, set_node_markup, set_block_type): last section of this file —
  rebasing over a step before the range, after it or inside the kept gap never drops either step
  (`rebase_around_separated`, `rebase_around_around`, `rebase_markup_not_dropped_around`); convergence
  whenever all four applications succeed against a replace step (`commute_replace_around`), another
  replace-around step (`commute_around_around`), node-mark / attr steps (`commute_around_nodeStep`) and mark
  steps (`commute_around_mark_unguarded`, `commute_around_mark_partial` under `ParentStable`).
  "Each application succeeds" is a hypothesis of the
  convergence theorems; that the two rebased replace steps *do* apply is proved under the decidable guard
  `commuteGuard` (`commute_succeeds_replace`: one step inside a node the other does not touch; false
  without a guard, `commute_needs_guard`), and likewise for a replace step outside `[from, to]` of a
  replace-around step (`commute_succeeds_around`) and for two replace-around steps one after the other
  (`commute_succeeds_around_around`), and for a node-mark / attr step before or after a
  replace-around step (`commute_succeeds_around_nodeStep_partial`) and for mark steps outside `[from, to]`
  (`commute_succeeds_around_removeMark_partial`, `commute_succeeds_around_addMark_partial`: `commuteGuard`, validity,
  `TextLoop`).  A step strictly inside the kept gap (overlapping in the property's sense; last section): guard
  `gapGuard` tied to the real code; under it, for a replace-around step with a closed slice, both orders apply and
  agree for a replace step (`commute_succeeds_around_gap`), another replace-around step
  (`commute_succeeds_around_around_gap`), a mark step (`commute_succeeds_around_mark_gap_partial`) and a node-mark / attr
  step (`commute_succeeds_around_nodeStep_gap_partial`); the guard cannot be dropped (example `gapGuard_needs`).
  Without `commuteGuard`: an attr / remove-node-mark step outside `[from, to]` of a replace-around step with a closed
  slice (`commute_succeeds_around_nodeStep_closed_partial`).
  Helper lemmas: Proofs/Commute.lean, Proofs/CommuteMarkup.lean, Proofs/CommuteSuccess.lean,
  Proofs/CommuteSuccessR.lean, Proofs/Lvl.lean; for replace-around steps Proofs/CommuteAround.lean,
  Proofs/CommuteAroundDocs.lean, Proofs/CommuteAroundMarkup.lean, Proofs/CommuteAroundSuccess.lean,
  Proofs/CommuteAroundAgain.lean, Proofs/GapInner.lean, Proofs/ContentBetweenToks.lean.
-/
import PM.Step
import Proofs.StepToks
import Proofs.Commute
import Proofs.CommuteMarkup
import Proofs.CommuteSuccess
import Proofs.CommuteSuccessR
import Proofs.CommuteAround
import Proofs.CommuteAroundDocs
import Proofs.CommuteAroundMarkup
import Proofs.CommuteAroundSuccess
import Proofs.CommuteAroundAgain
import Props.C01
import Proofs.GapInner
namespace PM.C17
open PM

/-- **rebasing never drops a step that touches a separate part** (replace step over a replace step's
    map, ranges separated by at least one untouched token), and the rebased range is the shifted one -/
theorem rebase_separated_after (f1 t1 f2 t2 : Nat) (s1 s2 : Slice) (b1 b2 : Bool)
    (h1 : f1 ≤ t1) (h2 : f2 ≤ t2) (hsep : t1 < f2) (hs1 : 0 ≤ s1.size) :
    (Step.replace f2 t2 s2 b2).map (Step.replace f1 t1 s1 b1).getMap =
      some (.replace ((f2 : Int) + s1.size - (t1 - f1)).toNat ((t2 : Int) + s1.size - (t1 - f1)).toNat s2 false) ∧
    (Step.replace f1 t1 s1 b1).map (Step.replace f2 t2 s2 b2).getMap = some (.replace f1 t1 s1 false) := by
  have e1 : ∀ a : Int, (Step.replace f1 t1 s1 b1).getMap.mapResult (f2 : Int) a
      = { pos := (f2 : Int) + (s1.size - ((t1 : Int) - f1)) } :=
    fun a => mapResult_one_after _ _ _ _ a (by omega) (by omega)
  have e2 : ∀ a : Int, (Step.replace f1 t1 s1 b1).getMap.mapResult (t2 : Int) a
      = { pos := (t2 : Int) + (s1.size - ((t1 : Int) - f1)) } :=
    fun a => mapResult_one_after _ _ _ _ a (by omega) (by omega)
  have e3 : ∀ a : Int, (Step.replace f2 t2 s2 b2).getMap.mapResult (f1 : Int) a = { pos := (f1 : Int) } :=
    fun a => mapResult_one_before _ _ _ _ a (by omega)
  have e4 : ∀ a : Int, (Step.replace f2 t2 s2 b2).getMap.mapResult (t1 : Int) a = { pos := (t1 : Int) } :=
    fun a => mapResult_one_before _ _ _ _ a (by omega)
  constructor
  · simp only [Step.map, e1, e2, deleted_zero]
    simp only [Bool.false_and, Bool.false_eq_true, if_false, Option.some.injEq, Step.replace.injEq,
      and_true]
    constructor
    · congr 1; omega
    · congr 1; omega
  · simp only [Step.map, e3, e4, deleted_zero]
    simp only [Bool.false_and, Bool.false_eq_true, if_false, Option.some.injEq, Step.replace.injEq,
      and_true]
    constructor
    · omega
    · omega

/-- **convergence**: two replace steps on the same document whose ranges are separated by at least
    one token, each rebased over the other's map: whenever both orders apply, both orders yield the
    same token sequence `d[:f1] ++ S1 ++ d[t1:f2] ++ S2 ++ d[t2:]` -/
theorem commute_replace_toks (S : Schema) (d da db dab dba : Node) (f1 t1 f2 t2 : Nat) (s1 s2 : Slice)
    (b1 b2 : Bool) (a' b' : Step) (hsep : t1 < f2)
    (ha : S.apply (.replace f1 t1 s1 b1) d = .ok da)
    (hb : S.apply (.replace f2 t2 s2 b2) d = .ok db)
    (hb' : (Step.replace f2 t2 s2 b2).map (Step.replace f1 t1 s1 b1).getMap = some b')
    (ha' : (Step.replace f1 t1 s1 b1).map (Step.replace f2 t2 s2 b2).getMap = some a')
    (hab : S.apply b' da = .ok dab) (hba : S.apply a' db = .ok dba) :
    ftoks dab.kids = (ftoks d.kids).take f1 ++ s1.toks ++ ((ftoks d.kids).drop t1).take (f2 - t1) ++ s2.toks ++ (ftoks d.kids).drop t2 ∧
    ftoks dba.kids = ftoks dab.kids := by
  have ka := apply_replace_fromReplace S d da f1 t1 s1 b1 ha
  have kb := apply_replace_fromReplace S d db f2 t2 s2 b2 hb
  obtain ⟨hda, h1, hl1, hwf1, _⟩ := fromReplace_toks S d da f1 t1 s1 ka
  obtain ⟨hdb, h2, hl2, hwf2, _⟩ := fromReplace_toks S d db f2 t2 s2 kb
  obtain ⟨hlen1, hs1⟩ := Slice.toks_length_of_wf_ex s1 hwf1
  obtain ⟨r1, r2⟩ := rebase_separated_after f1 t1 f2 t2 s1 s2 b1 b2 h1 h2 hsep hs1
  rw [r1] at hb'; rw [r2] at ha'
  simp only [Option.some.injEq] at hb' ha'
  subst hb' ha'
  obtain ⟨hdab, _, _, _⟩ := apply_replace_toks S da dab _ _ s2 false hab
  obtain ⟨hdba, _, _, _⟩ := apply_replace_toks S db dba _ _ s1 false hba
  rw [← ftoks_length] at hl2
  have n1 : ((f2 : Int) + s1.size - (t1 - f1)).toNat = f1 + s1.toks.length + (f2 - t1) := by omega
  have n2 : ((t2 : Int) + s1.size - (t1 - f1)).toNat = f1 + s1.toks.length + (t2 - t1) := by omega
  have eab : ftoks dab.kids = (ftoks d.kids).take f1 ++ s1.toks ++ ((ftoks d.kids).drop t1).take (f2 - t1)
      ++ s2.toks ++ (ftoks d.kids).drop t2 := by
    rw [hdab, hda, n1, n2]
    exact splice_after _ _ _ f1 t1 f2 t2 _ h1 (by omega) h2 hl2 rfl
  refine ⟨eab, ?_⟩
  rw [eab, hdba, hdb]
  exact splice_before _ _ _ f1 t1 f2 t2 h1 (by omega) h2 hl2

/-- … hence equal documents (normal form, which every library operation returns) -/
theorem commute_replace (S : Schema) (d da db dab dba : Node) (f1 t1 f2 t2 : Nat) (s1 s2 : Slice)
    (b1 b2 : Bool) (a' b' : Step) (hsep : t1 < f2)
    (ha : S.apply (.replace f1 t1 s1 b1) d = .ok da)
    (hb : S.apply (.replace f2 t2 s2 b2) d = .ok db)
    (hb' : (Step.replace f2 t2 s2 b2).map (Step.replace f1 t1 s1 b1).getMap = some b')
    (ha' : (Step.replace f1 t1 s1 b1).map (Step.replace f2 t2 s2 b2).getMap = some a')
    (hab : S.apply b' da = .ok dab) (hba : S.apply a' db = .ok dba)
    (hn1 : fnorm dab.kids = true) (hn2 : fnorm dba.kids = true) : dab = dba := by
  have htoks := (commute_replace_toks S d da db dab dba f1 t1 f2 t2 s1 s2 b1 b2 a' b' hsep ha hb hb' ha'
    hab hba).2
  have hk : dba.kids = dab.kids := ftoks_inj _ _ hn2 hn1 htoks
  have ka := apply_replace_fromReplace S d da f1 t1 s1 b1 ha
  have kb := apply_replace_fromReplace S d db f2 t2 s2 b2 hb
  obtain ⟨_, h1, _, hwf1, _⟩ := fromReplace_toks S d da f1 t1 s1 ka
  obtain ⟨_, h2, _, _, _⟩ := fromReplace_toks S d db f2 t2 s2 kb
  obtain ⟨_, hs1⟩ := Slice.toks_length_of_wf_ex s1 hwf1
  obtain ⟨r1, r2⟩ := rebase_separated_after f1 t1 f2 t2 s1 s2 b1 b2 h1 h2 hsep hs1
  rw [r1] at hb'; rw [r2] at ha'
  simp only [Option.some.injEq] at hb' ha'
  subst hb' ha'
  obtain ⟨ty, a, m, k, ka', rfl, rfl⟩ := apply_replace_elem S d da f1 t1 s1 b1 ha
  obtain ⟨ty2, a2, m2, k2, kb', e, rfl⟩ := apply_replace_elem S _ db f2 t2 s2 b2 hb
  cases e
  obtain ⟨ty3, a3, m3, k3, kab, e, rfl⟩ := apply_replace_elem S _ dab _ _ s2 false hab
  cases e
  obtain ⟨ty4, a4, m4, k4, kba, e, rfl⟩ := apply_replace_elem S _ dba _ _ s1 false hba
  cases e
  simp only [Node.kids] at hk
  rw [hk]

/-- markup steps (mark, node-mark, attribute) on separate tokens are never dropped either: mapping a
    position strictly outside a replace step's range through its map does not set `deleted` -/
theorem outside_not_deleted (f t : Nat) (sl : Slice) (b : Bool) (p : Nat) (a : Int)
    (hft : f ≤ t) (hp : p < f ∨ t < p) (hs : 0 ≤ sl.size) :
    ((Step.replace f t sl b).getMap.mapResult p a).deleted = false ∧
    ((Step.replace f t sl b).getMap.mapResult p a).deletedAfter = false := by
  rcases hp with hp | hp
  · have e : (Step.replace f t sl b).getMap.mapResult (p : Int) a = { pos := (p : Int) } :=
      mapResult_one_before _ _ _ _ a (by omega)
    rw [e]; exact ⟨deleted_zero _, deletedAfter_zero _⟩
  · have e : (Step.replace f t sl b).getMap.mapResult (p : Int) a
        = { pos := (p : Int) + (sl.size - ((t : Int) - f)) } :=
      mapResult_one_after _ _ _ _ a (by omega) (by omega)
    rw [e]; exact ⟨deleted_zero _, deletedAfter_zero _⟩

/-! ### markup steps: rebasing

  `Step.posSpan` = the positions a mark step (`from`, `to`) or a node-mark / attr step (`pos`, `pos`)
  carries; `Step.mapPos g` = the same step with `g` applied to them (Proofs/CommuteMarkup.lean). -/

/-- **a markup step strictly outside a replace step's range is not dropped**, and its mapped
    positions are the unchanged ones (before the range) resp. the shifted ones (after it) -/
theorem rebase_markup_not_dropped (st : Step) (lo hi : Nat) (hsp : st.posSpan = some (lo, hi))
    (hle : lo ≤ hi) (f t : Nat) (sl : Slice) (b : Bool) (hft : f ≤ t) :
    (hi < f → st.map (Step.replace f t sl b).getMap = some st) ∧
    (t < lo → st.map (Step.replace f t sl b).getMap =
      some (st.mapPos (fun p => ((p : Int) + (sl.size - ((t : Int) - f))).toNat))) := by
  constructor
  · intro h
    have := markup_map_shift st lo hi hsp hle (Step.replace f t sl b).getMap 0
      (fun p a hp => by
        rw [Int.add_zero]
        exact mapResult_one_before _ _ _ _ a (by rcases hp with rfl | rfl <;> omega))
    rw [this, Step.mapPos_id _ _ (fun p => by simp)]
  · intro h
    exact markup_map_shift st lo hi hsp hle (Step.replace f t sl b).getMap _
      (fun p a hp => mapResult_one_after _ _ _ _ a (by rcases hp with rfl | rfl <;> omega) (by omega))

/-- the same over a replace-around step's two ranges `[f, gf)` and `[gt, t)`: before both, strictly
    inside the kept gap, after both -/
theorem rebase_markup_not_dropped_around (st : Step) (lo hi : Nat) (hsp : st.posSpan = some (lo, hi))
    (hle : lo ≤ hi) (f t gf gt : Nat) (sl : Slice) (ins : Nat) (b : Bool)
    (hg : f ≤ gf ∧ gf ≤ gt ∧ gt ≤ t) :
    let m := (Step.replaceAround f t gf gt sl ins b).getMap
    (hi < f → st.map m = some st) ∧
    (gf < lo → hi < gt → st.map m =
      some (st.mapPos (fun p => ((p : Int) + ((ins : Int) - ((gf : Int) - f))).toNat))) ∧
    (t < lo → st.map m =
      some (st.mapPos (fun p => ((p : Int) + ((ins : Int) - ((gf : Int) - f)) +
        (sl.size - ins - ((t : Int) - gt))).toNat))) := by
  intro m
  refine ⟨fun h => ?_, fun h1 h2 => ?_, fun h => ?_⟩
  · have := markup_map_shift st lo hi hsp hle m 0
      (fun p a hp => by
        rw [Int.add_zero]
        exact mapResult_two_before _ _ _ _ _ _ _ a (by rcases hp with rfl | rfl <;> omega))
    rw [this, Step.mapPos_id _ _ (fun p => by simp)]
  · exact markup_map_shift st lo hi hsp hle m _
      (fun p a hp => mapResult_two_mid _ _ _ _ _ _ _ a
        (by rcases hp with rfl | rfl <;> omega) (by omega) (by rcases hp with rfl | rfl <;> omega))
  · have := markup_map_shift st lo hi hsp hle m
      (((ins : Int) - ((gf : Int) - f)) + (sl.size - ins - ((t : Int) - gt)))
      (fun p a hp => by
        rw [← Int.add_assoc]
        exact mapResult_two_after _ _ _ _ _ _ _ a
          (by rcases hp with rfl | rfl <;> omega) (by omega)
          (by rcases hp with rfl | rfl <;> omega) (by omega))
    rw [this]
    congr 2
    funext p
    omega

example : (Step.attr 7 "level" "2").posSpan = some (7, 7) ∧
    (Step.addMark 7 9 ⟨0, []⟩).mapPos (· + 3) = .addMark 10 12 ⟨0, []⟩ := by decide

/-! ### markup steps: convergence with a replace step -/

theorem docs_eq_of_toks (dab dba : Node) (ty : TypeId) (a : Attrs) (m : Marks) (k1 k2 : List Node)
    (h1 : dab = .elem ty a m k1) (h2 : dba = .elem ty a m k2)
    (htoks : ftoks dab.kids = ftoks dba.kids)
    (hn1 : fnorm dab.kids = true) (hn2 : fnorm dba.kids = true) : dab = dba := by
  subst h1 h2
  simp only [Node.kids] at htoks hn1 hn2
  rw [ftoks_inj _ _ hn1 hn2 htoks]

/-- the roots of the four documents of a replace-vs-markup square -/
theorem square_roots (S : Schema) (d da db dab dba : Node) (f t : Nat) (sl : Slice) (b : Bool)
    (M M' : Step) (plo phi plo' phi' : Nat)
    (hsp' : M'.posSpan = some (plo', phi'))
    (ha : S.apply (.replace f t sl b) d = .ok da)
    (hab : S.apply M' da = .ok dab) (hba : S.apply (.replace f t sl false) db = .ok dba)
    (hb : S.apply M d = .ok db) (hsp : M.posSpan = some (plo, phi)) :
    ∃ ty a m k1 k2, dab = .elem ty a m k1 ∧ dba = .elem ty a m k2 := by
  obtain ⟨ty, a, m, k, ka, rfl, rfl⟩ := apply_replace_elem S d da f t sl b ha
  obtain ⟨ty2, a2, m2, k2, kb, e, rfl⟩ := apply_markup_root S _ db M plo phi hsp hb
  cases e
  obtain ⟨ty3, a3, m3, k3, kab, e, rfl⟩ := apply_markup_root S _ dab M' plo' phi' hsp' hab
  cases e
  obtain ⟨ty4, a4, m4, k4, kba, e, rfl⟩ := apply_replace_elem S _ dba f t sl false hba
  cases e
  exact ⟨_, _, _, _, _, rfl, rfl⟩

theorem posSpan_mapPos (st : Step) (g : Nat → Nat) (lo hi : Nat) (h : st.posSpan = some (lo, hi)) :
    (st.mapPos g).posSpan = some (g lo, g hi) := by
  cases st <;> simp [Step.posSpan] at h <;> obtain ⟨rfl, rfl⟩ := h <;> rfl

/-- **a replace step and a node-mark or attr step on a token strictly outside the replaced range**
    (`pos < f ∨ t < pos`): whenever all four applications succeed, both orders give the same token
    sequence, hence (normal form) the same document.  No guard: only the addressed token changes
    and its new value depends on that token alone. -/
theorem commute_replace_nodeStep (S : Schema) (d da db dab dba : Node) (f t : Nat) (sl : Slice)
    (b : Bool) (pos : Nat) (A A' R' : Step) (hA : NodeStepAt pos A) (hout : pos < f ∨ t < pos)
    (ha : S.apply (.replace f t sl b) d = .ok da) (hb : S.apply A d = .ok db)
    (hA' : A.map (Step.replace f t sl b).getMap = some A')
    (hR' : (Step.replace f t sl b).map A.getMap = some R')
    (hab : S.apply A' da = .ok dab) (hba : S.apply R' db = .ok dba) :
    ftoks dab.kids = ftoks dba.kids ∧
    (fnorm dab.kids = true → fnorm dba.kids = true → dab = dba) := by
  have hsp : A.posSpan = some (pos, pos) := by
    rcases hA with ⟨m, rfl⟩ | ⟨m, rfl⟩ | ⟨n, v, rfl⟩ <;> rfl
  have hto : A.touch = some (pos, pos + 1) := by
    rcases hA with ⟨m, rfl⟩ | ⟨m, rfl⟩ | ⟨n, v, rfl⟩ <;> rfl
  have hfn : ∀ p q tok, markupFn S A p tok = markupFn S A q tok := by
    rcases hA with ⟨m, rfl⟩ | ⟨m, rfl⟩ | ⟨n, v, rfl⟩ <;> intro p q tok <;> rfl
  have key : ∃ g, A' = A.mapPos g ∧ R' = .replace f t sl false ∧ ftoks dab.kids = ftoks dba.kids := by
    rcases hout with h | h
    · obtain ⟨e1, e2, e3⟩ := commute_replace_markup_before S d da db dab dba f t sl b A A' R' pos pos
        hsp (Nat.le_refl _) h ha hb hA' hR' hab hba
      exact ⟨id, by rw [e1]; exact (Step.mapPos_id _ id (fun _ => rfl)).symm, e2, e3⟩
    · obtain ⟨e1, e2, e3⟩ := commute_replace_markup_after S d da db dab dba f t sl b A A' R' pos pos
        hsp (Nat.le_refl _) h ha hb hA' hR' hab hba (pos + 1) hto (fun i tok _ _ _ => hfn _ _ _)
      exact ⟨_, e1, e2, e3⟩
  obtain ⟨g, e1, e2, e3⟩ := key
  refine ⟨e3, fun hn1 hn2 => ?_⟩
  subst e1 e2
  obtain ⟨ty, a, m, k1, k2, r1, r2⟩ := square_roots S d da db dab dba f t sl b A _ pos pos _ _
    (posSpan_mapPos A g pos pos hsp) ha hab hba hb hsp
  exact docs_eq_of_toks dab dba ty a m k1 k2 r1 r2 e3 hn1 hn2

/-- replace step vs. attr step -/
theorem commute_replace_attr (S : Schema) (d da db dab dba : Node) (f t : Nat) (sl : Slice)
    (b : Bool) (pos : Nat) (name value : String) (A' R' : Step) (hout : pos < f ∨ t < pos)
    (ha : S.apply (.replace f t sl b) d = .ok da) (hb : S.apply (.attr pos name value) d = .ok db)
    (hA' : (Step.attr pos name value).map (Step.replace f t sl b).getMap = some A')
    (hR' : (Step.replace f t sl b).map (Step.attr pos name value).getMap = some R')
    (hab : S.apply A' da = .ok dab) (hba : S.apply R' db = .ok dba) :
    ftoks dab.kids = ftoks dba.kids ∧
    (fnorm dab.kids = true → fnorm dba.kids = true → dab = dba) :=
  commute_replace_nodeStep S d da db dab dba f t sl b pos _ A' R' (.inr (.inr ⟨name, value, rfl⟩))
    hout ha hb hA' hR' hab hba

/-- replace step vs. add-node-mark / remove-node-mark step -/
theorem commute_replace_nodeMark (S : Schema) (d da db dab dba : Node) (f t : Nat) (sl : Slice)
    (b : Bool) (pos : Nat) (mk : Mark) (A A' R' : Step)
    (hA : A = .addNodeMark pos mk ∨ A = .removeNodeMark pos mk) (hout : pos < f ∨ t < pos)
    (ha : S.apply (.replace f t sl b) d = .ok da) (hb : S.apply A d = .ok db)
    (hA' : A.map (Step.replace f t sl b).getMap = some A')
    (hR' : (Step.replace f t sl b).map A.getMap = some R')
    (hab : S.apply A' da = .ok dab) (hba : S.apply R' db = .ok dba) :
    ftoks dab.kids = ftoks dba.kids ∧
    (fnorm dab.kids = true → fnorm dba.kids = true → dab = dba) :=
  commute_replace_nodeStep S d da db dab dba f t sl b pos A A' R'
    (by rcases hA with rfl | rfl
        · exact .inl ⟨mk, rfl⟩
        · exact .inr (.inl ⟨mk, rfl⟩))
    hout ha hb hA' hR' hab hba

/-- **guard of the add-mark clause**: every inline atom (text unit, inline leaf, inline atom
    element) with index in the mark step's range `[lo, hi)` has an enclosing node of the same
    *type* in `da` — the document after the replace step, where the token sits at
    `lo' + (i - lo)` — as in `d`.  Decidable on the two token sequences. -/
def ParentStable (S : Schema) (d da : Node) (lo hi lo' : Nat) : Prop :=
  ∀ i, i < hi → lo ≤ i → isAtomTok S ((ftoks d.kids).getD i Tok.cl) = true →
    (ctxOf (S.tyOf d) (ftoks da.kids)).getD (lo' + (i - lo)) 0 =
      (ctxOf (S.tyOf d) (ftoks d.kids)).getD i 0

instance (S : Schema) (d da : Node) (lo hi lo' : Nat) : Decidable (ParentStable S d da lo hi lo') := by
  unfold ParentStable; infer_instance

/-- the guard holds where parents are kept: in `<p>a</p><p>b</p>`, inserting "c" after "a" leaves
    the unit "b" (old index 4, new index 5) in a paragraph -/
example : ParentStable ⟨#[], #[], 0, 0⟩
    (.elem 0 [] [] [.elem 1 [] [] [.text [97] []], .elem 1 [] [] [.text [98] []]])
    (.elem 0 [] [] [.elem 1 [] [] [.text [97, 99] []], .elem 1 [] [] [.text [98] []]]) 4 5 5 := by
  intro i h1 h2 _
  have : i = 4 := by omega
  subst this
  simp [ftoks, Node.toks, ctxOf, ctxAux, Schema.tyOf, Node.tyOr, Node.kids]

/-- … and fails on the known counterexample (types: 1 ul, 2 li, 3 paragraph, 4 code_block):
    `ul(li(p(), code_block("de")))`, `replace 1..5` with `<li(p())>(0,2)` moves "e" (old index 6,
    new index 4) from the code block into the paragraph -/
example : ¬ ParentStable ⟨#[], #[], 0, 0⟩
    (.elem 0 [] [] [.elem 1 [] [] [.elem 2 [] [] [.elem 3 [] [] [], .elem 4 [] [] [.text [100, 101] []]]]])
    (.elem 0 [] [] [.elem 1 [] [] [.elem 2 [] [] [.elem 3 [] [] [.text [100, 101] []]]]]) 6 7 4 := by
  intro h
  have := h 6 (by omega) (by omega) (by simp [ftoks, Node.toks, Node.kids, isAtomTok])
  simp [ftoks, Node.toks, ctxOf, ctxAux, Schema.tyOf, Node.tyOr, Node.kids] at this

/-- **replace step vs. add-mark step after the replaced range, under `ParentStable`**: whenever all
    four applications succeed, both orders give the same tokens / document.  Without the guard the
    statement is false (DESIGN.md §5 C17: `replace 1..5` re-types the code block holding the marked
    text into a paragraph). -/
-- FULL STATEMENT (false in the reference implementation too): the same without `hstable`.
theorem commute_replace_mark_partial (S : Schema) (d da db dab dba : Node) (f t : Nat) (sl : Slice)
    (b : Bool) (f2 t2 f2' t2' : Nat) (mk : Mark) (R' : Step) (hle : f2 ≤ t2) (hsep : t < f2)
    (ha : S.apply (.replace f t sl b) d = .ok da) (hb : S.apply (.addMark f2 t2 mk) d = .ok db)
    (hM' : (Step.addMark f2 t2 mk).map (Step.replace f t sl b).getMap = some (.addMark f2' t2' mk))
    (hR' : (Step.replace f t sl b).map (Step.addMark f2 t2 mk).getMap = some R')
    (hab : S.apply (.addMark f2' t2' mk) da = .ok dab) (hba : S.apply R' db = .ok dba)
    (hstable : ParentStable S d da f2 t2 f2') :
    ftoks dab.kids = ftoks dba.kids ∧
    (fnorm dab.kids = true → fnorm dba.kids = true → dab = dba) := by
  have hsp : (Step.addMark f2 t2 mk).posSpan = some (f2, t2) := rfl
  have kfa := apply_replace_fromReplace S d da f t sl b ha
  obtain ⟨hda, hft, htl, hwf, _⟩ := fromReplace_toks S d da f t sl kfa
  obtain ⟨hlen, hs0⟩ := Slice.toks_length_of_wf_ex sl hwf
  have hmapped := (rebase_markup_not_dropped _ f2 t2 hsp hle f t sl b hft).2 hsep
  rw [hmapped] at hM'
  simp only [Step.mapPos, Option.some.injEq, Step.addMark.injEq, and_true] at hM'
  have hf2' : f2' = f + sl.toks.length + (f2 - t) := by omega
  obtain ⟨e1, e2, e3⟩ := commute_replace_markup_after S d da db dab dba f t sl b _ _ R' f2 t2
    hsp hle hsep ha hb hmapped hR' (by simpa [Step.mapPos, hM'.1, hM'.2] using hab) hba t2 rfl
    (fun i tok g1 g2 g3 => by
      show addTok S mk _ tok = addTok S mk _ tok
      have htok : (ftoks d.kids).getD i Tok.cl = tok := by
        rw [List.getD_eq_getElem?_getD, g3]; rfl
      by_cases hat : isAtomTok S tok = true
      · have := hstable i g2 g1 (by rw [htok]; exact hat)
        rw [show f2' + (i - f2) = f + sl.toks.length + (i - t) by omega] at this
        rw [this]
      · simp [addTok, hat])
  refine ⟨e3, fun hn1 hn2 => ?_⟩
  subst e2
  obtain ⟨ty, a, m, k1, k2, r1, r2⟩ := square_roots S d da db dab dba f t sl b _ (.addMark f2' t2' mk)
    f2 t2 f2' t2' rfl ha hab hba hb hsp
  exact docs_eq_of_toks dab dba ty a m k1 k2 r1 r2 e3 hn1 hn2

/-- **replace step vs. mark step before the replaced range, and vs. remove-mark step anywhere
    outside it**: no guard needed (the enclosing nodes of earlier tokens cannot change; removing a
    mark does not look at the enclosing node) -/
theorem commute_replace_mark_unguarded (S : Schema) (d da db dab dba : Node) (f t : Nat) (sl : Slice)
    (b : Bool) (f2 t2 : Nat) (mk : Mark) (M M' R' : Step) (hle : f2 ≤ t2)
    (hM : (M = .addMark f2 t2 mk ∧ t2 < f) ∨ (M = .removeMark f2 t2 mk ∧ (t2 < f ∨ t < f2)))
    (ha : S.apply (.replace f t sl b) d = .ok da) (hb : S.apply M d = .ok db)
    (hM' : M.map (Step.replace f t sl b).getMap = some M')
    (hR' : (Step.replace f t sl b).map M.getMap = some R')
    (hab : S.apply M' da = .ok dab) (hba : S.apply R' db = .ok dba) :
    ftoks dab.kids = ftoks dba.kids ∧
    (fnorm dab.kids = true → fnorm dba.kids = true → dab = dba) := by
  have hsp : M.posSpan = some (f2, t2) := by rcases hM with ⟨rfl, _⟩ | ⟨rfl, _⟩ <;> rfl
  have key : ∃ g, M' = M.mapPos g ∧ R' = .replace f t sl false ∧ ftoks dab.kids = ftoks dba.kids := by
    have before : t2 < f → ∃ g, M' = M.mapPos g ∧ R' = .replace f t sl false ∧
        ftoks dab.kids = ftoks dba.kids := by
      intro h
      obtain ⟨e1, e2, e3⟩ := commute_replace_markup_before S d da db dab dba f t sl b M M' R' f2 t2
        hsp hle h ha hb hM' hR' hab hba
      exact ⟨id, by rw [e1]; exact (Step.mapPos_id _ id (fun _ => rfl)).symm, e2, e3⟩
    rcases hM with ⟨rfl, h⟩ | ⟨rfl, h | h⟩
    · exact before h
    · exact before h
    · obtain ⟨e1, e2, e3⟩ := commute_replace_markup_after S d da db dab dba f t sl b _ M' R' f2 t2
        hsp hle h ha hb hM' hR' hab hba t2 rfl (fun i tok _ _ _ => rfl)
      exact ⟨_, e1, e2, e3⟩
  obtain ⟨g, e1, e2, e3⟩ := key
  refine ⟨e3, fun hn1 hn2 => ?_⟩
  subst e1 e2
  obtain ⟨ty, a, m, k1, k2, r1, r2⟩ := square_roots S d da db dab dba f t sl b M _ f2 t2 _ _
    (posSpan_mapPos M g f2 t2 hsp) ha hab hba hb hsp
  exact docs_eq_of_toks dab dba ty a m k1 k2 r1 r2 e3 hn1 hn2

/-! ### two markup steps -/

/-- **two markup steps (mark, node-mark, attr, doc-attr) on disjoint token windows commute**: both
    have the empty map, rebasing leaves them unchanged, and both orders give the same tokens.
    `Step.touch` = `[from, to)` of a mark step, `[pos, pos+1)` of a node-mark / attr step, `[0, 0)` of
    a doc-attr step. -/
theorem commute_markup_markup (S : Schema) (d da db dab dba : Node) (A B A' B' : Step)
    (a1 a2 b1 b2 : Nat) (hta : A.touch = some (a1, a2)) (htb : B.touch = some (b1, b2))
    (hd : a2 ≤ b1 ∨ b2 ≤ a1)
    (ha : S.apply A d = .ok da) (hb : S.apply B d = .ok db)
    (hB' : B.map A.getMap = some B') (hA' : A.map B.getMap = some A')
    (hab : S.apply B' da = .ok dab) (hba : S.apply A' db = .ok dba) :
    A' = A ∧ B' = B ∧ ftoks dab.kids = ftoks dba.kids :=
  commute_markup_core S d da db dab dba A B A' B' a1 a2 b1 b2 hta htb hd ha hb hB' hA' hab hba

/-- … hence equal documents, for mark / node-mark / attr steps (normal form) -/
theorem commute_markup_markup_docs (S : Schema) (d da db dab dba : Node) (A B A' B' : Step)
    (a1 a2 b1 b2 pa1 pa2 pb1 pb2 : Nat) (hta : A.touch = some (a1, a2)) (htb : B.touch = some (b1, b2))
    (hpa : A.posSpan = some (pa1, pa2)) (hpb : B.posSpan = some (pb1, pb2))
    (hd : a2 ≤ b1 ∨ b2 ≤ a1)
    (ha : S.apply A d = .ok da) (hb : S.apply B d = .ok db)
    (hB' : B.map A.getMap = some B') (hA' : A.map B.getMap = some A')
    (hab : S.apply B' da = .ok dab) (hba : S.apply A' db = .ok dba)
    (hn1 : fnorm dab.kids = true) (hn2 : fnorm dba.kids = true) : dab = dba := by
  obtain ⟨rfl, rfl, e3⟩ := commute_markup_core S d da db dab dba A B A' B' a1 a2 b1 b2 hta htb hd
    ha hb hB' hA' hab hba
  obtain ⟨ty, a, m, k, ka, rfl, rfl⟩ := apply_markup_root S d da A' pa1 pa2 hpa ha
  obtain ⟨ty2, a2', m2, k2, kb, e, rfl⟩ := apply_markup_root S _ db B' pb1 pb2 hpb hb
  cases e
  obtain ⟨ty3, a3, m3, k3, kab, e, rfl⟩ := apply_markup_root S _ dab B' pb1 pb2 hpb hab
  cases e
  obtain ⟨ty4, a4, m4, k4, kba, e, rfl⟩ := apply_markup_root S _ dba A' pa1 pa2 hpa hba
  cases e
  exact docs_eq_of_toks _ _ _ _ _ _ _ rfl rfl e3 hn1 hn2

/-! ### both rebased orders apply — replace steps (helper lemmas: Proofs/CommuteSuccess.lean, Proofs/Lvl.lean)

General statement (false, see `commute_needs_guard` below and the open finding C17-parent-retyped):

    commute_succeeds_replace_full : t1 < f2 → S.apply (.replace f1 t1 s1 b1) d = .ok da →
        S.apply (.replace f2 t2 s2 b2) d = .ok db → the two rebased steps apply to `da` resp. `db`

Proved under the decidable guard `commuteGuard = insideLeft ∨ insideRight` (PM/CommuteGuard.lean): one of
the two steps happens entirely inside an element node `n` — its `replace_outer` descends into `n` — and the
other step's range lies behind `n` (resp. ends in front of `n`), in a node both steps reach.  Then the
inner step rebuilds and re-validates nodes inside `n` only and keeps `n`'s markup, and the other step's
replace never looks into `n`: the child list it validates has the same node types with either content of
`n` (Proofs/CommuteSuccess.lean `replaceKids_prefix`, Proofs/CommuteSuccessR.lean `replaceKids_suffix`).
No validity hypothesis and no schema guard are needed, and both orders yield the *same* document (no
normal-form argument).  Not covered: both steps rebuild the same node (two insertions into one parent:
`commute_needs_guard`), or one step's range crosses into the node the other one works in (open finding
C17-parent-retyped). -/

/-- **two replace steps with separated ranges, one of them inside a node the other one does not touch:
    neither rebased step is dropped, both orders apply, and they give the same document** -/
theorem commute_succeeds_replace (S : Schema) (d da db : Node) (f1 t1 f2 t2 : Nat) (s1 s2 : Slice)
    (b1 b2 : Bool) (hn : fnorm d.kids = true) (hsn1 : fnorm s1.content = true)
    (hsn2 : fnorm s2.content = true) (hsep : t1 < f2)
    (ha : S.apply (.replace f1 t1 s1 b1) d = .ok da) (hb : S.apply (.replace f2 t2 s2 b2) d = .ok db)
    (hg : commuteGuard d.kids f1 t1 s1 f2 t2 s2 = true) :
    ∃ a' b' dab, (Step.replace f2 t2 s2 b2).map (Step.replace f1 t1 s1 b1).getMap = some b' ∧
      (Step.replace f1 t1 s1 b1).map (Step.replace f2 t2 s2 b2).getMap = some a' ∧
      S.apply b' da = .ok dab ∧ S.apply a' db = .ok dab := by
  have ka := apply_replace_fromReplace S d da f1 t1 s1 b1 ha
  have kb := apply_replace_fromReplace S d db f2 t2 s2 b2 hb
  obtain ⟨ty, a, m, K, Ka, rfl, rfl, hr1⟩ := fromReplace_elem S d da f1 t1 s1 ka
  obtain ⟨ty', a', m', K', Kb, he, rfl, hr2⟩ := fromReplace_elem S _ db f2 t2 s2 kb
  cases he
  simp only [Node.kids] at hn hg
  obtain ⟨h1, _, hwf1⟩ := replaceKids_guards S ty K f1 t1 s1 Ka hr1
  obtain ⟨h2, _, _⟩ := replaceKids_guards S ty K f2 t2 s2 Kb hr2
  obtain ⟨hlen1, hs1⟩ := Slice.toks_length_of_wf_ex s1 hwf1
  obtain ⟨r1, r2⟩ := rebase_separated_after f1 t1 f2 t2 s1 s2 b1 b2 h1 h2 hsep hs1
  obtain ⟨Kab, c1, c2⟩ : ∃ Kab, replaceKids S ty Ka (f2 - (t1 - f1) + s1.toks.length)
      (t2 - (t1 - f1) + s1.toks.length) s2 = .ok Kab ∧ replaceKids S ty Kb f1 t1 s1 = .ok Kab := by
    simp only [commuteGuard, Bool.or_eq_true] at hg
    rcases hg with hg | hg
    · exact replaceKids_commute_left S ty K Ka Kb f1 t1 f2 t2 s1 s2 hn hsn1 hsep hr1 hr2 hg
    · exact replaceKids_commute_right S ty K Ka Kb f1 t1 f2 t2 s1 s2 hn hsn1 hsn2 hsep hr1 hr2 hg
  have n1 : ((f2 : Int) + s1.size - (t1 - f1)).toNat = f2 - (t1 - f1) + s1.toks.length := by omega
  have n2 : ((t2 : Int) + s1.size - (t1 - f1)).toNat = t2 - (t1 - f1) + s1.toks.length := by omega
  refine ⟨_, _, Node.elem ty a m Kab, r1, r2, ?_, ?_⟩
  · rw [n1, n2]
    simp [Schema.apply, Schema.fromReplace, Schema.replace, c1, Except.map]
  · simp [Schema.apply, Schema.fromReplace, Schema.replace, c2, Except.map]

/-! Non-vacuity of `commute_succeeds_replace`: in `doc(p("ab"), p("c"))` one user types `x` at 2 (inside the
    first paragraph) and another types `y` at 5 (inside the second); the guard holds, the rebased steps are
    "insert `y` at 6" and "insert `x` at 2", and both orders give `doc(p("axb"), p("yc"))`. -/
section Example
private def tinyS : Schema :=
  { nodes := #[
      { name := "doc", isText := false, isInline := false, isLeaf := false, isAtom := false,
        inlineContent := false, isolating := false, defining := false, code := false,
        dfa := #[⟨true, [(1, 0)]⟩], markSet := some [], attrs := [] },
      { name := "para", isText := false, isInline := false, isLeaf := false, isAtom := false,
        inlineContent := true, isolating := false, defining := false, code := false,
        dfa := #[⟨true, [(2, 0)]⟩], markSet := none, attrs := [] },
      { name := "text", isText := true, isInline := true, isLeaf := true, isAtom := true,
        inlineContent := false, isolating := false, defining := false, code := false,
        dfa := #[⟨true, []⟩], markSet := some [], attrs := [] }],
    marks := #[], top := 0, textTy := 2 }

private def par (s : List Nat) : Node := .elem 1 [] [] [.text s []]
private def c0 : Node := .elem 0 [] [] [par [97, 98], par [99]]
private def ca : Node := .elem 0 [] [] [par [97, 120, 98], par [99]]
private def cb : Node := .elem 0 [] [] [par [97, 98], par [121, 99]]
private def cab : Node := .elem 0 [] [] [par [97, 120, 98], par [121, 99]]

private theorem stepA : tinyS.apply (.replace 2 2 ⟨[.text [120] []], 0, 0⟩ false) c0 = .ok ca := by
  have hv : tinyS.validContent 1 [Node.text [97, 120, 98] []] = true := by decide
  simp [Schema.apply, Schema.fromReplace, Schema.replace, c0, ca, par, replaceKids, inRange,
    depthAt, Slice.wf, spineL, spineR, outer, atLevel, fcut, fcutLoop, cutText, splitOk, isHigh, isLow,
    fappend, addNode, Except.map, hv]

private theorem stepB : tinyS.apply (.replace 5 5 ⟨[.text [121] []], 0, 0⟩ false) c0 = .ok cb := by
  have hv : tinyS.validContent 1 [Node.text [121, 99] []] = true := by decide
  simp [Schema.apply, Schema.fromReplace, Schema.replace, c0, cb, par, replaceKids, inRange,
    depthAt, Slice.wf, spineL, spineR, outer, atLevel, fcut, fappend, addNode, Except.map, hv]

example : ∃ dab, tinyS.apply (.replace 6 6 ⟨[.text [121] []], 0, 0⟩ false) ca = .ok dab ∧
    tinyS.apply (.replace 2 2 ⟨[.text [120] []], 0, 0⟩ false) cb = .ok dab := by
  obtain ⟨a', b', dab, hb', ha', h1, h2⟩ := commute_succeeds_replace tinyS c0 ca cb 2 2 5 5
    ⟨[.text [120] []], 0, 0⟩ ⟨[.text [121] []], 0, 0⟩ false false
    (by simp [c0, par, Node.kids, fnorm, fnormKids, Node.norm, chainOk, adjOk])
    (by simp [fnorm, fnormKids, Node.norm, chainOk]) (by simp [fnorm, fnormKids, Node.norm, chainOk])
    (by omega) stepA stepB (by simp [c0, par, Node.kids, commuteGuard, insideLeft, depthAt])
  have e1 : (Step.replace 5 5 ⟨[.text [121] []], 0, 0⟩ false).map
      (Step.replace 2 2 ⟨[.text [120] []], 0, 0⟩ false).getMap
      = some (.replace 6 6 ⟨[.text [121] []], 0, 0⟩ false) := by
    have := (rebase_separated_after 2 2 5 5 ⟨[.text [120] []], 0, 0⟩ ⟨[.text [121] []], 0, 0⟩ false false
      (by omega) (by omega) (by omega) (by simp [Slice.size])).1
    simpa [Slice.size] using this
  have e2 : (Step.replace 2 2 ⟨[.text [120] []], 0, 0⟩ false).map
      (Step.replace 5 5 ⟨[.text [121] []], 0, 0⟩ false).getMap
      = some (.replace 2 2 ⟨[.text [120] []], 0, 0⟩ false) :=
    (rebase_separated_after 2 2 5 5 ⟨[.text [120] []], 0, 0⟩ ⟨[.text [121] []], 0, 0⟩ false false
      (by omega) (by omega) (by omega) (by simp [Slice.size])).2
  rw [e1] at hb'; rw [e2] at ha'
  simp only [Option.some.injEq] at hb' ha'
  subst hb'; subst ha'
  exact ⟨dab, h1, h2⟩

/-- the other half of the guard: "insert a paragraph at 0" (doc level) against "type `y` at 5" (inside the
    second paragraph) — the right step is the one inside a node the left one does not touch -/
example : insideLeft c0.kids 0 0 (depthAt c0.kids 0 - 0) 5 5 (depthAt c0.kids 5 - 0) = false ∧
    commuteGuard c0.kids 0 0 ⟨[par [120]], 0, 0⟩ 5 5 ⟨[.text [121] []], 0, 0⟩ = true := by
  simp [c0, par, Node.kids, commuteGuard, insideLeft, insideRight, depthAt]
end Example

/-! The guard cannot be dropped: a parent with a bounded count.  `doc "para{1,3}"`, `doc(p("a"), p("b"))`:
    "insert `p("x")` at 0" and "insert `p("y")` at 6" both apply (three paragraphs), their ranges are
    separated by all six tokens, both rebased steps are kept — and each fails on the other's result (four
    paragraphs).  The real code behaves the same (checked with a schema built from this expression). -/
section NeedsGuard
private def cntS : Schema :=
  { nodes := #[
      { name := "doc", isText := false, isInline := false, isLeaf := false, isAtom := false,
        inlineContent := false, isolating := false, defining := false, code := false,
        dfa := #[⟨false, [(1, 1)]⟩, ⟨true, [(1, 2)]⟩, ⟨true, [(1, 3)]⟩, ⟨true, []⟩], markSet := some [],
        attrs := [] },
      { name := "para", isText := false, isInline := false, isLeaf := false, isAtom := false,
        inlineContent := true, isolating := false, defining := false, code := false,
        dfa := #[⟨true, [(2, 0)]⟩], markSet := none, attrs := [] },
      { name := "text", isText := true, isInline := true, isLeaf := true, isAtom := true,
        inlineContent := false, isolating := false, defining := false, code := false,
        dfa := #[⟨true, []⟩], markSet := some [], attrs := [] }],
    marks := #[], top := 0, textTy := 2 }

private def q (c : Nat) : Node := .elem 1 [] [] [.text [c] []]
private def n0 : Node := .elem 0 [] [] [q 97, q 98]
private def na : Node := .elem 0 [] [] [q 120, q 97, q 98]
private def nb : Node := .elem 0 [] [] [q 97, q 98, q 121]

/-- both steps apply to the valid base document, neither rebased step is dropped, both orders fail —
    and the guard is false -/
theorem commute_needs_guard :
    cntS.checkNode n0 = true ∧
    cntS.apply (.replace 0 0 ⟨[q 120], 0, 0⟩ false) n0 = .ok na ∧
    cntS.apply (.replace 6 6 ⟨[q 121], 0, 0⟩ false) n0 = .ok nb ∧
    (Step.replace 6 6 ⟨[q 121], 0, 0⟩ false).map (Step.replace 0 0 ⟨[q 120], 0, 0⟩ false).getMap
      = some (.replace 9 9 ⟨[q 121], 0, 0⟩ false) ∧
    (Step.replace 0 0 ⟨[q 120], 0, 0⟩ false).map (Step.replace 6 6 ⟨[q 121], 0, 0⟩ false).getMap
      = some (.replace 0 0 ⟨[q 120], 0, 0⟩ false) ∧
    cntS.apply (.replace 9 9 ⟨[q 121], 0, 0⟩ false) na = .error .failed ∧
    cntS.apply (.replace 0 0 ⟨[q 120], 0, 0⟩ false) nb = .error .failed ∧
    commuteGuard n0.kids 0 0 ⟨[q 120], 0, 0⟩ 6 6 ⟨[q 121], 0, 0⟩ = false := by
  have v3a : cntS.validContent 0 [q 120, q 97, q 98] = true := by decide
  have v3b : cntS.validContent 0 [q 97, q 98, q 121] = true := by decide
  have v4a : cntS.validContent 0 [q 120, q 97, q 98, q 121] = false := by decide
  have r := rebase_separated_after 0 0 6 6 ⟨[q 120], 0, 0⟩ ⟨[q 121], 0, 0⟩ false false
    (by omega) (by omega) (by omega) (by simp [Slice.size, q])
  refine ⟨?_, ?_, ?_, ?_, r.2, ?_, ?_, ?_⟩
  · simp [n0, q, Schema.checkNode, Schema.checkKids]; decide
  · simp [Schema.apply, Schema.fromReplace, Schema.replace, n0, na, q, replaceKids, inRange,
      Slice.wf, spineL, spineR, outer, atLevel, fcut, fappend, addNode, Except.map] at v3a ⊢
    simp [v3a]
  · simp [Schema.apply, Schema.fromReplace, Schema.replace, n0, nb, q, replaceKids, inRange,
      depthAt, Slice.wf, spineL, spineR, outer, atLevel, fcut, fappend, addNode, Except.map] at v3b ⊢
    simp [v3b]
  · have := r.1
    simpa [Slice.size, q] using this
  · simp [Schema.apply, Schema.fromReplace, Schema.replace, na, q, replaceKids, inRange,
      depthAt, Slice.wf, spineL, spineR, outer, atLevel, fcut, fappend, addNode, Except.map] at v4a ⊢
    simp [v4a]
  · simp [Schema.apply, Schema.fromReplace, Schema.replace, nb, q, replaceKids, inRange,
      Slice.wf, spineL, spineR, outer, atLevel, fcut, fappend, addNode, Except.map] at v4a ⊢
    simp [v4a]
  · simp [n0, q, Node.kids, commuteGuard, insideLeft, insideRight]
end NeedsGuard

/-! ## pairs with a replace-around step (lift, wrap, set_node_markup, set_block_type)

  A replace-around step `(from, to, gapFrom, gapTo, slice, insert)` touches the two ranges
  `[from, gapFrom)` and `[gapTo, to)` and keeps the gap between them.  A step is *separated* from it when
  it lies strictly before `from`, strictly after `to`, or strictly inside the kept gap (at least one
  untouched token on either side).  `AroundShape` (Proofs/CommuteAroundDocs.lean) = the ranges are in
  order, the slice is well-formed and `insert ≤ slice.size`: the shape of every replace-around step
  the library builds, invariant under rebasing.
  Helper lemmas: Proofs/CommuteAround.lean (splices, rebasing), Proofs/CommuteAroundDocs.lean. -/

/-- **rebasing over a separated step never drops a replace-around step or the replace step**: the
    three positions of a replace step relative to a replace-around step.  `δ1` = size change of the
    replace step, `δX` / `δY` = size changes of the replace-around step's two ranges. -/
theorem rebase_around_separated (f t gf gt ins f1 t1 : Nat) (sl s1 : Slice) (st b1 : Bool)
    (hg : f ≤ gf ∧ gf ≤ gt ∧ gt ≤ t) (h1 : f1 ≤ t1) :
    let A := Step.replaceAround f t gf gt sl ins st
    let R := Step.replace f1 t1 s1 b1
    let δ1 : Int := s1.size - ((t1 : Int) - f1)
    let δX : Int := (ins : Int) - ((gf : Int) - f)
    let δY : Int := sl.size - ins - ((t : Int) - gt)
    (t1 < f →
      A.map R.getMap = some (.replaceAround ((f : Int) + δ1).toNat ((t : Int) + δ1).toNat
        ((gf : Int) + δ1).toNat ((gt : Int) + δ1).toNat sl ins st) ∧
      R.map A.getMap = some (.replace f1 t1 s1 false)) ∧
    (gf < f1 → t1 < gt →
      A.map R.getMap = some (.replaceAround f ((t : Int) + δ1).toNat gf ((gt : Int) + δ1).toNat sl ins st) ∧
      R.map A.getMap = some (.replace ((f1 : Int) + δX).toNat ((t1 : Int) + δX).toNat s1 false)) ∧
    (t < f1 →
      A.map R.getMap = some A ∧
      R.map A.getMap = some (.replace ((f1 : Int) + δX + δY).toNat ((t1 : Int) + δX + δY).toNat s1 false)) := by
  intro A R δ1 δX δY
  refine ⟨fun h => ⟨?_, ?_⟩, fun h h' => ⟨?_, ?_⟩, fun h => ⟨?_, ?_⟩⟩
  · exact around_map_replace_before f t gf gt ins f1 t1 sl s1 st b1 hg h1 h
  · exact replace_map_around_after f t gf gt ins f1 t1 sl s1 st b1 h1 h
  · exact around_map_replace_gap f t gf gt ins f1 t1 sl s1 st b1 hg h1 h h'
  · exact replace_map_around_gap f t gf gt ins f1 t1 sl s1 st b1 hg h1 h h'
  · exact around_map_replace_after f t gf gt ins f1 t1 sl s1 st b1 hg h
  · exact replace_map_around_before f t gf gt ins f1 t1 sl s1 st b1 hg h1 h

/-- the same for two replace-around steps: the second one after the first one, or inside its gap
    (the two remaining positions are these with the roles exchanged) -/
theorem rebase_around_around (f t gf gt ins f' t' gf' gt' ins' : Nat) (sl sl' : Slice) (st st' : Bool)
    (hg : f ≤ gf ∧ gf ≤ gt ∧ gt ≤ t) (hg' : f' ≤ gf' ∧ gf' ≤ gt' ∧ gt' ≤ t') :
    let A := Step.replaceAround f t gf gt sl ins st
    let B := Step.replaceAround f' t' gf' gt' sl' ins' st'
    let δX : Int := (ins : Int) - ((gf : Int) - f)
    let Δ : Int := ((ins : Int) - ((gf : Int) - f)) + (sl.size - ins - ((t : Int) - gt))
    let Δ' : Int := ((ins' : Int) - ((gf' : Int) - f')) + (sl'.size - ins' - ((t' : Int) - gt'))
    (t < f' →
      A.map B.getMap = some A ∧
      B.map A.getMap = some (.replaceAround ((f' : Int) + Δ).toNat ((t' : Int) + Δ).toNat
        ((gf' : Int) + Δ).toNat ((gt' : Int) + Δ).toNat sl' ins' st')) ∧
    (gf < f' → t' < gt →
      A.map B.getMap = some (.replaceAround f ((t : Int) + Δ').toNat gf ((gt : Int) + Δ').toNat sl ins st) ∧
      B.map A.getMap = some (.replaceAround ((f' : Int) + δX).toNat ((t' : Int) + δX).toNat
        ((gf' : Int) + δX).toNat ((gt' : Int) + δX).toNat sl' ins' st')) := by
  intro A B δX Δ Δ'
  refine ⟨fun h => ⟨?_, ?_⟩, fun h h' => ⟨?_, ?_⟩⟩
  · exact around_map_around_before f t gf gt ins f' t' gf' gt' ins' sl sl' st st' hg h
  · exact around_map_around_after f t gf gt ins f' t' gf' gt' ins' sl sl' st st' hg hg' h
  · exact around_map_around_outer f t gf gt ins f' t' gf' gt' ins' sl sl' st st' hg hg' h h'
  · exact around_map_around_gap f t gf gt ins f' t' gf' gt' ins' sl sl' st st' hg hg' h h'

/-- a shifted replace-around step of the library's shape, and a non-trivial instance of the rebasing
    rule: wrapping `[3, 7)` (`insert = 1` of a 2-token slice) against an insertion of 2 tokens at 1 -/
example : AroundShape 3 7 3 7 ⟨[.elem 1 [] [] []], 0, 0⟩ 1 ∧
    (Step.replaceAround 3 7 3 7 ⟨[.elem 1 [] [] []], 0, 0⟩ 1 true).map
      (Step.replace 1 1 ⟨[.text [120, 121] []], 0, 0⟩ false).getMap =
      some (.replaceAround 5 9 5 9 ⟨[.elem 1 [] [] []], 0, 0⟩ 1 true) := by
  constructor
  · decide
  · decide

/-- **convergence, replace step vs. separated replace-around step, on tokens**: whenever all four
    applications succeed, both orders give the same token sequence, namely the base document with the
    three ranges replaced: `d[:f1] S1 d[t1:f] S[:ins] d[gf:gt] S[ins:] d[t:]` (replace step first),
    `d[:f] S[:ins] d[gf:f1] S1 d[t1:gt] S[ins:] d[t:]` (replace step inside the gap),
    `d[:f] S[:ins] d[gf:gt] S[ins:] d[t:f1] S1 d[t1:]` (replace step last) -/
theorem commute_replace_around_toks (S : Schema) (d da db dab dba : Node) (f t gf gt ins f1 t1 : Nat)
    (sl s1 : Slice) (st b1 : Bool) (A' R' : Step)
    (hs : AroundShape f t gf gt sl ins)
    (hsep : t1 < f ∨ (gf < f1 ∧ t1 < gt) ∨ t < f1)
    (ha : S.apply (.replace f1 t1 s1 b1) d = .ok da)
    (hb : S.apply (.replaceAround f t gf gt sl ins st) d = .ok db)
    (hA' : (Step.replaceAround f t gf gt sl ins st).map (Step.replace f1 t1 s1 b1).getMap = some A')
    (hR' : (Step.replace f1 t1 s1 b1).map (Step.replaceAround f t gf gt sl ins st).getMap = some R')
    (hab : S.apply A' da = .ok dab) (hba : S.apply R' db = .ok dba) :
    let L := ftoks d.kids
    let X := sl.toks.take ins
    let Y := sl.toks.drop ins
    ftoks dba.kids = ftoks dab.kids ∧
    (t1 < f → ftoks dab.kids = L.take f1 ++ s1.toks ++ (L.drop t1).take (f - t1) ++ X ++
      (L.drop gf).take (gt - gf) ++ Y ++ L.drop t) ∧
    (gf < f1 → t1 < gt → ftoks dab.kids = L.take f ++ X ++ (L.drop gf).take (f1 - gf) ++ s1.toks ++
      (L.drop t1).take (gt - t1) ++ Y ++ L.drop t) ∧
    (t < f1 → ftoks dab.kids = L.take f ++ X ++ (L.drop gf).take (gt - gf) ++ Y ++
      (L.drop t).take (f1 - t) ++ s1.toks ++ L.drop t1) := by
  intro L X Y
  obtain ⟨_, h1, hl1, _⟩ := apply_replace_splice S d da f1 t1 s1 b1 ha
  obtain ⟨_, hl, _, _⟩ := apply_around_aroundL S d db f t gf gt sl ins st hs hb
  have hg := hs.2.2
  have before : t1 < f → ftoks dba.kids = ftoks dab.kids ∧ ftoks dab.kids = L.take f1 ++ s1.toks ++
      (L.drop t1).take (f - t1) ++ X ++ (L.drop gf).take (gt - gf) ++ Y ++ L.drop t := by
    intro h
    obtain ⟨e1, e2⟩ := commute_replace_around_before S d da db dab dba f t gf gt ins f1 t1 sl s1 st b1
      A' R' hs h ha hb hA' hR' hab hba
    exact ⟨e2, by rw [e1]; exact explicit_before L s1.toks X Y f1 t1 f gf gt t h1 (by omega) hg hl⟩
  have gap : gf < f1 → t1 < gt → ftoks dba.kids = ftoks dab.kids ∧ ftoks dab.kids = L.take f ++ X ++
      (L.drop gf).take (f1 - gf) ++ s1.toks ++ (L.drop t1).take (gt - t1) ++ Y ++ L.drop t := by
    intro h h'
    obtain ⟨e1, e2⟩ := commute_replace_around_gap S d da db dab dba f t gf gt ins f1 t1 sl s1 st b1
      A' R' hs h h' ha hb hA' hR' hab hba
    exact ⟨e2, by rw [e1]; exact explicit_gap L s1.toks X Y f1 t1 f gf gt t h1 (by omega) (by omega) hg hl⟩
  have after : t < f1 → ftoks dba.kids = ftoks dab.kids ∧ ftoks dab.kids = L.take f ++ X ++
      (L.drop gf).take (gt - gf) ++ Y ++ (L.drop t).take (f1 - t) ++ s1.toks ++ L.drop t1 := by
    intro h
    obtain ⟨e1, e2⟩ := commute_replace_around_after S d da db dab dba f t gf gt ins f1 t1 sl s1 st b1
      A' R' hs h ha hb hA' hR' hab hba
    exact ⟨e2, by rw [e1]; exact explicit_after L s1.toks X Y f1 t1 f gf gt t h1 (by omega) hg hl1⟩
  refine ⟨?_, fun h => (before h).2, fun h h' => (gap h h').2, fun h => (after h).2⟩
  rcases hsep with h | ⟨h, h'⟩ | h
  · exact (before h).1
  · exact (gap h h').1
  · exact (after h).1

/-- … hence equal documents (normal form) -/
theorem commute_replace_around (S : Schema) (d da db dab dba : Node) (f t gf gt ins f1 t1 : Nat)
    (sl s1 : Slice) (st b1 : Bool) (A' R' : Step)
    (hs : AroundShape f t gf gt sl ins)
    (hsep : t1 < f ∨ (gf < f1 ∧ t1 < gt) ∨ t < f1)
    (ha : S.apply (.replace f1 t1 s1 b1) d = .ok da)
    (hb : S.apply (.replaceAround f t gf gt sl ins st) d = .ok db)
    (hA' : (Step.replaceAround f t gf gt sl ins st).map (Step.replace f1 t1 s1 b1).getMap = some A')
    (hR' : (Step.replace f1 t1 s1 b1).map (Step.replaceAround f t gf gt sl ins st).getMap = some R')
    (hab : S.apply A' da = .ok dab) (hba : S.apply R' db = .ok dba)
    (hn1 : fnorm dab.kids = true) (hn2 : fnorm dba.kids = true) : dab = dba := by
  have htoks := (commute_replace_around_toks S d da db dab dba f t gf gt ins f1 t1 sl s1 st b1 A' R' hs
    hsep ha hb hA' hR' hab hba).1
  obtain ⟨_, h1, _, _⟩ := apply_replace_splice S d da f1 t1 s1 b1 ha
  have hg := hs.2.2
  obtain ⟨r1, r2, r3⟩ := rebase_around_separated f t gf gt ins f1 t1 sl s1 st b1 hg h1
  have root : SameRoot dab dba := by
    have ra := SameRoot.of_replace S d da f1 t1 s1 b1 ha
    have rb := SameRoot.of_around S d db f t gf gt sl ins st hb
    rcases hsep with h | ⟨h, h'⟩ | h
    · obtain ⟨e1, e2⟩ := r1 h
      rw [e1] at hA'; rw [e2] at hR'
      simp only [Option.some.injEq] at hA' hR'
      subst hA' hR'
      exact SameRoot.square ra (SameRoot.of_around S _ _ _ _ _ _ _ _ _ hab) rb
        (SameRoot.of_replace S _ _ _ _ _ _ hba)
    · obtain ⟨e1, e2⟩ := r2 h h'
      rw [e1] at hA'; rw [e2] at hR'
      simp only [Option.some.injEq] at hA' hR'
      subst hA' hR'
      exact SameRoot.square ra (SameRoot.of_around S _ _ _ _ _ _ _ _ _ hab) rb
        (SameRoot.of_replace S _ _ _ _ _ _ hba)
    · obtain ⟨e1, e2⟩ := r3 h
      rw [e1] at hA'; rw [e2] at hR'
      simp only [Option.some.injEq] at hA' hR'
      subst hA' hR'
      exact SameRoot.square ra (SameRoot.of_around S _ _ _ _ _ _ _ _ _ hab) rb
        (SameRoot.of_replace S _ _ _ _ _ _ hba)
  exact root.eq_of_toks htoks.symm hn1 hn2

/-- **convergence, two separated replace-around steps** (the second one after the first one or inside
    its gap; exchange the roles for the other two positions): whenever all four applications succeed,
    both orders give the same tokens, hence (normal form) the same document -/
theorem commute_around_around (S : Schema) (d da db dab dba : Node)
    (f t gf gt ins f' t' gf' gt' ins' : Nat) (sl sl' : Slice) (st st' : Bool) (A' B' : Step)
    (hs : AroundShape f t gf gt sl ins) (hs' : AroundShape f' t' gf' gt' sl' ins')
    (hsep : t < f' ∨ (gf < f' ∧ t' < gt))
    (ha : S.apply (.replaceAround f t gf gt sl ins st) d = .ok da)
    (hb : S.apply (.replaceAround f' t' gf' gt' sl' ins' st') d = .ok db)
    (hB' : (Step.replaceAround f' t' gf' gt' sl' ins' st').map
      (Step.replaceAround f t gf gt sl ins st).getMap = some B')
    (hA' : (Step.replaceAround f t gf gt sl ins st).map
      (Step.replaceAround f' t' gf' gt' sl' ins' st').getMap = some A')
    (hab : S.apply B' da = .ok dab) (hba : S.apply A' db = .ok dba) :
    ftoks dab.kids = ftoks dba.kids ∧
    (fnorm dab.kids = true → fnorm dba.kids = true → dab = dba) := by
  have htoks : ftoks dab.kids = ftoks dba.kids := by
    rcases hsep with h | ⟨h, h'⟩
    · exact (commute_around_around_after S d da db dab dba f t gf gt ins f' t' gf' gt' ins' sl sl' st st'
        A' B' hs hs' h ha hb hB' hA' hab hba).2
    · exact (commute_around_around_gap S d da db dab dba f t gf gt ins f' t' gf' gt' ins' sl sl' st st'
        A' B' hs hs' h h' ha hb hB' hA' hab hba).2
  refine ⟨htoks, fun hn1 hn2 => ?_⟩
  obtain ⟨r1, r2⟩ := rebase_around_around f t gf gt ins f' t' gf' gt' ins' sl sl' st st' hs.2.2 hs'.2.2
  have ra := SameRoot.of_around S d da f t gf gt sl ins st ha
  have rb := SameRoot.of_around S d db f' t' gf' gt' sl' ins' st' hb
  have root : SameRoot dab dba := by
    rcases hsep with h | ⟨h, h'⟩
    · obtain ⟨e1, e2⟩ := r1 h
      rw [e1] at hA'; rw [e2] at hB'
      simp only [Option.some.injEq] at hA' hB'
      subst hA' hB'
      exact SameRoot.square ra (SameRoot.of_around S _ _ _ _ _ _ _ _ _ hab) rb
        (SameRoot.of_around S _ _ _ _ _ _ _ _ _ hba)
    · obtain ⟨e1, e2⟩ := r2 h h'
      rw [e1] at hA'; rw [e2] at hB'
      simp only [Option.some.injEq] at hA' hB'
      subst hA' hB'
      exact SameRoot.square ra (SameRoot.of_around S _ _ _ _ _ _ _ _ _ hab) rb
        (SameRoot.of_around S _ _ _ _ _ _ _ _ _ hba)
  exact root.eq_of_toks htoks hn1 hn2

/-! ### replace-around step vs. markup step -/

/-- the shared end of the three clauses below: equal tokens and a kept markup step give equal documents -/
theorem around_markup_docs (S : Schema) (d da db dab dba : Node) (f t gf gt ins : Nat) (sl : Slice)
    (st : Bool) (M : Step) (g : Nat → Nat) (plo phi : Nat) (hsp : M.posSpan = some (plo, phi))
    (ha : S.apply (.replaceAround f t gf gt sl ins st) d = .ok da) (hb : S.apply M d = .ok db)
    (hab : S.apply (M.mapPos g) da = .ok dab) (hba : S.apply (.replaceAround f t gf gt sl ins st) db = .ok dba)
    (htoks : ftoks dab.kids = ftoks dba.kids)
    (hn1 : fnorm dab.kids = true) (hn2 : fnorm dba.kids = true) : dab = dba :=
  (SameRoot.square (SameRoot.of_around S _ _ _ _ _ _ _ _ _ ha)
    (SameRoot.of_markup S _ _ _ _ _ (posSpan_mapPos M g plo phi hsp) hab)
    (SameRoot.of_markup S _ _ _ _ _ hsp hb)
    (SameRoot.of_around S _ _ _ _ _ _ _ _ _ hba)).eq_of_toks htoks hn1 hn2

/-- **a replace-around step and a node-mark or attr step on a separated token** — before the step's
    range, after it, or *inside the kept gap* (the gap content is kept and moves by
    `insert − (gapFrom − from)`): neither rebased step is dropped (the node step is the same step at
    the moved position, the replace-around step is unchanged), and whenever all four applications
    succeed both orders give the same tokens, hence (normal form) the same document.  No guard. -/
theorem commute_around_nodeStep (S : Schema) (d da db dab dba : Node) (f t gf gt ins : Nat) (sl : Slice)
    (st : Bool) (pos : Nat) (N N' A' : Step) (hN : NodeStepAt pos N)
    (hs : AroundShape f t gf gt sl ins)
    (hout : pos < f ∨ (gf < pos ∧ pos < gt) ∨ t < pos)
    (ha : S.apply (.replaceAround f t gf gt sl ins st) d = .ok da) (hb : S.apply N d = .ok db)
    (hN' : N.map (Step.replaceAround f t gf gt sl ins st).getMap = some N')
    (hA' : (Step.replaceAround f t gf gt sl ins st).map N.getMap = some A')
    (hab : S.apply N' da = .ok dab) (hba : S.apply A' db = .ok dba) :
    (∃ g, N' = N.mapPos g) ∧ A' = .replaceAround f t gf gt sl ins st ∧
    ftoks dab.kids = ftoks dba.kids ∧
    (fnorm dab.kids = true → fnorm dba.kids = true → dab = dba) := by
  have hsp : N.posSpan = some (pos, pos) := by
    rcases hN with ⟨m, rfl⟩ | ⟨m, rfl⟩ | ⟨n, v, rfl⟩ <;> rfl
  have hto : N.touch = some (pos, pos + 1) := by
    rcases hN with ⟨m, rfl⟩ | ⟨m, rfl⟩ | ⟨n, v, rfl⟩ <;> rfl
  have hfn : ∀ p q tok, markupFn S N p tok = markupFn S N q tok := by
    rcases hN with ⟨m, rfl⟩ | ⟨m, rfl⟩ | ⟨n, v, rfl⟩ <;> intro p q tok <;> rfl
  have key : ∃ g, N' = N.mapPos g ∧ A' = .replaceAround f t gf gt sl ins st ∧
      ftoks dab.kids = ftoks dba.kids := by
    rcases hout with h | ⟨h, h'⟩ | h
    · obtain ⟨e1, e2, e3⟩ := commute_around_markup_before S d da db dab dba f t gf gt ins sl st N N' A'
        pos pos hsp (Nat.le_refl _) hs h ha hb hN' hA' hab hba
      exact ⟨id, by rw [e1]; exact (Step.mapPos_id _ id (fun _ => rfl)).symm, e2, e3⟩
    · obtain ⟨e1, e2, e3⟩ := commute_around_markup_gap S d da db dab dba f t gf gt ins sl st N N' A'
        pos pos hsp (Nat.le_refl _) hs h h' ha hb hN' hA' hab hba (pos + 1) hto
        (fun i tok _ _ _ => hfn _ _ _)
      exact ⟨_, e1, e2, e3⟩
    · obtain ⟨e1, e2, e3⟩ := commute_around_markup_after S d da db dab dba f t gf gt ins sl st N N' A'
        pos pos hsp (Nat.le_refl _) hs h ha hb hN' hA' hab hba (pos + 1) hto
        (fun i tok _ _ _ => hfn _ _ _)
      exact ⟨_, e1, e2, e3⟩
  obtain ⟨g, e1, e2, e3⟩ := key
  refine ⟨⟨g, e1⟩, e2, e3, fun hn1 hn2 => ?_⟩
  subst e1 e2
  exact around_markup_docs S d da db dab dba f t gf gt ins sl st N g pos pos hsp ha hb hab hba e3 hn1 hn2

/-- **replace-around step vs. a mark step before its range, and vs. a remove-mark step on any separated
    range**: no guard (earlier tokens keep their enclosing nodes; removing a mark does not look at the
    enclosing node) -/
theorem commute_around_mark_unguarded (S : Schema) (d da db dab dba : Node) (f t gf gt ins : Nat)
    (sl : Slice) (st : Bool) (f2 t2 : Nat) (mk : Mark) (M M' A' : Step) (hle : f2 ≤ t2)
    (hs : AroundShape f t gf gt sl ins)
    (hM : (M = .addMark f2 t2 mk ∧ t2 < f) ∨
      (M = .removeMark f2 t2 mk ∧ (t2 < f ∨ (gf < f2 ∧ t2 < gt) ∨ t < f2)))
    (ha : S.apply (.replaceAround f t gf gt sl ins st) d = .ok da) (hb : S.apply M d = .ok db)
    (hM' : M.map (Step.replaceAround f t gf gt sl ins st).getMap = some M')
    (hA' : (Step.replaceAround f t gf gt sl ins st).map M.getMap = some A')
    (hab : S.apply M' da = .ok dab) (hba : S.apply A' db = .ok dba) :
    ftoks dab.kids = ftoks dba.kids ∧
    (fnorm dab.kids = true → fnorm dba.kids = true → dab = dba) := by
  have hsp : M.posSpan = some (f2, t2) := by rcases hM with ⟨rfl, _⟩ | ⟨rfl, _⟩ <;> rfl
  have key : ∃ g, M' = M.mapPos g ∧ A' = .replaceAround f t gf gt sl ins st ∧
      ftoks dab.kids = ftoks dba.kids := by
    have before : t2 < f → ∃ g, M' = M.mapPos g ∧ A' = .replaceAround f t gf gt sl ins st ∧
        ftoks dab.kids = ftoks dba.kids := by
      intro h
      obtain ⟨e1, e2, e3⟩ := commute_around_markup_before S d da db dab dba f t gf gt ins sl st M M' A'
        f2 t2 hsp hle hs h ha hb hM' hA' hab hba
      exact ⟨id, by rw [e1]; exact (Step.mapPos_id _ id (fun _ => rfl)).symm, e2, e3⟩
    rcases hM with ⟨rfl, h⟩ | ⟨rfl, h | ⟨h, h'⟩ | h⟩
    · exact before h
    · exact before h
    · obtain ⟨e1, e2, e3⟩ := commute_around_markup_gap S d da db dab dba f t gf gt ins sl st _ M' A'
        f2 t2 hsp hle hs h h' ha hb hM' hA' hab hba t2 rfl (fun i tok _ _ _ => rfl)
      exact ⟨_, e1, e2, e3⟩
    · obtain ⟨e1, e2, e3⟩ := commute_around_markup_after S d da db dab dba f t gf gt ins sl st _ M' A'
        f2 t2 hsp hle hs h ha hb hM' hA' hab hba t2 rfl (fun i tok _ _ _ => rfl)
      exact ⟨_, e1, e2, e3⟩
  obtain ⟨g, e1, e2, e3⟩ := key
  refine ⟨e3, fun hn1 hn2 => ?_⟩
  subst e1 e2
  exact around_markup_docs S d da db dab dba f t gf gt ins sl st M g f2 t2 hsp ha hb hab hba e3 hn1 hn2

/-- **replace-around step vs. add-mark step inside the kept gap or after the range, under
    `ParentStable`** (the marked inline atoms keep the type of their enclosing node: true for `wrap`
    and `lift`, which re-parent blocks, not inline content; for `set_node_markup` / `set_block_type` it
    says that the marked text's parent keeps its type).  Without the guard the statement is false for
    the same reason as `commute_replace_mark_partial`. -/
-- FULL STATEMENT (false in the reference implementation too): the same without `hstable`.
theorem commute_around_mark_partial (S : Schema) (d da db dab dba : Node) (f t gf gt ins : Nat)
    (sl : Slice) (st : Bool) (f2 t2 f2' t2' : Nat) (mk : Mark) (A' : Step) (hle : f2 ≤ t2)
    (hs : AroundShape f t gf gt sl ins)
    (hsep : (gf < f2 ∧ t2 < gt) ∨ t < f2)
    (ha : S.apply (.replaceAround f t gf gt sl ins st) d = .ok da)
    (hb : S.apply (.addMark f2 t2 mk) d = .ok db)
    (hM' : (Step.addMark f2 t2 mk).map (Step.replaceAround f t gf gt sl ins st).getMap =
      some (.addMark f2' t2' mk))
    (hA' : (Step.replaceAround f t gf gt sl ins st).map (Step.addMark f2 t2 mk).getMap = some A')
    (hab : S.apply (.addMark f2' t2' mk) da = .ok dab) (hba : S.apply A' db = .ok dba)
    (hstable : ParentStable S d da f2 t2 f2') :
    ftoks dab.kids = ftoks dba.kids ∧
    (fnorm dab.kids = true → fnorm dba.kids = true → dab = dba) := by
  have hsp : (Step.addMark f2 t2 mk).posSpan = some (f2, t2) := rfl
  have hg := hs.2.2
  obtain ⟨hlenS, hs0⟩ := Slice.toks_length_of_wf_ex sl hs.1
  have hins := hs.2.1
  have stab : ∀ (c : Nat), f2' = c + 0 → ∀ i tok, f2 ≤ i → i < t2 → (ftoks d.kids)[i]? = some tok →
      markupFn S (.addMark f2 t2 mk) ((ctxOf (S.tyOf d) (ftoks da.kids)).getD (c + (i - f2)) 0) tok =
        markupFn S (.addMark f2 t2 mk) ((ctxOf (S.tyOf d) (ftoks d.kids)).getD i 0) tok := by
    intro c hc i tok g1 g2 g3
    show addTok S mk _ tok = addTok S mk _ tok
    have htok : (ftoks d.kids).getD i Tok.cl = tok := by
      rw [List.getD_eq_getElem?_getD, g3]; rfl
    by_cases hat : isAtomTok S tok = true
    · have := hstable i g2 g1 (by rw [htok]; exact hat)
      rw [show f2' = c by omega] at this
      rw [this]
    · simp [addTok, hat]
  have key : ∃ g, Step.addMark f2' t2' mk = (Step.addMark f2 t2 mk).mapPos g ∧
      A' = .replaceAround f t gf gt sl ins st ∧ ftoks dab.kids = ftoks dba.kids := by
    rcases hsep with ⟨h, h'⟩ | h
    · have hmapped := (markup_map_around _ f2 t2 hsp hle f t gf gt sl ins st hg).2.1 h h'
      have hM'' := hM'
      rw [hmapped] at hM''
      simp only [Step.mapPos, Option.some.injEq, Step.addMark.injEq, and_true] at hM''
      obtain ⟨e1, e2, e3⟩ := commute_around_markup_gap S d da db dab dba f t gf gt ins sl st _ _ A'
        f2 t2 hsp hle hs h h' ha hb hM' hA' hab hba t2 rfl
        (fun i tok g1 g2 g3 => by
          have := stab (f + ins + (f2 - gf)) (by omega) i tok g1 g2 g3
          rwa [show f + ins + (f2 - gf) + (i - f2) = f + ins + (i - gf) by omega] at this)
      exact ⟨_, e1, e2, e3⟩
    · have hmapped := (markup_map_around _ f2 t2 hsp hle f t gf gt sl ins st hg).2.2 h
      have hM'' := hM'
      rw [hmapped] at hM''
      simp only [Step.mapPos, Option.some.injEq, Step.addMark.injEq, and_true] at hM''
      obtain ⟨e1, e2, e3⟩ := commute_around_markup_after S d da db dab dba f t gf gt ins sl st _ _ A'
        f2 t2 hsp hle hs h ha hb hM' hA' hab hba t2 rfl
        (fun i tok g1 g2 g3 => by
          have := stab (f + (gt - gf) + sl.toks.length + (f2 - t)) (by omega) i tok g1 g2 g3
          rwa [show f + (gt - gf) + sl.toks.length + (f2 - t) + (i - f2) =
            f + (gt - gf) + sl.toks.length + (i - t) by omega] at this)
      exact ⟨_, e1, e2, e3⟩
  obtain ⟨g, e1, e2, e3⟩ := key
  refine ⟨e3, fun hn1 hn2 => ?_⟩
  subst e2
  rw [e1] at hab
  exact around_markup_docs S d da db dab dba f t gf gt ins sl st _ g f2 t2 hsp ha hb hab hba e3 hn1 hn2

/-! ### both rebased orders apply — replace step vs. replace-around step

False without a guard for the same reason as `commute_needs_guard`.  A replace-around step applies as:
(structure checks, if flagged) – cut the gap `d.slice gapFrom gapTo` (must be closed) – put it into the
slice (`insert_at`) – plain replace of `[from, to)` by the result.  When the other step works on a
separate part, the gap is found again in its result at the mapped positions as the *same* closed slice
(`slice_again`, Proofs/CommuteAroundSuccess.lean), so the rebased replace-around step is the same plain
replace, shifted, and `commute_succeeds_replace` applies with the guard evaluated on
`(from, to, slice.openStart)` of the replace-around step.  The structure checks pass again because
`content_between` is a function of the tokens of the range (`contentBetween_eq`,
Proofs/ContentBetweenToks.lean: "content" unless the range reads close tokens, then open tokens), and the
two ranges show the same tokens.  Not covered: the replace step inside the kept gap (the gap content, hence
the inserted slice, differs), two replace-around steps. -/

/-- **the replace step lies before the replace-around step**: neither rebased step is dropped, both orders
    apply, and they give the same document -/
theorem commute_succeeds_around_before (S : Schema) (d da db : Node) (f t gf gt ins f1 t1 : Nat)
    (sl s1 : Slice) (st b1 : Bool)
    (hn : fnorm d.kids = true) (hsn1 : fnorm s1.content = true) (hsn : fnorm sl.content = true)
    (hs : AroundShape f t gf gt sl ins) (hsep : t1 < f)
    (ha : S.apply (.replace f1 t1 s1 b1) d = .ok da)
    (hb : S.apply (.replaceAround f t gf gt sl ins st) d = .ok db)
    (hg : commuteGuard d.kids f1 t1 s1 f t sl = true) :
    ∃ A' R' dab,
      (Step.replaceAround f t gf gt sl ins st).map (Step.replace f1 t1 s1 b1).getMap = some A' ∧
      (Step.replace f1 t1 s1 b1).map (Step.replaceAround f t gf gt sl ins st).getMap = some R' ∧
      S.apply A' da = .ok dab ∧ S.apply R' db = .ok dab := by
  obtain ⟨gap, inserted, hgap, ho1, ho2, hinst, hfr1⟩ :=
    apply_replaceAround_parts S d db f t gf gt sl ins st hb
  obtain ⟨_, hl, _, _⟩ := apply_around_aroundL S d db f t gf gt sl ins st hs hb
  obtain ⟨hwf, hins, hgo⟩ := hs
  obtain ⟨_, hio1, _⟩ := insertAt_toks S sl inserted ins gap.content hwf hins hinst
  have hgap' : sliceKids d.kids gf gt = .ok gap := hgap
  have hgn := sliceKids_norm d.kids gf gt gap hn hgap'
  have hin := insertAt_norm S sl inserted ins gap.content hsn hgn.1 hinst
  have hb2 : S.apply (.replace f t inserted false) d = .ok db := by simpa [Schema.apply] using hfr1
  have hg' : commuteGuard d.kids f1 t1 s1 f t inserted = true := by
    rw [commuteGuard_openStart _ _ _ _ _ s1 sl s1 inserted rfl hio1]; exact hg
  obtain ⟨a', b', dab, hb', ha', hab, hba⟩ := commute_succeeds_replace S d da db f1 t1 f t s1 inserted
    b1 false hn hsn1 hin hsep ha hb2 hg'
  obtain ⟨hda, h1, hl1, hlen1⟩ := apply_replace_splice S d da f1 t1 s1 b1 ha
  obtain ⟨r1, r2⟩ := rebase_separated_after f1 t1 f t s1 inserted b1 false h1 (by omega) hsep (by omega)
  rw [r1] at hb'; rw [r2] at ha'
  simp only [Option.some.injEq] at hb' ha'
  subst hb' ha'
  have hna : fnorm da.kids = true := by
    obtain ⟨ty, a, m, K, Ka, rfl, rfl, hr⟩ := fromReplace_elem S d da f1 t1 s1
      (apply_replace_fromReplace S d da f1 t1 s1 b1 ha)
    exact replaceKids_norm S ty K f1 t1 s1 Ka hn hsn1 hr
  have n : ∀ p : Nat, t1 < p →
      ((p : Int) + (s1.size - ((t1 : Int) - f1))).toNat = f1 + s1.toks.length + (p - t1) := by
    intro p hp; omega
  have n' : ∀ p : Nat, t1 < p →
      ((p : Int) + s1.size - ((t1 : Int) - f1)).toNat = f1 + s1.toks.length + (p - t1) := by
    intro p hp; omega
  refine ⟨_, _, dab, around_map_replace_before f t gf gt ins f1 t1 sl s1 st b1 hgo h1 hsep,
    replace_map_around_after f t gf gt ins f1 t1 sl s1 st b1 h1 hsep, ?_, hba⟩
  have hfr : S.fromReplace da ((f : Int) + (s1.size - ((t1 : Int) - f1))).toNat
      ((t : Int) + (s1.size - ((t1 : Int) - f1))).toNat inserted = .ok dab := by
    have := apply_replace_fromReplace S da dab _ _ inserted false hab
    rwa [n' f (by omega), n' t (by omega), ← n f (by omega), ← n t (by omega)] at this
  have hlenda : (ftoks da.kids).length = f1 + s1.toks.length + ((ftoks d.kids).length - t1) := by
    rw [hda]; exact splice_length _ _ _ _ h1 hl1
  have hst : st = true →
      contentBetween da ((f : Int) + (s1.size - ((t1 : Int) - f1))).toNat
        ((gf : Int) + (s1.size - ((t1 : Int) - f1))).toNat = some false ∧
      contentBetween da ((gt : Int) + (s1.size - ((t1 : Int) - f1))).toNat
        ((t : Int) + (s1.size - ((t1 : Int) - f1))).toNat = some false := by
    intro hstt
    subst hstt
    rw [n f (by omega), n gf (by omega), n gt (by omega), n t (by omega)]
    exact struct_checks_again d da f t gf gt _ _ _ _ hn hna hgo (by rw [← ftoks_length]; omega)
      (by rw [← ftoks_length, hlenda]; omega) (by omega) (by omega) (by omega)
      (by rw [hda]; exact splice_window_after _ _ f1 t1 f _ h1 (by omega) hl1)
      (by rw [hda]; exact splice_window_after _ _ f1 t1 gt _ h1 (by omega) hl1)
      (apply_replaceAround_struct S d db f t gf gt sl ins hb)
  refine around_applies_of_parts S da dab _ _ _ _ sl ins st gap inserted ?_ ho1 ho2 hinst hfr hst
  show sliceKids da.kids _ _ = .ok gap
  rw [n gf (by omega), n gt (by omega)]
  have := slice_again d.kids da.kids gf gt (f1 + s1.toks.length + (gf - t1)) gap hn hna hgo.2.1
    (by rw [← ftoks_length]; omega) (by rw [← ftoks_length, hlenda]; omega) hgap' ho1 ho2
    (by rw [hda]; exact splice_window_after _ _ f1 t1 gf _ h1 (by omega) hl1)
    (fun hlt => by
      obtain ⟨al1, al2⟩ := sliceKids_aligned d.kids gf gt gap hlt hgap'
      refine ⟨aligned_after_splice d.kids da.kids _ f1 t1 gf hn hna hda h1 hl1 (by omega) al1, ?_⟩
      have := aligned_after_splice d.kids da.kids _ f1 t1 gt hn hna hda h1 hl1 (by omega) al2
      rwa [show f1 + s1.toks.length + (gt - t1) = f1 + s1.toks.length + (gf - t1) + (gt - gf) by omega]
        at this)
  rwa [show f1 + s1.toks.length + (gf - t1) + (gt - gf) = f1 + s1.toks.length + (gt - t1) by omega] at this

/-- **the replace step lies after the replace-around step** -/
theorem commute_succeeds_around_after (S : Schema) (d da db : Node) (f t gf gt ins f1 t1 : Nat)
    (sl s1 : Slice) (st b1 : Bool)
    (hn : fnorm d.kids = true) (hsn1 : fnorm s1.content = true) (hsn : fnorm sl.content = true)
    (hs : AroundShape f t gf gt sl ins) (hsep : t < f1)
    (ha : S.apply (.replace f1 t1 s1 b1) d = .ok da)
    (hb : S.apply (.replaceAround f t gf gt sl ins st) d = .ok db)
    (hg : commuteGuard d.kids f t sl f1 t1 s1 = true) :
    ∃ A' R' dab,
      (Step.replaceAround f t gf gt sl ins st).map (Step.replace f1 t1 s1 b1).getMap = some A' ∧
      (Step.replace f1 t1 s1 b1).map (Step.replaceAround f t gf gt sl ins st).getMap = some R' ∧
      S.apply A' da = .ok dab ∧ S.apply R' db = .ok dab := by
  obtain ⟨gap, inserted, hgap, ho1, ho2, hinst, hfr1⟩ :=
    apply_replaceAround_parts S d db f t gf gt sl ins st hb
  obtain ⟨_, hl, hX, hY⟩ := apply_around_aroundL S d db f t gf gt sl ins st hs hb
  obtain ⟨hwf, hins, hgo⟩ := hs
  obtain ⟨hitk, hio1, _⟩ := insertAt_toks S sl inserted ins gap.content hwf hins hinst
  have hgap' : sliceKids d.kids gf gt = .ok gap := hgap
  have hgn := sliceKids_norm d.kids gf gt gap hn hgap'
  have hin := insertAt_norm S sl inserted ins gap.content hsn hgn.1 hinst
  have hb2 : S.apply (.replace f t inserted false) d = .ok db := by simpa [Schema.apply] using hfr1
  have hg' : commuteGuard d.kids f t inserted f1 t1 s1 = true := by
    rw [commuteGuard_openStart _ _ _ _ _ sl s1 inserted s1 hio1 rfl]; exact hg
  obtain ⟨a', b', dab, hb', ha', hab, hba⟩ := commute_succeeds_replace S d db da f t f1 t1 inserted s1
    false b1 hn hin hsn1 hsep hb2 ha hg'
  obtain ⟨hda, h1, hl1, hlen1⟩ := apply_replace_splice S d da f1 t1 s1 b1 ha
  obtain ⟨_, _, _, hleni⟩ := apply_replace_splice S d db f t inserted false hb2
  have hgaplen : (ftoks gap.content).length = gt - gf := by
    have : gap = ⟨gap.content, 0, 0⟩ := by cases gap; simp at ho1 ho2; simp [ho1, ho2]
    rw [← Slice.toks_closed, ← this, sliceKids_toks d.kids gf gt gap hgo.2.1
      (by rw [← ftoks_length]; omega) hgap', List.length_take, List.length_drop]
    omega
  have hisz : inserted.size = sl.size + ((gt : Int) - gf) := by
    have h1 := congrArg List.length hitk
    obtain ⟨hl2, _⟩ := Slice.toks_length_of_wf_ex sl hwf
    simp only [List.length_append, List.length_take, List.length_drop, hgaplen] at h1
    omega
  obtain ⟨r1, r2⟩ := rebase_separated_after f t f1 t1 inserted s1 false b1 (by omega) h1 hsep (by omega)
  rw [r1] at hb'; rw [r2] at ha'
  simp only [Option.some.injEq] at hb' ha'
  subst hb' ha'
  have hna : fnorm da.kids = true := by
    obtain ⟨ty, a, m, K, Ka, rfl, rfl, hr⟩ := fromReplace_elem S d da f1 t1 s1
      (apply_replace_fromReplace S d da f1 t1 s1 b1 ha)
    exact replaceKids_norm S ty K f1 t1 s1 Ka hn hsn1 hr
  refine ⟨_, _, dab, around_map_replace_after f t gf gt ins f1 t1 sl s1 st b1 hgo hsep,
    replace_map_around_before f t gf gt ins f1 t1 sl s1 st b1 hgo h1 hsep, ?_, ?_⟩
  · have hfr := apply_replace_fromReplace S da dab _ _ inserted false hba
    have hlenda : (ftoks da.kids).length = f1 + s1.toks.length + ((ftoks d.kids).length - t1) := by
      rw [hda]; exact splice_length _ _ _ _ h1 hl1
    have hst : st = true → contentBetween da f gf = some false ∧ contentBetween da gt t = some false := by
      intro hstt
      subst hstt
      exact struct_checks_again d da f t gf gt f t gf gt hn hna hgo (by rw [← ftoks_length]; omega)
        (by rw [← ftoks_length, hlenda]; omega) (by omega) (by omega) (by omega)
        (by rw [hda]; exact splice_window_before _ _ f1 t1 f _ (by omega) (by omega))
        (by rw [hda]; exact splice_window_before _ _ f1 t1 gt _ (by omega) (by omega))
        (apply_replaceAround_struct S d db f t gf gt sl ins hb)
    refine around_applies_of_parts S da dab _ _ _ _ sl ins st gap inserted ?_ ho1 ho2 hinst hfr hst
    show sliceKids da.kids _ _ = .ok gap
    have := slice_again d.kids da.kids gf gt gf gap hn hna hgo.2.1
      (by rw [← ftoks_length]; omega) (by rw [← ftoks_length, hlenda]; omega) hgap' ho1 ho2
      (by rw [hda]; exact splice_window_before _ _ f1 t1 gf _ (by omega) (by omega))
      (fun hlt => by
        obtain ⟨al1, al2⟩ := sliceKids_aligned d.kids gf gt gap hlt hgap'
        refine ⟨aligned_before_splice d.kids da.kids _ f1 t1 gf hn hna hda (by omega) (by omega) al1, ?_⟩
        have := aligned_before_splice d.kids da.kids _ f1 t1 gt hn hna hda (by omega) (by omega) al2
        rwa [show gt = gf + (gt - gf) by omega] at this)
    rwa [show gf + (gt - gf) = gt by omega] at this
  · have e : ∀ p : Nat, ((p : Int) + inserted.size - ((t : Int) - f)).toNat =
        ((p : Int) + ((ins : Int) - ((gf : Int) - f)) + (sl.size - ins - ((t : Int) - gt))).toNat := by
      intro p; congr 1; omega
    rw [← e f1, ← e t1]
    exact hab

/-- **a replace step and a replace-around step, the replace step's range strictly before `from` or strictly
    after `to`, one of the two inside a node the other one does not touch** (`commuteGuard` on
    `(from, to, slice)` of the replace-around step): neither rebased step is dropped, both orders apply,
    and they give the same document -/
theorem commute_succeeds_around (S : Schema) (d da db : Node) (f t gf gt ins f1 t1 : Nat)
    (sl s1 : Slice) (st b1 : Bool)
    (hn : fnorm d.kids = true) (hsn1 : fnorm s1.content = true) (hsn : fnorm sl.content = true)
    (hs : AroundShape f t gf gt sl ins)
    (ha : S.apply (.replace f1 t1 s1 b1) d = .ok da)
    (hb : S.apply (.replaceAround f t gf gt sl ins st) d = .ok db)
    (hg : (t1 < f ∧ commuteGuard d.kids f1 t1 s1 f t sl = true) ∨
      (t < f1 ∧ commuteGuard d.kids f t sl f1 t1 s1 = true)) :
    ∃ A' R' dab,
      (Step.replaceAround f t gf gt sl ins st).map (Step.replace f1 t1 s1 b1).getMap = some A' ∧
      (Step.replace f1 t1 s1 b1).map (Step.replaceAround f t gf gt sl ins st).getMap = some R' ∧
      S.apply A' da = .ok dab ∧ S.apply R' db = .ok dab := by
  rcases hg with ⟨h, hg⟩ | ⟨h, hg⟩
  · exact commute_succeeds_around_before S d da db f t gf gt ins f1 t1 sl s1 st b1 hn hsn1 hsn hs h ha hb hg
  · exact commute_succeeds_around_after S d da db f t gf gt ins f1 t1 sl s1 st b1 hn hsn1 hsn hs h ha hb hg

/-! ### both rebased orders apply — two replace-around steps, one after the other

A replace-around step that applies *is* a plain replace of `[from, to)` by its filled slice
(`around_as_replace`, Proofs/CommuteAroundAgain.lean), so `commute_succeeds_replace` gives the two rebased
plain replaces; each is again the replace-around step it came from because the partner only touched tokens
outside `[from, to]` (`around_again_same`, `around_again_shifted`: the gap is cut again as the same closed
slice, the structure checks read the same tokens).  The guard is `commuteGuard` on `(from, to, slice)` of
both steps (the filled slices have the open-start depths of the steps' slices).  False without a guard: a
replace-around step is a plain replace there, and `commute_needs_guard` is the counterexample for plain replaces (the
harness counts the guard-false pairs of two replace-around steps in which an order fails: `guard-around-around:fails`). -/

theorem apply_replace_norm (S : Schema) (d da : Node) (f t : Nat) (sl : Slice) (b : Bool)
    (hn : fnorm d.kids = true) (hsn : fnorm sl.content = true)
    (ha : S.apply (.replace f t sl b) d = .ok da) : fnorm da.kids = true := by
  obtain ⟨ty, a, m, K, Ka, rfl, rfl, hr⟩ := fromReplace_elem S d da f t sl
    (apply_replace_fromReplace S d da f t sl b ha)
  exact replaceKids_norm S ty K f t sl Ka hn hsn hr

/-- **two replace-around steps, the second one strictly after the first one (`to < from'`), one of them inside a
    node the other one does not touch** (`commuteGuard` on `(from, to, slice)` of both): neither rebased step
    is dropped, both orders apply, and they give the same document -/
theorem commute_succeeds_around_around (S : Schema) (d da db : Node)
    (f t gf gt ins f' t' gf' gt' ins' : Nat) (sl sl' : Slice) (st st' : Bool)
    (hn : fnorm d.kids = true) (hsn : fnorm sl.content = true) (hsn' : fnorm sl'.content = true)
    (hs : AroundShape f t gf gt sl ins) (hs' : AroundShape f' t' gf' gt' sl' ins') (hsep : t < f')
    (ha : S.apply (.replaceAround f t gf gt sl ins st) d = .ok da)
    (hb : S.apply (.replaceAround f' t' gf' gt' sl' ins' st') d = .ok db)
    (hg : commuteGuard d.kids f t sl f' t' sl' = true) :
    ∃ A' B' dab,
      (Step.replaceAround f t gf gt sl ins st).map
        (Step.replaceAround f' t' gf' gt' sl' ins' st').getMap = some A' ∧
      (Step.replaceAround f' t' gf' gt' sl' ins' st').map
        (Step.replaceAround f t gf gt sl ins st).getMap = some B' ∧
      S.apply B' da = .ok dab ∧ S.apply A' db = .ok dab := by
  obtain ⟨gap, I, hgap, ho1, ho2, hinst, ha2, hio, hin, hisz, hl⟩ :=
    around_as_replace S d da f t gf gt ins sl st hn hsn hs ha
  obtain ⟨gap', I', hgap', ho1', ho2', hinst', hb2, hio', hin', hisz', hl'⟩ :=
    around_as_replace S d db f' t' gf' gt' ins' sl' st' hn hsn' hs' hb
  have hgo := hs.2.2
  have hgo' := hs'.2.2
  have hg' : commuteGuard d.kids f t I f' t' I' = true := by
    rw [commuteGuard_openStart _ _ _ _ _ sl sl' I I' hio hio']; exact hg
  obtain ⟨a', b', dab, hb', ha', hab, hba⟩ := commute_succeeds_replace S d da db f t f' t' I I'
    false false hn hin hin' hsep ha2 hb2 hg'
  obtain ⟨hda, _, _, hleni⟩ := apply_replace_splice S d da f t I false ha2
  obtain ⟨hdb, _, _, _⟩ := apply_replace_splice S d db f' t' I' false hb2
  obtain ⟨r1, r2⟩ := rebase_separated_after f t f' t' I I' false false (by omega) (by omega) hsep (by omega)
  rw [r1] at hb'; rw [r2] at ha'
  simp only [Option.some.injEq] at hb' ha'
  subst hb' ha'
  have hna := apply_replace_norm S d da f t I false hn hin ha2
  have hnb := apply_replace_norm S d db f' t' I' false hn hin' hb2
  obtain ⟨e1, e2⟩ := (rebase_around_around f t gf gt ins f' t' gf' gt' ins' sl sl' st st' hgo hgo').1 hsep
  refine ⟨_, _, dab, e1, e2, ?_, ?_⟩
  · have n : ∀ p : Nat, t < p →
        ((p : Int) + (((ins : Int) - ((gf : Int) - f)) + (sl.size - ins - ((t : Int) - gt)))).toNat =
          f + I.toks.length + (p - t) := by
      intro p hp; omega
    have n' : ∀ p : Nat, t < p → ((p : Int) + I.size - ((t : Int) - f)).toNat = f + I.toks.length + (p - t) := by
      intro p hp; omega
    rw [n f' (by omega), n t' (by omega), n gf' (by omega), n gt' (by omega)]
    have hfr := apply_replace_fromReplace S da dab _ _ I' false hab
    rw [n' f' (by omega), n' t' (by omega)] at hfr
    exact around_again_shifted S d da db dab f' t' gf' gt' ins' f t sl' I.toks st' gap' I' hn hna hgo' hsep
      (by omega) hl' hda hb hgap' ho1' ho2' hinst' hfr
  · have hfr := apply_replace_fromReplace S db dab _ _ I false hba
    exact around_again_same S d db da dab f t gf gt ins f' t' sl I'.toks st gap I hn hnb hgo hsep
      (by omega) hl' hdb ha hgap ho1 ho2 hinst hfr

/-! ### both rebased orders apply — replace-around step vs. node-mark / attr step

A node-markup step *is* the replace of the addressed token by the re-created node (`nodeStep_full`), so
`commute_succeeds_replace` applies to it and the filled replace of the replace-around step; the rebased node step
finds the same token (hence re-creates the same node, `nodeAtKids_of_head`), the rebased replace-around step is the
same step again (`around_again_shifted`).

FULL STATEMENTS (not proved):
    commute_succeeds_around_nodeStep : the same for `pos + 1 < f ∨ (gf < pos ∧ pos + 1 < gt) ∨ t < pos`, without `hg`
      for attr / remove-node-mark steps (they change no mark set a parent could refuse; add-node-mark needs that the
      parent of the addressed node keeps its type, finding C17-parent-retyped);
    commute_succeeds_around_removeMark, commute_succeeds_around_addMark_partial (under `ParentStable`): proved for
      ranges strictly outside `[from, to]` under `commuteGuard`, validity and `TextLoop`, next section.
Proved: the node step strictly before `from` (its token may be an ancestor's open token) or strictly after `to`, under
`commuteGuard`; inside the gap under `gapGuard` (`commute_succeeds_around_nodeStep_gap_partial`, last section).
The guard is not forced for attr / remove-node-mark steps: for replace-around steps with a closed slice it is dropped
in `commute_succeeds_around_nodeStep_closed_partial` (last section): the rebased node step applies to `da` by
`attrStep_applies` / `removeNodeMark_applies` (valid `da`, the node is found again by `nodeAtKids_of_head`), the
replace-around step reaches `dab = N'(da)` from `db` by the target-based criterion `replaceKids_merged`; the
right-hand sides are related by `rightRel_remarkAt_before` (node before the range or an ancestor of it: chain
`db ~ d ~ da ~ dab`) resp. `rightRel_remark` (node after the range: the relation `da ~ d` survives re-marking the
corresponding node on both sides), Proofs/GapInner.lean.  Open: slices open on a side (a `lift` out of the middle).
Mark steps: next two sections (outside `[from, to]`; inside the gap). -/

/-- **a node-mark / attr step on a token strictly before a replace-around step's range, one of the two inside a node
    the other one does not touch**: neither rebased step is dropped (both unchanged), both orders apply, and they
    give the same document -/
theorem commute_succeeds_around_nodeStep_before_partial (S : Schema) (d da db : Node) (f t gf gt ins : Nat)
    (sl : Slice) (st : Bool) (pos : Nat) (N : Step) (hN : NodeStepAt pos N)
    (hn : fnorm d.kids = true) (hsn : fnorm sl.content = true)
    (hs : AroundShape f t gf gt sl ins) (hsep : pos + 1 < f)
    (ha : S.apply (.replaceAround f t gf gt sl ins st) d = .ok da) (hb : S.apply N d = .ok db)
    (hg : commuteGuard d.kids pos (pos + 1) ⟨[], 0, 0⟩ f t sl = true) :
    ∃ dab, N.map (Step.replaceAround f t gf gt sl ins st).getMap = some N ∧
      (Step.replaceAround f t gf gt sl ins st).map N.getMap = some (.replaceAround f t gf gt sl ins st) ∧
      S.apply N da = .ok dab ∧ S.apply (.replaceAround f t gf gt sl ins st) db = .ok dab := by
  have hsp : N.posSpan = some (pos, pos) := by
    rcases hN with ⟨m, rfl⟩ | ⟨m, rfl⟩ | ⟨n, v, rfl⟩ <;> rfl
  have hto : N.touch = some (pos, pos + 1) := by
    rcases hN with ⟨m, rfl⟩ | ⟨m, rfl⟩ | ⟨n, v, rfl⟩ <;> rfl
  obtain ⟨n, u, hnat, hu, hfrN⟩ := nodeStep_full S d db pos N hN hb
  obtain ⟨_, _, htok, _, _, _, _⟩ := nodeRepl_toks S d db n u pos _ _ hnat hu hfrN
  obtain ⟨hsz, hun⟩ := nodeSlice_facts S n u _ _ hu
  have hnt : n.isText = false := by
    cases n with
    | text s m => simp [Schema.recreate] at hu
    | leaf => rfl
    | elem => rfl
  have hb2 : S.apply (.replace pos (pos + 1) ⟨[u], 0, if n.isLeaf then 0 else 1⟩ false) d = .ok db := by
    simpa [Schema.apply] using hfrN
  obtain ⟨gap, I, hgap, ho1, ho2, hinst, ha2, hio, hin, hisz, hl⟩ :=
    around_as_replace S d da f t gf gt ins sl st hn hsn hs ha
  have hgo := hs.2.2
  have hg' : commuteGuard d.kids pos (pos + 1) ⟨[u], 0, if n.isLeaf then 0 else 1⟩ f t I = true := by
    rw [commuteGuard_openStart _ _ _ _ _ ⟨[], 0, 0⟩ sl ⟨[u], 0, if n.isLeaf then 0 else 1⟩ I rfl hio]; exact hg
  obtain ⟨a', b', dab, hb', ha', hab, hba⟩ := commute_succeeds_replace S d db da pos (pos + 1) f t _ I
    false false hn hun hin hsep hb2 ha2 hg'
  obtain ⟨hdb, _, hlp, hlenN⟩ := apply_replace_splice S d db pos (pos + 1) _ false hb2
  obtain ⟨hda, _, _, _⟩ := apply_replace_splice S d da f t I false ha2
  obtain ⟨r1, r2⟩ := rebase_separated_after pos (pos + 1) f t ⟨[u], 0, if n.isLeaf then 0 else 1⟩ I false false
    (by omega) (by omega) hsep (by omega)
  rw [r1] at hb'; rw [r2] at ha'
  simp only [Option.some.injEq] at hb' ha'
  subst hb' ha'
  have hnb := apply_replace_norm S d db pos (pos + 1) _ false hn hun hb2
  have hna := apply_replace_norm S d da f t I false hn hin ha2
  refine ⟨dab, ?_, ?_, ?_, ?_⟩
  · exact (rebase_markup_not_dropped_around N pos pos hsp (Nat.le_refl _) f t gf gt sl ins st hgo).1 (by omega)
  · rw [getMap_of_touch N pos (pos + 1) hto]
    exact replaceAround_map_empty f t gf gt sl ins st ⟨hgo.1, hgo.2.2⟩
  · -- the node step on `da`: the addressed token is still there
    have hfr := apply_replace_fromReplace S da dab _ _ _ false hba
    have htok' : (ftoks da.kids)[pos]? = some n.headTok := by
      rw [hda]; unfold splice
      rw [splice_getElem? _ _ _ _ _ (by omega), if_pos (by omega)]
      have hp : pos < (ftoks d.kids).length := by omega
      rw [List.getElem?_eq_getElem hp]
      rw [List.getD_eq_getElem?_getD, List.getElem?_eq_getElem hp] at htok
      simpa using htok
    obtain ⟨n', hnat', hhd, hnt'⟩ := nodeAtKids_of_head da.kids pos n.headTok (fnormKids_of_fnorm hna) htok'
      (by cases n <;> simp [Node.headTok, Node.isText] at hnt ⊢)
      (by intro c m; cases n <;> simp [Node.headTok, Node.isText] at hnt ⊢)
    obtain ⟨e1, e2, e3, e4⟩ := recreate_congr_head S n n' (stepAttrs N n.attrs) (stepMarks S N n.marks) hhd hnt hnt'
    have hu' : S.recreate n' (stepAttrs N n'.attrs) (stepMarks S N n'.marks) = .ok u := by
      rw [e2, e3, e1]; exact hu
    rw [nodeStep_apply_of S da n' u pos N hN hnat' hu', e4]
    exact hfr
  · have hfr := apply_replace_fromReplace S db dab _ _ I false hab
    have hl1 : ((Slice.mk [u] 0 (if n.isLeaf then 0 else 1)).toks.length) = 1 := by omega
    have n1 : ∀ p : Nat, pos + 1 < p →
        ((p : Int) + (Slice.mk [u] 0 (if n.isLeaf then 0 else 1)).size - ((pos + 1 : Nat) - (pos : Int))).toNat = p := by
      intro p hp; omega
    rw [n1 f hsep, n1 t (by omega)] at hfr
    have := around_again_shifted S d db da dab f t gf gt ins pos (pos + 1) sl _ st gap I hn hnb hgo hsep
      (by omega) hl hdb ha hgap ho1 ho2 hinst
      (by rw [hl1, show pos + 1 + (f - (pos + 1)) = f by omega, show pos + 1 + (t - (pos + 1)) = t by omega]; exact hfr)
    rw [hl1] at this
    rwa [show pos + 1 + (f - (pos + 1)) = f by omega, show pos + 1 + (t - (pos + 1)) = t by omega,
      show pos + 1 + (gf - (pos + 1)) = gf by omega, show pos + 1 + (gt - (pos + 1)) = gt by omega] at this

/-- **the token strictly after the replace-around step's range** (`to < pos`): the node step moves by the step's size
    change, the replace-around step is unchanged -/
theorem commute_succeeds_around_nodeStep_after_partial (S : Schema) (d da db : Node) (f t gf gt ins : Nat)
    (sl : Slice) (st : Bool) (pos : Nat) (N : Step) (hN : NodeStepAt pos N)
    (hn : fnorm d.kids = true) (hsn : fnorm sl.content = true)
    (hs : AroundShape f t gf gt sl ins) (hsep : t < pos)
    (ha : S.apply (.replaceAround f t gf gt sl ins st) d = .ok da) (hb : S.apply N d = .ok db)
    (hg : commuteGuard d.kids f t sl pos (pos + 1) ⟨[], 0, 0⟩ = true) :
    ∃ N' dab, N.map (Step.replaceAround f t gf gt sl ins st).getMap = some N' ∧
      (Step.replaceAround f t gf gt sl ins st).map N.getMap = some (.replaceAround f t gf gt sl ins st) ∧
      S.apply N' da = .ok dab ∧ S.apply (.replaceAround f t gf gt sl ins st) db = .ok dab := by
  have hsp : N.posSpan = some (pos, pos) := by
    rcases hN with ⟨m, rfl⟩ | ⟨m, rfl⟩ | ⟨n, v, rfl⟩ <;> rfl
  have hto : N.touch = some (pos, pos + 1) := by
    rcases hN with ⟨m, rfl⟩ | ⟨m, rfl⟩ | ⟨n, v, rfl⟩ <;> rfl
  obtain ⟨n, u, hnat, hu, hfrN⟩ := nodeStep_full S d db pos N hN hb
  obtain ⟨hposlt, _, htok, _, _, _, _⟩ := nodeRepl_toks S d db n u pos _ _ hnat hu hfrN
  obtain ⟨hsz, hun⟩ := nodeSlice_facts S n u _ _ hu
  have hnt : n.isText = false := by
    cases n with
    | text s m => simp [Schema.recreate] at hu
    | leaf => rfl
    | elem => rfl
  have hb2 : S.apply (.replace pos (pos + 1) ⟨[u], 0, if n.isLeaf then 0 else 1⟩ false) d = .ok db := by
    simpa [Schema.apply] using hfrN
  obtain ⟨gap, I, hgap, ho1, ho2, hinst, ha2, hio, hin, hisz, hl⟩ :=
    around_as_replace S d da f t gf gt ins sl st hn hsn hs ha
  have hgo := hs.2.2
  have hg' : commuteGuard d.kids f t I pos (pos + 1) ⟨[u], 0, if n.isLeaf then 0 else 1⟩ = true := by
    rw [commuteGuard_openStart _ _ _ _ _ sl ⟨[], 0, 0⟩ I ⟨[u], 0, if n.isLeaf then 0 else 1⟩ hio rfl]; exact hg
  obtain ⟨a', b', dab, hb', ha', hab, hba⟩ := commute_succeeds_replace S d da db f t pos (pos + 1) I _
    false false hn hin hun hsep ha2 hb2 hg'
  obtain ⟨hdb, _, hlp, hlenN⟩ := apply_replace_splice S d db pos (pos + 1) _ false hb2
  obtain ⟨hda, _, _, hleni⟩ := apply_replace_splice S d da f t I false ha2
  obtain ⟨r1, r2⟩ := rebase_separated_after f t pos (pos + 1) I ⟨[u], 0, if n.isLeaf then 0 else 1⟩ false false
    (by omega) (by omega) hsep (by omega)
  rw [r1] at hb'; rw [r2] at ha'
  simp only [Option.some.injEq] at hb' ha'
  subst hb' ha'
  have hnb := apply_replace_norm S d db pos (pos + 1) _ false hn hun hb2
  have hna := apply_replace_norm S d da f t I false hn hin ha2
  have hmap := (rebase_markup_not_dropped_around N pos pos hsp (Nat.le_refl _) f t gf gt sl ins st hgo).2.2 hsep
  have n1 : ∀ p : Nat, t < p →
      ((p : Int) + ((ins : Int) - ((gf : Int) - f)) + (sl.size - ins - ((t : Int) - gt))).toNat =
        f + I.toks.length + (p - t) := by
    intro p hp; omega
  have n2 : ∀ p : Nat, t < p → ((p : Int) + I.size - ((t : Int) - f)).toNat = f + I.toks.length + (p - t) := by
    intro p hp; omega
  generalize hgdef : (fun p : Nat => ((p : Int) + ((ins : Int) - ((gf : Int) - f)) +
    (sl.size - ins - ((t : Int) - gt))).toNat) = g at hmap
  have hgpos : g pos = f + I.toks.length + (pos - t) := by rw [← hgdef]; exact n1 pos hsep
  refine ⟨_, dab, hmap, ?_, ?_, ?_⟩
  · rw [getMap_of_touch N pos (pos + 1) hto]
    exact replaceAround_map_empty f t gf gt sl ins st ⟨hgo.1, hgo.2.2⟩
  · have hfr := apply_replace_fromReplace S da dab _ _ _ false hab
    rw [n2 pos hsep, n2 (pos + 1) (by omega)] at hfr
    obtain ⟨e1, e2, e3⟩ := stepAttrs_mapPos N g pos hN
    rw [hgpos] at e3
    have hp : pos < (ftoks d.kids).length := by omega
    have htok' : (ftoks da.kids)[f + I.toks.length + (pos - t)]? = some n.headTok := by
      have := splice_window_after (ftoks d.kids) I.toks f t pos 1 (by omega) (by omega) (by omega)
      rw [← hda] at this
      have h0 := congrArg (fun l => l[0]?) this
      simp only [List.getElem?_take_of_lt (Nat.zero_lt_one), List.getElem?_drop, Nat.add_zero] at h0
      rw [h0, List.getElem?_eq_getElem hp]
      rw [List.getD_eq_getElem?_getD, List.getElem?_eq_getElem hp] at htok
      simpa using htok
    obtain ⟨n', hnat', hhd, hnt'⟩ := nodeAtKids_of_head da.kids _ n.headTok (fnormKids_of_fnorm hna) htok'
      (by cases n <;> simp [Node.headTok, Node.isText] at hnt ⊢)
      (by intro c m; cases n <;> simp [Node.headTok, Node.isText] at hnt ⊢)
    obtain ⟨c1, c2, c3, c4⟩ := recreate_congr_head S n n' (stepAttrs N n.attrs) (stepMarks S N n.marks) hhd hnt hnt'
    have hu' : S.recreate n' (stepAttrs (N.mapPos g) n'.attrs) (stepMarks S (N.mapPos g) n'.marks) = .ok u := by
      rw [e1, e2 S, c2, c3, c1]; exact hu
    rw [nodeStep_apply_of S da n' u _ _ e3 hnat' hu', c4]
    rw [show f + I.toks.length + (pos + 1 - t) = f + I.toks.length + (pos - t) + 1 by omega] at hfr
    exact hfr
  · have hfr := apply_replace_fromReplace S db dab _ _ I false hba
    exact around_again_same S d db da dab f t gf gt ins pos (pos + 1) sl _ st gap I hn hnb hgo hsep
      (by omega) (by omega) hdb ha hgap ho1 ho2 hinst hfr

/-- **a replace-around step and a node-mark / attr step on a token strictly outside `[from, to]`, one of the two inside
    a node the other one does not touch**: neither rebased step is dropped, both orders apply, and they give the same
    document -/
theorem commute_succeeds_around_nodeStep_partial (S : Schema) (d da db : Node) (f t gf gt ins : Nat)
    (sl : Slice) (st : Bool) (pos : Nat) (N : Step) (hN : NodeStepAt pos N)
    (hn : fnorm d.kids = true) (hsn : fnorm sl.content = true)
    (hs : AroundShape f t gf gt sl ins)
    (ha : S.apply (.replaceAround f t gf gt sl ins st) d = .ok da) (hb : S.apply N d = .ok db)
    (hg : (pos + 1 < f ∧ commuteGuard d.kids pos (pos + 1) ⟨[], 0, 0⟩ f t sl = true) ∨
      (t < pos ∧ commuteGuard d.kids f t sl pos (pos + 1) ⟨[], 0, 0⟩ = true)) :
    ∃ N' dab, N.map (Step.replaceAround f t gf gt sl ins st).getMap = some N' ∧
      (Step.replaceAround f t gf gt sl ins st).map N.getMap = some (.replaceAround f t gf gt sl ins st) ∧
      S.apply N' da = .ok dab ∧ S.apply (.replaceAround f t gf gt sl ins st) db = .ok dab := by
  rcases hg with ⟨h, hg⟩ | ⟨h, hg⟩
  · obtain ⟨dab, h1, h2, h3, h4⟩ := commute_succeeds_around_nodeStep_before_partial S d da db f t gf gt ins sl st pos N
      hN hn hsn hs h ha hb hg
    exact ⟨N, dab, h1, h2, h3, h4⟩
  · exact commute_succeeds_around_nodeStep_after_partial S d da db f t gf gt ins sl st pos N hN hn hsn hs h ha hb hg

/-! ### both rebased orders apply — replace-around step vs. mark step outside `[from, to]`

A mark step that applies is the plain replace of its range by the re-marked slice (`markStep_as_replace`), so under
`commuteGuard` (with the cut slice `old = d.slice f2 t2` giving the mark step's depth of descent)
`commute_succeeds_replace` makes the replace-around step's filled replace apply to `db`, and `around_again_*` turns it
back into the replace-around step.  The rebased mark step applies to `da` because `da` is a valid normal-form
document (`C01.apply_valid`) and its ends stay pair-aligned (`addMark_applies` / `removeMark_applies`, `TextLoop`); the
two results are equal by the convergence theorems above.  `_partial`: `commuteGuard` is not forced for mark steps
(a guard-free proof needs a target-based success criterion for `replaceKids` — `replaceKids_undoG` /
`replaceKids_merged` are of that kind — plus `RightRel` / `LeftRel` between `db` and the expected result, i.e. how a
mark step changes the tree right of a position; not available), and the inside-the-gap position is `commute_succeeds_around_mark_gap_partial` (last section). -/

/-- **replace-around step vs. mark step strictly before its range: both rebased steps apply** (the documents are
    compared by the convergence theorems) -/
theorem around_mark_core_before (S : Schema) (hts : TextLoop S) (d da db : Node) (f t gf gt ins : Nat)
    (sl : Slice) (st : Bool) (f2 t2 : Nat) (mk : Mark) (M : Step)
    (hM : M = .addMark f2 t2 mk ∨ M = .removeMark f2 t2 mk)
    (hv : C01.Valid S d) (hpv : C01.PayloadValid S d (.replaceAround f t gf gt sl ins st))
    (hn : fnorm d.kids = true) (hsn : fnorm sl.content = true)
    (hs : AroundShape f t gf gt sl ins) (hsep : t2 < f)
    (ha : S.apply (.replaceAround f t gf gt sl ins st) d = .ok da) (hb : S.apply M d = .ok db)
    (old : Slice) (hold : d.slice f2 t2 = .ok old) (hg : commuteGuard d.kids f2 t2 old f t sl = true) :
    ∃ dab dba, M.map (Step.replaceAround f t gf gt sl ins st).getMap = some M ∧
      (Step.replaceAround f t gf gt sl ins st).map M.getMap = some (.replaceAround f t gf gt sl ins st) ∧
      S.apply M da = .ok dab ∧ S.apply (.replaceAround f t gf gt sl ins st) db = .ok dba ∧
      fnorm dab.kids = true ∧ fnorm dba.kids = true := by
  obtain ⟨hsp, hto⟩ := markStep_span f2 t2 mk M hM
  obtain ⟨old', slM, hold', hos, hslMn, hb2⟩ := markStep_as_replace S d db f2 t2 mk M hM hn hb
  rw [hold] at hold'; cases hold'
  have F := markStep_facts S d db f2 t2 mk M hM hb
  obtain ⟨hle, ht2⟩ := F.range
  obtain ⟨gap, I, hgap, ho1, ho2, hinst, ha2, hio, hin, hisz, hl⟩ :=
    around_as_replace S d da f t gf gt ins sl st hn hsn hs ha
  have hgo := hs.2.2
  have hg' : commuteGuard d.kids f2 t2 slM f t I = true := by
    rw [commuteGuard_openStart _ _ _ _ _ old sl slM I hos hio]; exact hg
  obtain ⟨a', b', dab0, hb', ha', hab, hba⟩ := commute_succeeds_replace S d db da f2 t2 f t slM I
    false false hn hslMn hin hsep hb2 ha2 hg'
  obtain ⟨hdb, _, hlp, hlenM⟩ := apply_replace_splice S d db f2 t2 slM false hb2
  obtain ⟨hda, _, _, hleni⟩ := apply_replace_splice S d da f t I false ha2
  have hnb := F.norm hn
  have hna := apply_replace_norm S d da f t I false hn hin ha2
  have hlenS : slM.toks.length = t2 - f2 := by
    have h1 := F.size
    rw [← ftoks_length, ← ftoks_length, hdb, splice_length _ _ _ _ hle hlp] at h1
    omega
  obtain ⟨r1, r2⟩ := rebase_separated_after f2 t2 f t slM I false false hle (by omega) hsep (by omega)
  rw [r1] at hb'
  simp only [Option.some.injEq] at hb'
  subst hb'
  -- the replace-around step on `db`
  have hAdb : S.apply (.replaceAround f t gf gt sl ins st) db = .ok dab0 := by
    have hfr := apply_replace_fromReplace S db dab0 _ _ I false hab
    have n1 : ∀ p : Nat, t2 < p → ((p : Int) + slM.size - ((t2 : Int) - f2)).toNat = p := by
      intro p hp; omega
    rw [n1 f hsep, n1 t (by omega)] at hfr
    have := around_again_shifted S d db da dab0 f t gf gt ins f2 t2 sl slM.toks st gap I hn hnb hgo hsep
      hle hl hdb ha hgap ho1 ho2 hinst
      (by rw [hlenS, show f2 + (t2 - f2) + (f - t2) = f by omega, show f2 + (t2 - f2) + (t - t2) = t by omega]
          exact hfr)
    rw [hlenS] at this
    rwa [show f2 + (t2 - f2) + (f - t2) = f by omega, show f2 + (t2 - f2) + (t - t2) = t by omega,
      show f2 + (t2 - f2) + (gf - t2) = gf by omega, show f2 + (t2 - f2) + (gt - t2) = gt by omega] at this
  -- the mark step on `da`
  obtain ⟨ty, a, m, K, K', rfl, rfl, hrK⟩ := fromReplace_parts S d db f2 t2 slM
    (apply_replace_fromReplace S _ _ _ _ _ false hb2)
  obtain ⟨al1, al2⟩ := replaceKids_aligned S ty K f2 t2 slM K' hrK
  obtain ⟨ty', a', m', K0, Ka, e0, rfl, hrA⟩ := fromReplace_parts S _ da f t I
    (apply_replace_fromReplace S _ _ _ _ _ false ha2)
  cases e0
  simp only [Node.kids] at hn hna hda hl al1 al2 ht2 ⊢
  have hvda : S.checkNode (.elem ty a m Ka) = true := C01.apply_valid S _ _ _ hv hpv ha
  have hlenda : (ftoks Ka).length = f + I.toks.length + ((ftoks K).length - t) := by
    rw [hda]; exact splice_length _ _ _ _ (by omega) hl
  obtain ⟨dab, hMda⟩ := markStep_applies S hts (.elem ty a m Ka) f2 t2 mk id M hM hvda hna ⟨_, _, _, _, rfl⟩
    hle (by simp only [id, Node.kids]; rw [← ftoks_length, hlenda]; omega)
    (aligned_before_splice K Ka _ f t f2 hn hna hda (by omega) (by omega) al1)
    (aligned_before_splice K Ka _ f t t2 hn hna hda (by omega) hsep al2)
  rw [Step.mapPos_id _ id (fun _ => rfl)] at hMda
  have Fda := markStep_facts S _ dab f2 t2 mk M hM hMda
  refine ⟨dab, dab0, ?_, ?_, hMda, hAdb, Fda.norm hna, apply_replace_norm S _ dab0 _ _ I false hnb hin hab⟩
  · exact (rebase_markup_not_dropped_around M f2 t2 hsp hle f t gf gt sl ins st hgo).1 hsep
  · rw [getMap_of_touch M f2 t2 hto]
    exact replaceAround_map_empty f t gf gt sl ins st ⟨hgo.1, hgo.2.2⟩

/-- **… strictly after its range**: the mark step moves by the size change -/
theorem around_mark_core_after (S : Schema) (hts : TextLoop S) (d da db : Node) (f t gf gt ins : Nat)
    (sl : Slice) (st : Bool) (f2 t2 : Nat) (mk : Mark) (M : Step)
    (hM : M = .addMark f2 t2 mk ∨ M = .removeMark f2 t2 mk)
    (hv : C01.Valid S d) (hpv : C01.PayloadValid S d (.replaceAround f t gf gt sl ins st))
    (hn : fnorm d.kids = true) (hsn : fnorm sl.content = true)
    (hs : AroundShape f t gf gt sl ins) (hsep : t < f2)
    (ha : S.apply (.replaceAround f t gf gt sl ins st) d = .ok da) (hb : S.apply M d = .ok db)
    (old : Slice) (hold : d.slice f2 t2 = .ok old) (hg : commuteGuard d.kids f t sl f2 t2 old = true) :
    ∃ dab dba, M.map (Step.replaceAround f t gf gt sl ins st).getMap =
        some (M.mapPos (fun p => ((p : Int) + ((ins : Int) - ((gf : Int) - f)) +
          (sl.size - ins - ((t : Int) - gt))).toNat)) ∧
      (Step.replaceAround f t gf gt sl ins st).map M.getMap = some (.replaceAround f t gf gt sl ins st) ∧
      S.apply (M.mapPos (fun p => ((p : Int) + ((ins : Int) - ((gf : Int) - f)) +
          (sl.size - ins - ((t : Int) - gt))).toNat)) da = .ok dab ∧
      S.apply (.replaceAround f t gf gt sl ins st) db = .ok dba ∧
      fnorm dab.kids = true ∧ fnorm dba.kids = true := by
  obtain ⟨hsp, hto⟩ := markStep_span f2 t2 mk M hM
  obtain ⟨old', slM, hold', hos, hslMn, hb2⟩ := markStep_as_replace S d db f2 t2 mk M hM hn hb
  rw [hold] at hold'; cases hold'
  have F := markStep_facts S d db f2 t2 mk M hM hb
  obtain ⟨hle, ht2⟩ := F.range
  obtain ⟨gap, I, hgap, ho1, ho2, hinst, ha2, hio, hin, hisz, hl⟩ :=
    around_as_replace S d da f t gf gt ins sl st hn hsn hs ha
  have hgo := hs.2.2
  have hg' : commuteGuard d.kids f t I f2 t2 slM = true := by
    rw [commuteGuard_openStart _ _ _ _ _ sl old I slM hio hos]; exact hg
  obtain ⟨a', b', dab0, hb', ha', hab, hba⟩ := commute_succeeds_replace S d da db f t f2 t2 I slM
    false false hn hin hslMn hsep ha2 hb2 hg'
  obtain ⟨hdb, _, hlp, hlenM⟩ := apply_replace_splice S d db f2 t2 slM false hb2
  obtain ⟨hda, _, _, hleni⟩ := apply_replace_splice S d da f t I false ha2
  have hnb := F.norm hn
  have hna := apply_replace_norm S d da f t I false hn hin ha2
  obtain ⟨r1, r2⟩ := rebase_separated_after f t f2 t2 I slM false false (by omega) hle hsep (by omega)
  rw [r2] at ha'
  simp only [Option.some.injEq] at ha'
  subst ha'
  have hAdb : S.apply (.replaceAround f t gf gt sl ins st) db = .ok dab0 := by
    have hfr := apply_replace_fromReplace S db dab0 _ _ I false hba
    exact around_again_same S d db da dab0 f t gf gt ins f2 t2 sl slM.toks st gap I hn hnb hgo hsep
      hle hlp hdb ha hgap ho1 ho2 hinst hfr
  have hmap := (rebase_markup_not_dropped_around M f2 t2 hsp hle f t gf gt sl ins st hgo).2.2 hsep
  have n1 : ∀ p : Nat, t < p →
      ((p : Int) + ((ins : Int) - ((gf : Int) - f)) + (sl.size - ins - ((t : Int) - gt))).toNat =
        f + I.toks.length + (p - t) := by
    intro p hp; omega
  generalize hgdef : (fun p : Nat => ((p : Int) + ((ins : Int) - ((gf : Int) - f)) +
    (sl.size - ins - ((t : Int) - gt))).toNat) = g at hmap ⊢
  have hg1 : g f2 = f + I.toks.length + (f2 - t) := by rw [← hgdef]; exact n1 f2 hsep
  have hg2 : g t2 = f + I.toks.length + (t2 - t) := by rw [← hgdef]; exact n1 t2 (by omega)
  obtain ⟨ty, a, m, K, K', rfl, rfl, hrK⟩ := fromReplace_parts S d db f2 t2 slM
    (apply_replace_fromReplace S _ _ _ _ _ false hb2)
  obtain ⟨al1, al2⟩ := replaceKids_aligned S ty K f2 t2 slM K' hrK
  obtain ⟨ty', a', m', K0, Ka, e0, rfl, hrA⟩ := fromReplace_parts S _ da f t I
    (apply_replace_fromReplace S _ _ _ _ _ false ha2)
  cases e0
  simp only [Node.kids] at hn hna hda hl al1 al2 ht2 hlp ⊢
  have hvda : S.checkNode (.elem ty a m Ka) = true := C01.apply_valid S _ _ _ hv hpv ha
  have hlenda : (ftoks Ka).length = f + I.toks.length + ((ftoks K).length - t) := by
    rw [hda]; exact splice_length _ _ _ _ (by omega) hl
  obtain ⟨dab, hMda⟩ := markStep_applies S hts (.elem ty a m Ka) f2 t2 mk g M hM hvda hna ⟨_, _, _, _, rfl⟩
    (by rw [hg1, hg2]; omega)
    (by simp only [Node.kids]; rw [hg2, ← ftoks_length, hlenda]; omega)
    (by rw [hg1]; exact aligned_after_splice K Ka _ f t f2 hn hna hda (by omega) hl hsep al1)
    (by rw [hg2]; exact aligned_after_splice K Ka _ f t t2 hn hna hda (by omega) hl (by omega) al2)
  have hM' : M.mapPos g = .addMark (g f2) (g t2) mk ∨ M.mapPos g = .removeMark (g f2) (g t2) mk := by
    rcases hM with rfl | rfl
    · exact .inl rfl
    · exact .inr rfl
  have Fda := markStep_facts S _ dab (g f2) (g t2) mk (M.mapPos g) hM' hMda
  refine ⟨dab, dab0, hmap, ?_, hMda, hAdb, Fda.norm hna, apply_replace_norm S _ dab0 _ _ I false hnb hin hba⟩
  rw [getMap_of_touch M f2 t2 hto]
  exact replaceAround_map_empty f t gf gt sl ins st ⟨hgo.1, hgo.2.2⟩

/-- **a replace-around step and a mark step on a range strictly outside `[from, to]`, one of the two inside a node
    the other one does not touch** (valid normal-form document, valid payload, text children may repeat; for an
    add-mark step after the range the marked inline atoms keep the type of their enclosing node, `ParentStable`):
    neither rebased step is dropped, both orders apply, and they give the same document -/
theorem commute_succeeds_around_mark_partial (S : Schema) (hts : TextLoop S) (d da db : Node)
    (f t gf gt ins : Nat) (sl : Slice) (st : Bool) (f2 t2 : Nat) (mk : Mark) (M : Step)
    (hM : M = .addMark f2 t2 mk ∨ M = .removeMark f2 t2 mk)
    (hv : C01.Valid S d) (hpv : C01.PayloadValid S d (.replaceAround f t gf gt sl ins st))
    (hn : fnorm d.kids = true) (hsn : fnorm sl.content = true)
    (hs : AroundShape f t gf gt sl ins)
    (ha : S.apply (.replaceAround f t gf gt sl ins st) d = .ok da) (hb : S.apply M d = .ok db)
    (old : Slice) (hold : d.slice f2 t2 = .ok old)
    (hg : (t2 < f ∧ commuteGuard d.kids f2 t2 old f t sl = true) ∨
      (t < f2 ∧ commuteGuard d.kids f t sl f2 t2 old = true))
    (hstable : M = .addMark f2 t2 mk → t < f2 → ParentStable S d da f2 t2
      ((f2 : Int) + ((ins : Int) - ((gf : Int) - f)) + (sl.size - ins - ((t : Int) - gt))).toNat) :
    ∃ M' dab, M.map (Step.replaceAround f t gf gt sl ins st).getMap = some M' ∧
      (Step.replaceAround f t gf gt sl ins st).map M.getMap = some (.replaceAround f t gf gt sl ins st) ∧
      S.apply M' da = .ok dab ∧ S.apply (.replaceAround f t gf gt sl ins st) db = .ok dab := by
  have hle : f2 ≤ t2 := (markStep_facts S d db f2 t2 mk M hM hb).range.1
  rcases hg with ⟨hsep, hg⟩ | ⟨hsep, hg⟩
  · obtain ⟨dab, dba, h1, h2, h3, h4, n1, n2⟩ := around_mark_core_before S hts d da db f t gf gt ins sl st f2 t2 mk M
      hM hv hpv hn hsn hs hsep ha hb old hold hg
    have := (commute_around_mark_unguarded S d da db dab dba f t gf gt ins sl st f2 t2 mk M M _ hle hs
      (by rcases hM with rfl | rfl
          · exact .inl ⟨rfl, hsep⟩
          · exact .inr ⟨rfl, .inl hsep⟩) ha hb h1 h2 h3 h4).2 n1 n2
    subst this
    exact ⟨M, dab, h1, h2, h3, h4⟩
  · obtain ⟨dab, dba, h1, h2, h3, h4, n1, n2⟩ := around_mark_core_after S hts d da db f t gf gt ins sl st f2 t2 mk M
      hM hv hpv hn hsn hs hsep ha hb old hold hg
    have : dab = dba := by
      rcases hM with rfl | rfl
      · exact (commute_around_mark_partial S d da db dab dba f t gf gt ins sl st f2 t2 _ _ mk _ hle hs
          (.inr hsep) ha hb h1 h2 h3 h4 (hstable rfl hsep)).2 n1 n2
      · exact (commute_around_mark_unguarded S d da db dab dba f t gf gt ins sl st f2 t2 mk _ _ _ hle hs
          (.inr ⟨rfl, .inr (.inr hsep)⟩) ha hb h1 h2 h3 h4).2 n1 n2
    subst this
    exact ⟨_, dab, h1, h2, h3, h4⟩

/-- remove-mark steps: no `ParentStable` -/
theorem commute_succeeds_around_removeMark_partial (S : Schema) (hts : TextLoop S) (d da db : Node)
    (f t gf gt ins : Nat) (sl : Slice) (st : Bool) (f2 t2 : Nat) (mk : Mark)
    (hv : C01.Valid S d) (hpv : C01.PayloadValid S d (.replaceAround f t gf gt sl ins st))
    (hn : fnorm d.kids = true) (hsn : fnorm sl.content = true)
    (hs : AroundShape f t gf gt sl ins)
    (ha : S.apply (.replaceAround f t gf gt sl ins st) d = .ok da)
    (hb : S.apply (.removeMark f2 t2 mk) d = .ok db)
    (old : Slice) (hold : d.slice f2 t2 = .ok old)
    (hg : (t2 < f ∧ commuteGuard d.kids f2 t2 old f t sl = true) ∨
      (t < f2 ∧ commuteGuard d.kids f t sl f2 t2 old = true)) :
    ∃ M' dab, (Step.removeMark f2 t2 mk).map (Step.replaceAround f t gf gt sl ins st).getMap = some M' ∧
      (Step.replaceAround f t gf gt sl ins st).map (Step.removeMark f2 t2 mk).getMap =
        some (.replaceAround f t gf gt sl ins st) ∧
      S.apply M' da = .ok dab ∧ S.apply (.replaceAround f t gf gt sl ins st) db = .ok dab :=
  commute_succeeds_around_mark_partial S hts d da db f t gf gt ins sl st f2 t2 mk _ (.inr rfl) hv hpv hn hsn hs
    ha hb old hold hg (fun h => by cases h)

/-- add-mark steps: `ParentStable` when the marked range lies after the replace-around step -/
theorem commute_succeeds_around_addMark_partial (S : Schema) (hts : TextLoop S) (d da db : Node)
    (f t gf gt ins : Nat) (sl : Slice) (st : Bool) (f2 t2 : Nat) (mk : Mark)
    (hv : C01.Valid S d) (hpv : C01.PayloadValid S d (.replaceAround f t gf gt sl ins st))
    (hn : fnorm d.kids = true) (hsn : fnorm sl.content = true)
    (hs : AroundShape f t gf gt sl ins)
    (ha : S.apply (.replaceAround f t gf gt sl ins st) d = .ok da)
    (hb : S.apply (.addMark f2 t2 mk) d = .ok db)
    (old : Slice) (hold : d.slice f2 t2 = .ok old)
    (hg : (t2 < f ∧ commuteGuard d.kids f2 t2 old f t sl = true) ∨
      (t < f2 ∧ commuteGuard d.kids f t sl f2 t2 old = true))
    (hstable : t < f2 → ParentStable S d da f2 t2
      ((f2 : Int) + ((ins : Int) - ((gf : Int) - f)) + (sl.size - ins - ((t : Int) - gt))).toNat) :
    ∃ M' dab, (Step.addMark f2 t2 mk).map (Step.replaceAround f t gf gt sl ins st).getMap = some M' ∧
      (Step.replaceAround f t gf gt sl ins st).map (Step.addMark f2 t2 mk).getMap =
        some (.replaceAround f t gf gt sl ins st) ∧
      S.apply M' da = .ok dab ∧ S.apply (.replaceAround f t gf gt sl ins st) db = .ok dab :=
  commute_succeeds_around_mark_partial S hts d da db f t gf gt ins sl st f2 t2 mk _ (.inl rfl) hv hpv hn hsn hs
    ha hb old hold hg (fun _ h => hstable h)

/-! Non-vacuity of the decidable hypotheses of `commute_succeeds_around_around`: in
    `doc(quote(p("a")), quote(p("b")))` two users re-create the two paragraphs around their content
    (`set_node_markup`-shaped steps `replaceAround 1 4 2 3 <p>` and `replaceAround 6 9 7 8 <p>`); both have the
    library's shape, tokens 4 and 5 lie between them, and the first one happens inside the first quote, which the
    second one does not touch.  (That such pairs apply and converge in the real code: harness counter
    `guard-around-around:holds`, oracle `commuteGuard=>converge`.) -/
example :
    let d : Node := .elem 0 [] [] [.elem 3 [] [] [.elem 1 [] [] [.text [97] []]],
      .elem 3 [] [] [.elem 1 [] [] [.text [98] []]]]
    let p : Slice := ⟨[.elem 1 [] [] []], 0, 0⟩
    AroundShape 1 4 2 3 p 1 ∧ AroundShape 6 9 7 8 p 1 ∧ 4 < 6 ∧ fnorm d.kids = true ∧ fnorm p.content = true ∧
    commuteGuard d.kids 1 4 p 6 9 p = true := by
  refine ⟨by decide, by decide, by decide, ?_, ?_, ?_⟩
  · simp [Node.kids, fnorm, fnormKids, Node.norm, chainOk, adjOk]
  · simp [fnorm, fnormKids, Node.norm, chainOk]
  · simp [Node.kids, commuteGuard, insideLeft, depthAt]

/-- non-vacuity of the decidable hypotheses of `commute_succeeds_around_nodeStep_before_partial`: in
    `doc(quote(p("a")), quote(p("b")))` an attr step on the first paragraph (token 1) against re-creating the second
    paragraph (`replaceAround 6 9 7 8 <p> 1`): the attr step happens inside the first quote -/
example :
    let d : Node := .elem 0 [] [] [.elem 3 [] [] [.elem 1 [] [] [.text [97] []]],
      .elem 3 [] [] [.elem 1 [] [] [.text [98] []]]]
    let p : Slice := ⟨[.elem 1 [] [] []], 0, 0⟩
    NodeStepAt 1 (.attr 1 "k" "v") ∧ AroundShape 6 9 7 8 p 1 ∧ 1 + 1 < 6 ∧
    commuteGuard d.kids 1 (1 + 1) ⟨[], 0, 0⟩ 6 9 p = true := by
  refine ⟨.inr (.inr ⟨"k", "v", rfl⟩), by decide, by decide, ?_⟩
  simp [Node.kids, commuteGuard, insideLeft, depthAt]

/-! ### a step strictly inside the kept gap of a replace-around step: the guard (`gapGuard`, PM/CommuteGuard.lean)

In-gap pairs are *overlapping* in the sense of property C17 (the partner's range lies inside `[from, to]`; only the
touched tokens are disjoint), so nothing below is a violation of C17: this section extends the convergence theory to them.
Without a guard the rebased steps need not apply (real code, harness counters `gap-pair:an-order-fails:<opA>/<opB>`,
182 of 2973 in-gap pairs at seed 0).  The failing pairs are of two kinds, neither excused by C17-parent-retyped:
* the inner step closes the node the gap lives in (a `split` of the re-typed textblock, a replace whose slice is open
  deeper than the position is nested inside the gap): after it the range `[gapFrom, gapTo')` is no longer a closed
  slice and the rebased replace-around step fails ("Gap is not a flat range"); e.g. basic schema,
  `doc(h1("0\nyxz\n", br), hr)`, `set_node_markup` = `replaceAround 0 9 1 8 <h2> 1` against
  `replace 7 7 <h1()|code_block("\n𝒳")|h1()>(1,1)`: the replace-around step first, then the replace applies;
  the replace first, then the replace-around step fails.
* the inner step adds / removes nodes at the gap's own level and the node the gap is moved into does not accept the
  new children (both orders fail, or one does).
`gapGuard d gapFrom gapTo f1 t1 s1` = `replace_outer` of the inner step descends into an element node that lies
entirely inside `[gapFrom, gapTo]`: the inner step rebuilds nodes inside that node only, so the gap stays a closed
slice with the same top-level nodes (same types, attrs, marks).  Tie: driver op `gapGuard` against the same predicate
on the real `ResolvedPos` data, and the relational oracle "guard ⇒ the real code's four applications succeed and give
equal documents" on every in-gap pair with a replace or replace-around partner (seeds 0–3: no counterexample;
seed 0: guard true on 1344 pairs, all converge; false on 859, of which 181 have a failing order).

Proved below (`commute_succeeds_around_gap`) for replace-around steps whose slice is closed on both sides (`wrap`,
`set_node_markup`, `set_block_type`, a `lift` of a node's whole content: hypothesis `hcl`, which also settles the caveat
"the gap content must not sit on an open spine of the filled slice"), for valid documents and payloads, under
`compatTransB` (join-compatibility of node types is transitive: every bundled schema; tied per schema by the C16 check) and with the two ends of the
inserted content pair-aligned in `db` (`hdbal`: decidable on the given documents; as in C16 `replaceKids_merge_open`).
How: the guard puts the inner step into the content `kN` of an element node inside the gap (`gap_setup`); that node
is found again — as a nested level — in `db` and in the gap content from their tokens (`lvl_window_toks`), so the
rebased inner step is the same replace of `kN` (`Lvl.replaceKids_eq`) and yields the expected result `dab`; `dab` is
valid (`C01.apply_valid` twice), and the rebased replace-around step reaches it by the target-based criterion
`replaceKids_merged`: the gap is cut again with the node's content exchanged (`gap_slice_inner`), `Slice.insertAt`
succeeds alike because it reads the fragment's top-level types, marks and text-ness only (`insertAt_success_congr`), the
right-hand sides are related through `d` (`rightRel_after_lvl`, `FwdFacts.rrel`).
FULL STATEMENT (open for slices open on a side — a `lift` out of the middle of its parent): the same without `hcl`;
needs the filled slice split as `fappend cA cB` at a top-level seam and `lcompat` for its left spine. -/

set_option maxHeartbeats 400000 in
/-- **a replace step strictly inside the kept gap of a replace-around step, happening inside an element node of the gap
    content** (`gapGuard`): neither rebased step is dropped, both orders apply, and they give the same document -/
theorem commute_succeeds_around_gap (S : Schema) (htr : compatTransB S = true) (d da db : Node)
    (f t gf gt ins f1 t1 : Nat) (sl s1 : Slice) (st b1 : Bool)
    (hv : C01.Valid S d) (hpvA : C01.PayloadValid S d (.replaceAround f t gf gt sl ins st))
    (hpvR : openValid S s1.openStart s1.openEnd s1.content = true)
    (hn : fnorm d.kids = true) (hsn1 : fnorm s1.content = true) (hsn : fnorm sl.content = true)
    (hs : AroundShape f t gf gt sl ins) (hcl : sl.openStart = 0 ∧ sl.openEnd = 0)
    (h : gf < f1) (h' : t1 < gt)
    (ha : S.apply (.replace f1 t1 s1 b1) d = .ok da)
    (hb : S.apply (.replaceAround f t gf gt sl ins st) d = .ok db)
    (hdbal : alignedAt db.kids f = true ∧ alignedAt db.kids (f + sl.toks.length + (gt - gf)) = true)
    (hg : gapGuard d.kids gf gt f1 t1 s1 = true) :
    ∃ A' R' dab,
      (Step.replaceAround f t gf gt sl ins st).map (Step.replace f1 t1 s1 b1).getMap = some A' ∧
      (Step.replace f1 t1 s1 b1).map (Step.replaceAround f t gf gt sl ins st).getMap = some R' ∧
      S.apply A' da = .ok dab ∧ S.apply R' db = .ok dab := by
  have htr := compatTrans_of_B S htr
  obtain ⟨gap, I, hgap, ho1, ho2, hinst, hb2, hio, hin, hisz, hl⟩ :=
    around_as_replace S d db f t gf gt ins sl st hn hsn hs hb
  obtain ⟨hwf, hins, hgo⟩ := id hs
  have ka := apply_replace_fromReplace S d da f1 t1 s1 b1 ha
  obtain ⟨ty, a, m, K, Ka, rfl, rfl, hrR⟩ := fromReplace_parts S d da f1 t1 s1 ka
  obtain ⟨ty', a', m', K0, Kb, e0, rfl, hrA⟩ := fromReplace_parts S _ db f t I
    (apply_replace_fromReplace S _ _ _ _ _ false hb2)
  cases e0
  simp only [Node.kids] at hn hl hdbal hg hgap
  obtain ⟨hft1, ht1K, hwf1⟩ := replaceKids_guards S ty K f1 t1 s1 Ka hrR
  unfold gapGuard at hg
  obtain ⟨sN, nd, tyN, aN, mN, kN, kN', g1, h1, ctxi, A0, B0, hLi, hk, hEq, q1, q2, r1, r2, r4, r5, hA0, htokX,
    hso, hkN⟩ := gap_setup S ty K Ka gf gt f1 t1 s1 hn h' hrR hg
  clear hg
  have hLK : ftoks K = A0 ++ (Tok.op tyN aN mN :: (ftoks kN ++ [Tok.cl])) ++ B0 := by
    rw [← htokX kN, hLi.ctx_self]
  have hLKa : ftoks Ka = A0 ++ (Tok.op tyN aN mN :: (ftoks kN' ++ [Tok.cl])) ++ B0 := by
    rw [hEq, htokX kN']
  have FR := fwdFacts S tyN kN kN' g1 h1 s1 hk
  have hkN' : fnorm kN' = true := FR.norm hkN hsn1
  have hszN := FR.size
  clear FR htokX
  have hWl : (Tok.op tyN aN mN :: (ftoks kN ++ [Tok.cl])).length = 2 + fsize kN := by
    simp [ftoks_length]; omega
  have hWl' : (Tok.op tyN aN mN :: (ftoks kN' ++ [Tok.cl])).length = 2 + fsize kN' := by
    simp [ftoks_length]; omega
  have hKlen : fsize K = sN + (2 + fsize kN) + B0.length := by
    rw [← ftoks_length, hLK]; simp only [List.length_append, hWl, hA0]
  have hKalen : fsize Ka = sN + (2 + fsize kN') + B0.length := by
    rw [← ftoks_length, hLKa]; simp only [List.length_append, hWl', hA0]
  rw [ftoks_length] at hl
  -- the gap's tokens
  have hgapW : ((ftoks K).drop gf).take (gt - gf) = A0.drop gf ++
      (Tok.op tyN aN mN :: (ftoks kN ++ (Tok.cl :: B0.take (gt - sN - (2 + fsize kN))))) := by
    rw [hLK, gap_window A0 _ B0 gf gt (by omega) (by rw [hWl]; omega), hWl, hA0]
    simp [List.append_assoc]
  -- the document after the replace-around step
  obtain ⟨hdbL, _, hXl, hYl⟩ := apply_around_aroundL S _ _ f t gf gt sl ins st hs hb
  simp only [Node.kids] at hdbL
  rw [← aroundL_eq _ _ _ f gf gt t hgo (by rw [ftoks_length]; exact hl), hgapW] at hdbL
  generalize hpreB : (ftoks K).take f ++ sl.toks.take ins ++ A0.drop gf = preB at hdbL
  generalize hpostB : B0.take (gt - sN - (2 + fsize kN)) ++ sl.toks.drop ins ++ (ftoks K).drop t = postB
  have hKb : ftoks Kb = preB ++ (Tok.op tyN aN mN :: (ftoks kN ++ (Tok.cl :: postB))) := by
    rw [hdbL, ← hpreB, ← hpostB]; simp [List.append_assoc]
  have hpreBl : preB.length = f + ins + (sN - gf) := by
    rw [← hpreB]
    simp only [List.length_append, List.length_take, List.length_drop, hA0, ftoks_length] at hXl ⊢
    omega
  have hnb : fnorm Kb = true := replaceKids_norm S ty K f t I Kb hn hin hrA
  obtain ⟨ndb, ctxb, hLb, htokb⟩ := lvl_window_toks Kb ty tyN aN mN kN preB postB hnb hkN hKb
  -- the rebased replace step on `db`: inside the same node
  have hEqb := hLb.replaceKids_eq (S := S) s1 g1 h1 r1 r2 hso
  rw [hk] at hEqb
  simp only [Except.map] at hEqb
  -- the gap of `da`: the gap of `d` with the node's content exchanged
  have hgap' : sliceKids K gf gt = .ok gap := hgap
  have hgcl : gap = ⟨gap.content, 0, 0⟩ := by cases gap; simp at ho1 ho2; simp [ho1, ho2]
  have hgn := (sliceKids_norm K gf gt gap hn hgap').1
  have hgT : ftoks gap.content = A0.drop gf ++ (Tok.op tyN aN mN :: (ftoks kN ++
      (Tok.cl :: B0.take (gt - sN - (2 + fsize kN))))) := by
    rw [← Slice.toks_closed, ← hgcl, sliceKids_toks K gf gt gap hgo.2.1 (by omega) hgap', hgapW]
  obtain ⟨ndg, ctxg, hLg, hGT⟩ := lvl_window_toks gap.content ty tyN aN mN kN _ _ hgn hkN hgT
  have hG'n : fnorm (ctxg kN') = true := hLg.ctx_norm hgn kN' hkN'
  have hgself : ctxg kN = gap.content := hLg.ctx_self
  have lab1 := hLg.ctx_skeys S kN kN'
  rw [hgself] at lab1
  obtain ⟨I', hI'⟩ := insertAt_success_congr S sl I ins gap.content (ctxg kN') lab1 hinst
  obtain ⟨hI'T, hI'o1, hI'o2⟩ := insertAt_toks S sl I' ins (ctxg kN') hwf hins hI'
  have hI'n := insertAt_norm S sl I' ins (ctxg kN') hsn hG'n hI'
  obtain ⟨hIT, _, hIo2'⟩ := insertAt_toks S sl I ins gap.content hwf hins hinst
  clear lab1 hgself hinst
  have FRk := fwdFacts S ty K Ka f1 t1 s1 hrR
  have FA := fwdFacts S ty K Kb f t I hrA
  have hna : fnorm Ka = true := FRk.norm hn hsn1
  have hda : ftoks Ka = splice (ftoks K) f1 t1 s1.toks := FRk.toks
  have hIo1 : I.openStart = 0 := by rw [hio]; exact hcl.1
  have hIo2 : I.openEnd = 0 := by rw [hIo2']; exact hcl.2
  have hI'cl : I' = ⟨I'.content, 0, 0⟩ := by
    cases I'; simp at hI'o1 hI'o2; simp [hI'o1, hI'o2, hcl.1, hcl.2]
  have hB0r : (B0.take (gt - sN - (2 + fsize kN))).length = gt - sN - (2 + fsize kN) := by
    rw [List.length_take]; omega
  have hG'sz : fsize (ctxg kN') = (sN - gf) + (2 + fsize kN') + (gt - sN - (2 + fsize kN)) := by
    have := congrArg List.length (hGT kN')
    simp only [List.length_append, List.length_cons, List.length_drop, ftoks_length, hA0, hB0r] at this
    omega
  have hItl : I.toks.length = sl.toks.length + (gt - gf) := by
    obtain ⟨_, _, _, e1⟩ := apply_replace_splice S _ _ f t I false hb2
    obtain ⟨e2, _⟩ := Slice.toks_length_of_wf_ex sl hwf
    omega
  have hI'tl : I'.toks.length + fsize kN = sl.toks.length + (gt - gf) + fsize kN' := by
    have e1 := congrArg List.length hI'T
    have e2 := congrArg List.length (hGT kN')
    have e3 := congrArg List.length hIT
    have e4 := congrArg List.length hgT
    simp only [List.length_append, List.length_cons, ftoks_length] at e1 e2 e3 e4
    omega
  -- the gap is cut again
  have hslice' : sliceKids Ka gf (f1 + s1.toks.length + (gt - t1)) = .ok ⟨ctxg kN', 0, 0⟩ :=
    gap_slice_inner K Ka gap (ctxg kN') A0 B0 _ gf gt f1 t1 (gt - sN - (2 + fsize kN)) s1.toks hn hna hG'n hgap'
      hLKa (by rw [hGT kN']; simp [List.append_assoc]) (by omega) (by omega) hda hft1 ht1K h h'
      (arith_G gf sN _ _ gt f1 t1 g1 h1 _ _ q1 q2 hszN r1 r2 r4 r5 hG'sz)
  -- validity of the expected result
  have hvdb : C01.Valid S (.elem ty a m Kb) := C01.apply_valid S _ _ _ hv hpvA hb
  have hRdb : S.apply (.replace (preB.length + 1 + g1) (preB.length + 1 + h1) s1 false)
      (.elem ty a m Kb) = .ok (.elem ty a m (ctxb kN')) := by
    simp [Schema.apply, Schema.fromReplace, Schema.replace, hEqb, Except.map]
  have hvdab := C01.apply_valid S (.replace _ _ s1 false) _ _ hvdb hpvR hRdb
  simp only [C01.Valid, checkNode_elem, Bool.and_eq_true] at hvdab
  have hn2 : fnorm (ctxb kN') = true := hLb.ctx_norm hnb kN' hkN'
  have hTeq : f1 + s1.toks.length + (t - t1) = t - fsize kN + fsize kN' :=
    arith_T2 f1 t1 t sN g1 h1 _ _ _ q1 q2 hszN r1 r2 (by omega)
  -- tokens
  have htk : ftoks (ctxb kN') = (ftoks Ka).take f ++ ((Slice.mk I'.content 0 0).toks ++ (Slice.mk [] 0 0).toks)
      ++ (ftoks Ka).drop (f1 + s1.toks.length + (t - t1)) := by
    rw [← hI'cl, hI'T, hGT kN', hTeq, htokb kN', ← hpreB, ← hpostB, hLKa, take_pre A0 _ B0 f (by omega),
      drop_post A0 _ B0 _ (by rw [hWl']; omega), hLK, take_pre A0 _ B0 f (by omega),
      drop_post A0 _ B0 t (by rw [hWl]; omega), hWl, hWl', hA0,
      show t - fsize kN + fsize kN' - sN - (2 + fsize kN') = t - sN - (2 + fsize kN) by omega]
    simp [Slice.toks, List.append_assoc]
  -- alignment
  obtain ⟨alKf, alKt⟩ := replaceKids_aligned S ty K f t I Kb hrA
  have haf : alignedAt Ka f = true :=
    aligned_before_splice K Ka _ f1 t1 f hn hna hda (by rw [ftoks_length]; omega) (by omega) alKf
  have hsame : ∀ i, i ≤ f → (ftoks (ctxb kN'))[i]? = (ftoks Kb)[i]? := by
    intro i hi
    rw [htokb kN', hKb, List.getElem?_append]
    conv => rhs; rw [List.getElem?_append]
    by_cases hlt : i < preB.length
    · rw [if_pos hlt, if_pos hlt]
    · have : i = preB.length := by omega
      rw [if_neg hlt, if_neg hlt, this]
      simp
  have haf2 : alignedAt (ctxb kN') f = true :=
    alignedAt_transfer (ctxb kN') Kb f hn2 hnb (hsame _ (Nat.sub_le _ _)).symm (hsame _ (Nat.le_refl _)).symm hdbal.1
  clear hsame
  -- the right-hand sides
  have R1 : RightRel S Ka (f1 + s1.toks.length + (t - t1)) K t := by
    have := rightRel_after_lvl S hLi (by omega) hn kN' t (by omega) (by omega) alKt
    rw [← hEq, ← hTeq] at this
    exact this
  have R2 : RightRel S Kb (f + I.toks.length) K t :=
    FA.rrel hn hin (.inl hIo1) (by rw [hItl, ← Nat.add_assoc]; exact hdbal.2)
  have hKblen : fsize Kb = f + I.toks.length + (fsize K - t) := FA.size
  have hinsl : ins ≤ sl.toks.length := by
    have := hXl; simp only [List.length_take] at this; omega
  have R3 : RightRel S (ctxb kN') (f + I.toks.length - fsize kN + fsize kN') Kb (f + I.toks.length) :=
    rightRel_after_lvl S hLb (by omega) hnb kN' (f + I.toks.length) (by rw [hItl]; omega) (by omega)
      (by rw [hItl, ← Nat.add_assoc]; exact hdbal.2)
  have hR : RightRel S Ka (f1 + s1.toks.length + (t - t1)) (ctxb kN')
      (f + (Slice.mk I'.content 0 0).toks.length + (Slice.mk ([] : List Node) 0 0).toks.length) := by
    have := R1.trans htr (R2.symm.trans htr R3.symm)
    rw [← hI'cl]
    rw [hItl] at this
    have e : f + (sl.toks.length + (gt - gf)) - fsize kN + fsize kN' =
        f + I'.toks.length + (Slice.mk ([] : List Node) 0 0).toks.length := by
      have e0 : (Slice.mk ([] : List Node) 0 0).toks.length = 0 := by rw [Slice.toks_closed]; rfl
      rw [e0]; exact arith_e f _ _ _ _ hI'tl (by omega)
    rw [← e]; exact this
  -- depths
  have hdb : depthAt Ka f - 0 + 0 = depthAt Ka (f1 + s1.toks.length + (t - t1)) := by
    have d1 : depthAt Ka f = depthAt K f :=
      depthAt_of_take_eq K Ka f (by omega) (by omega)
        (by rw [hLKa, hLK, take_pre A0 _ B0 f (by omega), take_pre A0 _ B0 f (by omega)])
    have d2 := R1.depth
    have d3 := FA.depths
    rw [hIo1, hIo2] at d3
    omega
  have hmerged := replaceKids_merged S ty Ka (ctxb kN') f (f1 + s1.toks.length + (t - t1)) I'.content [] 0 0
    hna hvdab.1.1 hvdab.2 hn2 hI'n (by simp [fnorm, fnormKids, chainOk]) (Nat.zero_le _) (Nat.zero_le _)
    (by omega) (by omega) htk haf haf2 hR (Nat.zero_le _) hdb (lcompat_zero S _ _ _ _)
  have hfr : S.fromReplace (.elem ty a m Ka) f (f1 + s1.toks.length + (t - t1)) I' =
      .ok (.elem ty a m (ctxb kN')) := by
    have e : (Slice.mk (fappend I'.content []) 0 0) = I' := by rw [hI'cl]; rfl
    rw [e] at hmerged
    simp [Schema.fromReplace, Schema.replace, hmerged, Except.map]
  -- the rebased steps
  obtain ⟨hs1l, _⟩ := Slice.toks_length_of_wf_ex s1 hwf1
  obtain ⟨eA, eR⟩ := (rebase_around_separated f t gf gt ins f1 t1 sl s1 st b1 hgo hft1).2.1 h h'
  have nT := arith_shift t t1 f1 s1.toks.length s1.size hs1l hft1 (by omega)
  have nG := arith_shift gt t1 f1 s1.toks.length s1.size hs1l hft1 h'
  have nF := arith_in f1 ins gf f sN g1 preB.length q1 hpreBl r4 hgo.1
  have nF2 := arith_in t1 ins gf f sN h1 preB.length q2 hpreBl r4 hgo.1
  rw [nT, nG] at eA
  rw [nF, nF2] at eR
  refine ⟨_, _, .elem ty a m (ctxb kN'), eA, eR, ?_, hRdb⟩
  have hst : st = true →
      contentBetween (.elem ty a m Ka) f gf = some false ∧
      contentBetween (.elem ty a m Ka) (f1 + s1.toks.length + (gt - t1)) (f1 + s1.toks.length + (t - t1)) = some false := by
    intro hstt
    subst hstt
    exact struct_checks_again (.elem ty a m K) (.elem ty a m Ka) f t gf gt f _ gf _ hn hna hgo (by simp only [Node.kids]; exact hl)
      (by simp only [Node.kids]; omega) (by omega) (arith_e2 _ gt t t1 h' hgo.2.2) (by omega)
      (by simp only [Node.kids]; rw [hda]
          exact splice_window_before _ _ f1 t1 f _ (by omega) (by rw [ftoks_length]; omega))
      (by simp only [Node.kids]; rw [hda]
          exact splice_window_after _ _ f1 t1 gt _ hft1 (by omega) (by rw [ftoks_length]; omega))
      (apply_replaceAround_struct S _ _ f t gf gt sl ins hb)
  exact around_applies_of_parts S _ _ f _ gf _ sl ins st ⟨ctxg kN', 0, 0⟩ I' hslice' rfl rfl hI' hfr hst


/-- **two replace-around steps, the second one strictly inside the kept gap of the first one and inside an element node
    of the gap content** (`gapGuard` on `(from', to', slice')`; first step's slice closed): the second step is the plain
    replace by its filled slice, `commute_succeeds_around_gap` applies to it, and the rebased replace is the second
    step again because its whole range moved unchanged (`around_again_window`) -/
theorem commute_succeeds_around_around_gap (S : Schema) (htr : compatTransB S = true) (d da db : Node)
    (f t gf gt ins f' t' gf' gt' ins' : Nat) (sl sl' : Slice) (st st' : Bool)
    (hv : C01.Valid S d) (hpvA : C01.PayloadValid S d (.replaceAround f t gf gt sl ins st))
    (hpvB : C01.PayloadValid S d (.replaceAround f' t' gf' gt' sl' ins' st'))
    (hn : fnorm d.kids = true) (hsn : fnorm sl.content = true) (hsn' : fnorm sl'.content = true)
    (hs : AroundShape f t gf gt sl ins) (hs' : AroundShape f' t' gf' gt' sl' ins')
    (hcl : sl.openStart = 0 ∧ sl.openEnd = 0) (h : gf < f') (h' : t' < gt)
    (ha : S.apply (.replaceAround f t gf gt sl ins st) d = .ok da)
    (hb : S.apply (.replaceAround f' t' gf' gt' sl' ins' st') d = .ok db)
    (hdaal : alignedAt da.kids f = true ∧ alignedAt da.kids (f + sl.toks.length + (gt - gf)) = true)
    (hg : gapGuard d.kids gf gt f' t' sl' = true) :
    ∃ A' B' dab,
      (Step.replaceAround f t gf gt sl ins st).map
        (Step.replaceAround f' t' gf' gt' sl' ins' st').getMap = some A' ∧
      (Step.replaceAround f' t' gf' gt' sl' ins' st').map
        (Step.replaceAround f t gf gt sl ins st).getMap = some B' ∧
      S.apply B' da = .ok dab ∧ S.apply A' db = .ok dab := by
  obtain ⟨gapB, IB, hgapB, ho1, ho2, hinstB, hb2, hioB, hinB, hiszB, hlB⟩ :=
    around_as_replace S d db f' t' gf' gt' ins' sl' st' hn hsn' hs' hb
  have hgo := hs.2.2
  have hgo' := hs'.2.2
  have hpayB : openValid S IB.openStart IB.openEnd IB.content = true := hpvB gapB IB hgapB hinstB
  have hg' : gapGuard d.kids gf gt f' t' IB = true := by
    unfold gapGuard at hg ⊢; rw [hioB]; exact hg
  obtain ⟨A', R', dab, eA, eR, hA'db, hR'da⟩ := commute_succeeds_around_gap S htr d db da f t gf gt ins f' t' sl IB st
    false hv hpvA hpayB hn hinB hsn hs hcl h h' hb2 ha hdaal hg'
  obtain ⟨eA2, eR2⟩ := (rebase_around_separated f t gf gt ins f' t' sl IB st false hgo (by omega)).2.1 h h'
  obtain ⟨eA3, eB3⟩ := (rebase_around_around f t gf gt ins f' t' gf' gt' ins' sl sl' st st' hgo hgo').2 h h'
  rw [eA2] at eA; rw [eR2] at eR
  simp only [Option.some.injEq] at eA eR
  subst eA eR
  have eqT : ∀ x : Nat, ((x : Int) + (IB.size - ((t' : Int) - f'))).toNat =
      ((x : Int) + (((ins' : Int) - ((gf' : Int) - f')) + (sl'.size - ins' - ((t' : Int) - gt')))).toNat := by
    intro x; congr 1; omega
  rw [eqT t, eqT gt] at hA'db
  refine ⟨_, _, dab, eA3, eB3, ?_, hA'db⟩
  -- the second step on `da`: its range moved unchanged
  obtain ⟨hdaL, hl, hXl, _⟩ := apply_around_aroundL S d da f t gf gt sl ins st hs ha
  have hna : fnorm da.kids = true := by
    obtain ⟨gap, I, hgap, _, _, hinst, ha2, hio, hin, hisz, _⟩ :=
      around_as_replace S d da f t gf gt ins sl st hn hsn hs ha
    exact apply_replace_norm S d da f t I false hn hin ha2
  have hfr := apply_replace_fromReplace S da dab _ _ IB false hR'da
  have np' : ∀ x : Nat, f' ≤ x → ((x : Int) + ((ins : Int) - ((gf : Int) - f))).toNat = f + ins + (f' - gf) + (x - f') := by
    intro x hx; omega
  rw [np' f' (Nat.le_refl _), np' t' (by omega), Nat.sub_self, Nat.add_zero] at hfr
  rw [np' f' (Nat.le_refl _), np' t' (by omega), np' gf' (by omega), np' gt' (by omega), Nat.sub_self, Nat.add_zero]
  have hlenda : (ftoks da.kids).length = f + ins + (gt - gf) + (sl.toks.drop ins).length + ((ftoks d.kids).length - t) := by
    rw [hdaL, aroundL_length _ _ _ _ _ _ _ hgo hl, hXl]
  have hw := aroundL_window_gap (ftoks d.kids) (sl.toks.take ins) (sl.toks.drop ins) f gf gt t (f' - gf) (t' - f')
    hgo hl (by omega)
  rw [hXl, ← hdaL, show gf + (f' - gf) = f' by omega] at hw
  have htokda : ∀ x, gf < x → x < gt → (ftoks da.kids)[f + ins + (x - gf) - 1]? = (ftoks d.kids)[x - 1]? ∧
      (ftoks da.kids)[f + ins + (x - gf)]? = (ftoks d.kids)[x]? := by
    intro x hp1 hp2
    have g1 := aroundL_getElem?_gap (ftoks d.kids) (sl.toks.take ins) (sl.toks.drop ins) f gf gt t (x - gf - 1) hgo hl (by omega)
    have g2 := aroundL_getElem?_gap (ftoks d.kids) (sl.toks.take ins) (sl.toks.drop ins) f gf gt t (x - gf) hgo hl (by omega)
    rw [hXl] at g1 g2
    rw [hdaL]
    constructor
    · rw [show f + ins + (x - gf) - 1 = f + ins + (x - gf - 1) by omega, g1]; congr 1; omega
    · rw [g2]; congr 1; omega
  have := around_again_window S d da db dab f' t' gf' gt' ins' (f + ins + (f' - gf)) sl' st' gapB IB hn hna hgo' hlB
    (by rw [hlenda]; omega) hw
    (fun hlt => by
      obtain ⟨al1, al2⟩ := sliceKids_aligned d.kids gf' gt' gapB hlt hgapB
      constructor
      · rw [show f + ins + (f' - gf) + (gf' - f') = f + ins + (gf' - gf) by omega]
        exact alignedAt_shift da.kids d.kids _ gf' hna hn (by omega) (by omega) (htokda gf' (by omega) (by omega)).1
          (htokda gf' (by omega) (by omega)).2 al1
      · rw [show f + ins + (f' - gf) + (gt' - f') = f + ins + (gt' - gf) by omega]
        exact alignedAt_shift da.kids d.kids _ gt' hna hn (by omega) (by omega) (htokda gt' (by omega) (by omega)).1
          (htokda gt' (by omega) (by omega)).2 al2)
    hb hgapB ho1 ho2 hinstB hfr
  exact this

/-- **an attr / remove-node-mark step strictly before a replace-around step with a closed slice: no `commuteGuard`**
    (valid document and payload, `compatTransB`, the ends of the filled slice pair-aligned in `da`) -/
theorem commute_succeeds_around_nodeStep_before_closed (S : Schema) (htr : compatTransB S = true) (d da db : Node)
    (f t gf gt ins : Nat) (sl : Slice) (st : Bool) (pos : Nat) (N : Step)
    (hN' : (∃ m, N = .removeNodeMark pos m) ∨ (∃ nm v, N = .attr pos nm v))
    (hv : C01.Valid S d) (hpv : C01.PayloadValid S d (.replaceAround f t gf gt sl ins st))
    (hn : fnorm d.kids = true) (hsn : fnorm sl.content = true)
    (hs : AroundShape f t gf gt sl ins) (hcl : sl.openStart = 0 ∧ sl.openEnd = 0) (hsep : pos + 1 < f)
    (ha : S.apply (.replaceAround f t gf gt sl ins st) d = .ok da) (hb : S.apply N d = .ok db)
    (hdaal : alignedAt da.kids f = true ∧ alignedAt da.kids (f + sl.toks.length + (gt - gf)) = true) :
    ∃ dab, N.map (Step.replaceAround f t gf gt sl ins st).getMap = some N ∧
      (Step.replaceAround f t gf gt sl ins st).map N.getMap = some (.replaceAround f t gf gt sl ins st) ∧
      S.apply N da = .ok dab ∧ S.apply (.replaceAround f t gf gt sl ins st) db = .ok dab := by
  have htr := compatTrans_of_B S htr
  have hN : NodeStepAt pos N := by
    rcases hN' with ⟨m, rfl⟩ | ⟨nm, v, rfl⟩
    · exact .inr (.inl ⟨m, rfl⟩)
    · exact .inr (.inr ⟨nm, v, rfl⟩)
  have hsp : N.posSpan = some (pos, pos) := by
    rcases hN with ⟨m, rfl⟩ | ⟨m, rfl⟩ | ⟨n, v, rfl⟩ <;> rfl
  have hto : N.touch = some (pos, pos + 1) := by
    rcases hN with ⟨m, rfl⟩ | ⟨m, rfl⟩ | ⟨n, v, rfl⟩ <;> rfl
  obtain ⟨n, u, hnat, hu, hfrN⟩ := nodeStep_full S d db pos N hN hb
  obtain ⟨hposlt, hdbT, htok, _, _, _, _⟩ := nodeRepl_toks S d db n u pos _ _ hnat hu hfrN
  obtain ⟨hsz, hun⟩ := nodeSlice_facts S n u _ _ hu
  obtain ⟨hre, _⟩ := recreate_remarked S n u _ _ hu
  have hnt : n.isText = false := by
    cases n with
    | text s m => simp [Schema.recreate] at hu
    | leaf => rfl
    | elem => rfl
  have hb2 : S.apply (.replace pos (pos + 1) ⟨[u], 0, if n.isLeaf then 0 else 1⟩ false) d = .ok db := by
    simpa [Schema.apply] using hfrN
  obtain ⟨gap, I, hgap, ho1, ho2, hinst, ha2, hio, hin, hisz, hl⟩ :=
    around_as_replace S d da f t gf gt ins sl st hn hsn hs ha
  obtain ⟨hwf, hins, hgo⟩ := id hs
  have hnb := apply_replace_norm S d db pos (pos + 1) _ false hn hun hb2
  have hna := apply_replace_norm S d da f t I false hn hin ha2
  obtain ⟨hda, _, _, hleni⟩ := apply_replace_splice S d da f t I false ha2
  -- the documents as child lists
  obtain ⟨ty, a, m, K, Ka, rfl, rfl, hrA⟩ := fromReplace_parts S d da f t I
    (apply_replace_fromReplace S _ _ _ _ _ false ha2)
  have hvd := hv
  simp only [C01.Valid, checkNode_elem, Bool.and_eq_true] at hvd
  simp only [Node.kids] at hn hna hda hl hdaal hnat hposlt htok
  have hdbeq : db = .elem ty a m (remarkAt K pos u) := by
    have := fromReplace_node S ty a m K pos n u hv hn hnat hre
    rw [hfrN] at this
    split at this
    · simpa using this
    · simp at this
  subst hdbeq
  simp only [Node.kids] at hnb hdbT
  -- the node step on `da`
  have hvda : S.checkNode (.elem ty a m Ka) = true := C01.apply_valid S _ _ _ hv hpv ha
  have hp : pos < (ftoks K).length := by rw [ftoks_length]; exact hposlt
  have htok' : (ftoks Ka)[pos]? = some n.headTok := by
    rw [hda]; unfold splice
    rw [splice_getElem? _ _ _ _ _ (by omega), if_pos (by omega), List.getElem?_eq_getElem hp]
    rw [List.getD_eq_getElem?_getD, List.getElem?_eq_getElem hp] at htok
    simpa using htok
  obtain ⟨n', hnat', hhd, hnt'⟩ := nodeAtKids_of_head Ka pos n.headTok (fnormKids_of_fnorm hna) htok'
    (by cases n <;> simp [Node.headTok, Node.isText] at hnt ⊢)
    (by intro c mm; cases n <;> simp [Node.headTok, Node.isText] at hnt ⊢)
  obtain ⟨e1, e2, e3, e4⟩ := recreate_congr_head S n n' (stepAttrs N n.attrs) (stepMarks S N n.marks) hhd hnt hnt'
  have hu' : S.recreate n' (stepAttrs N n'.attrs) (stepMarks S N n'.marks) = .ok u := by
    rw [e2, e3, e1]; exact hu
  obtain ⟨hre', _⟩ := recreate_remarked S n' u _ _ hu'
  have hNda : S.apply N (.elem ty a m Ka) = .ok (.elem ty a m (remarkAt Ka pos u)) := by
    rcases hN' with ⟨mk, rfl⟩ | ⟨nm, v, rfl⟩
    · exact removeNodeMark_applies S ty a m Ka pos mk n' u hvda hna hnat' hu'
    · exact attrStep_applies S ty a m Ka pos nm v n' u hvda hna hnat' hu'
  have hnat'' : (Node.elem ty a m Ka).nodeAt pos = .ok (some n') := hnat'
  have hvdab := C01.apply_valid S N _ _ hvda
    (by rcases hN' with ⟨mk, rfl⟩ | ⟨nm, v, rfl⟩ <;> exact trivial) hNda
  simp only [C01.Valid, checkNode_elem, Bool.and_eq_true] at hvdab
  obtain ⟨_, hdabT, _, _, _, _, _⟩ := nodeRepl_toks S (.elem ty a m Ka) _ n' u pos _ _ hnat'' hu'
    (by rw [← nodeStep_apply_of S (.elem ty a m Ka) n' u pos N hN hnat'' hu']; exact hNda)
  simp only [Node.kids] at hdabT
  have hn2 : fnorm (remarkAt Ka pos u) = true := by
    have hb3 : S.apply (.replace pos (pos + 1) ⟨[u], 0, if n'.isLeaf then 0 else 1⟩ false) (.elem ty a m Ka) =
        .ok (.elem ty a m (remarkAt Ka pos u)) := by
      rw [← hNda, nodeStep_apply_of S (.elem ty a m Ka) n' u pos N hN hnat'' hu']; simp [Schema.apply]
    exact apply_replace_norm S (.elem ty a m Ka) _ pos (pos + 1) _ false hna hun hb3
  -- the replace of `[from, to)` on `db`, target `dab`
  have FA := fwdFacts S ty K Ka f t I hrA
  have hIo1 : I.openStart = 0 := by rw [hio]; exact hcl.1
  have hIo2 : I.openEnd = 0 := by
    rw [(insertAt_toks S sl I ins gap.content hwf hins hinst).2.2]; exact hcl.2
  have hIcl : I = ⟨I.content, 0, 0⟩ := by cases I; simp at hIo1 hIo2; simp [hIo1, hIo2]
  have hItl : I.toks.length = sl.toks.length + (gt - gf) := by
    obtain ⟨e2, _⟩ := Slice.toks_length_of_wf_ex sl hwf
    omega
  obtain ⟨alKf, alKt⟩ := replaceKids_aligned S ty K f t I Ka hrA
  obtain ⟨hszb, _⟩ := mapNodeAt_spec K pos n hnat hre
  obtain ⟨hszab, _⟩ := mapNodeAt_spec Ka pos n' hnat' hre'
  have hKalen : fsize Ka = f + I.toks.length + (fsize K - t) := FA.size
  have hsameb : ∀ i, pos < i → (ftoks (remarkAt K pos u))[i]? = (ftoks K)[i]? := by
    intro i hi
    rw [hdbT, List.append_assoc, List.getElem?_append_right (by simp; omega)]
    simp only [List.length_take]
    rw [Nat.min_eq_left (by omega), List.singleton_append, List.getElem?_cons,
      if_neg (by omega), List.getElem?_drop]
    congr 1; omega
  have hsameab : ∀ i, pos < i → (ftoks (remarkAt Ka pos u))[i]? = (ftoks Ka)[i]? := by
    intro i hi
    have hpa : pos < (ftoks Ka).length := by rw [ftoks_length, hKalen]; omega
    rw [hdabT, List.append_assoc, List.getElem?_append_right (by simp; omega)]
    simp only [List.length_take]
    rw [Nat.min_eq_left (by omega), List.singleton_append, List.getElem?_cons,
      if_neg (by omega), List.getElem?_drop]
    congr 1; omega
  have haf : alignedAt (remarkAt K pos u) f = true :=
    alignedAt_transfer _ K f hnb hn (hsameb _ (by omega)).symm (hsameb _ (by omega)).symm alKf
  have haf2 : alignedAt (remarkAt Ka pos u) f = true :=
    alignedAt_transfer _ Ka f hn2 hna (hsameab _ (by omega)).symm (hsameab _ (by omega)).symm hdaal.1
  have hl' : t ≤ fsize K := by rw [← ftoks_length]; exact hl
  have R1 := rightRel_remarkAt_before S K pos n hnat hre (fnormKids_of_fnorm hn) t (by omega) (by omega) alKt
  have R1f := rightRel_remarkAt_before S K pos n hnat hre (fnormKids_of_fnorm hn) f (by omega) (by omega) alKf
  have R2 : RightRel S Ka (f + I.toks.length) K t :=
    FA.rrel hn hin (.inl hIo1) (by rw [hItl, ← Nat.add_assoc]; exact hdaal.2)
  have R3 := rightRel_remarkAt_before S Ka pos n' hnat' hre' (fnormKids_of_fnorm hna) (f + I.toks.length)
    (by omega) (by omega) (by rw [hItl, ← Nat.add_assoc]; exact hdaal.2)
  have hR : RightRel S (remarkAt K pos u) t (remarkAt Ka pos u)
      (f + (Slice.mk I.content 0 0).toks.length + (Slice.mk ([] : List Node) 0 0).toks.length) := by
    have e0 : (Slice.mk ([] : List Node) 0 0).toks.length = 0 := by rw [Slice.toks_closed]; rfl
    rw [← hIcl, e0, Nat.add_zero]
    exact R1.trans htr (R2.symm.trans htr R3.symm)
  have hdb : depthAt (remarkAt K pos u) f - 0 + 0 = depthAt (remarkAt K pos u) t := by
    have d1 := R1.depth
    have d2 := R1f.depth
    have d3 := FA.depths
    rw [hIo1, hIo2] at d3
    omega
  have htk : ftoks (remarkAt Ka pos u) = (ftoks (remarkAt K pos u)).take f ++
      ((Slice.mk I.content 0 0).toks ++ (Slice.mk [] 0 0).toks) ++ (ftoks (remarkAt K pos u)).drop t := by
    have e0 : (Slice.mk ([] : List Node) 0 0).toks = [] := by rw [Slice.toks_closed]; rfl
    rw [← hIcl, e0, List.append_nil, hdabT, hdbT, hda]
    unfold splice
    have h1 := splice_before (ftoks K) [u.headTok] I.toks pos (pos + 1) f t (by omega) (by omega) (by omega)
      (by omega)
    have h2 := splice_after (ftoks K) [u.headTok] I.toks pos (pos + 1) f t 1 (by omega) (by omega) (by omega)
      (by omega) rfl
    rw [show pos + 1 + (f - (pos + 1)) = f by omega, show pos + 1 + (t - (pos + 1)) = t by omega] at h2
    rw [h1, h2]
  have hmerged := replaceKids_merged S ty (remarkAt K pos u) (remarkAt Ka pos u) f t I.content [] 0 0
    hnb hvdab.1.1 hvdab.2 hn2 hin (by simp [fnorm, fnormKids, chainOk]) (Nat.zero_le _) (Nat.zero_le _)
    (by omega) (by omega) htk haf haf2 hR (Nat.zero_le _) hdb (lcompat_zero S _ _ _ _)
  have hfr : S.fromReplace (.elem ty a m (remarkAt K pos u)) f t I = .ok (.elem ty a m (remarkAt Ka pos u)) := by
    have e : (Slice.mk (fappend I.content []) 0 0) = I := by rw [hIcl]; rfl
    rw [e] at hmerged
    simp [Schema.fromReplace, Schema.replace, hmerged, Except.map]
  refine ⟨_, ?_, ?_, hNda, ?_⟩
  · exact (rebase_markup_not_dropped_around N pos pos hsp (Nat.le_refl _) f t gf gt sl ins st hgo).1 (by omega)
  · rw [getMap_of_touch N pos (pos + 1) hto]
    exact replaceAround_map_empty f t gf gt sl ins st ⟨hgo.1, hgo.2.2⟩
  · have hdbS : ftoks (Node.elem ty a m (remarkAt K pos u)).kids =
        splice (ftoks (Node.elem ty a m K).kids) pos (pos + 1) [u.headTok] := by
      simp only [Node.kids]; rw [hdbT]; rfl
    have := around_again_shifted S (.elem ty a m K) (.elem ty a m (remarkAt K pos u)) (.elem ty a m Ka) _ f t gf gt ins
      pos (pos + 1) sl [u.headTok] st gap I hn hnb hgo hsep (by omega) hl hdbS ha hgap ho1 ho2 hinst
      (by simp only [List.length_singleton]
          rw [show pos + 1 + (f - (pos + 1)) = f by omega, show pos + 1 + (t - (pos + 1)) = t by omega]; exact hfr)
    simp only [List.length_singleton] at this
    rwa [show pos + 1 + (f - (pos + 1)) = f by omega, show pos + 1 + (t - (pos + 1)) = t by omega,
      show pos + 1 + (gf - (pos + 1)) = gf by omega, show pos + 1 + (gt - (pos + 1)) = gt by omega] at this

/-- **an attr / remove-node-mark step strictly after a replace-around step with a closed slice: no `commuteGuard`** -/
theorem commute_succeeds_around_nodeStep_after_closed (S : Schema) (htr : compatTransB S = true) (d da db : Node)
    (f t gf gt ins : Nat) (sl : Slice) (st : Bool) (pos : Nat) (N : Step)
    (hN' : (∃ m, N = .removeNodeMark pos m) ∨ (∃ nm v, N = .attr pos nm v))
    (hv : C01.Valid S d) (hpv : C01.PayloadValid S d (.replaceAround f t gf gt sl ins st))
    (hn : fnorm d.kids = true) (hsn : fnorm sl.content = true)
    (hs : AroundShape f t gf gt sl ins) (hcl : sl.openStart = 0 ∧ sl.openEnd = 0) (hsep : t < pos)
    (ha : S.apply (.replaceAround f t gf gt sl ins st) d = .ok da) (hb : S.apply N d = .ok db)
    (hdaal : alignedAt da.kids f = true ∧ alignedAt da.kids (f + sl.toks.length + (gt - gf)) = true) :
    ∃ N' dab, N.map (Step.replaceAround f t gf gt sl ins st).getMap = some N' ∧
      (Step.replaceAround f t gf gt sl ins st).map N.getMap = some (.replaceAround f t gf gt sl ins st) ∧
      S.apply N' da = .ok dab ∧ S.apply (.replaceAround f t gf gt sl ins st) db = .ok dab := by
  have htr := compatTrans_of_B S htr
  have hN : NodeStepAt pos N := by
    rcases hN' with ⟨m, rfl⟩ | ⟨nm, v, rfl⟩
    · exact .inr (.inl ⟨m, rfl⟩)
    · exact .inr (.inr ⟨nm, v, rfl⟩)
  have hsp : N.posSpan = some (pos, pos) := by
    rcases hN with ⟨m, rfl⟩ | ⟨m, rfl⟩ | ⟨n, v, rfl⟩ <;> rfl
  have hto : N.touch = some (pos, pos + 1) := by
    rcases hN with ⟨m, rfl⟩ | ⟨m, rfl⟩ | ⟨n, v, rfl⟩ <;> rfl
  obtain ⟨n, u, hnat, hu, hfrN⟩ := nodeStep_full S d db pos N hN hb
  obtain ⟨hposlt, hdbT, htok, _, _, _, _⟩ := nodeRepl_toks S d db n u pos _ _ hnat hu hfrN
  obtain ⟨hsz, hun⟩ := nodeSlice_facts S n u _ _ hu
  obtain ⟨hre, _⟩ := recreate_remarked S n u _ _ hu
  have hnt : n.isText = false := by
    cases n with
    | text s m => simp [Schema.recreate] at hu
    | leaf => rfl
    | elem => rfl
  have hb2 : S.apply (.replace pos (pos + 1) ⟨[u], 0, if n.isLeaf then 0 else 1⟩ false) d = .ok db := by
    simpa [Schema.apply] using hfrN
  obtain ⟨gap, I, hgap, ho1, ho2, hinst, ha2, hio, hin, hisz, hl⟩ :=
    around_as_replace S d da f t gf gt ins sl st hn hsn hs ha
  obtain ⟨hwf, hins, hgo⟩ := id hs
  have hnb := apply_replace_norm S d db pos (pos + 1) _ false hn hun hb2
  have hna := apply_replace_norm S d da f t I false hn hin ha2
  obtain ⟨hda, _, _, hleni⟩ := apply_replace_splice S d da f t I false ha2
  obtain ⟨ty, a, m, K, Ka, rfl, rfl, hrA⟩ := fromReplace_parts S d da f t I
    (apply_replace_fromReplace S _ _ _ _ _ false ha2)
  simp only [Node.kids] at hn hna hda hl hdaal hnat hposlt htok
  have hdbeq : db = .elem ty a m (remarkAt K pos u) := by
    have := fromReplace_node S ty a m K pos n u hv hn hnat hre
    rw [hfrN] at this
    split at this
    · simpa using this
    · simp at this
  subst hdbeq
  simp only [Node.kids] at hnb hdbT
  have FA := fwdFacts S ty K Ka f t I hrA
  have hKalen : fsize Ka = f + I.toks.length + (fsize K - t) := FA.size
  have hl' : t ≤ fsize K := by rw [← ftoks_length]; exact hl
  -- the rebased node step
  have hmap := (rebase_markup_not_dropped_around N pos pos hsp (Nat.le_refl _) f t gf gt sl ins st hgo).2.2 hsep
  generalize hgdef : (fun p : Nat => ((p : Int) + ((ins : Int) - ((gf : Int) - f)) +
    (sl.size - ins - ((t : Int) - gt))).toNat) = g at hmap
  have hgpos : g pos = f + I.toks.length + (pos - t) := by
    rw [← hgdef]; show ((pos : Int) + ((ins : Int) - ((gf : Int) - f)) + (sl.size - ins - ((t : Int) - gt))).toNat = _
    omega
  obtain ⟨c1, c2, c3⟩ := stepAttrs_mapPos N g pos hN
  rw [hgpos] at c3
  -- the node step on `da`
  have hvda : S.checkNode (.elem ty a m Ka) = true := C01.apply_valid S _ _ _ hv hpv ha
  have hp : pos < (ftoks K).length := by rw [ftoks_length]; exact hposlt
  have htok' : (ftoks Ka)[f + I.toks.length + (pos - t)]? = some n.headTok := by
    have := splice_window_after (ftoks K) I.toks f t pos 1 (by omega) (by omega) (by omega)
    rw [← hda] at this
    have h0 := congrArg (fun l => l[0]?) this
    simp only [List.getElem?_take_of_lt (Nat.zero_lt_one), List.getElem?_drop, Nat.add_zero] at h0
    rw [h0, List.getElem?_eq_getElem hp]
    rw [List.getD_eq_getElem?_getD, List.getElem?_eq_getElem hp] at htok
    simpa using htok
  obtain ⟨n', hnat', hhd, hnt'⟩ := nodeAtKids_of_head Ka _ n.headTok (fnormKids_of_fnorm hna) htok'
    (by cases n <;> simp [Node.headTok, Node.isText] at hnt ⊢)
    (by intro c mm; cases n <;> simp [Node.headTok, Node.isText] at hnt ⊢)
  obtain ⟨e1, e2, e3, e4⟩ := recreate_congr_head S n n' (stepAttrs N n.attrs) (stepMarks S N n.marks) hhd hnt hnt'
  have hu' : S.recreate n' (stepAttrs (N.mapPos g) n'.attrs) (stepMarks S (N.mapPos g) n'.marks) = .ok u := by
    rw [c1, c2 S, e2, e3, e1]; exact hu
  obtain ⟨hre', _⟩ := recreate_remarked S n' u _ _ hu'
  have hNg : (∃ mk, N.mapPos g = .removeNodeMark (f + I.toks.length + (pos - t)) mk) ∨
      (∃ nm v, N.mapPos g = .attr (f + I.toks.length + (pos - t)) nm v) := by
    rcases hN' with ⟨mk, rfl⟩ | ⟨nm, v, rfl⟩
    · exact .inl ⟨mk, by simp [Step.mapPos, hgpos]⟩
    · exact .inr ⟨nm, v, by simp [Step.mapPos, hgpos]⟩
  have hNda : S.apply (N.mapPos g) (.elem ty a m Ka) =
      .ok (.elem ty a m (remarkAt Ka (f + I.toks.length + (pos - t)) u)) := by
    rcases hNg with ⟨mk, e⟩ | ⟨nm, v, e⟩
    · rw [e] at hu' ⊢
      exact removeNodeMark_applies S ty a m Ka _ mk n' u hvda hna hnat' hu'
    · rw [e] at hu' ⊢
      exact attrStep_applies S ty a m Ka _ nm v n' u hvda hna hnat' hu'
  have hnat'' : (Node.elem ty a m Ka).nodeAt (f + I.toks.length + (pos - t)) = .ok (some n') := hnat'
  have hvdab := C01.apply_valid S (N.mapPos g) _ _ hvda
    (by rcases hNg with ⟨mk, e⟩ | ⟨nm, v, e⟩ <;> rw [e] <;> exact trivial) hNda
  simp only [C01.Valid, checkNode_elem, Bool.and_eq_true] at hvdab
  obtain ⟨_, hdabT, _, _, _, _, _⟩ := nodeRepl_toks S (.elem ty a m Ka) _ n' u _ _ _ hnat'' hu'
    (by rw [← nodeStep_apply_of S (.elem ty a m Ka) n' u _ (N.mapPos g) c3 hnat'' hu']; exact hNda)
  simp only [Node.kids] at hdabT
  have hn2 : fnorm (remarkAt Ka (f + I.toks.length + (pos - t)) u) = true := by
    have hb3 : S.apply (.replace (f + I.toks.length + (pos - t)) (f + I.toks.length + (pos - t) + 1)
        ⟨[u], 0, if n'.isLeaf then 0 else 1⟩ false) (.elem ty a m Ka) =
        .ok (.elem ty a m (remarkAt Ka (f + I.toks.length + (pos - t)) u)) := by
      rw [← hNda, nodeStep_apply_of S (.elem ty a m Ka) n' u _ (N.mapPos g) c3 hnat'' hu']; simp [Schema.apply]
    exact apply_replace_norm S (.elem ty a m Ka) _ _ _ _ false hna hun hb3
  -- the replace of `[from, to)` on `db`, target `dab`
  have hIo1 : I.openStart = 0 := by rw [hio]; exact hcl.1
  have hIo2 : I.openEnd = 0 := by
    rw [(insertAt_toks S sl I ins gap.content hwf hins hinst).2.2]; exact hcl.2
  have hIcl : I = ⟨I.content, 0, 0⟩ := by cases I; simp at hIo1 hIo2; simp [hIo1, hIo2]
  have hItl : I.toks.length = sl.toks.length + (gt - gf) := by
    obtain ⟨e2, _⟩ := Slice.toks_length_of_wf_ex sl hwf
    omega
  obtain ⟨alKf, alKt⟩ := replaceKids_aligned S ty K f t I Ka hrA
  obtain ⟨hszb, _⟩ := mapNodeAt_spec K pos n hnat hre
  have hsameb : ∀ i, i < pos → (ftoks (remarkAt K pos u))[i]? = (ftoks K)[i]? := by
    intro i hi
    rw [hdbT, List.append_assoc, List.getElem?_append_left (by simp; omega), List.getElem?_take_of_lt hi]
  have hsameab : ∀ i, i < f + I.toks.length + (pos - t) →
      (ftoks (remarkAt Ka (f + I.toks.length + (pos - t)) u))[i]? = (ftoks Ka)[i]? := by
    intro i hi
    have hpa : f + I.toks.length + (pos - t) < (ftoks Ka).length := by rw [ftoks_length, hKalen]; omega
    rw [hdabT, List.append_assoc, List.getElem?_append_left (by simp; omega), List.getElem?_take_of_lt hi]
  have haf : alignedAt (remarkAt K pos u) f = true :=
    alignedAt_transfer _ K f hnb hn (hsameb _ (by omega)).symm (hsameb _ (by omega)).symm alKf
  have haf2 : alignedAt (remarkAt Ka (f + I.toks.length + (pos - t)) u) f = true :=
    alignedAt_transfer _ Ka f hn2 hna (hsameab _ (by omega)).symm (hsameab _ (by omega)).symm hdaal.1
  have R2 : RightRel S Ka (f + I.toks.length) K t :=
    FA.rrel hn hin (.inl hIo1) (by rw [hItl, ← Nat.add_assoc]; exact hdaal.2)
  have R3 := rightRel_remark S R2 pos (f + I.toks.length + (pos - t)) n n' hn hna (by omega) (by omega) (by omega)
    hnat hnat' hre hre'
  have hR : RightRel S (remarkAt K pos u) t (remarkAt Ka (f + I.toks.length + (pos - t)) u)
      (f + (Slice.mk I.content 0 0).toks.length + (Slice.mk ([] : List Node) 0 0).toks.length) := by
    have e0 : (Slice.mk ([] : List Node) 0 0).toks.length = 0 := by rw [Slice.toks_closed]; rfl
    rw [← hIcl, e0, Nat.add_zero]
    exact R3.symm
  have htake : ∀ q, q ≤ pos → (ftoks (remarkAt K pos u)).take q = (ftoks K).take q := by
    intro q hq
    rw [hdbT, List.append_assoc, List.take_append_of_le_length (by simp; omega), List.take_take,
      Nat.min_eq_left hq]
  have hdb : depthAt (remarkAt K pos u) f - 0 + 0 = depthAt (remarkAt K pos u) t := by
    have d1 := depthAt_of_take_eq K (remarkAt K pos u) f (by omega) (by omega) (htake f (by omega))
    have d2 := depthAt_of_take_eq K (remarkAt K pos u) t (by omega) (by omega) (htake t (by omega))
    have d3 := FA.depths
    rw [hIo1, hIo2] at d3
    omega
  have htk : ftoks (remarkAt Ka (f + I.toks.length + (pos - t)) u) = (ftoks (remarkAt K pos u)).take f ++
      ((Slice.mk I.content 0 0).toks ++ (Slice.mk [] 0 0).toks) ++ (ftoks (remarkAt K pos u)).drop t := by
    have e0 : (Slice.mk ([] : List Node) 0 0).toks = [] := by rw [Slice.toks_closed]; rfl
    rw [← hIcl, e0, List.append_nil, hdabT, hdbT, hda]
    unfold splice
    have h1 := splice_after (ftoks K) I.toks [u.headTok] f t pos (pos + 1) I.toks.length (by omega) (by omega)
      (by omega) (by omega) rfl
    have h2 := splice_before (ftoks K) I.toks [u.headTok] f t pos (pos + 1) (by omega) (by omega) (by omega)
      (by omega)
    rw [show f + I.toks.length + (pos + 1 - t) = f + I.toks.length + (pos - t) + 1 by omega] at h1
    rw [h1, h2]
  have hmerged := replaceKids_merged S ty (remarkAt K pos u) (remarkAt Ka (f + I.toks.length + (pos - t)) u) f t
    I.content [] 0 0 hnb hvdab.1.1 hvdab.2 hn2 hin (by simp [fnorm, fnormKids, chainOk]) (Nat.zero_le _)
    (Nat.zero_le _) (by omega) (by omega) htk haf haf2 hR (Nat.zero_le _) hdb (lcompat_zero S _ _ _ _)
  have hfr : S.fromReplace (.elem ty a m (remarkAt K pos u)) f t I =
      .ok (.elem ty a m (remarkAt Ka (f + I.toks.length + (pos - t)) u)) := by
    have e : (Slice.mk (fappend I.content []) 0 0) = I := by rw [hIcl]; rfl
    rw [e] at hmerged
    simp [Schema.fromReplace, Schema.replace, hmerged, Except.map]
  refine ⟨_, _, hmap, ?_, hNda, ?_⟩
  · rw [getMap_of_touch N pos (pos + 1) hto]
    exact replaceAround_map_empty f t gf gt sl ins st ⟨hgo.1, hgo.2.2⟩
  · have hdbS : ftoks (Node.elem ty a m (remarkAt K pos u)).kids =
        splice (ftoks (Node.elem ty a m K).kids) pos (pos + 1) [u.headTok] := by
      simp only [Node.kids]; rw [hdbT]; rfl
    exact around_again_same S (.elem ty a m K) (.elem ty a m (remarkAt K pos u)) (.elem ty a m Ka) _ f t gf gt ins
      pos (pos + 1) sl [u.headTok] st gap I hn hnb hgo hsep (by omega) (by simp only [Node.kids]; omega) hdbS ha hgap
      ho1 ho2 hinst hfr

/-- **a replace-around step with a closed slice and an attr / remove-node-mark step on a token strictly outside
    `[from, to]`: no `commuteGuard`** — neither rebased step is dropped, both orders apply, and they give the same
    document.  `_partial` with respect to the full statement: closed slices only (`wrap`, `set_node_markup`,
    `set_block_type`, whole-content `lift`), valid document and payload, `compatTransB`, aligned ends in `da`; an
    add-node-mark step additionally needs that the parent of the addressed node still allows the mark in `da`. -/
theorem commute_succeeds_around_nodeStep_closed_partial (S : Schema) (htr : compatTransB S = true) (d da db : Node)
    (f t gf gt ins : Nat) (sl : Slice) (st : Bool) (pos : Nat) (N : Step)
    (hN' : (∃ m, N = .removeNodeMark pos m) ∨ (∃ nm v, N = .attr pos nm v))
    (hv : C01.Valid S d) (hpv : C01.PayloadValid S d (.replaceAround f t gf gt sl ins st))
    (hn : fnorm d.kids = true) (hsn : fnorm sl.content = true)
    (hs : AroundShape f t gf gt sl ins) (hcl : sl.openStart = 0 ∧ sl.openEnd = 0)
    (hsep : pos + 1 < f ∨ t < pos)
    (ha : S.apply (.replaceAround f t gf gt sl ins st) d = .ok da) (hb : S.apply N d = .ok db)
    (hdaal : alignedAt da.kids f = true ∧ alignedAt da.kids (f + sl.toks.length + (gt - gf)) = true) :
    ∃ N' dab, N.map (Step.replaceAround f t gf gt sl ins st).getMap = some N' ∧
      (Step.replaceAround f t gf gt sl ins st).map N.getMap = some (.replaceAround f t gf gt sl ins st) ∧
      S.apply N' da = .ok dab ∧ S.apply (.replaceAround f t gf gt sl ins st) db = .ok dab := by
  rcases hsep with h | h
  · obtain ⟨dab, h1, h2, h3, h4⟩ := commute_succeeds_around_nodeStep_before_closed S htr d da db f t gf gt ins sl st pos N
      hN' hv hpv hn hsn hs hcl h ha hb hdaal
    exact ⟨N, dab, h1, h2, h3, h4⟩
  · exact commute_succeeds_around_nodeStep_after_closed S htr d da db f t gf gt ins sl st pos N hN' hv hpv hn hsn hs
      hcl h ha hb hdaal

/-- **a mark step strictly inside the kept gap, inside an element node of the gap content** (`gapGuard` with the open
    depths of the slice the mark step re-marks; e.g. marking text of a paragraph that is being wrapped or lifted):
    the mark step is the replace of its range by the re-marked slice, so `commute_succeeds_around_gap` applies; the
    rebased mark step applies because the result of the replace-around step is valid and the moved ends stay
    pair-aligned.  `_partial`: the guard is not forced for mark steps (it excludes marking the content of the very
    textblock that `set_node_markup` / `set_block_type` re-create — there `ParentStable` is the real condition). -/
theorem commute_succeeds_around_mark_gap_partial (S : Schema) (htr : compatTransB S = true) (hts : TextLoop S)
    (d da db : Node) (f t gf gt ins : Nat) (sl : Slice) (st : Bool) (f2 t2 : Nat) (mk : Mark) (M : Step)
    (hM : M = .addMark f2 t2 mk ∨ M = .removeMark f2 t2 mk)
    (hv : C01.Valid S d) (hpv : C01.PayloadValid S d (.replaceAround f t gf gt sl ins st))
    (hn : fnorm d.kids = true) (hsn : fnorm sl.content = true)
    (hs : AroundShape f t gf gt sl ins) (hcl : sl.openStart = 0 ∧ sl.openEnd = 0)
    (h : gf < f2) (h' : t2 < gt)
    (ha : S.apply (.replaceAround f t gf gt sl ins st) d = .ok da) (hb : S.apply M d = .ok db)
    (hdaal : alignedAt da.kids f = true ∧ alignedAt da.kids (f + sl.toks.length + (gt - gf)) = true)
    (old : Slice) (hold : d.slice f2 t2 = .ok old) (hg : gapGuard d.kids gf gt f2 t2 old = true)
    (hstable : M = .addMark f2 t2 mk → ParentStable S d da f2 t2
      ((f2 : Int) + ((ins : Int) - ((gf : Int) - f))).toNat) :
    ∃ M' dab, M.map (Step.replaceAround f t gf gt sl ins st).getMap = some M' ∧
      (Step.replaceAround f t gf gt sl ins st).map M.getMap = some (.replaceAround f t gf gt sl ins st) ∧
      S.apply M' da = .ok dab ∧ S.apply (.replaceAround f t gf gt sl ins st) db = .ok dab := by
  obtain ⟨hsp, hto⟩ := markStep_span f2 t2 mk M hM
  obtain ⟨old', slM, hold', hos, hslMn, hslMv, hb2⟩ :=
    markStep_as_replace_valid S hts.stable d db f2 t2 mk M hM hn hv hb
  rw [hold] at hold'; cases hold'
  have F := markStep_facts S d db f2 t2 mk M hM hb
  obtain ⟨hle, ht2⟩ := F.range
  have hgo := hs.2.2
  have hg' : gapGuard d.kids gf gt f2 t2 slM = true := by
    unfold gapGuard at hg ⊢; rw [hos]; exact hg
  obtain ⟨A', R', dab0, eA, eR, hA'db, hR'da⟩ := commute_succeeds_around_gap S htr d db da f t gf gt ins f2 t2 sl slM st
    false hv hpv hslMv hn hslMn hsn hs hcl h h' hb2 ha hdaal hg'
  obtain ⟨hdb, _, hlp, hlenM⟩ := apply_replace_splice S d db f2 t2 slM false hb2
  have hlenS : slM.toks.length = t2 - f2 := by
    have h1 := F.size
    rw [← ftoks_length, ← ftoks_length, hdb, splice_length _ _ _ _ hle hlp] at h1
    omega
  -- the replace-around step is unchanged
  obtain ⟨eA2, _⟩ := (rebase_around_separated f t gf gt ins f2 t2 sl slM st false hgo hle).2.1 h h'
  rw [eA2] at eA
  have e1 : ((t : Int) + (slM.size - ((t2 : Int) - f2))).toNat = t := by omega
  have e2 : ((gt : Int) + (slM.size - ((t2 : Int) - f2))).toNat = gt := by omega
  rw [e1, e2] at eA
  simp only [Option.some.injEq] at eA
  subst eA
  -- the mark step on `da`
  have hmap := (rebase_markup_not_dropped_around M f2 t2 hsp hle f t gf gt sl ins st hgo).2.1 h h'
  generalize hgdef : (fun p : Nat => ((p : Int) + ((ins : Int) - ((gf : Int) - f))).toNat) = g at hmap
  have hgv : ∀ p, gf ≤ p → g p = f + ins + (p - gf) := by
    intro p hp; rw [← hgdef]; show ((p : Int) + ((ins : Int) - ((gf : Int) - f))).toNat = _; omega
  obtain ⟨hdaL, hl, hXl, hYl⟩ := apply_around_aroundL S d da f t gf gt sl ins st hs ha
  obtain ⟨ty, a, m, K, K', rfl, rfl, hrK⟩ := fromReplace_parts S d db f2 t2 slM
    (apply_replace_fromReplace S _ _ _ _ _ false hb2)
  obtain ⟨al1, al2⟩ := replaceKids_aligned S ty K f2 t2 slM K' hrK
  obtain ⟨ty', a', m', k0, Ka, e0, rfl⟩ := apply_around_root S _ da f t gf gt sl ins st ha
  cases e0
  simp only [Node.kids] at hn hdaL hl al1 al2 ht2 hlp hdaal ⊢
  have hvda : S.checkNode (.elem ty a m Ka) = true := C01.apply_valid S _ _ _ hv hpv ha
  have hna : fnorm Ka = true := by
    obtain ⟨gap, I, hgap, ho1, ho2, hinst, ha2, hio, hin, hisz, _⟩ :=
      around_as_replace S (.elem ty a m K) _ f t gf gt ins sl st hn hsn hs ha
    exact apply_replace_norm S (.elem ty a m K) _ f t I false hn hin ha2
  have htokda : ∀ p, gf < p → p < gt → (ftoks Ka)[f + ins + (p - gf) - 1]? = (ftoks K)[p - 1]? ∧
      (ftoks Ka)[f + ins + (p - gf)]? = (ftoks K)[p]? := by
    intro p hp1 hp2
    have g1 := aroundL_getElem?_gap (ftoks K) (sl.toks.take ins) (sl.toks.drop ins) f gf gt t (p - gf - 1) hgo hl (by omega)
    have g2 := aroundL_getElem?_gap (ftoks K) (sl.toks.take ins) (sl.toks.drop ins) f gf gt t (p - gf) hgo hl (by omega)
    rw [hXl] at g1 g2
    rw [hdaL]
    constructor
    · rw [show f + ins + (p - gf) - 1 = f + ins + (p - gf - 1) by omega, g1]; congr 1; omega
    · rw [g2]; congr 1; omega
  have hlenda : (ftoks Ka).length = f + ins + (gt - gf) + (sl.toks.drop ins).length + ((ftoks K).length - t) := by
    rw [hdaL, aroundL_length _ _ _ _ _ _ _ hgo hl, hXl]
  obtain ⟨dab, hMda⟩ := markStep_applies S hts (.elem ty a m Ka) f2 t2 mk g M hM hvda hna ⟨_, _, _, _, rfl⟩
    (by rw [hgv f2 (by omega), hgv t2 (by omega)]; omega)
    (by simp only [Node.kids]; rw [hgv t2 (by omega), ← ftoks_length, hlenda]; omega)
    (by rw [hgv f2 (by omega)]
        exact alignedAt_shift Ka K _ f2 hna hn (by omega) (by omega) (htokda f2 h (by omega)).1
          (htokda f2 h (by omega)).2 al1)
    (by rw [hgv t2 (by omega)]
        exact alignedAt_shift Ka K _ t2 hna hn (by omega) (by omega) (htokda t2 (by omega) h').1
          (htokda t2 (by omega) h').2 al2)
  have hA : (Step.replaceAround f t gf gt sl ins st).map M.getMap = some (.replaceAround f t gf gt sl ins st) := by
    rw [getMap_of_touch M f2 t2 hto]
    exact replaceAround_map_empty f t gf gt sl ins st ⟨hgo.1, hgo.2.2⟩
  have hM' : M.mapPos g = .addMark (g f2) (g t2) mk ∨ M.mapPos g = .removeMark (g f2) (g t2) mk := by
    rcases hM with rfl | rfl
    · exact .inl rfl
    · exact .inr rfl
  have Fda := markStep_facts S _ dab (g f2) (g t2) mk (M.mapPos g) hM' hMda
  have n1 := Fda.norm hna
  have n2 : fnorm dab0.kids = true := by
    obtain ⟨gap, I, hgap, ho1, ho2, hinst, ha2, hio, hin, hisz, _⟩ :=
      around_as_replace S _ _ f t gf gt ins sl st (F.norm hn) hsn hs hA'db
    exact apply_replace_norm S _ _ f t I false (F.norm hn) hin ha2
  have : dab = dab0 := by
    rcases hM with rfl | rfl
    · have hst := hstable rfl
      rw [show ((f2 : Int) + ((ins : Int) - ((gf : Int) - f))).toNat = g f2 by rw [← hgdef]] at hst
      exact (commute_around_mark_partial S _ _ _ dab dab0 f t gf gt ins sl st f2 t2 _ _ mk _ hle hs
        (.inl ⟨h, h'⟩) ha hb hmap hA hMda hA'db hst).2 n1 n2
    · exact (commute_around_mark_unguarded S _ _ _ dab dab0 f t gf gt ins sl st f2 t2 mk _ _ _ hle hs
        (.inr ⟨rfl, .inr (.inl ⟨h, h'⟩)⟩) ha hb hmap hA hMda hA'db).2 n1 n2
  subst this
  exact ⟨_, dab, hmap, hA, hMda, hA'db⟩

theorem stepMarks_canonical (S : Schema) (pos : Nat) (N : Step) (hN : NodeStepAt pos N) (ms : Marks)
    (h : canonicalMarks S ms = true) : canonicalMarks S (stepMarks S N ms) = true := by
  rcases hN with ⟨m, rfl⟩ | ⟨m, rfl⟩ | ⟨n, v, rfl⟩
  · exact addToSet_canonical S m ms h
  · exact removeFromSet_canonical S m ms h
  · exact h

/-- **a node-mark / attr step on a token strictly inside the kept gap whose parent lies inside the gap**
    (`gapGuard` for the one-token range with a closed slice: the addressed node is not a top-level node of the gap
    content): both rebased steps apply and give the same document -/
theorem commute_succeeds_around_nodeStep_gap_partial (S : Schema) (htr : compatTransB S = true) (d da db : Node)
    (f t gf gt ins : Nat) (sl : Slice) (st : Bool) (pos : Nat) (N : Step) (hN : NodeStepAt pos N)
    (hv : C01.Valid S d) (hpv : C01.PayloadValid S d (.replaceAround f t gf gt sl ins st))
    (hn : fnorm d.kids = true) (hsn : fnorm sl.content = true)
    (hs : AroundShape f t gf gt sl ins) (hcl : sl.openStart = 0 ∧ sl.openEnd = 0)
    (h : gf < pos) (h' : pos + 1 < gt)
    (ha : S.apply (.replaceAround f t gf gt sl ins st) d = .ok da) (hb : S.apply N d = .ok db)
    (hdaal : alignedAt da.kids f = true ∧ alignedAt da.kids (f + sl.toks.length + (gt - gf)) = true)
    (hg : gapGuard d.kids gf gt pos (pos + 1) ⟨[], 0, 0⟩ = true) :
    ∃ N' dab, N.map (Step.replaceAround f t gf gt sl ins st).getMap = some N' ∧
      (Step.replaceAround f t gf gt sl ins st).map N.getMap = some (.replaceAround f t gf gt sl ins st) ∧
      S.apply N' da = .ok dab ∧ S.apply (.replaceAround f t gf gt sl ins st) db = .ok dab := by
  have hsp : N.posSpan = some (pos, pos) := by
    rcases hN with ⟨m, rfl⟩ | ⟨m, rfl⟩ | ⟨n, v, rfl⟩ <;> rfl
  have hto : N.touch = some (pos, pos + 1) := by
    rcases hN with ⟨m, rfl⟩ | ⟨m, rfl⟩ | ⟨n, v, rfl⟩ <;> rfl
  obtain ⟨n, u, hnat, hu, hfrN⟩ := nodeStep_full S d db pos N hN hb
  obtain ⟨hposlt, _, htok, _, _, _, _⟩ := nodeRepl_toks S d db n u pos _ _ hnat hu hfrN
  obtain ⟨hsz, hun⟩ := nodeSlice_facts S n u _ _ hu
  have hnt : n.isText = false := by
    cases n with
    | text s m => simp [Schema.recreate] at hu
    | leaf => rfl
    | elem => rfl
  have hnv := nodeAtKids_valid S d.kids pos n (checkNode_kids hv) hnat
  have hpay := recreate_payload S n u _ _ hnv (stepMarks_canonical S pos N hN _ (Node.marks_canonical hnv)) hu
  have hb2 : S.apply (.replace pos (pos + 1) ⟨[u], 0, if n.isLeaf then 0 else 1⟩ false) d = .ok db := by
    simpa [Schema.apply] using hfrN
  have hgo := hs.2.2
  have hg' : gapGuard d.kids gf gt pos (pos + 1) ⟨[u], 0, if n.isLeaf then 0 else 1⟩ = true := by
    unfold gapGuard at hg ⊢; exact hg
  obtain ⟨A', R', dab0, eA, eR, hA'db, hR'da⟩ := commute_succeeds_around_gap S htr d db da f t gf gt ins pos (pos + 1) sl
    ⟨[u], 0, if n.isLeaf then 0 else 1⟩ st false hv hpv hpay hn hun hsn hs hcl h h' hb2 ha hdaal hg'
  -- the replace-around step is unchanged, the replace moves by δX
  obtain ⟨eA2, eR2⟩ := (rebase_around_separated f t gf gt ins pos (pos + 1) sl ⟨[u], 0, if n.isLeaf then 0 else 1⟩ st false
    hgo (by omega)).2.1 h h'
  rw [eA2] at eA; rw [eR2] at eR
  have e1 : ((t : Int) + ((Slice.mk [u] 0 (if n.isLeaf then 0 else 1)).size - (((pos + 1 : Nat) : Int) - pos))).toNat = t := by
    omega
  have e2 : ((gt : Int) + ((Slice.mk [u] 0 (if n.isLeaf then 0 else 1)).size - (((pos + 1 : Nat) : Int) - pos))).toNat = gt := by
    omega
  have e3 : ((pos : Int) + ((ins : Int) - ((gf : Int) - f))).toNat = f + ins + (pos - gf) := by omega
  have e4 : (((pos + 1 : Nat) : Int) + ((ins : Int) - ((gf : Int) - f))).toNat = f + ins + (pos - gf) + 1 := by omega
  rw [e1, e2] at eA
  rw [e3, e4] at eR
  simp only [Option.some.injEq] at eA eR
  subst eA eR
  have hmap := (rebase_markup_not_dropped_around N pos pos hsp (Nat.le_refl _) f t gf gt sl ins st hgo).2.1 h (by omega)
  generalize hgdef : (fun p : Nat => ((p : Int) + ((ins : Int) - ((gf : Int) - f))).toNat) = g at hmap
  have hgpos : g pos = f + ins + (pos - gf) := by rw [← hgdef]; exact e3
  have hA : (Step.replaceAround f t gf gt sl ins st).map N.getMap = some (.replaceAround f t gf gt sl ins st) := by
    rw [getMap_of_touch N pos (pos + 1) hto]
    exact replaceAround_map_empty f t gf gt sl ins st ⟨hgo.1, hgo.2.2⟩
  refine ⟨_, dab0, hmap, hA, ?_, hA'db⟩
  -- the node step on `da` finds the same token
  obtain ⟨hdaL, hl, hXl, _⟩ := apply_around_aroundL S d da f t gf gt sl ins st hs ha
  have hna : fnorm da.kids = true := by
    obtain ⟨gap, I, hgap, ho1, ho2, hinst, ha2, hio, hin, hisz, _⟩ :=
      around_as_replace S d da f t gf gt ins sl st hn hsn hs ha
    exact apply_replace_norm S d da f t I false hn hin ha2
  have hfr := apply_replace_fromReplace S da dab0 _ _ _ false hR'da
  obtain ⟨c1, c2, c3⟩ := stepAttrs_mapPos N g pos hN
  rw [hgpos] at c3
  have hp : pos < (ftoks d.kids).length := by rw [ftoks_length]; exact hposlt
  have htok' : (ftoks da.kids)[f + ins + (pos - gf)]? = some n.headTok := by
    have := aroundL_getElem?_gap (ftoks d.kids) (sl.toks.take ins) (sl.toks.drop ins) f gf gt t (pos - gf) hgo hl (by omega)
    rw [hXl] at this
    rw [hdaL, this, show gf + (pos - gf) = pos by omega, List.getElem?_eq_getElem hp]
    rw [List.getD_eq_getElem?_getD, List.getElem?_eq_getElem hp] at htok
    simpa using htok
  obtain ⟨n', hnat', hhd, hnt'⟩ := nodeAtKids_of_head da.kids _ n.headTok (fnormKids_of_fnorm hna) htok'
    (by cases n <;> simp [Node.headTok, Node.isText] at hnt ⊢)
    (by intro c m; cases n <;> simp [Node.headTok, Node.isText] at hnt ⊢)
  obtain ⟨k1, k2, k3, k4⟩ := recreate_congr_head S n n' (stepAttrs N n.attrs) (stepMarks S N n.marks) hhd hnt hnt'
  have hu' : S.recreate n' (stepAttrs (N.mapPos g) n'.attrs) (stepMarks S (N.mapPos g) n'.marks) = .ok u := by
    rw [c1, c2 S, k2, k3, k1]; exact hu
  rw [nodeStep_apply_of S da n' u _ _ c3 hnat' hu', k4]
  exact hfr

/-- non-vacuity of the decidable hypotheses of `commute_succeeds_around_gap` (and of the three theorems derived from
    it): lifting both paragraphs out of `quote(p("a"), p("b"))` (`replaceAround 0 8 1 7 ⟨[], 0, 0⟩ 0`: closed slice, the
    library's shape) against typing at 5 inside the second paragraph; the schema guard holds for the small schema of the
    first example.  (Pairs of this kind that apply in the real code: harness counters `gapGuard:True,converged`,
    `gapGuard-true:slice-closed=True,ends-aligned=True`.) -/
example :
    AroundShape 0 8 1 7 ⟨[], 0, 0⟩ 0 ∧ (Slice.mk [] 0 0).openStart = 0 ∧ (Slice.mk [] 0 0).openEnd = 0 ∧ 1 < 5 ∧ 5 < 7 ∧
    gapGuard [.elem 3 [] [] [.elem 1 [] [] [.text [97] []], .elem 1 [] [] [.text [98] []]]] 1 7 5 5
      ⟨[.text [120] []], 0, 0⟩ = true ∧ compatTransB tinyS = true := by
  refine ⟨by decide, rfl, rfl, by decide, by decide, ?_, by decide⟩
  simp [gapGuard, insideGap, depthAt]

/-- the guard holds: in `doc(quote(p("a"), p("b")))`, lifting both paragraphs out of the quote
    (`replaceAround 0 8 1 7 ⟨[], 0, 0⟩ 0`, gap `[1, 7)`) against typing inside the second paragraph (`5 … 5`):
    the typing happens inside `p("b")`, which lies inside the gap -/
example :
    gapGuard [.elem 3 [] [] [.elem 1 [] [] [.text [97] []], .elem 1 [] [] [.text [98] []]]] 1 7 5 5
      ⟨[.text [120] []], 0, 0⟩ = true := by
  simp [gapGuard, insideGap, depthAt]

/-- **the guard cannot be dropped** (`gapGuard_needs`): the counterexample found in the bundled basic schema, replayed
    on the real code.  `doc(h1("0\nyxz\n", br), hr)` (types here: 1 heading, 2 hard_break, 3 horizontal_rule);
    `set_node_markup(0, heading, level 2)` = `replaceAround 0 9 1 8 <h2()> insert 1` (gap `[1, 8)` = the heading's
    content) against `replace 7 7 <h1()|code_block("\n𝒳")|h1()>(1, 1)` (from `replace_with`: closes the heading, puts a
    code block, re-opens a heading).  Real code: both steps apply to the base document; neither rebased step is dropped
    (`replaceAround 0 16 1 15 …` resp. `replace 7 7 …`); replace-around first, then the rebased replace: applies;
    replace first, then the rebased replace-around step: **fails** ("Gap is not a flat range": `[1, 15)` now contains
    `</h1> <code_block> … </code_block> <h1>`).  Such a pair is *overlapping*, not separated, in the sense of property
    C17 (and of the harness's search population): the partner's range lies inside `[from, to] = [0, 9]` of the
    replace-around step — only its *touched tokens* `[0, 1)` and `[8, 9)` are disjoint from it.  So this is not a
    violation of C17, it delimits the in-gap extension: the guard is false here because the slice is open as deep as
    position 7 is nested (`depth 1 − openStart 1 = 0` levels of descent: the step rebuilds the document level). -/
example :
    gapGuard [.elem 1 [("level", "1")] [] [.text [48, 10, 121, 120, 122, 10] [], .leaf 2 [] []], .leaf 3 [] []]
      1 8 7 7 ⟨[.elem 1 [("level", "1")] [] [], .elem 4 [] [] [.text [10, 55349, 56499] []],
        .elem 1 [("level", "1")] [] []], 1, 1⟩ = false := by
  simp [gapGuard, insideGap, depthAt, Node.size]

/-- … and fails for a split of the paragraph whose markup is being changed (`set_node_markup` on `p("ab")`:
    gap `[1, 3)`, split at 2 with `</p><p>` = slice `<p()|p()>(1,1)`): the split closes the node the gap lives in -/
example :
    gapGuard [.elem 1 [] [] [.text [97, 98] []]] 1 3 2 2 ⟨[.elem 1 [] [] [], .elem 1 [] [] []], 1, 1⟩ = false := by
  simp [gapGuard, insideGap, depthAt]

end PM.C17
