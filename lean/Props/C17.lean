/-
  Props/C17.lean — C17: concurrent edits to separate parts of a document commute after rebasing.
  Proved for pairs of replace steps (the steps every replace-family operation, split and join emit);
  pairs involving mark / replace-around steps are covered by the correspondence run and the
  convergence search (with the known finding "mark step vs. parent-retyping replace", DESIGN.md).
  Helper lemmas: Proofs/Commute.lean.
-/
import PM.Step
import Proofs.StepToks
import Proofs.Commute
namespace PM.C17
open PM

/-- **rebasing never drops a step that touches a separate part** (replace step over a replace step's
    map, ranges separated by at least one untouched token), and the rebased range is the shifted one -/
theorem rebase_separated_after (f1 t1 f2 t2 : Nat) (s1 s2 : Slice) (b1 b2 : Bool)
    (h1 : f1 ≤ t1) (h2 : f2 ≤ t2) (hsep : t1 < f2) (hs1 : 0 ≤ s1.size) :
    (Step.replace f2 t2 s2 b2).map (Step.replace f1 t1 s1 b1).getMap =
      some (.replace ((f2 : Int) + s1.size - (t1 - f1)).toNat ((t2 : Int) + s1.size - (t1 - f1)).toNat s2 false) ∧
    (Step.replace f1 t1 s1 b1).map (Step.replace f2 t2 s2 b2).getMap = some (.replace f1 t1 s1 false) := by
  have e1 : ∀ a : Int, (Step.replace f1 t1 s1 b1).getMap.mapResult (f2 : Int) a
      = { pos := (f2 : Int) + (s1.size - ((t1 : Int) - f1)) } :=
    fun a => mapResult_one_after _ _ _ _ a (by omega) (by omega)
  have e2 : ∀ a : Int, (Step.replace f1 t1 s1 b1).getMap.mapResult (t2 : Int) a
      = { pos := (t2 : Int) + (s1.size - ((t1 : Int) - f1)) } :=
    fun a => mapResult_one_after _ _ _ _ a (by omega) (by omega)
  have e3 : ∀ a : Int, (Step.replace f2 t2 s2 b2).getMap.mapResult (f1 : Int) a = { pos := (f1 : Int) } :=
    fun a => mapResult_one_before _ _ _ _ a (by omega)
  have e4 : ∀ a : Int, (Step.replace f2 t2 s2 b2).getMap.mapResult (t1 : Int) a = { pos := (t1 : Int) } :=
    fun a => mapResult_one_before _ _ _ _ a (by omega)
  constructor
  · simp only [Step.map, e1, e2, deleted_zero]
    simp only [Bool.false_and, Bool.false_eq_true, if_false, Option.some.injEq, Step.replace.injEq,
      and_true]
    constructor
    · congr 1; omega
    · congr 1; omega
  · simp only [Step.map, e3, e4, deleted_zero]
    simp only [Bool.false_and, Bool.false_eq_true, if_false, Option.some.injEq, Step.replace.injEq,
      and_true]
    constructor
    · omega
    · omega

/-- **convergence**: two replace steps on the same document whose ranges are separated by at least
    one token, each rebased over the other's map: whenever both orders apply, both orders yield the
    same token sequence `d[:f1] ++ S1 ++ d[t1:f2] ++ S2 ++ d[t2:]` -/
theorem commute_replace_toks (S : Schema) (d da db dab dba : Node) (f1 t1 f2 t2 : Nat) (s1 s2 : Slice)
    (b1 b2 : Bool) (a' b' : Step) (hsep : t1 < f2)
    (ha : S.apply (.replace f1 t1 s1 b1) d = .ok da)
    (hb : S.apply (.replace f2 t2 s2 b2) d = .ok db)
    (hb' : (Step.replace f2 t2 s2 b2).map (Step.replace f1 t1 s1 b1).getMap = some b')
    (ha' : (Step.replace f1 t1 s1 b1).map (Step.replace f2 t2 s2 b2).getMap = some a')
    (hab : S.apply b' da = .ok dab) (hba : S.apply a' db = .ok dba) :
    ftoks dab.kids = (ftoks d.kids).take f1 ++ s1.toks ++ ((ftoks d.kids).drop t1).take (f2 - t1) ++ s2.toks ++ (ftoks d.kids).drop t2 ∧
    ftoks dba.kids = ftoks dab.kids := by
  have ka := apply_replace_fromReplace S d da f1 t1 s1 b1 ha
  have kb := apply_replace_fromReplace S d db f2 t2 s2 b2 hb
  obtain ⟨hda, h1, hl1, hwf1, _⟩ := fromReplace_toks S d da f1 t1 s1 ka
  obtain ⟨hdb, h2, hl2, hwf2, _⟩ := fromReplace_toks S d db f2 t2 s2 kb
  obtain ⟨hlen1, hs1⟩ := Slice.toks_length_of_wf s1 hwf1
  obtain ⟨r1, r2⟩ := rebase_separated_after f1 t1 f2 t2 s1 s2 b1 b2 h1 h2 hsep hs1
  rw [r1] at hb'; rw [r2] at ha'
  simp only [Option.some.injEq] at hb' ha'
  subst hb' ha'
  obtain ⟨hdab, _, _, _⟩ := apply_replace_toks S da dab _ _ s2 false hab
  obtain ⟨hdba, _, _, _⟩ := apply_replace_toks S db dba _ _ s1 false hba
  rw [← ftoks_length] at hl2
  have n1 : ((f2 : Int) + s1.size - (t1 - f1)).toNat = f1 + s1.toks.length + (f2 - t1) := by omega
  have n2 : ((t2 : Int) + s1.size - (t1 - f1)).toNat = f1 + s1.toks.length + (t2 - t1) := by omega
  have eab : ftoks dab.kids = (ftoks d.kids).take f1 ++ s1.toks ++ ((ftoks d.kids).drop t1).take (f2 - t1)
      ++ s2.toks ++ (ftoks d.kids).drop t2 := by
    rw [hdab, hda, n1, n2]
    exact splice_after _ _ _ f1 t1 f2 t2 _ h1 (by omega) h2 hl2 rfl
  refine ⟨eab, ?_⟩
  rw [eab, hdba, hdb]
  exact splice_before _ _ _ f1 t1 f2 t2 h1 (by omega) h2 hl2

/-- … hence equal documents (normal form, which every library operation returns) -/
theorem commute_replace (S : Schema) (d da db dab dba : Node) (f1 t1 f2 t2 : Nat) (s1 s2 : Slice)
    (b1 b2 : Bool) (a' b' : Step) (hsep : t1 < f2)
    (ha : S.apply (.replace f1 t1 s1 b1) d = .ok da)
    (hb : S.apply (.replace f2 t2 s2 b2) d = .ok db)
    (hb' : (Step.replace f2 t2 s2 b2).map (Step.replace f1 t1 s1 b1).getMap = some b')
    (ha' : (Step.replace f1 t1 s1 b1).map (Step.replace f2 t2 s2 b2).getMap = some a')
    (hab : S.apply b' da = .ok dab) (hba : S.apply a' db = .ok dba)
    (hn1 : fnorm dab.kids = true) (hn2 : fnorm dba.kids = true) : dab = dba := by
  have htoks := (commute_replace_toks S d da db dab dba f1 t1 f2 t2 s1 s2 b1 b2 a' b' hsep ha hb hb' ha'
    hab hba).2
  have hk : dba.kids = dab.kids := ftoks_inj _ _ hn2 hn1 htoks
  have ka := apply_replace_fromReplace S d da f1 t1 s1 b1 ha
  have kb := apply_replace_fromReplace S d db f2 t2 s2 b2 hb
  obtain ⟨_, h1, _, hwf1, _⟩ := fromReplace_toks S d da f1 t1 s1 ka
  obtain ⟨_, h2, _, _, _⟩ := fromReplace_toks S d db f2 t2 s2 kb
  obtain ⟨_, hs1⟩ := Slice.toks_length_of_wf s1 hwf1
  obtain ⟨r1, r2⟩ := rebase_separated_after f1 t1 f2 t2 s1 s2 b1 b2 h1 h2 hsep hs1
  rw [r1] at hb'; rw [r2] at ha'
  simp only [Option.some.injEq] at hb' ha'
  subst hb' ha'
  obtain ⟨ty, a, m, k, ka', rfl, rfl⟩ := apply_replace_elem S d da f1 t1 s1 b1 ha
  obtain ⟨ty2, a2, m2, k2, kb', e, rfl⟩ := apply_replace_elem S _ db f2 t2 s2 b2 hb
  cases e
  obtain ⟨ty3, a3, m3, k3, kab, e, rfl⟩ := apply_replace_elem S _ dab _ _ s2 false hab
  cases e
  obtain ⟨ty4, a4, m4, k4, kba, e, rfl⟩ := apply_replace_elem S _ dba _ _ s1 false hba
  cases e
  simp only [Node.kids] at hk
  rw [hk]

/-- markup steps (mark, node-mark, attribute) on separate tokens are never dropped either: mapping a
    position strictly outside a replace step's range through its map does not set `deleted` -/
theorem outside_not_deleted (f t : Nat) (sl : Slice) (b : Bool) (p : Nat) (a : Int)
    (hft : f ≤ t) (hp : p < f ∨ t < p) (hs : 0 ≤ sl.size) :
    ((Step.replace f t sl b).getMap.mapResult p a).deleted = false ∧
    ((Step.replace f t sl b).getMap.mapResult p a).deletedAfter = false := by
  rcases hp with hp | hp
  · have e : (Step.replace f t sl b).getMap.mapResult (p : Int) a = { pos := (p : Int) } :=
      mapResult_one_before _ _ _ _ a (by omega)
    rw [e]; exact ⟨deleted_zero _, deletedAfter_zero _⟩
  · have e : (Step.replace f t sl b).getMap.mapResult (p : Int) a
        = { pos := (p : Int) + (sl.size - ((t : Int) - f)) } :=
      mapResult_one_after _ _ _ _ a (by omega) (by omega)
    rw [e]; exact ⟨deleted_zero _, deletedAfter_zero _⟩

end PM.C17
