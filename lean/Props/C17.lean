import PM.Step
namespace PM.C17
end PM.C17
