/-
  Props/C05.lean — C05: JSON serialisation of documents, slices, marks and steps is lossless.
  `J` is plain JSON data (PM/Json.lean).  Python's `json.dumps/loads` and `str` are modelled as the
  identity on `J` (trusted; the correspondence run really goes through JSON text).  The clause
  "does not alias live attribute objects" is about object identity and is outside a pure model
  (decided by the mutation probe of the harness only).  Helper lemmas: Proofs/Json.lean.
-/
import PM.Json
import Proofs.Json
namespace PM.C05
open PM

/-- attribute values as the library builds them (`compute_attrs`): exactly the declared names, in
    declaration order, and `null` only where the declared default is `null` -/
def AttrsWF (decls : List AttrDecl) (a : Attrs) : Prop :=
  a.map (·.1) = decls.map (·.name) ∧ (decls.map (·.name)).Nodup ∧
  ∀ d, d ∈ decls → ∀ v, (d.name, v) ∈ a → v = "null" → d.hasDefault = true ∧ d.default = "null"

/-- type names identify node and mark types; only the text type is called "text" -/
structure SchemaOk (S : Schema) : Prop where
  nodeNames : ∀ t, t < S.nodes.size → S.findNode (S.nodeName t) = some t
  markNames : ∀ t, t < S.marks.size → S.findMark (S.markName t) = some t
  textName  : ∀ t, t < S.nodes.size → (S.nodeName t = "text" ↔ t = S.textTy)

def MarkWF (S : Schema) (m : Mark) : Prop := m.ty < S.marks.size ∧ AttrsWF (S.markType m.ty).attrs m.attrs
def MarksWF (S : Schema) (ms : Marks) : Prop := (∀ m, m ∈ ms → MarkWF S m) ∧ setFrom ms = ms

/-- a node as the library represents it: declared attributes, rank-sorted marks, no empty text,
    leaf constructor exactly for leaf types -/
inductive NodeWF (S : Schema) : Node → Prop
  | text (s : List Nat) (m : Marks) : s ≠ [] → MarksWF S m → NodeWF S (.text s m)
  | leaf (t : TypeId) (a : Attrs) (m : Marks) : t < S.nodes.size → t ≠ S.textTy → (S.nodeType t).isLeaf = true →
      AttrsWF (S.nodeType t).attrs a → MarksWF S m → NodeWF S (.leaf t a m)
  | elem (t : TypeId) (a : Attrs) (m : Marks) (kids : List Node) : t < S.nodes.size → t ≠ S.textTy →
      (S.nodeType t).isLeaf = false → AttrsWF (S.nodeType t).attrs a → MarksWF S m →
      (∀ k, k ∈ kids → NodeWF S k) → NodeWF S (.elem t a m kids)

mutual
def nodeDepth : Node → Nat
  | .elem _ _ _ kids => 1 + kidsDepth kids
  | _ => 1
def kidsDepth : List Node → Nat
  | [] => 0
  | n :: ns => max (nodeDepth n) (kidsDepth ns)
end

def SliceWF (S : Schema) (sl : Slice) : Prop :=
  (∀ k, k ∈ sl.content → NodeWF S k) ∧ (fsize sl.content = 0 → sl = Slice.empty)

def StepWF (S : Schema) : Step → Prop
  | .replace _ _ sl _ => SliceWF S sl
  | .replaceAround _ _ _ _ sl _ _ => SliceWF S sl
  | .addMark _ _ m => MarkWF S m
  | .removeMark _ _ m => MarkWF S m
  | .addNodeMark _ m => MarkWF S m
  | .removeNodeMark _ m => MarkWF S m
  | .attr .. => True
  | .docAttr .. => True

/-- attribute defaulting on decode is the identity on well-formed attributes -/
theorem computeAttrs_wf (decls : List AttrDecl) (a : Attrs) (h : AttrsWF decls a) :
    computeAttrs decls a = .ok a := by
  sorry

/-- **marks** -/
theorem mark_rt (S : Schema) (hS : SchemaOk S) (m : Mark) (h : MarkWF S m) :
    S.markOfJ (S.markToJ m) = .ok m := by
  sorry

/-- **nodes / documents** (any nesting depth) -/
theorem node_rt (S : Schema) (hS : SchemaOk S) (n : Node) (h : NodeWF S n) (fuel : Nat)
    (hf : nodeDepth n ≤ fuel) : S.nodeOfJ fuel (S.nodeToJ n) = .ok n := by
  sorry

/-- **fragments** -/
theorem frag_rt (S : Schema) (hS : SchemaOk S) (l : List Node) (h : ∀ k, k ∈ l → NodeWF S k) (fuel : Nat)
    (hf : kidsDepth l ≤ fuel) : S.fragOfJ fuel (some (S.fragToJ l)) = .ok l := by
  sorry

/-- **slices** (open depths default to 0 when omitted) -/
theorem slice_rt (S : Schema) (hS : SchemaOk S) (sl : Slice) (h : SliceWF S sl) (fuel : Nat)
    (hf : kidsDepth sl.content ≤ fuel) : S.sliceOfJ fuel (some (S.sliceToJ sl)) = .ok sl := by
  sorry

/-- **steps of all eight kinds**: the decoded step *is* the original step, hence has the identical
    effect (`apply`) and position map (`getMap`) on every document -/
theorem step_rt (S : Schema) (hS : SchemaOk S) (st : Step) (h : StepWF S st) (fuel : Nat)
    (hf : ∀ f t sl b, st = .replace f t sl b → kidsDepth sl.content ≤ fuel)
    (hf' : ∀ f t gf gt sl i b, st = .replaceAround f t gf gt sl i b → kidsDepth sl.content ≤ fuel) :
    S.stepOfJ fuel (S.stepToJ st) = .ok st := by
  sorry

/-- re-serialising the decoded object gives the identical JSON -/
theorem node_json_stable (S : Schema) (hS : SchemaOk S) (n n' : Node) (h : NodeWF S n) (fuel : Nat)
    (hf : nodeDepth n ≤ fuel) (hd : S.nodeOfJ fuel (S.nodeToJ n) = .ok n') : S.nodeToJ n' = S.nodeToJ n := by
  sorry

/-- **registry**: every built-in step type is published under its own name, the eight names are
    distinct, and the decoder dispatches on exactly these -/
theorem registry_names : stepIds.Nodup ∧ stepIds.length = 8 := by
  sorry

theorem stepToJ_type (S : Schema) (st : Step) :
    ∃ name, (S.stepToJ st).get "stepType" = some (.str name) ∧ name ∈ stepIds := by
  sorry

theorem stepOfJ_unknown (S : Schema) (fuel : Nat) (kv : List (String × J)) (name : String)
    (h : (J.obj kv).get "stepType" = some (.str name)) (hn : name ∉ stepIds) :
    S.stepOfJ fuel (J.obj kv) = .error .valueError := by
  sorry

end PM.C05
