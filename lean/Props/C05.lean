/-
  Props/C05.lean — C05: JSON serialisation of documents, slices, marks and steps is lossless.
  `J` is plain JSON data (PM/Json.lean).  Python's `json.dumps/loads` and `str` are modelled as the
  identity on `J` (trusted; the correspondence run really goes through JSON text).  The clause
  "does not alias live attribute objects" is about object identity and is outside a pure model
  (decided by the mutation probe of the harness only).  Helper lemmas: Proofs/Json.lean.
-/
import PM.Json
import Proofs.Json
import Proofs.JsonShape
namespace PM.C05
open PM

/-- attribute values as the library builds them (`compute_attrs`): exactly the declared names, in
    declaration order, and `null` only where the declared default is `null` -/
def AttrsWF (decls : List AttrDecl) (a : Attrs) : Prop :=
  a.map (·.1) = decls.map (·.name) ∧ (decls.map (·.name)).Nodup ∧
  ∀ d, d ∈ decls → ∀ v, (d.name, v) ∈ a → v = "null" → d.hasDefault = true ∧ d.default = "null"

/-- type names identify node and mark types; only the text type is called "text" -/
structure SchemaOk (S : Schema) : Prop where
  nodeNames : ∀ t, t < S.nodes.size → S.findNode (S.nodeName t) = some t
  markNames : ∀ t, t < S.marks.size → S.findMark (S.markName t) = some t
  textName  : ∀ t, t < S.nodes.size → (S.nodeName t = "text" ↔ t = S.textTy)

def MarkWF (S : Schema) (m : Mark) : Prop := m.ty < S.marks.size ∧ AttrsWF (S.markType m.ty).attrs m.attrs
def MarksWF (S : Schema) (ms : Marks) : Prop := (∀ m, m ∈ ms → MarkWF S m) ∧ setFrom ms = ms

/-- a node as the library represents it: declared attributes, rank-sorted marks, no empty text,
    leaf constructor exactly for leaf types -/
inductive NodeWF (S : Schema) : Node → Prop
  | text (s : List Nat) (m : Marks) : s ≠ [] → MarksWF S m → NodeWF S (.text s m)
  | leaf (t : TypeId) (a : Attrs) (m : Marks) : t < S.nodes.size → t ≠ S.textTy → (S.nodeType t).isLeaf = true →
      AttrsWF (S.nodeType t).attrs a → MarksWF S m → NodeWF S (.leaf t a m)
  | elem (t : TypeId) (a : Attrs) (m : Marks) (kids : List Node) : t < S.nodes.size → t ≠ S.textTy →
      (S.nodeType t).isLeaf = false → AttrsWF (S.nodeType t).attrs a → MarksWF S m →
      (∀ k, k ∈ kids → NodeWF S k) → NodeWF S (.elem t a m kids)

mutual
def nodeDepth : Node → Nat
  | .elem _ _ _ kids => 1 + kidsDepth kids
  | _ => 1
def kidsDepth : List Node → Nat
  | [] => 0
  | n :: ns => max (nodeDepth n) (kidsDepth ns)
end

def SliceWF (S : Schema) (sl : Slice) : Prop :=
  (∀ k, k ∈ sl.content → NodeWF S k) ∧ (fsize sl.content = 0 → sl = Slice.empty)

def StepWF (S : Schema) : Step → Prop
  | .replace _ _ sl _ => SliceWF S sl
  | .replaceAround _ _ _ _ sl _ _ => SliceWF S sl
  | .addMark _ _ m => MarkWF S m
  | .removeMark _ _ m => MarkWF S m
  | .addNodeMark _ m => MarkWF S m
  | .removeNodeMark _ m => MarkWF S m
  | .attr .. => True
  | .docAttr .. => True

/-- attribute defaulting on decode is the identity on well-formed attributes -/
theorem computeAttrs_wf (decls : List AttrDecl) (a : Attrs) (h : AttrsWF decls a) :
    computeAttrs decls a = .ok a := by
  exact computeAttrs_ok decls a h.1 h.2.1 h.2.2

/-- **marks** -/
theorem mark_rt (S : Schema) (hS : SchemaOk S) (m : Mark) (h : MarkWF S m) :
    S.markOfJ (S.markToJ m) = .ok m := by
  exact markOfJ_markToJ S m (hS.markNames _ h.1) (computeAttrs_wf _ _ h.2)

private theorem marks_rt (S : Schema) (hS : SchemaOk S) (ms : Marks) (h : MarksWF S ms) :
    (ms.map S.markToJ).mapM S.markOfJ = .ok ms :=
  mapM_markOfJ S ms (fun m hm => mark_rt S hS m (h.1 m hm))

private theorem name_ne_text (S : Schema) (hS : SchemaOk S) (t : TypeId) (ht : t < S.nodes.size)
    (hne : t ≠ S.textTy) : S.nodeName t ≠ "text" :=
  fun e => hne ((hS.textName t ht).mp e)

private theorem nodeWF_size (S : Schema) (k : Node) (h : NodeWF S k) : 1 ≤ k.size := by
  cases h with
  | text s m hs _ =>
    simp only [Node.size]
    cases s with
    | nil => exact absurd rfl hs
    | cons => simp
  | leaf => simp only [Node.size]; omega
  | elem => simp only [Node.size]; omega

private theorem nodeDepth_elem (t : TypeId) (a : Attrs) (m : Marks) (kids : List Node) :
    nodeDepth (.elem t a m kids) = 1 + kidsDepth kids := by simp only [nodeDepth]
private theorem kidsDepth_cons (n : Node) (ns : List Node) :
    kidsDepth (n :: ns) = max (nodeDepth n) (kidsDepth ns) := by simp only [kidsDepth]

mutual
/-- nodes and child lists together, by structural recursion in the shape of `nodeToJ`/`kidsToJ` -/
private theorem node_rt_n (S : Schema) (hS : SchemaOk S) : ∀ (n : Node), NodeWF S n → ∀ fuel,
    nodeDepth n ≤ fuel → S.nodeOfJ fuel (S.nodeToJ n) = .ok n
  | .text s m, h, fuel, hf => by
    cases h with
    | text _ _ hs hm =>
      obtain ⟨fuel', rfl⟩ : ∃ f, fuel = f + 1 := ⟨fuel - 1, by simp only [nodeDepth] at hf; omega⟩
      exact nodeOfJ_nodeToJ_text S fuel' s m hs (marks_rt S hS m hm) hm.2
  | .leaf t a m, h, fuel, hf => by
    cases h with
    | leaf _ _ _ ht hne hl ha hm =>
      obtain ⟨fuel', rfl⟩ : ∃ f, fuel = f + 1 := ⟨fuel - 1, by simp only [nodeDepth] at hf; omega⟩
      exact nodeOfJ_nodeToJ_leaf S fuel' t a m (name_ne_text S hS t ht hne) (hS.nodeNames t ht) hl
        (computeAttrs_wf _ _ ha) (marks_rt S hS m hm) hm.2
  | .elem t a m kids, h, fuel, hf => by
    cases h with
    | elem _ _ _ _ ht hne hl ha hm hk =>
      rw [nodeDepth_elem] at hf
      obtain ⟨fuel', rfl⟩ : ∃ f, fuel = f + 1 := ⟨fuel - 1, by omega⟩
      exact nodeOfJ_nodeToJ_elem S fuel' t a m kids (name_ne_text S hS t ht hne) (hS.nodeNames t ht) hl
        (computeAttrs_wf _ _ ha) (marks_rt S hS m hm) hm.2
        (eq_nil_of_fsize_zero kids (fun k hk' => nodeWF_size S k (hk k hk')))
        (node_rt_k S hS kids hk fuel' (by omega))
private theorem node_rt_k (S : Schema) (hS : SchemaOk S) : ∀ (l : List Node), (∀ k, k ∈ l → NodeWF S k) →
    ∀ fuel, kidsDepth l ≤ fuel → S.kidsOfJ fuel (S.kidsToJ l) = .ok l
  | [], _, fuel, _ => by rw [kidsToJ_nil, kidsOfJ_nil]
  | n :: ns, h, fuel, hf => by
    rw [kidsDepth_cons] at hf
    rw [kidsToJ_cons]
    exact kidsOfJ_cons_ok S fuel _ _ n ns
      (node_rt_n S hS n (h n (by simp)) fuel (by omega))
      (node_rt_k S hS ns (fun k hk => h k (by simp [hk])) fuel (by omega))
end

/-- **nodes / documents** (any nesting depth) -/
theorem node_rt (S : Schema) (hS : SchemaOk S) (n : Node) (h : NodeWF S n) (fuel : Nat)
    (hf : nodeDepth n ≤ fuel) : S.nodeOfJ fuel (S.nodeToJ n) = .ok n := by
  exact node_rt_n S hS n h fuel hf

/-- **fragments** -/
theorem frag_rt (S : Schema) (hS : SchemaOk S) (l : List Node) (h : ∀ k, k ∈ l → NodeWF S k) (fuel : Nat)
    (hf : kidsDepth l ≤ fuel) : S.fragOfJ fuel (some (S.fragToJ l)) = .ok l := by
  exact fragOfJ_fragToJ S fuel l (node_rt_k S hS l h fuel hf)

/-- **slices** (open depths default to 0 when omitted) -/
theorem slice_rt (S : Schema) (hS : SchemaOk S) (sl : Slice) (h : SliceWF S sl) (fuel : Nat)
    (hf : kidsDepth sl.content ≤ fuel) : S.sliceOfJ fuel (some (S.sliceToJ sl)) = .ok sl := by
  exact sliceOfJ_sliceToJ S fuel sl h.2 (node_rt_k S hS _ h.1 fuel hf)

/-- **steps of all eight kinds**: the decoded step *is* the original step, hence has the identical
    effect (`apply`) and position map (`getMap`) on every document -/
theorem step_rt (S : Schema) (hS : SchemaOk S) (st : Step) (h : StepWF S st) (fuel : Nat)
    (hf : ∀ f t sl b, st = .replace f t sl b → kidsDepth sl.content ≤ fuel)
    (hf' : ∀ f t gf gt sl i b, st = .replaceAround f t gf gt sl i b → kidsDepth sl.content ≤ fuel) :
    S.stepOfJ fuel (S.stepToJ st) = .ok st := by
  cases st with
  | replace f t sl b =>
    exact stepOfJ_replace S fuel f t sl b h.2 (node_rt_k S hS _ h.1 fuel (hf f t sl b rfl))
  | replaceAround f t gf gt sl i b =>
    exact stepOfJ_replaceAround S fuel f t gf gt sl i b h.2
      (node_rt_k S hS _ h.1 fuel (hf' f t gf gt sl i b rfl))
  | addMark f t m => exact stepOfJ_addMark S fuel f t m (mark_rt S hS m h)
  | removeMark f t m => exact stepOfJ_removeMark S fuel f t m (mark_rt S hS m h)
  | addNodeMark p m => exact stepOfJ_addNodeMark S fuel p m (mark_rt S hS m h)
  | removeNodeMark p m => exact stepOfJ_removeNodeMark S fuel p m (mark_rt S hS m h)
  | attr p n v => exact stepOfJ_attr S fuel p n v
  | docAttr n v => exact stepOfJ_docAttr S fuel n v

/-- re-serialising the decoded object gives the identical JSON -/
theorem node_json_stable (S : Schema) (hS : SchemaOk S) (n n' : Node) (h : NodeWF S n) (fuel : Nat)
    (hf : nodeDepth n ≤ fuel) (hd : S.nodeOfJ fuel (S.nodeToJ n) = .ok n') : S.nodeToJ n' = S.nodeToJ n := by
  rw [node_rt S hS n h fuel hf] at hd
  cases hd
  rfl

/-- **registry**: every built-in step type is published under its own name, the eight names are
    distinct, and the decoder dispatches on exactly these -/
theorem registry_names : stepIds.Nodup ∧ stepIds.length = 8 := by
  exact stepIds_nodup

theorem stepToJ_type (S : Schema) (st : Step) :
    ∃ name, (S.stepToJ st).get "stepType" = some (.str name) ∧ name ∈ stepIds := by
  exact stepToJ_stepType S st

theorem stepOfJ_unknown (S : Schema) (fuel : Nat) (kv : List (String × J)) (name : String)
    (h : (J.obj kv).get "stepType" = some (.str name)) (hn : name ∉ stepIds) :
    S.stepOfJ fuel (J.obj kv) = .error .valueError := by
  exact stepOfJ_unknown_aux S fuel kv name h hn

/-! ### arbitrary JSON data (not produced by `to_json`): when the decoders die

  For data sent by a peer the decoders of the code do have internal outcomes: `json_data[k]` on a
  missing key is a `KeyError`, `.get` on a list / number / string an `AttributeError`, a list or dict
  used as a name a `TypeError`.  `PM/Json.lean` models these branch by branch (tied, class by class,
  by the malformed-input stream of `harness/props/c05.py`).  The theorems: (1) under a decidable
  *skeleton* condition on the data — objects where objects are read, the keys read with
  `json_data[k]` present, names not lists / dicts, `attrs` a dict or falsy; names, numbers and
  attribute values arbitrary — no decoder returns `internal`; (2) for marks the exact condition;
  (3) each way of leaving the skeleton does end in `internal` (examples). -/

/-- **no internal error on skeleton-shaped data**, whatever the names, numbers, attribute values,
    nesting (up to `fuel`) and schema -/
theorem ofJ_no_internal (S : Schema) (fuel : Nat) :
    (∀ j, markShaped j = true → S.markOfJ j ≠ .error .internal) ∧
    (∀ j, nodeShaped fuel j = true → S.nodeOfJ fuel j ≠ .error .internal) ∧
    (∀ v, fragShaped fuel v = true → S.fragOfJ fuel v ≠ .error .internal) ∧
    (∀ v, sliceShaped fuel v = true → S.sliceOfJ fuel v ≠ .error .internal) ∧
    (∀ j, stepShaped fuel j = true → S.stepOfJ fuel j ≠ .error .internal) :=
  ⟨markOfJ_no_internal S, (nodeOfJ_kidsOfJ_no_internal S fuel).1, fragOfJ_no_internal S fuel,
    sliceOfJ_no_internal S fuel, stepOfJ_no_internal S fuel⟩

/-- **`Mark.from_json` dies exactly on**: truthy data that is not a dict; a dict without `type`; a
    list or dict as `type`; a known mark type with declared attributes and a truthy non-dict `attrs` -/
theorem markOfJ_internal_iff (S : Schema) (j : J) :
    S.markOfJ j = .error .internal ↔
      j.truthy = true ∧
      ((∀ kv, j ≠ .obj kv) ∨
       ∃ kv, j = .obj kv ∧
        ((J.obj kv).get "type" = none ∨ (∃ l, (J.obj kv).get "type" = some (.arr l)) ∨
         (∃ o, (J.obj kv).get "type" = some (.obj o)) ∨
         ∃ name t, (J.obj kv).get "type" = some (.str name) ∧ S.findMark name = some t ∧
           attrsShaped ((J.obj kv).get "attrs") = false ∧ (S.markType t).attrs ≠ [])) :=
  markOfJ_internal_iff' S j

/-- `compute_attrs` on JSON `attrs` dies exactly on a truthy non-dict when an attribute is declared -/
theorem computeAttrs_internal_iff (decls : List AttrDecl) (v : Option J) :
    computeAttrsJ decls v = .error .internal ↔ attrsShaped v = false ∧ decls ≠ [] :=
  computeAttrsJ_internal_iff decls v

/-- doc(para*), para(text*) with an attribute `id` (default null), text; one mark `em` with attribute `k` -/
private def jS : Schema :=
  { nodes := #[
      { name := "doc", isText := false, isInline := false, isLeaf := false, isAtom := false,
        inlineContent := false, isolating := false, defining := false, code := false,
        dfa := #[⟨true, [(1, 0)]⟩], markSet := some [], attrs := [] },
      { name := "para", isText := false, isInline := false, isLeaf := false, isAtom := false,
        inlineContent := true, isolating := false, defining := false, code := false,
        dfa := #[⟨true, [(2, 0)]⟩], markSet := none, attrs := [⟨"id", true, "null"⟩] },
      { name := "text", isText := true, isInline := true, isLeaf := true, isAtom := true,
        inlineContent := false, isolating := false, defining := false, code := false,
        dfa := #[⟨true, []⟩], markSet := some [], attrs := [] }],
    marks := #[{ name := "em", excluded := [0], inclusive := true, attrs := [⟨"k", true, "null"⟩] }],
    top := 0, textTy := 2 }

private theorem jS_para : jS.findNode "para" = some 1 := by decide
private theorem jS_nosuch : jS.findNode "nosuch" = none := by decide
private theorem jS_em : jS.findMark "em" = some 0 := by decide
private theorem jS_alsono : jS.findMark "alsono" = none := by decide
private theorem jS_para_attrs : (jS.nodeType 1).attrs = [⟨"id", true, "null"⟩] := rfl
private theorem jS_em_attrs : (jS.markType 0).attrs = [⟨"k", true, "null"⟩] := rfl

/-- **the shapes on which the decoders die** (each checked against the code by the malformed-input
    stream): outside the skeleton every decoder has an `internal` outcome -/
theorem ofJ_internal_shapes :
    -- nodes: truthy non-dict; no `type`; text node without `text`; truthy non-dict `attrs`; a bad mark
    errClass (jS.nodeOfJ 5 (.arr [.num 1])) = some .internal ∧
    errClass (jS.nodeOfJ 5 (.num 7)) = some .internal ∧
    errClass (jS.nodeOfJ 5 (.obj [("content", .arr [])])) = some .internal ∧
    errClass (jS.nodeOfJ 5 (.obj [("type", .str "text")])) = some .internal ∧
    errClass (jS.nodeOfJ 5 (.obj [("type", .str "para"), ("attrs", .arr [.num 1])])) = some .internal ∧
    errClass (jS.nodeOfJ 5 (.obj [("type", .str "para"), ("marks", .arr [.num 1])])) = some .internal ∧
    errClass (jS.nodeOfJ 5 (.obj [("type", .str "doc"), ("content", .arr [.num 1])])) = some .internal ∧
    -- marks: truthy non-dict; no `type`; list as `type`; truthy non-dict `attrs`
    errClass (jS.markOfJ (.str "em")) = some .internal ∧
    errClass (jS.markOfJ (.obj [("attrs", .obj [])])) = some .internal ∧
    errClass (jS.markOfJ (.obj [("type", .arr [])])) = some .internal ∧
    errClass (jS.markOfJ (.obj [("type", .str "em"), ("attrs", .num 1)])) = some .internal ∧
    -- slices: truthy non-dict (a string is not parsed here)
    errClass (jS.sliceOfJ 5 (some (.str "x"))) = some .internal ∧
    errClass (jS.sliceOfJ 5 (some (.arr [.num 1]))) = some .internal ∧
    -- steps: truthy non-dict; list as `stepType`; a key read with `json_data[k]` missing
    errClass (jS.stepOfJ 5 (.arr [.num 1])) = some .internal ∧
    errClass (jS.stepOfJ 5 (.obj [("stepType", .arr [.num 1])])) = some .internal ∧
    errClass (jS.stepOfJ 5 (.obj [("stepType", .str "replace"), ("to", .num 1)])) = some .internal ∧
    errClass (jS.stepOfJ 5 (.obj [("stepType", .str "replace"), ("from", .num 1)])) = some .internal ∧
    errClass (jS.stepOfJ 5 (.obj [("stepType", .str "replaceAround"), ("from", .num 0), ("to", .num 2),
      ("gapFrom", .num 1), ("gapTo", .num 1)])) = some .internal ∧
    errClass (jS.stepOfJ 5 (.obj [("stepType", .str "addMark"), ("from", .num 0), ("to", .num 2)])) = some .internal ∧
    errClass (jS.stepOfJ 5 (.obj [("stepType", .str "addNodeMark"), ("mark", .obj [("type", .str "em")])])) = some .internal ∧
    errClass (jS.stepOfJ 5 (.obj [("stepType", .str "attr"), ("pos", .num 0), ("attr", .str "id")])) = some .internal ∧
    errClass (jS.stepOfJ 5 (.obj [("stepType", .str "docAttr"), ("value", .raw "1")])) = some .internal ∧
    errClass (jS.stepOfJ 5 (.obj [("stepType", .str "replace"), ("from", .num 0), ("to", .num 0),
      ("slice", .num 1)])) = some .internal ∧
    -- … while wrong *values* in the right skeleton are refused with a ValueError
    errClass (jS.stepOfJ 5 (.obj [("stepType", .str "replace"), ("from", .str "0"), ("to", .num 0)])) = some .valueError ∧
    errClass (jS.stepOfJ 5 (.obj [("stepType", .str "nosuch")])) = some .valueError ∧
    errClass (jS.nodeOfJ 5 (.obj [("type", .str "nosuch")])) = some .valueError ∧
    errClass (jS.nodeOfJ 5 (.obj [("type", .num 7)])) = some .valueError ∧
    errClass (jS.markOfJ (.obj [("type", .num 7)])) = some .valueError := by
  simp [errClass, Schema.nodeOfJ, Schema.kidsOfJ, Schema.marksOfJ, Schema.markOfJ, Schema.sliceOfJ,
    Schema.stepOfJ, Schema.markField, intField, J.truthy, J.get, stepIds,
    computeAttrsJ, computeAttrs, Except.map, Functor.map, bind, Except.bind, jS_para, jS_nosuch, jS_em, jS_para_attrs,
    jS_em_attrs]

/-- non-vacuity of the skeleton condition: a step from a peer with an unknown mark name and a node
    of unknown type inside is shaped (and refused with a ValueError, not an internal error) -/
example :
    stepShaped 5 (.obj [("stepType", .str "replace"), ("from", .num 0), ("to", .num 9),
      ("slice", .obj [("content", .arr [.obj [("type", .str "nosuch"),
        ("marks", .arr [.obj [("type", .str "alsono")]])]])])]) = true ∧
    errClass (jS.stepOfJ 5 (.obj [("stepType", .str "replace"), ("from", .num 0), ("to", .num 9),
      ("slice", .obj [("content", .arr [.obj [("type", .str "nosuch"),
        ("marks", .arr [.obj [("type", .str "alsono")]])]])])])) = some .valueError := by
  simp [errClass, stepShaped, sliceShaped, fragShaped, nodeShaped, kidsShaped, marksShaped, markShaped,
    attrsShaped, Schema.nodeOfJ, Schema.kidsOfJ, Schema.marksOfJ, Schema.markOfJ, Schema.sliceOfJ,
    Schema.fragOfJ, Schema.stepOfJ, intField, openOfJ, J.truthy, J.get, stepIds, Except.map, Functor.map, bind, Except.bind,
    jS_alsono]

end PM.C05
