/-
  Props/C10.lean — C10: documents and their parts are immutable values.
  A pure model cannot prove the absence of in-place mutation: purity is its modelling assumption.
  The Lean part of this property is therefore thin and labelled *partial*:
  * `Gen/Effects.lean` (regenerated from the source on every run): every syntactic mutation site of
    the library is classified as harmless — `PM.Gen.no_external_mutation`, by `decide +kernel`;
  * the frame theorems below: the two documented accumulators (a transform, a mapping being
    appended to) change only by appending.
-/
import PM.Transform
import PM.Map
namespace PM.C10
open PM

/-- **a transform only ever appends**: after attempting any step, the previously recorded steps,
    documents and maps are a prefix of the new ones (and nothing is recorded when the step is rejected) -/
theorem transform_append_only (S : Schema) (tr : Tr) (st : Step) :
    (∃ d, tr.maybeStep S st = { doc := d, steps := tr.steps ++ [st], docs := tr.docs ++ [tr.doc], maps := tr.maps ++ [st.getMap] }) ∨
    tr.maybeStep S st = tr := by
  unfold Tr.maybeStep
  cases h : S.apply st tr.doc with
  | ok d => left; exact ⟨d, by simp [Tr.addStep]⟩
  | error e => right; rfl

/-- over a whole history: the recorded lists of the start are prefixes of the recorded lists at the end -/
theorem history_prefix (S : Schema) (tr : Tr) (sts : List Step) :
    tr.steps <+: (tr.run S sts).steps ∧ tr.docs <+: (tr.run S sts).docs ∧ tr.maps <+: (tr.run S sts).maps := by
  induction sts generalizing tr with
  | nil => simp [Tr.run]
  | cons st rest ih =>
    have h := ih (tr.maybeStep S st)
    simp only [Tr.run, List.foldl_cons] at h ⊢
    rcases transform_append_only S tr st with ⟨d, hd⟩ | hd
    · have e1 : (tr.maybeStep S st).steps = tr.steps ++ [st] := by rw [hd]
      have e2 : (tr.maybeStep S st).docs = tr.docs ++ [tr.doc] := by rw [hd]
      have e3 : (tr.maybeStep S st).maps = tr.maps ++ [st.getMap] := by rw [hd]
      rw [e1, e2, e3] at h
      exact ⟨(List.prefix_append _ _).trans h.1, (List.prefix_append _ _).trans h.2.1, (List.prefix_append _ _).trans h.2.2⟩
    · rw [hd] at h ⊢; exact h

/-- **a mapping being appended to only appends** -/
theorem mapping_append_only (mp : Mapping) (sm : StepMap) (mirrors : Option Nat) :
    (mp.appendMap sm mirrors).maps = mp.maps ++ [sm] ∧ mp.mirror <+: (mp.appendMap sm mirrors).mirror := by
  unfold Mapping.appendMap
  cases mirrors with
  | none => simp
  | some k => simp [Mapping.setMirror]

end PM.C10
