/-
  Props/C03.lean — C03: a step's position map describes exactly what the step did to the document.
  Token-level semantics of the steps: Proofs/StepToks.lean.  Helper lemmas: Proofs/StepMap.lean.
-/
import PM.Step
import PM.Transform
import Proofs.StepToks
import Proofs.StepMap
namespace PM.C03
open PM

/-- Σ (new − old) over the ranges of a map -/
def mapDelta (m : StepMap) : Int := (m.ranges.map (fun r => r.2.2 - r.2.1)).sum

/-- token index `i` lies outside every replaced range of the map -/
def outside (m : StepMap) (i : Int) : Prop := ∀ r, r ∈ m.ranges → i < r.1 ∨ r.1 + r.2.1 ≤ i

/-- **replace step**: size changes by the map's delta, and every old token outside the replaced
    range is found unchanged at the mapped position -/
theorem replace_map_faithful (S : Schema) (doc doc' : Node) (f t : Nat) (sl : Slice) (st : Bool)
    (h : S.apply (.replace f t sl st) doc = .ok doc') :
    let m := (Step.replace f t sl st).getMap
    (fsize doc'.kids : Int) - fsize doc.kids = mapDelta m ∧
    ∀ i : Nat, i < fsize doc.kids → outside m i →
      (ftoks doc'.kids)[(m.map i 1).toNat]? = (ftoks doc.kids)[i]? := by
  sorry

/-- **replace-around step**: two ranges around the preserved gap -/
theorem replaceAround_map_faithful (S : Schema) (doc doc' : Node) (f t gf gt : Nat) (sl : Slice)
    (ins : Nat) (st : Bool) (hwf : sl.wf = true) (hins : (ins : Int) ≤ sl.size)
    (hg : f ≤ gf ∧ gf ≤ gt ∧ gt ≤ t)
    (h : S.apply (.replaceAround f t gf gt sl ins st) doc = .ok doc') :
    let m := (Step.replaceAround f t gf gt sl ins st).getMap
    (fsize doc'.kids : Int) - fsize doc.kids = mapDelta m ∧
    ∀ i : Nat, i < fsize doc.kids → outside m i →
      (ftoks doc'.kids)[(m.map i 1).toNat]? = (ftoks doc.kids)[i]? := by
  sorry

/-- **mark, node-mark, attribute and doc-attribute steps** report the empty map, keep the size, and
    keep structure and text token by token (only markup of tokens changes) -/
theorem markup_steps_empty_map (S : Schema) (doc doc' : Node) (st : Step)
    (hk : ∀ f t sl b, st ≠ .replace f t sl b) (hk' : ∀ f t gf gt sl i b, st ≠ .replaceAround f t gf gt sl i b)
    (h : S.apply st doc = .ok doc') :
    st.getMap = ⟨[], false⟩ ∧
    (ftoks doc'.kids).map Tok.shape = (ftoks doc.kids).map Tok.shape ∧
    ∀ p a, st.getMap.map p a = p := by
  sorry

/-- consequently: a position outside the changed ranges, mapped through the step, points at the
    same content (the token after it) as before -/
theorem mapped_position_same_content (S : Schema) (doc doc' : Node) (f t : Nat) (sl : Slice) (st : Bool)
    (h : S.apply (.replace f t sl st) doc = .ok doc') (p : Nat) (hp : p < f ∨ t ≤ p) (hps : p < fsize doc.kids) :
    ((ftoks doc'.kids).drop ((Step.replace f t sl st).getMap.map p 1).toNat).head? = ((ftoks doc.kids).drop p).head? := by
  sorry

/-- **Transform.mapping is the list of the recorded steps' maps**, whatever was attempted -/
theorem mapping_is_step_maps (S : Schema) (doc : Node) (sts : List Step) :
    ((Tr.init doc).run S sts).maps = ((Tr.init doc).run S sts).steps.map Step.getMap := by
  sorry

end PM.C03
