import PM.Step
namespace PM.C03
end PM.C03
